(* The crate-decoder MODEL (Model/Wire.v) reads the same content as the independent REFERENCE
   parser (Model/Rfc1035.v) on every datagram the reference parser accepts and whose content
   is within the decoder's vocabulary (UTF-8 labels, names whose dotted text re-splits into
   labels of at most 63 bytes (Wire.name_fits), record types PTR/CNAME/SRV/TXT/A/AAAA with A of
   4 and AAAA of 16 octets, question types known to RRType::from_u16).

   No statement had to be weakened: there is no `_partial` item in this file. *)
From Coq Require Import List NArith Bool Lia Arith PeanoNat ZifyBool ZifyNat ZifyN.
From Mdns Require Import Res Bytes Utf8 Rec Wire WireOut Rfc1035 C02Spec WireProofs EscapeProofs.
Import ListNotations.
Open Scope N_scope.

#[local] Arguments N.add : simpl never.
#[local] Arguments N.sub : simpl never.
#[local] Arguments N.mul : simpl never.
#[local] Arguments N.eqb : simpl never.
#[local] Arguments N.ltb : simpl never.
#[local] Arguments N.leb : simpl never.
#[local] Arguments N.land : simpl never.
#[local] Arguments N.of_nat : simpl never.
#[local] Arguments N.to_nat : simpl never.

(* ================================================================================== *)
(* A. Names                                                                           *)
(* ================================================================================== *)

Definition labels_ok (ls : rlabels) : Prop :=
  Forall (fun l => l <> [] /\ utf8_valid l = true) ls.

Definition label_okb (l : bytes) : bool :=
  match l with [] => false | _ :: _ => utf8_valid l end.
Definition labels_okb (ls : rlabels) : bool := forallb label_okb ls.

Lemma labels_okb_ok ls : labels_okb ls = true <-> labels_ok ls.
Proof.
  unfold labels_okb, labels_ok. rewrite forallb_forall, Forall_forall.
  split; intros H l Hl; specialize (H l Hl); destruct l as [|b t]; cbn [label_okb] in *.
  - discriminate.
  - split; [discriminate|exact H].
  - destruct H as [H _]. congruence.
  - apply H.
Qed.

Lemma wf_skipn k : forall d, wf_bytes d -> wf_bytes (skipn k d).
Proof.
  unfold wf_bytes. induction k as [|k IH]; intros d H; [exact H|].
  destruct d as [|x d]; [constructor|]. cbn [skipn]. apply IH. inversion H; assumption.
Qed.

(* facts about one byte, by enumeration *)
Definition byte_prop (l : N) : bool :=
  if l <? 64 then N.land l 192 =? 0
  else if 192 <=? l then (N.land l 192 =? 192) && (N.land l 63 =? l - 192)
  else true.

Lemma byte_cases (P : N -> bool) :
  forallb P (map N.of_nat (seq 0 256)) = true -> forall l, l < 256 -> P l = true.
Proof.
  intros H l Hl. rewrite forallb_forall in H. apply H. apply in_map_iff.
  exists (N.to_nat l). split; [lia|]. apply in_seq. lia.
Qed.

Lemma byte_prop_ok l : l < 256 -> byte_prop l = true.
Proof. apply byte_cases. vm_compute. reflexivity. Qed.

Lemma byte_small l : l < 256 -> l <? 64 = true -> N.land l 192 = 0.
Proof.
  intros Hl H. pose proof (byte_prop_ok l Hl) as P. unfold byte_prop in P. rewrite H in P.
  apply N.eqb_eq. exact P.
Qed.

Lemma byte_ptr l : l < 256 -> 192 <=? l = true -> N.land l 192 = 192 /\ N.land l 63 = l - 192.
Proof.
  intros Hl H. pose proof (byte_prop_ok l Hl) as P. unfold byte_prop in P.
  destruct (l <? 64) eqn:E; [lia|]. rewrite H in P.
  apply andb_true_iff in P as [P1 P2]. apply N.eqb_eq in P1, P2. split; assumption.
Qed.

Lemma dotted_cons l ls : dotted (l :: ls) = (l ++ [46]) ++ dotted ls.
Proof. reflexivity. Qed.

Lemma dotted_app a b : dotted (a ++ b) = dotted a ++ dotted b.
Proof. unfold dotted. apply flat_map_app. Qed.

(* one run of labels: the decoder's run accumulates the dotted text of the labels the
   reference run collects, stops at the same place and (for a pointer) sees the same target *)
Lemma run_rn fuel : forall rest off acc,
  wf_bytes rest ->
  match run fuel rest off with
  | RunEnd ls n => labels_ok ls -> rn_labels fuel rest off acc = LEnd (acc ++ dotted ls) n
  | RunPtr ls n t => labels_ok ls -> rn_labels fuel rest off acc = LPtr (acc ++ dotted ls) n t
  | RunBad => True
  end.
Proof.
  induction fuel as [|f IH]; intros rest off acc Hwf; cbn [run rn_labels]; [exact I|].
  destruct rest as [|l tl]; [exact I|].
  inversion Hwf as [|? ? Hl Htl]; subst.
  destruct (l =? 0) eqn:E0.
  { intros _. cbn [dotted flat_map]. rewrite app_nil_r. reflexivity. }
  destruct (l <? 64) eqn:E64.
  - rewrite (byte_small l Hl E64). change (0 =? 0) with true. cbv iota.
    destruct (Nat.ltb (length tl) (N.to_nat l)) eqn:E2; [exact I|].
    specialize (IH (skipn (N.to_nat l) tl) (off + 1 + l)
                   (acc ++ firstn (N.to_nat l) tl ++ [46]) (wf_skipn _ _ Htl)).
    destruct (run f (skipn (N.to_nat l) tl) (off + 1 + l)) as [ls n|ls n t|]; [| |exact I];
      intros Hok; inversion Hok as [|? ? [_ Hu] Hok']; subst; rewrite Hu, (IH Hok');
      rewrite dotted_cons, <- !app_assoc; reflexivity.
  - destruct (192 <=? l) eqn:E192; [|exact I].
    destruct tl as [|b1 tl']; [exact I|]. intros _.
    destruct (byte_ptr l Hl E192) as [H1 H2]. rewrite H1, H2.
    change (192 =? 0) with false. change (192 =? 192) with true. cbv iota.
    cbn [dotted flat_map]. rewrite app_nil_r. reflexivity.
Qed.

Lemma ref_name_from_rn jumps : forall d off limit ls n acc ret,
  wf_bytes d -> ref_name_from jumps d off limit = Some (ls, n) -> labels_ok ls ->
  read_name_from jumps d off limit acc ret
  = Ok (acc ++ dotted ls, match ret with Some r => r | None => n end).
Proof.
  induction jumps as [|j IH]; intros d off limit ls n acc ret Hwf H Hok; [discriminate|].
  cbn [ref_name_from] in H. cbn [read_name_from].
  pose proof (run_rn (S (length (skipn (N.to_nat off) d))) (skipn (N.to_nat off) d) off acc
                (wf_skipn _ _ Hwf)) as Hr.
  destruct (run (S (length (skipn (N.to_nat off) d))) (skipn (N.to_nat off) d) off)
    as [ls1 n1|ls1 n1 t|] eqn:Er; [| |discriminate].
  - injection H as Hls Hn. subst ls1 n1. rewrite (Hr Hok). reflexivity.
  - destruct (limit <=? t) eqn:El; [discriminate|].
    destruct (ref_name_from j d t t) as [[ls' n']|] eqn:Ej; [|discriminate].
    injection H as Hls Hn. subst ls n1. apply Forall_app in Hok as [Hok1 Hok2].
    rewrite (Hr Hok1), El.
    rewrite (IH d t t ls' n' (acc ++ dotted ls1)
               (Some match ret with Some r => r | None => n end) Hwf Ej Hok2).
    rewrite dotted_app, app_assoc. reflexivity.
Qed.

(* the loop of read_name, before the name_fits test *)
Lemma read_name_raw_ref : forall d off ls n,
  wf_bytes d -> ref_name d off = Some (ls, n) -> labels_ok ls ->
  read_name_raw d off = Ok (dotted ls, n).
Proof.
  intros d off ls n Hwf H Hok. unfold read_name_raw, ref_name in *.
  rewrite (ref_name_from_rn _ _ _ _ _ _ [] None Hwf H Hok). reflexivity.
Qed.

(* Target A *)
Lemma read_name_ref : forall d off ls n,
  wf_bytes d -> ref_name d off = Some (ls, n) -> labels_ok ls ->
  name_fits (dotted ls) = true ->
  read_name d off = Ok (dotted ls, n).
Proof.
  intros d off ls n Hwf H Hok Hfit. unfold read_name.
  rewrite (read_name_raw_ref d off ls n Hwf H Hok). cbn [bind]. rewrite Hfit. reflexivity.
Qed.

(* without the hypothesis, the decoder rejects exactly when the dotted text does not fit *)
Lemma read_name_ref_unfit : forall d off ls n,
  wf_bytes d -> ref_name d off = Some (ls, n) -> labels_ok ls ->
  name_fits (dotted ls) = false -> read_name d off = Err.
Proof.
  intros d off ls n Hwf H Hok Hfit. unfold read_name.
  rewrite (read_name_raw_ref d off ls n Hwf H Hok). cbn [bind]. rewrite Hfit. reflexivity.
Qed.

(* ---- the name_fits condition is harmless for ordinary names: labels of 1..63 bytes
        without '.' and '\' re-split into themselves ---- *)

Lemma pen_simple : forall l s cur acc, ~ In 46 l -> ~ In 92 l ->
  pen (l ++ s) cur acc = pen s (cur ++ l) acc.
Proof.
  induction l as [|c l IH]; intros s cur acc H46 H92.
  - cbn [app]. rewrite app_nil_r. reflexivity.
  - cbn [app pen]. unfold BSL, DOT.
    destruct (c =? 92) eqn:E92; [apply N.eqb_eq in E92; subst c; exfalso; apply H92; left; reflexivity|].
    destruct (c =? 46) eqn:E46; [apply N.eqb_eq in E46; subst c; exfalso; apply H46; left; reflexivity|].
    rewrite IH; [|intros Hin; apply H46; right; exact Hin|intros Hin; apply H92; right; exact Hin].
    rewrite <- app_assoc. reflexivity.
Qed.

Definition simple_label (l : bytes) : Prop := l <> [] /\ ~ In 46 l /\ ~ In 92 l.

Lemma pen_dotted_simple : forall ls s acc, Forall simple_label ls ->
  pen (dotted ls ++ s) [] acc = pen s [] (rev ls ++ acc).
Proof.
  induction ls as [|l t IH]; intros s acc H; [reflexivity|].
  inversion H as [|? ? (Hne & H46 & H92) Ht]; subst.
  rewrite dotted_cons, <- !app_assoc. rewrite pen_simple by assumption.
  cbn [app pen]. change (DOT =? BSL) with false. cbv iota. rewrite N.eqb_refl.
  destruct l as [|x l]; [congruence|]. cbn [push_label].
  rewrite IH by exact Ht. cbn [rev]. rewrite <- app_assoc. reflexivity.
Qed.

Lemma name_labels_dotted_simple : forall ls, Forall simple_label ls ->
  name_labels (dotted ls) = ls.
Proof.
  intros ls H. destruct ls as [|l0 t0] using rev_ind; [reflexivity|]. clear IHt0.
  apply Forall_app in H as [Ht Hl]. inversion Hl as [|? ? (Hne & H46 & H92) _]; subst.
  unfold name_labels. rewrite dotted_app. cbn [dotted flat_map]. rewrite app_nil_r, !app_assoc.
  change [46] with [DOT]. rewrite strip_dot_app_dot. unfold parse_escaped_name.
  rewrite pen_dotted_simple by exact Ht.
  rewrite <- (app_nil_r l0) at 1. rewrite pen_simple by assumption.
  cbn [pen app]. destruct l0 as [|x l0]; [congruence|]. cbn [push_label rev].
  rewrite app_nil_r, rev_involutive. reflexivity.
Qed.

Lemma dotted_fits_simple : forall ls,
  Forall (fun l => l <> [] /\ (length l <= 63)%nat /\ ~ In 46 l /\ ~ In 92 l) ls ->
  name_fits (dotted ls) = true.
Proof.
  intros ls H. unfold name_fits. rewrite name_labels_dotted_simple.
  - apply forallb_forall. intros l Hl. rewrite Forall_forall in H.
    destruct (H l Hl) as (_ & Hlen & _). unfold blen. lia.
  - eapply Forall_impl; [|exact H]. intros l (Hne & _ & H46 & H92). repeat split; assumption.
Qed.

(* ================================================================================== *)
(* B. Entries                                                                         *)
(* ================================================================================== *)

(* ---- fixed-width fields ---- *)

Lemma nth_error_skipn_cons : forall k (d : bytes) a,
  nth_error d k = Some a -> skipn k d = a :: skipn (S k) d.
Proof.
  induction k as [|k IH]; intros [|x d] a H; cbn [nth_error] in H; try discriminate.
  - injection H as Hx. subst x. reflexivity.
  - cbn [skipn]. apply IH in H. exact H.
Qed.

Lemma nth_error_len {A} (d : list A) k a : nth_error d k = Some a -> (k < length d)%nat.
Proof. intros H. apply nth_error_Some. congruence. Qed.

Lemma ref_u16_at d off v :
  ref_u16 d off = Some v -> u16_at d off = Ok v /\ off + 2 <= len d.
Proof.
  unfold ref_u16, nth_byte. intros H.
  destruct (nth_error d (N.to_nat off)) as [a|] eqn:Ea; [|discriminate].
  destruct (nth_error d (N.to_nat (off + 1))) as [b|] eqn:Eb; [|discriminate].
  injection H as Hv. subst v.
  replace (N.to_nat (off + 1)) with (S (N.to_nat off)) in Eb by lia.
  pose proof (nth_error_len _ _ _ Eb) as Hlen.
  assert (Hle : off + 2 <= len d) by (unfold len; lia).
  split; [|exact Hle].
  unfold u16_at, slice. destruct (off + 2 <=? len d) eqn:E; [|lia].
  rewrite (nth_error_skipn_cons _ _ _ Ea), (nth_error_skipn_cons _ _ _ Eb).
  change (N.to_nat 2) with 2%nat. cbn [firstn bind]. reflexivity.
Qed.

Lemma ref_u32_at d off v :
  ref_u32 d off = Some v -> u32_at d off = Ok v /\ off + 4 <= len d.
Proof.
  unfold ref_u32, ref_u16, nth_byte. intros H.
  destruct (nth_error d (N.to_nat off)) as [b0|] eqn:E0; [|discriminate].
  destruct (nth_error d (N.to_nat (off + 1))) as [b1|] eqn:E1; [|discriminate].
  destruct (nth_error d (N.to_nat (off + 2))) as [b2|] eqn:E2; [|discriminate].
  destruct (nth_error d (N.to_nat (off + 2 + 1))) as [b3|] eqn:E3; [|discriminate].
  injection H as Hv. subst v.
  replace (N.to_nat (off + 1)) with (S (N.to_nat off)) in E1 by lia.
  replace (N.to_nat (off + 2)) with (S (S (N.to_nat off))) in E2 by lia.
  replace (N.to_nat (off + 2 + 1)) with (S (S (S (N.to_nat off)))) in E3 by lia.
  pose proof (nth_error_len _ _ _ E3) as Hlen.
  assert (Hle : off + 4 <= len d) by (unfold len; lia).
  split; [|exact Hle].
  unfold u32_at, slice. destruct (off + 4 <=? len d) eqn:E; [|lia].
  rewrite (nth_error_skipn_cons _ _ _ E0), (nth_error_skipn_cons _ _ _ E1),
          (nth_error_skipn_cons _ _ _ E2), (nth_error_skipn_cons _ _ _ E3).
  change (N.to_nat 4) with 4%nat. cbn [firstn bind]. f_equal. lia.
Qed.

Lemma ref_bytes_slice d off n b :
  ref_bytes d off n = Some b ->
  slice d off n = Ok b /\ off + n <= len d /\ length b = N.to_nat n.
Proof.
  unfold ref_bytes, slice, len. intros H.
  destruct (off + n <=? N.of_nat (length d)) eqn:E; [|discriminate].
  injection H as Hb. subst b. split; [reflexivity|]. split; [lia|].
  apply firstn_length_le. rewrite skipn_length. lia.
Qed.

Lemma read_u16_ref d off v :
  ref_u16 d off = Some v -> read_u16 d off = Ok (v, off + 2).
Proof.
  intros H. apply ref_u16_at in H as [H Hle]. unfold read_u16.
  destruct (len d - off <? 2) eqn:E; [lia|]. rewrite H. reflexivity.
Qed.

(* ---- vocabulary ---- *)

(* a name the decoder accepts: UTF-8 labels whose dotted text passes the decoder's
   name_fits test (every label of the re-split text is at most 63 bytes) *)
Definition name_fitsb_labels (ls : rlabels) : bool := name_fits (dotted ls).
Definition name_okb (ls : rlabels) : bool := labels_okb ls && name_fitsb_labels ls.

Lemma name_okb_inv ls : name_okb ls = true -> labels_ok ls /\ name_fits (dotted ls) = true.
Proof.
  unfold name_okb, name_fitsb_labels. intros H. apply andb_true_iff in H as [H1 H2].
  apply labels_okb_ok in H1. split; assumption.
Qed.

Definition rdata_in_vocab (ty : N) (rd : ref_rdata) : bool :=
  match rd with
  | FName ls => name_okb ls
  | FSrv _ _ _ ls => name_okb ls
  | FRaw b => (ty =? 16) || ((ty =? 1) && (blen b =? 4)) || ((ty =? 28) && (blen b =? 16))
  end.

Definition rr_in_vocab (r : ref_rr) : bool :=
  name_okb (fr_name r) && rdata_in_vocab (fr_type r) (fr_data r).

Definition q_in_vocab (q : ref_q) : bool :=
  name_okb (fq_name q) && known_type (fq_type q).

(* within the vocabulary, the presentation exists *)
Lemma rdata_in_vocab_present ty rd :
  rdata_in_vocab ty rd = true -> exists x, present_rdata ty rd = Some x.
Proof.
  destruct rd as [b|ls|p w po ls]; cbn [rdata_in_vocab present_rdata];
    [|eexists; reflexivity|eexists; reflexivity].
  destruct (ty =? 16); [eexists; reflexivity|].
  destruct (ty =? 1); [eexists; reflexivity|].
  destruct (ty =? 28); [eexists; reflexivity|].
  cbn [orb andb]. intros H. discriminate H.
Qed.

Lemma rr_in_vocab_present resp r :
  rr_in_vocab r = true -> exists pr, present_rr resp r = Some pr.
Proof.
  unfold rr_in_vocab, present_rr. intros H. apply andb_true_iff in H as [_ H].
  destruct (rdata_in_vocab_present _ _ H) as [x Hx]. rewrite Hx. eauto.
Qed.

(* ---- RDATA ---- *)

Lemma read_rdata_ref d ty off rdlen rd x :
  wf_bytes d -> ref_rdata_at d ty off rdlen = Some rd -> rdata_in_vocab ty rd = true ->
  present_rdata ty rd = Some x ->
  known_type ty = true /\ off + rdlen <= len d /\
  read_rdata d ty off rdlen = Ok (Some x, off + rdlen).
Proof.
  intros Hwf H Hv Hp. unfold ref_rdata_at in H.
  destruct ((ty =? 12) || (ty =? 5)) eqn:Eptr.
  { destruct (ref_name d off) as [[ls o]|] eqn:En; [|discriminate].
    destruct (o =? off + rdlen) eqn:Eo; [|discriminate]. apply N.eqb_eq in Eo. subst o.
    injection H as Hrd. subst rd. cbn [rdata_in_vocab present_rdata] in Hv, Hp.
    injection Hp as Hx. subst x. apply name_okb_inv in Hv as [Hv Hfit].
    pose proof (read_name_ref d off ls _ Hwf En Hv Hfit) as Hn.
    pose proof (read_name_offset _ _ _ _ Hn) as [_ Hle].
    split; [|split; [exact Hle|]].
    - unfold known_type. apply orb_true_iff in Eptr as [E|E]; rewrite E;
        rewrite ?orb_true_r; reflexivity.
    - unfold read_rdata, TY_CNAME, TY_PTR. rewrite (orb_comm (ty =? 5)), Eptr, Hn. reflexivity. }
  apply orb_false_iff in Eptr as [E12 E5].
  destruct (ty =? 33) eqn:E33.
  { apply N.eqb_eq in E33. subst ty.
    destruct (ref_u16 d off) as [p|] eqn:Ep; [|discriminate].
    destruct (ref_u16 d (off + 2)) as [w|] eqn:Ew; [|discriminate].
    destruct (ref_u16 d (off + 4)) as [po|] eqn:Epo; [|discriminate].
    destruct (ref_name d (off + 6)) as [[ls o]|] eqn:En; [|discriminate].
    destruct (o =? off + rdlen) eqn:Eo; [|discriminate]. apply N.eqb_eq in Eo. subst o.
    injection H as Hrd. subst rd. cbn [rdata_in_vocab present_rdata] in Hv, Hp.
    injection Hp as Hx. subst x. apply name_okb_inv in Hv as [Hv Hfit].
    pose proof (read_name_ref d (off + 6) ls _ Hwf En Hv Hfit) as Hn.
    pose proof (read_name_offset _ _ _ _ Hn) as [_ Hle].
    split; [reflexivity|]. split; [exact Hle|].
    change (read_rdata d 33 off rdlen) with
      (let? (p, o1) := read_u16 d off in
       let? (w, o2) := read_u16 d o1 in
       let? (po, o3) := read_u16 d o2 in
       let? (h, o4) := read_name d o3 in
       Ok (Some (RSrv p w po h), o4)).
    rewrite (read_u16_ref _ _ _ Ep). cbn [bind].
    rewrite (read_u16_ref _ _ _ Ew). cbn [bind].
    replace (off + 2 + 2) with (off + 4) by lia.
    rewrite (read_u16_ref _ _ _ Epo). cbn [bind].
    replace (off + 4 + 2) with (off + 6) by lia.
    rewrite Hn. reflexivity. }
  destruct (ref_bytes d off rdlen) as [b|] eqn:Eb; [|discriminate].
  injection H as Hrd. subst rd. cbn [rdata_in_vocab present_rdata] in Hv, Hp.
  apply ref_bytes_slice in Eb as (Hs & Hle & Hlen).
  destruct (ty =? 16) eqn:E16.
  { apply N.eqb_eq in E16. subst ty. injection Hp as Hx. subst x.
    split; [reflexivity|]. split; [exact Hle|].
    change (read_rdata d 16 off rdlen) with
      (let? (t, o) := read_vec d off rdlen in Ok (Some (RTxt t), o)).
    unfold read_vec. destruct (len d <? off + rdlen) eqn:E; [lia|]. rewrite Hs. reflexivity. }
  cbn [orb] in Hv. unfold blen in Hv.
  destruct (ty =? 1) eqn:E1.
  { apply N.eqb_eq in E1. subst ty. cbn [orb andb] in Hv, Hp. injection Hp as Hx. subst x.
    assert (rdlen = 4) by lia. subst rdlen.
    split; [reflexivity|]. split; [exact Hle|].
    change (read_rdata d 1 off 4) with
      (if len d <? off + 4 then Err
       else let? s := slice d off 4 in Ok (Some (RAddr s), off + 4)).
    destruct (len d <? off + 4) eqn:E; [lia|]. rewrite Hs. reflexivity. }
  destruct (ty =? 28) eqn:E28; [|discriminate].
  apply N.eqb_eq in E28. subst ty. cbn [orb andb] in Hv, Hp. injection Hp as Hx. subst x.
  assert (rdlen = 16) by lia. subst rdlen.
  split; [reflexivity|]. split; [exact Hle|].
  change (read_rdata d 28 off 16) with
    (if len d <? off + 16 then Err
     else let? s := slice d off 16 in Ok (Some (RAddr s), off + 16)).
  destruct (len d <? off + 16) eqn:E; [lia|]. rewrite Hs. reflexivity.
Qed.

(* ---- one record (Target B) ---- *)

Lemma read_one_rr_ref : forall d resp off r o pr,
  wf_bytes d -> ref_record d off = Some (r, o) -> rr_in_vocab r = true ->
  present_rr resp r = Some pr ->
  read_one_rr d resp off = Ok (Some pr, o).
Proof.
  intros d resp off r o pr Hwf H Hv Hp. unfold ref_record in H.
  destruct (ref_name d off) as [[ls o1]|] eqn:En; [|discriminate].
  destruct (ref_u16 d o1) as [ty|] eqn:Ety; [|discriminate].
  destruct (ref_u16 d (o1 + 2)) as [cl|] eqn:Ecl; [|discriminate].
  destruct (ref_u32 d (o1 + 4)) as [ttl|] eqn:Ettl; [|discriminate].
  destruct (ref_u16 d (o1 + 8)) as [rdlen|] eqn:Erl; [|discriminate].
  destruct (ref_rdata_at d ty (o1 + 10) rdlen) as [rd|] eqn:Erd; [|discriminate].
  injection H as Hr Ho. subst r o.
  unfold rr_in_vocab in Hv. cbn [fr_name fr_type fr_data] in Hv.
  apply andb_true_iff in Hv as [Hls Hrdv]. apply name_okb_inv in Hls as [Hls Hfit].
  unfold present_rr in Hp. cbn [fr_name fr_type fr_data fr_class fr_ttl] in Hp.
  destruct (present_rdata ty rd) as [x|] eqn:Ex; [|discriminate].
  injection Hp as Hpr. subst pr.
  destruct (read_rdata_ref d ty (o1 + 10) rdlen rd x Hwf Erd Hrdv Ex) as (Hk & Hle & Hrdata).
  apply ref_u16_at in Ety as [Hty _]. apply ref_u16_at in Ecl as [Hcl _].
  apply ref_u32_at in Ettl as [Httl _]. apply ref_u16_at in Erl as [Hrl Hrl10].
  unfold read_one_rr. rewrite (read_name_ref d off ls o1 Hwf En Hls Hfit). cbn [bind].
  destruct (len d - o1 <? 10) eqn:E10; [lia|].
  rewrite Hty, Hcl, Httl, Hrl. cbn [bind]. cbv zeta.
  destruct (len d <? o1 + 10 + rdlen) eqn:En2; [lia|].
  rewrite Hk, Hrdata. cbn [bind]. rewrite N.eqb_refl. reflexivity.
Qed.

(* same, producing the presentation *)
Corollary read_one_rr_ref_ex d resp off r o :
  wf_bytes d -> ref_record d off = Some (r, o) -> rr_in_vocab r = true ->
  exists pr, present_rr resp r = Some pr /\ read_one_rr d resp off = Ok (Some pr, o).
Proof.
  intros Hwf H Hv. destruct (rr_in_vocab_present resp r Hv) as [pr Hp].
  exists pr. split; [exact Hp|]. eapply read_one_rr_ref; eassumption.
Qed.

(* the corresponding step of read_rrs *)
Lemma read_rrs_step_ref f count d resp off r o pr :
  wf_bytes d -> ref_record d off = Some (r, o) -> rr_in_vocab r = true ->
  present_rr resp r = Some pr -> count <> 0 ->
  read_rrs (S f) count d resp off
  = (let? (rs, off2) := read_rrs f (count - 1) d resp o in Ok (pr :: rs, off2)).
Proof.
  intros Hwf H Hv Hp Hc. cbn [read_rrs]. apply N.eqb_neq in Hc. rewrite Hc.
  rewrite (read_one_rr_ref d resp off r o pr Hwf H Hv Hp). reflexivity.
Qed.

(* ---- one question (Target B) ---- *)

Lemma read_questions_step_ref f count d off q o :
  wf_bytes d -> ref_question d off = Some (q, o) -> q_in_vocab q = true -> count <> 0 ->
  read_questions (S f) count d off
  = (let? (qs, off2) := read_questions f (count - 1) d o in Ok (present_q q :: qs, off2)).
Proof.
  intros Hwf H Hv Hc. unfold ref_question in H.
  destruct (ref_name d off) as [[ls o1]|] eqn:En; [|discriminate].
  destruct (ref_u16 d o1) as [ty|] eqn:Ety; [|discriminate].
  destruct (ref_u16 d (o1 + 2)) as [cl|] eqn:Ecl; [|discriminate].
  injection H as Hq Ho. subst q o.
  unfold q_in_vocab in Hv. cbn [fq_name fq_type] in Hv.
  apply andb_true_iff in Hv as [Hls Hk]. apply name_okb_inv in Hls as [Hls Hfit].
  apply ref_u16_at in Ety as [Hty _]. apply ref_u16_at in Ecl as [Hcl Hcl4].
  cbn [read_questions]. apply N.eqb_neq in Hc. rewrite Hc.
  rewrite (read_name_ref d off ls o1 Hwf En Hls Hfit). cbn [bind].
  destruct (len d - o1 <? 4) eqn:E4; [lia|].
  rewrite Hty, Hcl. cbn [bind]. rewrite Hk. reflexivity.
Qed.

(* a question accepted by the reference parser ends inside the datagram, after its start *)
Lemma ref_question_offset d off q o :
  wf_bytes d -> ref_question d off = Some (q, o) -> q_in_vocab q = true ->
  off < o /\ o <= len d.
Proof.
  intros Hwf H Hv. unfold ref_question in H.
  destruct (ref_name d off) as [[ls o1]|] eqn:En; [|discriminate].
  destruct (ref_u16 d o1) as [ty|] eqn:Ety; [|discriminate].
  destruct (ref_u16 d (o1 + 2)) as [cl|] eqn:Ecl; [|discriminate].
  injection H as Hq Ho. subst q o.
  unfold q_in_vocab in Hv. cbn [fq_name fq_type] in Hv.
  apply andb_true_iff in Hv as [Hls _]. apply name_okb_inv in Hls as [Hls Hfit].
  pose proof (read_name_offset _ _ _ _ (read_name_ref d off ls o1 Hwf En Hls Hfit)) as [Hlt _].
  apply ref_u16_at in Ecl as [_ Hle]. lia.
Qed.

Lemma ref_record_offset d off r o :
  wf_bytes d -> ref_record d off = Some (r, o) -> rr_in_vocab r = true ->
  off < o /\ o <= len d.
Proof.
  intros Hwf H Hv. destruct (read_one_rr_ref_ex d false off r o Hwf H Hv) as (pr & _ & Hr).
  apply read_one_rr_offset in Hr. lia.
Qed.

(* ================================================================================== *)
(* C. Whole message                                                                   *)
(* ================================================================================== *)

(* every question and every record of the reference parse is within the decoder's
   vocabulary (executable) *)
Definition within_vocabularyb (rm : ref_msg) : bool :=
  forallb q_in_vocab (fm_questions rm) && forallb rr_in_vocab (fm_answers rm)
  && forallb rr_in_vocab (fm_authorities rm) && forallb rr_in_vocab (fm_additionals rm).

Definition within_vocabulary (rm : ref_msg) : Prop := within_vocabularyb rm = true.

(* ---- reflexivity of the comparison functions ---- *)

Lemma beq_rdata_refl x : beq_rdata x x = true.
Proof. destruct x; cbn [beq_rdata]; rewrite ?beq_refl, ?N.eqb_refl; reflexivity. Qed.

Lemma rr_beq_refl x : rr_beq x x = true.
Proof.
  unfold rr_beq. rewrite beq_refl, !N.eqb_refl, Bool.eqb_reflx, beq_rdata_refl. reflexivity.
Qed.

Lemma q_beq_refl x : q_beq x x = true.
Proof. unfold q_beq. rewrite beq_refl, !N.eqb_refl, Bool.eqb_reflx. reflexivity. Qed.

Lemma list_beq_refl {A} (eqb : A -> A -> bool) :
  (forall x, eqb x x = true) -> forall l, list_beq eqb l l = true.
Proof.
  intros H l. induction l as [|x l IH]; cbn [list_beq]; [reflexivity|]. rewrite H, IH. reflexivity.
Qed.

(* ---- sections ---- *)

Lemma read_questions_zero fuel d off : read_questions fuel 0 d off = Ok ([], off).
Proof. destruct fuel; reflexivity. Qed.

Lemma read_rrs_zero fuel d resp off : read_rrs fuel 0 d resp off = Ok ([], off).
Proof. destruct fuel; reflexivity. Qed.

Lemma read_questions_ref : forall n d off qs o fuel count,
  wf_bytes d -> ref_questions n d off = Some (qs, o) -> n = N.to_nat count ->
  len d - off < N.of_nat fuel -> forallb q_in_vocab qs = true ->
  read_questions fuel count d off = Ok (map present_q qs, o).
Proof.
  induction n as [|k IH]; intros d off qs o fuel count Hwf H Hn Hf Hv; cbn [ref_questions] in H.
  - injection H as Hqs Ho. subst qs o. assert (count = 0) by lia. subst count.
    apply read_questions_zero.
  - destruct (ref_question d off) as [[q o1]|] eqn:Eq; [|discriminate].
    destruct (ref_questions k d o1) as [[qs' o']|] eqn:Eqs; [|discriminate].
    injection H as Hqs Ho. subst qs o'. cbn [forallb] in Hv.
    apply andb_true_iff in Hv as [Hq Hv].
    destruct fuel as [|f]; [lia|].
    pose proof (ref_question_offset d off q o1 Hwf Eq Hq) as [Hlt Hle].
    rewrite (read_questions_step_ref f count d off q o1 Hwf Eq Hq) by lia.
    rewrite (IH d o1 qs' o f (count - 1) Hwf Eqs) by (first [exact Hv|lia]).
    reflexivity.
Qed.

Lemma read_rrs_ref : forall n d resp off rs o fuel count,
  wf_bytes d -> ref_records n d off = Some (rs, o) -> n = N.to_nat count ->
  len d - off < N.of_nat fuel -> forallb rr_in_vocab rs = true ->
  exists prs, opt_rrs resp rs = Some prs /\ read_rrs fuel count d resp off = Ok (prs, o).
Proof.
  induction n as [|k IH]; intros d resp off rs o fuel count Hwf H Hn Hf Hv;
    cbn [ref_records] in H.
  - injection H as Hrs Ho. subst rs o. assert (count = 0) by lia. subst count.
    exists []. split; [reflexivity|apply read_rrs_zero].
  - destruct (ref_record d off) as [[r o1]|] eqn:Er; [|discriminate].
    destruct (ref_records k d o1) as [[rs' o']|] eqn:Ers; [|discriminate].
    injection H as Hrs Ho. subst rs o'. cbn [forallb] in Hv.
    apply andb_true_iff in Hv as [Hr Hv].
    destruct fuel as [|f]; [lia|].
    pose proof (ref_record_offset d off r o1 Hwf Er Hr) as [Hlt Hle].
    destruct (rr_in_vocab_present resp r Hr) as [pr Hpr].
    destruct (IH d resp o1 rs' o f (count - 1) Hwf Ers) as (prs & Hprs & Hread);
      [lia|lia|exact Hv|].
    exists (pr :: prs). split.
    + cbn [opt_rrs fold_right]. fold (opt_rrs resp rs'). rewrite Hpr, Hprs. reflexivity.
    + rewrite (read_rrs_step_ref f count d resp off r o1 pr Hwf Er Hr Hpr) by lia.
      rewrite Hread. reflexivity.
Qed.

(* ---- Target C ---- *)

Theorem decode_agrees_with_reference : forall d rm,
  wf_bytes d -> ref_parse d = Some rm -> within_vocabulary rm ->
  exists dm, decode d = Ok dm /\ decoder_agrees rm dm = true.
Proof.
  intros d rm Hwf H Hv. unfold ref_parse in H.
  destruct (ref_u16 d 0) as [id|] eqn:Eid; [|discriminate].
  destruct (ref_u16 d 2) as [fl|] eqn:Efl; [|discriminate].
  destruct (ref_u16 d 4) as [nq|] eqn:Enq; [|discriminate].
  destruct (ref_u16 d 6) as [na|] eqn:Ena; [|discriminate].
  destruct (ref_u16 d 8) as [nn|] eqn:Enn; [|discriminate].
  destruct (ref_u16 d 10) as [nr|] eqn:Enr; [|discriminate].
  destruct (ref_questions (N.to_nat nq) d 12) as [[qs o1]|] eqn:Eqs; [|discriminate].
  destruct (ref_records (N.to_nat na) d o1) as [[an o2]|] eqn:Ean; [|discriminate].
  destruct (ref_records (N.to_nat nn) d o2) as [[ns o3]|] eqn:Ens; [|discriminate].
  destruct (ref_records (N.to_nat nr) d o3) as [[ar o4]|] eqn:Ear; [|discriminate].
  destruct (o4 =? N.of_nat (length d)); [|discriminate].
  injection H as Hrm. subst rm.
  unfold within_vocabulary, within_vocabularyb in Hv.
  cbn [fm_questions fm_answers fm_authorities fm_additionals] in Hv.
  apply andb_true_iff in Hv as [Hv Hvar]. apply andb_true_iff in Hv as [Hv Hvns].
  apply andb_true_iff in Hv as [Hvq Hvan].
  apply ref_u16_at in Eid as [Hid _]. apply ref_u16_at in Efl as [Hfl _].
  apply ref_u16_at in Enq as [Hnq _]. apply ref_u16_at in Ena as [Hna _].
  apply ref_u16_at in Enn as [Hnn _]. apply ref_u16_at in Enr as [Hnr H12].
  set (resp := N.land fl 32768 =? 32768).
  assert (Hfuel : forall off, len d - off < N.of_nat (S (length d))) by (intros; unfold len; lia).
  pose proof (read_questions_ref _ d 12 qs o1 (S (length d)) nq Hwf Eqs eq_refl (Hfuel _) Hvq)
    as Hrq.
  destruct (read_rrs_ref _ d resp o1 an o2 (S (length d)) na Hwf Ean eq_refl (Hfuel _) Hvan)
    as (pan & Hpan & Hran).
  destruct (read_rrs_ref _ d resp o2 ns o3 (S (length d)) nn Hwf Ens eq_refl (Hfuel _) Hvns)
    as (pns & Hpns & Hrns).
  destruct (read_rrs_ref _ d resp o3 ar o4 (S (length d)) nr Hwf Ear eq_refl (Hfuel _) Hvar)
    as (par & Hpar & Hrar).
  exists (mkMsg id fl nq na nn nr (map present_q qs) pan pns par). split.
  - unfold decode. destruct (len d <? 12) eqn:E; [lia|].
    rewrite Hid, Hfl, Hnq, Hna, Hnn, Hnr. cbn [bind]. cbv zeta. fold resp.
    rewrite Hrq. cbn [bind]. rewrite Hran. cbn [bind]. rewrite Hrns. cbn [bind].
    rewrite Hrar. reflexivity.
  - unfold decoder_agrees.
    cbn [fm_id fm_flags fm_questions fm_answers fm_authorities fm_additionals
         m_id m_flags m_questions m_answers m_authorities m_additionals].
    fold resp. rewrite Hpan, Hpns, Hpar. rewrite !N.eqb_refl.
    rewrite (list_beq_refl q_beq q_beq_refl), !(list_beq_refl rr_beq rr_beq_refl).
    reflexivity.
Qed.

(* ---- the hypotheses are satisfiable: a response with one question "_a.local." PTR and one
        PTR answer whose owner is a compression pointer, whose TTL is 0 (read as 1) and whose
        target is "x" followed by a pointer ---- *)
Definition example_dgram : bytes :=
  [0;0; 132;0; 0;1; 0;1; 0;0; 0;0;
   2;95;97; 5;108;111;99;97;108; 0;  0;12; 0;1;
   192;12; 0;12; 128;1; 0;0;0;0; 0;4;  1;120; 192;12].

Example example_in_scope :
  wf_bytesb example_dgram = true /\
  match ref_parse example_dgram with
  | Some rm => within_vocabularyb rm = true /\
               match decode example_dgram with
               | Ok dm => decoder_agrees rm dm = true /\
                          map r_name (m_answers dm) = [[95;97;46;108;111;99;97;108;46]] /\
                          map r_ttl (m_answers dm) = [1] /\
                          map r_data (m_answers dm)
                          = [RPtr [120;46;95;97;46;108;111;99;97;108;46]]
               | _ => False
               end
  | None => False
  end.
Proof. vm_compute. repeat split; reflexivity. Qed.

(* ---- the name_fits condition is needed: a query for the two labels "a\" and 63 x 'x'.
        The reference parser accepts it; the dotted text "a\.xxx...x." re-splits (the "\." is
        read as an escaped dot) into ONE label of 65 bytes, so the decoder rejects it, and it
        is outside the vocabulary ---- *)
Definition example_unfit : bytes :=
  [0;0; 0;0; 0;1; 0;0; 0;0; 0;0; 2;97;92; 63] ++ repeat 120 63 ++ [0; 0;12; 0;1].

Example example_unfit_out_of_scope :
  wf_bytesb example_unfit = true /\
  match ref_parse example_unfit with
  | Some rm => map (fun q => labels_okb (fq_name q)) (fm_questions rm) = [true] /\
               map (fun q => name_fitsb_labels (fq_name q)) (fm_questions rm) = [false] /\
               within_vocabularyb rm = false /\ decode example_unfit = Err
  | None => False
  end.
Proof. vm_compute. repeat split; reflexivity. Qed.

Print Assumptions read_name_ref.
Print Assumptions dotted_fits_simple.
Print Assumptions read_one_rr_ref.
Print Assumptions read_questions_step_ref.
Print Assumptions decode_agrees_with_reference.
