From Coq Require Import List NArith Bool Lia Arith.
From Mdns Require Import Res Bytes Utf8 Rec Wire WireOut Rfc1035 C02Spec.
Import ListNotations.
Open Scope N_scope.
