(* C07, after the announcing iteration: the service stays registered, its records stay active, no rename is
   recorded - through further calm iterations; the queued second announcement is SENT when due. *)
From Coq Require Import List NArith Bool Lia Arith PeanoNat.
From Mdns Require Import Bytes Rec ParamsRegistry Names WireOut Registry RegistryDaemon RegistrySpec RegistryTrace
     RegistryParamsPinned RegistryProofs RegistryDaemonProofs RegistryLiftProofs RegistryHistoryProofs
     RegistrySilenceProofs RegistryLivenessProofs RegistryDeferralProofs RegistryTimingProofs.
Import ListNotations.
Open Scope N_scope.

(* the registry of the interface after the probes are done: no rename recorded, probing names pairwise
   different, every record of the service's announcement (family v4 on itf) active *)
Definition Qdone (s0 : svc) (itf : intf) (v4 : bool) (rg : registry) : Prop :=
  clean rg /\ NoDup (keys (rg_probing rg)) /\ Forall (fun r => in_active rg r = true) (ARI s0 ++ ARH s0 itf v4).

Lemma Qdone_ipd s0 itf v4 rg r svc start : p_new r = None -> Qdone s0 itf v4 rg -> Qdone s0 itf v4 (fst (is_probing_done rg r svc start)).
Proof.
  intros Hn (C & Hnd & A). split; [apply ipd_clean; assumption|]. split; [apply (ipd_nodup rg r svc start (N.le_0_l _) Hnd)|].
  apply Forall_forall. intros x Hx. unfold in_active. rewrite ipd_active. exact (proj1 (Forall_forall _ _) A x Hx).
Qed.
Lemma Qdone_clean s0 itf v4 rg : Qdone s0 itf v4 rg -> rg_changes rg = [].
Proof. intros ((C & _) & _). exact C. Qed.
Lemma Qdone_step s0 itf v4 rg now : Qdone s0 itf v4 rg -> Qdone s0 itf v4 (fst (fst (fst (probe_step rg now)))).
Proof.
  intros (C & Hnd & A). destruct (probe_step_general rg now C Hnd) as (C1 & N1 & M1). split; [exact C1|]. split; [exact N1|].
  apply Forall_forall. intros x Hx. apply M1. exact (proj1 (Forall_forall _ _) A x Hx).
Qed.

(* ---- a registry property closed under joins and probing passes is kept through a whole calm iteration ----- *)
Section KeepAll.
  Variable Q : registry -> Prop.
  Hypothesis Q_ipd : forall rg r svc start, p_new r = None -> Q rg -> Q (fst (is_probing_done rg r svc start)).
  Hypothesis Q_clean : forall rg, Q rg -> rg_changes rg = [].
  Variable okt : N -> Prop.
  Hypothesis Q_step : forall rg now, okt now -> Q rg -> Q (fst (fst (fst (probe_step rg now)))).
  Variables (k : N) (key : bytes) (s0 : svc) (itf : intf).

  Lemma probing_intfs_Kept now (Hok : okt now) : forall ifs st js, Kept Q k key s0 itf st -> Kept Q k key s0 itf (fst (fst (probing_intfs ifs st now js))).
  Proof.
    induction ifs as [|i0 t IH]; intros st js H; [exact H|]. cbn [probing_intfs].
    destruct (nget (if_index i0) (d_regs st)) as [rg|] eqn:G; [|apply IH; exact H].
    pose proof (Q_step rg now Hok) as HS. destruct (probe_step rg now) as [[[rg1 qs] evs] waiting]. cbn [fst] in HS.
    pose proof (announce_waiting_svcs i0 now (d_mon st) (svc_at key s0) (fun svcs k0 s1 H0 G0 => svc_at_sput key s0 svcs k0 s1 _ _ H0 G0) waiting rg1 (d_svcs st) js) as SA.
    pose proof (announce_waiting_Q Q Q_ipd Q_clean i0 now (d_mon st) waiting rg1 (d_svcs st) js) as HQ.
    destruct (announce_waiting waiting i0 rg1 (d_svcs st) now js (d_mon st)) as [[[[rg2 svcs2] os2] rt2] js2]. cbn [fst snd] in SA, HQ.
    match goal with |- context [probing_intfs t ?s1 now js2] => assert (K1 : Kept Q k key s0 itf s1) end.
    { destruct H as (D & F & (r0 & G0 & H0) & S). split; [exact D|]. split; [exact F|]. split; [|apply SA; exact S]. cbn [d_regs].
      destruct (N.eq_dec (if_index i0) k) as [E|Hne].
      - exists rg2. rewrite E. split; [apply nget_nset_same|]. apply HQ. apply HS. rewrite E in G. rewrite G0 in G. inversion G; subst. exact H0.
      - exists r0. split; [rewrite nget_nset_other by (intros X; apply Hne; symmetry; exact X); exact G0|exact H0]. }
    specialize (IH _ js2 K1). match goal with |- context [probing_intfs t ?s1 now js2] => destruct (probing_intfs t s1 now js2) as [[st2 os3] js3] end. exact IH.
  Qed.

  (* ONE CALM ITERATION keeps it, whatever its time *)
  Lemma calm_iteration_Kept st it st' os js :
    okt (it_now it) -> calm_iter key it -> iterate st it = (st', os, Running, js) -> Kept Q k key s0 itf st -> Kept Q k key s0 itf st'.
  Proof.
    intros Hok [Hcd Hcc] Hit HK. unfold iterate in Hit. rewrite (proj1 HK) in Hit. set (now := it_now it) in *.
    set (gs := filter (fun g => g_v4 g) (it_dgrams it) ++ filter (fun g => negb (g_v4 g)) (it_dgrams it)) in *.
    assert (Hg : Forall calm_dgram gs).
    { apply Forall_app. split; apply Forall_forall; intros g Hg; apply filter_In in Hg as [Hg _]; exact (proj1 (Forall_forall _ _) Hcd g Hg). }
    pose proof (handle_dgrams_Kept Q k key s0 itf now gs st (it_jitter it) Hg HK) as K1.
    destruct (handle_dgrams st gs now (it_jitter it)) as [[st1 os1] js1]. cbn [fst] in K1.
    pose proof (exec_calls_Kept Q Q_ipd Q_clean k key s0 itf now (it_calls it) st1 js1 Hcc K1) as K2.
    destruct (exec_calls st1 (it_calls it) now js1) as [[st2 os2] js2]. cbn [fst] in K2. rewrite (proj1 K2) in Hit.
    pose proof (retransmit_Kept Q Q_ipd Q_clean k key s0 itf st2 now js2 K2) as K3.
    destruct (retransmit st2 now js2) as [[st3 os3] js3]. cbn [fst] in K3.
    pose proof (probing_intfs_Kept now Hok (d_intfs st3) st3 js3 K3) as K4. unfold probing_handler in Hit.
    destruct (probing_intfs (d_intfs st3) st3 now js3) as [[st4 os4] js4]. cbn [fst] in K4.
    destruct (cut_at_panic (os1 ++ os2 ++ os3 ++ os4)) as [o p]. destruct p; [discriminate|]. inversion Hit; subst. exact K4.
  Qed.
End KeepAll.

(* ---- the announcing iteration leaves Qdone behind --------------------------------------------------------------- *)

Lemma pass_k_finish s0 itf v4 T key now st js :
  let k := if_index itf in
  key = lower (s_full s0) -> addrs_on_intf s0 itf v4 <> [] -> now = T + 750 ->
  Kept (Qj s0 itf v4 T 3) k key s0 itf st ->
  Kept (Qdone s0 itf v4) k key s0 itf (fst (fst (probing_intfs [itf] st now js))).
Proof.
  intros k Hkey Ha Hnow (D & F & (rg & G & (C & Hnd & HI & HH)) & S). cbn [probing_intfs]. fold k. rewrite G.
  destruct (probe_step rg now) as [[[rg1 qs] evs] waiting] eqn:PS.
  destruct (probe_step_general rg now C Hnd) as (C1 & N1 & M1). rewrite PS in C1, N1, M1. cbn [fst] in C1, N1, M1.
  assert (NEI : ARI s0 <> []) by discriminate.
  assert (NEH : ARH s0 itf v4 <> []) by (unfold ARH; destruct (addrs_on_intf s0 itf v4); [contradiction|discriminate]).
  destruct (probe_step_finish rg now _ T _ _ rg1 qs evs waiting C Hnd HI NEI Hnow PS) as [_ A1].
  destruct (probe_step_finish rg now _ T _ _ rg1 qs evs waiting C Hnd HH NEH Hnow PS) as [_ A2].
  assert (HQ1 : Qdone s0 itf v4 rg1).
  { split; [exact C1|]. split; [exact N1|]. apply Forall_app. split; apply Forall_forall; intros r Hr.
    - apply A1; [exact Hr|]. destruct Hr as [<-|[<-|[]]]; reflexivity.
    - apply A2; [exact Hr|]. unfold ARH in Hr. apply in_map_iff in Hr as (a & <- & _). reflexivity. }
  pose proof (announce_waiting_svcs itf now (d_mon st) (svc_at key s0) (fun svcs k0 s1 H G0 => svc_at_sput key s0 svcs k0 s1 _ _ H G0) waiting rg1 (d_svcs st) js S) as SA.
  pose proof (announce_waiting_Q (Qdone s0 itf v4) (Qdone_ipd s0 itf v4) (Qdone_clean s0 itf v4) itf now (d_mon st) waiting rg1 (d_svcs st) js HQ1) as HQ2.
  destruct (announce_waiting waiting itf rg1 (d_svcs st) now js (d_mon st)) as [[[[rg2 svcs2] os2] rt2] js2]. cbn [fst snd] in *.
  split; [exact D|]. split; [exact F|]. split; [exists rg2; cbn [d_regs]; split; [apply nget_nset_same|exact HQ2]|exact SA].
Qed.

Lemma probing_at_finish s0 itf v4 T key now : forall ifs st js,
  let k := if_index itf in
  key = lower (s_full s0) -> addrs_on_intf s0 itf v4 <> [] -> now = T + 750 ->
  NoDup (map if_index ifs) -> find (fun x => if_index x =? k) ifs = Some itf ->
  Kept (Qj s0 itf v4 T 3) k key s0 itf st ->
  Kept (Qdone s0 itf v4) k key s0 itf (fst (fst (probing_intfs ifs st now js))).
Proof.
  induction ifs as [|i0 t IH]; intros st js k Hkey Ha Hnow Hnd Hf HK; [discriminate|].
  cbn [map] in Hnd. apply NoDup_cons_iff in Hnd as [Hnotin Hnd']. cbn [find] in Hf. rewrite probing_cons_state.
  destruct (if_index i0 =? k) eqn:E.
  - assert (Ei : i0 = itf) by (inversion Hf; reflexivity). subst i0.
    pose proof (pass_k_finish s0 itf v4 T key now st js Hkey Ha Hnow HK) as P.
    exact (proj1 (probing_intfs_other _ (Qdone_ipd s0 itf v4) k key s0 itf now t _ _ Hnotin) P).
  - apply N.eqb_neq in E. assert (Hk0 : ~ In k (map if_index [i0])) by (intros [H|[]]; apply E; exact H).
    pose proof (proj1 (probing_intfs_other _ (Qj_ipd s0 itf v4 T 3) k key s0 itf now [i0] st js Hk0) HK) as HK1.
    exact (IH _ _ Hkey Ha Hnow Hnd' Hf HK1).
Qed.

(* the announcing iteration (now = T + 750, phase 3) ends in Kept Qdone *)
Lemma calm_iteration_finish s0 itf v4 T key st it st' os js :
  let k := if_index itf in
  key = lower (s_full s0) -> addrs_on_intf s0 itf v4 <> [] ->
  NoDup (map if_index (d_intfs st)) -> calm_iter key it -> iterate st it = (st', os, Running, js) ->
  Kept (Qj s0 itf v4 T 3) k key s0 itf st -> it_now it = T + 750 ->
  Kept (Qdone s0 itf v4) k key s0 itf st'.
Proof.
  intros k Hkey Ha Hnd [Hcd Hcc] Hit HK Hnow. unfold iterate in Hit. rewrite (proj1 HK) in Hit. set (now := it_now it) in *.
  set (gs := filter (fun g => g_v4 g) (it_dgrams it) ++ filter (fun g => negb (g_v4 g)) (it_dgrams it)) in *.
  assert (Hg : Forall calm_dgram gs).
  { apply Forall_app. split; apply Forall_forall; intros g Hg; apply filter_In in Hg as [Hg _]; exact (proj1 (Forall_forall _ _) Hcd g Hg). }
  pose proof (handle_dgrams_Kept (Qj s0 itf v4 T 3) k key s0 itf now gs st (it_jitter it) Hg HK) as K1.
  pose proof (handle_dgrams_intfs now gs st (it_jitter it)) as F1.
  destruct (handle_dgrams st gs now (it_jitter it)) as [[st1 os1] js1]. cbn [fst] in K1, F1.
  pose proof (exec_calls_Kept _ (Qj_ipd s0 itf v4 T 3) (Qj_clean s0 itf v4 T 3) k key s0 itf now (it_calls it) st1 js1 Hcc K1) as K2.
  assert (Hni : Forall no_ifsel (it_calls it)) by (apply Forall_forall; intros c Hc; apply (calm_call_no_ifsel key); exact (proj1 (Forall_forall _ _) Hcc c Hc)).
  pose proof (exec_calls_intfs now (it_calls it) st1 js1 Hni) as F2.
  destruct (exec_calls st1 (it_calls it) now js1) as [[st2 os2] js2]. cbn [fst] in K2, F2. rewrite (proj1 K2) in Hit.
  pose proof (retransmit_Kept _ (Qj_ipd s0 itf v4 T 3) (Qj_clean s0 itf v4 T 3) k key s0 itf st2 now js2 K2) as K3.
  pose proof (retransmit_intfs st2 now js2) as F3.
  destruct (retransmit st2 now js2) as [[st3 os3] js3]. cbn [fst] in K3, F3.
  assert (Hnd3 : NoDup (map if_index (d_intfs st3))) by (rewrite F3, F2, F1; exact Hnd).
  pose proof (probing_at_finish s0 itf v4 T key now (d_intfs st3) st3 js3 Hkey Ha Hnow Hnd3 (proj1 (proj2 K3)) K3) as PA.
  unfold probing_handler in Hit. destruct (probing_intfs (d_intfs st3) st3 now js3) as [[st4 os4] js4]. cbn [fst] in PA.
  destruct (cut_at_panic (os1 ++ os2 ++ os3 ++ os4)) as [o p]. destruct p; [discriminate|]. inversion Hit; subst. exact PA.
Qed.

(* ---- the second announcement is sent ----------------------------------------------------------------------------- *)

Lemma cut_full : forall l r, cut_at_panic l = (r, false) -> r = l.
Proof.
  induction l as [|x t IH]; intros r H; [inversion H; reflexivity|]. cbn [cut_at_panic] in H. destruct x;
    try (destruct (cut_at_panic t) as [r0 p0] eqn:E; inversion H; subst; f_equal; apply IH; reflexivity).
  destruct (msg_ok m); [|discriminate]. destruct (cut_at_panic t) as [r0 p0] eqn:E. inversion H; subst. f_equal. apply IH. reflexivity.
Qed.

Lemma announcement_of_clean s0 s itf rg v4 :
  rg_changes rg = [] -> svc_eqv s0 s -> announcement_of s itf rg v4 = announcement_of s0 itf reg_new v4.
Proof.
  intros C Q. rewrite (announcement_of_eqv s0 s itf rg v4 Q). unfold announcement_of, resolve_name.
  rewrite (announce_records_stable reg_new rg s0 itf v4 C), C. reflexivity.
Qed.

(* one calm iteration at or after the entry's time: the announcement goes out in it *)
Lemma iteration_sends_second s0 itf v4 key st it st' os js t full :
  let k := if_index itf in
  key = lower (s_full s0) -> lower full = key -> addrs_on_intf s0 itf v4 <> [] ->
  calm_iter key it -> iterate st it = (st', os, Running, js) ->
  Kept (Qdone s0 itf v4) k key s0 itf st -> In (t, RegisterResend full k) (d_retrans st) -> t <= it_now it ->
  In (OSend k v4 Mcast (announcement_of s0 itf reg_new v4)) os.
Proof.
  intros k Hkey Hfull Ha [Hcd Hcc] Hit HK Hin Ht. unfold iterate in Hit. rewrite (proj1 HK) in Hit. set (now := it_now it) in *.
  set (gs := filter (fun g => g_v4 g) (it_dgrams it) ++ filter (fun g => negb (g_v4 g)) (it_dgrams it)) in *.
  assert (Hg : Forall calm_dgram gs).
  { apply Forall_app. split; apply Forall_forall; intros g Hg; apply filter_In in Hg as [Hg _]; exact (proj1 (Forall_forall _ _) Hcd g Hg). }
  pose proof (handle_dgrams_Kept (Qdone s0 itf v4) k key s0 itf now gs st (it_jitter it) Hg HK) as K1.
  pose proof (handle_dgrams_retrans now gs st (it_jitter it)) as R1.
  destruct (handle_dgrams st gs now (it_jitter it)) as [[st1 os1] js1]. cbn [fst] in K1, R1.
  pose proof (exec_calls_Kept _ (Qdone_ipd s0 itf v4) (Qdone_clean s0 itf v4) k key s0 itf now (it_calls it) st1 js1 Hcc K1) as K2.
  assert (Hin1 : In (t, RegisterResend full k) (d_retrans st1)) by (rewrite R1; exact Hin).
  pose proof (exec_calls_keeps now (it_calls it) st1 js1 _ Hin1) as R2.
  destruct (exec_calls st1 (it_calls it) now js1) as [[st2 os2] js2]. cbn [fst] in K2, R2. rewrite (proj1 K2) in Hit.
  destruct R2 as [R2|R2]; [|rewrite (proj1 K2) in R2; discriminate].
  destruct K2 as (D2 & F2 & (rg & G2 & (C2 & N2 & A2)) & (s & GS & QS)).
  assert (RD : resend_ready st2 full k s itf rg) by (split; [rewrite Hfull; exact GS|split; assumption]).
  assert (AB : announceable s itf rg v4).
  { split; [destruct QS as [(_ & _ & _ & _ & _ & _ & E) _]; unfold addrs_on_intf in *; rewrite <- E; exact Ha|]. right.
    rewrite (announce_records_clean rg s0 s itf v4 (proj1 C2) QS). exact A2. }
  pose proof (due_second_announcement_sent st2 now js2 t full k s itf rg v4 R2 Ht RD AB) as S3.
  rewrite (announcement_of_clean s0 s itf rg v4 (proj1 C2) QS) in S3.
  destruct (retransmit st2 now js2) as [[st3 os3] js3]. cbn [fst snd] in S3.
  unfold probing_handler in Hit. destruct (probing_intfs (d_intfs st3) st3 now js3) as [[st4 os4] js4].
  destruct (cut_at_panic (os1 ++ os2 ++ os3 ++ os4)) as [o p] eqn:EC. destruct p; [discriminate|]. inversion Hit; subst.
  rewrite (cut_full _ _ EC). apply in_or_app. right. apply in_or_app. right. apply in_or_app. left. exact S3.
Qed.

(* THE SECOND ANNOUNCEMENT IS SENT over calm histories: from a state in which the service's records are
   active on the interface (Kept Qdone - what the announcing iteration leaves) and RegisterResend for the
   service is queued for time t: through any calm history in which the daemon keeps running, the first
   iteration at or after t sends the announcement on that interface (family v4) *)
Theorem second_announcement_sent_calm s0 itf v4 key t full :
  key = lower (s_full s0) -> lower full = key -> addrs_on_intf s0 itf v4 <> [] ->
  forall its st, Kept (Qdone s0 itf v4) (if_index itf) key s0 itf st -> In (t, RegisterResend full (if_index itf)) (d_retrans st) ->
  Forall (calm_iter key) its -> all_running st its -> (exists it, In it its /\ t <= it_now it) ->
  exists pre it post, its = pre ++ it :: post /\ Forall (fun x => it_now x < t) pre /\ t <= it_now it /\
    In (OSend (if_index itf) v4 Mcast (announcement_of s0 itf reg_new v4)) (snd (fst (fst (iterate (run_state st pre) it)))).
Proof.
  intros Hkey Hfull Ha. induction its as [|it rest IH]; intros st HK Hin Hc Hr (it0 & Hi0 & Ht0); [contradiction|].
  apply Forall_cons_iff in Hc as [Hci Hcr]. cbn [all_running] in Hr. destruct Hr as [Hr1 Hr2].
  destruct (iterate st it) as [[[st1 os1] e1] js1] eqn:Hit. cbn [fst snd] in *. subst e1.
  destruct (N.le_gt_cases t (it_now it)) as [Hle|Hgt].
  - exists [], it, rest. split; [reflexivity|]. split; [constructor|]. split; [exact Hle|]. cbn [run_state]. rewrite Hit. cbn [fst snd].
    exact (iteration_sends_second s0 itf v4 key st it st1 os1 js1 t full Hkey Hfull Ha Hci Hit HK Hin Hle).
  - pose proof (calm_iteration_Kept _ (Qdone_ipd s0 itf v4) (Qdone_clean s0 itf v4) (fun _ => True) (fun rg now _ H => Qdone_step s0 itf v4 rg now H) _ key s0 itf st it st1 os1 js1 I Hci Hit HK) as HK1.
    pose proof (queue_entry_persists st it st1 os1 js1 _ Hit Hin Hgt) as Hin1.
    assert (Hex : exists x, In x rest /\ t <= it_now x).
    { destruct Hi0 as [<-|Hi0]; [lia|exists it0; split; assumption]. }
    destruct (IH st1 HK1 Hin1 Hcr Hr2 Hex) as (pre & it' & post & E & Fp & Ht' & Hs).
    exists (it :: pre), it', post. split; [rewrite E; reflexivity|]. split; [constructor; assumption|]. split; [exact Ht'|].
    cbn [run_state]. rewrite Hit. exact Hs.
Qed.

(* the announcing iteration of a never-late calm history leaves Kept Qdone and Done behind *)
Theorem reaches_Qdone_gen s0 itf v4 T key :
  key = lower (s_full s0) -> s_probe s0 = true -> addrs_on_intf s0 itf v4 <> [] ->
  forall its st j, (j <= 3)%nat ->
  NoDup (map if_index (d_intfs st)) -> Kept (Qj s0 itf v4 T j) (if_index itf) key s0 itf st ->
  Forall (calm_iter key) its -> all_running st its -> never_late st its ->
  (exists it, In it its /\ T + 750 <= it_now it) ->
  exists pre it post, its = pre ++ it :: post /\ it_now it = T + 750 /\
    Done (if_index itf) key (d_svcs (run_state st (pre ++ [it]))) /\
    Kept (Qdone s0 itf v4) (if_index itf) key s0 itf (run_state st (pre ++ [it])) /\
    NoDup (map if_index (d_intfs (run_state st (pre ++ [it])))).
Proof.
  intros Hkey Hp Ha. induction its as [|it rest IH]; intros st j Hj Hnd HK Hc Hr Hl (it0 & Hi0 & Ht0); [contradiction|].
  apply Forall_cons_iff in Hc as [Hci Hcr]. cbn [all_running never_late] in Hr, Hl. destruct Hr as [Hr1 Hr2], Hl as [Hl1 Hl2].
  destruct (Kept_due s0 itf v4 T j key st HK) as (d & Ed & Ld). pose proof (Hl1 d Ed) as Hle.
  destruct (iterate st it) as [[[st1 os1] e1] js1] eqn:Hit. cbn [fst snd] in *. subst e1.
  destruct (calm_iteration s0 itf v4 T j key st it st1 os1 js1 Hkey Hp Ha Hnd Hci Hit HK) as (EI & C1 & C2 & C3).
  assert (Hnd1 : NoDup (map if_index (d_intfs st1))) by (rewrite EI; exact Hnd).
  assert (RS : forall l, run_state st (it :: l) = run_state st1 l) by (intros l; cbn [run_state]; rewrite Hit; reflexivity).
  assert (B : N.of_nat j <= 3) by lia.
  destruct (N.eq_dec (it_now it) (T + 250 * N.of_nat j)) as [He|Hne].
  - destruct (PeanoNat.Nat.eq_dec j 3) as [->|Hj3].
    + exists [], it, rest. split; [reflexivity|]. split; [rewrite He; reflexivity|]. cbn [app]. rewrite RS. cbn [run_state].
      split; [exact (C3 He eq_refl)|]. split; [|exact Hnd1].
      apply (calm_iteration_finish s0 itf v4 T key st it st1 os1 js1 Hkey Ha Hnd Hci Hit HK). rewrite He. reflexivity.
    + assert (Hlt : (j < 3)%nat) by lia.
      assert (Hex : exists x, In x rest /\ T + 750 <= it_now x).
      { destruct Hi0 as [<-|Hi0]; [exfalso; assert (N.of_nat j <= 2) by lia; nia|exists it0; split; assumption]. }
      destruct (IH st1 (S j) ltac:(lia) Hnd1 (C2 He Hlt) Hcr Hr2 Hl2 Hex) as (pre & it' & post & E & Et & HD & HQ & HN).
      exists (it :: pre), it', post. split; [rewrite E; reflexivity|]. split; [exact Et|]. cbn [app]. rewrite RS. auto.
  - assert (Hlt : it_now it < T + 250 * N.of_nat j) by lia.
    assert (Hex : exists x, In x rest /\ T + 750 <= it_now x).
    { destruct Hi0 as [<-|Hi0]; [exfalso; nia|exists it0; split; assumption]. }
    destruct (IH st1 j Hj Hnd1 (C1 Hlt) Hcr Hr2 Hl2 Hex) as (pre & it' & post & E & Et & HD & HQ & HN).
    exists (it :: pre), it', post. split; [rewrite E; reflexivity|]. split; [exact Et|]. cbn [app]. rewrite RS. auto.
Qed.
