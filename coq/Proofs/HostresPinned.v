(* The definitions regenerated from the Rust sources (Gen/ParamsHostres.v) pinned to the literal
   numbers and comparison directions of the property texts C17 / C20.  A changed constant or a
   flipped comparison in /repo makes one of these `reflexivity` proofs fail. *)
From Coq Require Import NArith Bool.
From Mdns Require Import ParamsHostres.
Open Scope N_scope.

(* run loop *)
Lemma pin_deadline_reached now t : hp_deadline_reached now t = (t <=? now).      Proof. reflexivity. Qed.
Lemma pin_rerun_due now t : hp_rerun_due now t = (t <=? now).                    Proof. reflexivity. Qed.
Lemma pin_ip_check_due now t : hp_ip_check_due now t = (t <=? now).              Proof. reflexivity. Qed.
Lemma pin_timer_kept v now : hp_timer_kept v now = (now <? v).                   Proof. reflexivity. Qed.
Lemma pin_ip_check_ms : hp_ip_check_ms_default = 5000.                           Proof. reflexivity. Qed.
(* resolve_hostname schedule: 1 s, doubling, capped at 3600 s, re-armed only before the deadline *)
Lemma pin_host_first_delay : hp_host_first_delay = 1.                            Proof. reflexivity. Qed.
Lemma pin_host_unit : hp_host_delay_unit_ms = 1000.                              Proof. reflexivity. Qed.
Lemma pin_host_max : hp_host_max_delay = 3600.                                   Proof. reflexivity. Qed.
Lemma pin_host_next d m : hp_host_next_delay d m = d * 2.                        Proof. reflexivity. Qed.
Lemma pin_host_rearm t d : hp_host_rearm t d = (t <? d).                         Proof. reflexivity. Qed.
(* browse schedule and follow-up resolution *)
Lemma pin_browse_first_delay : hp_browse_first_delay = 1.                        Proof. reflexivity. Qed.
Lemma pin_browse_unit : hp_browse_delay_unit_ms = 1000.                          Proof. reflexivity. Qed.
Lemma pin_browse_max : hp_browse_max_delay = 3600.                               Proof. reflexivity. Qed.
Lemma pin_browse_next d m : hp_browse_next_delay d m = d * 2.                    Proof. reflexivity. Qed.
Lemma pin_resolve_wait : hp_resolve_wait_ms = 500.                               Proof. reflexivity. Qed.
Lemma pin_resolve_max_try : hp_resolve_max_try = 3.                              Proof. reflexivity. Qed.
Lemma pin_resolve_retry t m : hp_resolve_retry t m = (t <? m).                   Proof. reflexivity. Qed.
Lemma pin_ptr_ttl_ok ttl : hp_ptr_ttl_ok ttl = (1 <? ttl).                       Proof. reflexivity. Qed.
(* record lifetime *)
Lemma pin_expiration ttl p : hp_expiration_delta ttl p = ttl * p * 10.           Proof. reflexivity. Qed.
Lemma pin_new_refresh : hp_new_refresh_percent = 80.                             Proof. reflexivity. Qed.
Lemma pin_new_expire : hp_new_expire_percent = 100.                              Proof. reflexivity. Qed.
Lemma pin_is_expired now e : hp_is_expired now e = (e <=? now).                  Proof. reflexivity. Qed.
Lemma pin_expires_soon now e : hp_expires_soon now e = (e <=? now + 1000).       Proof. reflexivity. Qed.
Lemma pin_refresh_due now r : hp_refresh_due now r = (r <=? now).                Proof. reflexivity. Qed.
Lemma pin_no_more : hp_no_more_percent = 100.                                    Proof. reflexivity. Qed.
Lemma pin_reset_full ttl : hp_reset_full_refresh ttl = (1 <? ttl).               Proof. reflexivity. Qed.
Lemma pin_reset_refresh : hp_reset_refresh_percent = 80.                         Proof. reflexivity. Qed.
Lemma pin_reset_expire : hp_reset_expire_percent = 100.                          Proof. reflexivity. Qed.
Lemma pin_marks : (hp_maybe_80, hp_maybe_85, hp_maybe_90, hp_maybe_95) = (80, 85, 90, 95). Proof. reflexivity. Qed.
Lemma pin_goodbye ttl : hp_ttl_is_goodbye ttl = (ttl =? 0).                      Proof. reflexivity. Qed.
Lemma pin_goodbye_ttl : hp_goodbye_ttl = 1.                                      Proof. reflexivity. Qed.
Lemma pin_revived o n : hp_revived o n = ((o <=? 1) && (1 <? n)).                Proof. reflexivity. Qed.
(* cache flush *)
Lemma pin_flush_old now c : hp_flush_old_enough now c = (c + 1000 <? now).       Proof. reflexivity. Qed.
Lemma pin_flush_far now e : hp_flush_far_enough now e = (now + 1000 <? e).       Proof. reflexivity. Qed.
Lemma pin_flush_expire now : hp_flush_new_expire now = now + 1000.               Proof. reflexivity. Qed.
