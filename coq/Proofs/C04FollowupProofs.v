(* C04, the follow-up clause in the property's own terms, over the model's trace (round 9):
   an instance that is reported found and not reported resolved in an iteration is, at the end of
   that iteration, in pending_resolves, or one of its follow-up tries ran in that iteration;
   a pending instance has a try queued that is due within 500 ms (C04PendingProofs,
   C04ScheduleProofs); a queued try runs in the first iteration at or after its due time and asks
   exactly the question the checker expects (try_asks_expected).  Outside the class
   known_found_withdrawn (ServiceFound for a PTR whose goodbye follows in the same message). *)
From Coq Require Import List NArith Bool Lia.
From Mdns Require Import Res Bytes Rec Wire Txt ParamsBrowser ParamsBrowserPinned Cache Browser C03Spec BrowserSpec
  BrowserKnown CacheProofs CacheInvProofs BrowserProofs BrowserStepProofs SpecTrackProofs C04ScheduleProofs
  C04PendingProofs C05SafetyProofs C04OrderProofs C05AgainProofs C05TimelyProofs.
Import ListNotations.
Open Scope N_scope.

Definition pend (i : bytes) (s : st) : Prop := mem i (s_pending s) = true.
Definition NR (i : bytes) (o : list out) : Prop := forall ch r, In (OEvt ch (EResolved r)) o -> rs_name r <> i.
Definition FD (i : bytes) (o : list out) : Prop := exists ch ty, In (OEvt ch (EFound ty i)) o.

Lemma NR_app i a b : NR i (a ++ b) <-> NR i a /\ NR i b.
Proof.
  unfold NR. split.
  - intros H. split; intros ch r Hin; apply (H ch r); apply in_app_iff; auto.
  - intros [A B] ch r Hin. apply in_app_iff in Hin as [Hin|Hin]; eauto.
Qed.

Lemma dedup_In_inv (l : list bytes) x : In x (dedup l) -> In x l.
Proof.
  induction l as [|y l IH]; simpl; [tauto|]. destruct (mem y l); [intros H; right; auto|].
  intros [<-|H]; [now left|right; auto].
Qed.

Lemma add_pending_pend s now i j : (i = j \/ pend j s) -> pend j (add_pending s now i).
Proof.
  unfold pend, add_pending. intros H. destruct (mem i (s_pending s)) eqn:E.
  - destruct H as [<-|H]; assumption.
  - cbn [s_pending]. apply mem_In. apply in_app_iff. destruct H as [<-|H]; [right; now left|left; now apply mem_In].
Qed.

Lemma fold_pending_pend now j : forall l s, (In j l \/ pend j s) -> pend j (fold_left (fun s0 i => add_pending s0 now i) l s).
Proof.
  induction l as [|i l IH]; intros s H; simpl; [destruct H as [[]|H]; exact H|]. apply IH.
  destruct H as [[<-|H]|H]; [right; apply add_pending_pend; now left|now left|right; apply add_pending_pend; now right].
Qed.

Lemma fold_mark_pend j : forall l s, pend j s -> ~ In j l -> pend j (fold_left mark_resolved l s).
Proof.
  induction l as [|i l IH]; intros s H Hn; simpl; [exact H|]. apply IH; [|intros Hx; apply Hn; now right].
  unfold pend, mark_resolved in *. cbn [s_pending]. rewrite mem_set_remove_other; [exact H|].
  destruct (beq j i) eqn:E; [|reflexivity]. apply beq_eq in E. subst i. exfalso. apply Hn. now left.
Qed.

(* what the loops of resolve_updated_instances / query_cache_for_service do with a PTR entry *)
Lemma ru_ptrs_res_event c now ty ch updated : forall ptrs rset i,
  In i (snd (fst (fst (fst (ru_ptrs c now ty ch updated ptrs rset))))) ->
  exists r, In (OEvt ch (EResolved r)) (fst (fst (fst (fst (ru_ptrs c now ty ch updated ptrs rset))))) /\ rs_name r = i.
Proof.
  induction ptrs as [|p rest IH]; intros rset i; simpl; [tauto|].
  destruct (negb (expires_soon p now) && mem (alias_of (e_rr p)) updated); [|apply IH].
  specialize (IH rset i). destruct (is_valid _);
    destruct (ru_ptrs c now ty ch updated rest rset) as [[[[o res] unres] rem] rset']; simpl in *; [|exact IH].
  intros [<-|H]; [eexists; split; [now left|reflexivity]|]. destruct (IH H) as (r & A & B). exists r. auto.
Qed.

Lemma ru_types_res_event c now q updated : forall ptr rset i,
  In i (snd (fst (fst (fst (ru_types c now q updated ptr rset))))) ->
  exists ch r, In (OEvt ch (EResolved r)) (fst (fst (fst (fst (ru_types c now q updated ptr rset))))) /\ rs_name r = i.
Proof.
  induction ptr as [|[ty ptrs] rest IH]; intros rset i; simpl; [tauto|].
  destruct (q_get ty q) as [ch|]; [|apply IH].
  pose proof (ru_ptrs_res_event c now ty ch updated ptrs rset i) as H1.
  destruct (ru_ptrs c now ty ch updated ptrs rset) as [[[[o1 res1] un1] rem1] rset1]. simpl in H1.
  specialize (IH rset1 i). destruct (ru_types c now q updated rest rset1) as [[[[o2 res2] un2] rem2] rset2]. simpl in *.
  intros H. apply in_app_iff in H as [H|H].
  - destruct (H1 H) as (r & A & B). exists ch, r. split; [apply in_app_iff; now left|exact B].
  - destruct (IH H) as (ch' & r & A & B). exists ch', r. split; [apply in_app_iff; now right|exact B].
Qed.

Lemma ru_ptrs_covers c now ty ch updated : forall ptrs rset p,
  In p ptrs -> expires_soon p now = false -> mem (alias_of (e_rr p)) updated = true ->
  In (alias_of (e_rr p)) (snd (fst (fst (fst (ru_ptrs c now ty ch updated ptrs rset)))))
  \/ In (alias_of (e_rr p)) (snd (fst (fst (ru_ptrs c now ty ch updated ptrs rset)))).
Proof.
  induction ptrs as [|p0 rest IH]; intros rset p Hin Hs Hm; simpl; [destruct Hin|].
  destruct Hin as [->|Hin].
  - rewrite Hs, Hm. simpl. destruct (is_valid _);
      destruct (ru_ptrs c now ty ch updated rest rset) as [[[[o res] unres] rem] rset']; simpl; [left|right]; now left.
  - specialize (IH rset p Hin Hs Hm).
    destruct (negb (expires_soon p0 now) && mem (alias_of (e_rr p0)) updated); [|exact IH].
    destruct (is_valid _); destruct (ru_ptrs c now ty ch updated rest rset) as [[[[o res] unres] rem] rset']; simpl in *;
      destruct IH as [IH|IH]; auto.
Qed.

Lemma ru_types_covers c now q updated ty ch ptrs p : forall ptr rset,
  In (ty, ptrs) ptr -> q_get ty q = Some ch ->
  In p ptrs -> expires_soon p now = false -> mem (alias_of (e_rr p)) updated = true ->
  In (alias_of (e_rr p)) (snd (fst (fst (fst (ru_types c now q updated ptr rset)))))
  \/ In (alias_of (e_rr p)) (snd (fst (fst (ru_types c now q updated ptr rset)))).
Proof.
  induction ptr as [|[ty0 ptrs0] rest IH]; intros rset Hin Hq Hp Hs Hm; simpl; [destruct Hin|].
  destruct Hin as [E|Hin].
  - inversion E; subst ty0 ptrs0. rewrite Hq.
    pose proof (ru_ptrs_covers c now ty ch updated ptrs rset p Hp Hs Hm) as H1.
    destruct (ru_ptrs c now ty ch updated ptrs rset) as [[[[o1 res1] un1] rem1] rset1]. simpl in H1.
    destruct (ru_types c now q updated rest rset1) as [[[[o2 res2] un2] rem2] rset2]. simpl.
    destruct H1 as [H1|H1]; [left|right]; apply in_app_iff; now left.
  - destruct (q_get ty0 q) as [ch0|]; [|now apply IH].
    destruct (ru_ptrs c now ty0 ch0 updated ptrs0 rset) as [[[[o1 res1] un1] rem1] rset1].
    specialize (IH rset1 Hin Hq Hp Hs Hm).
    destruct (ru_types c now q updated rest rset1) as [[[[o2 res2] un2] rem2] rset2]. simpl in *.
    destruct IH as [IH|IH]; [left|right]; apply in_app_iff; now right.
Qed.

Lemma resolve_updated_no_found s now updated ch ty i : ~ In (OEvt ch (EFound ty i)) (snd (resolve_updated s now updated)).
Proof.
  unfold resolve_updated. destruct updated as [|u us]; [intros []|].
  pose proof (C04OrderProofs.ru_types_only_resolved (s_cache s) now (s_q s) (u :: us) (c_ptr (s_cache s)) (s_resolved s)) as Hres.
  destruct (ru_types (s_cache s) now (s_q s) (u :: us) (c_ptr (s_cache s)) (s_resolved s))
    as [[[[o res] unres] rem] rset]. cbn [fst snd] in *.
  intros H. apply in_app_iff in H as [H|H]; [exact (Hres _ H)|].
  apply C05AgainProofs.notify_removal_shape in H as (c0 & t & j & E & _). discriminate.
Qed.

(* resolve_updated_instances keeps an instance pending unless it reports it resolved, and makes
   pending every updated instance with a live PTR under a browsed name that it does not resolve *)
Lemma resolve_updated_pend s now updated i :
  NR i (snd (resolve_updated s now updated)) ->
  (pend i s \/ exists ty ch ptrs p, In (ty, ptrs) (c_ptr (s_cache s)) /\ q_get ty (s_q s) = Some ch /\ In p ptrs
                                  /\ expires_soon p now = false /\ alias_of (e_rr p) = i /\ mem i updated = true) ->
  pend i (fst (resolve_updated s now updated)).
Proof.
  unfold resolve_updated. destruct updated as [|u us].
  - intros _ [H|(ty & ch & ptrs & p & _ & _ & _ & _ & _ & H)]; [exact H|discriminate].
  - pose proof (ru_types_res_event (s_cache s) now (s_q s) (u :: us) (c_ptr (s_cache s)) (s_resolved s) i) as Hev.
    pose proof (fun ty ch ptrs p => ru_types_covers (s_cache s) now (s_q s) (u :: us) ty ch ptrs p (c_ptr (s_cache s)) (s_resolved s)) as Hcov.
    destruct (ru_types (s_cache s) now (s_q s) (u :: us) (c_ptr (s_cache s)) (s_resolved s))
      as [[[[o res] unres] rem] rset]. cbn [fst snd] in *.
    intros Hnr Hc.
    assert (Hres : ~ In i res).
    { intros Hin. destruct (Hev Hin) as (ch & r & A & B). apply (Hnr ch r); [apply in_app_iff; now left|exact B]. }
    apply fold_pending_pend. destruct Hc as [Hp|(ty & ch & ptrs & p & A & B & C & D & E & F)].
    + right. apply fold_mark_pend; [exact Hp|]. intros Hin. apply Hres. now apply dedup_In_inv.
    + subst i. destruct (Hcov ty ch ptrs p A B C D F) as [H|H]; [contradiction|]. left. now apply In_dedup.
Qed.

(* ---- ServiceFound comes with a change ------------------------------------------------------------------------- *)
Lemma hr_found now ifx q fu ch ty i : forall rs c,
  In (OEvt ch (EFound ty i)) (snd (fst (hr_records c now ifx q fu rs))) ->
  In (TY_PTR, i) (snd (hr_records c now ifx q fu rs)) /\ q_get ty q = Some ch.
Proof.
  induction rs as [|r rest IH]; intros c; simpl; [tauto|].
  destruct (add_or_update c now ifx r fu) as [c1 res]. specialize (IH c1).
  destruct (hr_records c1 now ifx q fu rest) as [[c2 o2] ch2]. cbn [fst snd] in *.
  assert (Hrest : In (OEvt ch (EFound ty i)) o2 -> forall a, In (TY_PTR, i) (a ++ ch2) /\ q_get ty q = Some ch).
  { intros H a. destruct (IH H) as [A B]. split; [apply in_app_iff; now right|exact B]. }
  destruct res as [[e [|]]|]; simpl; try (intros H; apply (Hrest H [])).
  destruct ((e_type e =? TY_PTR) && found_ttl_guard (e_ttl e)); simpl; [|intros H; apply (Hrest H [_])].
  destruct (q_get (e_name e) q) as [ch0|] eqn:Eq; simpl.
  - intros [H|H]; [|apply (Hrest H [_])]. inversion H; subst. split; [now left|exact Eq].
  - intros H. apply (Hrest H [_]).
Qed.

Lemma handle_read_pend ifs s now d i :
  read_found_withdrawn ifs s now d = false -> NR i (snd (handle_read ifs s now d)) ->
  (pend i s \/ FD i (snd (handle_read ifs s now d))) -> pend i (fst (handle_read ifs s now d)).
Proof.
  unfold handle_read, read_found_withdrawn. destruct (accepted_msg ifs d) as [m|].
  2:{ intros _ _ [H|(ch & ty & [])]. exact H. }
  unfold handle_response.
  pose proof (hr_found now (d_if d) (s_q s) (for_us (s_q s) (m_answers m))) as Hf.
  destruct (hr_records (s_cache s) now (d_if d) (s_q s) (for_us (s_q s) (m_answers m))
              (m_answers m ++ m_authorities m ++ m_additionals m)) as [[c1 o1] changes] eqn:Ehr.
  pose proof (resolve_updated_pend (with_cache s c1) now (updated_of c1 changes) i) as Hru.
  pose proof (fun ch ty => resolve_updated_no_found (with_cache s c1) now (updated_of c1 changes) ch ty i) as Hnf.
  destruct (resolve_updated (with_cache s c1) now (updated_of c1 changes)) as [s2 o2]. cbn [fst snd] in *.
  intros Hcls Hnr Hc. apply NR_app in Hnr as [_ Hnr2]. apply (Hru Hnr2).
  destruct Hc as [Hp|(ch & ty & Hin)]; [left; exact Hp|right].
  apply in_app_iff in Hin as [Hin|Hin]; [|destruct (Hnf ch ty Hin)].
  specialize (Hf ch ty i (m_answers m ++ m_authorities m ++ m_additionals m) (s_cache s)). rewrite Ehr in Hf. cbn [fst snd] in Hf. destruct (Hf Hin) as [Hch Hq].
  pose proof (existsb_false_forall _ _ Hcls _ Hin) as Hw. cbv beta in Hw. apply negb_false_iff in Hw.
  destruct (bm_get ty (c_ptr c1)) as [b|] eqn:Eb; [|discriminate].
  apply existsb_exists in Hw as [p [Hp Hpp]]. apply andb_true_iff in Hpp as [Hal Hs].
  apply beq_eq in Hal. apply negb_true_iff in Hs.
  exists ty, ch, b, p. cbn [s_cache s_q with_cache]. split; [now apply bm_get_In|]. split; [exact Hq|].
  split; [exact Hp|]. split; [exact Hs|]. split; [exact Hal|].
  apply mem_In. unfold updated_of. apply in_flat_map. exists (TY_PTR, i). split; [exact Hch|]. simpl. now left.
Qed.

Lemma reads_pend ifs now i : forall ds s,
  reads_found_withdrawn ifs s now ds = false -> NR i (snd (run_cmds (handle_read ifs) s now ds)) ->
  (pend i s \/ FD i (snd (run_cmds (handle_read ifs) s now ds))) -> pend i (fst (run_cmds (handle_read ifs) s now ds)).
Proof.
  induction ds as [|d rest IH]; intros s Hcls Hnr Hc; simpl in *.
  - destruct Hc as [H|(ch & ty & [])]. exact H.
  - apply orb_false_iff in Hcls as [Hc1 Hc2].
    pose proof (handle_read_pend ifs s now d i Hc1) as H1.
    destruct (handle_read ifs s now d) as [s1 o1]. cbn [fst snd] in *.
    specialize (IH s1 Hc2).
    destruct (run_cmds (handle_read ifs) s1 now rest) as [s2 o2]. cbn [fst snd] in *.
    apply NR_app in Hnr as [Hn1 Hn2]. apply (IH Hn2).
    destruct Hc as [Hp|(ch & ty & Hin)]; [left; apply (H1 Hn1); now left|].
    apply in_app_iff in Hin as [Hin|Hin]; [left; apply (H1 Hn1); right; exists ch, ty; exact Hin|right; exists ch, ty; exact Hin].
Qed.

(* ---- commands ---------------------------------------------------------------------------------------------------------- *)
Lemma qc_ptrs_found c now ty ch : forall ptrs ch' ty' i,
  In (OEvt ch' (EFound ty' i)) (fst (fst (qc_ptrs c now ty ch ptrs))) ->
  In i (snd (fst (qc_ptrs c now ty ch ptrs))) \/ In i (snd (qc_ptrs c now ty ch ptrs)).
Proof.
  induction ptrs as [|p rest IH]; intros ch' ty' i; simpl; [tauto|].
  specialize (IH ch' ty' i). destruct (qc_ptrs c now ty ch rest) as [[o res] unres]. simpl in *.
  destruct (expires_soon p now); [exact IH|].
  destruct (is_valid (resolve_from_cache c now ty (alias_of (e_rr p)))); simpl.
  - intros [H|[H|H]]; [inversion H; subst; left; now left|discriminate|]. destruct (IH H); [left; now right|now right].
  - intros [H|H]; [inversion H; subst; right; now left|]. destruct (IH H); [now left|right; now right].
Qed.

Lemma qc_ptrs_res_event c now ty ch : forall ptrs i,
  In i (snd (fst (qc_ptrs c now ty ch ptrs))) ->
  exists r, In (OEvt ch (EResolved r)) (fst (fst (qc_ptrs c now ty ch ptrs))) /\ rs_name r = i.
Proof.
  induction ptrs as [|p rest IH]; intros i; simpl; [tauto|].
  specialize (IH i). destruct (qc_ptrs c now ty ch rest) as [[o res] unres]. simpl in *.
  destruct (expires_soon p now); [exact IH|].
  destruct (is_valid (resolve_from_cache c now ty (alias_of (e_rr p)))); simpl.
  - intros [<-|H]; [eexists; split; [right; now left|reflexivity]|].
    destruct (IH H) as (r & A & B). exists r. split; [right; right; exact A|exact B].
  - intros H. destruct (IH H) as (r & A & B). exists r. split; [right; exact A|exact B].
Qed.

Lemma exec_call_pend s now cl i :
  NR i (snd (exec_call s now cl)) -> (pend i s \/ FD i (snd (exec_call s now cl))) -> pend i (fst (exec_call s now cl)).
Proof.
  destruct cl as [ty ch|ty|inst timeout|ch0]; simpl.
  - unfold exec_browse. destruct (bm_get ty (c_ptr (s_cache s))) as [ptrs|].
    2:{ intros _ [H|(c0 & t0 & [])]. exact H. }
    pose proof (qc_ptrs_found (s_cache s) now ty ch ptrs) as Hf.
    pose proof (qc_ptrs_res_event (s_cache s) now ty ch ptrs i) as Hr.
    destruct (qc_ptrs (s_cache s) now ty ch ptrs) as [[o res] unres]. cbn [fst snd] in *.
    intros Hnr Hc.
    assert (Hres : ~ In i res) by (intros Hin; destruct (Hr Hin) as (r & A & B); exact (Hnr ch r A B)).
    apply fold_pending_pend. destruct Hc as [Hp|(c0 & t0 & Hin)].
    + right. apply fold_mark_pend; [exact Hp|]. intros Hx. apply Hres. now apply dedup_In_inv.
    + destruct (Hf c0 t0 i Hin) as [H|H]; [contradiction|]. left. now apply In_dedup.
  - unfold exec_stop. destruct (q_get ty (s_q s)); intros _ [H|(c0 & t0 & [])]; exact H.
  - unfold exec_verify. destruct (service_verify_queries (s_cache s) inst (Some (now + timeout))) as [c1 qs].
    destruct qs; simpl; intros _ [H|(c0 & t0 & Hin)]; try exact H; try destruct Hin as [Hin|[]]; try discriminate; destruct Hin.
  - intros _ [H|(c0 & t0 & [Hin|[]])]; [exact H|discriminate].
Qed.

Lemma calls_pend now i : forall cls s,
  NR i (snd (run_cmds exec_call s now cls)) ->
  (pend i s \/ FD i (snd (run_cmds exec_call s now cls))) -> pend i (fst (run_cmds exec_call s now cls)).
Proof.
  induction cls as [|cl rest IH]; intros s Hnr Hc; simpl in *.
  - destruct Hc as [H|(ch & ty & [])]. exact H.
  - pose proof (exec_call_pend s now cl i) as H1.
    destruct (exec_call s now cl) as [s1 o1]. cbn [fst snd] in *. specialize (IH s1).
    destruct (run_cmds exec_call s1 now rest) as [s2 o2]. cbn [fst snd] in *.
    apply NR_app in Hnr as [Hn1 Hn2]. apply (IH Hn2).
    destruct Hc as [Hp|(ch & ty & Hin)]; [left; apply (H1 Hn1); now left|].
    apply in_app_iff in Hin as [Hin|Hin]; [left; apply (H1 Hn1); right; exists ch, ty; exact Hin|right; exists ch, ty; exact Hin].
Qed.

(* ---- the retransmission pass: only a try of the instance itself ends its being pending -------------------- *)
Lemma rcmd_pend s now c i : pend i s -> (forall n, c <> RResolve i n) -> pend i (fst (exec_rcmd s now c)).
Proof.
  intros Hp Hne. destruct c as [j n|j timeout]; simpl.
  - unfold exec_resolve.
    destruct (if has_ptr_to (s_cache s) j then query_unresolved (s_cache s) j else (false, [])) as [sent o].
    destruct (sent && retry_guard n max_try); cbn [fst]; unfold pend in *; cbn [s_pending]; [exact Hp|].
    rewrite mem_set_remove_other; [exact Hp|]. destruct (beq i j) eqn:E; [|reflexivity].
    apply beq_eq in E. subst j. exfalso. now apply (Hne n).
  - unfold exec_verify. destruct (service_verify_queries (s_cache s) j None) as [c1 qs]. destruct qs; exact Hp.
Qed.

Lemma rcmds_pend now i : forall l s,
  pend i s -> (forall n, ~ In (RResolve i n) l) -> pend i (fst (run_cmds exec_rcmd s now l)).
Proof.
  induction l as [|c rest IH]; intros s Hp Hn; simpl; [exact Hp|].
  pose proof (rcmd_pend s now c i Hp) as H1. destruct (exec_rcmd s now c) as [s1 o1]. cbn [fst] in *.
  specialize (IH s1). destruct (run_cmds exec_rcmd s1 now rest) as [s2 o2]. cbn [fst]. apply IH.
  - apply H1. intros n E. apply (Hn n). now left.
  - intros n Hin. apply (Hn n). now right.
Qed.

Lemma resolve_hosts_pend now i : forall names s,
  NR i (snd (resolve_hosts s now names)) -> pend i s -> pend i (fst (resolve_hosts s now names)).
Proof.
  induction names as [|h t IH]; intros s Hnr Hp; simpl in *; [exact Hp|].
  pose proof (resolve_updated_pend s now (dedup (get_instances_on_host (s_cache s) h)) i) as H1.
  destruct (resolve_updated s now (dedup (get_instances_on_host (s_cache s) h))) as [s1 o1]. cbn [fst snd] in *.
  specialize (IH s1). destruct (resolve_hosts s1 now t) as [s2 o2]. cbn [fst snd] in *.
  apply NR_app in Hnr as [Hn1 Hn2]. apply (IH Hn2). apply (H1 Hn1). now left.
Qed.

Lemma evict_pend s now i : NR i (snd (evict s now)) -> pend i s -> pend i (fst (evict s now)).
Proof.
  unfold evict. destruct (evict_services (s_cache s) now) as [c1 expired]. destruct (evict_addr c1 now) as [c2 names].
  pose proof (resolve_hosts_pend now i (dedup names) (with_cache s c2)) as H.
  destruct (resolve_hosts (with_cache s c2) now (dedup names)) as [s2 o2]. cbn [fst snd] in *.
  intros Hnr Hp. apply NR_app in Hnr as [_ Hn2]. apply (H Hn2). exact Hp.
Qed.

(* ---- one iteration ------------------------------------------------------------------------------------------------ *)
(* the follow-up tries that run in the iteration: the Resolve retransmissions that are due when the
   retransmission pass starts (after the datagrams and the commands) *)
Definition due_tries (ifs : iftab) (s : st) (it : iter) : list (bytes * N) :=
  let now := i_now it in
  let s1 := fst (run_cmds (handle_read ifs) s now (deliveries_in_order (i_dgrams it))) in
  let s2 := fst (run_cmds exec_call s1 now (i_calls it)) in
  flat_map (fun tc => match snd tc with RResolve i n => [(i, n)] | _ => [] end)
           (filter (fun tc => fst tc <=? now) (s_retrans s2)).

Definition allq (o : list out) : Prop := forall x, In x o -> exists qs, x = OQuery qs.

Lemma allq_app a b : allq a -> allq b -> allq (a ++ b).
Proof. intros Ha Hb x Hx. apply in_app_iff in Hx as [Hx|Hx]; auto. Qed.

Lemma rcmd_allq s now c : allq (snd (exec_rcmd s now c)).
Proof.
  destruct c as [j n|j timeout]; simpl.
  - rewrite try_asks_expected. destruct (expected_followup (s_cache s) j) as [[nm ty]|]; [|intros x []].
    destruct (ty =? TY_ANY); intros x [<-|[]]; eauto.
  - unfold exec_verify. destruct (service_verify_queries (s_cache s) j None) as [c1 qs].
    destruct qs; simpl; [intros x []|intros x [<-|[]]; eauto].
Qed.

Lemma rcmds_allq now : forall l s, allq (snd (run_cmds exec_rcmd s now l)).
Proof.
  induction l as [|c rest IH]; intros s; simpl; [intros x []|].
  pose proof (rcmd_allq s now c) as H1. destruct (exec_rcmd s now c) as [s1 o1]. specialize (IH s1).
  destruct (run_cmds exec_rcmd s1 now rest) as [s2 o2]. cbn [snd] in *. now apply allq_app.
Qed.

Lemma resolve_hosts_no_found now ch ty i : forall names s, ~ In (OEvt ch (EFound ty i)) (snd (resolve_hosts s now names)).
Proof.
  induction names as [|h t IH]; intros s; simpl; [tauto|].
  pose proof (resolve_updated_no_found s now (dedup (get_instances_on_host (s_cache s) h)) ch ty i) as H1.
  destruct (resolve_updated s now (dedup (get_instances_on_host (s_cache s) h))) as [s1 o1]. specialize (IH s1).
  destruct (resolve_hosts s1 now t) as [s2 o2]. cbn [snd] in *. intros H. apply in_app_iff in H as [H|H]; auto.
Qed.

Lemma evict_no_found s now ch ty i : ~ In (OEvt ch (EFound ty i)) (snd (evict s now)).
Proof.
  unfold evict. destruct (evict_services (s_cache s) now) as [c1 expired]. destruct (evict_addr c1 now) as [c2 names].
  pose proof (resolve_hosts_no_found now ch ty i (dedup names) (with_cache s c2)) as H.
  destruct (resolve_hosts (with_cache s c2) now (dedup names)) as [s2 o2]. cbn [snd] in *.
  intros Hin. apply in_app_iff in Hin as [Hin|Hin]; [|auto].
  apply C05AgainProofs.notify_removal_shape in Hin as (c0 & t & j & E & _). discriminate.
Qed.

(* Found and not resolved in the iteration (or pending before and not resolved): pending afterwards,
   or one of its tries ran in the iteration *)
Theorem iterate_found_unresolved ifs s it i :
  reads_found_withdrawn ifs s (i_now it) (deliveries_in_order (i_dgrams it)) = false ->
  NR i (snd (iterate ifs s it)) -> (pend i s \/ FD i (snd (iterate ifs s it))) ->
  pend i (fst (iterate ifs s it)) \/ exists n, In (i, n) (due_tries ifs s it).
Proof.
  intros Hcls. unfold iterate, due_tries. cbv zeta. set (now := i_now it) in *.
  set (dgs := deliveries_in_order (i_dgrams it)) in *.
  pose proof (reads_pend ifs now i dgs s Hcls) as P1.
  destruct (run_cmds (handle_read ifs) s now dgs) as [s1 o1]. cbn [fst snd] in *.
  pose proof (calls_pend now i (i_calls it) s1) as P2.
  destruct (run_cmds exec_call s1 now (i_calls it)) as [s2 o2]. cbn [fst snd] in *.
  unfold run_retrans.
  set (due := filter (fun tc => fst tc <=? now) (s_retrans s2)).
  set (keep := filter (fun tc => negb (fst tc <=? now)) (s_retrans s2)).
  pose proof (rcmds_pend now i (map snd due) (mkSt (s_cache s2) (s_q s2) (s_pending s2) (s_resolved s2) keep)) as P3.
  pose proof (rcmds_allq now (map snd due) (mkSt (s_cache s2) (s_q s2) (s_pending s2) (s_resolved s2) keep)) as Q3.
  destruct (run_cmds exec_rcmd (mkSt (s_cache s2) (s_q s2) (s_pending s2) (s_resolved s2) keep) now (map snd due)) as [s3 o3].
  cbn [fst snd] in *.
  pose proof (C04OrderProofs.refresh_all_quiet now (s_q s3) (s_cache s3)) as Q4.
  destruct (refresh_all (s_cache s3) now (s_q s3)) as [c4 o4]. cbn [fst snd] in *.
  pose proof (evict_pend (with_cache s3 c4) now i) as P5.
  pose proof (fun ch ty => evict_no_found (with_cache s3 c4) now ch ty i) as Q5.
  destruct (evict (with_cache s3 c4) now) as [s5 o5]. cbn [fst snd] in *.
  intros Hnr Hc.
  apply NR_app in Hnr as [N1 Hnr]. apply NR_app in Hnr as [N2 Hnr]. apply NR_app in Hnr as [_ Hnr].
  apply NR_app in Hnr as [_ N5].
  assert (Hp2 : pend i s2).
  { apply (P2 N2). destruct Hc as [Hp|(ch & ty & Hin)]; [left; apply (P1 N1); now left|].
    apply in_app_iff in Hin as [Hin|Hin]; [left; apply (P1 N1); right; exists ch, ty; exact Hin|].
    apply in_app_iff in Hin as [Hin|Hin]; [right; exists ch, ty; exact Hin|]. exfalso.
    apply in_app_iff in Hin as [Hin|Hin]; [destruct (Q3 _ Hin) as [qs E]; discriminate|].
    apply in_app_iff in Hin as [Hin|Hin]; [|exact (Q5 ch ty Hin)].
    rewrite Forall_forall in Q4. exact (Q4 _ Hin). }
  destruct (existsb (fun c => match c with RResolve j _ => beq j i | _ => false end) (map snd due)) eqn:Ex.
  - right. apply existsb_exists in Ex as [c [Hin Hc']]. destruct c as [j n|]; [|discriminate]. apply beq_eq in Hc'. subst j.
    exists n. apply in_map_iff in Hin as [[t c0] [E Hin]]. simpl in E. subst c0.
    apply in_flat_map. exists (t, RResolve i n). split; [exact Hin|]. simpl. now left.
  - left. apply (P5 N5). unfold pend. cbn [s_pending with_cache]. apply P3; [exact Hp2|].
    intros n Hin. pose proof (existsb_false_forall _ _ Ex _ Hin) as Hf. simpl in Hf. now rewrite beq_refl in Hf.
Qed.

(* a queued try that is due runs in the iteration; one that is not yet due stays queued *)
Lemma appends_incl now r r' x : appends now r r' -> In x r -> In x r'.
Proof. intros [l [-> _]] H. apply in_app_iff. now left. Qed.

Theorem queued_due_is_tried ifs s it t i n :
  In (t, RResolve i n) (s_retrans s) -> t <= i_now it -> In (i, n) (due_tries ifs s it).
Proof.
  intros Hin Hle. unfold due_tries. cbv zeta. set (now := i_now it) in *.
  pose proof (run_cmds_appends (handle_read ifs) now (fun s d => handle_read_appends ifs s now d)
                (deliveries_in_order (i_dgrams it)) s) as A1.
  destruct (run_cmds (handle_read ifs) s now (deliveries_in_order (i_dgrams it))) as [s1 o1]. cbn [fst] in *.
  pose proof (run_cmds_appends exec_call now (fun s c => exec_call_appends s now c) (i_calls it) s1) as A2.
  destruct (run_cmds exec_call s1 now (i_calls it)) as [s2 o2]. cbn [fst] in *.
  apply in_flat_map. exists (t, RResolve i n). split; [|simpl; now left].
  apply filter_In. split; [eapply appends_incl; [exact A2|]; eapply appends_incl; eauto|].
  simpl. now apply N.leb_le.
Qed.

(* ---- a try that runs asks the question the checker expects on ITS cache (spec cache after the commands) ---- *)
Lemma existsb_meqr (f : entry -> bool) m m' :
  meqr m m' -> (forall e e', eqr e e' -> f e = f e') ->
  existsb (fun kb => existsb f (snd kb)) m = existsb (fun kb => existsb f (snd kb)) m'.
Proof.
  intros H Hf. induction H as [|x y l l' [_ Hb] Hl IH]; simpl; [reflexivity|].
  rewrite IH. f_equal. apply existsb_beqr; assumption.
Qed.

Lemma find_beqr (f g : entry -> bool) b b' :
  beqr b b' -> (forall e e', eqr e e' -> f e = g e') ->
  match find f b, find g b' with
  | Some x, Some y => eqr x y
  | None, None => True
  | _, _ => False
  end.
Proof.
  intros H Hfg. induction H as [|x y l l' Hxy Hl IH]; simpl; [exact I|].
  rewrite (Hfg _ _ Hxy). destruct (g y); [exact Hxy|exact IH].
Qed.

Lemma expected_followup_ceqr c c' inst : ceqr c c' -> expected_followup c inst = expected_followup c' inst.
Proof.
  intros (A1 & A2 & _ & A4 & _). unfold expected_followup.
  destruct (negb (valid_instance_name inst)); [reflexivity|].
  assert (Hp : has_ptr_to c inst = has_ptr_to c' inst).
  { unfold has_ptr_to. apply existsb_meqr; [exact A1|]. intros e e' (E & _). now rewrite E. }
  rewrite Hp. destruct (negb (has_ptr_to c' inst)); [reflexivity|].
  pose proof (meqr_get inst _ _ A2) as Hg.
  destruct (bm_get inst (c_srv c)) as [b|], (bm_get inst (c_srv c')) as [b'|]; try contradiction; [|reflexivity].
  pose proof (find_beqr (fun e => match get_addr c (srv_host e) with None => true | Some _ => false end)
                        (fun e => match get_addr c' (srv_host e) with None => true | Some _ => false end) b b' Hg) as Hf.
  match type of Hf with ?P -> _ => assert (HP : P) end.
  { intros e e' (E & _). unfold srv_host, get_addr. rewrite E.
    pose proof (meqr_get (lower (rr_host (e_rr e'))) _ _ A4) as Ha.
    destruct (bm_get _ (c_addr c)), (bm_get _ (c_addr c')); try contradiction; reflexivity. }
  specialize (Hf HP).
  destruct (find _ b) as [x|], (find _ b') as [y|]; try contradiction; [|reflexivity].
  destruct Hf as (E & _). unfold srv_host. now rewrite E.
Qed.

Lemma expected_types c inst nm ty : expected_followup c inst = Some (nm, ty) -> ty = TY_ANY \/ ty = TY_A.
Proof.
  unfold expected_followup. destruct (negb (valid_instance_name inst)); [discriminate|].
  destruct (negb (has_ptr_to c inst)); [discriminate|].
  destruct (bm_get inst (c_srv c)) as [recs|]; [|intros H; inversion H; now left].
  destruct (find _ recs); [intros H; inversion H; now right|discriminate].
Qed.

Lemma rcmds_asks now sp i n : forall l s,
  tracks s sp -> In (RResolve i n) l ->
  match expected_followup (sp_c sp) i with
  | Some (nm, ty) => exists qs, In (OQuery qs) (snd (run_cmds exec_rcmd s now l)) /\ In (nm, ty) qs
  | None => True
  end.
Proof.
  induction l as [|c rest IH]; intros s Htr Hin; [destruct Hin|]. simpl.
  pose proof (tracks_rcmd now s sp c Htr) as Htr1.
  pose proof (try_asks_expected s now i n) as Hask.
  destruct Hin as [->|Hin].
  - simpl in *. rewrite (expected_followup_ceqr _ _ i (proj1 Htr)) in Hask.
    destruct (exec_resolve s now i n) as [s1 o1]. cbn [fst snd] in *.
    destruct (run_cmds exec_rcmd s1 now rest) as [s2 o2]. cbn [snd].
    destruct (expected_followup (sp_c sp) i) as [[nm ty]|] eqn:Ee; [|exact I].
    destruct (expected_types _ _ _ _ Ee) as [-> | ->]; simpl in Hask; subst o1.
    + exists [(nm, TY_ANY)]. split; [now left|now left].
    + exists [(nm, TY_A); (nm, TY_AAAA)]. split; [now left|now left].
  - destruct (exec_rcmd s now c) as [s1 o1]. cbn [fst] in Htr1. specialize (IH s1 Htr1 Hin).
    destruct (run_cmds exec_rcmd s1 now rest) as [s2 o2]. cbn [snd] in *.
    destruct (expected_followup (sp_c sp) i) as [[nm ty]|]; [|exact I].
    destruct IH as (qs & A & B). exists qs. split; [apply in_app_iff; now right|exact B].
Qed.

Theorem tried_asks_expected ifs s sp it i n :
  tracks s sp -> In (i, n) (due_tries ifs s it) ->
  match expected_followup (sp_c (snd (fst (iter_snaps ifs sp it)))) i with
  | Some (nm, ty) => In (nm, ty) (questions_of (snd (iterate ifs s it)))
  | None => True
  end.
Proof.
  intros Htr Hin. unfold due_tries, iterate, iter_snaps in *. cbv zeta in *. cbn [fst snd]. set (now := i_now it) in *.
  set (dgs := deliveries_in_order (i_dgrams it)) in *.
  pose proof (tracks_reads ifs now dgs s sp Htr) as T1.
  destruct (run_cmds (handle_read ifs) s now dgs) as [s1 o1]. cbn [fst snd] in *.
  pose proof (tracks_calls now (i_calls it) s1 _ T1) as T2.
  destruct (run_cmds exec_call s1 now (i_calls it)) as [s2 o2]. cbn [fst snd] in *.
  set (sp2 := fold_left (spec_call now) (i_calls it) (last (scan (spec_dgram ifs now) sp dgs) sp)) in *.
  apply in_flat_map in Hin as [[t c] [Hdue Hc]]. destruct c as [j m|]; [|destruct Hc]. destruct Hc as [E|[]]. inversion E; subst j m.
  unfold run_retrans.
  set (due := filter (fun tc => fst tc <=? now) (s_retrans s2)) in *.
  set (keep := filter (fun tc => negb (fst tc <=? now)) (s_retrans s2)).
  assert (T2' : tracks (mkSt (s_cache s2) (s_q s2) (s_pending s2) (s_resolved s2) keep) sp2) by exact T2.
  assert (Hl : In (RResolve i n) (map snd due)) by (apply in_map_iff; exists (t, RResolve i n); auto).
  pose proof (rcmds_asks now sp2 i n (map snd due) _ T2' Hl) as Hask.
  destruct (run_cmds exec_rcmd (mkSt (s_cache s2) (s_q s2) (s_pending s2) (s_resolved s2) keep) now (map snd due)) as [s3 o3].
  destruct (refresh_all (s_cache s3) now (s_q s3)) as [c4 o4].
  destruct (evict (with_cache s3 c4) now) as [s5 o5]. cbn [fst snd] in *.
  destruct (expected_followup (sp_c sp2) i) as [[nm ty]|]; [|exact I].
  destruct Hask as (qs & A & B). unfold questions_of. apply in_flat_map. exists (OQuery qs). split; [|exact B].
  apply in_app_iff. right. apply in_app_iff. right. apply in_app_iff. now left.
Qed.

(* ---- composed with the history-level invariants ---------------------------------------------------------------------- *)
Lemma model_after_snoc ifs : forall h s it, model_after ifs s (h ++ [it]) = fst (iterate ifs (model_after ifs s h) it).
Proof. induction h as [|x t IH]; intros s it; simpl; [reflexivity|]. apply IH. Qed.

Lemma last_now_snoc h it : last_now (h ++ [it]) = i_now it.
Proof. unfold last_now. rewrite rev_app_distr. reflexivity. Qed.

(* after any history h: an instance reported found and not reported resolved in the next iteration
   gets a follow-up try in that iteration, or is pending afterwards with a try (number 1..3) queued
   that is due within the next 500 ms *)
Theorem found_unresolved_gets_try ifs h it i :
  wf_history (h ++ [it]) = true ->
  let s := model_after ifs init_st h in
  reads_found_withdrawn ifs s (i_now it) (deliveries_in_order (i_dgrams it)) = false ->
  NR i (snd (iterate ifs s it)) -> FD i (snd (iterate ifs s it)) ->
  (exists n, In (i, n) (due_tries ifs s it))
  \/ (pend i (fst (iterate ifs s it))
      /\ exists t n, In (t, RResolve i n) (s_retrans (fst (iterate ifs s it)))
                     /\ i_now it < t /\ t <= i_now it + 500 /\ 1 <= n /\ n <= 3).
Proof.
  intros Hwf s Hcls Hnr Hfd.
  destruct (iterate_found_unresolved ifs s it i Hcls Hnr (or_intror Hfd)) as [Hp|Ht]; [right|now left].
  split; [exact Hp|].
  assert (Hne : h ++ [it] <> []) by (destruct h; discriminate).
  pose proof (pending_followup_within_500 ifs (h ++ [it]) i Hwf Hne) as H.
  rewrite model_after_snoc, last_now_snoc in H. exact (H Hp).
Qed.
