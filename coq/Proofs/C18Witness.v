(* Concrete histories for C18: a non-vacuity example (selections, a service with automatic
   addresses, an interface that goes away and one that shows up later), the witness of the
   finding that stays (known/C18.json) and of the repaired one; replays in corpus/C18.cases. *)
From Coq Require Import List NArith Bool String.
From Mdns Require Import Res Bytes Rec Intf IntfCache Responder IntfDaemon C18Spec ResponderWitness
     IntfDaemonProofs IntfHistoryProofs IntfRemovalProofs.
Import ListNotations.
Open Scope N_scope.

Definition mask24 : N := N.shiftl (N.ones 24) 8.
Definition mask16 : N := N.shiftl (N.ones 16) 16.
Definition mask64 : N := N.shiftl (N.ones 64) 64.
Definition e_eth0_v4 : iface := mkIface (b "eth0") 2 (mkIfAddr (ip4 192 168 1 10) mask24).
Definition e_eth0_v6 : iface := mkIface (b "eth0") 2 (mkIfAddr w_v6 mask64).
Definition e_eth1_v4 : iface := mkIface (b "eth1") 3 (mkIfAddr (ip4 10 2 0 10) mask16).
Definition e_eth2_v4 : iface := mkIface (b "eth2") 4 (mkIfAddr (ip4 192 168 3 10) mask24).

Definition c18_svc (inst : string) (addrs : list ip) : service :=
  mkService (b "_http._tcp.local.") None (b (inst ++ "._http._tcp.local.")) (b "hosta.local.") addrs 80 120 4500 0 0 [0].

Definition t0 : N := 1000000.

(* ---- non-vacuity ---------------------------------------------------------------------------------- *)
Definition h_ok : list step :=
  [ mkStep t0 None [] [CSetInterval 1; CDisable [KIPv6]; CEnable [KName (b "eth2")];
                       CRegister (c18_svc "Auto" []) true;
                       CRegister (c18_svc "Fixed" [ip4 192 168 1 10; ip4 10 2 0 77; ip4 203 0 113 9]) false];
    mkStep (t0 + 1100) (Some [e_eth0_v4; e_eth0_v6; e_eth2_v4]) [] [];        (* eth1 gone, eth2 new *)
    mkStep (t0 + 2200) None [] [CDisable [KAddr (ip4 192 168 3 10)]];          (* resolved to IndexV4 4 *)
    mkStep (t0 + 3300) None [] [CUnregister (lower (b "Fixed._http._tcp.local."))] ].

Definition os_ok : list iface := [e_eth0_v4; e_eth0_v6; e_eth1_v4].

Definition count_sent (l : list (list obs)) : nat :=
  List.length (List.filter (fun o => match o with OSent _ => true | _ => false end) (List.concat l)).
Definition count_ipev (l : list (list obs)) : nat :=
  List.length (List.filter (fun o => match o with OIpAdd _ => true | OIpDel _ => true | _ => false end) (List.concat l)).

Lemma h_ok_checked :
  chk_C18 os_ok (model_history t0 os_ok h_ok) = true /\
  (0 <? N.of_nat (count_sent (run (initial_state t0 os_ok) h_ok))) = true /\
  (0 <? N.of_nat (count_ipev (run (initial_state t0 os_ok) h_ok))) = true.
Proof. repeat split; vm_compute; reflexivity. Qed.

(* ---- finding: a selection made while the OS does not report the interface ------------------------ *)
Definition os_w2 : list iface := [e_eth0_v6].
Definition h_absent : list step :=
  [ mkStep t0 None [] [];
    mkStep (t0 + 1000) (Some []) [] [];                                        (* interface down, not noticed *)
    mkStep (t0 + 1100) None [] [CDisable [KIndexV6 2]];                        (* nothing to apply it to *)
    mkStep (t0 + 1200) (Some [e_eth0_v6]) [] [];                               (* up again *)
    mkStep (t0 + 1300) None [] [CRegister (c18_svc "Svc1" [w_v6]) false] ].    (* announced on the disabled interface *)

Lemma h_absent_refutes : chk_C18 os_w2 (model_history t0 os_w2 h_absent) = false.
Proof. vm_compute. reflexivity. Qed.

(* ---- repaired (694086c): the repeated goodbye leaves through the interface it was built for ---- *)
Definition os_w1 : list iface := [e_eth0_v4; e_eth1_v4].
Definition h_goodbye : list step :=
  [ mkStep t0 None [] [CRegister (c18_svc "Svc0" [ip4 192 168 1 10; ip4 10 2 0 10]) false];
    mkStep (t0 + 2000) None [] [CUnregister (lower (b "Svc0._http._tcp.local."))];
    mkStep (t0 + 2200) None [] [] ].

(* the interfaces the packets of the last iteration (the two repeated goodbyes) leave on *)
Definition last_ifs (l : list (list obs)) : list N :=
  flat_map (fun o => match o with OSent p => [p_if p] | _ => [] end) (List.last l []).

Lemma h_goodbye_checked :
  chk_C18 os_w1 (model_history t0 os_w1 h_goodbye) = true /\
  last_ifs (run (initial_state t0 os_w1) h_goodbye) = [2; 3].
Proof. split; vm_compute; reflexivity. Qed.

(* ---- the hypotheses of the history theorems on the concrete histories ------------------------------ *)

(* the non-vacuity history is well-formed and outside the known class (and it emits packets,
   h_ok_checked) *)
Lemma h_ok_hyps :
  uniq_keysb os_ok = true /\ wf_stepsb h_ok = true /\ known_class (initial_state t0 os_ok) h_ok = false.
Proof. repeat split; vm_compute; reflexivity. Qed.

Lemma h_goodbye_hyps :
  uniq_keysb os_w1 = true /\ wf_stepsb h_goodbye = true /\ known_class (initial_state t0 os_w1) h_goodbye = false.
Proof. repeat split; vm_compute; reflexivity. Qed.

(* the witness of the finding is in the known class: the class is not empty, and it is where the
   checker rejects the model's trace *)
Lemma h_absent_in_class :
  uniq_keysb os_w2 = true /\ wf_stepsb h_absent = true /\ known_class (initial_state t0 os_w2) h_absent = true.
Proof. repeat split; vm_compute; reflexivity. Qed.

(* ---- an interface disappears: a state with records learned on eth1, then eth1 is gone ------------- *)
Definition src_eth1 : intf_id := mkIntfId (b "eth1") 3.
Definition ptr_peer : rr := mkRR (b "_peer._udp.local.") 12 1 false 4500 (RPtr (b "Peer0._peer._udp.local.")).
Definition srv_peer : rr := mkRR (b "Peer0._peer._udp.local.") 33 1 true 4500 (RSrv 0 0 7000 (b "peerhost0.local.")).
Definition a_peer : rr := mkRR (b "peerhost0.local.") 1 1 true 4500 (RAddr [198; 18; 3; 60]).
Definition d_before_removal : dstate :=
  let d0 := initial_state t0 [e_eth0_v4; e_eth1_v4] in
  mkD [e_eth0_v4] (d_intfs d0) (d_regs d0) [] [] (cache_insert (cache_insert (cache_insert empty_cache ptr_peer src_eth1) srv_peer src_eth1) a_peer src_eth1)
      [b "_peer._udp.local."] [b "Peer0._peer._udp.local."] 1000 (t0 + 1000) [].
Definition m_eth1 : myintf := mkMyIntf (b "eth1") 3 [mkIfAddr (ip4 10 2 0 10) mask16].

Definition cache_size (c : cache) : nat :=
  List.length (List.concat (List.map snd (c_ptr c ++ c_srv c ++ c_txt c ++ c_addr c ++ c_nsec c))).

Lemma removal_example :
  gone d_before_removal m_eth1 /\ cache_size (d_cache d_before_removal) = 3%nat /\
  cache_size (d_cache (fst (check_ip_changes (t0 + 1000) d_before_removal))) = 0%nat /\
  snd (check_ip_changes (t0 + 1000) d_before_removal)
  = [OIpDel (ip4 10 2 0 10); ORemoved (b "_peer._udp.local.") (b "Peer0._peer._udp.local.")].
Proof.
  split; [|repeat split; vm_compute; reflexivity].
  split.
  - right. left. vm_compute. reflexivity.
  - intros a [<-|[]]. vm_compute. reflexivity.
Qed.

(* ---- an address moves to another interface within one IP check ----------------------------------- *)
(* eth0 has only w_v6; between two IP checks the address moves to eth1.  The check withdraws it
   (IpDel) and then adds it again (IpAdd), the service with automatic addresses keeps it and is
   announced with it on eth1; the checker accepts this order and rejects the reverse one *)
Definition e_eth1_v6m : iface := mkIface (b "eth1") 3 (mkIfAddr w_v6 mask64).
Definition os_mv : list iface := [e_eth0_v6; e_eth1_v4].
Definition h_moved : list step :=
  [ mkStep t0 None [] [CSetInterval 1; CRegister (c18_svc "Auto" []) true];
    mkStep (t0 + 5100) (Some [e_eth1_v4; e_eth1_v6m]) [] [];                  (* the first IP check is at t0 + 5000 *)
    mkStep (t0 + 6200) None [] [] ].

Definition ip_events (a : ip) (l : list obs) : list obs :=
  List.filter (fun o => match o with OIpAdd x => ip_eqb x a | OIpDel x => ip_eqb x a | _ => false end) l.
Definition carries (a : ip) (o : obs) : bool :=
  match o with
  | OSent p => existsb (fun r => match r_data r with RAddr oc => ip_eqb (ip_of_octets oc) a | _ => false end)
                       (p_answers p ++ p_additionals p)
  | _ => false
  end.
Definition swap_second (h : list (step * list obs)) : list (step * list obs) :=
  match h with x :: (s, os) :: t => x :: (s, List.rev os) :: t | _ => h end.

Lemma h_moved_checked :
  chk_C18 os_mv (model_history t0 os_mv h_moved) = true /\
  ip_events w_v6 (List.nth 1 (run (initial_state t0 os_mv) h_moved) []) = [OIpDel w_v6; OIpAdd w_v6] /\
  existsb (carries w_v6) (List.nth 2 (run (initial_state t0 os_mv) h_moved) []) = true /\
  chk_C18 os_mv (swap_second (model_history t0 os_mv h_moved)) = false.
Proof. repeat split; vm_compute; reflexivity. Qed.

(* ---- a one-family interface learns both families, then it is disabled ----------------------------- *)
(* eth0 has only an IPv4 address.  The announcement of Peer0 that arrives there over IPv4 carries
   the peer's A and AAAA records; both are attributed to eth0 and reported.  After
   disable_interface("eth0") a fresh browse finds the instance (PTR, SRV, TXT stay) but reports no
   address; the checker rejects a trace in which the addresses learned on eth0 are reported again *)
Definition w_cross : bytes :=
  [0; 0; 132; 0; 0; 0; 0; 5; 0; 0; 0; 0; 5; 95; 112; 101; 101; 114; 4; 95; 117; 100; 112; 5; 108; 111; 99; 97; 108; 0;
   0; 12; 0; 1; 0; 0; 17; 148; 0; 8; 5; 80; 101; 101; 114; 48; 192; 12; 192; 40; 0; 33; 128; 1; 0; 0; 17; 148; 0; 18;
   0; 0; 0; 0; 27; 88; 9; 112; 101; 101; 114; 104; 111; 115; 116; 48; 192; 23; 192; 40; 0; 16; 128; 1; 0; 0; 17; 148;
   0; 4; 3; 97; 61; 98; 192; 66; 0; 1; 128; 1; 0; 0; 17; 148; 0; 4; 198; 18; 2; 60; 192; 66; 0; 28; 128; 1; 0; 0; 17;
   148; 0; 16; 253; 153; 0; 2; 0; 0; 0; 0; 0; 0; 0; 0; 0; 0; 6; 0].
Definition peer_ty : bytes := b "_peer._udp.local.".
Definition os_x : list iface := [e_eth0_v4; e_eth1_v4].
Definition h_xfam : list step :=
  [ mkStep t0 None [] [CBrowse peer_ty];
    mkStep (t0 + 100) None [mkDgram 2 (ip4 198 18 2 60) 5353 w_cross] [];
    mkStep (t0 + 200) None [] [CDisable [KName (b "eth0")]];
    mkStep (t0 + 300) None [] [CBrowse peer_ty] ].

Definition resolved_addrs (l : list obs) : list (list (ip * N)) :=
  flat_map (fun o => match o with OResolved _ _ _ _ a => [a] | _ => [] end) l.
Definition founds (l : list obs) : nat :=
  List.length (List.filter (fun o => match o with OFound _ _ => true | _ => false end) l).
(* the trace in which the last browse reports what the first announcement reported *)
Definition stale_report (h : list (step * list obs)) : list (step * list obs) :=
  match h with
  | x0 :: (s1, o1) :: x2 :: (s3, o3) :: t => x0 :: (s1, o1) :: x2 :: (s3, o3 ++ List.filter (fun o => match o with OResolved _ _ _ _ _ => true | _ => false end) o1) :: t
  | _ => h
  end.

Lemma h_xfam_checked :
  let r := run (initial_state t0 os_x) h_xfam in
  chk_C18 os_x (model_history t0 os_x h_xfam) = true /\
  resolved_addrs (List.nth 1 r []) = [[(V6 (n_of_octets [253; 153; 0; 2; 0; 0; 0; 0; 0; 0; 0; 0; 0; 0; 6; 0]), 2); (ip4 198 18 2 60, 2)]] /\
  founds (List.nth 3 r []) = 1%nat /\ resolved_addrs (List.nth 3 r []) = [] /\
  chk_C18 os_x (stale_report (model_history t0 os_x h_xfam)) = false.
Proof. repeat split; vm_compute; reflexivity. Qed.

(* ---- repaired (0f7c6ac): an address the daemon still holds on another entry is not withdrawn ------ *)
(* The address of eth0 moves to eth1.  Before the next IP check an enable call makes the daemon
   take up (eth1, w_v6) from the fresh table while it still holds (eth0, w_v6): IpAdd, announced
   with w_v6 on eth1.  The IP check then drops the entry of eth0; the address is still held on
   eth1, so there is no IpDel and the services keep it: the repeated announcement one second
   later carries it.  (Before 0f7c6ac the check reported IpDel and withdrew the bare address from
   the services; the checker rejected that trace: clause last_word_ok.) *)
Definition h_held : list step :=
  [ mkStep t0 None [] [CSetInterval 1; CRegister (c18_svc "Auto" []) true];
    mkStep (t0 + 5100) None [] [];                                             (* first IP check *)
    mkStep (t0 + 5300) (Some [e_eth1_v4; e_eth1_v6m]) [] [];                  (* the address moves *)
    mkStep (t0 + 5400) None [] [CEnable [KName (b "eth1")]];                   (* fresh table: eth1 gets it *)
    mkStep (t0 + 6200) None [] [];                                             (* IP check: eth0's entry goes *)
    mkStep (t0 + 7300) None [] [] ].                                           (* repeated announcement *)

(* the trace of the code before the repair: IpDel in the iteration of the second IP check *)
Definition with_del (h : list (step * list obs)) : list (step * list obs) :=
  match h with
  | x0 :: x1 :: x2 :: x3 :: (s4, o4) :: t => x0 :: x1 :: x2 :: x3 :: (s4, o4 ++ [OIpDel w_v6]) :: t
  | _ => h
  end.

Lemma h_held_checked :
  let r := run (initial_state t0 os_mv) h_held in
  ip_events w_v6 (List.nth 3 r []) = [OIpAdd w_v6] /\ existsb (carries w_v6) (List.nth 3 r []) = true /\
  ip_events w_v6 (List.nth 4 r []) = [] /\
  existsb (carries w_v6) (List.nth 5 r []) = true /\
  chk_C18 os_mv (model_history t0 os_mv h_held) = true /\
  chk_C18 os_mv (with_del (model_history t0 os_mv h_held)) = false.
Proof. repeat split; vm_compute; reflexivity. Qed.

(* ---- the hypotheses of the checker theorem on the concrete histories -------------------------------- *)
From Mdns Require Import IntfCheckerProofs.

Lemma witnesses_hist_wf :
  hist_wf os_ok h_ok = true /\ hist_wf os_w1 h_goodbye = true /\ hist_wf os_mv h_moved = true /\
  hist_wf os_mv h_held = true /\ hist_wf os_x h_xfam = true /\ hist_wf os_w2 h_absent = true.
Proof. repeat split; vm_compute; reflexivity. Qed.

Lemma more_hyps :
  (uniq_keysb os_mv = true /\ wf_stepsb h_moved = true /\ known_class (initial_state t0 os_mv) h_moved = false) /\
  (wf_stepsb h_held = true /\ known_class (initial_state t0 os_mv) h_held = false) /\
  (uniq_keysb os_x = true /\ wf_stepsb h_xfam = true /\ known_class (initial_state t0 os_x) h_xfam = false).
Proof. repeat split; vm_compute; reflexivity. Qed.

(* the same IPv4 address on two interfaces (outside hist_wf): eth0 is disabled by name, the service
   is announced on eth1 - but the IPv4 socket is told the ADDRESS, and the first interface that
   owns it is eth0: the packet is seen to leave on the disabled interface and the checker rejects *)
Definition e_eth1_same : iface := mkIface (b "eth1") 3 (mkIfAddr (ip4 192 168 1 10) mask24).
Definition os_dup : list iface := [e_eth0_v4; e_eth1_same].
Definition h_dup : list step :=
  [ mkStep t0 None [] [CDisable [KName (b "eth0")]];
    mkStep (t0 + 100) None [] [CRegister (c18_svc "Svc0" [ip4 192 168 1 10]) false] ].
Lemma h_dup_facts :
  hist_wf os_dup h_dup = false /\ uniq_keysb os_dup = true /\ known_class (initial_state t0 os_dup) h_dup = false /\
  last_ifs (run (initial_state t0 os_dup) h_dup) = [2] /\
  chk_C18 os_dup (model_history t0 os_dup h_dup) = false.
Proof. repeat split; vm_compute; reflexivity. Qed.

(* ---- C06: the ghost log on a concrete history ---------------------------------------------------------- *)
From Mdns Require Import ResponderLogProofs.

Definition h_reg : list step :=
  [ mkStep t0 None [] [CRegister (c18_svc "Svc0" [ip4 192 168 1 10; ip4 10 2 0 10]) false] ].
Definition key_svc0 : bytes := lower (b "Svc0._http._tcp.local.").

(* after the registration Svc0 is Announced on eth0 (2) and eth1 (3), the log is not empty, and the
   ghost invariant yields the announcements in the log *)
Lemma log_example :
  let d := state_after (initial_state t0 os_w1) h_reg in
  (exists ds, In (key_svc0, ds) (d_svcs d) /\ status_get 2 (ds_status ds) = Announced /\ status_get 3 (ds_status ds) = Announced) /\
  List.length (log_of (initial_state t0 os_w1) h_reg) = 2%nat /\
  announced_in (log_of (initial_state t0 os_w1) h_reg) key_svc0 2 /\
  announced_in (log_of (initial_state t0 os_w1) h_reg) key_svc0 3.
Proof.
  cbv zeta.
  assert (HA : AInv ([] ++ log_of (initial_state t0 os_w1) h_reg) (state_after (initial_state t0 os_w1) h_reg))
    by (apply history_A; intros key ds []).
  simpl app in HA.
  assert (Hs : exists ds, In (key_svc0, ds) (d_svcs (state_after (initial_state t0 os_w1) h_reg)) /\
                          status_get 2 (ds_status ds) = Announced /\ status_get 3 (ds_status ds) = Announced).
  { destruct (svc_get key_svc0 (d_svcs (state_after (initial_state t0 os_w1) h_reg))) as [ds|] eqn:E.
    - exists ds. split; [apply svc_get_in; exact E|]. revert E. vm_compute. intros E. inversion E. split; reflexivity.
    - exfalso. revert E. vm_compute. discriminate. }
  split; [exact Hs|]. split; [vm_compute; reflexivity|].
  destruct Hs as (ds & Hin & H2 & H3). destruct (HA _ _ Hin) as [_ Hl]. split; apply Hl; assumption.
Qed.
