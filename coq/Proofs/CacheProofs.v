(* Lemmas about the cache model (Model/Cache.v): association lists, record identity, lifetime
   arithmetic, specification of add_or_update and of the evictions. *)
From Coq Require Import List NArith Bool Lia.
From Mdns Require Import Bytes Rec ParamsBrowser ParamsBrowserPinned Cache.
Import ListNotations.
Open Scope N_scope.

(* ---- association lists ------------------------------------------------------------------------ *)

Lemma bm_get_In k m b : bm_get k m = Some b -> In (k, b) m.
Proof.
  induction m as [|[k' b'] t IH]; simpl; [discriminate|].
  destruct (beq k k') eqn:E.
  - intros H; inversion H; subst. apply beq_eq in E. subst. now left.
  - intros H. right. auto.
Qed.

Lemma bm_get_none_notin k m : bm_get k m = None -> ~ In k (map fst m).
Proof.
  induction m as [|[k' b'] t IH]; simpl; [tauto|].
  destruct (beq k k') eqn:E; [discriminate|].
  intros H [H1|H1]; [subst; rewrite beq_refl in E; discriminate | now apply IH].
Qed.

Lemma In_bm_get k b m : NoDup (map fst m) -> In (k, b) m -> bm_get k m = Some b.
Proof.
  induction m as [|[k' b'] t IH]; simpl; [tauto|].
  intros ND [H|H].
  - inversion H; subst. now rewrite beq_refl.
  - inversion ND; subst. destruct (beq k k') eqn:E.
    + apply beq_eq in E. subst. exfalso. apply H2. apply in_map_iff. now exists (k', b).
    + auto.
Qed.

Lemma bm_set_In k b m k' b' :
  In (k', b') (bm_set k b m) -> (k' = k /\ b' = b) \/ In (k', b') m.
Proof.
  induction m as [|[k0 b0] t IH]; simpl.
  - intros [H|[]]. inversion H; auto.
  - destruct (beq k k0) eqn:E.
    + intros [H|H]; [|auto]. inversion H; subst. apply beq_eq in E. auto.
    + intros [H|H]; [auto|]. destruct (IH H); auto.
Qed.

Lemma bm_set_keys k b m : map fst (bm_set k b m) = map fst m \/
                          (bm_get k m = None /\ map fst (bm_set k b m) = map fst m ++ [k]).
Proof.
  induction m as [|[k0 b0] t IH]; simpl; [right; auto|].
  destruct (beq k k0) eqn:E; simpl; [left; reflexivity|].
  destruct IH as [IH|[IH1 IH2]]; [left|right]; [now rewrite IH|]. split; [assumption|now rewrite IH2].
Qed.

Lemma NoDup_snoc {A} (l : list A) x : NoDup l -> ~ In x l -> NoDup (l ++ [x]).
Proof.
  induction l as [|y l IH]; simpl; intros ND Hx.
  - constructor; [tauto|constructor].
  - inversion ND; subst. constructor.
    + rewrite in_app_iff. simpl. intros [H|[H|[]]]; [tauto|subst; tauto].
    + apply IH; tauto.
Qed.

Lemma bm_set_nodup k b m : NoDup (map fst m) -> NoDup (map fst (bm_set k b m)).
Proof.
  intros ND. destruct (bm_set_keys k b m) as [H|[H1 H2]]; [now rewrite H|].
  rewrite H2. apply NoDup_snoc; [assumption|]. now apply bm_get_none_notin.
Qed.

Lemma bm_set_get_same k b m : bm_get k (bm_set k b m) = Some b.
Proof.
  induction m as [|[k0 b0] t IH]; simpl.
  - now rewrite beq_refl.
  - destruct (beq k k0) eqn:E; simpl; rewrite E; [reflexivity|assumption].
Qed.

Lemma bm_set_get_other k k' b m : beq k' k = false -> bm_get k' (bm_set k b m) = bm_get k' m.
Proof.
  intros Hne. induction m as [|[k0 b0] t IH]; simpl.
  - now rewrite Hne.
  - destruct (beq k k0) eqn:E; simpl.
    + apply beq_eq in E. subst. now rewrite Hne.
    + now rewrite IH.
Qed.

Lemma bm_remove_In k m x : In x (bm_remove k m) -> In x m.
Proof.
  induction m as [|[k0 b0] t IH]; simpl; [tauto|].
  destruct (beq k k0); simpl; intros H; [auto|]. destruct H; auto.
Qed.

Lemma bm_remove_keys_incl k m x : In x (map fst (bm_remove k m)) -> In x (map fst m).
Proof.
  intros H. apply in_map_iff in H as [[k1 b1] [H1 H2]]. apply bm_remove_In in H2.
  apply in_map_iff. now exists (k1, b1).
Qed.

Lemma bm_remove_nodup k m : NoDup (map fst m) -> NoDup (map fst (bm_remove k m)).
Proof.
  induction m as [|[k0 b0] t IH]; simpl; [auto|].
  intros ND. inversion ND; subst. destruct (beq k k0); simpl; [auto|].
  constructor; [|auto]. intros H. apply H1. now apply bm_remove_keys_incl in H.
Qed.

Lemma bm_remove_get_same k m : bm_get k (bm_remove k m) = None.
Proof.
  induction m as [|[k0 b0] t IH]; simpl; [reflexivity|].
  destruct (beq k k0) eqn:E; simpl; [assumption|]. now rewrite E.
Qed.

(* ---- record identity is an equivalence ----------------------------------------------------------- *)

Lemma beq_sym a b : beq a b = beq b a.
Proof.
  destruct (beq a b) eqn:E; symmetry.
  - apply beq_eq in E. subst. apply beq_refl.
  - destruct (beq b a) eqn:E2; [|reflexivity]. apply beq_eq in E2. subst. now rewrite beq_refl in E.
Qed.

Lemma beq_rdata_eq a b : beq_rdata a b = true -> a = b.
Proof.
  destruct a, b; simpl; try discriminate; intros H;
    repeat (apply andb_true_iff in H as [H ?]);
    repeat match goal with
           | H : beq _ _ = true |- _ => apply beq_eq in H
           | H : (_ =? _) = true |- _ => apply N.eqb_eq in H
           end; subst; reflexivity.
Qed.

Lemma beq_rdata_refl a : beq_rdata a a = true.
Proof. destruct a; simpl; rewrite ?beq_refl, ?N.eqb_refl; reflexivity. Qed.

(* what rr_matches a ai b bi = true says *)
Lemma rr_matches_spec a ai b bi :
  rr_matches a ai b bi = true <->
  r_name a = r_name b /\ r_type a = r_type b /\ r_class a = r_class b /\ r_flush a = r_flush b
  /\ r_data a = r_data b /\ (is_addr_type (r_type a) = true -> ai = bi).
Proof.
  unfold rr_matches. split.
  - intros H. apply andb_true_iff in H as [H Hif]. apply andb_true_iff in H as [H Hd].
    apply andb_true_iff in H as [H Hf]. apply andb_true_iff in H as [H Hc].
    apply andb_true_iff in H as [Hn Ht].
    apply beq_eq in Hn. apply N.eqb_eq in Ht, Hc. apply Bool.eqb_prop in Hf. apply beq_rdata_eq in Hd.
    repeat split; auto. intros Ha. rewrite Ha in Hif. now apply N.eqb_eq.
  - intros (H1 & H2 & H3 & H4 & H5 & H6).
    rewrite H1, H2, H3, H4, H5, beq_refl, !N.eqb_refl, Bool.eqb_reflx, beq_rdata_refl. simpl.
    destruct (is_addr_type (r_type b)) eqn:E; [|reflexivity]. rewrite H2 in H6. apply N.eqb_eq. auto.
Qed.

Lemma rr_matches_refl a ai : rr_matches a ai a ai = true.
Proof. apply rr_matches_spec. repeat split; auto. Qed.

Lemma rr_matches_sym a ai b bi : rr_matches a ai b bi = rr_matches b bi a ai.
Proof.
  destruct (rr_matches a ai b bi) eqn:E; symmetry.
  - apply rr_matches_spec in E as (H1 & H2 & H3 & H4 & H5 & H6). apply rr_matches_spec.
    repeat split; auto. intros Ha. rewrite <- H2 in Ha. symmetry. auto.
  - destruct (rr_matches b bi a ai) eqn:E2; [|reflexivity].
    apply rr_matches_spec in E2 as (H1 & H2 & H3 & H4 & H5 & H6).
    assert (rr_matches a ai b bi = true); [|congruence].
    apply rr_matches_spec. repeat split; auto. intros Ha. rewrite <- H2 in Ha. symmetry. auto.
Qed.

Lemma rr_matches_trans a ai b bi c ci :
  rr_matches a ai b bi = true -> rr_matches b bi c ci = true -> rr_matches a ai c ci = true.
Proof.
  intros H1 H2. apply rr_matches_spec in H1 as (A1 & A2 & A3 & A4 & A5 & A6).
  apply rr_matches_spec in H2 as (B1 & B2 & B3 & B4 & B5 & B6). apply rr_matches_spec.
  repeat split; try congruence. intros Ha. rewrite (A6 Ha). apply B6. now rewrite <- A2.
Qed.

(* the TTL plays no role in the identity *)
Lemma rr_matches_set_ttl_l a ai b bi t : rr_matches (set_ttl a t) ai b bi = rr_matches a ai b bi.
Proof. reflexivity. Qed.

(* a matching incoming record IS the stored record with the incoming TTL *)
Lemma set_ttl_of_match a ai b bi : rr_matches a ai b bi = true -> set_ttl a (r_ttl b) = b.
Proof.
  intros H. apply rr_matches_spec in H as (H1 & H2 & H3 & H4 & H5 & _).
  unfold set_ttl. destruct b; simpl in *. congruence.
Qed.

(* ---- kinds, keys ------------------------------------------------------------------------------------- *)

Lemma kind_of_type_srv t : kind_of_type t = Some KSrv -> t = TY_SRV.
Proof.
  unfold kind_of_type. destruct (t =? TY_PTR); [discriminate|].
  destruct (t =? TY_SRV) eqn:E; [intros _; now apply N.eqb_eq in E|].
  destruct (t =? TY_TXT); [discriminate|]. destruct (is_addr_type t); [discriminate|].
  destruct (t =? TY_NSEC); discriminate.
Qed.

Lemma kind_of_type_txt t : kind_of_type t = Some KTxt -> t = TY_TXT.
Proof.
  unfold kind_of_type. destruct (t =? TY_PTR); [discriminate|].
  destruct (t =? TY_SRV); [discriminate|].
  destruct (t =? TY_TXT) eqn:E; [intros _; now apply N.eqb_eq in E|].
  destruct (is_addr_type t); [discriminate|]. destruct (t =? TY_NSEC); discriminate.
Qed.

Lemma kind_of_type_ptr t : kind_of_type t = Some KPtr -> t = TY_PTR.
Proof.
  unfold kind_of_type. destruct (t =? TY_PTR) eqn:E; [intros _; now apply N.eqb_eq in E|].
  destruct (t =? TY_SRV); [discriminate|]. destruct (t =? TY_TXT); [discriminate|].
  destruct (is_addr_type t); [discriminate|]. destruct (t =? TY_NSEC); discriminate.
Qed.

Lemma kind_of_type_addr t : kind_of_type t = Some KAddr -> is_addr_type t = true.
Proof.
  unfold kind_of_type. destruct (t =? TY_PTR); [discriminate|].
  destruct (t =? TY_SRV); [discriminate|]. destruct (t =? TY_TXT); [discriminate|].
  destruct (is_addr_type t); [reflexivity|]. destruct (t =? TY_NSEC); discriminate.
Qed.

Lemma get_set_map_same c k m : get_map (set_map c k m) k = m.
Proof. destruct k; reflexivity. Qed.

Lemma kind_dec (a b : kind) : {a = b} + {a <> b}.
Proof. decide equality. Defined.

Lemma get_set_map_other c k k' m : k <> k' -> get_map (set_map c k m) k' = get_map c k'.
Proof. destruct k, k'; intros H; try reflexivity; congruence. Qed.

Lemma c_sub_set_map c k m : c_sub (set_map c k m) = c_sub c.
Proof. destruct k; reflexivity. Qed.

Lemma note_subtype_maps c r fu k : get_map (note_subtype c r fu) k = get_map c k.
Proof.
  unfold note_subtype. destruct ((r_type r =? TY_PTR) && fu && has_sub_mark (r_name r)); [|reflexivity].
  destruct (r_data r); try reflexivity. destruct (sub_get alias (c_sub c)); destruct k; reflexivity.
Qed.

(* ---- lifetime arithmetic -------------------------------------------------------------------------------- *)

Lemma new_entry_expires r now ifx : e_expires (new_entry r now ifx) = now + 1000 * r_ttl r.
Proof. unfold new_entry; simpl. apply full_life. Qed.

Lemma reset_ttl_expires e r now : e_expires (reset_ttl e r now) = now + 1000 * r_ttl r.
Proof. unfold reset_ttl; simpl. apply full_life. Qed.

Lemma expires_soon_false e now : expires_soon e now = false <-> now + 1000 < e_expires e.
Proof. unfold expires_soon. rewrite expires_soon_pinned. rewrite N.leb_gt. tauto. Qed.

Lemma is_expired_false e now : is_expired e now = false <-> now < e_expires e.
Proof. unfold is_expired. rewrite is_expired_pinned. rewrite N.leb_gt. tauto. Qed.

(* a goodbye (TTL 0, decoded as 1) leaves the record expiring exactly one second after its
   delivery, whether it was cached before or not; from the delivery on it "expires soon" *)
Lemma goodbye_new_expires r now ifx :
  r_ttl r = 1 -> e_expires (new_entry r now ifx) = now + 1000.
Proof. intros H. rewrite new_entry_expires, H. lia. Qed.

Lemma goodbye_reset_expires e r now :
  r_ttl r = 1 -> e_expires (reset_ttl e r now) = now + 1000.
Proof. intros H. rewrite reset_ttl_expires, H. lia. Qed.

Lemma goodbye_never_used e now t : e_expires e = now + 1000 -> now <= t -> expires_soon e t = true.
Proof.
  intros H Ht. destruct (expires_soon e t) eqn:E; [reflexivity|].
  apply expires_soon_false in E. lia.
Qed.

Lemma expire_sooner_le e x : e_expires (expire_sooner e x) <= e_expires e.
Proof.
  unfold expire_sooner. rewrite expire_sooner_pinned. destruct (x <? e_expires e) eqn:E; simpl; [|lia].
  apply N.ltb_lt in E. lia.
Qed.

Lemma expire_sooner_min e x : e_expires (expire_sooner e x) = N.min x (e_expires e).
Proof.
  unfold expire_sooner. rewrite expire_sooner_pinned. destruct (x <? e_expires e) eqn:E; simpl.
  - apply N.ltb_lt in E. lia.
  - apply N.ltb_ge in E. lia.
Qed.

Lemma expire_sooner_fields e x :
  e_rr (expire_sooner e x) = e_rr e /\ e_created (expire_sooner e x) = e_created e
  /\ e_if (expire_sooner e x) = e_if e.
Proof. unfold expire_sooner. destruct (expire_sooner_guard x (e_expires e)); auto. Qed.

Lemma refresh_maybe_fields e now :
  e_rr (fst (refresh_maybe e now)) = e_rr e /\ e_created (fst (refresh_maybe e now)) = e_created e
  /\ e_if (fst (refresh_maybe e now)) = e_if e /\ e_expires (fst (refresh_maybe e now)) = e_expires e.
Proof. unfold refresh_maybe. destruct (is_expired e now || negb (refresh_due e now)); simpl; auto. Qed.

Lemma flush_one_fields r ifx now e :
  e_rr (flush_one r ifx now e) = e_rr e /\ e_created (flush_one r ifx now e) = e_created e
  /\ e_if (flush_one r ifx now e) = e_if e.
Proof. unfold flush_one. match goal with |- context [if ?c then _ else _] => destruct c end; auto. Qed.

(* the cache-flush rule: a record is shortened to now + 1000 exactly when class and type agree,
   it is older than one second, has more than one second left and (addresses) came in on the
   same interface; otherwise it is untouched *)
Lemma flush_one_spec r ifx now e :
  let hit := (r_class r =? r_class (e_rr e)) && (r_type r =? e_type e)
             && (e_created e + 1000 <? now) && (now + 1000 <? e_expires e)
             && (if is_addr_type (r_type r) then e_if e =? ifx else true) in
  flush_one r ifx now e = if hit then set_expires e (now + 1000) else e.
Proof. reflexivity. Qed.

Lemma flush_one_le r ifx now e : e_expires (flush_one r ifx now e) <= e_expires e.
Proof.
  rewrite flush_one_spec. cbv zeta.
  match goal with |- context [if ?c then _ else _] => destruct c eqn:E end; simpl; [|lia].
  apply andb_true_iff in E as [E _]. apply andb_true_iff in E as [_ E]. apply N.ltb_lt in E. lia.
Qed.

(* ---- eviction: exactly the expired records go, nothing else changes --------------------------------- *)

Lemma live_only_idem now b : live_only now (live_only now b) = live_only now b.
Proof.
  unfold live_only. induction b as [|e t IH]; simpl; [reflexivity|].
  destruct (negb (is_expired e now)) eqn:E; simpl; [rewrite E, IH|]; auto.
Qed.

Lemma live_only_In now b e : In e (live_only now b) <-> In e b /\ is_expired e now = false.
Proof. unfold live_only. rewrite filter_In, negb_true_iff. tauto. Qed.

(* the records that go are exactly the expired ones; the survivors are unchanged, in order *)
Lemma live_only_spec now b :
  live_only now b = filter (fun e => negb (e_expires e <=? now)) b.
Proof. reflexivity. Qed.

Lemma sweep_In now m k b' :
  In (k, b') (sweep now m) <-> exists b, In (k, b) m /\ b' = live_only now b /\ b' <> [].
Proof.
  unfold sweep. rewrite filter_In, in_map_iff. split.
  - intros [[[k0 b0] [H1 H2]] H3]. simpl in H1. inversion H1; subst. exists b0. repeat split; auto.
    simpl in H3. destruct (live_only now b0); [discriminate|discriminate].
  - intros [b [H1 [H2 H3]]]. split.
    + exists (k, b). simpl. now subst.
    + simpl. destruct b'; [congruence|reflexivity].
Qed.

Lemma sweep_set_live now k b m :
  bm_get k m = Some b -> sweep now (bm_set k (live_only now b) m) = sweep now m.
Proof.
  unfold sweep. induction m as [|[k0 b0] t IH]; simpl; [discriminate|].
  destruct (beq k k0) eqn:E.
  - intros H. inversion H; subst. simpl. now rewrite live_only_idem.
  - intros H. simpl. now rewrite (IH H).
Qed.

Lemma sweep_remove_dead now k b m :
  NoDup (map fst m) -> bm_get k m = Some b -> live_only now b = [] ->
  sweep now (bm_remove k m) = sweep now m.
Proof.
  unfold sweep. induction m as [|[k0 b0] t IH]; simpl; [discriminate|].
  intros ND. inversion ND; subst. destruct (beq k k0) eqn:E.
  - intros H Hd. inversion H; subst. simpl. rewrite Hd. simpl.
    apply beq_eq in E. subst k0.
    assert (Hn : bm_remove k t = t).
    { clear - H1. induction t as [|[k1 b1] t IH]; simpl; [reflexivity|].
      destruct (beq k k1) eqn:E1.
      - apply beq_eq in E1. subst. exfalso. apply H1. now left.
      - rewrite IH; [reflexivity|]. intros Hin. apply H1. now right. }
    now rewrite Hn.
  - intros H Hd. simpl. now rewrite (IH H2 H Hd).
Qed.

Lemma evict_instances_sweep now ty ptrs se : forall txt txt' ex,
  evict_instances now ty ptrs se txt = (txt', ex) -> sweep now txt' = sweep now txt.
Proof.
  induction ptrs as [|p rest IH]; intros txt txt' ex; simpl.
  - intros H. inversion H; subst. reflexivity.
  - set (inst := alias_of (e_rr p)).
    destruct (bm_get inst txt) as [tb|] eqn:Et.
    + destruct (evict_instances now ty rest se (bm_set inst (live_only now tb) txt)) as [t2 e2] eqn:E2.
      intros H. inversion H; subst. rewrite (IH _ _ _ E2). now apply sweep_set_live.
    + destruct (evict_instances now ty rest se txt) as [t2 e2] eqn:E2.
      intros H. inversion H; subst. apply (IH _ _ _ E2).
Qed.

Lemma evict_types_sweep now se : forall ptr txt ptr' txt' ex,
  evict_types now ptr se txt = (ptr', txt', ex) ->
  ptr' = map (fun kb => (fst kb, live_only now (snd kb))) ptr /\ sweep now txt' = sweep now txt.
Proof.
  induction ptr as [|[ty ptrs] rest IH]; intros txt ptr' txt' ex; simpl.
  - intros H. inversion H; subst. auto.
  - destruct (evict_instances now ty ptrs se txt) as [txt1 ex1] eqn:E1.
    destruct (evict_types now rest se txt1) as [[ptr2 txt2] ex2] eqn:E2.
    intros H. inversion H; subst.
    destruct (IH _ _ _ _ E2) as (P & T). subst ptr2. rewrite T, (evict_instances_sweep _ _ _ _ _ _ _ E1). auto.
Qed.

(* evict_expired_services: the cache afterwards, exactly *)
Theorem evict_services_cache c now :
  fst (evict_services c now) =
  mkCache (map (fun kb => (fst kb, live_only now (snd kb))) (c_ptr c))
          (sweep now (c_srv c)) (sweep now (c_txt c)) (c_addr c) (sweep now (c_nsec c)) (c_sub c).
Proof.
  unfold evict_services.
  destruct (evict_types now (c_ptr c) (srv_expired_of now (c_srv c)) (c_txt c)) as [[ptr1 txt1] ex] eqn:E.
  destruct (evict_types_sweep _ _ _ _ _ _ _ E) as (P & T). simpl. now rewrite P, T.
Qed.

(* evict_expired_addr: the cache afterwards, exactly (by definition) *)
Theorem evict_addr_cache c now :
  fst (evict_addr c now) =
  mkCache (c_ptr c) (c_srv c) (c_txt c) (sweep now (c_addr c)) (c_nsec c) (c_sub c).
Proof. reflexivity. Qed.

(* every expired PTR is reported under its ty_domain *)
Lemma evict_types_reports_ptr now se : forall ptr txt ty ptrs p,
  In (ty, ptrs) ptr -> In p ptrs -> is_expired p now = true ->
  In (ty, alias_of (e_rr p)) (snd (evict_types now ptr se txt)).
Proof.
  induction ptr as [|[ty0 ptrs0] rest IH]; intros txt ty ptrs p Hin Hp He; simpl; [destruct Hin|].
  destruct (evict_instances now ty0 ptrs0 se txt) as [txt1 ex1] eqn:E1.
  specialize (IH txt1 ty ptrs p).
  destruct (evict_types now rest se txt1) as [[ptr2 txt2] ex2] eqn:E2. simpl in *.
  destruct Hin as [Hin|Hin].
  - inversion Hin; subst. apply in_app_iff. right. apply in_app_iff. left.
    apply in_map_iff. exists p. split; [reflexivity|]. apply filter_In. auto.
  - apply in_app_iff. right. apply in_app_iff. right. auto.
Qed.

(* the instances left without an unexpired SRV record *)
Lemma srv_expired_of_spec now srv i :
  mem i (srv_expired_of now srv) = true <-> exists b, In (i, b) srv /\ live_only now b = [].
Proof.
  unfold srv_expired_of. rewrite mem_In, in_map_iff. split.
  - intros [[k b] [H1 H2]]. simpl in H1. subst. apply filter_In in H2 as [H2 H3]. simpl in H3.
    exists b. split; [assumption|]. destruct (live_only now b); [reflexivity|discriminate].
  - intros [b [H1 H2]]. exists (i, b). split; [reflexivity|]. apply filter_In. split; [assumption|].
    simpl. now rewrite H2.
Qed.

Lemma evict_instances_reports_srv now ty se : forall ptrs txt p,
  In p ptrs -> mem (alias_of (e_rr p)) se = true ->
  In (ty, alias_of (e_rr p)) (snd (evict_instances now ty ptrs se txt)).
Proof.
  induction ptrs as [|q rest IH]; intros txt p Hin Hm; simpl; [destruct Hin|].
  match goal with |- context [evict_instances now ty rest se ?t1] =>
    specialize (IH t1 p); destruct (evict_instances now ty rest se t1) as [t2 e2] end.
  simpl in *. destruct Hin as [->|Hin].
  - rewrite Hm. now left.
  - apply in_app_iff. right. auto.
Qed.

Lemma evict_instances_sound now ty se : forall ptrs txt t i,
  In (t, i) (snd (evict_instances now ty ptrs se txt)) ->
  t = ty /\ mem i se = true /\ exists p, In p ptrs /\ alias_of (e_rr p) = i.
Proof.
  induction ptrs as [|p rest IH]; intros txt t i; simpl; [tauto|].
  match goal with |- context [evict_instances now ty rest se ?t1] =>
    specialize (IH t1 t i); destruct (evict_instances now ty rest se t1) as [t2 e2] end.
  simpl in *. intros H. apply in_app_iff in H as [H|H].
  - destruct (mem (alias_of (e_rr p)) se) eqn:Em; [|destruct H]. destruct H as [H|[]]. inversion H; subst.
    repeat split; auto. exists p. auto.
  - destruct (IH H) as (A & B & q & C & D). repeat split; auto. exists q. auto.
Qed.

(* since the repair of the two-PTR-names defect: EVERY ty_domain with a PTR to an instance
   whose SRV records all expired reports it *)
Theorem evict_services_reports_srv_expiry c now ty ptrs p sb :
  In (ty, ptrs) (c_ptr c) -> In p ptrs ->
  In (alias_of (e_rr p), sb) (c_srv c) -> live_only now sb = [] ->
  In (ty, alias_of (e_rr p)) (snd (evict_services c now)).
Proof.
  intros H1 H2 H3 H4. unfold evict_services.
  assert (Hm : mem (alias_of (e_rr p)) (srv_expired_of now (c_srv c)) = true)
    by (apply srv_expired_of_spec; eauto).
  set (se := srv_expired_of now (c_srv c)) in *. clearbody se.
  assert (G : forall ptr txt, In (ty, ptrs) ptr -> In (ty, alias_of (e_rr p)) (snd (evict_types now ptr se txt))).
  { induction ptr as [|[ty0 ptrs0] rest IH]; intros txt Hin; simpl; [destruct Hin|].
    pose proof (evict_instances_reports_srv now ty0 se ptrs0 txt p) as Hi.
    destruct (evict_instances now ty0 ptrs0 se txt) as [txt1 ex1] eqn:E1.
    specialize (IH txt1). destruct (evict_types now rest se txt1) as [[ptr2 txt2] ex2]. simpl in *.
    destruct Hin as [Hin|Hin].
    - inversion Hin; subst. apply in_app_iff. left. auto.
    - apply in_app_iff. right. apply in_app_iff. right. auto. }
  specialize (G (c_ptr c) (c_txt c) H1).
  destruct (evict_types now (c_ptr c) se (c_txt c)) as [[ptr1 txt1] ex]. exact G.
Qed.

Theorem evict_services_reports_expired_ptr c now ty ptrs p :
  In (ty, ptrs) (c_ptr c) -> In p ptrs -> is_expired p now = true ->
  In (ty, alias_of (e_rr p)) (snd (evict_services c now)).
Proof.
  intros H1 H2 H3. unfold evict_services.
  pose proof (evict_types_reports_ptr now (srv_expired_of now (c_srv c)) (c_ptr c) (c_txt c) ty ptrs p H1 H2 H3) as H.
  destruct (evict_types now (c_ptr c) (srv_expired_of now (c_srv c)) (c_txt c)) as [[ptr1 txt1] ex]. exact H.
Qed.

(* removed_only_when_true, eviction path: (ty, instance) is reported only if some PTR record
   ty -> instance exists and either that PTR expired or the instance has an SRV bucket without
   any unexpired record *)
Theorem evict_reports_only_when_true c now t i :
  In (t, i) (snd (evict_services c now)) ->
  exists ptrs p, In (t, ptrs) (c_ptr c) /\ In p ptrs /\ alias_of (e_rr p) = i
    /\ (is_expired p now = true \/ exists sb, In (i, sb) (c_srv c) /\ live_only now sb = []).
Proof.
  unfold evict_services. set (se := srv_expired_of now (c_srv c)).
  assert (G : forall ptr txt, In (t, i) (snd (evict_types now ptr se txt)) ->
            exists ptrs p, In (t, ptrs) ptr /\ In p ptrs /\ alias_of (e_rr p) = i
              /\ (is_expired p now = true \/ mem i se = true)).
  { induction ptr as [|[ty ptrs] rest IH]; intros txt; simpl; [tauto|].
    pose proof (evict_instances_sound now ty se ptrs txt t i) as Hs.
    destruct (evict_instances now ty ptrs se txt) as [txt1 ex1] eqn:E1.
    specialize (IH txt1). destruct (evict_types now rest se txt1) as [[ptr2 txt2] ex2]. simpl in *.
    intros H. apply in_app_iff in H as [H|H].
    - destruct (Hs H) as (A & B & p & C & D). subst t. exists ptrs, p. auto.
    - apply in_app_iff in H as [H|H].
      + apply in_map_iff in H as [p [Hp1 Hp2]]. inversion Hp1; subst. apply filter_In in Hp2 as [Hp2 Hp3].
        exists ptrs, p. auto.
      + destruct (IH H) as (ps & p & A & B & C & D). exists ps, p. auto. }
  specialize (G (c_ptr c) (c_txt c)).
  destruct (evict_types now (c_ptr c) se (c_txt c)) as [[ptr1 txt1] ex]. simpl. intros H.
  destruct (G H) as (ps & p & A & B & C & [D|D]); exists ps, p; repeat split; auto.
  right. now apply srv_expired_of_spec.
Qed.

Theorem evict_reported_has_ptr c now t i :
  In (t, i) (snd (evict_services c now)) ->
  exists ptrs p, In (t, ptrs) (c_ptr c) /\ In p ptrs /\ alias_of (e_rr p) = i.
Proof.
  intros H. destruct (evict_reports_only_when_true c now t i H) as (ps & p & A & B & C & _). eauto.
Qed.

(* ---- verify ------------------------------------------------------------------------------------------ *)

(* verify shortens every SRV record of the instance to min(expires, now + timeout); an answer
   (matching record) restores the full TTL through reset_ttl *)
Lemma verify_srv_bucket c inst x sb :
  bm_get inst (c_srv c) = Some sb ->
  bm_get inst (c_srv (fst (service_verify_queries c inst (Some x)))) = Some (map (fun e => expire_sooner e x) sb).
Proof. intros H. unfold service_verify_queries. rewrite H. simpl. apply bm_set_get_same. Qed.

Lemma verify_questions c inst at_ sb :
  bm_get inst (c_srv c) = Some sb ->
  snd (service_verify_queries c inst at_) =
  (inst, TY_SRV) :: flat_map (fun s => [(srv_host s, TY_A); (srv_host s, TY_AAAA)]) sb.
Proof. intros H. unfold service_verify_queries. now rewrite H. Qed.
