(* The definitions regenerated from src/service_daemon.rs (Gen/ParamsSched.v) pinned to the
   literal numbers and comparison directions of the property texts of C19 / C13 / C12.
   A changed constant (1000, 2, 60*60, first delay 1, default interval 5 s) or a flipped
   comparison in /repo makes one of these proofs fail. *)
From Coq Require Import List NArith Bool Lia.
From Mdns Require Import Bytes ParamsSched Sched SchedSpec.
Import ListNotations.
Open Scope N_scope.

Lemma browse_next_time_pinned now d : browse_next_time now d = now + d * 1000.
Proof. reflexivity. Qed.
Lemma browse_max_delay_pinned : browse_max_delay = 3600.
Proof. reflexivity. Qed.
Lemma browse_doubled_pinned d : browse_doubled d = d * 2.
Proof. reflexivity. Qed.
Lemma browse_first_delay_pinned : browse_first_delay = 1.
Proof. reflexivity. Qed.
Lemma browse_cache_first_delay_pinned : browse_cache_first_delay = 1.
Proof. reflexivity. Qed.
Lemma resolve_millis_per_sec_pinned : resolve_millis_per_sec = 1000.
Proof. reflexivity. Qed.
Lemma resolve_max_delay_pinned : resolve_max_delay = 3600.
Proof. reflexivity. Qed.
Lemma resolve_doubled_pinned d : resolve_doubled d = d * 2.
Proof. reflexivity. Qed.
Lemma resolve_first_delay_pinned : resolve_first_delay = 1.
Proof. reflexivity. Qed.
Lemma resolve_requeue_guard_pinned nt d : resolve_requeue_guard nt d = (nt <? d).
Proof. reflexivity. Qed.
Lemma timer_kept_pinned v now : timer_kept v now = (now <? v).
Proof. reflexivity. Qed.
Lemma resolver_expired_pinned now t : resolver_expired now t = (t <=? now).
Proof. reflexivity. Qed.
Lemma ip_check_disabled_pinned iv : ip_check_disabled iv = (iv =? 0).
Proof. reflexivity. Qed.
Lemma ip_check_unarmed_pinned nx : ip_check_unarmed nx = (nx =? 0).
Proof. reflexivity. Qed.
Lemma ip_check_rearm_time_pinned now iv : ip_check_rearm_time now iv = now + iv.
Proof. reflexivity. Qed.
Lemma ip_check_due_pinned now nx : ip_check_due now nx = (nx <=? now).
Proof. reflexivity. Qed.
Lemma ip_check_next_time_pinned now iv : ip_check_next_time now iv = now + iv.
Proof. reflexivity. Qed.
Lemma ip_check_first_armed_pinned iv : ip_check_first_armed iv = (0 <? iv).
Proof. reflexivity. Qed.
Lemma ip_check_interval_of_secs_pinned secs : ip_check_interval_of_secs secs = secs * 1000.
Proof. reflexivity. Qed.
Lemma ip_check_interval_initial_pinned : ip_check_interval_initial = 5000.
Proof. reflexivity. Qed.
Lemma ip_check_interval_default_secs_pinned : ip_check_interval_default_secs = 5.
Proof. reflexivity. Qed.

(* the model's back-off arithmetic in the words of the property text *)
Lemma next_time_spec host now d : next_time host now d = now + d * 1000.
Proof. destruct host; reflexivity. Qed.

Lemma next_delay_spec host d : next_delay host d = spec_next_delay d.
Proof.
  unfold next_delay, spec_next_delay.
  rewrite resolve_doubled_pinned, browse_doubled_pinned, resolve_max_delay_pinned, browse_max_delay_pinned.
  destruct host; f_equal; lia.
Qed.

Lemma first_delay_spec host cache : first_delay host cache = 1.
Proof. destruct host, cache; reflexivity. Qed.

Lemma spec_next_delay_pos d : 1 <= d -> 1 <= spec_next_delay d.
Proof. unfold spec_next_delay. intros H. apply N.min_glb; lia. Qed.

Lemma init_spec t0 : init t0 = mkState t0 [t0 + 5000] [] [] (t0 + 5000) 5000 true.
Proof. reflexivity. Qed.
