(* C20: concrete histories - the refutations of the literal property statements on the model
   of the code as it is, and a legitimate history that satisfies the checker.  Every claim is
   computed (vm_compute) on the model.  No axioms. *)
From Coq Require Import List NArith Bool.
From Mdns Require Import Bytes ParamsHostres HostresBase BoundedModel BoundedSpec.
Import ListNotations.
Open Scope N_scope.

Definition reported (m : sample) : list N := [m_ptr m; m_srv m; m_txt m; m_addr m; m_nsec m; m_sub m; m_timer m].
Definition has_search (c : bcall) : bool :=
  match c with BBrowse _ | BResolveHost _ _ => true | _ => false end.
Definition t0 : N := 1000000.

(* (a) nobody searches anything; one response without PTR carries SRV, TXT and A records *)
Definition w_unneeded : list biter :=
  [ mkBI 1000010 [] [mkBM 2 [mkBR true 33 [117; 49; 46; 95; 106; 117; 110; 107; 46; 95; 116; 99; 112; 46; 108; 111; 99; 97; 108; 46] 1 true 120 [0; 0; 0; 0; 0; 80; 106; 117; 110; 107; 49; 46; 108; 111; 99; 97; 108; 46] [106; 117; 110; 107; 49; 46; 108; 111; 99; 97; 108; 46]; mkBR true 16 [117; 49; 46; 95; 106; 117; 110; 107; 46; 95; 116; 99; 112; 46; 108; 111; 99; 97; 108; 46] 1 true 120 [3; 97; 61; 49] []; mkBR true 1 [106; 117; 110; 107; 49; 46; 108; 111; 99; 97; 108; 46] 1 true 120 [10; 0; 0; 1] []]];
    mkBI 1000020 [BMetrics] [] ].

Lemma w_unneeded_ok :
  existsb has_search (flat_map bi_calls w_unneeded) = false
  /\ map (map reported) (run PCode t0 w_unneeded) = [[]; [[0; 1; 1; 1; 0; 0; 7]]]
  /\ map (map reported) (run PNeed t0 w_unneeded) = [[]; [[0; 0; 0; 0; 0; 0; 1]]]
  /\ chk_cache t0 w_unneeded (run PCode t0 w_unneeded) = false
  /\ chk_C20 t0 w_unneeded (run PCode t0 w_unneeded) = false.
Proof. vm_compute. repeat split; reflexivity. Qed.

(* (b) browse a subtype, one PTR with TTL 10 s, stop; more than an hour later *)
Definition w_subtype : list biter :=
  [ mkBI 1000000 [BSetIpInterval 0; BBrowse [95; 112; 114; 105; 110; 116; 101; 114; 46; 95; 115; 117; 98; 46; 95; 104; 116; 116; 112; 46; 95; 116; 99; 112; 46; 108; 111; 99; 97; 108; 46]] [];
    mkBI 1000010 [] [mkBM 2 [mkBR true 12 [95; 112; 114; 105; 110; 116; 101; 114; 46; 95; 115; 117; 98; 46; 95; 104; 116; 116; 112; 46; 95; 116; 99; 112; 46; 108; 111; 99; 97; 108; 46] 1 false 10 [97; 108; 112; 104; 97; 46; 95; 104; 116; 116; 112; 46; 95; 116; 99; 112; 46; 108; 111; 99; 97; 108; 46] [97; 108; 112; 104; 97; 46; 95; 104; 116; 116; 112; 46; 95; 116; 99; 112; 46; 108; 111; 99; 97; 108; 46]]];
    mkBI 1000020 [BMetrics; BStopBrowse [95; 112; 114; 105; 110; 116; 101; 114; 46; 95; 115; 117; 98; 46; 95; 104; 116; 116; 112; 46; 95; 116; 99; 112; 46; 108; 111; 99; 97; 108; 46]] [];
    mkBI 5000000 [BMetrics] [];
    mkBI 5001000 [BMetrics] [] ].

Lemma w_subtype_ok :
  map (map reported) (run PCode t0 w_subtype) = [[]; []; [[1; 0; 0; 0; 0; 1; 6]]; [[0; 0; 0; 0; 0; 1; 0]]; [[0; 0; 0; 0; 0; 1; 0]]]
  /\ chk_sub t0 w_subtype (run PCode t0 w_subtype) = false
  /\ chk_sub t0 w_subtype (run PNeed t0 w_subtype) = false.
Proof. vm_compute. repeat split; reflexivity. Qed.

(* (d) one wanted address record announced twelve times within 1.2 s *)
Definition w_repeat : list biter :=
  [ mkBI 1000000 [BSetIpInterval 0; BResolveHost [110; 97; 115; 46; 108; 111; 99; 97; 108; 46] None] [];
    mkBI 1000100 [] [mkBM 2 [mkBR true 1 [110; 97; 115; 46; 108; 111; 99; 97; 108; 46] 1 true 120 [192; 168; 1; 77] []]];
    mkBI 1000200 [] [mkBM 2 [mkBR true 1 [110; 97; 115; 46; 108; 111; 99; 97; 108; 46] 1 true 120 [192; 168; 1; 77] []]];
    mkBI 1000300 [] [mkBM 2 [mkBR true 1 [110; 97; 115; 46; 108; 111; 99; 97; 108; 46] 1 true 120 [192; 168; 1; 77] []]];
    mkBI 1000400 [] [mkBM 2 [mkBR true 1 [110; 97; 115; 46; 108; 111; 99; 97; 108; 46] 1 true 120 [192; 168; 1; 77] []]];
    mkBI 1000500 [] [mkBM 2 [mkBR true 1 [110; 97; 115; 46; 108; 111; 99; 97; 108; 46] 1 true 120 [192; 168; 1; 77] []]];
    mkBI 1000600 [] [mkBM 2 [mkBR true 1 [110; 97; 115; 46; 108; 111; 99; 97; 108; 46] 1 true 120 [192; 168; 1; 77] []]];
    mkBI 1000700 [] [mkBM 2 [mkBR true 1 [110; 97; 115; 46; 108; 111; 99; 97; 108; 46] 1 true 120 [192; 168; 1; 77] []]];
    mkBI 1000800 [] [mkBM 2 [mkBR true 1 [110; 97; 115; 46; 108; 111; 99; 97; 108; 46] 1 true 120 [192; 168; 1; 77] []]];
    mkBI 1000900 [] [mkBM 2 [mkBR true 1 [110; 97; 115; 46; 108; 111; 99; 97; 108; 46] 1 true 120 [192; 168; 1; 77] []]];
    mkBI 1001000 [] [mkBM 2 [mkBR true 1 [110; 97; 115; 46; 108; 111; 99; 97; 108; 46] 1 true 120 [192; 168; 1; 77] []]];
    mkBI 1001100 [] [mkBM 2 [mkBR true 1 [110; 97; 115; 46; 108; 111; 99; 97; 108; 46] 1 true 120 [192; 168; 1; 77] []]];
    mkBI 1001200 [] [mkBM 2 [mkBR true 1 [110; 97; 115; 46; 108; 111; 99; 97; 108; 46] 1 true 120 [192; 168; 1; 77] []]];
    mkBI 1001300 [BMetrics] [] ].

Lemma w_repeat_ok :
  exists tm, map (map reported) (run PCode t0 w_repeat) = repeat [] 13 ++ [[[0; 0; 0; 1; 0; 0; tm]]]
  /\ 24 <= tm
  /\ map (map m_timer_allow) (run PNeed t0 w_repeat) = repeat [] 13 ++ [[11]]
  /\ run PNeed t0 w_repeat = run PCode t0 w_repeat
  /\ chk_timers t0 w_repeat (run PCode t0 w_repeat) = false.
Proof. vm_compute. eexists. repeat split; try reflexivity. intros H; discriminate H. Qed.

(* (f) a search with a long timeout is stopped after 100 ms *)
Definition w_stale : list biter :=
  [ mkBI 1000000 [BSetIpInterval 0; BResolveHost [110; 97; 115; 46; 108; 111; 99; 97; 108; 46] (Some 1000000)] [];
    mkBI 1000100 [BStopHost [78; 65; 83; 46; 108; 111; 99; 97; 108; 46]] [];
    mkBI 1010000 [BMetrics] [];
    mkBI 1011000 [BMetrics] [] ].

Lemma w_stale_ok :
  map (map reported) (run PCode t0 w_stale) = [[]; []; [[0; 0; 0; 0; 0; 0; 1]]; [[0; 0; 0; 0; 0; 0; 1]]]
  /\ map (map m_timer_allow) (run PNeed t0 w_stale) = [[]; []; [0]; [0]]
  /\ b_timers (state_after PCode (b_init t0) w_stale) = [2000000]
  /\ b_resolvers (state_after PCode (b_init t0) w_stale) = [] /\ b_retr (state_after PCode (b_init t0) w_stale) = []
  /\ chk_timers t0 w_stale (run PCode t0 w_stale) = false.
Proof. vm_compute. repeat split; reflexivity. Qed.

(* a legitimate history: browse, one announcement (PTR + SRV + TXT + A), stop, wait *)
Definition w_legit : list biter :=
  [ mkBI 1000000 [BSetIpInterval 0; BBrowse [95; 104; 116; 116; 112; 46; 95; 116; 99; 112; 46; 108; 111; 99; 97; 108; 46]] [];
    mkBI 1000010 [] [mkBM 2 [mkBR true 12 [95; 104; 116; 116; 112; 46; 95; 116; 99; 112; 46; 108; 111; 99; 97; 108; 46] 1 false 4500 [97; 108; 112; 104; 97; 46; 95; 104; 116; 116; 112; 46; 95; 116; 99; 112; 46; 108; 111; 99; 97; 108; 46] [97; 108; 112; 104; 97; 46; 95; 104; 116; 116; 112; 46; 95; 116; 99; 112; 46; 108; 111; 99; 97; 108; 46]; mkBR false 33 [97; 108; 112; 104; 97; 46; 95; 104; 116; 116; 112; 46; 95; 116; 99; 112; 46; 108; 111; 99; 97; 108; 46] 1 true 120 [0; 0; 0; 0; 0; 80; 97; 108; 112; 104; 97; 45; 104; 111; 115; 116; 46; 108; 111; 99; 97; 108; 46] [97; 108; 112; 104; 97; 45; 104; 111; 115; 116; 46; 108; 111; 99; 97; 108; 46]; mkBR false 16 [97; 108; 112; 104; 97; 46; 95; 104; 116; 116; 112; 46; 95; 116; 99; 112; 46; 108; 111; 99; 97; 108; 46] 1 true 4500 [3; 97; 61; 49] []; mkBR false 1 [97; 108; 112; 104; 97; 45; 104; 111; 115; 116; 46; 108; 111; 99; 97; 108; 46] 1 true 120 [192; 168; 1; 40] []]];
    mkBI 1000020 [BMetrics] [];
    mkBI 1130000 [BMetrics; BStopBrowse [95; 104; 116; 116; 112; 46; 95; 116; 99; 112; 46; 108; 111; 99; 97; 108; 46]] [];
    mkBI 6000000 [BMetrics] [];
    mkBI 6001000 [BMetrics] [] ].

Lemma w_legit_ok :
  btimes_ok t0 w_legit = true
  /\ map (map reported) (run PCode t0 w_legit)
     = [[]; []; [[1; 1; 1; 1; 0; 0; 11]]; [[1; 1; 1; 1; 0; 0; 5]]; [[0; 0; 0; 0; 0; 0; 0]]; [[0; 0; 0; 0; 0; 0; 0]]]
  /\ run PNeed t0 w_legit = run PCode t0 w_legit
  /\ chk_C20 t0 w_legit (run PCode t0 w_legit) = true.
Proof. vm_compute. repeat split; reflexivity. Qed.

(* (c), (e): state that get_metrics does not show.  Browse; a PTR whose SRV never comes, and a
   PTR of a type nobody browses (refused, but its map key is created); stop.  The instance
   waits in pending_resolves until its first follow-up comes due; as stop_browse removed the
   PTR, the series ends there and the instance leaves pending_resolves (repairs e9e74a6,
   48ec5c0); the foreign type keeps an (empty) bucket in the PTR map for ever *)
Definition w_hidden : list biter :=
  [ mkBI 1000000 [BSetIpInterval 0; BBrowse [95; 104; 116; 116; 112; 46; 95; 116; 99; 112; 46; 108; 111; 99; 97; 108; 46]] [];
    mkBI 1000010 [] [mkBM 2 [mkBR true 12 [95; 104; 116; 116; 112; 46; 95; 116; 99; 112; 46; 108; 111; 99; 97; 108; 46] 1 false 10 [97; 108; 112; 104; 97; 46; 95; 104; 116; 116; 112; 46; 95; 116; 99; 112; 46; 108; 111; 99; 97; 108; 46] [97; 108; 112; 104; 97; 46; 95; 104; 116; 116; 112; 46; 95; 116; 99; 112; 46; 108; 111; 99; 97; 108; 46]]; mkBM 2 [mkBR true 12 [95; 102; 111; 114; 101; 105; 103; 110; 46; 95; 116; 99; 112; 46; 108; 111; 99; 97; 108; 46] 1 false 10 [102; 49; 46; 95; 102; 111; 114; 101; 105; 103; 110; 46; 95; 116; 99; 112; 46; 108; 111; 99; 97; 108; 46] [102; 49; 46; 95; 102; 111; 114; 101; 105; 103; 110; 46; 95; 116; 99; 112; 46; 108; 111; 99; 97; 108; 46]]];
    mkBI 1000020 [BStopBrowse [95; 104; 116; 116; 112; 46; 95; 116; 99; 112; 46; 108; 111; 99; 97; 108; 46]] [];
    mkBI 1000100 [] [];
    mkBI 1000510 [] [];
    mkBI 1001010 [] [];
    mkBI 1001510 [] [];
    mkBI 5000000 [BMetrics] [] ].

Lemma w_hidden_ok :
  b_pending (state_after PCode (b_init t0) (firstn 4 w_hidden)) = [[97; 108; 112; 104; 97; 46; 95; 104; 116; 116; 112; 46; 95; 116; 99; 112; 46; 108; 111; 99; 97; 108; 46]]
  /\ map (map reported) (run PCode t0 w_hidden) = [[]; []; []; []; []; []; []; [[0; 0; 0; 0; 0; 0; 0]]]
  /\ b_pending (state_after PCode (b_init t0) w_hidden) = []
  /\ bc_ptr (b_cache (state_after PCode (b_init t0) w_hidden)) = [([95; 102; 111; 114; 101; 105; 103; 110; 46; 95; 116; 99; 112; 46; 108; 111; 99; 97; 108; 46], [])].
Proof. vm_compute. repeat split; reflexivity. Qed.

(* ---- non-vacuity of the counting bound and of the timer theorems ---- *)
(* the legitimate history: four needed deliveries (PTR, SRV, TXT, A), each counter meets its bound;
   the unneeded history: nothing is logged under PNeed, three deliveries under PCode *)
Lemma w_count_ok :
  map (fun d => br_ty (snd d)) (deliveries_of PNeed t0 w_legit) = [12; 33; 16; 1]
  /\ map (fun k => live_count k 1000010 (deliveries_of PNeed t0 (firstn 3 w_legit))) [KPtr; KSrv; KTxt; KAddr; KNsec]
     = [1; 1; 1; 1; 0]
  /\ deliveries_of PNeed t0 w_unneeded = []
  /\ length (deliveries_of PCode t0 w_unneeded) = 3%nat.
Proof. vm_compute. repeat split; reflexivity. Qed.

(* an idle iteration after the stopped search: only popping, the stale deadline timer stays *)
Definition w_idle_iter : biter := mkBI 1012000 [] [].
Lemma w_idle_ok :
  let s := state_after PCode (b_init t0) w_stale in
  b_queriers s = [] /\ b_retr s = [] /\ b_ip_interval s = 0 /\ b_timers s = [2000000]
  /\ b_timers (fst (step PCode s w_idle_iter)) = [2000000].
Proof. vm_compute. repeat split; reflexivity. Qed.
