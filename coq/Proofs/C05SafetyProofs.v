(* C05, safety at history level: for every history outside the classes known_ptr_variant /
   known_srv_targets the checker viol_C05 - run on the model's own trace - never reports
   F05_alive: every ServiceRemoved the model emits comes in an iteration in which, at one of the
   checker's snapshots (after a datagram, after the commands, after the eviction), the instance
   does NOT have a PTR under that type, an SRV and an address of the SRV's host with more than
   one second left.

   Shape of the proof: the invariant  Inv L (cache)  of C03 (every cached record is a delivery of
   the log) together with  tracks  (the checker's spec cache is the model's cache) is carried
   through one loop iteration; at each of the three places where the model emits ServiceRemoved
   (resolve_updated_instances inside handle_response, the report of evict_expired_services,
   resolve_updated_instances after evict_expired_addr) the cache at that moment is shown not to
   be "strongly alive" for the instance, and that cache is one of the checker's snapshots. *)
From Coq Require Import List NArith Bool Lia.
From Mdns Require Import Res Bytes Rec Wire Txt ParamsBrowser Cache Browser C03Spec BrowserSpec BrowserKnown
  CacheProofs CacheInvProofs BrowserProofs BrowserStepProofs SpecTrackProofs.
Import ListNotations.
Open Scope N_scope.

(* ---- small list facts ------------------------------------------------------------------------------ *)

Lemma existsb_false_forall {A} (f : A -> bool) l : existsb f l = false -> forall x, In x l -> f x = false.
Proof.
  intros H x Hx. destruct (f x) eqn:E; [|reflexivity].
  assert (existsb f l = true) by (apply existsb_exists; eauto). congruence.
Qed.

Lemma existsb_beqr (f g : entry -> bool) b b' :
  beqr b b' -> (forall e e', eqr e e' -> f e = g e') -> existsb f b = existsb g b'.
Proof. intros H Hfg. induction H; simpl; [reflexivity|]. now rewrite (Hfg _ _ H), IHForall2. Qed.

Lemma beqr_filter_rr (f : rr -> bool) b b' :
  beqr b b' -> beqr (filter (fun e => f (e_rr e)) b) (filter (fun e => f (e_rr e)) b').
Proof.
  intros H. induction H as [|x y l l' Hxy Hl IH]; simpl; [constructor|].
  destruct Hxy as (H1 & H2 & H3 & H4). rewrite H1. destruct (f (e_rr y)); [constructor|]; auto.
  repeat split; auto.
Qed.

Lemma eqr_expires_soon e e' now : eqr e e' -> expires_soon e now = expires_soon e' now.
Proof. intros (_ & _ & H & _). unfold expires_soon. now rewrite H. Qed.

Lemma lower_nil_iff (l : bytes) : lower l = [] <-> l = [].
Proof. destruct l; simpl; split; intros H; try reflexivity; discriminate. Qed.

(* ---- alive_strong reads only fields on which the spec cache and the model cache agree ---------------- *)

Lemma ptr_entries_ceqr c c' ty i : ceqr c c' -> beqr (ptr_entries c ty i) (ptr_entries c' ty i).
Proof.
  intros (A1 & _). unfold ptr_entries. pose proof (meqr_get ty _ _ A1) as Hg.
  destruct (bm_get ty (c_ptr c)), (bm_get ty (c_ptr c')); try contradiction; [|constructor].
  apply (beqr_filter_rr (fun r => beq (alias_of r) i) _ _ Hg).
Qed.

Lemma srv_entries_ceqr c c' i : ceqr c c' -> beqr (srv_entries c i) (srv_entries c' i).
Proof.
  intros (_ & A2 & _). unfold srv_entries. pose proof (meqr_get i _ _ A2) as Hg.
  destruct (bm_get i (c_srv c)), (bm_get i (c_srv c')); try contradiction; [assumption|constructor].
Qed.

Lemma addr_entries_ceqr c c' h : ceqr c c' -> beqr (addr_entries c h) (addr_entries c' h).
Proof.
  intros (_ & _ & _ & A4 & _). unfold addr_entries, get_addr. pose proof (meqr_get (lower h) _ _ A4) as Hg.
  destruct (bm_get (lower h) (c_addr c)), (bm_get (lower h) (c_addr c')); try contradiction; [assumption|constructor].
Qed.

Lemma alive_strong_ceqr c c' now ty i : ceqr c c' -> alive_strong c now ty i = alive_strong c' now ty i.
Proof.
  intros H. unfold alive_strong. f_equal.
  - apply existsb_beqr; [now apply ptr_entries_ceqr|]. intros e e' He. now rewrite (eqr_expires_soon _ _ now He).
  - apply existsb_beqr; [now apply srv_entries_ceqr|]. intros e e' He.
    rewrite (eqr_expires_soon _ _ now He). destruct He as (H1 & _). unfold srv_host. rewrite H1. f_equal.
    apply existsb_beqr; [now apply addr_entries_ceqr|]. intros a a' Ha. now rewrite (eqr_expires_soon _ _ now Ha).
Qed.

(* ---- what the excluded classes give about a cache that satisfies Inv ---------------------------------- *)

Section Facts.
  Variable Lf : list dlv.
  Hypothesis Hvar : known_ptr_variant Lf = false.
  Hypothesis Htgt : known_srv_targets Lf = false.
  Hypothesis Hnames : ptr_names_ok Lf = true.

  Variables (L : list dlv) (c : cache).
  Hypothesis HI : Inv L c.
  Hypothesis Hsub : incl L Lf.

  Lemma entry_delivery k key b e :
    In (key, b) (get_map c k) -> In e b ->
    exists d, In d Lf /\ dl_rr d = e_rr e /\ kind_of_type (e_type e) = Some k /\ key = key_of k (e_name e).
  Proof.
    intros Hb He. destruct (HI k) as [_ H]. destruct (H key b Hb) as [_ Hok].
    destruct (Hok e He) as (A & B & L1 & d & L2 & HL & C & _).
    exists d. repeat split; auto. apply Hsub. rewrite HL. apply in_app_iff. right. now left.
  Qed.

  Lemma rr_matches_nonaddr a ai b bi aj bj :
    is_addr_type (r_type a) = false -> rr_matches a ai b bi = rr_matches a aj b bj.
  Proof. intros H. unfold rr_matches. now rewrite H. Qed.

  (* one PTR record per (type, instance) *)
  Lemma one_ptr_per_instance ty b p p' :
    In (ty, b) (c_ptr c) -> In p b -> In p' b -> alias_of (e_rr p) = alias_of (e_rr p') -> p = p'.
  Proof.
    intros Hb Hp Hp' Ha.
    destruct (entry_delivery KPtr ty b p Hb Hp) as (d & Hd & Hrr & Hk & Hkey).
    destruct (entry_delivery KPtr ty b p' Hb Hp') as (d' & Hd' & Hrr' & Hk' & Hkey').
    apply kind_of_type_ptr in Hk, Hk'. unfold e_type, e_name in *. simpl in Hkey, Hkey'.
    pose proof (existsb_false_forall _ _ (existsb_false_forall _ _ Hvar d Hd) d' Hd') as Hv.
    unfold ptr_var in Hv. rewrite Hrr, Hrr', Hk, Hk', <- Hkey, <- Hkey', Ha in Hv.
    rewrite !N.eqb_refl, !beq_refl in Hv. simpl in Hv. apply negb_false_iff in Hv.
    assert (Hna : is_addr_type (r_type (e_rr p)) = false) by (rewrite Hk; reflexivity).
    destruct (HI KPtr) as [_ H]. destruct (H ty b Hb) as [Hnd _].
    destruct (ForallOrdPairs_In Hnd p p' Hp Hp') as [E|[E|E]]; [assumption| |]; exfalso.
    - unfold entry_matches in E. rewrite (rr_matches_nonaddr _ _ _ _ 0 0 Hna) in E. congruence.
    - unfold entry_matches in E. rewrite rr_matches_sym in E.
      rewrite (rr_matches_nonaddr _ _ _ _ 0 0 Hna) in E. congruence.
  Qed.

  (* all SRV records of an instance name the same host (up to ASCII case) *)
  Lemma one_srv_target i sb e e' :
    In (i, sb) (c_srv c) -> In e sb -> In e' sb -> lower (srv_host e) = lower (srv_host e').
  Proof.
    intros Hb He He'.
    destruct (entry_delivery KSrv i sb e Hb He) as (d & Hd & Hrr & Hk & Hkey).
    destruct (entry_delivery KSrv i sb e' Hb He') as (d' & Hd' & Hrr' & Hk' & Hkey').
    apply kind_of_type_srv in Hk, Hk'. unfold e_type, e_name in *. simpl in Hkey, Hkey'.
    pose proof (existsb_false_forall _ _ (existsb_false_forall _ _ Htgt d Hd) d' Hd') as Hv.
    unfold srv_tgt in Hv. rewrite Hrr, Hrr', Hk, Hk', <- Hkey, <- Hkey' in Hv.
    rewrite !N.eqb_refl, !beq_refl in Hv. simpl in Hv. apply negb_false_iff in Hv. apply beq_eq in Hv.
    exact Hv.
  Qed.

  Lemma ptr_names ty b p : In (ty, b) (c_ptr c) -> In p b -> ty <> [] /\ alias_of (e_rr p) <> [].
  Proof.
    intros Hb Hp. destruct (entry_delivery KPtr ty b p Hb Hp) as (d & Hd & Hrr & Hk & Hkey).
    apply kind_of_type_ptr in Hk. unfold e_type, e_name in *. simpl in Hkey.
    unfold ptr_names_ok in Hnames. rewrite forallb_forall in Hnames. specialize (Hnames d Hd).
    rewrite Hrr, Hk, N.eqb_refl in Hnames. simpl in Hnames. apply andb_true_iff in Hnames as [A B].
    rewrite <- Hkey in A. split.
    - intros E. rewrite E in A. discriminate.
    - intros E. rewrite E in B. discriminate.
  Qed.

  (* site A: what resolve_updated_instances finds invalid is not strongly alive *)
  Lemma invalid_not_alive now ty ptrs p :
    In (ty, ptrs) (c_ptr c) -> In p ptrs ->
    is_valid (resolve_from_cache c now ty (alias_of (e_rr p))) = false ->
    alive_strong c now ty (alias_of (e_rr p)) = false.
  Proof.
    intros Hb Hp Hinv. set (i := alias_of (e_rr p)) in *.
    destruct (ptr_names ty ptrs p Hb Hp) as [Hty Hi]. fold i in Hi.
    destruct (alive_strong c now ty i) eqn:Ea; [|reflexivity]. exfalso.
    unfold alive_strong in Ea. apply andb_true_iff in Ea as [_ Ea].
    apply existsb_exists in Ea as [e [He Hc]].
    apply andb_true_iff in Hc as [Hc Haddr]. apply andb_true_iff in Hc as [Hsoon Hhost].
    apply negb_true_iff in Hsoon. apply negb_true_iff in Hhost.
    apply existsb_exists in Haddr as [a [Ha Hasoon]]. apply negb_true_iff in Hasoon.
    unfold srv_entries in He. destruct (bm_get i (c_srv c)) as [sb|] eqn:Esb; [|destruct He].
    (* the first SRV record with more than a second left *)
    destruct (find (fun e0 => negb (expires_soon e0 now)) sb) as [e0|] eqn:Ef.
    2:{ pose proof (find_none _ _ Ef e He) as Hn. simpl in Hn. rewrite Hsoon in Hn. discriminate. }
    pose proof (find_some _ _ Ef) as [He0 _].
    pose proof (one_srv_target i sb e0 e (bm_get_In _ _ _ Esb) He0 He) as Hsame.
    unfold addr_entries, get_addr in Ha. rewrite <- Hsame in Ha.
    destruct (bm_get (lower (srv_host e0)) (c_addr c)) as [ab|] eqn:Eab; [|destruct Ha].
    assert (Hh0 : srv_host e0 <> []).
    { intros E. rewrite E in Hsame. simpl in Hsame. symmetry in Hsame. apply (proj1 (lower_nil_iff _)) in Hsame.
      rewrite Hsame in Hhost. discriminate. }
    rewrite (valid_when_complete c now ty i sb e0 ab a Hty Hi Esb Ef Hh0 Eab Ha Hasoon) in Hinv. discriminate.
  Qed.
End Facts.

(* ---- site B: what the eviction reports is not strongly alive afterwards ------------------------------- *)

Lemma bm_get_map_live now t m :
  bm_get t (map (fun kb : bytes * bucket => (fst kb, live_only now (snd kb))) m)
  = option_map (live_only now) (bm_get t m).
Proof. induction m as [|[k b] r IH]; simpl; [reflexivity|]. destruct (beq t k); [reflexivity|assumption]. Qed.

Lemma sweep_get_dead now i sb m :
  NoDup (map fst m) -> In (i, sb) m -> live_only now sb = [] -> bm_get i (sweep now m) = None.
Proof.
  intros ND Hin Hd. destruct (bm_get i (sweep now m)) as [b'|] eqn:E; [|reflexivity]. exfalso.
  apply bm_get_In in E. apply sweep_In in E as [b [Hb [Hb' Hne]]].
  rewrite (nodup_keys_functional m i b sb ND Hb Hin) in Hb'. congruence.
Qed.

Lemma evicted_not_alive Lf L c now t i :
  known_ptr_variant Lf = false -> Inv L c -> incl L Lf ->
  In (t, i) (snd (evict_services c now)) ->
  alive_strong (fst (evict_addr (fst (evict_services c now)) now)) now t i = false.
Proof.
  intros Hvar HI Hsub Hrep. rewrite evict_services_cache. unfold evict_addr. simpl.
  destruct (evict_reports_only_when_true c now t i Hrep) as (ptrs & p & Hb & Hp & Ha & [Hexp|[sb [Hsb Hd]]]).
  - (* the PTR expired, and it is the only PTR t -> i *)
    unfold alive_strong.
    assert (Hnone : existsb (fun p0 => negb (expires_soon p0 now))
              (ptr_entries {| c_ptr := map (fun kb => (fst kb, live_only now (snd kb))) (c_ptr c);
                              c_srv := sweep now (c_srv c); c_txt := sweep now (c_txt c);
                              c_addr := sweep now (c_addr c); c_nsec := sweep now (c_nsec c);
                              c_sub := c_sub c |} t i) = false).
    { destruct (existsb _ _) eqn:E; [|reflexivity]. exfalso.
      apply existsb_exists in E as [p' [Hp' _]]. unfold ptr_entries in Hp'. simpl in Hp'.
      rewrite bm_get_map_live in Hp'.
      rewrite (In_bm_get t ptrs (c_ptr c) (Inv_nodup _ _ KPtr HI) Hb) in Hp'. simpl in Hp'.
      apply filter_In in Hp' as [Hp' Hal]. apply beq_eq in Hal. apply live_only_In in Hp' as [Hp' Hlive].
      assert (p' = p).
      { apply (one_ptr_per_instance Lf Hvar L c HI Hsub t ptrs p' p Hb Hp' Hp). congruence. }
      subst p'. congruence. }
    now rewrite Hnone.
  - (* the SRV bucket of the instance is swept away *)
    unfold alive_strong, srv_entries. simpl.
    rewrite (sweep_get_dead now i sb (c_srv c) (Inv_nodup _ _ KSrv HI) Hsb Hd). simpl. apply andb_false_r.
Qed.

(* ---- outputs ------------------------------------------------------------------------------------------- *)

Definition rmok (snaps : list spec) (now : N) (x : out) : Prop :=
  match x with
  | OEvt _ (ERemoved ty i) => existsb (fun sp => negb (alive_strong (sp_c sp) now ty i)) snaps = true
  | _ => True
  end.

Lemma rmok_incl snaps snaps' now x : incl snaps snaps' -> rmok snaps now x -> rmok snaps' now x.
Proof.
  intros Hi. destruct x as [ch [ | | ty i]| |]; simpl; auto. intros H.
  apply existsb_exists in H as [sp [H1 H2]]. apply existsb_exists. exists sp. auto.
Qed.

Lemma Forall_rmok_incl snaps snaps' now o :
  incl snaps snaps' -> Forall (rmok snaps now) o -> Forall (rmok snaps' now) o.
Proof. intros Hi H. eapply Forall_impl; [|exact H]. intros x. now apply rmok_incl. Qed.

Definition no_removed (x : out) : Prop := match x with OEvt _ (ERemoved _ _) => False | _ => True end.

Lemma no_removed_rmok snaps now o : Forall no_removed o -> Forall (rmok snaps now) o.
Proof.
  intros H. eapply Forall_impl; [|exact H]. intros [ch [ | | ty i]| |]; simpl; tauto.
Qed.

(* removed pairs of the resolve loop come with their PTR *)
Lemma ru_ptrs_removed_ptr c now ty ch updated : forall ptrs rset t i,
  In (t, i) (snd (fst (ru_ptrs c now ty ch updated ptrs rset))) ->
  t = ty /\ exists p, In p ptrs /\ alias_of (e_rr p) = i
                      /\ is_valid (resolve_from_cache c now ty i) = false.
Proof.
  induction ptrs as [|p rest IH]; intros rset t i; simpl; [tauto|].
  destruct (negb (expires_soon p now) && mem (alias_of (e_rr p)) updated).
  2:{ intros H. destruct (IH rset t i H) as [A [q [B C]]]. split; [assumption|]. exists q. tauto. }
  destruct (is_valid (resolve_from_cache c now ty (alias_of (e_rr p)))) eqn:Ev.
  - specialize (IH rset t i). destruct (ru_ptrs c now ty ch updated rest rset) as [[[[o res] unres] rem] rset'].
    simpl in *. intros H. destruct (IH H) as [A [q [B C]]]. split; [assumption|]. exists q. tauto.
  - specialize (IH rset t i).
    destruct (ru_ptrs c now ty ch updated rest rset) as [[[[o res] unres] rem] rset']. simpl in *.
    intros H. apply in_app_iff in H as [H|H].
    + destruct (mem (alias_of (e_rr p)) rset); [|destruct H]. destruct H as [H|[]]. inversion H; subst.
      split; [reflexivity|]. exists p. auto.
    + destruct (IH H) as [A [q [B C]]]. split; [assumption|]. exists q. tauto.
Qed.

Lemma ru_types_removed_ptr c now q updated : forall ptr rset t i,
  In (t, i) (snd (fst (ru_types c now q updated ptr rset))) ->
  exists ptrs p, In (t, ptrs) ptr /\ In p ptrs /\ alias_of (e_rr p) = i
                 /\ is_valid (resolve_from_cache c now t i) = false.
Proof.
  induction ptr as [|[ty ptrs] rest IH]; intros rset t i; simpl; [tauto|].
  destruct (q_get ty q) as [ch|].
  2:{ intros H. destruct (IH rset t i H) as (ps & p & A & B). exists ps, p. tauto. }
  pose proof (ru_ptrs_removed_ptr c now ty ch updated ptrs rset t i) as H1.
  destruct (ru_ptrs c now ty ch updated ptrs rset) as [[[[o1 res1] un1] rem1] rset1]. simpl in H1.
  specialize (IH rset1 t i).
  destruct (ru_types c now q updated rest rset1) as [[[[o2 res2] un2] rem2] rset2]. simpl in *.
  intros H. apply in_app_iff in H as [H|H].
  - destruct (H1 H) as [Ht [p [A [B C]]]]. subst t. exists ptrs, p. auto.
  - destruct (IH H) as (ps & p & A & B). exists ps, p. tauto.
Qed.

Lemma resolve_updated_removed_ptr s now updated ch t i :
  In (OEvt ch (ERemoved t i)) (snd (resolve_updated s now updated)) ->
  exists ptrs p, In (t, ptrs) (c_ptr (s_cache s)) /\ In p ptrs /\ alias_of (e_rr p) = i
                 /\ is_valid (resolve_from_cache (s_cache s) now t i) = false.
Proof.
  unfold resolve_updated. destruct updated as [|u us]; [intros []|].
  pose proof (ru_types_removed_ptr (s_cache s) now (s_q s) (u :: us) (c_ptr (s_cache s)) (s_resolved s) t i) as H1.
  pose proof (ru_types_no_removed_evt (s_cache s) now (s_q s) (u :: us) (c_ptr (s_cache s)) (s_resolved s) ch t i) as H2.
  destruct (ru_types (s_cache s) now (s_q s) (u :: us) (c_ptr (s_cache s)) (s_resolved s))
    as [[[[o res] unres] rem] rset]. simpl in *.
  intros H. apply in_app_iff in H as [H|H]; [contradiction|]. apply notify_removal_In in H. auto.
Qed.

Lemma hr_records_outs now ifx q fu rs : forall c, Forall no_removed (snd (fst (hr_records c now ifx q fu rs))).
Proof.
  induction rs as [|r rest IH]; intros c; simpl; [constructor|].
  destruct (add_or_update c now ifx r fu) as [c1 res].
  specialize (IH c1). destruct (hr_records c1 now ifx q fu rest) as [[c2 o2] ch2]. simpl in *.
  destruct res as [[e [|]]|]; simpl; try assumption.
  destruct ((e_type e =? TY_PTR) && found_ttl_guard (e_ttl e)); simpl; [|assumption].
  destruct (q_get (e_name e) q); simpl; [constructor; [exact I|assumption]|assumption].
Qed.

Lemma qc_ptrs_outs c now ty ch ptrs : Forall no_removed (fst (fst (qc_ptrs c now ty ch ptrs))).
Proof.
  induction ptrs as [|p rest IH]; simpl; [constructor|].
  destruct (qc_ptrs c now ty ch rest) as [[o res] unres]. simpl in *.
  destruct (expires_soon p now); [assumption|].
  destruct (is_valid (resolve_from_cache c now ty (alias_of (e_rr p)))); simpl;
    repeat (constructor; [exact I|]); assumption.
Qed.

(* ---- one loop iteration -------------------------------------------------------------------------------- *)

Section Iteration.
  Variable Lf : list dlv.
  Hypothesis Hvar : known_ptr_variant Lf = false.
  Hypothesis Htgt : known_srv_targets Lf = false.
  Hypothesis Hnames : ptr_names_ok Lf = true.

  (* resolve_updated_instances on a state whose cache satisfies Inv and is tracked by sp *)
  Lemma resolve_updated_rmok L s sp now updated :
    Inv L (s_cache s) -> incl L Lf -> ceqr (s_cache s) (sp_c sp) ->
    Forall (rmok [sp] now) (snd (resolve_updated s now updated)).
  Proof.
    intros HI Hsub Hc. apply Forall_forall. intros [ch [ty i|r|ty i]|qs|ch l] Hx; simpl; try exact I.
    destruct (resolve_updated_removed_ptr s now updated ch ty i Hx) as (ptrs & p & Hb & Hp & Ha & Hinv).
    subst i. rewrite (invalid_not_alive Lf Htgt Hnames L (s_cache s) HI Hsub now ty ptrs p Hb Hp Hinv)
      in * || idtac.
    rewrite <- (alive_strong_ceqr _ _ now ty (alias_of (e_rr p)) Hc).
    now rewrite (invalid_not_alive Lf Htgt Hnames L (s_cache s) HI Hsub now ty ptrs p Hb Hp Hinv).
  Qed.

  Lemma handle_read_rmok ifs prev cp now s sp d :
    Inv (prev ++ cp) (s_cache s) -> times_le prev now -> tracks s sp ->
    incl (prev ++ cp ++ dgram_dlvs ifs now d) Lf ->
    Forall (rmok [spec_dgram ifs now sp d] now) (snd (handle_read ifs s now d)).
  Proof.
    intros HI Ht Htr Hsub.
    pose proof (tracks_read ifs now s sp d Htr) as Htr'.
    pose proof (handle_read_spec ifs prev cp now s d HI Ht) as [HI' _].
    unfold handle_read, dgram_dlvs, spec_dgram in *. destruct (accepted_msg ifs d) as [m|]; [|constructor].
    unfold handle_response in *.
    pose proof (hr_records_outs now (d_if d) (s_q s) (for_us (s_q s) (m_answers m))
                  (m_answers m ++ m_authorities m ++ m_additionals m) (s_cache s)) as Ho1.
    destruct (hr_records (s_cache s) now (d_if d) (s_q s) (for_us (s_q s) (m_answers m))
                (m_answers m ++ m_authorities m ++ m_additionals m)) as [[c1 o1] changes].
    simpl in Ho1.
    destruct (resolve_updated_state (with_cache s c1) now (updated_of c1 changes)) as [E1 E2].
    pose proof (resolve_updated_rmok (prev ++ cp ++ map (mkDlv now (d_if d)) (msg_records m))
                  (with_cache s c1) (spec_msg sp now (d_if d) m) now (updated_of c1 changes)) as Ho2.
    destruct (resolve_updated (with_cache s c1) now (updated_of c1 changes)) as [s2 o2]. simpl in *.
    apply Forall_app. split; [now apply no_removed_rmok|].
    apply Ho2; [rewrite <- E1; exact HI'|exact Hsub|].
    destruct Htr' as [Hc _]. now rewrite E1 in Hc.
  Qed.

  Lemma reads_rmok ifs prev now ds : forall cp s sp,
    Inv (prev ++ cp) (s_cache s) -> times_le prev now -> tracks s sp ->
    incl (prev ++ cp ++ flat_map (dgram_dlvs ifs now) ds) Lf ->
    Forall (rmok (scan (spec_dgram ifs now) sp ds) now) (snd (run_cmds (handle_read ifs) s now ds)).
  Proof.
    induction ds as [|d rest IH]; intros cp s sp HI Ht Htr Hsub; simpl; [constructor|].
    assert (Hsub1 : incl (prev ++ cp ++ dgram_dlvs ifs now d) Lf).
    { intros x Hx. apply Hsub. simpl. rewrite !in_app_iff in *. tauto. }
    pose proof (handle_read_rmok ifs prev cp now s sp d HI Ht Htr Hsub1) as H1.
    pose proof (handle_read_spec ifs prev cp now s d HI Ht) as [HI1 _].
    pose proof (tracks_read ifs now s sp d Htr) as Htr1.
    destruct (handle_read ifs s now d) as [s1 o1]. simpl in *.
    assert (Hsub2 : incl (prev ++ (cp ++ dgram_dlvs ifs now d) ++ flat_map (dgram_dlvs ifs now) rest) Lf).
    { intros x Hx. apply Hsub. rewrite !in_app_iff in *. tauto. }
    rewrite app_assoc in HI1. rewrite <- app_assoc in HI1.
    specialize (IH (cp ++ dgram_dlvs ifs now d) s1 _ HI1 Ht Htr1 Hsub2).
    destruct (run_cmds (handle_read ifs) s1 now rest) as [s2 o2]. simpl in *.
    apply Forall_app. split.
    - eapply Forall_rmok_incl; [|exact H1]. intros x [<-|[]]. now left.
    - eapply Forall_rmok_incl; [|exact IH]. intros x Hx. now right.
  Qed.

  Lemma exec_call_outs s now cl : Forall no_removed (snd (exec_call s now cl)).
  Proof.
    destruct cl as [ty ch|ty|inst timeout|ch]; simpl.
    - unfold exec_browse. destruct (bm_get ty (c_ptr (s_cache s))) as [ptrs|]; [|constructor].
      pose proof (qc_ptrs_outs (s_cache s) now ty ch ptrs) as H.
      destruct (qc_ptrs (s_cache s) now ty ch ptrs) as [[o res] unres]. exact H.
    - constructor.
    - unfold exec_verify. destruct (service_verify_queries (s_cache s) inst (Some (now + timeout))) as [c1 qs].
      destruct qs; simpl; [constructor|constructor; [exact I|constructor]].
    - constructor; [exact I|constructor].
  Qed.

  Lemma run_cmds_outs {C} (f : st -> N -> C -> st * list out) now :
    (forall s c, Forall no_removed (snd (f s now c))) ->
    forall l s, Forall no_removed (snd (run_cmds f s now l)).
  Proof.
    intros Hf l. induction l as [|c t IH]; intros s; simpl; [constructor|].
    pose proof (Hf s c) as H1. destruct (f s now c) as [s1 o1]. specialize (IH s1).
    destruct (run_cmds f s1 now t) as [s2 o2]. simpl in *. apply Forall_app. split; assumption.
  Qed.

  Lemma exec_rcmd_outs s now c : Forall no_removed (snd (exec_rcmd s now c)).
  Proof.
    destruct c as [inst n|inst timeout]; simpl.
    - unfold exec_resolve.
      assert (Hq : Forall no_removed (snd (query_unresolved (s_cache s) inst))).
      { unfold query_unresolved. destruct (negb (valid_instance_name inst)); [constructor|].
        destruct (bm_get inst (c_srv (s_cache s))); [|constructor; [exact I|constructor]].
        match goal with |- context [find ?f ?l] => destruct (find f l) end;
          [constructor; [exact I|constructor]|constructor]. }
      assert (Hq2 : Forall no_removed (snd (if has_ptr_to (s_cache s) inst then query_unresolved (s_cache s) inst else (false, []))))
        by (destruct (has_ptr_to (s_cache s) inst); [exact Hq|constructor]).
      clear Hq. rename Hq2 into Hq.
      destruct (if has_ptr_to (s_cache s) inst then query_unresolved (s_cache s) inst else (false, [])) as [sent o]. simpl in Hq.
      destruct (sent && retry_guard n max_try); exact Hq.
    - unfold exec_verify. destruct (service_verify_queries (s_cache s) inst None) as [c1 qs].
      destruct qs; simpl; [constructor|constructor; [exact I|constructor]].
  Qed.

  Lemma refresh_all_outs now q : forall c, Forall no_removed (snd (refresh_all c now q)).
  Proof.
    induction q as [|[ty ch] rest IH]; intros c; simpl; [constructor|].
    destruct (refresh_type c ty now) as [c1 qs]. specialize (IH c1).
    destruct (refresh_all c1 now rest) as [c2 o]. simpl in *. apply Forall_app. split; [|assumption].
    apply Forall_forall. intros x Hx. apply in_map_iff in Hx as [y [<- _]]. exact I.
  Qed.

  Lemma resolve_hosts_rmok L now sp names : forall s,
    Inv L (s_cache s) -> incl L Lf -> ceqr (s_cache s) (sp_c sp) ->
    Forall (rmok [sp] now) (snd (resolve_hosts s now names)).
  Proof.
    induction names as [|h t IH]; intros s HI Hsub Hc; simpl; [constructor|].
    pose proof (resolve_updated_rmok L s sp now (dedup (get_instances_on_host (s_cache s) h)) HI Hsub Hc) as H1.
    destruct (resolve_updated_state s now (dedup (get_instances_on_host (s_cache s) h))) as [E1 _].
    destruct (resolve_updated s now (dedup (get_instances_on_host (s_cache s) h))) as [s1 o1]. simpl in *.
    assert (HI1 : Inv L (s_cache s1)) by now rewrite E1.
    assert (Hc1 : ceqr (s_cache s1) (sp_c sp)) by now rewrite E1.
    specialize (IH s1 HI1 Hsub Hc1). destruct (resolve_hosts s1 now t) as [s2 o2]. simpl in *.
    apply Forall_app. split; assumption.
  Qed.

  Lemma evict_rmok L now s sp :
    Inv L (s_cache s) -> incl L Lf -> tracks s sp ->
    Forall (rmok [spec_evict now sp] now) (snd (evict s now)).
  Proof.
    intros HI Hsub Htr. pose proof (tracks_evict now s sp Htr) as [Hc' _].
    pose proof (evicted_not_alive Lf L (s_cache s) now) as Hev.
    pose proof (cshr_evict_services _ _ now HI) as Hs1.
    unfold evict in *.
    destruct (evict_services (s_cache s) now) as [c1 expired]. cbn [fst snd] in Hs1, Hev.
    assert (H1 : Inv L c1) by (eapply Inv_shr; eauto).
    pose proof (cshr_evict_addr _ _ now H1) as Hs2.
    destruct (evict_addr c1 now) as [c2 names]. cbn [fst snd] in Hs2, Hev.
    assert (H2 : Inv L c2) by (eapply Inv_shr; eauto).
    destruct (resolve_hosts_state now (dedup names) (with_cache s c2)) as [E1 _].
    pose proof (resolve_hosts_rmok L now (spec_evict now sp) (dedup names) (with_cache s c2) H2 Hsub) as Hrh.
    destruct (resolve_hosts (with_cache s c2) now (dedup names)) as [s2 o2]. cbn [fst snd with_cache s_cache] in *.
    rewrite E1 in Hc'. apply Forall_app. split; [|now apply Hrh].
    apply Forall_forall. intros [ch [ty i|r|ty i]|qs|ch l] Hx; cbn [rmok]; try exact I.
    apply notify_removal_In in Hx. cbn [existsb].
    rewrite <- (alive_strong_ceqr _ _ now ty i Hc'). now rewrite (Hev ty i Hvar HI Hsub Hx).
  Qed.

  Theorem iterate_rmok ifs prev s sp it :
    Inv prev (s_cache s) -> times_le prev (i_now it) -> tracks s sp ->
    incl (prev ++ iter_dlvs ifs it) Lf ->
    let '(ds, sp2, sp3) := iter_snaps ifs sp it in
    Forall (rmok (ds ++ [sp2; sp3]) (i_now it)) (snd (iterate ifs s it)).
  Proof.
    intros HI Ht Htr Hsub. unfold iterate, iter_snaps, iter_dlvs in *. set (now := i_now it) in *.
    set (dgs := deliveries_in_order (i_dgrams it)) in *.
    set (cur := flat_map (dgram_dlvs ifs now) dgs) in *.
    assert (HI0 : Inv (prev ++ []) (s_cache s)) by now rewrite app_nil_r.
    pose proof (reads_rmok ifs prev now dgs [] s sp HI0 Ht Htr Hsub) as O1.
    destruct (reads_spec ifs prev now dgs [] s HI0 Ht) as [H1 _]. simpl in H1. fold cur in H1.
    pose proof (tracks_reads ifs now dgs s sp Htr) as T1.
    destruct (run_cmds (handle_read ifs) s now dgs) as [s1 o1]. cbn [fst snd] in *.
    pose proof (run_cmds_outs exec_call now (fun s c => exec_call_outs s now c) (i_calls it) s1) as O2.
    destruct (run_cmds_spec prev cur now exec_call (exec_call_spec prev cur now Ht) (i_calls it) s1 H1) as [H2 _].
    pose proof (tracks_calls now (i_calls it) s1 _ T1) as T2.
    destruct (run_cmds exec_call s1 now (i_calls it)) as [s2 o2]. cbn [fst snd] in *.
    pose proof (run_cmds_outs exec_rcmd now (fun s c => exec_rcmd_outs s now c)
                  (map snd (filter (fun tc => fst tc <=? now) (s_retrans s2)))) as O3.
    destruct (run_retrans_spec prev cur now s2 H2) as [H3 _].
    pose proof (tracks_retrans now s2 _ T2) as T3.
    unfold run_retrans in *.
    match goal with |- context [run_cmds exec_rcmd ?s0 now ?l] =>
      specialize (O3 s0); destruct (run_cmds exec_rcmd s0 now l) as [s3 o3] end. cbn [fst snd] in *.
    pose proof (refresh_all_outs now (s_q s3) (s_cache s3)) as O4.
    destruct (refresh_all_spec prev cur now (s_q s3) (s_cache s3) H3) as [H4 _].
    pose proof (ceqr_refresh_all now (s_q s3) (s_cache s3)) as C4.
    destruct (refresh_all (s_cache s3) now (s_q s3)) as [c4 o4]. cbn [fst snd] in *.
    assert (T4 : tracks (with_cache s3 c4) (fold_left (spec_call now) (i_calls it) (last (scan (spec_dgram ifs now) sp dgs) sp))).
    { destruct T3 as [Hc Hq]. split; [|exact Hq]. cbn [with_cache s_cache].
      eapply ceqr_trans; [apply ceqr_sym; exact C4|exact Hc]. }
    pose proof (evict_rmok (prev ++ cur) now (with_cache s3 c4) _ H4 Hsub T4) as O5.
    destruct (evict (with_cache s3 c4) now) as [s5 o5]. cbn [fst snd] in *.
    repeat (apply Forall_app; split).
    - eapply Forall_rmok_incl; [|exact O1]. intros x Hx. apply in_app_iff. now left.
    - now apply no_removed_rmok.
    - now apply no_removed_rmok.
    - now apply no_removed_rmok.
    - eapply Forall_rmok_incl; [|exact O5]. intros x [<-|[]]. apply in_app_iff. right. right. now left.
  Qed.
End Iteration.

(* ---- the checker on the model's trace: no F05_alive -------------------------------------------------- *)

Definition no_alive (fs : list fail) : Prop := forall f, In f fs -> is_alive_fail f = false.

Lemma no_alive_app a b : no_alive a -> no_alive b -> no_alive (a ++ b).
Proof. intros Ha Hb f Hf. apply in_app_iff in Hf as [Hf|Hf]; auto. Qed.

Lemma obs_evts_In o ch e : In (ch, e) (ob_evts (obs_of o)) -> In (OEvt ch e) o.
Proof.
  unfold obs_of. simpl. intros H. apply in_flat_map in H as [x [Hx H]].
  destruct x as [c e0| |]; simpl in H; try tauto. destruct H as [H|[]]. inversion H; subst. exact Hx.
Qed.

Lemma fold_ev05_no_alive k now snaps log evts :
  (forall ch ty i, In (ch, ERemoved ty i) evts ->
     existsb (fun sp => negb (alive_strong (sp_c sp) now ty i)) snaps = true) ->
  forall ups dead fs, no_alive fs ->
    no_alive (snd (fold_left (ev05 k now snaps log) evts (ups, dead, fs))).
Proof.
  induction evts as [|[ch e] rest IH]; intros Hok ups dead fs Hfs; simpl; [assumption|].
  assert (Hrest : forall ch0 ty i, In (ch0, ERemoved ty i) rest ->
            existsb (fun sp => negb (alive_strong (sp_c sp) now ty i)) snaps = true)
    by (intros ch0 ty0 i0 H0; apply (Hok ch0 ty0 i0); now right).
  specialize (IH Hrest).
  destruct e as [ty i|r|ty i]; simpl.
  - now apply IH.
  - apply IH.
    match goal with |- no_alive (if ?b then _ else _) => destruct b end; [|assumption].
    apply no_alive_app; [assumption|]. intros f [<-|[]]. reflexivity.
  - rewrite (Hok ch ty i (or_introl eq_refl)). now apply IH.
Qed.

Section History.
  Variable Lf : list dlv.
  Hypothesis Hvar : known_ptr_variant Lf = false.
  Hypothesis Htgt : known_srv_targets Lf = false.
  Hypothesis Hnames : ptr_names_ok Lf = true.

  Lemma step05_no_alive ifs k t it w prev s :
    Inv prev (s_cache s) -> times_le prev (i_now it) -> tracks s (t5_sp t) ->
    incl (prev ++ iter_dlvs ifs it) Lf ->
    no_alive (snd (step05 ifs k t it w (obs_of (snd (iterate ifs s it)))))
    /\ t5_sp (fst (step05 ifs k t it w (obs_of (snd (iterate ifs s it))))) = snd (iter_snaps ifs (t5_sp t) it).
  Proof.
    intros HI Ht Htr Hsub.
    pose proof (iterate_rmok Lf Hvar Htgt Hnames ifs prev s (t5_sp t) it HI Ht Htr Hsub) as Hrm.
    unfold step05. destruct (iter_snaps ifs (t5_sp t) it) as [[ds sp2] sp3].
    pose proof (fold_ev05_no_alive k (i_now it) (ds ++ [sp2; sp3])
                  (t5_log t ++ map (fun d => (k, d)) (iter_dlvs ifs it))
                  (ob_evts (obs_of (snd (iterate ifs s it))))) as Hf.
    assert (Hok : forall ch ty i, In (ch, ERemoved ty i) (ob_evts (obs_of (snd (iterate ifs s it)))) ->
              existsb (fun sp => negb (alive_strong (sp_c sp) (i_now it) ty i)) (ds ++ [sp2; sp3]) = true).
    { intros ch ty i Hin. apply obs_evts_In in Hin. rewrite Forall_forall in Hrm. exact (Hrm _ Hin). }
    specialize (Hf Hok (t5_ups t) (t5_dead t) [] (fun f (H : In f []) => match H with end)).
    destruct (fold_left _ (ob_evts (obs_of (snd (iterate ifs s it)))) (t5_ups t, t5_dead t, []))
      as [[ups1 dead1] fs1]. cbn [fst snd] in *. split; [|reflexivity].
    apply no_alive_app; [assumption|]. apply no_alive_app.
    - intros f Hf0. apply in_flat_map in Hf0 as [u [_ Hu]].
      destruct (alive_weak _ _ _ _); [destruct Hu|]. destruct Hu as [<-|[]]. reflexivity.
    - intros f Hf0. apply in_flat_map in Hf0 as [u [_ Hu]].
      match type of Hu with In f (if ?b then _ else _) => destruct b end; [destruct Hu|].
      destruct Hu as [<-|[]]. reflexivity.
  Qed.

  Lemma viol05_no_alive ifs : forall h k t s prev t0 wakes,
    Inv prev (s_cache s) -> times_le prev t0 -> times_mono t0 h = true -> tracks s (t5_sp t) ->
    incl (prev ++ flat_map (iter_dlvs ifs) h) Lf ->
    no_alive (viol05_from ifs k t h wakes (map obs_of (run_from ifs s h))).
  Proof.
    induction h as [|it h IH]; intros k t s prev t0 wakes HI Ht Hm Htr Hsub.
    - simpl. destruct wakes; simpl; intros f Hf; [destruct Hf|destruct Hf as [<-|[]]; reflexivity].
    - simpl in Hm. apply andb_true_iff in Hm as [Hm1 Hm2]. apply N.leb_le in Hm1.
      assert (Ht' : times_le prev (i_now it)) by (intros d Hd; specialize (Ht d Hd); lia).
      assert (Hsub1 : incl (prev ++ iter_dlvs ifs it) Lf).
      { intros x Hx. apply Hsub. simpl. rewrite !in_app_iff in *. tauto. }
      destruct (step05_no_alive ifs k t it (match wakes with w :: _ => w | [] => None end) prev s HI Ht' Htr Hsub1)
        as [Hs1 Hs2].
      destruct (iterate_spec ifs prev s it HI Ht') as [HI1 _].
      pose proof (tracks_iterate ifs s (t5_sp t) it Htr) as Htr1.
      simpl. destruct (iterate ifs s it) as [s1 o] eqn:Eit. cbn [fst snd] in *.
      destruct wakes as [|w wakes']; [intros f [<-|[]]; reflexivity|].
      simpl. destruct (step05 ifs k t it w (obs_of o)) as [t1 fs] eqn:Est. cbn [fst snd] in *.
      apply no_alive_app; [assumption|].
      apply (IH (k + 1) t1 s1 (prev ++ iter_dlvs ifs it) (i_now it) wakes' HI1).
      + intros d Hd. apply in_app_iff in Hd as [Hd|Hd]; [now apply Ht'|].
        rewrite (iter_dlvs_times _ _ _ Hd). lia.
      + exact Hm2.
      + rewrite Hs2. exact Htr1.
      + intros x Hx. apply Hsub. simpl. rewrite !in_app_iff in *. tauto.
  Qed.
End History.

(* C05, safety: outside the classes "PTR variants" and "two SRV targets" (and with no PTR record
   whose owner or target is the root name) the checker never reports "ServiceRemoved while PTR,
   SRV and address have more than one second left" on the model's trace - whatever the
   wake-ups, for every history in which time does not run backwards. *)
Theorem removed_only_when_true ifs h wakes :
  wf_history h = true -> safe_class ifs h = true ->
  forall f, In f (viol_C05 ifs h wakes (map obs_of (run_history ifs h))) -> is_alive_fail f = false.
Proof.
  intros Hwf Hsafe. unfold safe_class in Hsafe.
  apply andb_true_iff in Hsafe as [Hsafe Hn]. apply andb_true_iff in Hsafe as [Hv Ht].
  apply negb_true_iff in Hv, Ht.
  unfold viol_C05, run_history.
  apply (viol05_no_alive (log_of_history ifs h) Hv Ht Hn ifs h 0 _ init_st [] 0 wakes).
  - apply Inv_empty.
  - intros d [].
  - exact Hwf.
  - split; [apply ceqr_refl|reflexivity].
  - simpl. apply incl_refl.
Qed.
