(* C20 bounded_by_need, the counting bound: in every history of the size model, under either
   acceptance rule, each cache counter that get_metrics reports is at most the number of logged
   deliveries of that record kind whose TTL had not run out at the previous iteration.  Under
   PNeed the log holds exactly the deliveries that an open browse / resolver needed when they
   arrived; under PCode it holds every delivery (bound by traffic x TTL).  Proved by an invariant
   of the cache (every entry is the latest copy of a distinct logged delivery) + induction over
   the iterations.  No axioms. *)
From Coq Require Import List NArith Bool Lia Permutation.
From Mdns Require Import Bytes ParamsHostres HostresBase BoundedModel BoundedSpec HostresPinned BoundedProofs.
Import ListNotations.
Open Scope N_scope.

(* ---------------------------------------------------------------- identity of a record *)
Definition ident (x : crec) : N * name * N * bool * bytes * N :=
  (c_ty x, c_name x, c_class x, c_flush x, c_data x, if is_addr_ty (c_ty x) then c_if x else 0).

Lemma matches_ident r x : crec_matches r x = true <-> ident r = ident x.
Proof.
  unfold crec_matches, ident. split.
  - intros H. repeat (apply andb_true_iff in H as [H ?]).
    apply N.eqb_eq in H. apply beq_eq in H4, H1. apply N.eqb_eq in H3. apply Bool.eqb_prop in H2.
    rewrite H. destruct (is_addr_ty (c_ty x)); simpl in H0; [apply N.eqb_eq in H0|]; congruence.
  - intros H. inversion H as [[Ht Hn Hc Hf Hd Hi]]. rewrite Ht in Hi.
    rewrite Ht, Hn, Hc, Hf, Hd, !N.eqb_refl, !beq_refl, Bool.eqb_reflx. simpl.
    destruct (is_addr_ty (c_ty x)); simpl; [rewrite Hi; apply N.eqb_refl|reflexivity].
Qed.

Lemma ident_set_life l x : ident (c_set_life l x) = ident x.
Proof. reflexivity. Qed.

Definition key_of (k : kind) (x : crec) : name :=
  match k with KAddr => lower (c_name x) | _ => c_name x end.
Lemma key_of_ident k x y : ident x = ident y -> key_of k x = key_of k y.
Proof. unfold ident, key_of. intros H. inversion H. destruct k; congruence. Qed.

(* ---------------------------------------------------------------- deliveries *)
Definition okey (x : crec) := (ident x, l_created (c_life x), l_ttl (c_life x)).
Definition dkey (d : deliv) := okey (crec_of (fst (fst d)) (snd (fst d)) (snd d)).

Lemma kind_eqb_eq a b : kind_eqb a b = true <-> a = b.
Proof. destruct a, b; simpl; split; intros H; try reflexivity; try discriminate. Qed.

Definition life_wf (l : life) : Prop := l_expires l <= l_created l + l_ttl l * 1000.

Definition entry_ok (k : kind) (D : list deliv) (prev : N) (x : crec) : Prop :=
  In (okey x) (map dkey D) /\ kind_of (c_ty x) = k /\ life_wf (c_life x) /\ prev < l_expires (c_life x).

Definition ents (m : amap) : list crec := flat_map snd m.

Record map_ok (k : kind) (D : list deliv) (prev : N) (m : amap) : Prop := mkMapOk {
  mo_keys : NoDup (map fst m);
  mo_key : forall key b, In (key, b) m -> forall x, In x b -> key_of k x = key;
  mo_id : NoDup (map ident (ents m));
  mo_prov : forall x, In x (ents m) -> entry_ok k D prev x }.

(* ---------------------------------------------------------------- association lists *)
Lemma aget_Some_In {A} k (m : list (name * A)) v : aget k m = Some v -> In (k, v) m.
Proof.
  induction m as [|[k0 v0] t IH]; simpl; [discriminate|].
  destruct (beq k k0) eqn:E; intros H.
  - inversion H; subst. apply beq_eq in E. subst. left. reflexivity.
  - right. apply IH. exact H.
Qed.

Lemma aget_None_keys {A} k (m : list (name * A)) : aget k m = None -> ~ In k (map fst m).
Proof.
  induction m as [|[k0 v0] t IH]; simpl; [tauto|].
  destruct (beq k k0) eqn:E; [discriminate|]. intros H [H1|H1]; [subst; rewrite beq_refl in E; discriminate|].
  apply (IH H H1).
Qed.

Lemma aget_In_nodup {A} k (m : list (name * A)) v : NoDup (map fst m) -> In (k, v) m -> aget k m = Some v.
Proof.
  induction m as [|[k0 v0] t IH]; simpl; intros Hnd Hin; [contradiction|].
  inversion Hnd; subst. destruct Hin as [Hin|Hin].
  - inversion Hin; subst. rewrite beq_refl. reflexivity.
  - destruct (beq k k0) eqn:E; [|apply IH; assumption].
    apply beq_eq in E. subst. exfalso. apply H1. apply (in_map fst) in Hin. exact Hin.
Qed.

Lemma adel_absent {A} k (m : list (name * A)) : ~ In k (map fst m) -> adel k m = m.
Proof.
  induction m as [|[k0 v0] t IH]; simpl; intros H; [reflexivity|].
  destruct (beq k k0) eqn:E; [apply beq_eq in E; subst; exfalso; apply H; left; reflexivity|].
  rewrite IH; [reflexivity|]. intros Hin. apply H. right. exact Hin.
Qed.

Lemma adel_In {A} k (m : list (name * A)) kv : In kv (adel k m) -> In kv m.
Proof.
  induction m as [|[k0 v0] t IH]; simpl; [auto|].
  destruct (beq k k0); simpl; intros H; [right; apply IH; exact H|].
  destruct H as [H|H]; auto.
Qed.

Lemma adel_keys_nodup {A} k (m : list (name * A)) : NoDup (map fst m) -> NoDup (map fst (adel k m)).
Proof.
  induction m as [|[k0 v0] t IH]; simpl; intros H; [constructor|].
  inversion H; subst. destruct (beq k k0); simpl; [apply IH; assumption|].
  constructor; [|apply IH; assumption].
  intros Hin. apply H2. apply in_map_iff in Hin as [kv [E Hin]]. apply adel_In in Hin.
  rewrite <- E. apply in_map. exact Hin.
Qed.

Lemma In_aset {A} k (v : A) m k' v' : In (k', v') (aset k v m) -> (k' = k /\ v' = v) \/ In (k', v') m.
Proof.
  induction m as [|[k0 v0] t IH]; simpl.
  - intros [H|[]]. inversion H. auto.
  - destruct (beq k k0); simpl; intros [H|H]; auto.
    + inversion H. auto.
    + destruct (IH H); auto.
Qed.

Lemma aset_keys_nodup {A} k (v : A) m : NoDup (map fst m) -> NoDup (map fst (aset k v m)).
Proof.
  induction m as [|[k0 v0] t IH]; simpl; intros H; [constructor; [tauto|constructor]|].
  inversion H; subst. destruct (beq k k0) eqn:E; simpl.
  - apply beq_eq in E. subst. constructor; assumption.
  - constructor; [|apply IH; assumption].
    intros Hin. apply in_map_iff in Hin as [[k1 v1] [E1 Hin]]. simpl in E1. subst k1.
    apply In_aset in Hin as [[-> _]|Hin]; [rewrite beq_refl in E; discriminate|].
    apply H2. apply (in_map fst) in Hin. exact Hin.
Qed.

Lemma ents_split m k : NoDup (map fst m) -> Permutation (ents m) (bucket m k ++ ents (adel k m)).
Proof.
  unfold ents, bucket. induction m as [|[k0 b0] t IH]; simpl; intros H; [constructor|].
  inversion H; subst. destruct (beq k k0) eqn:E.
  - apply beq_eq in E. subst. rewrite adel_absent by assumption. apply Permutation_refl.
  - simpl. eapply Permutation_trans; [apply Permutation_app_head; apply IH; assumption|].
    apply Permutation_app_swap_app.
Qed.

Lemma ents_aset m k b' : NoDup (map fst m) -> Permutation (ents (aset k b' m)) (b' ++ ents (adel k m)).
Proof.
  unfold ents. induction m as [|[k0 b0] t IH]; simpl; intros H; [apply Permutation_refl|].
  inversion H; subst. destruct (beq k k0) eqn:E; simpl.
  - apply beq_eq in E. subst. rewrite adel_absent by assumption. apply Permutation_refl.
  - eapply Permutation_trans; [apply Permutation_app_head; apply IH; assumption|].
    apply Permutation_app_swap_app.
Qed.

Lemma NoDup_map_filter {A B} (f : A -> B) p l : NoDup (map f l) -> NoDup (map f (filter p l)).
Proof.
  induction l as [|x t IH]; simpl; intros H; [constructor|].
  inversion H; subst. destruct (p x); simpl; [|apply IH; assumption].
  constructor; [|apply IH; assumption].
  intros Hin. apply H2. apply in_map_iff in Hin as [y [E Hy]]. apply filter_In in Hy as [Hy _].
  rewrite <- E. apply in_map. exact Hy.
Qed.

Lemma NoDup_app_r {A} (l r : list A) : NoDup (l ++ r) -> NoDup r.
Proof. induction l as [|x t IH]; simpl; intros H; [exact H|]. inversion H; subst. apply IH. assumption. Qed.

Lemma ents_live_only now m : ents (live_only now m) = filter (fun r => negb (r_expired now r)) (ents m).
Proof.
  unfold ents, live_only. induction m as [|[k b] t IH]; simpl; [reflexivity|].
  rewrite filter_app, IH. reflexivity.
Qed.

(* ---------------------------------------------------------------- operations that keep map_ok *)
Lemma entry_ok_incl k D D' prev x : incl D D' -> entry_ok k D prev x -> entry_ok k D' prev x.
Proof. intros Hi [H1 H2]. split; [|exact H2]. apply (incl_map dkey Hi). exact H1. Qed.

Lemma map_ok_incl k D D' prev m : incl D D' -> map_ok k D prev m -> map_ok k D' prev m.
Proof.
  intros Hi [H1 H2 H3 H4]. constructor; try assumption.
  intros x Hx. eapply entry_ok_incl; [exact Hi|apply H4; exact Hx].
Qed.

Lemma map_ok_empty k D prev : map_ok k D prev [].
Proof. constructor; simpl; try constructor; intros; contradiction. Qed.

(* replace the bucket of `key` *)
Lemma map_ok_aset k D prev m key b' :
  map_ok k D prev m ->
  (forall x, In x b' -> key_of k x = key /\ entry_ok k D prev x) ->
  NoDup (map ident (b' ++ ents (adel key m))) ->
  map_ok k D prev (aset key b' m).
Proof.
  intros [H1 H2 H3 H4] Hb Hnd. constructor.
  - apply aset_keys_nodup. exact H1.
  - intros key0 b Hin x Hx. apply In_aset in Hin as [[-> ->]|Hin]; [apply Hb; exact Hx|].
    eapply H2; eassumption.
  - eapply Permutation_NoDup; [apply Permutation_map; apply Permutation_sym; apply ents_aset; exact H1|exact Hnd].
  - intros x Hx. eapply Permutation_in in Hx; [|apply ents_aset; exact H1].
    apply in_app_or in Hx as [Hx|Hx]; [apply Hb; exact Hx|].
    apply H4. unfold ents in *. apply in_flat_map in Hx as [kb [Hkb Hx]]. apply adel_In in Hkb.
    apply in_flat_map. exists kb. auto.
Qed.

(* the bucket's records keep their identity *)
Lemma map_ok_aset_same_idents k D prev m key b b' :
  map_ok k D prev m -> bucket m key = b -> map ident b' = map ident b ->
  (forall x, In x b' -> key_of k x = key /\ entry_ok k D prev x) ->
  map_ok k D prev (aset key b' m).
Proof.
  intros Hm Hb Hid Hx. apply map_ok_aset; [exact Hm|exact Hx|].
  rewrite map_app, Hid, <- map_app, <- Hb.
  eapply Permutation_NoDup; [apply Permutation_map; apply ents_split; apply (mo_keys _ _ _ _ Hm)|].
  apply (mo_id _ _ _ _ Hm).
Qed.

Lemma bucket_in_ents m key x : In x (bucket m key) -> In x (ents m).
Proof.
  unfold bucket, ents. destruct (aget key m) as [b|] eqn:E; [|intros []].
  intros H. apply aget_Some_In in E. apply in_flat_map. exists (key, b). auto.
Qed.

Lemma bucket_key k D prev m key x : map_ok k D prev m -> In x (bucket m key) -> key_of k x = key.
Proof.
  intros Hm. unfold bucket. destruct (aget key m) as [b|] eqn:E; [|intros []].
  intros H. apply aget_Some_In in E. eapply (mo_key _ _ _ _ Hm); eassumption.
Qed.

Lemma map_ok_adel k D prev m key : map_ok k D prev m -> map_ok k D prev (adel key m).
Proof.
  intros [H1 H2 H3 H4]. constructor.
  - apply adel_keys_nodup. exact H1.
  - intros key0 b Hin. apply adel_In in Hin. eapply H2. exact Hin.
  - assert (P : Permutation (map ident (ents m)) (map ident (bucket m key ++ ents (adel key m))))
      by (apply Permutation_map; apply ents_split; exact H1).
    rewrite map_app in P. eapply NoDup_app_r. eapply Permutation_NoDup; [exact P|exact H3].
  - intros x Hx. apply H4. unfold ents in *. apply in_flat_map in Hx as [kb [Hkb Hx]]. apply adel_In in Hkb.
    apply in_flat_map. exists kb. auto.
Qed.

Lemma map_ok_add_empty k D prev m key : map_ok k D prev m -> ahas key m = false -> map_ok k D prev (m ++ [(key, [])]).
Proof.
  intros [H1 H2 H3 H4] Hn. unfold ahas in Hn. destruct (aget key m) eqn:E; [discriminate|].
  apply aget_None_keys in E. constructor.
  - rewrite map_app. simpl. clear -H1 E. induction m as [|[k0 v0] t IH]; simpl in *; [constructor; [tauto|constructor]|].
    inversion H1; subst. constructor.
    + rewrite in_app_iff. simpl. intros [H|[H|[]]]; [contradiction|]. apply E. left. symmetry. exact H.
    + apply IH; [assumption|]. intros H. apply E. right. exact H.
  - intros key0 b Hin x Hx. apply in_app_or in Hin as [Hin|[Hin|[]]]; [eapply H2; eassumption|].
    inversion Hin; subst. contradiction.
  - unfold ents in *. rewrite flat_map_app. simpl. rewrite app_nil_r. exact H3.
  - intros x Hx. apply H4. unfold ents in *. rewrite flat_map_app in Hx. simpl in Hx. rewrite app_nil_r in Hx. exact Hx.
Qed.

Lemma map_ok_live_only k D prev now m : map_ok k D prev m -> map_ok k D now (live_only now m).
Proof.
  intros [H1 H2 H3 H4]. constructor.
  - unfold live_only. rewrite map_map. simpl. exact H1.
  - intros key b Hin x Hx. unfold live_only in Hin. apply in_map_iff in Hin as [[k0 b0] [E Hin]].
    inversion E; subst. apply filter_In in Hx as [Hx _]. eapply H2; eassumption.
  - rewrite ents_live_only. apply NoDup_map_filter. exact H3.
  - intros x Hx. rewrite ents_live_only in Hx. apply filter_In in Hx as [Hx He].
    destruct (H4 x Hx) as [A [B [C _]]]. repeat split; try assumption.
    unfold r_expired, life_expired in He. rewrite pin_is_expired in He.
    apply negb_true_iff in He. apply N.leb_gt in He. exact He.
Qed.

Lemma map_ok_drop_empty k D prev m : map_ok k D prev m -> map_ok k D prev (drop_empty m).
Proof.
  intros [H1 H2 H3 H4]. constructor.
  - unfold drop_empty. apply NoDup_map_filter. exact H1.
  - intros key b Hin. unfold drop_empty in Hin. apply filter_In in Hin as [Hin _]. eapply H2. exact Hin.
  - unfold ents. rewrite drop_empty_entries. exact H3.
  - intros x Hx. apply H4. unfold ents in *. rewrite drop_empty_entries in Hx. exact Hx.
Qed.

(* the counting consequence *)
Lemma NoDup_map_inv' {A B C} (f : A -> B) (g : B -> C) l : NoDup (map g (map f l)) -> NoDup (map f l).
Proof.
  induction l as [|x t IH]; simpl; intros H; [constructor|].
  inversion H; subst. constructor; [|apply IH; assumption].
  intros Hin. apply H2. apply in_map. exact Hin.
Qed.

Theorem map_ok_count k D prev m :
  map_ok k D prev m -> count m <= live_count k prev D.
Proof.
  intros Hm. unfold count, live_count. fold (ents m).
  rewrite <- (map_length okey (ents m)), <- (map_length dkey (filter (dlive k prev) D)).
  assert (Hle : (length (map okey (ents m)) <= length (map dkey (filter (dlive k prev) D)))%nat); [|lia].
  apply NoDup_incl_length.
  - apply (NoDup_map_inv' okey (fun o => fst (fst o))). rewrite map_map. simpl. apply (mo_id _ _ _ _ Hm).
  - intros o Ho. apply in_map_iff in Ho as [x [E Hx]]. subst o.
    destruct (mo_prov _ _ _ _ Hm x Hx) as [Hin [Hk [Hw He]]].
    apply in_map_iff in Hin as [d [Ed Hd]]. apply in_map_iff. exists d. split; [exact Ed|].
    apply filter_In. split; [exact Hd|].
    destruct d as [[t ifx] r]. unfold dkey, okey in Ed. cbn [fst snd] in Ed.
    assert (E1 : br_ty r = c_ty x) by (unfold ident in Ed; cbn in Ed; congruence).
    assert (E2 : t = l_created (c_life x)) by (cbn in Ed; congruence).
    assert (E3 : wire_ttl (br_ttl r) = l_ttl (c_life x)) by (cbn in Ed; congruence).
    unfold dlive. cbn [fst snd]. apply andb_true_iff. split.
    + apply kind_eqb_eq. rewrite <- Hk, E1. reflexivity.
    + apply N.ltb_lt. unfold life_wf in Hw. rewrite E2, E3. lia.
Qed.

(* ---------------------------------------------------------------- lifetimes *)
Lemma life_new_eq now ttl : life_new now ttl = mkLife ttl now (now + ttl * 1000) (now + ttl * 800).
Proof.
  unfold life_new, exp_time. rewrite !pin_expiration. f_equal; unfold hp_new_expire_percent, hp_new_refresh_percent; lia.
Qed.

Lemma life_reset_eq now ttl :
  life_reset now ttl = mkLife ttl now (now + ttl * 1000) (if 1 <? ttl then now + ttl * 800 else now + ttl * 1000).
Proof.
  unfold life_reset, exp_time. rewrite !pin_expiration, pin_reset_full.
  unfold hp_reset_expire_percent, hp_reset_refresh_percent.
  destruct (1 <? ttl); f_equal; lia.
Qed.

Lemma wire_ttl_pos t : 1 <= wire_ttl t.
Proof.
  unfold wire_ttl. rewrite pin_goodbye, pin_goodbye_ttl. destruct (t =? 0) eqn:E; [lia|].
  apply N.eqb_neq in E. lia.
Qed.

(* ---------------------------------------------------------------- the whole cache *)
Definition cache_ok (D : list deliv) (prev : N) (c : bcache) : Prop :=
  forall k, k <> KNone -> map_ok k D prev (get_map k c).

Lemma cache_ok_incl D D' prev c : incl D D' -> cache_ok D prev c -> cache_ok D' prev c.
Proof. intros Hi H k Hk. eapply map_ok_incl; [exact Hi|apply H; exact Hk]. Qed.

Lemma cache_ok_init D prev : cache_ok D prev bc0.
Proof. intros k _. destruct k; apply map_ok_empty. Qed.

Lemma get_map_set_sub k s c : get_map k (set_sub s c) = get_map k c.
Proof. destruct k; reflexivity. Qed.

Lemma cache_ok_set k D prev m c :
  k <> KNone -> cache_ok D prev c -> map_ok k D prev m -> cache_ok D prev (set_map k m c).
Proof.
  intros Hk Hc Hm k' Hk'. destruct (kind_eqb k k') eqn:E.
  - apply kind_eqb_eq in E. subst k'. rewrite get_set_same by exact Hk. exact Hm.
  - rewrite get_set_other; [apply Hc; exact Hk'|]. intros ->. destruct k'; discriminate.
Qed.

(* ---------------------------------------------------------------- add_or_update *)
Lemma update_rec_idents now x b b2 u rv : update_rec now x b = Some (b2, u, rv) -> map ident b2 = map ident b.
Proof.
  revert b2. induction b as [|r t IH]; simpl; intros b2 H; [discriminate|].
  destruct (crec_matches r x).
  - inversion H; subst. reflexivity.
  - destruct (update_rec now x t) as [[[t' u'] rv']|]; [|discriminate]. inversion H; subst.
    simpl. rewrite (IH t' eq_refl). reflexivity.
Qed.

Lemma update_rec_elems now x b b2 u rv :
  update_rec now x b = Some (b2, u, rv) ->
  forall y', In y' b2 ->
    In y' b \/ exists y, In y b /\ crec_matches y x = true
                         /\ y' = c_set_life (life_reset now (l_ttl (c_life x))) y.
Proof.
  revert b2. induction b as [|r t IH]; simpl; intros b2 H; [discriminate|].
  destruct (crec_matches r x) eqn:E.
  - inversion H; subst. intros y' [Hy|Hy]; [right; exists r; auto|left; right; exact Hy].
  - destruct (update_rec now x t) as [[[t' u'] rv']|]; [|discriminate]. inversion H; subst.
    intros y' [Hy|Hy]; [left; left; exact Hy|].
    destruct (IH t' eq_refl y' Hy) as [H1|[y [H1 H2]]]; [left; right; exact H1|right; exists y; tauto].
Qed.

Lemma update_rec_none now x b : update_rec now x b = None -> forall y, In y b -> crec_matches y x = false.
Proof.
  induction b as [|r t IH]; simpl; intros H y Hy; [contradiction|].
  destruct (crec_matches r x) eqn:E; [discriminate|].
  destruct (update_rec now x t) as [[[t' u'] rv']|]; [discriminate|].
  destruct Hy as [->|Hy]; [exact E|apply IH; [reflexivity|exact Hy]].
Qed.

Lemma flush_rec_ident now x y : ident (flush_rec now x y) = ident y.
Proof. unfold flush_rec. destruct (should_flush now x y); reflexivity. Qed.

Lemma flush_rec_ok k D prev now x y :
  prev <= now -> entry_ok k D prev y -> entry_ok k D prev (flush_rec now x y).
Proof.
  intros Hle [H1 [H2 [H3 H4]]]. unfold flush_rec. destruct (should_flush now x y) eqn:E; [|repeat split; assumption].
  unfold should_flush in E. apply andb_true_iff in E as [E _]. apply andb_true_iff in E as [_ E].
  rewrite pin_flush_far in E. apply N.ltb_lt in E.
  repeat split; try assumption; unfold life_wf in *; simpl; rewrite pin_flush_expire; lia.
Qed.

Lemma aou_kind_ok k now fu ok ifx r D prev c :
  k <> KNone -> kind_of (br_ty r) = k -> prev <= now -> (ok = true -> In (now, ifx, r) D) ->
  cache_ok D prev c ->
  cache_ok D prev (fst (fst (aou_kind k now fu ok (crec_of now ifx r) c))).
Proof.
  intros Hk Hkind Hle HD Hc. set (x := crec_of now ifx r). unfold aou_kind.
  match goal with |- context [if ?bb then set_sub ?a c else c] => set (c1 := if bb then set_sub a c else c) end.
  assert (Hc1 : cache_ok D prev c1).
  { unfold c1. match goal with |- context [if ?bb then _ else _] => destruct bb end; [|exact Hc].
    intros k' Hk'. rewrite get_map_set_sub. apply Hc. exact Hk'. }
  clearbody c1.
  set (key := match k with KAddr => lower (c_name x) | _ => c_name x end).
  assert (Hkey : key = key_of k x) by reflexivity.
  set (m := get_map k c1). assert (Hm : map_ok k D prev m) by (apply Hc1; exact Hk).
  set (b := bucket m key).
  destruct (match b with [] => negb fu | _ :: _ => false end || negb ok) eqn:Eref; cbn [fst].
  - apply cache_ok_set; [exact Hk|exact Hc1|].
    destruct (ahas key m) eqn:Eh; [exact Hm|apply map_ok_add_empty; assumption].
  - apply orb_false_iff in Eref as [_ Eok]. apply negb_false_iff in Eok. specialize (HD Eok).
    assert (Hx : entry_ok k D prev x).
    { split; [|split; [|split]].
      - unfold dkey. apply in_map_iff. exists (now, ifx, r). split; [reflexivity|exact HD].
      - exact Hkind.
      - unfold x, crec_of, life_wf. cbn [c_life]. rewrite life_new_eq. simpl. lia.
      - unfold x, crec_of. cbn [c_life]. rewrite life_new_eq. simpl. pose proof (wire_ttl_pos (br_ttl r)). lia. }
    set (b1 := if c_flush x then map (flush_rec now x) b else b).
    assert (Hb : forall y, In y b -> key_of k y = key /\ entry_ok k D prev y).
    { intros y Hy. split; [eapply bucket_key; eassumption|apply (mo_prov _ _ _ _ Hm); eapply bucket_in_ents; exact Hy]. }
    assert (Hid1 : map ident b1 = map ident b).
    { unfold b1. destruct (c_flush x); [|reflexivity]. rewrite map_map. apply map_ext. intros y. apply flush_rec_ident. }
    assert (Hb1 : forall y, In y b1 -> key_of k y = key /\ entry_ok k D prev y).
    { intros y Hy. unfold b1 in Hy. destruct (c_flush x); [|apply Hb; exact Hy].
      apply in_map_iff in Hy as [y0 [E Hy0]]. subst y. destruct (Hb y0 Hy0) as [A B]. split.
      - rewrite <- A. apply key_of_ident. apply flush_rec_ident.
      - apply flush_rec_ok; assumption. }
    destruct (update_rec now x b1) as [[[b2 u] rv]|] eqn:Eu; cbn [fst].
    + apply cache_ok_set; [exact Hk|exact Hc1|].
      apply (map_ok_aset_same_idents k D prev m key b b2 Hm eq_refl).
      * rewrite (update_rec_idents _ _ _ _ _ _ Eu). exact Hid1.
      * intros y' Hy'. destruct (update_rec_elems _ _ _ _ _ _ Eu y' Hy') as [H|[y [Hy [Hmt ->]]]]; [apply Hb1; exact H|].
        destruct (Hb1 y Hy) as [A [B1 [B2 [B3 B4]]]]. apply matches_ident in Hmt. split.
        -- rewrite <- A. apply key_of_ident. apply ident_set_life.
        -- split; [|split; [|split]].
           ++ apply in_map_iff. exists (now, ifx, r). split; [|exact HD].
              unfold dkey, okey. cbn [fst snd]. fold x. rewrite ident_set_life, Hmt.
              cbn [c_life c_set_life]. rewrite life_reset_eq. unfold x, crec_of. cbn [c_life]. rewrite life_new_eq. reflexivity.
           ++ cbn [c_ty c_set_life]. exact B2.
           ++ cbn [c_life c_set_life]. rewrite life_reset_eq. unfold life_wf. simpl. lia.
           ++ cbn [c_life c_set_life]. rewrite life_reset_eq. cbn [l_expires].
              unfold x, crec_of. cbn [c_life]. rewrite life_new_eq. cbn [l_ttl]. pose proof (wire_ttl_pos (br_ttl r)). lia.
    + apply cache_ok_set; [exact Hk|exact Hc1|].
      apply map_ok_aset; [exact Hm| |].
      * intros y [<-|Hy]; [split; [symmetry; exact Hkey|exact Hx]|apply Hb1; exact Hy].
      * (* ident x is new: a record with that identity would sit in this bucket and match *)
        assert (P : Permutation (map ident (ents m)) (map ident (b ++ ents (adel key m))))
          by (apply Permutation_map; apply ents_split; apply (mo_keys _ _ _ _ Hm)).
        simpl. rewrite map_app, Hid1, <- map_app. constructor.
        -- intros Hin. eapply Permutation_in in Hin; [|apply Permutation_sym; exact P].
           apply in_map_iff in Hin as [z [Ez Hz]].
           (* z is in the bucket of key *)
           assert (Hzb : In z b).
           { unfold ents in Hz. apply in_flat_map in Hz as [[kz bz] [Hkz Hz]]. simpl in Hz.
             pose proof (mo_key _ _ _ _ Hm kz bz Hkz z Hz) as Hkk.
             assert (Ekz : kz = key) by (rewrite <- Hkk, Hkey; apply key_of_ident; exact Ez). rewrite Ekz in Hkz.
             unfold b, bucket. rewrite (aget_In_nodup key m bz (mo_keys _ _ _ _ Hm) Hkz). exact Hz. }
           assert (Hz1 : exists z1, In z1 b1 /\ ident z1 = ident z).
           { unfold b1. destruct (c_flush x); [|exists z; auto].
             exists (flush_rec now x z). split; [apply in_map; exact Hzb|apply flush_rec_ident]. }
           destruct Hz1 as [z1 [Hz1 Ez1]].
           pose proof (update_rec_none _ _ _ Eu z1 Hz1) as Hno.
           assert (crec_matches z1 x = true) by (apply matches_ident; congruence). congruence.
        -- eapply Permutation_NoDup; [exact P|apply (mo_id _ _ _ _ Hm)].
Qed.

Lemma aou_ok now fu ok ifx r D prev c :
  prev <= now -> (ok = true -> In (now, ifx, r) D) -> cache_ok D prev c ->
  cache_ok D prev (fst (fst (add_or_update now fu ok (crec_of now ifx r) c))).
Proof.
  intros Hle HD Hc. unfold add_or_update. cbn [c_ty crec_of].
  destruct (kind_of (br_ty r)) eqn:Ek; try (apply aou_kind_ok; [discriminate|exact Ek|exact Hle|exact HD|exact Hc]).
  exact Hc.
Qed.

(* ---------------------------------------------------------------- responses *)
Lemma absorb_cache pol now fu ifx q res (acc : acc_t) r :
  acc_cache (absorb pol now fu ifx q res acc r)
  = fst (fst (add_or_update now fu (logged pol now q res (acc_cache acc) r) (crec_of now ifx r) (acc_cache acc))).
Proof.
  destruct acc as [[[c tm] ch] ex]. unfold absorb, acc_cache, logged. cbn [fst].
  destruct (add_or_update now fu _ (crec_of now ifx r) c) as [[c' ft] [[u isnew]|]]; cbn [fst]; [|reflexivity].
  destruct isnew; [|reflexivity].
  destruct ((c_ty u =? ty_PTR) && hp_ptr_ttl_ok (l_ttl (c_life u))); reflexivity.
Qed.

Lemma fold_absorb_ok pol now fu ifx q res D prev rs : forall (acc : acc_t),
  prev <= now -> incl (msg_log pol now fu ifx q res rs acc) D ->
  cache_ok D prev (acc_cache acc) ->
  cache_ok D prev (acc_cache (fold_left (absorb pol now fu ifx q res) rs acc)).
Proof.
  induction rs as [|r t IH]; intros acc Hle HD Hc; [exact Hc|]. cbn [fold_left]. cbn [msg_log] in HD.
  apply IH; [exact Hle| |].
  - intros d Hd. apply HD. apply in_or_app. right. exact Hd.
  - rewrite absorb_cache. apply aou_ok; [exact Hle| |exact Hc].
    intros E. apply HD. apply in_or_app. left. rewrite E. left. reflexivity.
Qed.

Lemma handle_response_cache pol now s m :
  b_cache (handle_response pol now s m)
  = acc_cache (fold_left (absorb pol now (is_for_us s m) (bm_if m) (b_queriers s) (b_resolvers s)) (bm_recs m)
                         (b_cache s, [], [], b_excess s)).
Proof.
  unfold handle_response.
  destruct (fold_left _ (bm_recs m) (b_cache s, [], [], b_excess s)) as [[[c tm] ch] ex].
  rewrite resolve_updated_cache. reflexivity.
Qed.

Lemma fold_responses_ok pol now D prev ms : forall s,
  prev <= now -> incl (msgs_log pol now ms s) D -> cache_ok D prev (b_cache s) ->
  cache_ok D prev (b_cache (fold_left (handle_response pol now) ms s)).
Proof.
  induction ms as [|m t IH]; intros s Hle HD Hc; [exact Hc|]. cbn [fold_left]. cbn [msgs_log] in HD.
  apply IH; [exact Hle| |].
  - intros d Hd. apply HD. apply in_or_app. right. exact Hd.
  - rewrite handle_response_cache. apply fold_absorb_ok; [exact Hle| |exact Hc].
    intros d Hd. apply HD. apply in_or_app. left. exact Hd.
Qed.

(* ---------------------------------------------------------------- calls *)
Lemma fold_adel_ok k D prev l : forall m, map_ok k D prev m -> map_ok k D prev (fold_left (fun m i => adel i m) l m).
Proof. induction l as [|i t IH]; intros m H; simpl; [exact H|]. apply IH. apply map_ok_adel. exact H. Qed.

Lemma remove_service_type_ok D prev ty c : cache_ok D prev c -> cache_ok D prev (remove_service_type ty c).
Proof.
  intros H. unfold remove_service_type. destruct (aget ty (bc_ptr c)) as [ptrs|]; [|exact H].
  intros k Hk. destruct k; cbn [get_map bc_ptr bc_srv bc_txt bc_addr bc_nsec].
  - apply map_ok_adel. apply (H KPtr). discriminate.
  - apply fold_adel_ok. apply (H KSrv). discriminate.
  - apply fold_adel_ok. apply (H KTxt). discriminate.
  - match goal with |- map_ok _ _ _ (fold_left ?f ?hs ?am) =>
      assert (G : forall l0 m0, map_ok KAddr D prev m0 -> map_ok KAddr D prev (fold_left f l0 m0)) end.
    { induction l0 as [|h t IH]; intros m0 Hm0; simpl; [exact Hm0|]. apply IH.
      destruct (existsb _ _); [exact Hm0|apply map_ok_adel; exact Hm0]. }
    apply G. apply (H KAddr). discriminate.
  - apply (H KNsec). discriminate.
  - contradiction.
Qed.

Lemma exec_call_ok D prev now acc c :
  cache_ok D prev (b_cache (fst acc)) -> cache_ok D prev (b_cache (fst (exec_call now acc c))).
Proof.
  destruct acc as [s out]. cbn [fst]. intros H. destruct c; cbn [exec_call fst].
  - unfold browse_send. rewrite add_retr_cache, settle_cache. exact H.
  - destruct (mem ty (b_queriers s)); cbn [fst b_cache]; [apply remove_service_type_ok|]; exact H.
  - unfold host_send. cbn [b_resolvers]. destruct (match aget _ _ with Some (Some d) => _ | _ => true end); exact H.
  - destruct (ahas (lower host) (b_resolvers s)); exact H.
  - exact H.
  - exact H.
Qed.

(* the samples taken during the calls are within the bound of the cache as it is then *)
Definition sample_within (T : N) (D : list deliv) (smp : sample) : Prop :=
  m_ptr smp <= live_count KPtr T D /\ m_srv smp <= live_count KSrv T D /\ m_txt smp <= live_count KTxt T D
  /\ m_addr smp <= live_count KAddr T D /\ m_nsec smp <= live_count KNsec T D.

Lemma metrics_within D prev s : cache_ok D prev (b_cache s) -> sample_within prev D (metrics s).
Proof.
  intros H. unfold sample_within, metrics. cbn [m_ptr m_srv m_txt m_addr m_nsec].
  repeat split.
  - apply (map_ok_count KPtr). apply (H KPtr). discriminate.
  - apply (map_ok_count KSrv). apply (H KSrv). discriminate.
  - apply (map_ok_count KTxt). apply (H KTxt). discriminate.
  - apply (map_ok_count KAddr). apply (H KAddr). discriminate.
  - apply (map_ok_count KNsec). apply (H KNsec). discriminate.
Qed.

Lemma exec_call_samples D prev now acc c :
  cache_ok D prev (b_cache (fst acc)) -> Forall (sample_within prev D) (snd acc) ->
  Forall (sample_within prev D) (snd (exec_call now acc c)).
Proof.
  destruct acc as [s out]. cbn [fst snd]. intros H Ho. destruct c; cbn [exec_call snd]; try exact Ho.
  - destruct (mem ty (b_queriers s)); exact Ho.
  - destruct (ahas (lower host) (b_resolvers s)); exact Ho.
  - apply Forall_app. split; [exact Ho|]. constructor; [apply metrics_within; exact H|constructor].
Qed.

Lemma fold_calls_ok D prev now cs : forall acc,
  cache_ok D prev (b_cache (fst acc)) -> Forall (sample_within prev D) (snd acc) ->
  cache_ok D prev (b_cache (fst (fold_left (exec_call now) cs acc)))
  /\ Forall (sample_within prev D) (snd (fold_left (exec_call now) cs acc)).
Proof.
  induction cs as [|c t IH]; intros acc H Ho; simpl; [auto|].
  apply IH; [apply exec_call_ok; exact H|apply exec_call_samples; assumption].
Qed.

(* ---------------------------------------------------------------- refresh *)
Lemma refresh_maybe_fields now l l' :
  life_refresh_maybe now l = Some l' ->
  l_ttl l' = l_ttl l /\ l_created l' = l_created l /\ l_expires l' = l_expires l.
Proof. unfold life_refresh_maybe. destruct (_ || _); [discriminate|]. intros H. inversion H. auto. Qed.

(* a bucket-wise change of lifetimes that keeps identity, origin and expiry *)
Lemma map_ok_relife k D prev (m : amap) key b (f : crec -> crec) :
  map_ok k D prev m -> aget key m = Some b ->
  (forall x, ident (f x) = ident x /\ okey (f x) = okey x /\ life_wf (c_life x) -> True) ->
  (forall x, entry_ok k D prev x -> ident (f x) = ident x /\ entry_ok k D prev (f x)) ->
  map_ok k D prev (aset key (map f b) m).
Proof.
  intros Hm Hb _ Hf.
  assert (Hbk : bucket m key = b) by (unfold bucket; rewrite Hb; reflexivity).
  assert (Hin : forall x, In x b -> entry_ok k D prev x).
  { intros x Hx. apply (mo_prov _ _ _ _ Hm). apply (bucket_in_ents m key). rewrite Hbk. exact Hx. }
  apply (map_ok_aset_same_idents k D prev m key b (map f b) Hm Hbk).
  - rewrite map_map. apply map_ext_in. intros x Hx. apply (Hf x (Hin x Hx)).
  - intros y Hy. apply in_map_iff in Hy as [x [E Hx]]. subst y. destruct (Hf x (Hin x Hx)) as [A B].
    split; [|exact B]. rewrite (key_of_ident k (f x) x A). eapply bucket_key; [exact Hm|]. rewrite Hbk. exact Hx.
Qed.

Lemma refresh_key_ok k D prev now (m : amap) t key :
  map_ok k D prev m -> map_ok k D prev (fst (refresh_key now (m, t) key)).
Proof.
  intros Hm. unfold refresh_key. cbn [fst snd]. destruct (aget key m) as [b|] eqn:E; [|exact Hm].
  unfold refresh_bucket. cbn [fst snd].
  apply (map_ok_relife k D prev m key b _ Hm E); [trivial|].
  intros x [H1 [H2 [H3 H4]]]. destruct (life_refresh_maybe now (c_life x)) as [l|] eqn:El; [|split; [reflexivity|repeat split; assumption]].
  destruct (refresh_maybe_fields _ _ _ El) as [Et [Ec Ee]].
  split; [reflexivity|]. repeat split.
  - unfold okey in *. cbn [c_life c_set_life]. rewrite ident_set_life, Et, Ec. exact H1.
  - exact H2.
  - unfold life_wf in *. cbn [c_life c_set_life]. rewrite Et, Ec, Ee. exact H3.
  - cbn [c_life c_set_life]. rewrite Ee. exact H4.
Qed.

Lemma refresh_type_ok D prev now (acc : bcache * list N) ty :
  cache_ok D prev (fst acc) -> cache_ok D prev (fst (refresh_type now acc ty)).
Proof.
  destruct acc as [c tm]. cbn [fst]. intros H. unfold refresh_type.
  pose proof (refresh_key_ok KPtr D prev now (bc_ptr c) [] ty (H KPtr ltac:(discriminate))) as Hp.
  destruct (refresh_key now (bc_ptr c, []) ty) as [ptr1 t1]. cbn [fst] in Hp.
  set (insts := map c_target (filter (fun r => negb (r_expired now r)) (bucket ptr1 ty))).
  assert (G : forall l (sm tmx : amap) t,
            map_ok KSrv D prev sm -> map_ok KTxt D prev tmx ->
            map_ok KSrv D prev (fst (fst (fold_left (fun a i => let '(sm, tmx, t) := a in
                            let '(sm', tsrv) := refresh_key now (sm, []) i in
                            let '(tm', ttxt) := refresh_key now (tmx, []) i in
                            (sm', tm', t ++ tsrv ++ ttxt)) l (sm, tmx, t))))
            /\ map_ok KTxt D prev (snd (fst (fold_left (fun a i => let '(sm, tmx, t) := a in
                            let '(sm', tsrv) := refresh_key now (sm, []) i in
                            let '(tm', ttxt) := refresh_key now (tmx, []) i in
                            (sm', tm', t ++ tsrv ++ ttxt)) l (sm, tmx, t))))).
  { induction l as [|i l IH]; intros sm tmx t Hs Ht; [simpl; auto|]. cbn [fold_left]. cbv beta iota.
    pose proof (refresh_key_ok KSrv D prev now sm [] i Hs) as H1.
    pose proof (refresh_key_ok KTxt D prev now tmx [] i Ht) as H2.
    destruct (refresh_key now (sm, []) i) as [sm1 ts]. destruct (refresh_key now (tmx, []) i) as [tm1 tt'].
    cbn [fst snd] in H1, H2. exact (IH sm1 tm1 (t ++ ts ++ tt') H1 H2). }
  specialize (G insts (bc_srv (set_map KPtr ptr1 c)) (bc_txt (set_map KPtr ptr1 c)) []
                (H KSrv ltac:(discriminate)) (H KTxt ltac:(discriminate))).
  destruct (fold_left _ insts _) as [[srv2 txt2] t2]. cbn [fst snd] in G. destruct G as [Hs Ht].
  assert (G2 : forall l (am : amap) t, map_ok KAddr D prev am ->
            map_ok KAddr D prev (fst (fold_left (fun a h => refresh_key now a (lower h)) l (am, t)))).
  { induction l as [|h l IH]; intros am t Ha; [exact Ha|]. cbn [fold_left].
    pose proof (refresh_key_ok KAddr D prev now am t (lower h) Ha) as H1.
    destruct (refresh_key now (am, t) (lower h)) as [am1 t1']. cbn [fst] in H1. apply IH. exact H1. }
  specialize (G2 (dedup_names (flat_map (fun i => map c_target (bucket srv2 i)) insts))
                 (bc_addr (set_map KPtr ptr1 c)) [] (H KAddr ltac:(discriminate))).
  destruct (fold_left _ (dedup_names _) _) as [addr3 t3]. cbn [fst] in G2.
  intros k Hk. destruct k; cbn [get_map bc_ptr bc_srv bc_txt bc_addr bc_nsec fst]; try assumption.
  - apply (H KNsec). discriminate.
  - contradiction.
Qed.

Lemma do_refresh_ok D prev now s : cache_ok D prev (b_cache s) -> cache_ok D prev (b_cache (do_refresh now s)).
Proof.
  intros H. unfold do_refresh.
  assert (G : forall l (acc : bcache * list N), cache_ok D prev (fst acc) ->
            cache_ok D prev (fst (fold_left (refresh_type now) l acc))).
  { induction l as [|ty l IH]; intros acc Ha; simpl; [exact Ha|]. apply IH. apply refresh_type_ok. exact Ha. }
  specialize (G (b_queriers s) (b_cache s, []) H).
  destruct (fold_left (refresh_type now) (b_queriers s) (b_cache s, [])) as [c1 tm]. cbn [fst] in G. cbn [b_cache].
  assert (G2 : forall (l : list (name * option N)) (m : amap), map_ok KAddr D prev m ->
            map_ok KAddr D prev (fold_left (fun m (kr : name * option N) => match aget (fst kr) m with
                                      | Some b => aset (fst kr) (refresh_host_bucket now b) m
                                      | None => m end) l m)).
  { induction l as [|kr l IH]; intros m Hm; simpl; [exact Hm|]. apply IH.
    destruct (aget (fst kr) m) as [b|] eqn:E; [|exact Hm].
    unfold refresh_host_bucket.
    apply (map_ok_relife KAddr D prev m (fst kr) b _ Hm E); [trivial|].
    intros x [H1 [H2 [H3 H4]]]. destruct (_ && _); split; try reflexivity; repeat split; try assumption. }
  apply cache_ok_set; [discriminate|exact G|]. apply G2. apply (G KAddr). discriminate.
Qed.

(* ---------------------------------------------------------------- eviction *)
Lemma do_evict_ok D prev now s : cache_ok D prev (b_cache s) -> cache_ok D now (b_cache (do_evict now s)).
Proof.
  intros H. unfold do_evict.
  rewrite (fold_resolve_cache now (fun s0 h => instances_on_host (b_cache s0) h)). cbn [b_cache set_cache].
  intros k Hk. destruct k; cbn [get_map bc_ptr bc_srv bc_txt bc_addr bc_nsec].
  - eapply map_ok_live_only. apply (H KPtr). discriminate.
  - apply map_ok_drop_empty. eapply map_ok_live_only. apply (H KSrv). discriminate.
  - apply map_ok_drop_empty. eapply map_ok_live_only. apply (H KTxt). discriminate.
  - apply map_ok_drop_empty. eapply map_ok_live_only. apply (H KAddr). discriminate.
  - apply map_ok_drop_empty. eapply map_ok_live_only. apply (H KNsec). discriminate.
  - contradiction.
Qed.

Lemma ip_check_cache now s : b_cache (ip_check now s) = b_cache s.
Proof.
  unfold ip_check. destruct (b_ip_interval s =? 0); [reflexivity|].
  destruct (b_next_ip s =? 0); [reflexivity|]. destruct (hp_ip_check_due now (b_next_ip s)); reflexivity.
Qed.

(* ---------------------------------------------------------------- one iteration *)
Theorem step_count_ok pol D prev s i :
  prev <= bi_now i -> cache_ok D prev (b_cache s) ->
  cache_ok (D ++ msgs_log pol (bi_now i) (bi_msgs i) s) (bi_now i) (b_cache (fst (step pol s i)))
  /\ Forall (sample_within prev (D ++ msgs_log pol (bi_now i) (bi_msgs i) s)) (snd (step pol s i)).
Proof.
  intros Hle Hc. set (now := bi_now i). set (D' := D ++ msgs_log pol now (bi_msgs i) s).
  assert (Hc0 : cache_ok D' prev (b_cache s)) by (eapply cache_ok_incl; [|exact Hc]; intros d Hd; apply in_or_app; auto).
  assert (H1 : cache_ok D' prev (b_cache (fold_left (handle_response pol now) (bi_msgs i) s))).
  { apply fold_responses_ok; [exact Hle| |exact Hc0]. intros d Hd. apply in_or_app. right. exact Hd. }
  unfold step. fold now.
  set (s2 := do_timeouts now (pop_timers now (fold_left (handle_response pol now) (bi_msgs i) s))).
  assert (H2 : cache_ok D' prev (b_cache s2)) by exact H1.
  destruct (fold_calls_ok D' prev now (bi_calls i) (s2, []) H2 (Forall_nil _)) as [H3 Ho].
  destruct (fold_left (exec_call now) (bi_calls i) (s2, [])) as [s3 out]. cbn [fst snd] in *.
  split; [|exact Ho].
  rewrite ip_check_cache. apply do_evict_ok with (prev := prev). apply do_refresh_ok. rewrite do_reruns_cache. exact H3.
Qed.

(* ---------------------------------------------------------------- histories *)
Lemma hist_log_app pol h1 h2 : forall s,
  hist_log pol s (h1 ++ h2) = hist_log pol s h1 ++ hist_log pol (state_after pol s h1) h2.
Proof.
  induction h1 as [|i t IH]; intros s; simpl; [reflexivity|]. rewrite IH, app_assoc. reflexivity.
Qed.

Lemma state_count_ok pol h : forall s D prev,
  btimes_ok prev h = true -> cache_ok D prev (b_cache s) ->
  cache_ok (D ++ hist_log pol s h) (blast_time prev h) (b_cache (state_after pol s h)).
Proof.
  induction h as [|i t IH]; intros s D prev Ht Hc; simpl.
  - rewrite app_nil_r. exact Hc.
  - simpl in Ht. apply andb_true_iff in Ht as [H1 H2]. apply N.leb_le in H1.
    destruct (step_count_ok pol D prev s i H1 Hc) as [Hg _].
    specialize (IH _ _ _ H2 Hg). rewrite <- app_assoc in IH. exact IH.
Qed.

Lemma btimes_ok_app prev h1 h2 :
  btimes_ok prev (h1 ++ h2) = true -> btimes_ok prev h1 = true /\ btimes_ok (blast_time prev h1) h2 = true.
Proof.
  revert prev. induction h1 as [|i t IH]; intros prev H; simpl in *; [auto|].
  apply andb_true_iff in H as [H1 H2]. destruct (IH _ H2) as [H3 H4]. rewrite H1, H3. auto.
Qed.

(* THE COUNTING BOUND, for the state after a history ... *)
Theorem count_bound_state pol t0 h k :
  btimes_ok t0 h = true -> k <> KNone ->
  count (get_map k (b_cache (state_after pol (b_init t0) h)))
  <= live_count k (blast_time t0 h) (deliveries_of pol t0 h).
Proof.
  intros Ht Hk. apply map_ok_count.
  pose proof (state_count_ok pol h (b_init t0) [] t0 Ht (cache_ok_init [] t0)) as H. simpl in H.
  apply H. exact Hk.
Qed.

(* ... and for every get_metrics answer given along it: the five record counters are at most
   the numbers of logged deliveries of their kind (up to and including this iteration's) whose
   TTL had not run out at the time of the previous iteration *)
Theorem count_bound_samples pol t0 h1 i h2 smp :
  btimes_ok t0 (h1 ++ i :: h2) = true ->
  In smp (snd (step pol (state_after pol (b_init t0) h1) i)) ->
  sample_within (blast_time t0 h1) (deliveries_of pol t0 (h1 ++ [i])) smp.
Proof.
  intros Ht Hin. apply btimes_ok_app in Ht as [Ht1 Ht2]. simpl in Ht2. apply andb_true_iff in Ht2 as [Hle _].
  apply N.leb_le in Hle.
  pose proof (state_count_ok pol h1 (b_init t0) [] t0 Ht1 (cache_ok_init [] t0)) as Hg. simpl in Hg.
  destruct (step_count_ok pol _ _ _ i Hle Hg) as [_ Ho].
  rewrite Forall_forall in Ho. specialize (Ho smp Hin).
  unfold deliveries_of. rewrite hist_log_app. simpl. rewrite app_nil_r. exact Ho.
Qed.

(* what is in the log under PNeed: only deliveries needed at arrival (by definition of `logged`);
   under PCode: every delivered record *)
Lemma msg_log_PCode now fu ifx q res rs : forall acc,
  msg_log PCode now fu ifx q res rs acc = map (fun r => (now, ifx, r)) rs.
Proof. induction rs as [|r t IH]; intros acc; simpl; [reflexivity|]. rewrite IH. reflexivity. Qed.
