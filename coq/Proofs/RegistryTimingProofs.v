(* C07 over daemon histories without conflict datagrams: the exact timing of one probe carried through
   every daemon function by a per-(interface, name) invariant; liveness on never-late schedules. *)
From Coq Require Import List NArith Bool Lia Arith PeanoNat.
From Mdns Require Import Bytes Rec ParamsRegistry Names WireOut Registry RegistryDaemon RegistrySpec RegistryTrace
     RegistryParamsPinned RegistryProofs RegistryDaemonProofs RegistryLiftProofs RegistryHistoryProofs
     RegistrySilenceProofs RegistryLivenessProofs RegistryDeferralProofs.
Import ListNotations.
Open Scope N_scope.

(* ======================================================================================================
   registry level
   ====================================================================================================== *)

(* the probe for n: started at T, j probe queries sent (next_send = T + 250 j), svc waits for it, and
   every record of recs is among its records *)
Definition hold (rg : registry) (n : bytes) (T : N) (j : nat) (svc : bytes) (recs : list prec) : Prop :=
  exists p, aget n (rg_probing rg) = Some p /\ pb_start p = T /\ pb_next p = T + 250 * N.of_nat j /\
            In svc (pb_waiting p) /\ Forall (fun r => existsb (matches r) (pb_records p) = true) recs.

(* no renames so far: no name change recorded, no record carries a new name *)
Definition clean (rg : registry) : Prop :=
  rg_changes rg = [] /\ forall n p r, In (n, p) (rg_probing rg) -> In r (pb_records p) -> p_new r = None.

Lemma In_set_add x y l : In x (set_add y l) <-> x = y \/ In x l.
Proof.
  unfold set_add. destruct (mem y l) eqn:M.
  - apply mem_In in M. split; [auto|intros [->|H]; assumption].
  - rewrite in_app_iff. cbn. split; [intros [H|[H|[]]]; auto|intros [->|H]; auto].
Qed.

Lemma In_set_union x a : forall b, In x (set_union a b) <-> In x a \/ In x b.
Proof.
  unfold set_union. intros b. revert a. induction b as [|y t IH]; intros a; cbn [fold_left]; [split; [auto|intros [H|[]]; exact H]|].
  rewrite IH, In_set_add. cbn [In]. split; [intros [[->|H]|H]; auto|intros [H|[->|H]]; auto].
Qed.

Lemma existsb_insert f r : forall l, existsb f l = true -> existsb f (insert_record r l) = true.
Proof.
  induction l as [|x t IH]; intros H; [discriminate|]. cbn [insert_record]. destruct (rec_key_le x r).
  - cbn [existsb] in *. apply orb_true_iff in H as [H|H]; apply orb_true_iff; [left; exact H|right; apply IH; exact H].
  - cbn [existsb]. apply orb_true_iff. right. exact H.
Qed.

Lemma In_insert_record r x : forall l, In x (insert_record r l) -> x = r \/ In x l.
Proof.
  induction l as [|y t IH]; cbn [insert_record]; [intros [<-|[]]; auto|]. destruct (rec_key_le y r).
  - intros [<-|H]; [right; left; reflexivity|]. destruct (IH H); [auto|right; right; assumption].
  - intros [<-|H]; auto.
Qed.

Lemma In_aset_cases_gen {V} k0 (v : V) k x : forall l, In (k, x) (aset k0 v l) -> In (k, x) l \/ (k = k0 /\ x = v).
Proof.
  induction l as [|[k' v'] t IH]; cbn [aset]; [intros [E|[]]; inversion E; auto|]. destruct (beq k0 k').
  - intros [E|H]; [inversion E; auto|left; right; exact H].
  - intros [E|H]; [left; left; exact E|]. destruct (IH H) as [I|I]; [left; right; exact I|right; exact I].
Qed.

Lemma ipd_hold rg r0 svc0 start n T j svc recs :
  hold rg n T j svc recs -> hold (fst (is_probing_done rg r0 svc0 start)) n T j svc recs.
Proof.
  intros (p & G & S & X & W & R). unfold is_probing_done. destruct (in_active rg r0); [exists p; auto|]. cbv zeta. cbn [fst].
  unfold hold. cbn [rg_probing]. destruct (beq n (p_name r0)) eqn:B.
  - apply beq_eq in B. subst n. rewrite aget_aset_same, G. eexists. split; [reflexivity|]. cbn [pb_start pb_next pb_waiting pb_records].
    repeat split; try assumption; [apply In_set_add; right; exact W|].
    destruct (existsb (matches r0) (pb_records p)); [exact R|].
    apply Forall_forall. intros r Hr. apply existsb_insert. exact (proj1 (Forall_forall _ _) R r Hr).
  - rewrite aget_aset_other; [exists p; auto|]. intros E. rewrite E, beq_refl in B. discriminate.
Qed.

Lemma ipd_active rg r0 svc0 start : rg_active (fst (is_probing_done rg r0 svc0 start)) = rg_active rg.
Proof. unfold is_probing_done. destruct (in_active rg r0); reflexivity. Qed.

Lemma ipd_clean rg r0 svc0 start : p_new r0 = None -> clean rg -> clean (fst (is_probing_done rg r0 svc0 start)).
Proof.
  intros H0 [C P]. unfold is_probing_done. destruct (in_active rg r0); [split; assumption|]. cbv zeta. cbn [fst]. split; [exact C|].
  cbn [rg_probing]. intros n p r Hin Hr. apply In_aset_cases_gen in Hin as [Hin|[-> ->]].
  - exact (P n p r Hin Hr).
  - cbn [pb_records] in Hr.
    assert (K : forall l, (forall x, In x l -> p_new x = None) -> In r (if existsb (matches r0) l then l else insert_record r0 l) -> p_new r = None).
    { intros l Hl Hi. destruct (existsb (matches r0) l); [exact (Hl r Hi)|]. apply In_insert_record in Hi as [->|Hi]; [exact H0|exact (Hl r Hi)]. }
    destruct (aget (p_name r0) (rg_probing rg)) as [pb|] eqn:G.
    + apply (K (pb_records pb)); [|exact Hr]. intros x Hx. exact (P _ _ x (aget_In _ _ _ G) Hx).
    + apply (K []); [intros x []|exact Hr].
Qed.

(* ---- finished probes ----------------------------------------------------------------------------------------- *)

Lemma fold_changes_none name recs ch :
  (forall r, In r recs -> p_new r = None) ->
  fold_left (fun ch r => match p_new r with Some n => aset name n ch | None => ch end) recs ch = ch.
Proof.
  revert ch. induction recs as [|r t IH]; intros ch H; [reflexivity|]. cbn [fold_left]. rewrite (H r (or_introl eq_refl)).
  apply IH. intros x Hx. apply H. right. exact Hx.
Qed.

Lemma in_active_aset_other rg name v r probing changes :
  p_name r <> name -> in_active (mkReg probing (aset name v (rg_active rg)) changes) r = in_active rg r.
Proof. intros H. unfold in_active. cbn [rg_active]. rewrite aget_aset_other by exact H. reflexivity. Qed.

Lemma expire_one_facts rg name :
  clean rg ->
  let rg' := fst (fst (expire_one rg name)) in
  clean rg' /\ (forall r, in_active rg r = true -> in_active rg' r = true) /\
  (forall pb, aget name (rg_probing rg) = Some pb ->
     snd (expire_one rg name) = match pb_records pb with [] => [] | _ => pb_waiting pb end /\
     forall r, p_name r = name -> existsb (matches r) (pb_records pb) = true -> in_active rg' r = true).
Proof.
  intros [C P]. unfold expire_one. destruct (aget name (rg_probing rg)) as [pb|] eqn:G.
  - assert (Hn : forall r, In r (pb_records pb) -> p_new r = None) by (intros r Hr; exact (P _ _ r (aget_In _ _ _ G) Hr)).
    rewrite (fold_changes_none name (pb_records pb) (rg_changes rg) Hn).
    assert (Hsub : forall n p r, In (n, p) (adel name (rg_probing rg)) -> In r (pb_records p) -> p_new r = None)
      by (intros n p r Hin Hr; exact (P n p r (adel_entries _ _ _ _ Hin) Hr)).
    destruct (pb_records pb) as [|r0 rs0] eqn:ER; cbn [fst snd].
    + split; [split; assumption|]. split; [auto|]. intros pb0 E. inversion E; subst pb0. rewrite ER. split; [reflexivity|]. intros r _ H. discriminate.
    + split; [split; assumption|]. split.
      * intros r H. destruct (beq (p_name r) name) eqn:B.
        -- apply beq_eq in B. unfold in_active in *. rewrite B in *.
           destruct (aget name (rg_active rg)) as [rs|] eqn:GA; [|discriminate]. cbn [rg_active]. rewrite aget_aset_same.
           rewrite existsb_app, H. reflexivity.
        -- assert (Hne : p_name r <> name) by (intros E; rewrite E, beq_refl in B; discriminate).
           destruct (aget name (rg_active rg)); rewrite in_active_aset_other by exact Hne; exact H.
      * intros pb0 E. inversion E; subst pb0. rewrite ER. split; [reflexivity|]. intros r Hnm Hm.
        unfold in_active. rewrite Hnm. destruct (aget name (rg_active rg)) as [rs|]; cbn [rg_active]; rewrite aget_aset_same.
        -- rewrite existsb_app, Hm. apply orb_true_r.
        -- exact Hm.
  - cbn [fst snd]. split; [split; assumption|]. split; [auto|]. intros pb E. discriminate.
Qed.

Lemma expire_all_facts : forall names rg,
  clean rg ->
  let rg' := fst (fst (expire_all rg names)) in
  clean rg' /\ (forall r, in_active rg r = true -> in_active rg' r = true).
Proof.
  induction names as [|n t IH]; intros rg Hc; [split; [exact Hc|auto]|]. cbn [expire_all].
  destruct (expire_one_facts rg n Hc) as (C1 & M1 & _). destruct (expire_one rg n) as [[rg1 ev1] w1]. cbn [fst] in C1, M1.
  destruct (IH rg1 C1) as (C2 & M2). destruct (expire_all rg1 t) as [[rg2 ev2] w2]. cbn [fst] in *. split; [exact C2|auto].
Qed.

(* the name n is among the finished ones: its records become active and its waiting services are returned *)
Lemma expire_all_hit n pb : forall names rg,
  clean rg -> NoDup (keys (rg_probing rg)) -> In n names -> aget n (rg_probing rg) = Some pb -> pb_records pb <> [] ->
  (forall svc, In svc (pb_waiting pb) -> In svc (snd (expire_all rg names))) /\
  (forall r, p_name r = n -> existsb (matches r) (pb_records pb) = true -> in_active (fst (fst (expire_all rg names))) r = true).
Proof.
  induction names as [|m t IH]; intros rg Hc Hnd Hin G Hne; [contradiction|]. cbn [expire_all].
  destruct (expire_one_facts rg m Hc) as (C1 & M1 & H1).
  pose proof (expire_one_nodup rg m Hnd) as N1. pose proof (expire_one_probing rg m) as Pr.
  destruct (expire_one rg m) as [[rg1 ev1] w1]. cbn [fst snd] in *.
  destruct (beq m n) eqn:B.
  - apply beq_eq in B. subst m. destruct (H1 pb G) as [Hw Ha].
    destruct (expire_all_facts t rg1 C1) as (_ & M2). destruct (expire_all rg1 t) as [[rg2 ev2] w2]. cbn [fst snd] in *. split.
    + intros svc Hs. apply In_set_union. left. rewrite Hw. destruct (pb_records pb); [contradiction|exact Hs].
    + intros r Hn Hm. apply M2. apply Ha; assumption.
  - assert (Hmn : n <> m) by (intros E; rewrite E, beq_refl in B; discriminate).
    assert (Hin' : In n t) by (destruct Hin as [E|H]; [symmetry in E; contradiction|exact H]).
    assert (G1 : aget n (rg_probing rg1) = Some pb).
    { destruct Pr as [Pr|[_ Pr]]; [rewrite Pr, aget_adel_other by exact Hmn; exact G|rewrite Pr; exact G]. }
    destruct (IH rg1 C1 N1 Hin' G1 Hne) as [W A]. destruct (expire_all rg1 t) as [[rg2 ev2] w2]. cbn [fst snd] in *. split.
    + intros svc Hs. apply In_set_union. right. exact (W svc Hs).
    + exact A.
Qed.

(* ---- one probing pass ----------------------------------------------------------------------------------------- *)

Lemma clean_tick rg now :
  clean rg -> clean (mkReg (map (fun np => (fst np, tick_probe now (snd np))) (rg_probing rg)) (rg_active rg) (rg_changes rg)).
Proof.
  intros [C P]. split; [exact C|]. cbn [rg_probing]. intros n p r Hin Hr. apply in_map_iff in Hin as (np & E & Hin).
  assert (En : n = fst np) by (inversion E; reflexivity). assert (Ep : p = tick_probe now (snd np)) by (inversion E; reflexivity).
  subst p. destruct np as [n1 p1]. cbn [fst snd] in *. apply (P n1 p1 r Hin). unfold tick_probe in Hr. destruct (sends now p1); exact Hr.
Qed.

Lemma probe_step_general rg now :
  clean rg -> NoDup (keys (rg_probing rg)) ->
  let rg1 := fst (fst (fst (probe_step rg now))) in
  clean rg1 /\ NoDup (keys (rg_probing rg1)) /\ (forall r, in_active rg r = true -> in_active rg1 r = true).
Proof.
  intros [C P] Hnd. pose proof (probe_step_nodup rg now Hnd) as N1. unfold RPn in N1.
  unfold probe_step in *. rewrite check_probes_spec in *.
  set (ps' := map (fun np => (fst np, tick_probe now (snd np))) (rg_probing rg)) in *.
  set (ex := flat_map (fun np => if expires now (snd np) then [fst np] else []) (rg_probing rg)) in *.
  assert (Hc' : clean (mkReg ps' (rg_active rg) (rg_changes rg))) by (apply clean_tick; split; assumption).
  destruct (expire_all_facts ex _ Hc') as (C2 & M2).
  destruct (expire_all (mkReg ps' (rg_active rg) (rg_changes rg)) ex) as [[rg' evs] w]. cbn [fst] in *.
  split; [exact C2|]. split; [exact N1|]. intros r H. apply M2. exact H.
Qed.

Lemma hold_tick_probe now p : pb_start (tick_probe now p) = pb_start p /\ pb_waiting (tick_probe now p) = pb_waiting p /\
  pb_records (tick_probe now p) = pb_records p.
Proof. unfold tick_probe. destruct (sends now p); repeat split; reflexivity. Qed.

(* on time for the probe (now <= next_send), not yet the last step: the pass either leaves it alone
   (now < next_send) or sends its next probe query (now = next_send) *)
Lemma probe_step_hold rg now n T j svc recs rg1 qs evs waiting :
  NoDup (keys (rg_probing rg)) -> hold rg n T j svc recs -> probe_step rg now = (rg1, qs, evs, waiting) ->
  (now < T + 250 * N.of_nat j -> hold rg1 n T j svc recs /\ ~ In n (map fst qs)) /\
  (now = T + 250 * N.of_nat j -> (j < 3)%nat -> hold rg1 n T (S j) svc recs /\ In n (map fst qs)).
Proof.
  intros Hnd (p & G & S & X & W & R) PS. destruct (probe_step_tick _ _ _ _ _ _ PS) as (ex & TK).
  pose proof (tick_names_aget rg now rg1 (map fst qs) ex n Hnd TK) as A. rewrite G in A.
  destruct (hold_tick_probe now p) as (E1 & E2 & E3). split.
  - intros Hlt. assert (Hd : probe_due (pb_next p) now = false) by (rewrite probe_due_pinned; apply N.leb_gt; lia).
    unfold sends, expires in A. rewrite Hd in A. cbn [andb] in A. destruct A as (A1 & _ & A3).
    split; [exists p; repeat split; assumption|exact A1].
  - intros He Hj. assert (Hs : sends now p = true) by (apply sends_iff; rewrite X, S; lia).
    rewrite Hs in A. destruct A as (A1 & _ & A3). split; [|exact A1].
    exists (tick_probe now p). rewrite E1, E2, E3. repeat split; try assumption.
    rewrite (tick_probe_next now p Hs). lia.
Qed.

(* the last step: at now = T + 750 the probe finishes - svc is among the waiting services returned and
   the records of recs that are named n become active *)
Lemma probe_step_finish rg now n T svc recs rg1 qs evs waiting :
  clean rg -> NoDup (keys (rg_probing rg)) -> hold rg n T 3 svc recs -> recs <> [] -> now = T + 750 ->
  probe_step rg now = (rg1, qs, evs, waiting) ->
  In svc waiting /\ (forall r, In r recs -> p_name r = n -> in_active rg1 r = true).
Proof.
  intros [C P] Hnd (p & G & S & X & W & R) Hne Hnow PS. unfold probe_step in PS. rewrite check_probes_spec in PS.
  set (ps' := map (fun np => (fst np, tick_probe now (snd np))) (rg_probing rg)) in *.
  set (ex := flat_map (fun np => if expires now (snd np) then [fst np] else []) (rg_probing rg)) in *.
  assert (Hx : expires now p = true) by (apply expires_iff; rewrite X, S; lia).
  assert (Hs : sends now p = false).
  { unfold sends, expires in *. destruct (probe_due (pb_next p) now); [|discriminate]. cbn [andb] in *. rewrite Hx. reflexivity. }
  assert (Hc' : clean (mkReg ps' (rg_active rg) (rg_changes rg))) by (apply clean_tick; split; assumption).
  assert (Hnd' : NoDup (keys (rg_probing (mkReg ps' (rg_active rg) (rg_changes rg))))) by (cbn [rg_probing]; unfold ps'; rewrite keys_map_snd; exact Hnd).
  assert (G' : aget n (rg_probing (mkReg ps' (rg_active rg) (rg_changes rg))) = Some p).
  { cbn [rg_probing]. unfold ps'. rewrite RegistryProofs.aget_map_snd, G. cbn [option_map]. rewrite (tick_probe_id now p Hs). reflexivity. }
  assert (Hin : In n ex) by (unfold ex; apply expired_names_iff; exists p; split; [apply aget_In; exact G|exact Hx]).
  assert (Hrec : pb_records p <> []).
  { destruct recs as [|r0 rs]; [contradiction|]. inversion R; subst. destruct (pb_records p); [discriminate|discriminate]. }
  destruct (expire_all_hit n p ex _ Hc' Hnd' Hin G' Hrec) as [HW HA].
  destruct (expire_all (mkReg ps' (rg_active rg) (rg_changes rg)) ex) as [[rg' evs'] w']. inversion PS; subst. cbn [fst snd] in *.
  split; [apply HW; exact W|]. intros r Hr Hn. apply HA; [exact Hn|exact (proj1 (Forall_forall _ _) R r Hr)].
Qed.

(* ======================================================================================================
   daemon level: the registry of interface k and the service under `key` through the quiet phases
   ====================================================================================================== *)

Definition calm_dgram (g : dgram) : Prop := g_resp g = false /\ g_ns g = [].
Definition calm_call (key : bytes) (c : call) : Prop :=
  match c with CRegister s => lower (s_full s) <> key | CMonitor | COther => True | _ => False end.
(* an iteration without conflict datagrams and without calls that touch the service under `key`, the
   interface table or the daemon's life: queries without authority records; registrations of OTHER
   services, monitor, other commands *)
Definition calm_iter (key : bytes) (it : iter) : Prop :=
  Forall calm_dgram (it_dgrams it) /\ Forall (calm_call key) (it_calls it).

Lemma announce_records_pnew rg s i v4 : rg_changes rg = [] -> forall r, In r (announce_records rg s i v4) -> p_new r = None.
Proof.
  intros C r Hr. unfold announce_records, srv_rec, txt_rec, addr_rec, with_change in Hr. rewrite C in Hr. cbn [aget] in Hr.
  destruct Hr as [<-|[<-|Hr]]; try reflexivity. apply in_map_iff in Hr as (a & <- & _). reflexivity.
Qed.

Definition svc_at (key : bytes) (s0 : svc) (svcs : list (bytes * svc)) : Prop :=
  exists s, aget key svcs = Some s /\ svc_eqv s0 s.

Lemma svc_at_sput key s0 svcs k0 s1 i x :
  svc_at key s0 svcs -> aget k0 svcs = Some s1 -> svc_at key s0 (sput k0 (set_status i x s1) svcs).
Proof.
  intros (s & G & Q) G1. unfold svc_at, sput. destruct (beq key k0) eqn:B.
  - apply beq_eq in B. subst k0. rewrite aget_aset_same. eexists. split; [reflexivity|]. rewrite G in G1. inversion G1; subst.
    eapply svc_eqv_trans; [exact Q|apply svc_eqv_status].
  - rewrite aget_aset_other; [exists s; auto|]. intros E. rewrite E, beq_refl in B. discriminate.
Qed.

Section KeepQ.
  Variable Q : registry -> Prop.
  Hypothesis Q_ipd : forall rg r svc start, p_new r = None -> Q rg -> Q (fst (is_probing_done rg r svc start)).
  Hypothesis Q_clean : forall rg, Q rg -> rg_changes rg = [].
  Variable k : N.

  Definition RK (regs : list (N * registry)) : Prop := exists rg, nget k regs = Some rg /\ Q rg.

  Lemma probe_records_Q s start : forall recs rg, (forall r, In r recs -> p_new r = None) -> Q rg -> Q (fst (probe_records rg s start recs)).
  Proof.
    induction recs as [|r t IH]; intros rg Hn H; [exact H|]. cbn [probe_records].
    assert (Ht : forall x, In x t -> p_new x = None) by (intros x Hx; apply Hn; right; exact Hx).
    destruct (s_probe s); [|apply IH; assumption].
    pose proof (Q_ipd rg r (s_full s) start (Hn r (or_introl eq_refl)) H) as H1. destruct (is_probing_done rg r (s_full s) start) as [rg1 ok].
    specialize (IH rg1 Ht H1). destruct (probe_records rg1 s start t) as [rg2 ok2]. exact IH.
  Qed.

  Lemma prepare_announce_Q s i rg v4 now js : Q rg -> Q (fst (fst (prepare_announce s i rg v4 now js))).
  Proof.
    intros H. unfold prepare_announce. destruct (addrs_on_intf s i v4); [exact H|]. destruct (draw js) as [j js'].
    pose proof (probe_records_Q s (now + j) (announce_records rg s i v4) rg (announce_records_pnew rg s i v4 (Q_clean rg H)) H) as H1.
    destruct (probe_records rg s (now + j) (announce_records rg s i v4)) as [rg' ok]. destruct ok; exact H1.
  Qed.

  Lemma announce_both_Q s i rg now js : Q rg -> Q (fst (fst (fst (announce_both s i rg now js)))).
  Proof.
    intros H. unfold announce_both. pose proof (prepare_announce_Q s i rg true now js H) as H1.
    destruct (prepare_announce s i rg true now js) as [[rg1 m4] js1]. pose proof (prepare_announce_Q s i rg1 false now js1 H1) as H2.
    destruct (prepare_announce s i rg1 false now js1) as [[rg2 m6] js2]. exact H2.
  Qed.

  Lemma register_intfs_RK now : forall ifs s regs js, RK regs -> RK (snd (fst (fst (fst (register_intfs ifs s regs now js))))).
  Proof.
    induction ifs as [|itf t IH]; intros s regs js H; [exact H|]. cbn [register_intfs].
    set (rg0 := match nget (if_index itf) regs with Some r => r | None => reg_new end).
    assert (H1 : RK (nset (if_index itf) (fst (fst (fst (announce_both s itf rg0 now js)))) regs)).
    { destruct H as (rg & G & HQ). destruct (N.eq_dec (if_index itf) k) as [E|Hne].
      - exists (fst (fst (fst (announce_both s itf rg0 now js)))). rewrite E. split; [apply nget_nset_same|].
        apply announce_both_Q. unfold rg0. rewrite E, G. exact HQ.
      - exists rg. split; [rewrite nget_nset_other by (intros E; apply Hne; symmetry; exact E); exact G|exact HQ]. }
    destruct (announce_both s itf rg0 now js) as [[[rg' os] ann] js1]. cbn [fst] in H1.
    match goal with |- context [register_intfs t ?a ?b now js1] => specialize (IH a b js1 H1); destruct (register_intfs t a b now js1) as [[[[s2 regs2] os2] anns] js2] end.
    exact IH.
  Qed.

  Lemma register_resend_RK st full i now js : RK (d_regs st) -> RK (d_regs (fst (fst (register_resend st full i now js)))).
  Proof.
    intros H. unfold register_resend. destruct (aget (lower full) (d_svcs st)) as [s|]; [|exact H].
    destruct (nget i (d_regs st)) as [rg0|] eqn:G0; [|exact H]. destruct (find_intf st i) as [itf|]; [|exact H].
    pose proof (announce_both_Q s itf rg0 now js) as HQ. destruct (announce_both s itf rg0 now js) as [[[rg' os] ann] js']. cbn [fst] in HQ.
    assert (H1 : RK (nset i rg' (d_regs st))).
    { destruct H as (rg & G & HR). destruct (N.eq_dec i k) as [->|Hne].
      - exists rg'. split; [apply nget_nset_same|]. apply HQ. rewrite G in G0. inversion G0; subst. exact HR.
      - exists rg. split; [rewrite nget_nset_other by (intros E; apply Hne; symmetry; exact E); exact G|exact HR]. }
    destruct ann; exact H1.
  Qed.

  Lemma announce_waiting_Q itf now m : forall waiting rg svcs js, Q rg ->
    Q (fst (fst (fst (fst (announce_waiting waiting itf rg svcs now js m))))).
  Proof.
    induction waiting as [|w t IH]; intros rg svcs js H; [exact H|]. cbn [announce_waiting].
    destruct (aget (lower w) svcs) as [s|]; [|apply IH; exact H]. destruct (announced_on (if_index itf) s); [apply IH; exact H|].
    pose proof (announce_both_Q s itf rg now js H) as H1. destruct (announce_both s itf rg now js) as [[[rg1 os] ann] js1]. cbn [fst] in H1.
    destruct ann.
    - specialize (IH rg1 (sput (lower w) (set_status (if_index itf) SAnnounced s) svcs) js1 H1).
      destruct (announce_waiting t itf rg1 _ now js1 m) as [[[[rg2 svcs2] os2] rt2] js2]. exact IH.
    - specialize (IH rg1 svcs js1 H1). destruct (announce_waiting t itf rg1 svcs now js1 m) as [[[[rg2 svcs2] os2] rt2] js2]. exact IH.
  Qed.

  (* ---- the state: interface k, its registry, the service under key ------------------------------------- *)
  Variable key : bytes.
  Variable s0 : svc.
  Variable itf : intf.

  Definition Kept (st : dstate) : Prop :=
    d_dead st = false /\ find_intf st k = Some itf /\ RK (d_regs st) /\ svc_at key s0 (d_svcs st).

  Lemma find_intf_ext st st' : d_intfs st' = d_intfs st -> find_intf st' k = find_intf st k.
  Proof. intros E. unfold find_intf. rewrite E. reflexivity. Qed.

  Lemma nget_nset_id {V} i (v : V) : forall l j, nget i l = Some v -> nget j (nset i v l) = nget j l.
  Proof.
    induction l as [|[i' v'] t IH]; intros j G; [discriminate|]. cbn [nget nset] in *. destruct (i =? i') eqn:E.
    - apply N.eqb_eq in E. subst i'. inversion G; subst. cbn [nget]. reflexivity.
    - cbn [nget]. destruct (j =? i'); [reflexivity|apply IH; exact G].
  Qed.

  Lemma handle_questions_id st g it0 now : g_ns g = [] -> forall qs rg, fst (fst (handle_questions st g it0 rg qs now)) = rg.
  Proof.
    intros Hn. induction qs as [|[qn qt] t IH]; intros rg; [reflexivity|]. cbn [handle_questions]. destruct (qt =? TY_PTR).
    - destruct (answer_ptr_question st g it0 rg qn). specialize (IH rg). destruct (handle_questions st g it0 rg t now) as [[rg' an2] ar2]. exact IH.
    - assert (E : tiebreak_question rg g qn qt now = rg) by (unfold tiebreak_question; rewrite Hn; rewrite andb_false_r; reflexivity).
      rewrite E. destruct (answer_instance_question st g it0 rg qn qt). specialize (IH rg).
      destruct (handle_questions st g it0 rg t now) as [[rg' an2] ar2]. exact IH.
  Qed.

  Lemma handle_dgram_Kept st g now js : calm_dgram g -> Kept st -> Kept (fst (fst (handle_dgram st g now js))).
  Proof.
    intros [Hr Hn] (D & F & R & S). unfold handle_dgram. destruct (find_intf st (g_if g)); [|repeat split; assumption].
    destruct (negb (intf_has_family i (g_v4 g))); [repeat split; assumption|]. rewrite Hr. unfold handle_query.
    destruct (nget (g_if g) (d_regs st)) as [rg|] eqn:G; [|repeat split; assumption].
    destruct (find_intf st (g_if g)) as [it0|]; [|repeat split; assumption].
    pose proof (handle_questions_id st g it0 now Hn (g_q g) rg) as E.
    destruct (handle_questions st g it0 rg (g_q g) now) as [[rg' an] ar]. cbn [fst] in E. subst rg'.
    assert (K : Kept (mkD (d_intfs st) (nset (g_if g) rg (d_regs st)) (d_svcs st) (d_retrans st) (d_mon st) (d_dead st) (d_os st) (d_sel st))).
    { split; [exact D|]. split; [exact F|]. split; [|exact S]. destruct R as (r0 & G0 & H0). exists r0. cbn [d_regs].
      rewrite (nget_nset_id _ _ _ k G). split; assumption. }
    destruct an; exact K.
  Qed.

  Lemma handle_dgrams_Kept now : forall gs st js, Forall calm_dgram gs -> Kept st -> Kept (fst (fst (handle_dgrams st gs now js))).
  Proof.
    induction gs as [|g t IH]; intros st js Hc H; [exact H|]. cbn [handle_dgrams]. inversion Hc; subst.
    pose proof (handle_dgram_Kept st g now js H2 H) as H1. destruct (handle_dgram st g now js) as [[st1 os1] js1]. cbn [fst] in H1.
    specialize (IH st1 js1 H3 H1). destruct (handle_dgrams st1 t now js1) as [[st2 os2] js2]. exact IH.
  Qed.

  Lemma register_service_Kept st s now js : lower (s_full s) <> key -> Kept st -> Kept (fst (fst (register_service st s now js))).
  Proof.
    intros Hk (D & F & R & S). unfold register_service.
    pose proof (register_intfs_RK now (d_intfs st) (auto_addrs st s) (d_regs st) js R) as R1.
    destruct (register_intfs (d_intfs st) (auto_addrs st s) (d_regs st) now js) as [[[[s' regs] os] anns] js']. cbn [fst snd] in *.
    split; [exact D|]. split; [exact F|]. split; [exact R1|]. cbn [d_svcs]. destruct S as (s1 & G & E). exists s1. split; [|exact E].
    rewrite aget_sput_other; [exact G|]. rewrite auto_addrs_full. intros X. apply Hk. symmetry. exact X.
  Qed.

  Lemma exec_calls_Kept now : forall cs st js, Forall (calm_call key) cs -> Kept st -> Kept (fst (fst (exec_calls st cs now js))).
  Proof.
    induction cs as [|c t IH]; intros st js Hc H; [exact H|]. cbn [exec_calls]. inversion Hc; subst.
    assert (H1 : Kept (fst (fst (fst (exec_call st c now js)))) /\ snd (exec_call st c now js) = false).
    { destruct c; cbn [calm_call] in H2; try contradiction; cbn [exec_call].
      - pose proof (register_service_Kept st s now js H2 H) as K. destruct (register_service st s now js) as [[st1 os1] js1]. split; [exact K|reflexivity].
      - destruct H as (D & F & R & S). split; [repeat split; assumption|reflexivity].
      - split; [exact H|reflexivity]. }
    destruct (exec_call st c now js) as [[[st1 os1] js1] stop]. cbn [fst snd] in H1. destruct H1 as [K ->].
    specialize (IH st1 js1 H3 K). destruct (exec_calls st1 t now js1) as [[st2 os2] js2]. exact IH.
  Qed.

  Lemma register_resend_Kept st full i now js : Kept st -> Kept (fst (fst (register_resend st full i now js))).
  Proof.
    intros H. pose proof (register_resend_RK st full i now js (proj1 (proj2 (proj2 H)))) as R1.
    pose proof (register_resend_intfs st full i now js) as EI. destruct H as (D & F & R & S).
    assert (Dd : d_dead (fst (fst (register_resend st full i now js))) = d_dead st /\ svc_at key s0 (d_svcs (fst (fst (register_resend st full i now js))))).
    { unfold register_resend. destruct (aget (lower full) (d_svcs st)) as [s|] eqn:G; [|split; [reflexivity|exact S]].
      destruct (nget i (d_regs st)); [|split; [reflexivity|exact S]]. destruct (find_intf st i); [|split; [reflexivity|exact S]].
      destruct (announce_both s i0 r now js) as [[[rg' os] ann] js']. destruct ann; cbn [fst d_dead d_svcs]; split; try reflexivity; [|exact S].
      apply svc_at_sput; assumption. }
    destruct Dd as [Dd S1]. split; [rewrite Dd; exact D|]. split; [rewrite (find_intf_ext _ _ EI); exact F|]. split; assumption.
  Qed.

  Lemma run_due_Kept now : forall due st js, Kept st -> Kept (fst (fst (run_due st due now js))).
  Proof.
    induction due as [|[t c] due IH]; intros st js H; [exact H|]. cbn [run_due]. destruct c.
    - pose proof (register_resend_Kept st full ifidx now js H) as H1. destruct (register_resend st full ifidx now js) as [[st1 os1] js1].
      specialize (IH st1 js1 H1). destruct (run_due st1 due now js1) as [[st2 os2] js2]. exact IH.
    - specialize (IH st js H). destruct (run_due st due now js) as [[st2 os2] js2]. exact IH.
  Qed.

  Lemma retransmit_Kept st now js : Kept st -> Kept (fst (fst (retransmit st now js))).
  Proof. intros H. unfold retransmit. apply run_due_Kept. destruct H as (D & F & R & S). repeat split; assumption. Qed.
End KeepQ.

(* ======================================================================================================
   the probing pass, the iteration, the history
   ====================================================================================================== *)

(* the service under key is Announced on interface k *)
Definition Done (k : N) (key : bytes) (svcs : list (bytes * svc)) : Prop :=
  exists s, aget key svcs = Some s /\ announced_on k s = true.

Lemma announced_set_status k i s : announced_on k s = true -> announced_on k (set_status i SAnnounced s) = true.
Proof.
  unfold announced_on, set_status. cbn [s_status]. intros H. destruct (N.eq_dec k i) as [->|Hne]; [rewrite nget_nset_same; reflexivity|].
  rewrite nget_nset_other by exact Hne. exact H.
Qed.

Lemma Done_sput k key svcs k0 s1 i : Done k key svcs -> aget k0 svcs = Some s1 -> Done k key (sput k0 (set_status i SAnnounced s1) svcs).
Proof.
  intros (s & G & A) G1. unfold Done, sput. destruct (beq key k0) eqn:B.
  - apply beq_eq in B. subst k0. rewrite aget_aset_same. eexists. split; [reflexivity|]. rewrite G in G1. inversion G1; subst. apply announced_set_status. exact A.
  - rewrite aget_aset_other; [exists s; auto|]. intros E. rewrite E, beq_refl in B. discriminate.
Qed.

Lemma announce_waiting_svcs itf now m (P : list (bytes * svc) -> Prop) :
  (forall svcs k0 s1, P svcs -> aget k0 svcs = Some s1 -> P (sput k0 (set_status (if_index itf) SAnnounced s1) svcs)) ->
  forall waiting rg svcs js, P svcs -> P (snd (fst (fst (fst (announce_waiting waiting itf rg svcs now js m))))).
Proof.
  intros HP. induction waiting as [|w t IH]; intros rg svcs js H; [exact H|]. cbn [announce_waiting].
  destruct (aget (lower w) svcs) as [s|] eqn:G; [|apply IH; exact H]. destruct (announced_on (if_index itf) s); [apply IH; exact H|].
  destruct (announce_both s itf rg now js) as [[[rg1 os] ann] js1]. destruct ann.
  - specialize (IH rg1 _ js1 (HP svcs (lower w) s H G)). destruct (announce_waiting t itf rg1 _ now js1 m) as [[[[rg2 svcs2] os2] rt2] js2]. exact IH.
  - specialize (IH rg1 svcs js1 H). destruct (announce_waiting t itf rg1 svcs now js1 m) as [[[[rg2 svcs2] os2] rt2] js2]. exact IH.
Qed.

(* passes over interfaces other than k leave the registry of k alone and keep the service *)
Lemma probing_intfs_other (Q : registry -> Prop) (Q_ipd : forall rg r svc start, p_new r = None -> Q rg -> Q (fst (is_probing_done rg r svc start)))
      (k : N) (key : bytes) (s0 : svc) (itf : intf) (now : N) : forall ifs st js, ~ In k (map if_index ifs) ->
  (Kept Q k key s0 itf st -> Kept Q k key s0 itf (fst (fst (probing_intfs ifs st now js)))) /\
  (Done k key (d_svcs st) -> Done k key (d_svcs (fst (fst (probing_intfs ifs st now js))))).
Proof.
  induction ifs as [|i0 t IH]; intros st js Hk; [split; auto|]. cbn [probing_intfs].
  assert (Hne : k <> if_index i0) by (intros E; apply Hk; left; symmetry; exact E).
  assert (Hk' : ~ In k (map if_index t)) by (intros H; apply Hk; right; exact H).
  destruct (nget (if_index i0) (d_regs st)) as [rg|]; [|apply IH; exact Hk'].
  destruct (probe_step rg now) as [[[rg1 qs] evs] waiting].
  pose proof (announce_waiting_svcs i0 now (d_mon st) (svc_at key s0) (fun svcs k0 s1 H G => svc_at_sput key s0 svcs k0 s1 _ _ H G) waiting rg1 (d_svcs st) js) as SA.
  pose proof (announce_waiting_svcs i0 now (d_mon st) (Done k key) (fun svcs k0 s1 H G => Done_sput k key svcs k0 s1 _ H G) waiting rg1 (d_svcs st) js) as SD.
  destruct (announce_waiting waiting i0 rg1 (d_svcs st) now js (d_mon st)) as [[[[rg2 svcs2] os2] rt2] js2]. cbn [fst snd] in SA, SD.
  match goal with |- context [probing_intfs t ?s1 now js2] => destruct (IH s1 js2 Hk') as [IK ID]; destruct (probing_intfs t s1 now js2) as [[st2 os3] js3] end.
  cbn [fst] in *. split.
  - intros (D & F & (r0 & G0 & H0) & S). apply IK. split; [exact D|]. split; [exact F|]. split; [|apply SA; exact S].
    exists r0. cbn [d_regs]. rewrite nget_nset_other by exact Hne. split; assumption.
  - intros HD. apply ID. cbn [d_svcs]. apply SD. exact HD.
Qed.

Lemma probing_cons_state i0 t st now js :
  fst (fst (probing_intfs (i0 :: t) st now js))
  = fst (fst (probing_intfs t (fst (fst (probing_intfs [i0] st now js))) now (snd (probing_intfs [i0] st now js)))).
Proof.
  cbn [probing_intfs]. destruct (nget (if_index i0) (d_regs st)) as [rg|]; [|reflexivity].
  destruct (probe_step rg now) as [[[rg1 qs] evs] waiting].
  destruct (announce_waiting waiting i0 rg1 (d_svcs st) now js (d_mon st)) as [[[[rg2 svcs2] os2] rt2] js2]. cbn [fst snd].
  match goal with |- context [probing_intfs t ?s1 now js2] => destruct (probing_intfs t s1 now js2) as [[st2 os3] js3] end. reflexivity.
Qed.

(* ---- the concrete invariant for one service on one interface and family ------------------------------------ *)

Definition ARI (s0 : svc) : list prec := [srv_rec reg_new s0; txt_rec reg_new s0].
Definition ARH (s0 : svc) (itf : intf) (v4 : bool) : list prec := map (addr_rec reg_new s0 itf) (addrs_on_intf s0 itf v4).

(* phase j of both probes (instance name and host name), started together at T *)
Definition Qj (s0 : svc) (itf : intf) (v4 : bool) (T : N) (j : nat) (rg : registry) : Prop :=
  clean rg /\ NoDup (keys (rg_probing rg)) /\
  hold rg (s_full s0) T j (s_full s0) (ARI s0) /\ hold rg (s_host s0) T j (s_full s0) (ARH s0 itf v4).

Lemma Qj_ipd s0 itf v4 T j rg r svc start : p_new r = None -> Qj s0 itf v4 T j rg -> Qj s0 itf v4 T j (fst (is_probing_done rg r svc start)).
Proof.
  intros Hn (C & Hnd & H1 & H2). split; [apply ipd_clean; assumption|]. split; [apply (ipd_nodup rg r svc start (N.le_0_l _) Hnd)|].
  split; apply ipd_hold; assumption.
Qed.
Lemma Qj_clean s0 itf v4 T j rg : Qj s0 itf v4 T j rg -> rg_changes rg = [].
Proof. intros ((C & _) & _). exact C. Qed.

Lemma announce_records_clean rg s0 s itf v4 :
  rg_changes rg = [] -> svc_eqv s0 s -> announce_records rg s itf v4 = ARI s0 ++ ARH s0 itf v4.
Proof.
  intros C Q. rewrite (announce_records_eqv rg s0 s itf v4 Q). rewrite (announce_records_stable reg_new rg s0 itf v4 C). reflexivity.
Qed.

(* the probing pass over interface k itself *)
Lemma pass_k s0 itf v4 T j key now st js :
  let k := if_index itf in
  key = lower (s_full s0) -> s_probe s0 = true -> addrs_on_intf s0 itf v4 <> [] ->
  Kept (Qj s0 itf v4 T j) k key s0 itf st ->
  let st' := fst (fst (probing_intfs [itf] st now js)) in
  (now < T + 250 * N.of_nat j -> Kept (Qj s0 itf v4 T j) k key s0 itf st') /\
  (now = T + 250 * N.of_nat j -> (j < 3)%nat -> Kept (Qj s0 itf v4 T (S j)) k key s0 itf st') /\
  (now = T + 250 * N.of_nat j -> j = 3%nat -> Done k key (d_svcs st')).
Proof.
  intros k Hkey Hp Ha (D & F & (rg & G & (C & Hnd & HI & HH)) & S). cbn [probing_intfs]. fold k. rewrite G.
  destruct (probe_step rg now) as [[[rg1 qs] evs] waiting] eqn:PS.
  destruct (probe_step_general rg now C Hnd) as (C1 & N1 & M1). rewrite PS in C1, N1, M1. cbn [fst] in C1, N1, M1.
  pose proof (probe_step_hold rg now _ T j _ _ rg1 qs evs waiting Hnd HI PS) as [HI1 HI2].
  pose proof (probe_step_hold rg now _ T j _ _ rg1 qs evs waiting Hnd HH PS) as [HH1 HH2].
  pose proof (announce_waiting_svcs itf now (d_mon st) (svc_at key s0) (fun svcs k0 s1 H G0 => svc_at_sput key s0 svcs k0 s1 _ _ H G0) waiting rg1 (d_svcs st) js S) as SA.
  assert (KQ : forall j', Qj s0 itf v4 T j' rg1 ->
            Kept (Qj s0 itf v4 T j') k key s0 itf (fst (fst (probing_intfs [itf] st now js)))).
  { intros j' HQ. cbn [probing_intfs]. fold k. rewrite G, PS.
    pose proof (announce_waiting_Q (Qj s0 itf v4 T j') (Qj_ipd s0 itf v4 T j') (Qj_clean s0 itf v4 T j') itf now (d_mon st) waiting rg1 (d_svcs st) js HQ) as HQ2.
    destruct (announce_waiting waiting itf rg1 (d_svcs st) now js (d_mon st)) as [[[[rg2 svcs2] os2] rt2] js2]. cbn [fst snd] in *.
    split; [exact D|]. split; [exact F|]. split; [exists rg2; cbn [d_regs]; split; [apply nget_nset_same|exact HQ2]|exact SA]. }
  cbn [probing_intfs] in KQ. fold k in KQ. rewrite G, PS in KQ.
  split; [|split].
  - intros Hlt. apply KQ. destruct (HI1 Hlt) as [A _], (HH1 Hlt) as [B _]. split; [exact C1|split; [exact N1|split; assumption]].
  - intros He Hj. apply KQ. destruct (HI2 He Hj) as [A _], (HH2 He Hj) as [B _]. split; [exact C1|split; [exact N1|split; assumption]].
  - intros He Hj. subst j.
    assert (Hnow : now = T + 750) by (rewrite He; reflexivity).
    assert (NEI : ARI s0 <> []) by discriminate.
    assert (NEH : ARH s0 itf v4 <> []) by (unfold ARH; destruct (addrs_on_intf s0 itf v4); [contradiction|discriminate]).
    destruct (probe_step_finish rg now _ T _ _ rg1 qs evs waiting C Hnd HI NEI Hnow PS) as [W1 A1].
    destruct (probe_step_finish rg now _ T _ _ rg1 qs evs waiting C Hnd HH NEH Hnow PS) as [_ A2].
    destruct S as (s & GS & QS).
    destruct (announced_on k s) eqn:AN.
    + (* already announced: it stays *)
      pose proof (announce_waiting_svcs itf now (d_mon st) (Done k key) (fun svcs k0 s1 H G0 => Done_sput k key svcs k0 s1 _ H G0) waiting rg1 (d_svcs st) js (ex_intro _ s (conj GS AN))) as SD.
      destruct (announce_waiting waiting itf rg1 (d_svcs st) now js (d_mon st)) as [[[[rg2 svcs2] os2] rt2] js2]. exact SD.
    + assert (AB : announceable s itf rg1 v4).
      { split; [destruct QS as [(_ & _ & _ & _ & _ & _ & E) _]; unfold addrs_on_intf in *; rewrite <- E; exact Ha|]. right.
        rewrite (announce_records_clean rg1 s0 s itf v4 (proj1 C1) QS). apply Forall_app. split; apply Forall_forall; intros r Hr.
        - apply A1; [exact Hr|]. destruct Hr as [<-|[<-|[]]]; reflexivity.
        - apply A2; [exact Hr|]. unfold ARH in Hr. apply in_map_iff in Hr as (a & <- & _). reflexivity. }
      rewrite Hkey in GS.
      pose proof (announce_waiting_completes itf now (d_mon st) v4 waiting rg1 (d_svcs st) js (s_full s0) s W1 GS AN AB) as H.
      destruct (announce_waiting waiting itf rg1 (d_svcs st) now js (d_mon st)) as [[[[rg2 svcs2] os2] rt2] js2]. cbn [fst snd d_svcs].
      destruct H as (_ & H2 & _). rewrite Hkey. exact H2.
Qed.

(* the whole probing handler: interface k is passed exactly once *)
Lemma probing_at s0 itf v4 T j key now : forall ifs st js,
  let k := if_index itf in
  key = lower (s_full s0) -> s_probe s0 = true -> addrs_on_intf s0 itf v4 <> [] ->
  NoDup (map if_index ifs) -> find (fun x => if_index x =? k) ifs = Some itf ->
  Kept (Qj s0 itf v4 T j) k key s0 itf st ->
  let st' := fst (fst (probing_intfs ifs st now js)) in
  (now < T + 250 * N.of_nat j -> Kept (Qj s0 itf v4 T j) k key s0 itf st') /\
  (now = T + 250 * N.of_nat j -> (j < 3)%nat -> Kept (Qj s0 itf v4 T (S j)) k key s0 itf st') /\
  (now = T + 250 * N.of_nat j -> j = 3%nat -> Done k key (d_svcs st')).
Proof.
  induction ifs as [|i0 t IH]; intros st js k Hkey Hp Ha Hnd Hf HK; [discriminate|].
  cbn [map] in Hnd. apply NoDup_cons_iff in Hnd as [Hnotin Hnd']. cbn [find] in Hf.
  cbv zeta. rewrite probing_cons_state.
  destruct (if_index i0 =? k) eqn:E.
  - assert (Ei : i0 = itf) by (inversion Hf; reflexivity). subst i0.
    destruct (pass_k s0 itf v4 T j key now st js Hkey Hp Ha HK) as (P1 & P2 & P3).
    set (st1 := fst (fst (probing_intfs [itf] st now js))) in *. set (js1 := snd (probing_intfs [itf] st now js)).
    split; [|split].
    + intros Hlt. exact (proj1 (probing_intfs_other _ (Qj_ipd s0 itf v4 T j) k key s0 itf now t st1 js1 Hnotin) (P1 Hlt)).
    + intros He Hj. exact (proj1 (probing_intfs_other _ (Qj_ipd s0 itf v4 T (S j)) k key s0 itf now t st1 js1 Hnotin) (P2 He Hj)).
    + intros He Hj. exact (proj2 (probing_intfs_other _ (Qj_ipd s0 itf v4 T j) k key s0 itf now t st1 js1 Hnotin) (P3 He Hj)).
  - apply N.eqb_neq in E.
    assert (Hk0 : ~ In k (map if_index [i0])) by (intros [H|[]]; apply E; exact H).
    pose proof (proj1 (probing_intfs_other _ (Qj_ipd s0 itf v4 T j) k key s0 itf now [i0] st js Hk0) HK) as HK1.
    exact (IH _ _ Hkey Hp Ha Hnd' Hf HK1).
Qed.

Lemma calm_call_no_ifsel key c : calm_call key c -> no_ifsel c.
Proof. destruct c; cbn; auto. Qed.

(* ONE CALM ITERATION *)
Lemma calm_iteration s0 itf v4 T j key st it st' os js :
  let k := if_index itf in
  key = lower (s_full s0) -> s_probe s0 = true -> addrs_on_intf s0 itf v4 <> [] ->
  NoDup (map if_index (d_intfs st)) -> calm_iter key it -> iterate st it = (st', os, Running, js) ->
  Kept (Qj s0 itf v4 T j) k key s0 itf st ->
  d_intfs st' = d_intfs st /\
  (it_now it < T + 250 * N.of_nat j -> Kept (Qj s0 itf v4 T j) k key s0 itf st') /\
  (it_now it = T + 250 * N.of_nat j -> (j < 3)%nat -> Kept (Qj s0 itf v4 T (S j)) k key s0 itf st') /\
  (it_now it = T + 250 * N.of_nat j -> j = 3%nat -> Done k key (d_svcs st')).
Proof.
  intros k Hkey Hp Ha Hnd [Hcd Hcc] Hit HK. unfold iterate in Hit. rewrite (proj1 HK) in Hit. set (now := it_now it) in *.
  set (gs := filter (fun g => g_v4 g) (it_dgrams it) ++ filter (fun g => negb (g_v4 g)) (it_dgrams it)) in *.
  assert (Hg : Forall calm_dgram gs).
  { apply Forall_app. split; apply Forall_forall; intros g Hg; apply filter_In in Hg as [Hg _]; exact (proj1 (Forall_forall _ _) Hcd g Hg). }
  pose proof (handle_dgrams_Kept (Qj s0 itf v4 T j) k key s0 itf now gs st (it_jitter it) Hg HK) as K1.
  pose proof (handle_dgrams_intfs now gs st (it_jitter it)) as F1.
  destruct (handle_dgrams st gs now (it_jitter it)) as [[st1 os1] js1]. cbn [fst] in K1, F1.
  pose proof (exec_calls_Kept _ (Qj_ipd s0 itf v4 T j) (Qj_clean s0 itf v4 T j) k key s0 itf now (it_calls it) st1 js1 Hcc K1) as K2.
  assert (Hni : Forall no_ifsel (it_calls it)) by (apply Forall_forall; intros c Hc; apply (calm_call_no_ifsel key); exact (proj1 (Forall_forall _ _) Hcc c Hc)).
  pose proof (exec_calls_intfs now (it_calls it) st1 js1 Hni) as F2.
  destruct (exec_calls st1 (it_calls it) now js1) as [[st2 os2] js2]. cbn [fst] in K2, F2.
  rewrite (proj1 K2) in Hit.
  pose proof (retransmit_Kept _ (Qj_ipd s0 itf v4 T j) (Qj_clean s0 itf v4 T j) k key s0 itf st2 now js2 K2) as K3.
  pose proof (retransmit_intfs st2 now js2) as F3.
  destruct (retransmit st2 now js2) as [[st3 os3] js3]. cbn [fst] in K3, F3.
  assert (Hnd3 : NoDup (map if_index (d_intfs st3))) by (rewrite F3, F2, F1; exact Hnd).
  pose proof (probing_at s0 itf v4 T j key now (d_intfs st3) st3 js3 Hkey Hp Ha Hnd3 (proj1 (proj2 K3)) K3) as PA.
  pose proof (probing_intfs_intfs now (d_intfs st3) st3 js3) as F4. unfold probing_handler in Hit.
  destruct (probing_intfs (d_intfs st3) st3 now js3) as [[st4 os4] js4]. cbn [fst] in PA, F4.
  destruct (cut_at_panic (os1 ++ os2 ++ os3 ++ os4)) as [o p]. destruct p; [discriminate|]. inversion Hit; subst.
  split; [congruence|exact PA].
Qed.

(* ---- histories -------------------------------------------------------------------------------------------------- *)

(* every iteration leaves the daemon running (no name in any packet is too long to be written) *)
Fixpoint all_running (st : dstate) (its : list iter) : Prop :=
  match its with
  | [] => True
  | it :: t => snd (fst (iterate st it)) = Running /\ all_running (fst (fst (fst (iterate st it)))) t
  end.

(* NEVER LATE: every iteration happens no later than the due work of the state it starts from *)
Fixpoint never_late (st : dstate) (its : list iter) : Prop :=
  match its with
  | [] => True
  | it :: t => (forall d, due_work st = Some d -> it_now it <= d) /\ never_late (fst (fst (fst (iterate st it)))) t
  end.

Lemma Kept_due s0 itf v4 T j key st :
  Kept (Qj s0 itf v4 T j) (if_index itf) key s0 itf st -> exists d, due_work st = Some d /\ d <= T + 250 * N.of_nat j.
Proof.
  intros (_ & _ & (rg & G & (_ & _ & (p & Gp & _ & X & _) & _)) & _).
  destruct (due_work_covers_probe st (if_index itf) rg (s_full s0) p G (aget_In _ _ _ Gp)) as (d & E & L). exists d. split; [exact E|lia].
Qed.

Theorem reaches_announced_gen s0 itf v4 T key :
  key = lower (s_full s0) -> s_probe s0 = true -> addrs_on_intf s0 itf v4 <> [] ->
  forall its st j, (j <= 3)%nat ->
  NoDup (map if_index (d_intfs st)) -> Kept (Qj s0 itf v4 T j) (if_index itf) key s0 itf st ->
  Forall (calm_iter key) its -> all_running st its -> never_late st its ->
  (exists pre it post, its = pre ++ it :: post /\ it_now it = T + 750 /\
                       Done (if_index itf) key (d_svcs (run_state st (pre ++ [it])))) \/
  (exists j', (j <= j' <= 3)%nat /\ Kept (Qj s0 itf v4 T j') (if_index itf) key s0 itf (run_state st its) /\
              Forall (fun it => it_now it < T + 250 * N.of_nat j') its).
Proof.
  intros Hkey Hp Ha. induction its as [|it rest IH]; intros st j Hj Hnd HK Hc Hr Hl.
  - right. exists j. split; [lia|]. split; [exact HK|constructor].
  - apply Forall_cons_iff in Hc as [Hci Hcr]. cbn [all_running never_late] in Hr, Hl. destruct Hr as [Hr1 Hr2], Hl as [Hl1 Hl2].
    destruct (Kept_due s0 itf v4 T j key st HK) as (d & Ed & Ld). pose proof (Hl1 d Ed) as Hle.
    destruct (iterate st it) as [[[st1 os1] e1] js1] eqn:Hit. cbn [fst snd] in *. subst e1.
    destruct (calm_iteration s0 itf v4 T j key st it st1 os1 js1 Hkey Hp Ha Hnd Hci Hit HK) as (EI & C1 & C2 & C3).
    assert (Hnd1 : NoDup (map if_index (d_intfs st1))) by (rewrite EI; exact Hnd).
    assert (RS : forall l, run_state st (it :: l) = run_state st1 l) by (intros l; cbn [run_state]; rewrite Hit; reflexivity).
    destruct (N.eq_dec (it_now it) (T + 250 * N.of_nat j)) as [He|Hne].
    + destruct (PeanoNat.Nat.eq_dec j 3) as [->|Hj3].
      * left. exists [], it, rest. split; [reflexivity|]. split; [rewrite He; reflexivity|]. cbn [app]. rewrite RS. cbn [run_state]. exact (C3 He eq_refl).
      * assert (Hlt : (j < 3)%nat) by lia.
        destruct (IH st1 (S j) ltac:(lia) Hnd1 (C2 He Hlt) Hcr Hr2 Hl2) as [(pre & it' & post & E & Et & HD)|(j' & Hj' & HK' & HF)].
        -- left. exists (it :: pre), it', post. split; [rewrite E; reflexivity|]. split; [exact Et|]. cbn [app]. rewrite RS. exact HD.
        -- right. exists j'. split; [lia|]. split; [rewrite RS; exact HK'|]. constructor; [|exact HF]. rewrite He. assert (B : N.of_nat (S j) <= N.of_nat j') by lia. nia.
    + assert (Hlt : it_now it < T + 250 * N.of_nat j) by lia.
      destruct (IH st1 j Hj Hnd1 (C1 Hlt) Hcr Hr2 Hl2) as [(pre & it' & post & E & Et & HD)|(j' & Hj' & HK' & HF)].
      * left. exists (it :: pre), it', post. split; [rewrite E; reflexivity|]. split; [exact Et|]. cbn [app]. rewrite RS. exact HD.
      * right. exists j'. split; [lia|]. split; [rewrite RS; exact HK'|]. constructor; [|exact HF]. assert (B : N.of_nat j <= N.of_nat j') by lia. nia.
Qed.

(* REACHES ANNOUNCED: from the state a registration leaves behind - both probes of the service on the
   interface in their initial state, started at T -, through any history of calm iterations that is
   never late and in which the daemon keeps running: if the history goes on until T + 750, there is an
   iteration at exactly T + 750 after which the service is Announced on the interface *)
Theorem reaches_announced s0 itf v4 T key st its :
  key = lower (s_full s0) -> s_probe s0 = true -> addrs_on_intf s0 itf v4 <> [] ->
  NoDup (map if_index (d_intfs st)) -> Kept (Qj s0 itf v4 T 0) (if_index itf) key s0 itf st ->
  Forall (calm_iter key) its -> all_running st its -> never_late st its ->
  (exists it, In it its /\ T + 750 <= it_now it) ->
  exists pre it post, its = pre ++ it :: post /\ it_now it = T + 750 /\
                      Done (if_index itf) key (d_svcs (run_state st (pre ++ [it]))).
Proof.
  intros Hkey Hp Ha Hnd HK Hc Hr Hl (it0 & Hin & Hge).
  destruct (reaches_announced_gen s0 itf v4 T key Hkey Hp Ha its st 0%nat ltac:(lia) Hnd HK Hc Hr Hl) as [H|(j' & Hj' & _ & HF)]; [exact H|].
  exfalso. pose proof (proj1 (Forall_forall _ _) HF it0 Hin) as Hlt. cbv beta in Hlt. assert (B : N.of_nat j' <= 3) by lia. nia.
Qed.
