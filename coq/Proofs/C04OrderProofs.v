(* C04, clause F at history level: on the model's own trace the checker viol_C04 never reports
   F04_order - every ServiceResolved on a channel comes after a ServiceFound for that instance on
   that channel - for every history in which time does not run backwards and that is outside
   the class known_browse_expiring.

   Invariant FI: for every browsed type (on channel ch) every PTR record of that type in the
   cache either has been announced on ch (the checker's `found` list) or has TTL <= 1.  A PTR
   record with TTL <= 1 expires within a second (C03 invariant), so it is never used for a
   ServiceResolved; a record that is written over with TTL > 1 is revived and announced. *)
From Coq Require Import List NArith Bool Lia.
From Mdns Require Import Res Bytes Rec Wire Txt ParamsBrowser ParamsBrowserPinned Cache Browser C03Spec BrowserSpec
  BrowserKnown CacheProofs CacheInvProofs BrowserProofs BrowserStepProofs SpecTrackProofs C05SafetyProofs
  C04StepProofs AouCasesProofs.
Import ListNotations.
Open Scope N_scope.

Definition FI (c : cache) (q : list (bytes * N)) (F : list (N * bytes)) : Prop :=
  forall ty ch b p, q_get ty q = Some ch -> In (ty, b) (c_ptr c) -> In p b ->
    In (ch, alias_of (e_rr p)) F \/ e_ttl p <= 1.

Lemma FI_mono c q F F' : incl F F' -> FI c q F -> FI c q F'.
Proof. intros Hi H ty ch b p A B C. destruct (H ty ch b p A B C); auto. Qed.

Lemma FI_shrinks c c' q F : shrinks_to c c' -> FI c q F -> FI c' q F.
Proof.
  intros Hs H ty ch b' p' A B C. destruct (Hs KPtr ty b' p' B C) as (b & p & Hb & Hp & (S1 & _)).
  unfold e_ttl. rewrite S1. apply (H ty ch b p A Hb Hp).
Qed.

(* ---- the checker's view: Found events seen so far ---------------------------------------------------- *)

Definition founds (o : list out) : list (N * bytes) :=
  flat_map (fun x => match x with OEvt c (EFound _ i) => [(c, i)] | _ => [] end) o.

Lemma founds_app a b : founds (a ++ b) = founds a ++ founds b.
Proof. unfold founds. apply flat_map_app. Qed.

Fixpoint order_ok (F : list (N * bytes)) (o : list out) : Prop :=
  match o with
  | [] => True
  | x :: t =>
    match x with OEvt c (EResolved r) => In (c, rs_name r) F | _ => True end
    /\ order_ok (F ++ founds [x]) t
  end.

Lemma order_ok_mono o : forall F F', incl F F' -> order_ok F o -> order_ok F' o.
Proof.
  induction o as [|x t IH]; intros F F' Hi; simpl; [auto|]. intros [A B]. split.
  - destruct x as [c [ | r | ]| |]; auto.
  - apply (IH (F ++ founds [x])); [|exact B]. apply incl_app; [apply incl_appl; exact Hi|apply incl_appr, incl_refl].
Qed.

Lemma order_ok_app a : forall F b, order_ok F a -> order_ok (F ++ founds a) b -> order_ok F (a ++ b).
Proof.
  induction a as [|x t IH]; intros F b Ha Hb.
  - simpl in *. now rewrite app_nil_r in Hb.
  - simpl in Ha |- *. destruct Ha as [A B]. split; [exact A|]. apply IH; [exact B|].
    change (x :: t) with ([x] ++ t) in Hb. rewrite founds_app, app_assoc in Hb. exact Hb.
Qed.

Lemma founds_nil o :
  (forall x, In x o -> match x with OEvt _ (EFound _ _) => False | _ => True end) -> founds o = [].
Proof.
  induction o as [|x t IH]; intros H; [reflexivity|]. change (x :: t) with ([x] ++ t). rewrite founds_app.
  rewrite IH by (intros y Hy; apply H; now right).
  specialize (H x (or_introl eq_refl)). destruct x as [c [ | r | ]| |]; simpl in *; auto; contradiction.
Qed.

(* outputs without ServiceFound whose ServiceResolved are all announced *)
Lemma order_ok_resolved F o :
  (forall x, In x o -> match x with OEvt c (EResolved r) => In (c, rs_name r) F | _ => True end) ->
  order_ok F o.
Proof.
  revert F. induction o as [|x t IH]; intros F H; simpl; [exact I|]. split; [apply H; now left|].
  apply IH. intros y Hy. specialize (H y (or_intror Hy)).
  destruct y as [c [ | r | ]| |]; auto. apply in_app_iff. now left.
Qed.

Definition quiet (x : out) : Prop :=
  match x with OEvt _ (EFound _ _) => False | OEvt _ (EResolved _) => False | _ => True end.

Lemma quiet_order F o : Forall quiet o -> order_ok F o /\ founds o = [].
Proof.
  intros H. split.
  - apply order_ok_resolved. intros x Hx. rewrite Forall_forall in H. specialize (H x Hx).
    destruct x as [c [ | r | ]| |]; simpl in *; auto; contradiction.
  - induction H as [|x t Hx Ht IH]; [reflexivity|]. change (x :: t) with ([x] ++ t). rewrite founds_app, IH, app_nil_r.
    destruct x as [c [ | r | ]| |]; simpl in *; auto; contradiction.
Qed.

Lemma found_only_order F o : Forall only_found o -> order_ok F o.
Proof.
  intros H. apply order_ok_resolved. intros x Hx. rewrite Forall_forall in H. specialize (H x Hx).
  destruct x as [c [ | r | ]| |]; simpl in *; auto; contradiction.
Qed.

(* ---- a PTR record with TTL <= 1 expires within a second ---------------------------------------------- *)

Lemma ttl1_soon L k key e now :
  entry_ok L k key e -> times_le L now -> e_ttl e <= 1 -> expires_soon e now = true.
Proof.
  intros (_ & _ & L1 & d & L2 & HL & _ & Ht & _ & _ & Hexp & _) Htimes Httl.
  destruct (expires_soon e now) eqn:E; [reflexivity|]. apply expires_soon_false in E.
  assert (dl_t d <= now) by (apply Htimes; rewrite HL; apply in_app_iff; right; now left).
  nia.
Qed.

(* ---- add_or_update / hr_records ------------------------------------------------------------------------ *)

Definition found_of (q : list (bytes * N)) (res : option (entry * bool)) : list out :=
  match res with
  | Some (e, true) =>
    if (e_type e =? TY_PTR) && found_ttl_guard (e_ttl e)
    then match q_get (e_name e) q with
         | Some ch => [OEvt ch (EFound (e_name e) (alias_of (e_rr e)))]
         | None => []
         end
    else []
  | _ => []
  end.

Lemma aou_FI c now ifx r fu q F :
  FI c q F ->
  FI (fst (add_or_update c now ifx r fu)) q (F ++ founds (found_of q (snd (add_or_update c now ifx r fu)))).
Proof.
  intros H ty ch b' p' Hq Hb Hp.
  destruct (aou_cases c now ifx r fu KPtr ty b' p' Hb Hp) as [(b & p & Hb0 & Hp0 & (S1 & _))|(Hk & Hkey & Hc)].
  - unfold e_ttl. rewrite S1. destruct (H ty ch b p Hq Hb0 Hp0); [left; apply in_app_iff; now left|now right].
  - apply kind_of_type_ptr in Hk. simpl in Hkey.
    destruct Hc as [[-> Hres]|(b & e & Hb0 & He0 & Hm & -> & Hres)]; rewrite Hres; unfold found_of.
    + (* inserted as new *)
      unfold e_type, e_ttl, e_name. simpl. rewrite Hk, N.eqb_refl. simpl.
      rewrite found_ttl_guard_pinned. destruct (1 <? r_ttl r) eqn:Et.
      * rewrite <- Hkey, Hq. left. apply in_app_iff. right. simpl. now left.
      * right. apply N.ltb_ge in Et. exact Et.
    + (* written over a matching record *)
      unfold entry_matches in Hm. apply rr_matches_spec in Hm as (M1 & M2 & _ & _ & M5 & _).
      destruct (fl_eshr r ifx now e) as (S1 & _).
      assert (Hal : alias_of (e_rr (reset_ttl (fl r ifx now e) r now)) = alias_of (e_rr e)).
      { change (alias_of (e_rr (reset_ttl (fl r ifx now e) r now))) with (alias_of (e_rr (fl r ifx now e))).
        f_equal. exact S1. }
      assert (Httl : e_ttl (reset_ttl (fl r ifx now e) r now) = r_ttl r) by reflexivity.
      rewrite Hal, Httl.
      destruct (1 <? r_ttl r) eqn:Et; [|right; apply N.ltb_ge in Et; exact Et].
      rewrite revived_guard_pinned, Et, andb_true_r.
      destruct (e_ttl e <=? 1) eqn:Eo.
      * (* revived: announced *)
        unfold e_type, e_name. simpl. rewrite S1, M2, Hk, N.eqb_refl. simpl.
        rewrite found_ttl_guard_pinned, Et. rewrite M1, <- Hkey, Hq.
        left. apply in_app_iff. right. simpl. left. reflexivity.
      * (* was announced before *)
        apply N.leb_gt in Eo. destruct (H ty ch b e Hq Hb0 He0) as [Hf|Hf]; [|lia].
        left. apply in_app_iff. now left.
Qed.

Lemma hr_records_FI now ifx q fu rs : forall c F,
  FI c q F ->
  FI (fst (fst (hr_records c now ifx q fu rs))) q (F ++ founds (snd (fst (hr_records c now ifx q fu rs)))).
Proof.
  induction rs as [|r rest IH]; intros c F H; simpl; [now rewrite app_nil_r|].
  pose proof (aou_FI c now ifx r fu q F H) as H1.
  destruct (add_or_update c now ifx r fu) as [c1 res]. cbn [fst snd] in H1.
  specialize (IH c1 _ H1).
  destruct (hr_records c1 now ifx q fu rest) as [[c2 o2] ch2]. cbn [fst snd] in *.
  unfold found_of in IH. rewrite <- app_assoc in IH.
  destruct res as [[e [|]]|]; simpl in *; try exact IH.
  destruct ((e_type e =? TY_PTR) && found_ttl_guard (e_ttl e)); simpl in *; [|exact IH].
  destruct (q_get (e_name e) q); simpl in *; exact IH.
Qed.

(* ---- resolve_updated_instances -------------------------------------------------------------------------- *)

Lemma ru_ptrs_resolved_src c now ty ch updated : forall ptrs rset ch' r,
  In (OEvt ch' (EResolved r)) (fst (fst (fst (fst (ru_ptrs c now ty ch updated ptrs rset))))) ->
  ch' = ch /\ exists p, In p ptrs /\ expires_soon p now = false /\ rs_name r = alias_of (e_rr p).
Proof.
  induction ptrs as [|p rest IH]; intros rset ch' r; simpl; [tauto|].
  destruct (negb (expires_soon p now) && mem (alias_of (e_rr p)) updated) eqn:Ec.
  2:{ intros H. destruct (IH rset ch' r H) as [A [q0 [B C]]]. split; [exact A|]. exists q0. tauto. }
  apply andb_true_iff in Ec as [Ec _]. apply negb_true_iff in Ec.
  destruct (is_valid (resolve_from_cache c now ty (alias_of (e_rr p)))).
  - specialize (IH rset ch' r). destruct (ru_ptrs c now ty ch updated rest rset) as [[[[o res] unres] rem] rset'].
    simpl in *. intros [H|H].
    + inversion H; subst. split; [reflexivity|]. exists p. auto.
    + destruct (IH H) as [A [q0 [B C]]]. split; [exact A|]. exists q0. tauto.
  - specialize (IH rset ch' r). destruct (ru_ptrs c now ty ch updated rest rset) as [[[[o res] unres] rem] rset'].
    simpl in *. intros H. destruct (IH H) as [A [q0 [B C]]]. split; [exact A|]. exists q0. tauto.
Qed.

Lemma ru_types_resolved_src c now q updated : forall ptr rset ch' r,
  In (OEvt ch' (EResolved r)) (fst (fst (fst (fst (ru_types c now q updated ptr rset))))) ->
  exists ty ptrs p, In (ty, ptrs) ptr /\ q_get ty q = Some ch' /\ In p ptrs
                    /\ expires_soon p now = false /\ rs_name r = alias_of (e_rr p).
Proof.
  induction ptr as [|[ty ptrs] rest IH]; intros rset ch' r; simpl; [tauto|].
  destruct (q_get ty q) as [ch|] eqn:Eq.
  2:{ intros H. destruct (IH rset ch' r H) as (t & ps & p & A & B). exists t, ps, p. tauto. }
  pose proof (ru_ptrs_resolved_src c now ty ch updated ptrs rset ch' r) as H1.
  destruct (ru_ptrs c now ty ch updated ptrs rset) as [[[[o1 res1] un1] rem1] rset1]. simpl in H1.
  specialize (IH rset1 ch' r).
  destruct (ru_types c now q updated rest rset1) as [[[[o2 res2] un2] rem2] rset2]. simpl in *.
  intros H. apply in_app_iff in H as [H|H].
  - destruct (H1 H) as [Hc [p [A [B C]]]]. subst ch'. exists ty, ptrs, p. split; [now left|]. repeat split; auto.
  - destruct (IH H) as (t & ps & p & A & B). exists t, ps, p. tauto.
Qed.

Lemma ru_ptrs_only_resolved c now ty ch updated : forall ptrs rset x,
  In x (fst (fst (fst (fst (ru_ptrs c now ty ch updated ptrs rset))))) ->
  match x with OEvt _ (EResolved _) => True | _ => False end.
Proof.
  induction ptrs as [|p rest IH]; intros rset x; simpl; [tauto|].
  destruct (negb (expires_soon p now) && mem (alias_of (e_rr p)) updated); [|apply IH].
  destruct (is_valid (resolve_from_cache c now ty (alias_of (e_rr p)))).
  - specialize (IH rset x). destruct (ru_ptrs c now ty ch updated rest rset) as [[[[o res] unres] rem] rset'].
    simpl in *. intros [Hx|H]; [subst x; exact I|apply IH; exact H].
  - specialize (IH rset x). destruct (ru_ptrs c now ty ch updated rest rset) as [[[[o res] unres] rem] rset'].
    simpl in *. exact IH.
Qed.

Lemma ru_types_only_resolved c now q updated : forall ptr rset x,
  In x (fst (fst (fst (fst (ru_types c now q updated ptr rset))))) ->
  match x with OEvt _ (EResolved _) => True | _ => False end.
Proof.
  induction ptr as [|[ty ptrs] rest IH]; intros rset x; simpl; [tauto|].
  destruct (q_get ty q) as [ch|]; [|apply IH].
  pose proof (ru_ptrs_only_resolved c now ty ch updated ptrs rset x) as H1.
  destruct (ru_ptrs c now ty ch updated ptrs rset) as [[[[o1 res1] un1] rem1] rset1]. simpl in H1.
  specialize (IH rset1 x).
  destruct (ru_types c now q updated rest rset1) as [[[[o2 res2] un2] rem2] rset2]. simpl in *.
  intros H. apply in_app_iff in H as [H|H]; [apply H1; exact H|apply IH; exact H].
Qed.

Lemma resolve_updated_order L s now updated F :
  Inv L (s_cache s) -> times_le L now -> FI (s_cache s) (s_q s) F ->
  order_ok F (snd (resolve_updated s now updated)) /\ founds (snd (resolve_updated s now updated)) = [].
Proof.
  intros HI Ht HF. unfold resolve_updated. destruct updated as [|u us]; [split; [exact I|reflexivity]|].
  pose proof (ru_types_resolved_src (s_cache s) now (s_q s) (u :: us) (c_ptr (s_cache s)) (s_resolved s)) as Hsrc.
  pose proof (ru_types_no_removed_evt (s_cache s) now (s_q s) (u :: us) (c_ptr (s_cache s)) (s_resolved s)) as _.
  pose proof (ru_types_only_resolved (s_cache s) now (s_q s) (u :: us)) as Hnf.
  specialize (Hnf (c_ptr (s_cache s)) (s_resolved s)).
  destruct (ru_types (s_cache s) now (s_q s) (u :: us) (c_ptr (s_cache s)) (s_resolved s))
    as [[[[o res] unres] rem] rset]. cbn [fst snd] in *.
  assert (Hfo : founds (o ++ notify_removal (s_q s) rem) = []).
  { apply founds_nil. intros x Hx. apply in_app_iff in Hx as [Hx|Hx].
    - specialize (Hnf x Hx). destruct x as [c [ | r | ]| |]; simpl in *; auto.
    - unfold notify_removal in Hx. apply in_flat_map in Hx as [tc [_ Hx]]. apply in_map_iff in Hx as [i [<- _]]. exact I. }
  split; [|exact Hfo].
  apply order_ok_resolved. intros x Hx. apply in_app_iff in Hx as [Hx|Hx].
  - destruct x as [c [ | r | ]| |]; auto.
    destruct (Hsrc c r Hx) as (ty & ptrs & p & Hb & Hq & Hp & Hsoon & Hname).
    destruct (HF ty c ptrs p Hq Hb Hp) as [Hf|Hf]; [now rewrite Hname|].
    destruct (HI KPtr) as [_ Hk]. destruct (Hk ty ptrs Hb) as [_ Hok].
    rewrite (ttl1_soon L KPtr ty p now (Hok p Hp) Ht Hf) in Hsoon. discriminate.
  - unfold notify_removal in Hx. apply in_flat_map in Hx as [tc [_ Hx]]. apply in_map_iff in Hx as [i [<- _]]. exact I.
Qed.

(* ---- queriers ---------------------------------------------------------------------------------------------- *)

Lemma q_get_q_set ty ch q ty' :
  q_get ty' (q_set ty ch q) = if beq ty' ty then Some ch else q_get ty' q.
Proof.
  induction q as [|[t c] r IH]; simpl.
  - rewrite (beq_sym ty' ty). destruct (beq ty ty') eqn:E; [|reflexivity]. reflexivity.
  - destruct (beq ty t) eqn:E; simpl.
    + apply beq_eq in E. subst t. destruct (beq ty' ty); reflexivity.
    + destruct (beq ty' t) eqn:E2.
      * apply beq_eq in E2. subst t. rewrite beq_sym, E. reflexivity.
      * exact IH.
Qed.

Lemma q_get_q_remove ty q ty' ch : q_get ty' (q_remove ty q) = Some ch -> q_get ty' q = Some ch.
Proof.
  unfold q_remove. induction q as [|[t c] r IH]; simpl; [discriminate|].
  destruct (beq ty t) eqn:E; simpl.
  - intros H. specialize (IH H). destruct (beq ty' t) eqn:E2; [|exact IH].
    (* ty' = t = ty: impossible, ty was removed everywhere *)
    exfalso. apply beq_eq in E, E2. subst. clear - H.
    induction r as [|[t2 c2] r IH]; simpl in H; [discriminate|].
    destruct (beq t t2) eqn:E3; simpl in H; [auto|]. rewrite E3 in H. auto.
  - destruct (beq ty' t); [auto|exact IH].
Qed.

Lemma fold_mark_q l : forall s, s_q (fold_left mark_resolved l s) = s_q s.
Proof. induction l as [|i l IH]; intros s; simpl; [reflexivity|]. now rewrite IH. Qed.

Lemma fold_pending_q now l : forall s, s_q (fold_left (fun s i => add_pending s now i) l s) = s_q s.
Proof.
  induction l as [|i l IH]; intros s; simpl; [reflexivity|]. rewrite IH. unfold add_pending.
  destruct (mem i (s_pending s)); reflexivity.
Qed.

(* ---- query_cache_for_service ---------------------------------------------------------------------------- *)

Lemma qc_order c now ty ch ptrs : forall F, order_ok F (fst (fst (qc_ptrs c now ty ch ptrs))).
Proof.
  induction ptrs as [|p rest IH]; intros F; simpl; [exact I|].
  destruct (qc_ptrs c now ty ch rest) as [[o res] unres] eqn:E. simpl in *.
  destruct (expires_soon p now); [apply IH|].
  destruct (is_valid (resolve_from_cache c now ty (alias_of (e_rr p)))); simpl.
  - split; [exact I|]. split; [apply in_app_iff; right; now left|]. apply IH.
  - split; [exact I|]. apply IH.
Qed.

Lemma qc_founds c now ty ch ptrs p :
  In p ptrs -> expires_soon p now = false -> In (ch, alias_of (e_rr p)) (founds (fst (fst (qc_ptrs c now ty ch ptrs)))).
Proof.
  induction ptrs as [|p0 rest IH]; intros Hin Hs; simpl; [destruct Hin|].
  destruct (qc_ptrs c now ty ch rest) as [[o res] unres] eqn:E. simpl in *.
  destruct Hin as [->|Hin].
  - rewrite Hs. destruct (is_valid (resolve_from_cache c now ty (alias_of (e_rr p)))); simpl; now left.
  - specialize (IH Hin Hs). destruct (expires_soon p0 now); [exact IH|].
    destruct (is_valid (resolve_from_cache c now ty (alias_of (e_rr p0)))); simpl; now right.
Qed.

Lemma soon_ptr_ceqr c c' now ty : ceqr c c' -> soon_ptr_at_browse c now ty = soon_ptr_at_browse c' now ty.
Proof.
  intros (A1 & _). unfold soon_ptr_at_browse. pose proof (meqr_get ty _ _ A1) as Hg.
  destruct (bm_get ty (c_ptr c)), (bm_get ty (c_ptr c')); try contradiction; [|reflexivity].
  apply existsb_beqr; [exact Hg|]. intros e e' He. rewrite (eqr_expires_soon _ _ now He).
  destruct He as (H1 & _). unfold e_ttl. now rewrite H1.
Qed.

(* ---- the phases of one iteration ------------------------------------------------------------------------ *)

Section Phases.
  Variable now : N.

  Definition good (L : list dlv) (s : st) (F : list (N * bytes)) : Prop :=
    Inv L (s_cache s) /\ times_le L now /\ FI (s_cache s) (s_q s) F.

  Definition step_ok (F : list (N * bytes)) (o : list out) (L' : list dlv) (s' : st) : Prop :=
    order_ok F o /\ good L' s' (F ++ founds o).

  Lemma step_ok_nil L s F : good L s F -> step_ok F [] L s.
  Proof. intros H. split; [exact I|]. simpl. now rewrite app_nil_r. Qed.

  Lemma quiet_shrink_step L s F s' o :
    good L s F -> Inv L (s_cache s') -> shrinks_to (s_cache s) (s_cache s') -> s_q s' = s_q s ->
    Forall quiet o -> step_ok F o L s'.
  Proof.
    intros (HI & Ht & HF) HI' Hs Hq Ho. destruct (quiet_order F o Ho) as [A B].
    split; [exact A|]. rewrite B, app_nil_r. split; [exact HI'|]. split; [exact Ht|]. rewrite Hq. eapply FI_shrinks; eauto.
  Qed.

  Lemma resolve_updated_step L s F updated :
    good L s F -> step_ok F (snd (resolve_updated s now updated)) L (fst (resolve_updated s now updated)).
  Proof.
    intros (HI & Ht & HF). destruct (resolve_updated_order L s now updated F HI Ht HF) as [A B].
    destruct (resolve_updated_state s now updated) as [E1 E2].
    split; [exact A|]. rewrite B, app_nil_r. unfold good. rewrite E1, E2. split; [exact HI|]. split; [exact Ht|exact HF].
  Qed.

  Lemma handle_read_step ifs prev cp s d F :
    good (prev ++ cp) s F -> times_le prev now ->
    step_ok F (snd (handle_read ifs s now d)) (prev ++ cp ++ dgram_dlvs ifs now d) (fst (handle_read ifs s now d)).
  Proof.
    intros (HI & Ht & HF) Htp.
    unfold handle_read, dgram_dlvs. destruct (accepted_msg ifs d) as [m|].
    2:{ unfold step_ok. simpl. rewrite !app_nil_r. split; [exact I|]. split; [exact HI|]. split; [exact Ht|exact HF]. }
    unfold handle_response. fold (msg_records m).
    destruct (hr_records_spec now (d_if d) (s_q s) (for_us (s_q s) (m_answers m)) (msg_records m) _ _ HI) as [HI1 _].
    pose proof (hr_records_found_only now (d_if d) (s_q s) (for_us (s_q s) (m_answers m)) (msg_records m) (s_cache s)) as Ho1.
    pose proof (hr_records_FI now (d_if d) (s_q s) (for_us (s_q s) (m_answers m)) (msg_records m) (s_cache s) F HF) as HF1.
    destruct (hr_records (s_cache s) now (d_if d) (s_q s) (for_us (s_q s) (m_answers m)) (msg_records m))
      as [[c1 o1] changes]. cbn [fst snd] in *.
    assert (Ht1 : times_le ((prev ++ cp) ++ map (mkDlv now (d_if d)) (msg_records m)) now).
    { intros x Hx. apply in_app_iff in Hx as [Hx|Hx]; [now apply Ht|].
      apply in_map_iff in Hx as [r [<- _]]. simpl. lia. }
    assert (Hg1 : good ((prev ++ cp) ++ map (mkDlv now (d_if d)) (msg_records m)) (with_cache s c1) (F ++ founds o1))
      by (split; [exact HI1|]; split; [exact Ht1|exact HF1]).
    destruct (resolve_updated_step _ (with_cache s c1) _ (updated_of c1 changes) Hg1) as [A B].
    destruct (resolve_updated (with_cache s c1) now (updated_of c1 changes)) as [s2 o2]. cbn [fst snd] in *.
    split.
    - apply order_ok_app; [now apply found_only_order|exact A].
    - rewrite founds_app. rewrite <- !app_assoc in B. exact B.
  Qed.

  Lemma reads_step ifs prev ds : forall cp s F,
    good (prev ++ cp) s F -> times_le prev now ->
    step_ok F (snd (run_cmds (handle_read ifs) s now ds)) (prev ++ cp ++ flat_map (dgram_dlvs ifs now) ds)
            (fst (run_cmds (handle_read ifs) s now ds)).
  Proof.
    induction ds as [|d rest IH]; intros cp s F Hg Htp; simpl.
    - rewrite !app_nil_r. now apply step_ok_nil.
    - destruct (handle_read_step ifs prev cp s d F Hg Htp) as [A B].
      destruct (handle_read ifs s now d) as [s1 o1]. cbn [fst snd] in *.
      destruct (IH (cp ++ dgram_dlvs ifs now d) s1 _ B Htp) as [C D].
      destruct (run_cmds (handle_read ifs) s1 now rest) as [s2 o2]. cbn [fst snd] in *.
      split; [apply order_ok_app; assumption|].
      rewrite founds_app, app_assoc, <- !app_assoc in *. exact D.
  Qed.

  Lemma exec_call_step L s sp F cl :
    good L s F -> ceqr (s_cache s) (sp_c sp) ->
    match cl with CBrowse ty _ => soon_ptr_at_browse (sp_c sp) now ty = false | _ => True end ->
    step_ok F (snd (exec_call s now cl)) L (fst (exec_call s now cl)).
  Proof.
    intros Hg Hc Hcls. pose proof Hg as (HI & Ht & HF). destruct cl as [ty ch|ty|inst timeout|ch]; simpl.
    - (* browse *)
      rewrite <- (soon_ptr_ceqr _ _ now ty Hc) in Hcls. unfold soon_ptr_at_browse in Hcls.
      unfold exec_browse. destruct (bm_get ty (c_ptr (s_cache s))) as [ptrs|] eqn:Eb.
      + pose proof (qc_order (s_cache s) now ty ch ptrs F) as Ho.
        pose proof (qc_founds (s_cache s) now ty ch ptrs) as Hfo.
        destruct (qc_ptrs (s_cache s) now ty ch ptrs) as [[o res] unres]. cbn [fst snd] in *.
        split; [exact Ho|]. unfold good.
        rewrite fold_pending_cache, fold_mark_cache, fold_pending_q, fold_mark_q. cbn [s_cache s_q].
        split; [exact HI|]. split; [exact Ht|]. intros ty' ch' b p Hq Hb Hp. rewrite q_get_q_set in Hq.
        destruct (beq ty' ty) eqn:E.
        * apply beq_eq in E. subst ty'. inversion Hq; subst ch'.
          assert (b = ptrs).
          { pose proof (In_bm_get ty b (c_ptr (s_cache s)) (Inv_nodup _ _ KPtr HI) Hb) as Hx. congruence. }
          subst b. destruct (expires_soon p now) eqn:Es.
          -- right. pose proof (existsb_false_forall _ _ Hcls p Hp) as Hx. cbv beta in Hx. rewrite Es in Hx. simpl in Hx.
             apply N.ltb_ge in Hx. exact Hx.
          -- left. apply in_app_iff. right. now apply Hfo.
        * destruct (HF ty' ch' b p Hq Hb Hp); [left; apply in_app_iff; now left|now right].
      + split; [exact I|]. simpl. rewrite app_nil_r. split; [exact HI|]. split; [exact Ht|].
        intros ty' ch' b p Hq Hb Hp. cbn [s_q] in Hq. rewrite q_get_q_set in Hq.
        destruct (beq ty' ty) eqn:E; [|exact (HF ty' ch' b p Hq Hb Hp)].
        apply beq_eq in E. subst ty'.
        pose proof (In_bm_get ty b (c_ptr (s_cache s)) (Inv_nodup _ _ KPtr HI) Hb) as Hx. congruence.
    - (* stop *)
      unfold exec_stop. destruct (q_get ty (s_q s)) eqn:Eq.
      + split; [exact I|]. simpl. rewrite app_nil_r.
        pose proof (cshr_remove_service_type L (s_cache s) ty HI) as Hs.
        split; [eapply Inv_shr; eauto|]. split; [exact Ht|].
        intros ty' ch' b p Hq Hb Hp. cbn [s_q s_cache] in *. apply q_get_q_remove in Hq.
        apply (FI_shrinks _ _ _ _ (cshr_shrinks _ _ Hs) HF ty' ch' b p Hq Hb Hp).
      + now apply step_ok_nil.
    - (* verify *)
      unfold exec_verify. pose proof (cshr_verify L (s_cache s) inst (Some (now + timeout)) HI) as Hs.
      destruct (service_verify_queries (s_cache s) inst (Some (now + timeout))) as [c1 qs]. cbn [fst] in Hs.
      assert (H1 : Inv L c1) by (eapply Inv_shr; eauto).
      destruct qs as [|q0 qs]; cbn [fst snd].
      + apply (quiet_shrink_step L s F (with_cache s c1) []); auto using cshr_shrinks.
      + apply (quiet_shrink_step L s F); auto using cshr_shrinks; repeat constructor.
    - split; [split; [exact I|exact I]|]. simpl. rewrite app_nil_r. exact Hg.
  Qed.

  Lemma calls_step L : forall cls s sp F,
    good L s F -> tracks s sp -> calls_browse_expiring now sp cls = false ->
    step_ok F (snd (run_cmds exec_call s now cls)) L (fst (run_cmds exec_call s now cls)).
  Proof.
    induction cls as [|cl rest IH]; intros s sp F Hg Htr Hcls; simpl.
    - now apply step_ok_nil.
    - simpl in Hcls. apply orb_false_iff in Hcls as [Hc1 Hc2].
      assert (Hc1' : match cl with CBrowse ty _ => soon_ptr_at_browse (sp_c sp) now ty = false | _ => True end)
        by (destruct cl; auto).
      destruct (exec_call_step L s sp F cl Hg (proj1 Htr) Hc1') as [A B].
      pose proof (tracks_call now s sp cl Htr) as Htr1.
      destruct (exec_call s now cl) as [s1 o1]. cbn [fst snd] in *.
      destruct (IH s1 _ _ B Htr1 Hc2) as [C D].
      destruct (run_cmds exec_call s1 now rest) as [s2 o2]. cbn [fst snd] in *.
      split; [apply order_ok_app; assumption|]. rewrite founds_app, app_assoc. exact D.
  Qed.

  Lemma rcmd_step L s F c : good L s F -> step_ok F (snd (exec_rcmd s now c)) L (fst (exec_rcmd s now c)).
  Proof.
    intros Hg. pose proof Hg as (HI & Ht & HF). destruct c as [inst n|inst timeout]; simpl.
    - unfold exec_resolve.
      assert (Hq : Forall quiet (snd (query_unresolved (s_cache s) inst))).
      { unfold query_unresolved. destruct (negb (valid_instance_name inst)); [constructor|].
        destruct (bm_get inst (c_srv (s_cache s))); [|constructor; [exact I|constructor]].
        match goal with |- context [find ?f ?l] => destruct (find f l) end;
          [constructor; [exact I|constructor]|constructor]. }
      assert (Hq2 : Forall quiet (snd (if has_ptr_to (s_cache s) inst then query_unresolved (s_cache s) inst else (false, []))))
        by (destruct (has_ptr_to (s_cache s) inst); [exact Hq|constructor]).
      clear Hq. rename Hq2 into Hq.
      destruct (if has_ptr_to (s_cache s) inst then query_unresolved (s_cache s) inst else (false, [])) as [sent o]. cbn [snd] in Hq.
      destruct (sent && retry_guard n max_try); cbn [fst snd];
        apply (quiet_shrink_step L s F); auto using shrinks_refl.
    - unfold exec_verify. pose proof (cshr_verify L (s_cache s) inst None HI) as Hs.
      destruct (service_verify_queries (s_cache s) inst None) as [c1 qs]. cbn [fst] in Hs.
      assert (H1 : Inv L c1) by (eapply Inv_shr; eauto).
      destruct qs as [|q0 qs]; cbn [fst snd].
      + apply (quiet_shrink_step L s F (with_cache s c1) []); auto using cshr_shrinks.
      + apply (quiet_shrink_step L s F (with_cache s c1)); auto using cshr_shrinks; repeat constructor.
  Qed.

  Lemma rcmds_step L : forall l s F,
    good L s F -> step_ok F (snd (run_cmds exec_rcmd s now l)) L (fst (run_cmds exec_rcmd s now l)).
  Proof.
    induction l as [|c rest IH]; intros s F Hg; simpl.
    - now apply step_ok_nil.
    - destruct (rcmd_step L s F c Hg) as [A B]. destruct (exec_rcmd s now c) as [s1 o1]. cbn [fst snd] in *.
      destruct (IH s1 _ B) as [C D]. destruct (run_cmds exec_rcmd s1 now rest) as [s2 o2]. cbn [fst snd] in *.
      split; [apply order_ok_app; assumption|]. rewrite founds_app, app_assoc. exact D.
  Qed.

  Lemma refresh_all_quiet q : forall c, Forall quiet (snd (refresh_all c now q)).
  Proof.
    induction q as [|[ty ch] rest IH]; intros c; simpl; [constructor|].
    destruct (refresh_type c ty now) as [c1 qs]. specialize (IH c1).
    destruct (refresh_all c1 now rest) as [c2 o]. simpl in *. apply Forall_app. split; [|assumption].
    apply Forall_forall. intros x Hx. apply in_map_iff in Hx as [y [<- _]]. exact I.
  Qed.

  Lemma refresh_all_shrinks L q : forall c, Inv L c -> shrinks_to c (fst (refresh_all c now q)).
  Proof.
    induction q as [|[ty ch] rest IH]; intros c HI; simpl; [apply shrinks_refl|].
    pose proof (cshr_refresh_type L c ty now HI) as Hs.
    destruct (refresh_type c ty now) as [c1 qs]. cbn [fst] in Hs.
    assert (H1 : Inv L c1) by (eapply Inv_shr; eauto). specialize (IH c1 H1).
    destruct (refresh_all c1 now rest) as [c2 o]. cbn [fst] in *.
    eapply shrinks_trans; [apply cshr_shrinks; exact Hs|exact IH].
  Qed.

  Lemma resolve_hosts_step L names : forall s F,
    good L s F -> step_ok F (snd (resolve_hosts s now names)) L (fst (resolve_hosts s now names)).
  Proof.
    induction names as [|h t IH]; intros s F Hg; simpl.
    - now apply step_ok_nil.
    - destruct (resolve_updated_step L s F (dedup (get_instances_on_host (s_cache s) h)) Hg) as [A B].
      destruct (resolve_updated s now (dedup (get_instances_on_host (s_cache s) h))) as [s1 o1]. cbn [fst snd] in *.
      destruct (IH s1 _ B) as [C D]. destruct (resolve_hosts s1 now t) as [s2 o2]. cbn [fst snd] in *.
      split; [apply order_ok_app; assumption|]. rewrite founds_app, app_assoc. exact D.
  Qed.

  Lemma evict_step L s F : good L s F -> step_ok F (snd (evict s now)) L (fst (evict s now)).
  Proof.
    intros (HI & Ht & HF). unfold evict.
    pose proof (cshr_evict_services L (s_cache s) now HI) as Hs1.
    destruct (evict_services (s_cache s) now) as [c1 expired]. cbn [fst] in Hs1.
    assert (H1 : Inv L c1) by (eapply Inv_shr; eauto).
    pose proof (cshr_evict_addr L c1 now H1) as Hs2.
    destruct (evict_addr c1 now) as [c2 names]. cbn [fst] in Hs2.
    assert (H2 : Inv L c2) by (eapply Inv_shr; eauto).
    assert (Hg2 : good L (with_cache s c2) F).
    { split; [exact H2|]. split; [exact Ht|]. eapply FI_shrinks; [|exact HF].
      eapply shrinks_trans; apply cshr_shrinks; eassumption. }
    destruct (resolve_hosts_step L (dedup names) (with_cache s c2) F Hg2) as [A B].
    destruct (resolve_hosts (with_cache s c2) now (dedup names)) as [s2 o2]. cbn [fst snd] in *.
    assert (Hq : Forall quiet (notify_removal (s_q s) expired)).
    { apply Forall_forall. intros x Hx. unfold notify_removal in Hx. apply in_flat_map in Hx as [tc [_ Hx]].
      apply in_map_iff in Hx as [i [<- _]]. exact I. }
    destruct (quiet_order F _ Hq) as [Q1 Q2].
    split.
    - apply order_ok_app; [exact Q1|]. now rewrite Q2, app_nil_r.
    - now rewrite founds_app, Q2.
  Qed.
End Phases.

(* ---- one iteration ------------------------------------------------------------------------------------------ *)

Theorem iterate_order ifs prev s sp it F :
  Inv prev (s_cache s) -> times_le prev (i_now it) -> FI (s_cache s) (s_q s) F -> tracks s sp ->
  calls_browse_expiring (i_now it) (last (scan (spec_dgram ifs (i_now it)) sp (deliveries_in_order (i_dgrams it))) sp)
                        (i_calls it) = false ->
  order_ok F (snd (iterate ifs s it))
  /\ FI (s_cache (fst (iterate ifs s it))) (s_q (fst (iterate ifs s it))) (F ++ founds (snd (iterate ifs s it))).
Proof.
  intros HI Ht HF Htr Hcls. unfold iterate. set (now := i_now it) in *.
  set (dgs := deliveries_in_order (i_dgrams it)) in *.
  assert (Hg0 : good now (prev ++ []) s F) by (rewrite app_nil_r; split; [exact HI|]; split; [exact Ht|exact HF]).
  destruct (reads_step now ifs prev dgs [] s F Hg0 Ht) as [A1 B1]. simpl in B1.
  pose proof (tracks_reads ifs now dgs s sp Htr) as T1.
  destruct (run_cmds (handle_read ifs) s now dgs) as [s1 o1]. cbn [fst snd] in *.
  destruct (calls_step now _ (i_calls it) s1 _ _ B1 T1 Hcls) as [A2 B2].
  destruct (run_cmds exec_call s1 now (i_calls it)) as [s2 o2]. cbn [fst snd] in *.
  unfold run_retrans.
  set (keep := filter (fun tc => negb (fst tc <=? now)) (s_retrans s2)).
  assert (Hg2 : good now (prev ++ flat_map (dgram_dlvs ifs now) dgs)
                  (mkSt (s_cache s2) (s_q s2) (s_pending s2) (s_resolved s2) keep) ((F ++ founds o1) ++ founds o2))
    by exact B2.
  destruct (rcmds_step now _ (map snd (filter (fun tc => fst tc <=? now) (s_retrans s2))) _ _ Hg2) as [A3 B3].
  destruct (run_cmds exec_rcmd (mkSt (s_cache s2) (s_q s2) (s_pending s2) (s_resolved s2) keep) now
              (map snd (filter (fun tc => fst tc <=? now) (s_retrans s2)))) as [s3 o3]. cbn [fst snd] in *.
  destruct B3 as (HI3 & Ht3 & HF3).
  pose proof (refresh_all_quiet now (s_q s3) (s_cache s3)) as Q4.
  pose proof (refresh_all_shrinks now _ (s_q s3) (s_cache s3) HI3) as S4.
  destruct (refresh_all_spec prev (flat_map (dgram_dlvs ifs now) dgs) now (s_q s3) (s_cache s3) HI3) as [HI4 _].
  destruct (refresh_all (s_cache s3) now (s_q s3)) as [c4 o4]. cbn [fst snd] in *.
  destruct (quiet_order (((F ++ founds o1) ++ founds o2) ++ founds o3) o4 Q4) as [A4 E4].
  assert (Hg4 : good now (prev ++ flat_map (dgram_dlvs ifs now) dgs) (with_cache s3 c4)
                  (((F ++ founds o1) ++ founds o2) ++ founds o3)).
  { split; [exact HI4|]. split; [exact Ht3|]. eapply FI_shrinks; eauto. }
  destruct (evict_step now _ (with_cache s3 c4) _ Hg4) as [A5 B5].
  destruct (evict (with_cache s3 c4) now) as [s5 o5]. cbn [fst snd] in *.
  destruct B5 as (_ & _ & HF5).
  split.
  - apply order_ok_app; [exact A1|]. apply order_ok_app; [exact A2|]. apply order_ok_app; [exact A3|].
    apply order_ok_app; [exact A4|]. rewrite E4, app_nil_r. exact A5.
  - rewrite !founds_app, E4. simpl. rewrite !app_assoc in *. exact HF5.
Qed.

(* ---- the checker on the model's trace: no F04_order ----------------------------------------------------- *)

Definition no_order (fs : list fail) : Prop := forall f, In f fs -> is_order_fail f = false.

Lemma no_order_app a b : no_order a -> no_order b -> no_order (a ++ b).
Proof. intros Ha Hb f Hf. apply in_app_iff in Hf as [Hf|Hf]; auto. Qed.

Lemma no_order_nil : no_order [].
Proof. intros f []. Qed.

Lemma no_order_flat {A} (f : A -> list fail) l :
  (forall a x, In x (f a) -> is_order_fail x = false) -> no_order (flat_map f l).
Proof. intros H x Hx. apply in_flat_map in Hx as [a [_ Ha]]. eauto. Qed.

Definition evs (o : list out) : list (N * event) := ob_evts (obs_of o).

Lemma evs_cons x t : evs (x :: t) = match x with OEvt c e => [(c, e)] | _ => [] end ++ evs t.
Proof. reflexivity. Qed.

Lemma found_mem_In ch inst (found : list (N * bytes)) :
  In (ch, inst) found -> existsb (fun x => (fst x =? ch) && beq (snd x) inst) found = true.
Proof.
  intros H. apply existsb_exists. exists (ch, inst). split; [exact H|]. simpl. now rewrite N.eqb_refl, beq_refl.
Qed.

Lemma fold_ev04_order k : forall o ups found nf rn rm fs,
  order_ok found o -> no_order fs ->
  let r := fold_left (ev04 k) (evs o) (ups, found, nf, rn, rm, fs) in
  no_order (snd r) /\ snd (fst (fst (fst (fst r)))) = found ++ founds o.
Proof.
  induction o as [|x t IH]; intros ups found nf rn rm fs Hok Hfs; simpl.
  - split; [exact Hfs|]. now rewrite app_nil_r.
  - destruct Hok as [Hx Ht]. rewrite evs_cons. rewrite fold_left_app.
    destruct x as [c [ty i|r|ty i]|qs|c l]; simpl in *.
    + (* Found *)
      destruct (IH ups (found ++ [(c, i)]) (nf ++ [i]) rn rm fs Ht Hfs) as [A B].
      split; [exact A|]. rewrite B. now rewrite <- app_assoc.
    + (* Resolved *)
      rewrite (found_mem_In c (rs_name r) found Hx). rewrite app_nil_r in Ht.
      destruct (IH (ups_add c (rs_ty r) (rs_name r) ups) found nf (rn ++ [rs_name r]) rm fs Ht Hfs) as [A B].
      split; [exact A|exact B].
    + rewrite app_nil_r in Ht.
      destruct (IH (ups_del c i ups) found nf rn (rm ++ [i]) fs Ht Hfs) as [A B]. split; [exact A|exact B].
    + rewrite app_nil_r in Ht. apply (IH ups found nf rn rm fs Ht Hfs).
    + rewrite app_nil_r in Ht. apply (IH ups found nf rn rm fs Ht Hfs).
Qed.

Lemma fold_no_order {A B} (f : A * list fail -> B -> A * list fail) :
  (forall acc i, no_order (snd acc) -> no_order (snd (f acc i))) ->
  forall l acc, no_order (snd acc) -> no_order (snd (fold_left f l acc)).
Proof. intros Hf. induction l as [|i t IH]; intros acc H; simpl; [exact H|]. apply IH, Hf, H. Qed.

Lemma step04_order ifs k t it w o :
  order_ok (t4_found t) o ->
  no_order (snd (step04 ifs k t it w (obs_of o)))
  /\ t4_sp (fst (step04 ifs k t it w (obs_of o))) = snd (iter_snaps ifs (t4_sp t) it)
  /\ t4_found (fst (step04 ifs k t it w (obs_of o)))
     = filter (fun x => existsb (fun tc => snd tc =? fst x) (sp_q (snd (iter_snaps ifs (t4_sp t) it))))
              (t4_found t ++ founds o).
Proof.
  intros Hok. unfold step04.
  destruct (iter_snaps ifs (t4_sp t) it) as [[ds sp2] sp3]. cbn [snd].
  pose proof (fold_ev04_order k o (t4_ups t) (t4_found t) [] [] [] [] Hok no_order_nil) as Hf. cbv zeta in Hf.
  fold (evs o).
  destruct (fold_left (ev04 k) (evs o) (t4_ups t, t4_found t, [], [], [], []))
    as [[[[[ups1 found1] newfound] rnow] rmnow] fsE]. cbn [fst snd] in Hf. destruct Hf as [HfE Hfound].
  match goal with |- context [fold_left ?f ?l (?a, ?b)] =>
    match type of a with list (bytes * (N * (bool * N))) => destruct (fold_left f l (a, b)) as [oblig2 open2] end end.
  match goal with |- context [fold_left ?f ?l (?a, @nil fail)] =>
    assert (HQ2 : no_order (snd (fold_left f l (a, @nil fail))));
    [ apply fold_no_order; [|exact no_order_nil]; intros acc i H;
      match goal with |- context [if ?b then _ else _] => destruct b end; [|exact H]; cbn [fst snd];
      match goal with |- context [if ?b then _ else _] => destruct b end; [|exact H];
      apply no_order_app; [exact H|]; intros f0 [<-|[]]; reflexivity
    | destruct (fold_left f l (a, @nil fail)) as [any2 fsQ2] ] end.
  cbn [fst snd t4_sp t4_found] in *. split; [|split; [reflexivity|now rewrite Hfound]].
  apply no_order_app.
  { apply no_order_flat. intros a x Hx. destruct (expected_followup (sp_c sp2) (fst a)); [|destruct Hx].
    destruct (q_mem _ _); [destruct Hx|]. destruct Hx as [<-|[]]. reflexivity. }
  apply no_order_app; [exact HfE|]. apply no_order_app.
  { apply no_order_flat. intros a x Hx. apply in_flat_map in Hx as [i [_ Hx]].
    match type of Hx with In x (if ?b then _ else _) => destruct b end; [|destruct Hx]. destruct Hx as [<-|[]]. reflexivity. }
  apply no_order_app.
  { apply no_order_flat. intros a x Hx. destruct (fst (snd (snd a))); [destruct Hx|].
    destruct w as [w0|]; [destruct (w0 <=? fst (snd a)); [destruct Hx|]|]; destruct Hx as [<-|[]]; reflexivity. }
  apply no_order_app; [|exact HQ2].
  apply no_order_flat. intros a x Hx. destruct (labels_mem a _); [destruct Hx|]. destruct Hx as [<-|[]]. reflexivity.
Qed.

Lemma FI_filter c q F :
  FI c q F -> FI c q (filter (fun x => existsb (fun tc => snd tc =? fst x) q) F).
Proof.
  intros H ty ch b p Hq Hb Hp. destruct (H ty ch b p Hq Hb Hp) as [Hin|Hs]; [left|now right].
  apply filter_In. split; [exact Hin|]. apply existsb_exists. exists (ty, ch). split; [now apply q_get_In|].
  simpl. apply N.eqb_refl.
Qed.

Lemma viol04_no_order ifs : forall h k t s prev t0 wakes,
  Inv prev (s_cache s) -> times_le prev t0 -> times_mono t0 h = true -> tracks s (t4_sp t) ->
  FI (s_cache s) (s_q s) (t4_found t) ->
  known_browse_expiring_from ifs (t4_sp t) h = false ->
  no_order (viol04_from ifs k t h wakes (map obs_of (run_from ifs s h))).
Proof.
  induction h as [|it h IH]; intros k t s prev t0 wakes HI Ht Hm Htr HF Hk.
  - simpl. destruct wakes; simpl; intros f Hf; [destruct Hf|destruct Hf as [<-|[]]; reflexivity].
  - simpl in Hm. apply andb_true_iff in Hm as [Hm1 Hm2]. apply N.leb_le in Hm1.
    assert (Ht' : times_le prev (i_now it)) by (intros d Hd; specialize (Ht d Hd); lia).
    simpl in Hk. unfold iter_snaps in Hk. cbv zeta in Hk. apply orb_false_iff in Hk as [Hk1 Hk2].
    destruct (iterate_order ifs prev s (t4_sp t) it (t4_found t) HI Ht' HF Htr Hk1) as [Ho HF1].
    destruct (iterate_spec ifs prev s it HI Ht') as [HI1 _].
    pose proof (tracks_iterate ifs s (t4_sp t) it Htr) as Htr1.
    simpl. destruct (iterate ifs s it) as [s1 o] eqn:Eit. cbn [fst snd] in *.
    destruct wakes as [|w wakes']; [intros f [<-|[]]; reflexivity|].
    simpl. destruct (step04_order ifs k t it w o Ho) as [Hs1 [Hs2 Hs3]].
    destruct (step04 ifs k t it w (obs_of o)) as [t1 fs] eqn:Est. cbn [fst snd] in *.
    apply no_order_app; [assumption|].
    apply (IH (k + 1) t1 s1 (prev ++ iter_dlvs ifs it) (i_now it) wakes' HI1).
    + intros d Hd. apply in_app_iff in Hd as [Hd|Hd]; [now apply Ht'|].
      rewrite (iter_dlvs_times _ _ _ Hd). lia.
    + exact Hm2.
    + rewrite Hs2. exact Htr1.
    + rewrite Hs3. destruct Htr1 as [_ Hq]. rewrite <- Hq. apply FI_filter. exact HF1.
    + rewrite Hs2. exact Hk2.
Qed.

(* C04, clause F over histories: outside the class "browse started while a cached PTR record of
   the type is in its last second" the checker never reports "ServiceResolved on a channel on
   which the instance was not found before" on the model's trace - whatever the wake-ups, for
   every history in which time does not run backwards. *)
Theorem resolved_only_after_found ifs h wakes :
  wf_history h = true -> known_browse_expiring ifs h = false ->
  forall f, In f (viol_C04 ifs h wakes (map obs_of (run_history ifs h))) -> is_order_fail f = false.
Proof.
  intros Hwf Hk. unfold viol_C04, run_history.
  apply (viol04_no_order ifs h 0 _ init_st [] 0 wakes).
  - apply Inv_empty.
  - intros d [].
  - exact Hwf.
  - split; [apply ceqr_refl|reflexivity].
  - intros ty ch b p Hq. simpl in Hq. discriminate.
  - exact Hk.
Qed.
