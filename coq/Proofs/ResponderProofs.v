(* Proofs about the responder model (Model/Responder.v) and its specification
   (Model/ResponderSpec.v): C06. *)
From Coq Require Import List NArith Bool Lia Permutation PeanoNat.
From Mdns Require Import Res Bytes Rec Intf Responder ResponderSpec ParamsResponder ParamsResponderPinned.
Import ListNotations.
Open Scope N_scope.

Local Opaque META_QUERY.

(* ---- small facts ---------------------------------------------------------------------------- *)

Lemma beq_sym a b : beq a b = beq b a.
Proof.
  destruct (beq a b) eqn:E.
  - apply beq_eq in E. subst. symmetry. apply beq_refl.
  - destruct (beq b a) eqn:E'; [|reflexivity]. apply beq_eq in E'. subst.
    rewrite beq_refl in E. discriminate.
Qed.

Lemma is_nil_true {A} (l : list A) : is_nil l = true <-> l = [].
Proof. destruct l; simpl; split; congruence. Qed.

Lemma flat_map_app2 {A B} (f g : A -> list B) (l : list A) :
  Permutation (flat_map (fun x => f x ++ g x) l) (flat_map f l ++ flat_map g l).
Proof.
  induction l as [|x l IH]; simpl; [constructor|].
  rewrite <- !app_assoc.
  apply Permutation_app_head.
  eapply Permutation_trans; [apply Permutation_app_head; exact IH|].
  apply Permutation_app_swap_app.
Qed.

Lemma flat_map_nil {A B} (f : A -> list B) (l : list A) :
  (forall x, In x l -> f x = []) -> flat_map f l = [].
Proof.
  induction l as [|x l IH]; simpl; intros H; [reflexivity|].
  rewrite (H x (or_introl eq_refl)), IH; [reflexivity|]. intros y Hy. apply H. right. exact Hy.
Qed.

Lemma flat_map_ext_in {A B} (f g : A -> list B) (l : list A) :
  (forall x, In x l -> f x = g x) -> flat_map f l = flat_map g l.
Proof.
  induction l as [|x l IH]; simpl; intros H; [reflexivity|].
  rewrite (H x (or_introl eq_refl)), IH; [reflexivity|]. intros y Hy. apply H. right. exact Hy.
Qed.

(* ---- records: the model's constructors give the literal values of the text ----------------- *)

Lemma wf_service_fields s : wf_service s = true ->
  s_host_ttl s = 120 /\ s_other_ttl s = 4500 /\ s_priority s = 0 /\ s_weight s = 0.
Proof.
  unfold wf_service. rewrite !andb_true_iff, !N.eqb_eq. tauto.
Qed.

Lemma ptr_record_sp s n a : wf_service s = true -> ptr_record n (s_other_ttl s) a = sp_ptr n a.
Proof. intros H. apply wf_service_fields in H as (_ & H & _). rewrite H. reflexivity. Qed.

Lemma srv_record_sp s n h : wf_service s = true -> srv_record n s h = sp_srv n (s_port s) h.
Proof.
  intros H. apply wf_service_fields in H as (H1 & _ & H3 & H4).
  unfold srv_record. rewrite H1, H3, H4. reflexivity.
Qed.

Lemma txt_record_sp s n : wf_service s = true -> txt_record n s = sp_txt n (s_txt s).
Proof.
  intros H. apply wf_service_fields in H as (_ & H2 & _). unfold txt_record. rewrite H2. reflexivity.
Qed.

Lemma addr_record_sp s n a : wf_service s = true -> addr_record n s a = sp_addr n a.
Proof.
  intros H. apply wf_service_fields in H as (H1 & _). unfold addr_record, sp_addr, addr_rr_type.
  rewrite H1. destruct (is_v4 a); reflexivity.
Qed.

Lemma eqb_sym_bool a b : Bool.eqb a b = Bool.eqb b a.
Proof. destruct a, b; reflexivity. Qed.

Lemma same_record_matches mine other :
  (if Bool.eqb (r_flush other) (r_flush mine) then rr_matches mine other
   else rr_matches mine (with_flush other (r_flush mine))) = same_record mine other.
Proof.
  unfold rr_matches, same_record, with_flush. simpl.
  destruct (Bool.eqb (r_flush other) (r_flush mine)) eqn:E.
  - rewrite eqb_sym_bool, E.
    destruct (beq (r_name mine) (r_name other) && (r_type mine =? r_type other) && (r_class mine =? r_class other));
      simpl; reflexivity.
  - rewrite eqb_reflx.
    destruct (beq (r_name mine) (r_name other) && (r_type mine =? r_type other) && (r_class mine =? r_class other));
      simpl; reflexivity.
Qed.

Lemma suppressed_known r m : suppressed_by r m = known m r.
Proof.
  unfold suppressed_by, known. induction (m_answers m) as [|t l IH]; simpl; [reflexivity|].
  rewrite IH. unfold suppressed_by_answer. rewrite same_record_matches, suppress_ttl_test_pinned. reflexivity.
Qed.

(* ---- what a step appends to the outgoing message ------------------------------------------- *)

Definition ext (og : outgoing) (a d : list rr) (og' : outgoing) : Prop :=
  og_flags og' = og_flags og /\ og_id og' = og_id og /\ og_multicast og' = og_multicast og /\
  og_questions og' = og_questions og /\ og_answers og' = og_answers og ++ a /\
  og_additionals og' = og_additionals og ++ d.

Lemma ext_refl og : ext og [] [] og.
Proof. unfold ext. rewrite !app_nil_r. tauto. Qed.

Lemma ext_trans og a d og1 a' d' og2 :
  ext og a d og1 -> ext og1 a' d' og2 -> ext og (a ++ a') (d ++ d') og2.
Proof.
  unfold ext. intros (H1 & H2 & H3 & H4 & H5 & H6) (K1 & K2 & K3 & K4 & K5 & K6).
  rewrite K1, K2, K3, K4, K5, K6, H1, H2, H3, H4, H5, H6, !app_assoc. tauto.
Qed.

Lemma ext_eq og a d og' a' d' : ext og a d og' -> a = a' -> d = d' -> ext og a' d' og'.
Proof. intros H -> ->. exact H. Qed.

Lemma ext_add_additional og r : ext og [] [r] (add_additional og r).
Proof. unfold ext, add_additional. simpl. rewrite app_nil_r. tauto. Qed.

Lemma ext_add_answer og m r :
  ext og (unknown m [r]) [] (fst (add_answer og m r)) /\
  snd (add_answer og m r) = negb (known m r).
Proof.
  unfold add_answer, unknown. simpl. rewrite suppressed_known.
  destruct (known m r); simpl; unfold ext; simpl; rewrite ?app_nil_r; tauto.
Qed.

Lemma ext_fold {A} (step : outgoing -> A -> outgoing) (fa fd : A -> list rr) (l : list A) :
  (forall og x, In x l -> ext og (fa x) (fd x) (step og x)) ->
  forall og, ext og (flat_map fa l) (flat_map fd l) (fold_left step l og).
Proof.
  induction l as [|x l IH]; simpl; intros H og; [apply ext_refl|].
  eapply ext_trans; [apply H; left; reflexivity|].
  apply IH. intros og' y Hy. apply H. right. exact Hy.
Qed.

Lemma ext_fold_additional {A} (f : A -> rr) (l : list A) og :
  ext og [] (map f l) (fold_left (fun o a => add_additional o (f a)) l og).
Proof.
  eapply ext_eq; [apply (ext_fold (fun o a => add_additional o (f a)) (fun _ => []) (fun a => [f a]))| |].
  - intros og' x _. apply ext_add_additional.
  - apply flat_map_nil. reflexivity.
  - induction l; simpl; congruence.
Qed.

Lemma unknown_app m a b : unknown m (a ++ b) = unknown m a ++ unknown m b.
Proof. apply filter_app. Qed.

Lemma ext_fold_answer {A} m (f : A -> rr) (l : list A) og :
  ext og (unknown m (map f l)) [] (fold_left (fun o a => fst (add_answer o m (f a))) l og).
Proof.
  eapply ext_eq; [apply (ext_fold (fun o a => fst (add_answer o m (f a))) (fun a => unknown m [f a]) (fun _ => []))| |].
  - intros og' x _. apply ext_add_answer.
  - induction l as [|x l IH]; [reflexivity|].
    cbn [map flat_map]. rewrite IH.
    change (f x :: map f l) with ([f x] ++ map f l). rewrite unknown_app. reflexivity.
  - apply flat_map_nil. reflexivity.
Qed.

(* ---- add_answer_with_additionals ----------------------------------------------------------- *)

Lemma link_addrs_code intf v4t s :
  link_addrs code_quirks intf v4t s = intf_addrs_of v4t s intf.
Proof.
  unfold link_addrs, intf_addrs_of, addrs_on_intf_v4, addrs_on_intf_v6. simpl.
  destruct v4t; apply filter_ext; intros a; unfold is_v6; destruct (is_v4 a); reflexivity.
Qed.

Lemma awa_ext og m s intf nc v4 : wf_service s = true ->
  let ia := intf_addrs_of v4 s intf in
  let c := if is_nil ia then ([], [])
           else with_additionals m (sp_ptr (s_ty s) (cur_inst nc s))
                  (sub_ptr nc s ++ svc_additionals code_quirks nc intf v4 s) in
  ext og (fst c) (snd c) (add_answer_with_additionals og m s intf nc v4).
Proof.
  intros Hwf ia c. subst c. unfold add_answer_with_additionals. fold ia.
  destruct (is_nil ia) eqn:En; [apply ext_refl|].
  rewrite (ptr_record_sp s _ _ Hwf).
  pose proof (ext_add_answer og m (sp_ptr (s_ty s) (resolve_name nc (s_fullname s)))) as [Ha Hb].
  destruct (add_answer og m (sp_ptr (s_ty s) (resolve_name nc (s_fullname s)))) as [og1 added] eqn:Ea.
  simpl in Ha, Hb. unfold with_additionals, cur_inst.
  unfold unknown in Ha. simpl in Ha.
  destruct (known m (sp_ptr (s_ty s) (resolve_name nc (s_fullname s)))) eqn:Ek; simpl in *; subst added; simpl.
  - exact Ha.
  - (* the PTR was added: additionals follow *)
    assert (Hsub : ext og1 [] (sub_ptr nc s)
              (match s_sub s with
               | Some sub => add_additional og1 (ptr_record sub (s_other_ttl s) (resolve_name nc (s_fullname s)))
               | None => og1 end)).
    { unfold sub_ptr, cur_inst. destruct (s_sub s).
      - rewrite (ptr_record_sp s _ _ Hwf). apply ext_add_additional.
      - apply ext_refl. }
    set (og2 := match s_sub s with Some sub => _ | None => og1 end) in *.
    eapply ext_eq.
    + eapply ext_trans; [exact Ha|].
      eapply ext_trans; [exact Hsub|].
      eapply ext_trans; [apply ext_add_additional|].
      eapply ext_trans; [apply ext_add_additional|].
      apply ext_fold_additional.
    + simpl. reflexivity.
    + simpl. unfold svc_additionals, cur_inst, cur_host.
      rewrite (srv_record_sp s _ _ Hwf), (txt_record_sp s _ Hwf), link_addrs_code.
      fold ia. simpl.
      f_equal. f_equal. f_equal. apply map_ext. intros a. apply addr_record_sp. exact Hwf.
Qed.

(* ---- the PTR arm ---------------------------------------------------------------------------- *)

(* the meta-query PTR a single entry contributes in the code, given the set of types already
   listed for this question *)
Definition meta_new (q : question) (seen : list bytes) (e : entry) : bool :=
  meta_entry e && beq (q_name q) META_QUERY && negb (mem (s_ty (e_svc e)) seen).
Definition seen_after (q : question) (seen : list bytes) (e : entry) : list bytes :=
  if meta_new q seen e then s_ty (e_svc e) :: seen else seen.
Definition meta_part (m : msg) (q : question) (seen : list bytes) (e : entry) : list rr :=
  if meta_new q seen e then unknown m [sp_ptr (q_name q) (s_ty (e_svc e))] else [].

Lemma answerable_code intf v4 e :
  answerable code_quirks intf v4 e
  = is_announced (e_status e) && negb (is_nil (intf_addrs_of v4 (e_svc e) intf)).
Proof. unfold answerable. rewrite link_addrs_code. reflexivity. Qed.

Lemma meta_new_matching q seen e :
  matches_type_or_subtype (e_svc e) (q_name q) = true -> meta_new q seen e = false.
Proof.
  intros H. unfold meta_new, meta_entry.
  destruct (beq (q_name q) META_QUERY) eqn:Eq; [|rewrite andb_false_r; reflexivity].
  apply beq_eq in Eq. rewrite <- Eq, H. rewrite andb_false_r. reflexivity.
Qed.

Lemma meta_new_nonmatching q seen e :
  is_announced (e_status e) = true -> matches_type_or_subtype (e_svc e) (q_name q) = false ->
  meta_new q seen e = beq (q_name q) META_QUERY && negb (mem (s_ty (e_svc e)) seen).
Proof.
  intros Ha H. unfold meta_new, meta_entry. rewrite Ha.
  destruct (beq (q_name q) META_QUERY) eqn:Eq; [|cbn [andb]; rewrite andb_false_r; reflexivity].
  apply beq_eq in Eq. rewrite <- Eq, H. reflexivity.
Qed.

Lemma spec_ptr_entry_code nc intf m v4 q e :
  spec_ptr_entry code_quirks nc intf m v4 q e
  = if is_announced (e_status e) && matches_type_or_subtype (e_svc e) (q_name q)
    then (if is_nil (intf_addrs_of v4 (e_svc e) intf) then ([], [])
          else with_additionals m (sp_ptr (s_ty (e_svc e)) (cur_inst nc (e_svc e)))
                 (sub_ptr nc (e_svc e) ++ svc_additionals code_quirks nc intf v4 (e_svc e)))
    else ([], []).
Proof.
  unfold spec_ptr_entry. rewrite answerable_code. unfold matches_type_or_subtype, is_sub.
  cbn [k_sub_answer code_quirks].
  destruct (is_announced (e_status e)); cbn [andb]; [|reflexivity].
  destruct (is_nil (intf_addrs_of v4 (e_svc e) intf)); cbn [negb].
  - destruct (beq (q_name q) (s_ty (e_svc e)) || _); reflexivity.
  - destruct (beq (q_name q) (s_ty (e_svc e))); cbn [orb]; [reflexivity|].
    destruct (s_sub (e_svc e)); [|reflexivity]. destruct (beq b (q_name q)); reflexivity.
Qed.

Lemma ptr_step_ext inp q v4 og seen e : wf_service (e_svc e) = true ->
  let c := spec_ptr_entry code_quirks (h_name_changes inp) (h_intf inp) (h_msg inp) v4 q e in
  ext og (fst c ++ meta_part (h_msg inp) q seen e) (snd c) (fst (ptr_step inp q v4 (og, seen) e)) /\
  snd (ptr_step inp q v4 (og, seen) e) = seen_after q seen e.
Proof.
  intros Hwf c. subst c. unfold ptr_step, meta_part, seen_after. rewrite spec_ptr_entry_code.
  destruct (is_announced (e_status e)) eqn:Ea; cbn [negb andb].
  2:{ unfold meta_new, meta_entry. rewrite Ea. cbn [andb fst snd app]. split; [apply ext_refl|reflexivity]. }
  destruct (matches_type_or_subtype (e_svc e) (q_name q)) eqn:Em.
  - rewrite (meta_new_matching _ seen _ Em), app_nil_r. cbn [fst snd]. split; [|reflexivity].
    exact (awa_ext og (h_msg inp) (e_svc e) (h_intf inp) (h_name_changes inp) v4 Hwf).
  - rewrite (meta_new_nonmatching _ seen _ Ea Em). cbn [fst snd app].
    destruct (beq (q_name q) META_QUERY); cbn [andb]; [|split; [apply ext_refl|reflexivity]].
    destruct (mem (s_ty (e_svc e)) seen); cbn [negb fst snd]; [split; [apply ext_refl|reflexivity]|].
    split; [|reflexivity]. rewrite (ptr_record_sp _ _ _ Hwf). apply ext_add_answer.
Qed.

(* the answers of a PTR question in the order the code appends them *)
Fixpoint code_ptr_answers (inp : hq_input) (v4 : bool) (q : question) (seen : list bytes) (l : list entry) : list rr :=
  match l with
  | [] => []
  | e :: t =>
    (fst (spec_ptr_entry code_quirks (h_name_changes inp) (h_intf inp) (h_msg inp) v4 q e)
     ++ meta_part (h_msg inp) q seen e)
    ++ code_ptr_answers inp v4 q (seen_after q seen e) t
  end.

Lemma ptr_fold_ext inp q v4 l : (forall e, In e l -> wf_service (e_svc e) = true) ->
  forall og seen,
  ext og (code_ptr_answers inp v4 q seen l)
      (flat_map (fun e => snd (spec_ptr_entry code_quirks (h_name_changes inp) (h_intf inp) (h_msg inp) v4 q e)) l)
      (fst (fold_left (ptr_step inp q v4) l (og, seen))).
Proof.
  induction l as [|e l IH]; intros Hwf og seen; [apply ext_refl|].
  cbn [fold_left code_ptr_answers flat_map].
  destruct (ptr_step_ext inp q v4 og seen e (Hwf e (or_introl eq_refl))) as [H1 H2].
  destruct (ptr_step inp q v4 (og, seen) e) as [og' seen'] eqn:Es. cbn [fst snd] in H1, H2. subst seen'.
  eapply ext_trans; [exact H1|]. apply IH. intros e' He'. apply Hwf. right. exact He'.
Qed.

(* types listed by the code: first occurrences, not yet seen *)
Fixpoint metas (q : question) (seen : list bytes) (l : list entry) : list bytes :=
  match l with
  | [] => []
  | e :: t => if meta_new q seen e then s_ty (e_svc e) :: metas q (s_ty (e_svc e) :: seen) t else metas q seen t
  end.

Lemma Permutation_filter {A} (f : A -> bool) l l' : Permutation l l' -> Permutation (filter f l) (filter f l').
Proof.
  induction 1; simpl.
  - constructor.
  - destruct (f x); [constructor|]; assumption.
  - destruct (f x), (f y); try apply perm_swap; try apply Permutation_refl.
  - eapply Permutation_trans; eassumption.
Qed.

Lemma code_ptr_answers_metas inp v4 q l : forall seen,
  Permutation (code_ptr_answers inp v4 q seen l)
    (flat_map (fun e => fst (spec_ptr_entry code_quirks (h_name_changes inp) (h_intf inp) (h_msg inp) v4 q e)) l
     ++ unknown (h_msg inp) (map (sp_ptr (q_name q)) (metas q seen l))).
Proof.
  induction l as [|e l IH]; intros seen; cbn [code_ptr_answers flat_map metas]; [constructor|].
  unfold meta_part, seen_after. destruct (meta_new q seen e) eqn:En.
  - cbn [map]. change (sp_ptr (q_name q) (s_ty (e_svc e)) :: ?x) with ([sp_ptr (q_name q) (s_ty (e_svc e))] ++ x).
    rewrite (unknown_app (h_msg inp) [sp_ptr (q_name q) (s_ty (e_svc e))]).
    rewrite <- !app_assoc. apply Permutation_app_head.
    eapply Permutation_trans; [apply Permutation_app_head; apply IH|].
    rewrite unknown_app. apply Permutation_app_swap_app.
  - rewrite app_nil_r, <- app_assoc. apply Permutation_app_head. apply IH.
Qed.

Lemma in_metas q l : forall seen x,
  In x (metas q seen l) <->
  beq (q_name q) META_QUERY = true /\ ~ In x seen /\ In x (map (fun e => s_ty (e_svc e)) (filter meta_entry l)).
Proof.
  induction l as [|e l IH]; intros seen x; cbn [metas filter map].
  - simpl. tauto.
  - unfold meta_new. destruct (meta_entry e) eqn:Eme; cbn [andb map].
    + destruct (beq (q_name q) META_QUERY) eqn:Eq; cbn [andb].
      * destruct (mem (s_ty (e_svc e)) seen) eqn:Es; cbn [negb].
        -- rewrite IH. apply mem_In in Es. simpl. split.
           ++ intros (H1 & H2 & H3). auto.
           ++ intros (H1 & H2 & [H3|H3]); [subst x; contradiction|auto].
        -- simpl. rewrite IH. simpl. split.
           ++ intros [H|(H1 & H2 & H3)].
              ** subst x. repeat split; auto. intros Hin. apply mem_In in Hin. congruence.
              ** repeat split; auto.
           ++ intros (H1 & H2 & [H3|H3]); [left; exact H3|].
              destruct (list_eq_dec N.eq_dec (s_ty (e_svc e)) x) as [E|E]; [left; exact E|].
              right. repeat split; auto. intros [H|H]; [contradiction|contradiction].
      * rewrite IH. split; intros (H1 & _); discriminate.
    + rewrite IH. reflexivity.
Qed.

Lemma NoDup_metas q l : forall seen, NoDup (metas q seen l).
Proof.
  induction l as [|e l IH]; intros seen; cbn [metas]; [constructor|].
  destruct (meta_new q seen e); [|apply IH]. constructor; [|apply IH].
  intros H. apply in_metas in H as (_ & H & _). apply H. left. reflexivity.
Qed.

Lemma code_ptr_answers_perm inp v4 q :
  Permutation (code_ptr_answers inp v4 q [] (h_services inp))
    (flat_map (fun e => fst (spec_ptr_entry code_quirks (h_name_changes inp) (h_intf inp) (h_msg inp) v4 q e)) (h_services inp)
     ++ spec_meta (h_msg inp) (h_services inp) q).
Proof.
  eapply Permutation_trans; [apply code_ptr_answers_metas|]. apply Permutation_app_head.
  unfold spec_meta. destruct (beq (q_name q) META_QUERY) eqn:Eq.
  - apply Permutation_filter, Permutation_map. apply NoDup_Permutation.
    + apply NoDup_metas.
    + apply NoDup_nodup.
    + intros x. rewrite in_metas, nodup_In. unfold meta_types. rewrite Eq. simpl. tauto.
  - assert (E : metas q [] (h_services inp) = []).
    { destruct (metas q [] (h_services inp)) as [|x t] eqn:E; [reflexivity|].
      assert (H : In x (metas q [] (h_services inp))) by (rewrite E; left; reflexivity).
      apply in_metas in H as (H & _). congruence. }
    rewrite E. constructor.
Qed.

(* ---- the A / AAAA / ANY arm ----------------------------------------------------------------- *)

Lemma addr_step_ext inp q og e : wf_service (e_svc e) = true ->
  ext og (spec_addr_entry (h_name_changes inp) (h_intf inp) (h_msg inp) q e) [] (addr_step inp q og e).
Proof.
  intros Hwf. unfold addr_step, spec_addr_entry, ci_eq, cur_host.
  destruct (is_announced (e_status e)); cbn [negb andb]; [|apply ext_refl].
  rewrite (beq_sym (lower (q_name q))).
  destruct (beq (lower (resolve_name (h_name_changes inp) (s_host (e_svc e)))) (lower (q_name q)));
    [|apply ext_refl].
  eapply ext_eq; [apply ext_fold_answer| |reflexivity].
  f_equal. erewrite map_ext; [reflexivity|]. intros a. apply addr_record_sp. exact Hwf.
Qed.

(* ---- add_answer_of_service and the lookup of the instance ----------------------------------- *)

Lemma aaos_ext og m name s host qtype ia : wf_service s = true ->
  ext og
    (unknown m ((if (qtype =? 33) || (qtype =? 255) then [sp_srv name (s_port s) host] else [])
                ++ (if (qtype =? 16) || (qtype =? 255) then [sp_txt name (s_txt s)] else [])))
    (if (qtype =? 33) && negb (known m (sp_srv name (s_port s) host)) then map (sp_addr host) ia else [])
    (add_answer_of_service_as og m name s host qtype ia).
Proof.
  intros Hwf. unfold add_answer_of_service_as.
  change TY_SRV with 33. change TY_ANY with 255. change TY_TXT with 16.
  rewrite unknown_app. rewrite (srv_record_sp _ _ _ Hwf), (txt_record_sp _ _ Hwf).
  pose proof (ext_add_answer og m (sp_srv name (s_port s) host)) as [Hs1 Hs2].
  destruct (add_answer og m (sp_srv name (s_port s) host)) as [ogs added] eqn:Eadd.
  cbn [fst snd] in Hs1, Hs2.
  set (pr := if (qtype =? 33) || (qtype =? 255) then (ogs, added) else (og, false)).
  assert (H1 : ext og (unknown m (if (qtype =? 33) || (qtype =? 255)
                                  then [sp_srv name (s_port s) host] else [])) [] (fst pr)
               /\ ((qtype =? 33) && snd pr = (qtype =? 33) && negb (known m (sp_srv name (s_port s) host)))).
  { subst pr. destruct (qtype =? 33) eqn:E33; cbn [orb andb fst snd].
    - split; [exact Hs1|exact Hs2].
    - split; [|reflexivity]. destruct (qtype =? 255); [exact Hs1|apply ext_refl]. }
  destruct pr as [og1 srv_added]. cbn [fst snd] in H1. destruct H1 as [H1 Hadd].
  set (og2 := if (qtype =? 16) || (qtype =? 255) then _ else og1).
  assert (H2 : ext og1 (unknown m (if (qtype =? 16) || (qtype =? 255)
                                   then [sp_txt name (s_txt s)] else [])) [] og2).
  { subst og2. destruct ((qtype =? 16) || (qtype =? 255)); [apply ext_add_answer|apply ext_refl]. }
  rewrite Hadd.
  destruct ((qtype =? 33) && negb (known m (sp_srv name (s_port s) host))).
  - eapply ext_eq; [eapply ext_trans; [exact H1|eapply ext_trans; [exact H2|apply ext_fold_additional]]| |].
    + rewrite app_nil_r. reflexivity.
    + cbn [app]. apply map_ext. intros a. apply addr_record_sp. exact Hwf.
  - eapply ext_eq; [eapply ext_trans; [exact H1|exact H2]|reflexivity|reflexivity].
Qed.

Lemma spec_inst_entry_code nc intf m v4 q e :
  spec_inst_entry code_quirks nc intf m v4 q e
  = if beq (lower (resolve_name nc (s_fullname (e_svc e)))) (lower (q_name q))
    then if is_announced (e_status e)
         then if is_nil (intf_addrs_of v4 (e_svc e) intf) then ([], [])
              else (unknown m ((if (q_type q =? 33) || (q_type q =? 255)
                                then [sp_srv (q_name q) (s_port (e_svc e)) (resolve_name nc (s_host (e_svc e)))] else [])
                               ++ (if (q_type q =? 16) || (q_type q =? 255)
                                   then [sp_txt (q_name q) (s_txt (e_svc e))] else [])),
                    if (q_type q =? 33)
                       && negb (known m (sp_srv (q_name q) (s_port (e_svc e)) (resolve_name nc (s_host (e_svc e)))))
                    then map (sp_addr (resolve_name nc (s_host (e_svc e)))) (intf_addrs_of v4 (e_svc e) intf) else [])
         else ([], [])
    else ([], []).
Proof.
  unfold spec_inst_entry, inst_match, ci_eq, cur_inst, cur_host. rewrite answerable_code, link_addrs_code.
  rewrite (beq_sym (lower (q_name q))).
  destruct (beq (lower (resolve_name nc (s_fullname (e_svc e)))) (lower (q_name q))); cbn [andb]; [|reflexivity].
  destruct (is_announced (e_status e)); cbn [andb]; [|reflexivity].
  destruct (is_nil (intf_addrs_of v4 (e_svc e) intf)); reflexivity.
Qed.

(* at most one entry answers to a (renamed) key *)
Lemma find_unique_flat_map {B} (g : entry -> bytes) (x : bytes) (f : entry -> list B) (l : list entry) :
  nodup_b (map g l) = true ->
  match find (fun e => beq (g e) x) l with Some e => f e | None => [] end
  = flat_map (fun e => if beq (g e) x then f e else []) l.
Proof.
  induction l as [|e l IH]; simpl; intros H; [reflexivity|].
  apply andb_true_iff in H as [H1 H2].
  destruct (beq (g e) x) eqn:E.
  - rewrite flat_map_nil; [rewrite app_nil_r; reflexivity|].
    intros y Hy. destruct (beq (g y) x) eqn:Ey; [|reflexivity].
    apply beq_eq in E, Ey. exfalso.
    apply negb_true_iff in H1. assert (mem (g e) (map g l) = true); [|congruence].
    apply mem_In. rewrite E, <- Ey. apply in_map. exact Hy.
  - simpl. apply IH. exact H2.
Qed.

Lemma inst_ext inp q v4 og :
  (forall e, In e (h_services inp) -> wf_service (e_svc e) = true) ->
  nodup_b (map (fun e => lower (resolve_name (h_name_changes inp) (s_fullname (e_svc e)))) (h_services inp)) = true ->
  ext og
    (flat_map (fun e => fst (spec_inst_entry code_quirks (h_name_changes inp) (h_intf inp) (h_msg inp) v4 q e))
              (h_services inp))
    (flat_map (fun e => snd (spec_inst_entry code_quirks (h_name_changes inp) (h_intf inp) (h_msg inp) v4 q e))
              (h_services inp))
    (match find (fun e => beq (lower (resolve_name (h_name_changes inp) (s_fullname (e_svc e)))) (lower (q_name q)))
                (h_services inp) with
     | None => og
     | Some e =>
       if negb (is_announced (e_status e)) then og
       else
         let intf_addrs := intf_addrs_of v4 (e_svc e) (h_intf inp) in
         if is_nil intf_addrs then og
         else add_answer_of_service_as og (h_msg inp) (q_name q) (e_svc e)
                (resolve_name (h_name_changes inp) (s_host (e_svc e))) (q_type q) intf_addrs
     end).
Proof.
  intros Hwf Hnd.
  pose (g := fun e => lower (resolve_name (h_name_changes inp) (s_fullname (e_svc e)))).
  pose (c := fun e => spec_inst_entry code_quirks (h_name_changes inp) (h_intf inp) (h_msg inp) v4 q e).
  assert (Ha : flat_map (fun e => fst (c e)) (h_services inp)
               = match find (fun e => beq (g e) (lower (q_name q))) (h_services inp) with
                 | Some e => fst (c e) | None => [] end).
  { rewrite (find_unique_flat_map g _ (fun e => fst (c e)) _ Hnd).
    apply flat_map_ext_in. intros e _. subst c g. cbv beta. rewrite spec_inst_entry_code.
    destruct (beq _ _); reflexivity. }
  assert (Hd : flat_map (fun e => snd (c e)) (h_services inp)
               = match find (fun e => beq (g e) (lower (q_name q))) (h_services inp) with
                 | Some e => snd (c e) | None => [] end).
  { rewrite (find_unique_flat_map g _ (fun e => snd (c e)) _ Hnd).
    apply flat_map_ext_in. intros e _. subst c g. cbv beta. rewrite spec_inst_entry_code.
    destruct (beq _ _); reflexivity. }
  subst c g. cbv beta in Ha, Hd. rewrite Ha, Hd. clear Ha Hd.
  destruct (find (fun e => beq (lower (resolve_name (h_name_changes inp) (s_fullname (e_svc e)))) (lower (q_name q)))
                 (h_services inp)) as [e|] eqn:Ef; [|apply ext_refl].
  apply find_some in Ef as [Hin Hk]. rewrite spec_inst_entry_code, Hk.
  destruct (is_announced (e_status e)); cbn [negb]; [|apply ext_refl].
  cbv zeta. destruct (is_nil (intf_addrs_of v4 (e_svc e) (h_intf inp))); [apply ext_refl|].
  cbn [fst snd]. apply aaos_ext. apply Hwf. exact Hin.
Qed.

(* ---- one question ---------------------------------------------------------------------------- *)

(* the answers in the order the code appends them *)
Definition code_question_answers (inp : hq_input) (v4 : bool) (q : question) : list rr :=
  if q_type q =? 12 then
    code_ptr_answers inp v4 q [] (h_services inp)
  else fst (spec_question code_quirks (h_name_changes inp) (h_intf inp) (h_msg inp) v4 (h_services inp) q).

Definition wf_entries (inp : hq_input) : Prop :=
  (forall e, In e (h_services inp) -> wf_service (e_svc e) = true) /\
  nodup_b (map (fun e => lower (resolve_name (h_name_changes inp) (s_fullname (e_svc e)))) (h_services inp)) = true.

Lemma wf_input_entries inp : wf_input inp = true -> wf_entries inp.
Proof.
  unfold wf_input, wf_entries. rewrite andb_true_iff. intros [H1 H2]. split; [|exact H2].
  intros e He. rewrite forallb_forall in H1. apply H1 in He. exact He.
Qed.

Lemma question_step_ext inp v4 og q : wf_entries inp ->
  ext og (code_question_answers inp v4 q)
      (snd (spec_question code_quirks (h_name_changes inp) (h_intf inp) (h_msg inp) v4 (h_services inp) q))
      (question_step inp v4 og q).
Proof.
  intros [Hwf Hnd]. unfold question_step, code_question_answers, spec_question.
  change TY_PTR with 12. change TY_A with 1. change TY_AAAA with 28. change TY_ANY with 255.
  destruct (q_type q =? 12) eqn:Eptr.
  - cbn [snd]. apply ptr_fold_ext. exact Hwf.
  - cbn [fst snd].
    eapply ext_eq; [eapply ext_trans; [|apply inst_ext; assumption]| |].
    + instantiate (1 := []).
      instantiate (1 := flat_map (spec_addr_entry (h_name_changes inp) (h_intf inp) (h_msg inp) q) (h_services inp)).
      destruct ((q_type q =? 1) || (q_type q =? 28) || (q_type q =? 255)) eqn:Et.
      * eapply ext_eq; [apply (ext_fold (addr_step inp q)
                                 (spec_addr_entry (h_name_changes inp) (h_intf inp) (h_msg inp) q) (fun _ => []))
                       |reflexivity|].
        -- intros og' e He. apply addr_step_ext. apply Hwf. exact He.
        -- apply flat_map_nil. reflexivity.
      * (* other types: the address clause of the spec is empty as well *)
        eapply ext_eq; [apply ext_refl| |reflexivity].
        symmetry. apply flat_map_nil. intros e _. unfold spec_addr_entry.
        apply orb_false_iff in Et as [Et E255]. apply orb_false_iff in Et as [E1 E28].
        rewrite E1, E28, E255. cbn [orb app map].
        destruct (_ && _); reflexivity.
    + reflexivity.
    + reflexivity.
Qed.

(* ---- the whole question loop ---------------------------------------------------------------- *)

Definition code_answers (inp : hq_input) (v4 : bool) : list rr :=
  flat_map (code_question_answers inp v4) (m_questions (h_msg inp)).

Lemma loop_ext inp v4 og : wf_entries inp ->
  ext og (code_answers inp v4)
      (spec_additionals code_quirks (h_name_changes inp) (h_intf inp) (h_msg inp) v4 (h_services inp))
      (fold_left (question_step inp v4) (m_questions (h_msg inp)) og).
Proof.
  intros Hwf. unfold code_answers, spec_additionals.
  apply (ext_fold (question_step inp v4) (code_question_answers inp v4)
           (fun q => snd (spec_question code_quirks (h_name_changes inp) (h_intf inp) (h_msg inp) v4 (h_services inp) q))).
  intros og' q _. apply question_step_ext. exact Hwf.
Qed.

Lemma flat_map_perm {A B} (f g : A -> list B) (l : list A) :
  (forall x, Permutation (f x) (g x)) -> Permutation (flat_map f l) (flat_map g l).
Proof.
  intros H. induction l as [|x l IH]; simpl; [constructor|]. apply Permutation_app; auto.
Qed.

Lemma code_answers_perm inp v4 :
  Permutation (code_answers inp v4)
              (spec_answers code_quirks (h_name_changes inp) (h_intf inp) (h_msg inp) v4 (h_services inp)).
Proof.
  unfold code_answers, spec_answers. apply flat_map_perm. intros q.
  unfold code_question_answers, spec_question.
  destruct (q_type q =? 12); [|apply Permutation_refl].
  cbn [fst]. apply code_ptr_answers_perm.
Qed.

(* ---- sending --------------------------------------------------------------------------------- *)

Lemma valid_family a x : valid_ip_on_intf a x = true -> is_v4 (ia_ip x) = is_v4 a.
Proof. unfold valid_ip_on_intf. destruct a, (ia_ip x); simpl; congruence. Qed.

Lemma existsb_find {A} (p : A -> bool) l :
  existsb p l = match find p l with Some _ => true | None => false end.
Proof. induction l as [|x l IH]; simpl; [reflexivity|]. destruct (p x); simpl; auto. Qed.

Lemma existsb_ext' {A} (p q : A -> bool) l : (forall x, p x = q x) -> existsb p l = existsb q l.
Proof. intros H. induction l; simpl; [reflexivity|]. rewrite H, IHl. reflexivity. Qed.

Lemma family_enabled_existsb intf v4 :
  family_enabled intf v4 = existsb (fun x => Bool.eqb (is_v4 (ia_ip x)) v4) (mi_addrs intf).
Proof.
  unfold family_enabled, has_v4, has_v6, is_v6.
  destruct v4; apply existsb_ext'; intros x; destruct (is_v4 (ia_ip x)); reflexivity.
Qed.

Lemma send_response_shape og intf src udest :
  og_answers og <> [] ->
  send_response og intf (is_v4 src) (find (valid_ip_on_intf src) (mi_addrs intf)) udest
  = if family_enabled intf (is_v4 src)
    then Some (mkPacket (match udest with Some (d, p) => DUnicast d p | None => DMulticast (is_v4 src) end)
                 (mi_index intf) (wire_id og) (og_flags og) (og_questions og) (og_answers og)
                 (og_additionals og))
    else None.
Proof.
  intros Hne. unfold send_response.
  assert (Hnil : is_nil (og_answers og) && is_nil (og_additionals og) = false).
  { destruct (og_answers og); [congruence|reflexivity]. }
  rewrite Hnil, family_enabled_existsb, existsb_find.
  destruct (find (valid_ip_on_intf src) (mi_addrs intf)) as [a|] eqn:Em.
  - apply find_some in Em as [Hin Hv]. pose proof (valid_family _ _ Hv) as Hf.
    destruct (find (fun x => Bool.eqb (is_v4 (ia_ip x)) (is_v4 src)) (mi_addrs intf)) eqn:Ef.
    + rewrite Hf. reflexivity.
    + exfalso. eapply find_none in Ef; [|exact Hin]. rewrite Hf, eqb_reflx in Ef. discriminate.
  - destruct (find (fun x => Bool.eqb (is_v4 (ia_ip x)) (is_v4 src)) (mi_addrs intf)) as [a|] eqn:Ef; [|reflexivity].
    apply find_some in Ef as [_ Hf]. apply eqb_prop in Hf. rewrite Hf. reflexivity.
Qed.

Lemma fold_add_question qs og :
  let og' := fold_left (fun o q => add_question o (q_name q) (q_type q)) qs og in
  og_flags og' = og_flags og /\ og_id og' = og_id og /\ og_multicast og' = og_multicast og /\
  og_questions og' = og_questions og ++ map (fun q => (q_name q, q_type q)) qs /\
  og_answers og' = og_answers og /\ og_additionals og' = og_additionals og.
Proof.
  revert og. induction qs as [|q qs IH]; intros og; simpl.
  - rewrite app_nil_r. tauto.
  - specialize (IH (add_question og (q_name q) (q_type q))). simpl in IH.
    destruct IH as (H1 & H2 & H3 & H4 & H5 & H6). rewrite H1, H2, H3, H4, H5, H6.
    unfold add_question; simpl. rewrite <- app_assoc. tauto.
Qed.

(* ---- the model's reaction in closed form ---------------------------------------------------- *)

Lemma handle_query_shape inp : wf_entries inp ->
  let v4 := is_v4 (h_src_ip inp) in
  let A := code_answers inp v4 in
  let D := spec_additionals code_quirks (h_name_changes inp) (h_intf inp) (h_msg inp) v4 (h_services inp) in
  handle_query inp =
    if is_nil A then None
    else if negb (family_enabled (h_intf inp) v4) then None
    else Some (mkPacket
                 (if legacy inp then DUnicast (h_src_ip inp) (h_src_port inp) else DMulticast v4)
                 (mi_index (h_intf inp)) (if legacy inp then m_id (h_msg inp) else 0) 33792
                 (if legacy inp then map (fun q => (q_name q, q_type q)) (m_questions (h_msg inp)) else [])
                 (if legacy inp then map clear_flush A else A)
                 (if legacy inp then map clear_flush D else D)).
Proof.
  intros Hwf v4 A D. unfold handle_query. fold v4.
  pose proof (loop_ext inp v4 (og_new (N.lor flags_qr_response flags_aa)) Hwf) as Hl.
  fold A D in Hl.
  set (out := fold_left (question_step inp v4) (m_questions (h_msg inp)) (og_new (N.lor flags_qr_response flags_aa))) in *.
  destruct Hl as (Hf & Hi & Hm & Hq & Ha & Hd). simpl in Hf, Hi, Hm, Hq, Ha, Hd.
  rewrite Ha, respond_guard_pinned.
  destruct A as [|a A'] eqn:EA.
  { reflexivity. }
  cbn [is_nil length]. 
  assert (Hpos : (0 <? N.of_nat (S (length A'))) = true) by (apply N.ltb_lt; lia).
  rewrite Hpos. rewrite legacy_unicast_test_pinned. fold (legacy inp).
  unfold v4 at 1.
  destruct (legacy inp) eqn:El.
  - pose proof (fold_add_question (m_questions (h_msg inp)) (set_id out (m_id (h_msg inp)))) as Hfq.
    cbv zeta in Hfq. destruct Hfq as (K1 & K2 & K3 & K4 & K5 & K6).
    rewrite send_response_shape.
    2:{ unfold set_multicast, clear_cache_flush_bits; simpl. rewrite K5. simpl. rewrite Ha. discriminate. }
    fold v4. destruct (family_enabled (h_intf inp) v4); [|reflexivity]. cbn [negb].
    unfold wire_id, set_multicast, clear_cache_flush_bits; simpl.
    rewrite K1, K2, K4, K5, K6. simpl. rewrite Hf, Hq, Ha, Hd.
    reflexivity.
  - rewrite send_response_shape.
    2:{ simpl. rewrite Ha. discriminate. }
    fold v4. destruct (family_enabled (h_intf inp) v4); [|reflexivity]. cbn [negb].
    unfold wire_id; simpl. rewrite Hf, Hm, Hq, Ha, Hd.
    rewrite outgoing_multicast_default_pinned, wire_id_when_multicast_pinned. reflexivity.
Qed.

(* ---- theorem 1: the model is the specification with all deviations switched on -------------- *)

Lemma perm_is_nil {A} (l l' : list A) : Permutation l l' -> is_nil l = is_nil l'.
Proof.
  intros H. destruct l, l'; try reflexivity.
  - apply Permutation_nil in H. discriminate.
  - apply Permutation_sym, Permutation_nil in H. discriminate.
Qed.

Theorem model_is_spec_code inp : wf_input inp = true ->
  reaction_equiv (handle_query inp) (spec code_quirks inp).
Proof.
  intros Hwf. apply wf_input_entries in Hwf.
  rewrite (handle_query_shape inp Hwf). unfold spec. cbv zeta.
  pose proof (code_answers_perm inp (is_v4 (h_src_ip inp))) as Hp.
  rewrite (perm_is_nil _ _ Hp).
  destruct (is_nil (spec_answers _ _ _ _ _ _)); [exact I|].
  destruct (negb (family_enabled (h_intf inp) (is_v4 (h_src_ip inp)))); [exact I|].
  unfold reaction_equiv, packet_equiv. cbn [p_dest p_if p_id p_flags p_questions p_answers p_additionals].
  destruct (legacy inp); repeat split; try reflexivity; try apply Permutation_refl.
  - apply Permutation_map. exact Hp.
  - exact Hp.
Qed.

(* ---- theorem 2: outside the deviation classes the code's specification is the text ----------- *)

Lemma nodup_b_NoDup l : nodup_b l = true -> NoDup l.
Proof.
  induction l as [|x l IH]; simpl; intros H; [constructor|].
  apply andb_true_iff in H as [H1 H2]. constructor; [|apply IH; exact H2].
  intros Hin. apply mem_In in Hin. rewrite Hin in H1. discriminate.
Qed.

Section Clean.
Variable nc : list (bytes * bytes).
Variable intf : myintf.
Variable m : msg.
Variable v4 : bool.

Definition fam_ok (e : entry) : Prop :=
  is_announced (e_status e) = true ->
  forall a, In a (s_addrs (e_svc e)) -> addr_on_intf intf a = false \/ is_v4 a = v4.
Definition sub_ok (q : question) (e : entry) : Prop :=
  is_announced (e_status e) = true -> is_sub (e_svc e) (q_name q) = false.

Lemma link_addrs_clean e : fam_ok e -> is_announced (e_status e) = true ->
  link_addrs code_quirks intf v4 (e_svc e) = link_addrs text_quirks intf v4 (e_svc e).
Proof.
  intros Hf Ha. unfold link_addrs. cbn [k_family code_quirks text_quirks].
  apply filter_ext_in. intros a Hin. destruct (Hf Ha a Hin) as [H|H].
  - rewrite H, !andb_false_r. reflexivity.
  - rewrite H, eqb_reflx. reflexivity.
Qed.

Lemma answerable_clean e : fam_ok e ->
  answerable code_quirks intf v4 e = answerable text_quirks intf v4 e.
Proof.
  intros Hf. unfold answerable. destruct (is_announced (e_status e)) eqn:Ha; [|reflexivity].
  rewrite (link_addrs_clean e Hf Ha). reflexivity.
Qed.

Lemma answerable_announced k e : answerable k intf v4 e = true -> is_announced (e_status e) = true.
Proof. unfold answerable. intros H. apply andb_true_iff in H. tauto. Qed.

Lemma svc_additionals_clean e : fam_ok e -> is_announced (e_status e) = true ->
  svc_additionals code_quirks nc intf v4 (e_svc e) = svc_additionals text_quirks nc intf v4 (e_svc e).
Proof. intros Hf Ha. unfold svc_additionals. rewrite (link_addrs_clean e Hf Ha). reflexivity. Qed.

Lemma spec_ptr_entry_clean q e : fam_ok e -> sub_ok q e ->
  spec_ptr_entry code_quirks nc intf m v4 q e = spec_ptr_entry text_quirks nc intf m v4 q e.
Proof.
  intros Hf Hs. unfold spec_ptr_entry. rewrite (answerable_clean e Hf).
  destruct (answerable text_quirks intf v4 e) eqn:Ea; [|reflexivity].
  apply answerable_announced in Ea.
  rewrite (svc_additionals_clean e Hf Ea), (Hs Ea).
  destruct (beq (q_name q) (s_ty (e_svc e))); reflexivity.
Qed.

Lemma spec_inst_entry_clean q e : fam_ok e ->
  spec_inst_entry code_quirks nc intf m v4 q e = spec_inst_entry text_quirks nc intf m v4 q e.
Proof.
  intros Hf. unfold spec_inst_entry. rewrite (answerable_clean e Hf).
  destruct (inst_match nc q e); [|reflexivity]. cbn [andb].
  destruct (answerable text_quirks intf v4 e) eqn:Ea; [|reflexivity].
  apply answerable_announced in Ea. rewrite (link_addrs_clean e Hf Ea). reflexivity.
Qed.

Lemma spec_question_clean entries q :
  (forall e, In e entries -> fam_ok e) ->
  (q_type q =? 12 = true -> forall e, In e entries -> sub_ok q e) ->
  spec_question code_quirks nc intf m v4 entries q = spec_question text_quirks nc intf m v4 entries q.
Proof.
  intros He Hs. unfold spec_question. destruct (q_type q =? 12) eqn:Et.
  - f_equal; [f_equal|]; apply flat_map_ext_in; intros e Hin; rewrite spec_ptr_entry_clean; try reflexivity;
      try (apply He; exact Hin); apply Hs; auto.
  - f_equal; [f_equal|]; apply flat_map_ext_in; intros e Hin;
      rewrite spec_inst_entry_clean; try reflexivity; apply He; exact Hin.
Qed.
End Clean.

Lemma clean_components inp : clean inp = true ->
  let v4 := is_v4 (h_src_ip inp) in
  (forall e, In e (h_services inp) -> fam_ok (h_intf inp) v4 e) /\
  (forall q, In q (m_questions (h_msg inp)) -> q_type q =? 12 = true ->
             forall e, In e (h_services inp) -> sub_ok q e).
Proof.
  unfold clean. rewrite !andb_true_iff. intros (C2 & C3). cbv zeta.
  rewrite forallb_forall in C2, C3.
  assert (Hann : forall e, In e (h_services inp) -> is_announced (e_status e) = true ->
                 In e (filter (fun e => is_announced (e_status e)) (h_services inp))).
  { intros e Hin Ha. apply filter_In. split; assumption. }
  split.
  - intros e H Ha a Hina. specialize (C3 e (Hann e H Ha)). rewrite forallb_forall in C3.
    specialize (C3 a Hina). apply orb_true_iff in C3 as [C3|C3].
    + left. apply negb_true_iff in C3. exact C3.
    + right. apply eqb_prop in C3. exact C3.
  - intros q Hq Ht e He Ha. specialize (C2 q Hq). rewrite Ht in C2. cbn [negb orb] in C2.
    rewrite forallb_forall in C2. specialize (C2 e (Hann e He Ha)). apply negb_true_iff in C2. exact C2.
Qed.

Theorem spec_code_is_text_when_clean inp : clean inp = true ->
  spec code_quirks inp = spec text_quirks inp.
Proof.
  intros Hc. apply clean_components in Hc. cbv zeta in Hc. destruct Hc as (He & Hs).
  unfold spec. cbv zeta.
  assert (Hq : forall q, In q (m_questions (h_msg inp)) ->
            spec_question code_quirks (h_name_changes inp) (h_intf inp) (h_msg inp) (is_v4 (h_src_ip inp)) (h_services inp) q
            = spec_question text_quirks (h_name_changes inp) (h_intf inp) (h_msg inp) (is_v4 (h_src_ip inp)) (h_services inp) q).
  { intros q Hin. apply spec_question_clean; [exact He|]. intros Ht. apply Hs; assumption. }
  assert (Ha : spec_answers code_quirks (h_name_changes inp) (h_intf inp) (h_msg inp) (is_v4 (h_src_ip inp)) (h_services inp)
             = spec_answers text_quirks (h_name_changes inp) (h_intf inp) (h_msg inp) (is_v4 (h_src_ip inp)) (h_services inp)).
  { unfold spec_answers. apply flat_map_ext_in. intros q Hin. rewrite Hq; [reflexivity|exact Hin]. }
  assert (Hd : spec_additionals code_quirks (h_name_changes inp) (h_intf inp) (h_msg inp) (is_v4 (h_src_ip inp)) (h_services inp)
             = spec_additionals text_quirks (h_name_changes inp) (h_intf inp) (h_msg inp) (is_v4 (h_src_ip inp)) (h_services inp)).
  { unfold spec_additionals. apply flat_map_ext_in. intros q Hin. rewrite Hq; [reflexivity|exact Hin]. }
  rewrite Ha, Hd. reflexivity.
Qed.

(* ---- the executable checker accepts equivalent reactions ------------------------------------- *)

Lemma mset_eqb_perm a b : Permutation a b -> mset_eqb a b = true.
Proof.
  intros H. unfold mset_eqb. apply forallb_forall. intros x _.
  apply Nat.eqb_eq. apply (Permutation_count_occ rr_eq_dec). exact H.
Qed.

Lemma ip_eqb_refl a : ip_eqb a a = true.
Proof. destruct a; simpl; apply N.eqb_refl. Qed.

Lemma dest_eqb_refl d : dest_eqb d d = true.
Proof. destruct d; simpl; [apply eqb_reflx|rewrite ip_eqb_refl, N.eqb_refl; reflexivity]. Qed.

Lemma questions_eqb_refl l : questions_eqb l l = true.
Proof.
  induction l as [|[n t] l IH]; simpl; [reflexivity|].
  unfold ci_eq. rewrite beq_refl, N.eqb_refl, IH. reflexivity.
Qed.

Lemma reaction_equiv_eqb a b : reaction_equiv a b -> opt_packet_eqb a b = true.
Proof.
  destruct a as [p|], b as [q|]; simpl; try tauto.
  intros (H1 & H2 & H3 & H4 & H5 & H6 & H7). unfold packet_eqb.
  rewrite H1, H2, H3, H4, H5, dest_eqb_refl, !N.eqb_refl, questions_eqb_refl.
  rewrite !mset_eqb_perm; [reflexivity| |]; apply Permutation_map; assumption.
Qed.

Theorem response_characterised inp :
  wf_input inp = true -> clean inp = true -> chk_C06 inp (handle_query inp) = true.
Proof.
  intros Hwf Hc. unfold chk_C06. apply reaction_equiv_eqb.
  rewrite <- (spec_code_is_text_when_clean inp Hc). apply model_is_spec_code. exact Hwf.
Qed.

Theorem response_characterised_prop inp :
  wf_input inp = true -> clean inp = true -> reaction_equiv (handle_query inp) (spec text_quirks inp).
Proof.
  intros Hwf Hc. rewrite <- (spec_code_is_text_when_clean inp Hc). apply model_is_spec_code. exact Hwf.
Qed.

Theorem explained_by_code inp :
  wf_input inp = true -> explained_by code_quirks inp (handle_query inp) = true.
Proof. intros Hwf. apply reaction_equiv_eqb. apply model_is_spec_code. exact Hwf. Qed.

(* ---- legacy unicast and multicast replies ----------------------------------------------------- *)

Lemma Forall_clear_flush l : Forall (fun r => r_flush r = false) (map clear_flush l).
Proof. induction l; simpl; constructor; auto. Qed.

Theorem legacy_unicast inp p :
  wf_input inp = true -> handle_query inp = Some p -> h_src_port inp <> 5353 ->
  p_dest p = DUnicast (h_src_ip inp) (h_src_port inp) /\
  p_questions p = map (fun q => (q_name q, q_type q)) (m_questions (h_msg inp)) /\
  Forall (fun r => r_flush r = false) (p_answers p ++ p_additionals p) /\
  p_id p = m_id (h_msg inp).
Proof.
  intros Hwf Hq Hport. apply wf_input_entries in Hwf. rewrite (handle_query_shape inp Hwf) in Hq.
  cbv zeta in Hq.
  assert (Hl : legacy inp = true).
  { unfold legacy. apply negb_true_iff. apply N.eqb_neq. exact Hport. }
  rewrite Hl in Hq.
  destruct (is_nil _); [discriminate|]. destruct (negb _); [discriminate|].
  inversion Hq; subst p; clear Hq. cbn [p_dest p_questions p_answers p_additionals p_id].
  repeat split. apply Forall_app. split; apply Forall_clear_flush.
Qed.

Theorem multicast_reply inp p :
  wf_input inp = true -> handle_query inp = Some p -> h_src_port inp = 5353 ->
  p_dest p = DMulticast (is_v4 (h_src_ip inp)) /\ p_questions p = [] /\ p_id p = 0.
Proof.
  intros Hwf Hq Hport. apply wf_input_entries in Hwf. rewrite (handle_query_shape inp Hwf) in Hq.
  cbv zeta in Hq.
  assert (Hl : legacy inp = false) by (unfold legacy; rewrite Hport; reflexivity).
  rewrite Hl in Hq.
  destruct (is_nil _); [discriminate|]. destruct (negb _); [discriminate|].
  inversion Hq; subst p. cbn. repeat split.
Qed.

(* ---- silence ------------------------------------------------------------------------------------ *)

Lemma fold_left_id {A B} (step : B -> A -> B) (l : list A) (b : B) :
  (forall b x, In x l -> step b x = b) -> fold_left step l b = b.
Proof.
  induction l as [|x l IH]; simpl; intros H; [reflexivity|].
  rewrite H; [|left; reflexivity]. apply IH. intros b' y Hy. apply H. right. exact Hy.
Qed.

Lemma handle_query_no_answers inp :
  fold_left (question_step inp (is_v4 (h_src_ip inp))) (m_questions (h_msg inp))
            (og_new (N.lor flags_qr_response flags_aa)) = og_new (N.lor flags_qr_response flags_aa) ->
  handle_query inp = None.
Proof. intros H. unfold handle_query. rewrite H. reflexivity. Qed.

Theorem silent_for_unknown inp :
  (forall e, In e (h_services inp) -> is_announced (e_status e) = false) ->
  handle_query inp = None.
Proof.
  intros Hna. apply handle_query_no_answers. apply fold_left_id. intros og q _.
  unfold question_step.
  assert (Hp : fst (fold_left (ptr_step inp q (is_v4 (h_src_ip inp))) (h_services inp) (og, [])) = og).
  { rewrite fold_left_id; [reflexivity|]. intros [og' seen] e He. unfold ptr_step. rewrite (Hna e He). reflexivity. }
  assert (Ha : fold_left (addr_step inp q) (h_services inp) og = og).
  { apply fold_left_id. intros og' e He. unfold addr_step. rewrite (Hna e He). reflexivity. }
  destruct (q_type q =? TY_PTR); [exact Hp|].
  rewrite Ha.
  assert (Hog1 : (if (q_type q =? TY_A) || (q_type q =? TY_AAAA) || (q_type q =? TY_ANY) then og else og) = og)
    by (destruct (_ || _); reflexivity).
  rewrite Hog1.
  destruct (find _ (h_services inp)) as [e|] eqn:Ef; [|reflexivity].
  apply find_some in Ef as [He _]. rewrite (Hna e He). reflexivity.
Qed.

Definition no_address_on_link (intf : myintf) (s : service) : Prop :=
  forall a, In a (s_addrs s) -> addr_on_intf intf a = false.

Lemma filter_nil {A} (p : A -> bool) l : (forall x, In x l -> p x = false) -> filter p l = [].
Proof.
  induction l as [|x l IH]; simpl; intros H; [reflexivity|].
  rewrite (H x (or_introl eq_refl)). apply IH. intros y Hy. apply H. right. exact Hy.
Qed.

Lemma no_address_v4 intf s : no_address_on_link intf s -> addrs_on_intf_v4 (s_addrs s) intf = [].
Proof. intros H. apply filter_nil. intros a Ha. rewrite (H a Ha). apply andb_false_r. Qed.
Lemma no_address_v6 intf s : no_address_on_link intf s -> addrs_on_intf_v6 (s_addrs s) intf = [].
Proof. intros H. apply filter_nil. intros a Ha. rewrite (H a Ha). apply andb_false_r. Qed.

Theorem silent_without_address inp :
  (forall e, In e (h_services inp) -> is_announced (e_status e) = true ->
             no_address_on_link (h_intf inp) (e_svc e)) ->
  (forall q, In q (m_questions (h_msg inp)) -> q_type q = 12 -> q_name q <> META_QUERY) ->
  handle_query inp = None.
Proof.
  intros Hno Hmeta. apply handle_query_no_answers. apply fold_left_id. intros og q Hq.
  unfold question_step.
  assert (Hia : forall e v4, In e (h_services inp) -> is_announced (e_status e) = true ->
                intf_addrs_of v4 (e_svc e) (h_intf inp) = []).
  { intros e v4 He Ha. unfold intf_addrs_of. destruct v4;
      [apply no_address_v4|apply no_address_v6]; apply Hno; assumption. }
  destruct (q_type q =? TY_PTR) eqn:Et.
  - rewrite fold_left_id; [reflexivity|]. intros [og' seen] e He. unfold ptr_step.
    destruct (is_announced (e_status e)) eqn:Ea; [|reflexivity]. cbn [negb].
    destruct (matches_type_or_subtype (e_svc e) (q_name q)).
    + unfold add_answer_with_additionals. rewrite (Hia e _ He Ea). reflexivity.
    + destruct (beq (q_name q) META_QUERY) eqn:Em; [|reflexivity].
      exfalso. apply beq_eq in Em. apply (Hmeta q Hq); [|exact Em].
      apply N.eqb_eq in Et. exact Et.
  - assert (Ha : fold_left (addr_step inp q) (h_services inp) og = og).
    { apply fold_left_id. intros og' e He. unfold addr_step.
      destruct (is_announced (e_status e)) eqn:Ea; [|reflexivity]. cbn [negb].
      destruct (beq _ _); [|reflexivity].
      rewrite (no_address_v4 _ _ (Hno e He Ea)), (no_address_v6 _ _ (Hno e He Ea)).
      destruct (_ || _), (_ || _); reflexivity. }
    assert (Hog1 : (if (q_type q =? TY_A) || (q_type q =? TY_AAAA) || (q_type q =? TY_ANY)
                    then fold_left (addr_step inp q) (h_services inp) og else og) = og)
      by (rewrite Ha; destruct (_ || _); reflexivity).
    rewrite Hog1.
    destruct (find _ (h_services inp)) as [e|] eqn:Ef; [|reflexivity].
    apply find_some in Ef as [He _].
    destruct (is_announced (e_status e)) eqn:Ea; [|reflexivity]. cbn [negb].
    rewrite (Hia e _ He Ea). reflexivity.
Qed.

(* ---- every address record of a response is an address of a registered service that lies in a
        subnet of the receiving interface (C18: only those addresses are sent there) --------------- *)

Definition addr_rec_on_link (inp : hq_input) (r : rr) : Prop :=
  match r_data r with
  | RAddr o => exists e a, In e (h_services inp) /\ In a (s_addrs (e_svc e)) /\
                           addr_on_intf (h_intf inp) a = true /\ o = ip_octets a
  | _ => True
  end.

Lemma in_unknown m l r : In r (unknown m l) -> In r l.
Proof. unfold unknown. intros H. apply filter_In in H. tauto. Qed.

Lemma sp_addr_on_link inp e host l :
  In e (h_services inp) ->
  (forall a, In a l -> In a (s_addrs (e_svc e)) /\ addr_on_intf (h_intf inp) a = true) ->
  forall r, In r (map (sp_addr host) l) -> addr_rec_on_link inp r.
Proof.
  intros He Hl r Hr. apply in_map_iff in Hr as [a [<- Ha]]. unfold addr_rec_on_link. simpl.
  exists e, a. destruct (Hl a Ha). auto.
Qed.

Lemma link_addrs_on_link k intf v4 s a :
  In a (link_addrs k intf v4 s) -> In a (s_addrs s) /\ addr_on_intf intf a = true.
Proof. unfold link_addrs. intros H. apply filter_In in H as [H1 H2]. apply andb_true_iff in H2. tauto. Qed.
Lemma link_v4_on_link intf s a : In a (link_v4 intf s) -> In a (s_addrs s) /\ addr_on_intf intf a = true.
Proof. unfold link_v4. intros H. apply filter_In in H as [H1 H2]. apply andb_true_iff in H2. tauto. Qed.
Lemma link_v6_on_link intf s a : In a (link_v6 intf s) -> In a (s_addrs s) /\ addr_on_intf intf a = true.
Proof. unfold link_v6. intros H. apply filter_In in H as [H1 H2]. apply andb_true_iff in H2. tauto. Qed.

Lemma spec_question_on_link k inp v4 q r :
  In r (fst (spec_question k (h_name_changes inp) (h_intf inp) (h_msg inp) v4 (h_services inp) q)
        ++ snd (spec_question k (h_name_changes inp) (h_intf inp) (h_msg inp) v4 (h_services inp) q)) ->
  addr_rec_on_link inp r.
Proof.
  unfold spec_question. destruct (q_type q =? 12); cbn [fst snd]; intros H;
    repeat (apply in_app_or in H as [H|H]).
  - (* PTR answers of services *)
    apply in_flat_map in H as [e [He H]]. unfold spec_ptr_entry in H.
    destruct (answerable _ _ _ e); [|destruct H].
    unfold with_additionals in H.
    repeat match type of H with
           | context [if ?c then _ else _] => destruct c; cbn [fst snd] in H
           end; try destruct H as [<-|[]]; try destruct H; exact I.
  - (* meta *)
    unfold spec_meta in H. destruct (beq _ _); [|destruct H].
    apply in_unknown, in_map_iff in H as [t [<- _]]. exact I.
  - (* additionals of PTR answers *)
    apply in_flat_map in H as [e [He H]]. unfold spec_ptr_entry in H.
    destruct (answerable _ _ _ e); [|destruct H].
    assert (Hadds : forall r, In r (sub_ptr (h_name_changes inp) (e_svc e)
                                    ++ svc_additionals k (h_name_changes inp) (h_intf inp) v4 (e_svc e)) ->
                              addr_rec_on_link inp r).
    { intros r0 H0. apply in_app_or in H0 as [H0|H0].
      - unfold sub_ptr in H0. destruct (s_sub (e_svc e)); [destruct H0 as [<-|[]]; exact I|destruct H0].
      - unfold svc_additionals in H0. destruct H0 as [<-|[<-|H0]]; try exact I.
        eapply sp_addr_on_link; [exact He| |exact H0]. intros a Ha. eapply link_addrs_on_link. exact Ha. }
    unfold with_additionals in H.
    repeat match type of H with
           | context [if ?c then _ else _] => destruct c; cbn [fst snd] in H
           end; try (destruct H; fail); try (apply Hadds; exact H).
    apply Hadds. apply in_or_app. right. exact H.
  - (* address answers *)
    apply in_flat_map in H as [e [He H]]. unfold spec_addr_entry in H.
    destruct (_ && _); [|destruct H]. apply in_unknown in H.
    eapply sp_addr_on_link; [exact He| |exact H]. intros a Ha. apply in_app_or in Ha as [Ha|Ha].
    + destruct ((q_type q =? 1) || (q_type q =? 255)); [eapply link_v4_on_link; exact Ha|destruct Ha].
    + destruct ((q_type q =? 28) || (q_type q =? 255)); [eapply link_v6_on_link; exact Ha|destruct Ha].
  - (* SRV / TXT answers *)
    apply in_flat_map in H as [e [He H]]. unfold spec_inst_entry in H.
    destruct (_ && _); [|destruct H]. cbn [fst] in H. apply in_unknown in H.
    apply in_app_or in H as [H|H].
    + destruct ((q_type q =? 33) || (q_type q =? 255)); [destruct H as [<-|[]]; exact I|destruct H].
    + destruct ((q_type q =? 16) || (q_type q =? 255)); [destruct H as [<-|[]]; exact I|destruct H].
  - (* address additionals of an SRV question *)
    apply in_flat_map in H as [e [He H]]. unfold spec_inst_entry in H.
    destruct (_ && _); [|destruct H]. cbn [snd] in H.
    destruct ((q_type q =? 33) && _); [|destruct H].
    eapply sp_addr_on_link; [exact He| |exact H]. intros a Ha. eapply link_addrs_on_link. exact Ha.
Qed.

Lemma spec_lists_on_link k inp v4 r :
  In r (spec_answers k (h_name_changes inp) (h_intf inp) (h_msg inp) v4 (h_services inp)
        ++ spec_additionals k (h_name_changes inp) (h_intf inp) (h_msg inp) v4 (h_services inp)) ->
  addr_rec_on_link inp r.
Proof.
  unfold spec_answers, spec_additionals. intros H.
  apply in_app_or in H as [H|H]; apply in_flat_map in H as [q [_ H]];
    apply (spec_question_on_link k inp v4 q); apply in_or_app; [left|right]; exact H.
Qed.

Lemma addr_rec_clear_flush inp r : addr_rec_on_link inp (clear_flush r) <-> addr_rec_on_link inp r.
Proof. unfold addr_rec_on_link, clear_flush. simpl. tauto. Qed.

Theorem response_carries_link_addresses inp p :
  wf_input inp = true -> handle_query inp = Some p ->
  Forall (addr_rec_on_link inp) (p_answers p ++ p_additionals p).
Proof.
  intros Hwf Hq. pose proof (model_is_spec_code inp Hwf) as He. rewrite Hq in He.
  unfold spec in He. cbv zeta in He.
  destruct (is_nil (spec_answers _ _ _ _ _ _)); [destruct He|].
  destruct (negb _); [destruct He|].
  destruct He as (_ & _ & _ & _ & _ & Ha & Hd). cbn [p_answers p_additionals] in Ha, Hd.
  apply Forall_forall. intros r Hr.
  assert (Hspec : forall r0,
            In r0 (spec_answers code_quirks (h_name_changes inp) (h_intf inp) (h_msg inp) (is_v4 (h_src_ip inp)) (h_services inp)) \/
            In r0 (spec_additionals code_quirks (h_name_changes inp) (h_intf inp) (h_msg inp) (is_v4 (h_src_ip inp)) (h_services inp)) ->
            addr_rec_on_link inp r0).
  { intros r0 H0. apply (spec_lists_on_link code_quirks inp (is_v4 (h_src_ip inp))). apply in_or_app. exact H0. }
  apply in_app_or in Hr as [Hr|Hr].
  - eapply Permutation_in in Hr; [|exact Ha].
    destruct (legacy inp).
    + apply in_map_iff in Hr as [r0 [<- Hr]]. apply addr_rec_clear_flush. apply Hspec. left. exact Hr.
    + apply Hspec. left. exact Hr.
  - eapply Permutation_in in Hr; [|exact Hd].
    destruct (legacy inp).
    + apply in_map_iff in Hr as [r0 [<- Hr]]. apply addr_rec_clear_flush. apply Hspec. right. exact Hr.
    + apply Hspec. right. exact Hr.
Qed.
