(* Proofs about the responder model (Model/Responder.v) and its specification
   (Model/ResponderSpec.v): C06. *)
From Coq Require Import List NArith Bool Lia Permutation.
From Mdns Require Import Res Bytes Rec Intf Responder ResponderSpec ParamsResponder ParamsResponderPinned.
Import ListNotations.
Open Scope N_scope.

Local Opaque META_QUERY.

(* ---- small facts ---------------------------------------------------------------------------- *)

Lemma beq_sym a b : beq a b = beq b a.
Proof.
  destruct (beq a b) eqn:E.
  - apply beq_eq in E. subst. symmetry. apply beq_refl.
  - destruct (beq b a) eqn:E'; [|reflexivity]. apply beq_eq in E'. subst.
    rewrite beq_refl in E. discriminate.
Qed.

Lemma is_nil_true {A} (l : list A) : is_nil l = true <-> l = [].
Proof. destruct l; simpl; split; congruence. Qed.

Lemma flat_map_app2 {A B} (f g : A -> list B) (l : list A) :
  Permutation (flat_map (fun x => f x ++ g x) l) (flat_map f l ++ flat_map g l).
Proof.
  induction l as [|x l IH]; simpl; [constructor|].
  rewrite <- !app_assoc.
  apply Permutation_app_head.
  eapply Permutation_trans; [apply Permutation_app_head; exact IH|].
  apply Permutation_app_swap_app.
Qed.

Lemma flat_map_nil {A B} (f : A -> list B) (l : list A) :
  (forall x, In x l -> f x = []) -> flat_map f l = [].
Proof.
  induction l as [|x l IH]; simpl; intros H; [reflexivity|].
  rewrite (H x (or_introl eq_refl)), IH; [reflexivity|]. intros y Hy. apply H. right. exact Hy.
Qed.

Lemma flat_map_ext_in {A B} (f g : A -> list B) (l : list A) :
  (forall x, In x l -> f x = g x) -> flat_map f l = flat_map g l.
Proof.
  induction l as [|x l IH]; simpl; intros H; [reflexivity|].
  rewrite (H x (or_introl eq_refl)), IH; [reflexivity|]. intros y Hy. apply H. right. exact Hy.
Qed.

(* ---- records: the model's constructors give the literal values of the text ----------------- *)

Lemma wf_service_fields s : wf_service s = true ->
  s_host_ttl s = 120 /\ s_other_ttl s = 4500 /\ s_priority s = 0 /\ s_weight s = 0.
Proof.
  unfold wf_service. rewrite !andb_true_iff, !N.eqb_eq. tauto.
Qed.

Lemma ptr_record_sp s n a : wf_service s = true -> ptr_record n (s_other_ttl s) a = sp_ptr n a.
Proof. intros H. apply wf_service_fields in H as (_ & H & _). rewrite H. reflexivity. Qed.

Lemma srv_record_sp s n h : wf_service s = true -> srv_record n s h = sp_srv n (s_port s) h.
Proof.
  intros H. apply wf_service_fields in H as (H1 & _ & H3 & H4).
  unfold srv_record. rewrite H1, H3, H4. reflexivity.
Qed.

Lemma txt_record_sp s n : wf_service s = true -> txt_record n s = sp_txt n (s_txt s).
Proof.
  intros H. apply wf_service_fields in H as (_ & H2 & _). unfold txt_record. rewrite H2. reflexivity.
Qed.

Lemma addr_record_sp s n a : wf_service s = true -> addr_record n s a = sp_addr n a.
Proof.
  intros H. apply wf_service_fields in H as (H1 & _). unfold addr_record, sp_addr, addr_rr_type.
  rewrite H1. destruct (is_v4 a); reflexivity.
Qed.

Lemma suppressed_known r m : suppressed_by r m = known m r.
Proof. reflexivity. Qed.

(* ---- what a step appends to the outgoing message ------------------------------------------- *)

Definition ext (og : outgoing) (a d : list rr) (og' : outgoing) : Prop :=
  og_flags og' = og_flags og /\ og_id og' = og_id og /\ og_multicast og' = og_multicast og /\
  og_questions og' = og_questions og /\ og_answers og' = og_answers og ++ a /\
  og_additionals og' = og_additionals og ++ d.

Lemma ext_refl og : ext og [] [] og.
Proof. unfold ext. rewrite !app_nil_r. tauto. Qed.

Lemma ext_trans og a d og1 a' d' og2 :
  ext og a d og1 -> ext og1 a' d' og2 -> ext og (a ++ a') (d ++ d') og2.
Proof.
  unfold ext. intros (H1 & H2 & H3 & H4 & H5 & H6) (K1 & K2 & K3 & K4 & K5 & K6).
  rewrite K1, K2, K3, K4, K5, K6, H1, H2, H3, H4, H5, H6, !app_assoc. tauto.
Qed.

Lemma ext_eq og a d og' a' d' : ext og a d og' -> a = a' -> d = d' -> ext og a' d' og'.
Proof. intros H -> ->. exact H. Qed.

Lemma ext_add_additional og r : ext og [] [r] (add_additional og r).
Proof. unfold ext, add_additional. simpl. rewrite app_nil_r. tauto. Qed.

Lemma ext_add_answer og m r :
  ext og (unknown m [r]) [] (fst (add_answer og m r)) /\
  snd (add_answer og m r) = negb (known m r).
Proof.
  unfold add_answer, unknown. simpl. rewrite suppressed_known.
  destruct (known m r); simpl; unfold ext; simpl; rewrite ?app_nil_r; tauto.
Qed.

Lemma ext_fold {A} (step : outgoing -> A -> outgoing) (fa fd : A -> list rr) (l : list A) :
  (forall og x, In x l -> ext og (fa x) (fd x) (step og x)) ->
  forall og, ext og (flat_map fa l) (flat_map fd l) (fold_left step l og).
Proof.
  induction l as [|x l IH]; simpl; intros H og; [apply ext_refl|].
  eapply ext_trans; [apply H; left; reflexivity|].
  apply IH. intros og' y Hy. apply H. right. exact Hy.
Qed.

Lemma ext_fold_additional {A} (f : A -> rr) (l : list A) og :
  ext og [] (map f l) (fold_left (fun o a => add_additional o (f a)) l og).
Proof.
  eapply ext_eq; [apply (ext_fold (fun o a => add_additional o (f a)) (fun _ => []) (fun a => [f a]))| |].
  - intros og' x _. apply ext_add_additional.
  - apply flat_map_nil. reflexivity.
  - induction l; simpl; congruence.
Qed.

Lemma unknown_app m a b : unknown m (a ++ b) = unknown m a ++ unknown m b.
Proof. apply filter_app. Qed.

Lemma ext_fold_answer {A} m (f : A -> rr) (l : list A) og :
  ext og (unknown m (map f l)) [] (fold_left (fun o a => fst (add_answer o m (f a))) l og).
Proof.
  eapply ext_eq; [apply (ext_fold (fun o a => fst (add_answer o m (f a))) (fun a => unknown m [f a]) (fun _ => []))| |].
  - intros og' x _. apply ext_add_answer.
  - induction l as [|x l IH]; [reflexivity|].
    cbn [map flat_map]. rewrite IH.
    change (f x :: map f l) with ([f x] ++ map f l). rewrite unknown_app. reflexivity.
  - apply flat_map_nil. reflexivity.
Qed.

(* ---- add_answer_with_additionals ----------------------------------------------------------- *)

Lemma link_addrs_code intf v4t s :
  link_addrs code_quirks intf v4t s = intf_addrs_of v4t s intf.
Proof.
  unfold link_addrs, intf_addrs_of, addrs_on_intf_v4, addrs_on_intf_v6. simpl.
  destruct v4t; apply filter_ext; intros a; unfold is_v6; destruct (is_v4 a); reflexivity.
Qed.

Lemma awa_ext og m s intf nc v4 : wf_service s = true ->
  let ia := intf_addrs_of v4 s intf in
  let c := if is_nil ia then ([], [])
           else with_additionals m (sp_ptr (s_ty s) (cur_inst nc s))
                  (sub_ptr nc s ++ svc_additionals code_quirks nc intf v4 s) in
  ext og (fst c) (snd c) (add_answer_with_additionals og m s intf nc v4).
Proof.
  intros Hwf ia c. subst c. unfold add_answer_with_additionals. fold ia.
  destruct (is_nil ia) eqn:En; [apply ext_refl|].
  rewrite (ptr_record_sp s _ _ Hwf).
  pose proof (ext_add_answer og m (sp_ptr (s_ty s) (resolve_name nc (s_fullname s)))) as [Ha Hb].
  destruct (add_answer og m (sp_ptr (s_ty s) (resolve_name nc (s_fullname s)))) as [og1 added] eqn:Ea.
  simpl in Ha, Hb. unfold with_additionals, cur_inst.
  unfold unknown in Ha. simpl in Ha.
  destruct (known m (sp_ptr (s_ty s) (resolve_name nc (s_fullname s)))) eqn:Ek; simpl in *; subst added; simpl.
  - exact Ha.
  - (* the PTR was added: additionals follow *)
    assert (Hsub : ext og1 [] (sub_ptr nc s)
              (match s_sub s with
               | Some sub => add_additional og1 (ptr_record sub (s_other_ttl s) (resolve_name nc (s_fullname s)))
               | None => og1 end)).
    { unfold sub_ptr, cur_inst. destruct (s_sub s).
      - rewrite (ptr_record_sp s _ _ Hwf). apply ext_add_additional.
      - apply ext_refl. }
    set (og2 := match s_sub s with Some sub => _ | None => og1 end) in *.
    eapply ext_eq.
    + eapply ext_trans; [exact Ha|].
      eapply ext_trans; [exact Hsub|].
      eapply ext_trans; [apply ext_add_additional|].
      eapply ext_trans; [apply ext_add_additional|].
      apply ext_fold_additional.
    + simpl. reflexivity.
    + simpl. unfold svc_additionals, cur_inst, cur_host.
      rewrite (srv_record_sp s _ _ Hwf), (txt_record_sp s _ Hwf), link_addrs_code.
      fold ia. simpl.
      f_equal. f_equal. f_equal. apply map_ext. intros a. apply addr_record_sp. exact Hwf.
Qed.

(* ---- the PTR arm ---------------------------------------------------------------------------- *)

(* the meta-query PTR a single entry contributes in the code *)
Definition meta_part (m : msg) (q : question) (e : entry) : list rr :=
  if meta_entry e && beq (q_name q) META_QUERY
  then unknown m [sp_ptr (q_name q) (s_ty (e_svc e))] else [].

Lemma answerable_code intf v4 e :
  answerable code_quirks intf v4 e
  = is_announced (e_status e) && negb (is_nil (intf_addrs_of v4 (e_svc e) intf)).
Proof. unfold answerable. rewrite link_addrs_code. reflexivity. Qed.

Lemma meta_part_matching m q e :
  matches_type_or_subtype (e_svc e) (q_name q) = true -> meta_part m q e = [].
Proof.
  intros H. unfold meta_part, meta_entry.
  destruct (beq (q_name q) META_QUERY) eqn:Eq; [|rewrite andb_false_r; reflexivity].
  apply beq_eq in Eq. rewrite <- Eq, H. rewrite andb_false_r. reflexivity.
Qed.

Lemma meta_part_nonmatching m q e :
  is_announced (e_status e) = true -> matches_type_or_subtype (e_svc e) (q_name q) = false ->
  meta_part m q e = if beq (q_name q) META_QUERY
                    then unknown m [sp_ptr (q_name q) (s_ty (e_svc e))] else [].
Proof.
  intros Ha H. unfold meta_part, meta_entry. rewrite Ha.
  destruct (beq (q_name q) META_QUERY) eqn:Eq; [|rewrite andb_false_r; reflexivity].
  apply beq_eq in Eq. rewrite <- Eq, H. reflexivity.
Qed.

Lemma spec_ptr_entry_code nc intf m v4 q e :
  spec_ptr_entry code_quirks nc intf m v4 q e
  = if is_announced (e_status e) && matches_type_or_subtype (e_svc e) (q_name q)
    then (if is_nil (intf_addrs_of v4 (e_svc e) intf) then ([], [])
          else with_additionals m (sp_ptr (s_ty (e_svc e)) (cur_inst nc (e_svc e)))
                 (sub_ptr nc (e_svc e) ++ svc_additionals code_quirks nc intf v4 (e_svc e)))
    else ([], []).
Proof.
  unfold spec_ptr_entry. rewrite answerable_code. unfold matches_type_or_subtype, is_sub.
  cbn [k_sub_answer code_quirks].
  destruct (is_announced (e_status e)); cbn [andb]; [|reflexivity].
  destruct (is_nil (intf_addrs_of v4 (e_svc e) intf)); cbn [negb].
  - destruct (beq (q_name q) (s_ty (e_svc e)) || _); reflexivity.
  - destruct (beq (q_name q) (s_ty (e_svc e))); cbn [orb]; [reflexivity|].
    destruct (s_sub (e_svc e)); [|reflexivity]. destruct (beq b (q_name q)); reflexivity.
Qed.

Lemma ptr_step_ext inp q v4 og e : wf_service (e_svc e) = true ->
  let c := spec_ptr_entry code_quirks (h_name_changes inp) (h_intf inp) (h_msg inp) v4 q e in
  ext og (fst c ++ meta_part (h_msg inp) q e) (snd c) (ptr_step inp q v4 og e).
Proof.
  intros Hwf c. subst c. unfold ptr_step. rewrite spec_ptr_entry_code.
  destruct (is_announced (e_status e)) eqn:Ea; cbn [negb andb].
  2:{ unfold meta_part, meta_entry. rewrite Ea. apply ext_refl. }
  destruct (matches_type_or_subtype (e_svc e) (q_name q)) eqn:Em.
  - rewrite (meta_part_matching _ _ _ Em), app_nil_r.
    pose proof (awa_ext og (h_msg inp) (e_svc e) (h_intf inp) (h_name_changes inp) v4 Hwf) as Hawa.
    exact Hawa.
  - rewrite (meta_part_nonmatching _ _ _ Ea Em). cbn [fst snd app].
    destruct (beq (q_name q) META_QUERY); [|apply ext_refl].
    rewrite (ptr_record_sp _ _ _ Hwf). apply ext_add_answer.
Qed.

(* ---- the A / AAAA / ANY arm ----------------------------------------------------------------- *)

Lemma addr_step_ext inp q og e : wf_service (e_svc e) = true ->
  ext og (spec_addr_entry (h_name_changes inp) (h_intf inp) (h_msg inp) q e) [] (addr_step inp q og e).
Proof.
  intros Hwf. unfold addr_step, spec_addr_entry, ci_eq, cur_host.
  destruct (is_announced (e_status e)); cbn [negb andb]; [|apply ext_refl].
  rewrite (beq_sym (lower (q_name q))).
  destruct (beq (lower (resolve_name (h_name_changes inp) (s_host (e_svc e)))) (lower (q_name q)));
    [|apply ext_refl].
  eapply ext_eq; [apply ext_fold_answer| |reflexivity].
  f_equal. erewrite map_ext; [reflexivity|]. intros a. apply addr_record_sp. exact Hwf.
Qed.

(* ---- add_answer_of_service and the lookup of the instance ----------------------------------- *)

Lemma aaos_ext og m name s qtype ia : wf_service s = true ->
  ext og
    (unknown m ((if (qtype =? 33) || (qtype =? 255) then [sp_srv name (s_port s) (s_host s)] else [])
                ++ (if (qtype =? 16) || (qtype =? 255) then [sp_txt name (s_txt s)] else [])))
    (if qtype =? 33 then map (sp_addr (s_host s)) ia else [])
    (add_answer_of_service og m name s qtype ia).
Proof.
  intros Hwf. unfold add_answer_of_service.
  change TY_SRV with 33. change TY_ANY with 255. change TY_TXT with 16.
  rewrite unknown_app.
  set (og1 := if (qtype =? 33) || (qtype =? 255) then _ else og).
  assert (H1 : ext og (unknown m (if (qtype =? 33) || (qtype =? 255)
                                  then [sp_srv name (s_port s) (s_host s)] else [])) [] og1).
  { subst og1. destruct ((qtype =? 33) || (qtype =? 255)).
    - rewrite (srv_record_sp _ _ _ Hwf). apply ext_add_answer.
    - apply ext_refl. }
  set (og2 := if (qtype =? 16) || (qtype =? 255) then _ else og1).
  assert (H2 : ext og1 (unknown m (if (qtype =? 16) || (qtype =? 255)
                                   then [sp_txt name (s_txt s)] else [])) [] og2).
  { subst og2. destruct ((qtype =? 16) || (qtype =? 255)).
    - rewrite (txt_record_sp _ _ Hwf). apply ext_add_answer.
    - apply ext_refl. }
  destruct (qtype =? 33).
  - eapply ext_eq; [eapply ext_trans; [exact H1|eapply ext_trans; [exact H2|apply ext_fold_additional]]| |].
    + rewrite app_nil_r. reflexivity.
    + cbn [app]. apply map_ext. intros a. apply addr_record_sp. exact Hwf.
  - eapply ext_eq; [eapply ext_trans; [exact H1|exact H2]|reflexivity|reflexivity].
Qed.

Lemma spec_inst_entry_code nc intf m v4 q e :
  spec_inst_entry code_quirks nc intf m v4 q e
  = if beq (resolve_name nc (e_key e)) (lower (q_name q))
    then if is_announced (e_status e)
         then if is_nil (intf_addrs_of v4 (e_svc e) intf) then ([], [])
              else (unknown m ((if (q_type q =? 33) || (q_type q =? 255)
                                then [sp_srv (q_name q) (s_port (e_svc e)) (s_host (e_svc e))] else [])
                               ++ (if (q_type q =? 16) || (q_type q =? 255)
                                   then [sp_txt (q_name q) (s_txt (e_svc e))] else [])),
                    if q_type q =? 33
                    then map (sp_addr (s_host (e_svc e))) (intf_addrs_of v4 (e_svc e) intf) else [])
         else ([], [])
    else ([], []).
Proof.
  unfold spec_inst_entry, inst_match. rewrite answerable_code, link_addrs_code.
  cbn [k_lookup_lower k_srv_old_host code_quirks].
  destruct (beq (resolve_name nc (e_key e)) (lower (q_name q))); cbn [andb]; [|reflexivity].
  destruct (is_announced (e_status e)); cbn [andb]; [|reflexivity].
  destruct (is_nil (intf_addrs_of v4 (e_svc e) intf)); reflexivity.
Qed.

(* at most one entry answers to a (renamed) key *)
Lemma find_unique_flat_map {B} (g : entry -> bytes) (x : bytes) (f : entry -> list B) (l : list entry) :
  nodup_b (map g l) = true ->
  match find (fun e => beq (g e) x) l with Some e => f e | None => [] end
  = flat_map (fun e => if beq (g e) x then f e else []) l.
Proof.
  induction l as [|e l IH]; simpl; intros H; [reflexivity|].
  apply andb_true_iff in H as [H1 H2].
  destruct (beq (g e) x) eqn:E.
  - rewrite flat_map_nil; [rewrite app_nil_r; reflexivity|].
    intros y Hy. destruct (beq (g y) x) eqn:Ey; [|reflexivity].
    apply beq_eq in E, Ey. exfalso.
    apply negb_true_iff in H1. assert (mem (g e) (map g l) = true); [|congruence].
    apply mem_In. rewrite E, <- Ey. apply in_map. exact Hy.
  - simpl. apply IH. exact H2.
Qed.

Lemma inst_ext inp q v4 og :
  (forall e, In e (h_services inp) -> wf_service (e_svc e) = true) ->
  nodup_b (map (fun e => resolve_name (h_name_changes inp) (e_key e)) (h_services inp)) = true ->
  ext og
    (flat_map (fun e => fst (spec_inst_entry code_quirks (h_name_changes inp) (h_intf inp) (h_msg inp) v4 q e))
              (h_services inp))
    (flat_map (fun e => snd (spec_inst_entry code_quirks (h_name_changes inp) (h_intf inp) (h_msg inp) v4 q e))
              (h_services inp))
    (match find (fun e => beq (resolve_name (h_name_changes inp) (e_key e)) (lower (q_name q))) (h_services inp) with
     | None => og
     | Some e =>
       if negb (is_announced (e_status e)) then og
       else
         let intf_addrs := intf_addrs_of v4 (e_svc e) (h_intf inp) in
         if is_nil intf_addrs then og
         else add_answer_of_service og (h_msg inp) (q_name q) (e_svc e) (q_type q) intf_addrs
     end).
Proof.
  intros Hwf Hnd.
  pose (g := fun e => resolve_name (h_name_changes inp) (e_key e)).
  pose (c := fun e => spec_inst_entry code_quirks (h_name_changes inp) (h_intf inp) (h_msg inp) v4 q e).
  assert (Ha : flat_map (fun e => fst (c e)) (h_services inp)
               = match find (fun e => beq (g e) (lower (q_name q))) (h_services inp) with
                 | Some e => fst (c e) | None => [] end).
  { rewrite (find_unique_flat_map g _ (fun e => fst (c e)) _ Hnd).
    apply flat_map_ext_in. intros e _. subst c g. cbv beta. rewrite spec_inst_entry_code.
    destruct (beq _ _); reflexivity. }
  assert (Hd : flat_map (fun e => snd (c e)) (h_services inp)
               = match find (fun e => beq (g e) (lower (q_name q))) (h_services inp) with
                 | Some e => snd (c e) | None => [] end).
  { rewrite (find_unique_flat_map g _ (fun e => snd (c e)) _ Hnd).
    apply flat_map_ext_in. intros e _. subst c g. cbv beta. rewrite spec_inst_entry_code.
    destruct (beq _ _); reflexivity. }
  subst c g. cbv beta in Ha, Hd. rewrite Ha, Hd. clear Ha Hd.
  destruct (find (fun e => beq (resolve_name (h_name_changes inp) (e_key e)) (lower (q_name q))) (h_services inp))
    as [e|] eqn:Ef; [|apply ext_refl].
  apply find_some in Ef as [Hin Hk]. rewrite spec_inst_entry_code, Hk.
  destruct (is_announced (e_status e)); cbn [negb]; [|apply ext_refl].
  cbv zeta. destruct (is_nil (intf_addrs_of v4 (e_svc e) (h_intf inp))); [apply ext_refl|].
  cbn [fst snd]. apply aaos_ext. apply Hwf. exact Hin.
Qed.

(* ---- one question ---------------------------------------------------------------------------- *)

(* the answers in the order the code appends them *)
Definition code_question_answers (inp : hq_input) (v4 : bool) (q : question) : list rr :=
  if q_type q =? 12 then
    flat_map (fun e => fst (spec_ptr_entry code_quirks (h_name_changes inp) (h_intf inp) (h_msg inp) v4 q e)
                       ++ meta_part (h_msg inp) q e) (h_services inp)
  else fst (spec_question code_quirks (h_name_changes inp) (h_intf inp) (h_msg inp) v4 (h_services inp) q).

Definition wf_entries (inp : hq_input) : Prop :=
  (forall e, In e (h_services inp) -> wf_service (e_svc e) = true) /\
  nodup_b (map (fun e => resolve_name (h_name_changes inp) (e_key e)) (h_services inp)) = true.

Lemma wf_input_entries inp : wf_input inp = true -> wf_entries inp.
Proof.
  unfold wf_input, wf_entries. rewrite andb_true_iff. intros [H1 H2]. split; [|exact H2].
  intros e He. rewrite forallb_forall in H1. apply H1 in He. apply andb_true_iff in He. tauto.
Qed.

Lemma question_step_ext inp v4 og q : wf_entries inp ->
  ext og (code_question_answers inp v4 q)
      (snd (spec_question code_quirks (h_name_changes inp) (h_intf inp) (h_msg inp) v4 (h_services inp) q))
      (question_step inp v4 og q).
Proof.
  intros [Hwf Hnd]. unfold question_step, code_question_answers, spec_question.
  change TY_PTR with 12. change TY_A with 1. change TY_AAAA with 28. change TY_ANY with 255.
  destruct (q_type q =? 12) eqn:Eptr.
  - cbn [snd].
    apply (ext_fold (ptr_step inp q v4)
             (fun e => fst (spec_ptr_entry code_quirks (h_name_changes inp) (h_intf inp) (h_msg inp) v4 q e)
                       ++ meta_part (h_msg inp) q e)
             (fun e => snd (spec_ptr_entry code_quirks (h_name_changes inp) (h_intf inp) (h_msg inp) v4 q e))).
    intros og' e He. apply ptr_step_ext. apply Hwf. exact He.
  - cbn [fst snd].
    eapply ext_eq; [eapply ext_trans; [|apply inst_ext; assumption]| |].
    + instantiate (1 := []).
      instantiate (1 := flat_map (spec_addr_entry (h_name_changes inp) (h_intf inp) (h_msg inp) q) (h_services inp)).
      destruct ((q_type q =? 1) || (q_type q =? 28) || (q_type q =? 255)) eqn:Et.
      * eapply ext_eq; [apply (ext_fold (addr_step inp q)
                                 (spec_addr_entry (h_name_changes inp) (h_intf inp) (h_msg inp) q) (fun _ => []))
                       |reflexivity|].
        -- intros og' e He. apply addr_step_ext. apply Hwf. exact He.
        -- apply flat_map_nil. reflexivity.
      * (* other types: the address clause of the spec is empty as well *)
        eapply ext_eq; [apply ext_refl| |reflexivity].
        symmetry. apply flat_map_nil. intros e _. unfold spec_addr_entry.
        apply orb_false_iff in Et as [Et E255]. apply orb_false_iff in Et as [E1 E28].
        rewrite E1, E28, E255. cbn [orb app map].
        destruct (_ && _); reflexivity.
    + reflexivity.
    + reflexivity.
Qed.

(* ---- the whole question loop ---------------------------------------------------------------- *)

Definition code_answers (inp : hq_input) (v4 : bool) : list rr :=
  flat_map (code_question_answers inp v4) (m_questions (h_msg inp)).

Lemma loop_ext inp v4 og : wf_entries inp ->
  ext og (code_answers inp v4)
      (spec_additionals code_quirks (h_name_changes inp) (h_intf inp) (h_msg inp) v4 (h_services inp))
      (fold_left (question_step inp v4) (m_questions (h_msg inp)) og).
Proof.
  intros Hwf. unfold code_answers, spec_additionals.
  apply (ext_fold (question_step inp v4) (code_question_answers inp v4)
           (fun q => snd (spec_question code_quirks (h_name_changes inp) (h_intf inp) (h_msg inp) v4 (h_services inp) q))).
  intros og' q _. apply question_step_ext. exact Hwf.
Qed.

Lemma flat_map_perm {A B} (f g : A -> list B) (l : list A) :
  (forall x, Permutation (f x) (g x)) -> Permutation (flat_map f l) (flat_map g l).
Proof.
  intros H. induction l as [|x l IH]; simpl; [constructor|]. apply Permutation_app; auto.
Qed.

Lemma meta_part_flat m entries q :
  flat_map (meta_part m q) entries = spec_meta code_quirks m entries q.
Proof.
  unfold spec_meta, meta_types. cbn [k_meta_dup code_quirks].
  destruct (beq (q_name q) META_QUERY) eqn:Eq.
  - induction entries as [|e l IH]; [reflexivity|].
    cbn [flat_map filter]. unfold meta_part at 1. rewrite Eq, andb_true_r.
    destruct (meta_entry e); cbn [map].
    + rewrite IH. symmetry.
      apply (unknown_app m [sp_ptr (q_name q) (s_ty (e_svc e))]).
    + rewrite IH. reflexivity.
  - apply flat_map_nil. intros e _. unfold meta_part. rewrite Eq, andb_false_r. reflexivity.
Qed.

Lemma code_answers_perm inp v4 :
  Permutation (code_answers inp v4)
              (spec_answers code_quirks (h_name_changes inp) (h_intf inp) (h_msg inp) v4 (h_services inp)).
Proof.
  unfold code_answers, spec_answers. apply flat_map_perm. intros q.
  unfold code_question_answers, spec_question.
  destruct (q_type q =? 12); [|apply Permutation_refl].
  cbn [fst]. rewrite <- meta_part_flat. apply flat_map_app2.
Qed.

(* ---- sending --------------------------------------------------------------------------------- *)

Lemma valid_family a x : valid_ip_on_intf a x = true -> is_v4 (ia_ip x) = is_v4 a.
Proof. unfold valid_ip_on_intf. destruct a, (ia_ip x); simpl; congruence. Qed.

Lemma existsb_find {A} (p : A -> bool) l :
  existsb p l = match find p l with Some _ => true | None => false end.
Proof. induction l as [|x l IH]; simpl; [reflexivity|]. destruct (p x); simpl; auto. Qed.

Lemma existsb_ext' {A} (p q : A -> bool) l : (forall x, p x = q x) -> existsb p l = existsb q l.
Proof. intros H. induction l; simpl; [reflexivity|]. rewrite H, IHl. reflexivity. Qed.

Lemma family_enabled_existsb intf v4 :
  family_enabled intf v4 = existsb (fun x => Bool.eqb (is_v4 (ia_ip x)) v4) (mi_addrs intf).
Proof.
  unfold family_enabled, has_v4, has_v6, is_v6.
  destruct v4; apply existsb_ext'; intros x; destruct (is_v4 (ia_ip x)); reflexivity.
Qed.

Lemma send_response_shape og intf src udest :
  og_answers og <> [] ->
  send_response og intf (is_v4 src) (find (valid_ip_on_intf src) (mi_addrs intf)) udest
  = if family_enabled intf (is_v4 src)
    then Some (mkPacket (match udest with Some (d, p) => DUnicast d p | None => DMulticast (is_v4 src) end)
                 (mi_index intf) (wire_id og) (og_flags og) (og_questions og) (og_answers og)
                 (og_additionals og))
    else None.
Proof.
  intros Hne. unfold send_response.
  assert (Hnil : is_nil (og_answers og) && is_nil (og_additionals og) = false).
  { destruct (og_answers og); [congruence|reflexivity]. }
  rewrite Hnil, family_enabled_existsb, existsb_find.
  destruct (find (valid_ip_on_intf src) (mi_addrs intf)) as [a|] eqn:Em.
  - apply find_some in Em as [Hin Hv]. pose proof (valid_family _ _ Hv) as Hf.
    destruct (find (fun x => Bool.eqb (is_v4 (ia_ip x)) (is_v4 src)) (mi_addrs intf)) eqn:Ef.
    + rewrite Hf. reflexivity.
    + exfalso. eapply find_none in Ef; [|exact Hin]. rewrite Hf, eqb_reflx in Ef. discriminate.
  - destruct (find (fun x => Bool.eqb (is_v4 (ia_ip x)) (is_v4 src)) (mi_addrs intf)) as [a|] eqn:Ef; [|reflexivity].
    apply find_some in Ef as [_ Hf]. apply eqb_prop in Hf. rewrite Hf. reflexivity.
Qed.

Lemma fold_add_question qs og :
  let og' := fold_left (fun o q => add_question o (q_name q) (q_type q)) qs og in
  og_flags og' = og_flags og /\ og_id og' = og_id og /\ og_multicast og' = og_multicast og /\
  og_questions og' = og_questions og ++ map (fun q => (q_name q, q_type q)) qs /\
  og_answers og' = og_answers og /\ og_additionals og' = og_additionals og.
Proof.
  revert og. induction qs as [|q qs IH]; intros og; simpl.
  - rewrite app_nil_r. tauto.
  - specialize (IH (add_question og (q_name q) (q_type q))). simpl in IH.
    destruct IH as (H1 & H2 & H3 & H4 & H5 & H6). rewrite H1, H2, H3, H4, H5, H6.
    unfold add_question; simpl. rewrite <- app_assoc. tauto.
Qed.

(* ---- the model's reaction in closed form ---------------------------------------------------- *)

Lemma handle_query_shape inp : wf_entries inp ->
  let v4 := is_v4 (h_src_ip inp) in
  let A := code_answers inp v4 in
  let D := spec_additionals code_quirks (h_name_changes inp) (h_intf inp) (h_msg inp) v4 (h_services inp) in
  handle_query inp =
    if is_nil A then None
    else if negb (family_enabled (h_intf inp) v4) then None
    else Some (mkPacket
                 (if legacy inp then DUnicast (h_src_ip inp) (h_src_port inp) else DMulticast v4)
                 (mi_index (h_intf inp)) 0 33792
                 (if legacy inp then map (fun q => (q_name q, q_type q)) (m_questions (h_msg inp)) else [])
                 (if legacy inp then map clear_flush A else A)
                 (if legacy inp then map clear_flush D else D)).
Proof.
  intros Hwf v4 A D. unfold handle_query. fold v4.
  pose proof (loop_ext inp v4 (og_new (N.lor flags_qr_response flags_aa)) Hwf) as Hl.
  fold A D in Hl.
  set (out := fold_left (question_step inp v4) (m_questions (h_msg inp)) (og_new (N.lor flags_qr_response flags_aa))) in *.
  destruct Hl as (Hf & Hi & Hm & Hq & Ha & Hd). simpl in Hf, Hi, Hm, Hq, Ha, Hd.
  rewrite Ha, respond_guard_pinned.
  destruct A as [|a A'] eqn:EA.
  { reflexivity. }
  cbn [is_nil length]. 
  assert (Hpos : (0 <? N.of_nat (S (length A'))) = true) by (apply N.ltb_lt; lia).
  rewrite Hpos. rewrite legacy_unicast_test_pinned. fold (legacy inp).
  unfold v4 at 1.
  destruct (legacy inp) eqn:El.
  - pose proof (fold_add_question (m_questions (h_msg inp)) (set_id out (m_id (h_msg inp)))) as Hfq.
    cbv zeta in Hfq. destruct Hfq as (K1 & K2 & K3 & K4 & K5 & K6).
    rewrite send_response_shape.
    2:{ unfold clear_cache_flush_bits; simpl. rewrite K5. simpl. rewrite Ha. discriminate. }
    fold v4. destruct (family_enabled (h_intf inp) v4); [|reflexivity]. cbn [negb].
    unfold wire_id, clear_cache_flush_bits; simpl.
    rewrite K1, K3, K4, K5, K6. simpl. rewrite Hf, Hm, Hq, Ha, Hd.
    rewrite outgoing_multicast_default_pinned, wire_id_when_multicast_pinned. reflexivity.
  - rewrite send_response_shape.
    2:{ simpl. rewrite Ha. discriminate. }
    fold v4. destruct (family_enabled (h_intf inp) v4); [|reflexivity]. cbn [negb].
    unfold wire_id; simpl. rewrite Hf, Hm, Hq, Ha, Hd.
    rewrite outgoing_multicast_default_pinned, wire_id_when_multicast_pinned. reflexivity.
Qed.

(* ---- theorem 1: the model is the specification with all deviations switched on -------------- *)

Lemma perm_is_nil {A} (l l' : list A) : Permutation l l' -> is_nil l = is_nil l'.
Proof.
  intros H. destruct l, l'; try reflexivity.
  - apply Permutation_nil in H. discriminate.
  - apply Permutation_sym, Permutation_nil in H. discriminate.
Qed.

Theorem model_is_spec_code inp : wf_input inp = true ->
  reaction_equiv (handle_query inp) (spec code_quirks inp).
Proof.
  intros Hwf. apply wf_input_entries in Hwf.
  rewrite (handle_query_shape inp Hwf). unfold spec. cbv zeta.
  pose proof (code_answers_perm inp (is_v4 (h_src_ip inp))) as Hp.
  rewrite (perm_is_nil _ _ Hp).
  destruct (is_nil (spec_answers _ _ _ _ _ _)); [exact I|].
  destruct (negb (family_enabled (h_intf inp) (is_v4 (h_src_ip inp)))); [exact I|].
  unfold reaction_equiv, packet_equiv. cbn [p_dest p_if p_id p_flags p_questions p_answers p_additionals].
  cbn [k_legacy_id code_quirks].
  destruct (legacy inp); repeat split; try reflexivity; try apply Permutation_refl.
  - apply Permutation_map. exact Hp.
  - exact Hp.
Qed.
