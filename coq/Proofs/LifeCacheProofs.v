(* Lemmas about the cache rules (Model/LifeCache.v, instance trec_ops) against the literal
   specifications of Model/LifeCacheSpec.v. *)
From Coq Require Import List NArith Bool Lia.
From Mdns Require Import Res Bytes Rec ParamsLife Life LifeSpec LifeCache LifeCacheSpec LifeProofs.
Import ListNotations.
Open Scope N_scope.

Local Arguments N.mul : simpl never.
Local Arguments N.add : simpl never.
Local Arguments N.sub : simpl never.
Local Arguments N.div : simpl never.
Local Arguments N.modulo : simpl never.
Local Arguments N.ltb : simpl never.
Local Arguments N.leb : simpl never.
Local Arguments N.eqb : simpl never.

(* ------------------------------------------------------------------ the flush test *)

Lemma should_flush_trec_ok inc (e : tentry) now :
  t_created (c_t e) < B63 -> now < B63 ->
  should_flush_trec inc (c_id e) (c_t e) now = Ok (flushable inc now e).
Proof.
  intros Hc Hn. unfold should_flush_trec, flushable, flush_created_lhs, flush_now_rhs, flush_cond,
    flush_is_addr_type, flush_same_intf.
  destruct (i_class inc =? i_class (c_id e)); simpl; [|reflexivity].
  destruct (i_type inc =? i_type (c_id e)); simpl; [|reflexivity].
  rewrite chk64_ok by (unfold U64, B63 in *; lia). simpl.
  destruct (t_created (c_t e) + 1000 <? now); simpl; [|reflexivity].
  rewrite chk64_ok by (unfold U64, B63 in *; lia). simpl.
  destruct (now + 1000 <? t_expires (c_t e)); simpl; reflexivity.
Qed.

Lemma flush_pass_spec inc now (b : tbucket) :
  Forall entry_ok b -> now < B63 ->
  flush_pass trec trec_ops inc now b =
  Ok (map (fun e => if flushable inc now e then mkC (c_id e) (set_expires (c_t e) (now + 1000)) else e) b,
      map (fun _ => now + 1000) (filter (flushable inc now) b)).
Proof.
  intros Hb Hn. induction Hb as [|e b [He _] Hb IH]; [reflexivity|].
  simpl. rewrite (should_flush_trec_ok inc e now He Hn). simpl. rewrite IH. simpl.
  destruct (flushable inc now e); reflexivity.
Qed.

Lemma reset_ttl_ok r ttl now :
  1 <= ttl -> ttl < U32 -> now < B63 -> reset_ttl r ttl now = Ok (fresh_reset ttl now).
Proof.
  intros H1 H2 H3. unfold reset_ttl, reset_expires_percent, reset_refresh_guard, reset_refresh_percent, fresh_reset.
  rewrite (exp_time_ok now ttl 100) by (auto; lia). simpl.
  destruct (1 <? ttl).
  - rewrite (exp_time_ok now ttl 80) by (auto; lia). simpl. f_equal. f_equal; lia.
  - simpl. f_equal. f_equal; lia.
Qed.

Lemma reset_first_spec inc ttl now (b : tbucket) :
  1 <= ttl -> ttl < U32 -> now < B63 ->
  reset_first trec trec_ops inc ttl now b = Ok (replace_first inc ttl (fresh_reset ttl now) b).
Proof.
  intros H1 H2 H3. induction b as [|e b IH]; [reflexivity|].
  simpl. destruct (matches (c_id e) inc).
  - rewrite (reset_ttl_ok _ _ _ H1 H2 H3). reflexivity.
  - rewrite IH. simpl. destruct (replace_first inc ttl (fresh_reset ttl now) b) as [[r rv]|]; reflexivity.
Qed.

(* full functional statement of add_or_update on the Vec of one name *)
Lemma add_or_update_spec (b : tbucket) inc ttl now ifu :
  Forall entry_ok b -> now < B63 -> 1 <= ttl -> ttl < U32 ->
  add_or_update trec trec_ops b inc ttl now ifu = Ok (aou_spec b inc ttl now ifu).
Proof.
  intros Hb Hn H1 H2. unfold add_or_update, aou_spec. simpl.
  assert (Hfit : now + 1000 * ttl < U64) by (unfold U64, B63, U32 in *; lia).
  rewrite (new_rec_ok _ _ Hfit). simpl.
  destruct (is_nil b && negb ifu); [reflexivity|].
  destruct (i_flush inc) eqn:Ef.
  - rewrite (flush_pass_spec inc now b Hb Hn). simpl.
    rewrite (reset_first_spec inc ttl now _ H1 H2 Hn). simpl.
    unfold flush_entry. rewrite Ef. simpl.
    destruct (replace_first _ _ _ _) as [[? ?]|]; reflexivity.
  - simpl. rewrite (reset_first_spec inc ttl now _ H1 H2 Hn). simpl.
    unfold flush_entry. rewrite Ef. simpl.
    assert (map (fun e : tentry => e) b = b) as -> by apply map_id.
    assert (filter (fun _ : tentry => false) b = []) as -> by (clear; induction b; simpl; auto).
    destruct (replace_first _ _ _ _) as [[? ?]|]; reflexivity.
Qed.

(* ---- the specification in words ---- *)

(* without the cache-flush bit no other record changes and no timer is added *)
Lemma flush_entry_no_bit inc now e : i_flush inc = false -> flush_entry inc now e = e.
Proof. intros H. unfold flush_entry. rewrite H. reflexivity. Qed.

Lemma flushable_true_inv inc now (e : tentry) :
  flushable inc now e = true ->
  i_class inc = i_class (c_id e) /\ i_type inc = i_type (c_id e) /\
  t_created (c_t e) + 1000 < now /\ now + 1000 < t_expires (c_t e) /\
  (((i_type inc = 1 \/ i_type inc = 28) /\ both_addr (c_id e) inc = true) -> i_if (c_id e) = i_if inc).
Proof.
  unfold flushable. rewrite !andb_true_iff, !N.eqb_eq, !N.ltb_lt.
  intros ((((H1 & H2) & H3) & H4) & H5). repeat split; auto.
  intros [Ht Hb]. rewrite Hb in H5.
  assert ((i_type inc =? 1) || (i_type inc =? 28) = true) as E.
  { destruct Ht as [-> | ->]; reflexivity. }
  rewrite E in H5. simpl in H5. apply N.eqb_eq. exact H5.
Qed.

Lemma flush_entry_not_flushable inc now e : flushable inc now e = false -> flush_entry inc now e = e.
Proof. intros H. unfold flush_entry. rewrite H, andb_false_r. reflexivity. Qed.

(* records of the same burst (not more than one second old) are kept *)
Lemma flush_entry_same_burst inc now (e : tentry) :
  now <= t_created (c_t e) + 1000 -> flush_entry inc now e = e.
Proof.
  intros H. apply flush_entry_not_flushable. destruct (flushable inc now e) eqn:E; [|reflexivity].
  apply flushable_true_inv in E. lia.
Qed.

(* records that expire within the next second anyway are left alone *)
Lemma flush_entry_expiring inc now (e : tentry) :
  t_expires (c_t e) <= now + 1000 -> flush_entry inc now e = e.
Proof.
  intros H. apply flush_entry_not_flushable. destruct (flushable inc now e) eqn:E; [|reflexivity].
  apply flushable_true_inv in E. lia.
Qed.

(* another class or type is left alone; an address learned on another interface too *)
Lemma flush_entry_other_class_type inc now (e : tentry) :
  i_class inc <> i_class (c_id e) \/ i_type inc <> i_type (c_id e) -> flush_entry inc now e = e.
Proof.
  intros H. apply flush_entry_not_flushable. destruct (flushable inc now e) eqn:E; [|reflexivity].
  apply flushable_true_inv in E. destruct E as (E1 & E2 & _). destruct H; contradiction.
Qed.

Lemma flush_entry_other_interface inc now (e : tentry) :
  (i_type inc = 1 \/ i_type inc = 28) -> both_addr (c_id e) inc = true -> i_if (c_id e) <> i_if inc ->
  flush_entry inc now e = e.
Proof.
  intros Ht Hb Hi. apply flush_entry_not_flushable. destruct (flushable inc now e) eqn:E; [|reflexivity].
  apply flushable_true_inv in E. destruct E as (_ & _ & _ & _ & E). exfalso. apply Hi. apply E. auto.
Qed.

(* every record that meets all conditions expires one second later, nothing else changes *)
Lemma flush_entry_flushed inc now (e : tentry) :
  i_flush inc = true -> flushable inc now e = true ->
  flush_entry inc now e = mkC (c_id e) (mkT (t_ttl (c_t e)) (t_created (c_t e)) (now + 1000) (t_refresh (c_t e))).
Proof. intros H1 H2. unfold flush_entry. rewrite H1, H2. reflexivity. Qed.

(* the incoming record ends up present with a fresh lifetime *)
Lemma replace_first_some inc ttl fresh (b b' : tbucket) rv :
  replace_first inc ttl fresh b = Some (b', rv) ->
  exists pre e post, b = pre ++ e :: post /\ b' = pre ++ mkC (c_id e) fresh :: post /\
                     matches (c_id e) inc = true /\ Forall (fun x => matches (c_id x) inc = false) pre /\
                     rv = ((t_ttl (c_t e) <=? 1) && (1 <? ttl)).
Proof.
  revert b'. induction b as [|e b IH]; intros b' H; [discriminate|].
  simpl in H. destruct (matches (c_id e) inc) eqn:Em.
  - inversion H; subst. exists [], e, b. repeat split; auto.
  - destruct (replace_first inc ttl fresh b) as [[r rv']|] eqn:Er; [|discriminate]. inversion H; subst.
    destruct (IH r eq_refl) as (pre & x & post & -> & -> & Hm & Hpre & Hrv).
    exists (e :: pre), x, post. repeat split; auto.
Qed.

Lemma replace_first_none inc ttl fresh (b : tbucket) :
  replace_first inc ttl fresh b = None -> Forall (fun x => matches (c_id x) inc = false) b.
Proof.
  induction b as [|e b IH]; intros H; [constructor|].
  simpl in H. destruct (matches (c_id e) inc) eqn:Em; [discriminate|].
  destruct (replace_first inc ttl fresh b) as [[? ?]|]; [discriminate|]. constructor; auto.
Qed.

Lemma flush_entry_id inc now e : c_id (flush_entry inc now e) = c_id e.
Proof. unfold flush_entry. destruct (_ && _); reflexivity. Qed.

Lemma flush_entry_ttl inc now e : t_ttl (c_t (flush_entry inc now e)) = t_ttl (c_t e).
Proof. unfold flush_entry. destruct (_ && _); reflexivity. Qed.

(* the shape of the result: either the first matching record is refreshed in place (reported as
   new exactly when it had TTL <= 1 and the incoming TTL is > 1), or the incoming record is put
   in front; all other positions hold flush_entry of the old record *)
Lemma aou_shape (b : tbucket) inc ttl now b' ts isnew :
  aou_spec b inc ttl now true = Some (b', ts, isnew) ->
  ts = map (fun _ => now + 1000) (filter (fun e => i_flush inc && flushable inc now e) b) /\
  ((exists pre e post, b = pre ++ e :: post /\ matches (c_id e) inc = true /\
       Forall (fun x => matches (c_id x) inc = false) pre /\
       isnew = ((t_ttl (c_t e) <=? 1) && (1 <? ttl)) /\
       b' = map (flush_entry inc now) pre ++ mkC (c_id e) (fresh_reset ttl now) :: map (flush_entry inc now) post)
   \/ (isnew = true /\ Forall (fun x => matches (c_id x) inc = false) b /\
       b' = mkC inc (fresh_new ttl now) :: map (flush_entry inc now) b)).
Proof.
  unfold aou_spec. rewrite andb_false_r.
  destruct (replace_first inc ttl (fresh_reset ttl now) (map (flush_entry inc now) b)) as [[b2 rv]|] eqn:Er;
    intros H; inversion H; subst; split; try reflexivity.
  - left.
    apply replace_first_some in Er as (pre & e & post & Hb & Hb2 & Hm & Hpre & Hrv).
    assert (exists pre0 e0 post0, b = pre0 ++ e0 :: post0 /\ pre = map (flush_entry inc now) pre0 /\
              e = flush_entry inc now e0 /\ post = map (flush_entry inc now) post0) as (pre0 & e0 & post0 & -> & -> & -> & ->).
    { clear -Hb. revert b Hb. induction pre as [|p pre IH]; intros b Hb.
      - destruct b as [|e0 b]; [discriminate|]. simpl in Hb. inversion Hb; subst.
        exists [], e0, b. repeat split.
      - destruct b as [|p0 b]; [discriminate|]. simpl in Hb. inversion Hb; subst.
        destruct (IH b H1) as (pre0 & e0 & post0 & -> & -> & -> & ->).
        exists (p0 :: pre0), e0, post0. repeat split. }
    exists pre0, e0, post0. rewrite flush_entry_id, flush_entry_ttl in *. repeat split; auto.
    apply Forall_forall. intros x Hx. rewrite Forall_forall in Hpre.
    specialize (Hpre (flush_entry inc now x) (in_map _ _ _ Hx)). rewrite flush_entry_id in Hpre. exact Hpre.
  - right. split; [reflexivity|]. split; [|reflexivity].
    apply replace_first_none in Er. apply Forall_forall. intros x Hx. rewrite Forall_forall in Er.
    specialize (Er (flush_entry inc now x) (in_map _ _ _ Hx)). rewrite flush_entry_id in Er. exact Er.
Qed.

(* ------------------------------------------------------------------ known answers *)

Lemma ka_ttl_trec_ok (t : trec) now :
  t_created t < B63 -> t_ttl t < U32 ->
  ka_ttl_trec t now =
  Ok (if now <=? t_created t + 500 * t_ttl t then Some (ka_ttl_spec (t_ttl t) (t_created t) now) else None).
Proof.
  intros Hc Ht. unfold ka_ttl_trec, halflife_passed, halflife_percent, halflife_passed_g.
  rewrite (exp_time_ok _ _ 50) by (auto; lia). simpl.
  replace (t_created t + t_ttl t * 50 * 10) with (t_created t + 500 * t_ttl t) by lia.
  destruct (t_created t + 500 * t_ttl t <? now) eqn:E.
  - apply N.ltb_lt in E. assert (now <=? t_created t + 500 * t_ttl t = false) as -> by (apply N.leb_gt; lia).
    reflexivity.
  - apply N.ltb_ge in E. assert (now <=? t_created t + 500 * t_ttl t = true) as -> by (apply N.leb_le; lia).
    destruct (update_ttl_under_halflife t now Ht E) as [-> _]. reflexivity.
Qed.

Lemma known_answers_spec (b : tbucket) now :
  Forall entry_ok b -> known_answers trec trec_ops b now = Ok (ka_spec b now).
Proof.
  intros Hb. induction Hb as [|e b [Hc Ht] Hb IH]; [reflexivity|].
  simpl. unfold ka_shared_filter at 1.
  destruct (i_flush (c_id e)); simpl.
  - rewrite IH. reflexivity.
  - rewrite (ka_ttl_trec_ok _ _ Hc Ht). simpl. rewrite IH. simpl.
    destruct (now <=? t_created (c_t e) + 500 * t_ttl (c_t e)); reflexivity.
Qed.

(* what is listed: shared, at most half of the lifetime used, TTL = remaining whole seconds,
   which is at least half of the original TTL *)
Lemma ka_spec_in (b : tbucket) now id ttl :
  In (id, ttl) (ka_spec b now) ->
  exists e, In e b /\ id = c_id e /\ i_flush id = false /\
            now <= t_created (c_t e) + 500 * t_ttl (c_t e) /\
            ttl = t_ttl (c_t e) - (now - t_created (c_t e)) / 1000 /\
            t_ttl (c_t e) - t_ttl (c_t e) / 2 <= ttl.
Proof.
  unfold ka_spec. rewrite in_flat_map. intros (e & He & H).
  destruct (i_flush (c_id e)) eqn:Ef; simpl in H; [contradiction|].
  destruct (now <=? _) eqn:El; simpl in H; [|contradiction].
  destruct H as [H|[]]. inversion H; subst. apply N.leb_le in El.
  exists e. repeat split; auto.
  unfold ka_ttl_spec.
  assert ((now - t_created (c_t e)) / 1000 <= t_ttl (c_t e) / 2).
  { apply N.div_le_lower_bound; [lia|].
    pose proof (N.mul_div_le (now - t_created (c_t e)) 1000 ltac:(lia)). lia. }
  lia.
Qed.

(* a shared record within its first half is listed *)
Lemma ka_spec_complete (b : tbucket) now e :
  In e b -> i_flush (c_id e) = false -> now <= t_created (c_t e) + 500 * t_ttl (c_t e) ->
  In (c_id e, t_ttl (c_t e) - (now - t_created (c_t e)) / 1000) (ka_spec b now).
Proof.
  intros He Hf Hl. unfold ka_spec. rewrite in_flat_map. exists e. split; [exact He|].
  rewrite Hf. apply N.leb_le in Hl. rewrite Hl. simpl. left. reflexivity.
Qed.

(* Known finding C10-ka-shortened-record: the rule looks at created and ttl only. A shared record
   whose expiry was shortened (cache-flush by a later record, verify) to less than half of its
   lifetime is still listed, with the TTL it would have had. *)
Lemma ka_shortened_refuted :
  exists (b : tbucket) now e ttl,
    In e b /\ In (c_id e, ttl) (ka_spec b now) /\
    t_expires (c_t e) < now + 500 * t_ttl (c_t e) /\ ttl = 8 /\ t_expires (c_t e) - now = 1000.
Proof.
  exists [mkC (mkId [104;46] 1 1 false (RAddr [10;0;0;1]) 2) (mkT 10 1000000 1003300 1008000)], 1002300,
         (mkC (mkId [104;46] 1 1 false (RAddr [10;0;0;1]) 2) (mkT 10 1000000 1003300 1008000)), 8.
  repeat split; vm_compute; auto.
Qed.
