(* Proofs about the wire decoder model (Model/Wire.v).
   All statements hold for EVERY byte list (no well-formedness hypothesis) and every offset. *)
From Coq Require Import List NArith Bool Lia Arith PeanoNat.
From Mdns Require Import Res Bytes Utf8 Rec Wire TxtProofs.
Import ListNotations.
Open Scope N_scope.

#[local] Arguments N.add : simpl never.
#[local] Arguments N.sub : simpl never.
#[local] Arguments N.mul : simpl never.
#[local] Arguments N.eqb : simpl never.
#[local] Arguments N.ltb : simpl never.
#[local] Arguments N.leb : simpl never.
#[local] Arguments N.land : simpl never.
#[local] Arguments N.of_nat : simpl never.
#[local] Arguments N.to_nat : simpl never.

(* ---------- generic ---------- *)

Lemma safe_ok {A} (a : A) : safe (Ok a).
Proof. split; discriminate. Qed.

Lemma safe_err {A} : safe (@Err A).
Proof. split; discriminate. Qed.

#[local] Hint Resolve safe_ok safe_err : core.

(* ---------- one run of labels ---------- *)

(* a run starting at `off` over `rest` with accumulator `acc` that stops (zero byte or
   pointer) with accumulated name `name` and next offset `next` *)
Definition run_ok (rest : bytes) (off : N) (acc name : bytes) (next : N) : Prop :=
  off < next /\ next <= off + N.of_nat (length rest) /\
  (length name + 1 <= length acc + length rest)%nat.

Lemma rn_labels_spec fuel : forall rest off acc,
  (length rest < fuel)%nat ->
  match rn_labels fuel rest off acc with
  | LEnd name next => run_ok rest off acc name next
  | LPtr name next _ => run_ok rest off acc name next
  | LErr => True
  | LFuel => False
  end.
Proof.
  induction fuel as [|f IH]; intros rest off acc Hf; [lia|].
  destruct rest as [|l tl]; cbn [rn_labels]; [exact I|].
  cbn [length] in Hf.
  destruct (l =? 0) eqn:E0.
  { unfold run_ok. cbn [length]. lia. }
  destruct (N.land l 192 =? 0) eqn:E1.
  - destruct (Nat.ltb (length tl) (N.to_nat l)) eqn:E2; [exact I|].
    apply Nat.ltb_ge in E2.
    destruct (utf8_valid (firstn (N.to_nat l) tl)); [|exact I].
    assert (Hsk : length (skipn (N.to_nat l) tl) = (length tl - N.to_nat l)%nat)
      by apply skipn_length.
    assert (Hfi : length (firstn (N.to_nat l) tl) = N.to_nat l)
      by (apply firstn_length_le; exact E2).
    assert (Hacc : length (acc ++ firstn (N.to_nat l) tl ++ [46])
                   = (length acc + N.to_nat l + 1)%nat).
    { rewrite !app_length, Hfi. cbn [length]. lia. }
    assert (Hlt : (length (skipn (N.to_nat l) tl) < f)%nat) by lia.
    generalize (IH _ (off + 1 + l) (acc ++ firstn (N.to_nat l) tl ++ [46]) Hlt).
    destruct (rn_labels f (skipn (N.to_nat l) tl) (off + 1 + l)
                (acc ++ firstn (N.to_nat l) tl ++ [46])) as [name next|name next target| |];
      unfold run_ok; cbn [length]; try tauto; rewrite Hsk, Hacc; lia.
  - destruct (N.land l 192 =? 192); [|exact I].
    destruct tl as [|b1 tl']; [exact I|].
    unfold run_ok. cbn [length]. lia.
Qed.

(* item 1 *)
Lemma rn_labels_fuel_ok fuel rest off acc :
  (length rest < fuel)%nat -> rn_labels fuel rest off acc <> LFuel.
Proof.
  intros Hf Heq. pose proof (rn_labels_spec fuel rest off acc Hf) as Hs.
  rewrite Heq in Hs. exact Hs.
Qed.

(* ---------- read_name ---------- *)

Lemma read_name_from_safe jumps : forall d off limit acc ret,
  (N.to_nat limit < jumps)%nat -> safe (read_name_from jumps d off limit acc ret).
Proof.
  induction jumps as [|j IH]; intros d off limit acc ret Hj; [lia|].
  cbn [read_name_from].
  pose proof (rn_labels_fuel_ok (S (length (skipn (N.to_nat off) d)))
                (skipn (N.to_nat off) d) off acc (Nat.lt_succ_diag_r _)) as Hfuel.
  destruct (rn_labels (S (length (skipn (N.to_nat off) d))) (skipn (N.to_nat off) d) off acc)
    as [name next|name next target| |] eqn:El.
  - apply safe_ok.
  - destruct (limit <=? target) eqn:Elt; [apply safe_err|].
    apply N.leb_gt in Elt. apply IH. lia.
  - apply safe_err.
  - congruence.
Qed.

Lemma read_name_from_ok jumps : forall d off limit acc ret nm o,
  read_name_from jumps d off limit acc ret = Ok (nm, o) ->
  match ret with Some r => o = r | None => off < o /\ o <= len d end /\
  (length nm <= length acc + jumps * length d)%nat.
Proof.
  induction jumps as [|j IH]; intros d off limit acc ret nm o H; [discriminate|].
  cbn [read_name_from] in H.
  pose proof (rn_labels_spec (S (length (skipn (N.to_nat off) d)))
                (skipn (N.to_nat off) d) off acc (Nat.lt_succ_diag_r _)) as Hs.
  pose proof (skipn_length (N.to_nat off) d) as Hsk.
  rewrite Nat.mul_succ_l.
  destruct (rn_labels (S (length (skipn (N.to_nat off) d))) (skipn (N.to_nat off) d) off acc)
    as [name next|name next target| |] eqn:El; try discriminate.
  - injection H as Hnm Ho. subst nm. destruct Hs as (Hs1 & Hs2 & Hs3). split.
    + destruct ret as [r|]; [symmetry; exact Ho|]. subst o. unfold len. lia.
    + lia.
  - destruct (limit <=? target); [discriminate|].
    apply IH in H. destruct H as [Ho Hl]. destruct Hs as (Hs1 & Hs2 & Hs3). split.
    + destruct ret as [r|]; [exact Ho|]. subst o. unfold len. lia.
    + lia.
Qed.

(* the loop itself (read_name_raw), before the name_fits filter *)
Lemma read_name_raw_safe : forall d off, safe (read_name_raw d off).
Proof.
  intros d off. unfold read_name_raw.
  destruct (Nat.lt_ge_cases (N.to_nat off) (S (length d))) as [Hlt|Hge].
  - apply read_name_from_safe. exact Hlt.
  - cbn [read_name_from]. rewrite skipn_all2 by lia. cbn [length rn_labels]. apply safe_err.
Qed.

Lemma read_name_raw_offset : forall d off nm o,
  read_name_raw d off = Ok (nm, o) -> off < o /\ o <= len d.
Proof.
  intros d off nm o H. unfold read_name_raw in H. apply read_name_from_ok in H.
  destruct H as [H _]. exact H.
Qed.

(* The explicit bound on decoded names, a polynomial in the datagram length alone. *)
Definition name_bound (d : bytes) : nat := 2 * length d * S (length d).

Lemma read_name_raw_length : forall d off nm o,
  read_name_raw d off = Ok (nm, o) -> (length nm <= 2 * length d * S (length d))%nat.
Proof.
  intros d off nm o H. unfold read_name_raw in H. apply read_name_from_ok in H.
  destruct H as [_ H]. cbn [length] in H. nia.
Qed.

(* read_name = read_name_raw filtered by name_fits *)
Lemma read_name_ok_inv : forall d off nm o,
  read_name d off = Ok (nm, o) -> read_name_raw d off = Ok (nm, o) /\ name_fits nm = true.
Proof.
  intros d off nm o H. unfold read_name in H.
  destruct (read_name_raw d off) as [[name o']| | |]; cbn [bind] in H; try discriminate.
  destruct (name_fits name) eqn:Ef; [|discriminate].
  injection H as Hnm Ho. subst name o'. split; [reflexivity|exact Ef].
Qed.

Lemma read_name_raw_of_ok : forall d off nm o,
  read_name d off = Ok (nm, o) -> read_name_raw d off = Ok (nm, o).
Proof. intros d off nm o H. apply read_name_ok_inv in H. destruct H as [H _]. exact H. Qed.

Lemma read_name_fits : forall d off nm o,
  read_name d off = Ok (nm, o) -> name_fits nm = true.
Proof. intros d off nm o H. apply read_name_ok_inv in H. destruct H as [_ H]. exact H. Qed.

(* item 2 *)
Lemma read_name_safe : forall d off, safe (read_name d off).
Proof.
  intros d off. unfold read_name.
  apply bind_safe; [apply read_name_raw_safe|].
  intros [name o] _. cbv beta iota. destruct (name_fits name); [apply safe_ok|apply safe_err].
Qed.

(* item 3 *)
Lemma read_name_offset : forall d off nm o,
  read_name d off = Ok (nm, o) -> off < o /\ o <= len d.
Proof.
  intros d off nm o H. eapply read_name_raw_offset. apply read_name_raw_of_ok. exact H.
Qed.

(* item 4 *)
Lemma read_name_length : forall d off nm o,
  read_name d off = Ok (nm, o) -> (length nm <= 2 * length d * S (length d))%nat.
Proof.
  intros d off nm o H. eapply read_name_raw_length. apply read_name_raw_of_ok. exact H.
Qed.

(* ---------- primitive readers ---------- *)

Lemma slice_ok d off n :
  off + n <= len d -> exists s, slice d off n = Ok s /\ length s = N.to_nat n.
Proof.
  intros H. unfold slice. destruct (off + n <=? len d) eqn:E; [|apply N.leb_gt in E; lia].
  eexists; split; [reflexivity|]. apply firstn_length_le. rewrite skipn_length.
  unfold len in H. lia.
Qed.

Lemma slice_sublist d off n s : slice d off n = Ok s -> sublist_of s d.
Proof.
  unfold slice. destruct (off + n <=? len d); [|discriminate].
  intros H. injection H as Hs. subst s.
  exists (firstn (N.to_nat off) d), (skipn (N.to_nat n) (skipn (N.to_nat off) d)).
  rewrite firstn_skipn. symmetry. apply firstn_skipn.
Qed.

Lemma byte_at_ok d off : off < len d -> exists b, byte_at d off = Ok b.
Proof.
  intros H. unfold byte_at. destruct (nth_error d (N.to_nat off)) as [b|] eqn:E; [eauto|].
  apply nth_error_None in E. unfold len in H. lia.
Qed.

Lemma u16_at_ok d off : off + 2 <= len d -> exists v, u16_at d off = Ok v.
Proof.
  intros H. unfold u16_at. destruct (slice_ok d off 2 H) as [s [Hs Hl]].
  rewrite Hs. cbn [bind]. change (N.to_nat 2) with 2%nat in Hl.
  destruct s as [|b0 [|b1 [|b2 s]]]; cbn [length] in Hl; try (exfalso; lia).
  eexists; reflexivity.
Qed.

Lemma u32_at_ok d off : off + 4 <= len d -> exists v, u32_at d off = Ok v.
Proof.
  intros H. unfold u32_at. destruct (slice_ok d off 4 H) as [s [Hs Hl]].
  rewrite Hs. cbn [bind]. change (N.to_nat 4) with 4%nat in Hl.
  destruct s as [|b0 [|b1 [|b2 [|b3 [|b4 s]]]]]; cbn [length] in Hl; try (exfalso; lia).
  eexists; reflexivity.
Qed.

Lemma read_u16_safe d off : off <= len d -> safe (read_u16 d off).
Proof.
  intros H. unfold read_u16. destruct (len d - off <? 2) eqn:E.
  - destruct (off <=? len d) eqn:E2; [apply safe_err|apply N.leb_gt in E2; lia].
  - apply N.ltb_ge in E. destruct (u16_at_ok d off) as [v Hv]; [lia|].
    rewrite Hv. cbn [bind]. apply safe_ok.
Qed.

Lemma read_u16_ok d off v o : read_u16 d off = Ok (v, o) -> o = off + 2 /\ o <= len d.
Proof.
  unfold read_u16. intros H. destruct (len d - off <? 2) eqn:E.
  - destruct (off <=? len d); discriminate.
  - apply N.ltb_ge in E. destruct (u16_at d off) as [w| | |]; cbn [bind] in H; try discriminate.
    injection H as _ Ho. lia.
Qed.

Lemma read_vec_safe d off n : safe (read_vec d off n).
Proof.
  unfold read_vec. destruct (len d <? off + n) eqn:E; [apply safe_err|].
  apply N.ltb_ge in E. destruct (slice_ok d off n E) as [s [Hs _]].
  rewrite Hs. cbn [bind]. apply safe_ok.
Qed.

Lemma read_vec_ok d off n s o :
  read_vec d off n = Ok (s, o) -> o = off + n /\ o <= len d /\ slice d off n = Ok s.
Proof.
  unfold read_vec. intros H. destruct (len d <? off + n) eqn:E; [discriminate|].
  apply N.ltb_ge in E. destruct (slice d off n) as [s'| | |]; cbn [bind] in H; try discriminate.
  injection H as Hs Ho. subst s'. split; [lia|]. split; [lia|reflexivity].
Qed.

Lemma read_string_safe d off n : safe (read_string d off n).
Proof.
  unfold read_string. destruct (len d <? off + n) eqn:E; [apply safe_err|].
  apply N.ltb_ge in E. destruct (slice_ok d off n E) as [s [Hs _]].
  rewrite Hs. cbn [bind]. destruct (utf8_valid s); [apply safe_ok|apply safe_err].
Qed.

Lemma read_char_string_safe d off : safe (read_char_string d off).
Proof.
  unfold read_char_string. destruct (len d <=? off) eqn:E; [apply safe_err|].
  apply N.leb_gt in E. destruct (byte_at_ok d off E) as [l Hl].
  rewrite Hl. cbn [bind]. apply read_string_safe.
Qed.

Lemma read_type_bitmap_safe d off : safe (read_type_bitmap d off).
Proof.
  unfold read_type_bitmap. destruct (len d <? off + 2) eqn:E; [apply safe_err|].
  apply N.ltb_ge in E.
  destruct (byte_at_ok d off) as [b Hb]; [lia|]. rewrite Hb. cbn [bind].
  destruct (negb (b =? 0)); [apply safe_err|].
  destruct (byte_at_ok d (off + 1)) as [bl Hbl]; [lia|]. rewrite Hbl. cbn [bind].
  destruct (negb ((1 <=? bl) && (bl <=? 32))); [apply safe_err|].
  cbv zeta. destruct (len d <? off + 2 + bl) eqn:E2; [apply safe_err|].
  apply N.ltb_ge in E2. destruct (slice_ok d (off + 2) bl E2) as [s [Hs _]].
  rewrite Hs. cbn [bind]. apply safe_ok.
Qed.

(* ---------- resource records ---------- *)

Lemma read_rdata_safe d ty off rdlen : off <= len d -> safe (read_rdata d ty off rdlen).
Proof.
  intros H. unfold read_rdata.
  destruct ((ty =? TY_CNAME) || (ty =? TY_PTR)).
  { apply bind_safe; [apply read_name_safe|]. intros [alias o] _. cbv beta iota. apply safe_ok. }
  destruct (ty =? TY_TXT).
  { apply bind_safe; [apply read_vec_safe|]. intros [t o] _. cbv beta iota. apply safe_ok. }
  destruct (ty =? TY_SRV).
  { apply bind_safe; [apply read_u16_safe; exact H|].
    intros [p o1] H1. cbv beta iota. apply read_u16_ok in H1. destruct H1 as [_ Hl1].
    apply bind_safe; [apply read_u16_safe; exact Hl1|].
    intros [w o2] H2. cbv beta iota. apply read_u16_ok in H2. destruct H2 as [_ Hl2].
    apply bind_safe; [apply read_u16_safe; exact Hl2|].
    intros [po o3] _. cbv beta iota.
    apply bind_safe; [apply read_name_safe|].
    intros [h o4] _. cbv beta iota. apply safe_ok. }
  destruct (ty =? TY_HINFO).
  { apply bind_safe; [apply read_char_string_safe|]. intros [cpu o1] _. cbv beta iota.
    apply bind_safe; [apply read_char_string_safe|]. intros [os o2] _. cbv beta iota.
    apply safe_ok. }
  destruct (ty =? TY_A).
  { destruct (len d <? off + 4) eqn:E; [apply safe_err|]. apply N.ltb_ge in E.
    destruct (slice_ok d off 4 E) as [s [Hs _]]. rewrite Hs. cbn [bind]. apply safe_ok. }
  destruct (ty =? TY_AAAA).
  { destruct (len d <? off + 16) eqn:E; [apply safe_err|]. apply N.ltb_ge in E.
    destruct (slice_ok d off 16 E) as [s [Hs _]]. rewrite Hs. cbn [bind]. apply safe_ok. }
  destruct (ty =? TY_NSEC).
  { apply bind_safe; [apply read_name_safe|]. intros [nx o1] _. cbv beta iota.
    apply bind_safe; [apply read_type_bitmap_safe|]. intros [bm o2] _. cbv beta iota.
    apply safe_ok. }
  apply safe_ok.
Qed.

(* item 5 *)
Lemma read_one_rr_safe : forall d resp off, safe (read_one_rr d resp off).
Proof.
  intros d resp off. unfold read_one_rr.
  pose proof (read_name_safe d off) as Hsafe.
  destruct (read_name d off) as [[name off1]| | |] eqn:En; cbn [bind];
    [|apply safe_err|destruct Hsafe; congruence|destruct Hsafe; congruence].
  apply read_name_offset in En. destruct En as [Hlt Hle].
  destruct (len d - off1 <? 10) eqn:E10.
  { destruct (off1 <=? len d) eqn:E; [apply safe_err|apply N.leb_gt in E; lia]. }
  apply N.ltb_ge in E10.
  destruct (u16_at_ok d off1) as [ty Hty]; [lia|]. rewrite Hty. cbn [bind].
  destruct (u16_at_ok d (off1 + 2)) as [cl Hcl]; [lia|]. rewrite Hcl. cbn [bind].
  destruct (u32_at_ok d (off1 + 4)) as [ttl0 Httl]; [lia|]. rewrite Httl. cbn [bind].
  destruct (u16_at_ok d (off1 + 8)) as [rdlen Hrd]; [lia|]. rewrite Hrd. cbn [bind].
  cbv zeta.
  destruct (len d <? off1 + 10 + rdlen) eqn:En2; [apply safe_err|]. apply N.ltb_ge in En2.
  apply bind_safe.
  { destruct (known_type ty); [apply read_rdata_safe; lia|apply safe_ok]. }
  intros [rd off3] _. cbv beta iota.
  destruct (off3 =? off1 + 10 + rdlen); [apply safe_ok|apply safe_err].
Qed.

(* What a successful read_one_rr did: the owner name comes from read_name at `off`, the fixed
   part is 10 bytes, and the RDATA (if decoded) comes from read_rdata right after it. *)
Lemma read_one_rr_inv d resp off ro o :
  read_one_rr d resp off = Ok (ro, o) ->
  exists name off1 rdlen,
    read_name d off = Ok (name, off1) /\ off1 + 10 <= len d /\
    o = off1 + 10 + rdlen /\ o <= len d /\
    match ro with
    | None => True
    | Some r => r_name r = name /\
                exists ty, read_rdata d ty (off1 + 10) rdlen = Ok (Some (r_data r), o)
    end.
Proof.
  intros H. unfold read_one_rr in H.
  destruct (read_name d off) as [[name off1]| | |] eqn:En; cbn [bind] in H; try discriminate.
  exists name, off1.
  destruct (len d - off1 <? 10) eqn:E10; [destruct (off1 <=? len d); discriminate|].
  apply N.ltb_ge in E10.
  destruct (u16_at d off1) as [ty| | |]; cbn [bind] in H; try discriminate.
  destruct (u16_at d (off1 + 2)) as [cl| | |]; cbn [bind] in H; try discriminate.
  destruct (u32_at d (off1 + 4)) as [ttl0| | |]; cbn [bind] in H; try discriminate.
  destruct (u16_at d (off1 + 8)) as [rdlen| | |]; cbn [bind] in H; try discriminate.
  cbv zeta in H. exists rdlen.
  destruct (len d <? off1 + 10 + rdlen) eqn:En2; [discriminate|]. apply N.ltb_ge in En2.
  apply read_name_offset in En as Hoff. destruct Hoff as [Hlt Hle].
  destruct (known_type ty).
  - destruct (read_rdata d ty (off1 + 10) rdlen) as [[rd off3]| | |] eqn:Erd;
      cbn [bind] in H; try discriminate.
    destruct (off3 =? off1 + 10 + rdlen) eqn:E3; [|discriminate].
    apply N.eqb_eq in E3. injection H as Hro Ho. subst o off3.
    repeat (split; [first [reflexivity|lia]|]).
    destruct rd as [x|]; subst ro; [|exact I].
    cbn [r_name r_data]. split; [reflexivity|]. exists ty. exact Erd.
  - cbn [bind] in H. rewrite N.eqb_refl in H. injection H as Hro Ho. subst o ro.
    repeat (split; [first [reflexivity|lia]|]). exact I.
Qed.

Lemma read_one_rr_offset : forall d resp off r o,
  read_one_rr d resp off = Ok (r, o) -> off + 11 <= o /\ o <= len d.
Proof.
  intros d resp off r o H. apply read_one_rr_inv in H.
  destruct H as (name & off1 & rdlen & Hn & H10 & Ho & Hle & _).
  apply read_name_offset in Hn. lia.
Qed.

(* ---------- record lists ---------- *)

(* fuel only has to exceed the number of bytes left: every record consumes at least 11 *)
Lemma read_rrs_safe_gen fuel : forall count d resp off,
  len d - off < N.of_nat fuel -> safe (read_rrs fuel count d resp off).
Proof.
  induction fuel as [|f IH]; intros count d resp off Hf; cbn [read_rrs];
    (destruct (count =? 0); [apply safe_ok|]); [exfalso; lia|].
  apply bind_safe; [apply read_one_rr_safe|].
  intros [r off1] H1. cbv beta iota. apply read_one_rr_offset in H1.
  apply bind_safe; [apply IH; lia|].
  intros [rs off2] _. cbv beta iota. apply safe_ok.
Qed.

(* item 6 *)
Lemma read_rrs_safe : forall d resp count off fuel,
  (length d < fuel)%nat -> off <= len d -> safe (read_rrs fuel count d resp off).
Proof.
  intros d resp count off fuel Hf _. apply read_rrs_safe_gen. unfold len. lia.
Qed.

Lemma read_rrs_bound : forall fuel count d resp off rs o,
  read_rrs fuel count d resp off = Ok (rs, o) ->
  off <= o /\ 11 * N.of_nat (length rs) <= o - off /\ N.of_nat (length rs) <= count /\
  (o <= len d \/ (count = 0 /\ o = off)).
Proof.
  induction fuel as [|f IH]; intros count d resp off rs o H; cbn [read_rrs] in H;
    (destruct (count =? 0) eqn:Ec;
     [apply N.eqb_eq in Ec; injection H as Hrs Ho; subst rs o; cbn [length]; lia|]);
    [discriminate|].
  apply N.eqb_neq in Ec.
  destruct (read_one_rr d resp off) as [[r off1]| | |] eqn:E1; cbn [bind] in H; try discriminate.
  destruct (read_rrs f (count - 1) d resp off1) as [[rs' off2]| | |] eqn:Er;
    cbn [bind] in H; try discriminate.
  injection H as Hrs Ho. subst rs o.
  apply read_one_rr_offset in E1. apply IH in Er.
  destruct r as [x|]; cbn [length]; lia.
Qed.

Lemma read_rrs_names : forall fuel count d resp off rs o,
  read_rrs fuel count d resp off = Ok (rs, o) ->
  Forall (fun r => (length (r_name r) <= name_bound d)%nat) rs.
Proof.
  induction fuel as [|f IH]; intros count d resp off rs o H; cbn [read_rrs] in H;
    (destruct (count =? 0); [injection H as Hrs Ho; subst rs; constructor|]);
    [discriminate|].
  destruct (read_one_rr d resp off) as [[r off1]| | |] eqn:E1; cbn [bind] in H; try discriminate.
  destruct (read_rrs f (count - 1) d resp off1) as [[rs' off2]| | |] eqn:Er;
    cbn [bind] in H; try discriminate.
  injection H as Hrs Ho. subst rs o. apply IH in Er.
  destruct r as [x|]; [|exact Er]. constructor; [|exact Er].
  apply read_one_rr_inv in E1. destruct E1 as (name & o1 & rdlen & Hn & _ & _ & _ & Hnm & _).
  rewrite Hnm. unfold name_bound. eapply read_name_length. exact Hn.
Qed.

(* ---------- questions ---------- *)

Lemma read_questions_safe_gen fuel : forall count d off,
  len d - off < N.of_nat fuel -> safe (read_questions fuel count d off).
Proof.
  induction fuel as [|f IH]; intros count d off Hf; cbn [read_questions];
    (destruct (count =? 0); [apply safe_ok|]); [exfalso; lia|].
  pose proof (read_name_safe d off) as Hsafe.
  destruct (read_name d off) as [[name off1]| | |] eqn:En; cbn [bind];
    [|apply safe_err|destruct Hsafe; congruence|destruct Hsafe; congruence].
  apply read_name_offset in En. destruct En as [Hlt Hle].
  destruct (len d - off1 <? 4) eqn:E4.
  { destruct (off1 <=? len d) eqn:E; [apply safe_err|apply N.leb_gt in E; lia]. }
  apply N.ltb_ge in E4.
  destruct (u16_at_ok d off1) as [ty Hty]; [lia|]. rewrite Hty. cbn [bind].
  destruct (u16_at_ok d (off1 + 2)) as [cl Hcl]; [lia|]. rewrite Hcl. cbn [bind].
  destruct (known_type ty); [|apply safe_err].
  apply bind_safe; [apply IH; lia|].
  intros [qs off2] _. cbv beta iota. apply safe_ok.
Qed.

(* item 7 *)
Lemma read_questions_safe : forall d count off fuel,
  (length d < fuel)%nat -> off <= len d -> safe (read_questions fuel count d off).
Proof.
  intros d count off fuel Hf _. apply read_questions_safe_gen. unfold len. lia.
Qed.

(* one successful step of read_questions, shared by the two lemmas below *)
Lemma read_questions_step f count d off qs o :
  read_questions (S f) count d off = Ok (qs, o) -> count <> 0 ->
  exists name off1 ty cl qs',
    read_name d off = Ok (name, off1) /\ off1 + 4 <= len d /\
    read_questions f (count - 1) d (off1 + 4) = Ok (qs', o) /\
    qs = mkQ name ty (class_of cl) (flush_of cl) :: qs'.
Proof.
  intros H Hc. cbn [read_questions] in H. apply N.eqb_neq in Hc. rewrite Hc in H.
  destruct (read_name d off) as [[name off1]| | |] eqn:En; cbn [bind] in H; try discriminate.
  destruct (len d - off1 <? 4) eqn:E4; [destruct (off1 <=? len d); discriminate|].
  apply N.ltb_ge in E4.
  destruct (u16_at d off1) as [ty| | |]; cbn [bind] in H; try discriminate.
  destruct (u16_at d (off1 + 2)) as [cl| | |]; cbn [bind] in H; try discriminate.
  destruct (known_type ty); [|discriminate].
  destruct (read_questions f (count - 1) d (off1 + 4)) as [[qs' off2]| | |] eqn:Er;
    cbn [bind] in H; try discriminate.
  injection H as Hqs Ho. subst qs o.
  apply read_name_offset in En as Hoff.
  exists name, off1, ty, cl, qs'.
  split; [first [reflexivity|exact En]|]. split; [lia|]. split; [exact Er|reflexivity].
Qed.

Lemma read_questions_bound : forall fuel count d off qs o,
  read_questions fuel count d off = Ok (qs, o) ->
  off <= o /\ 5 * N.of_nat (length qs) <= o - off /\ N.of_nat (length qs) <= count /\
  (o <= len d \/ (count = 0 /\ o = off)).
Proof.
  induction fuel as [|f IH]; intros count d off qs o H.
  - cbn [read_questions] in H. destruct (count =? 0) eqn:Ec; [|discriminate].
    apply N.eqb_eq in Ec. injection H as Hqs Ho. subst qs o. cbn [length]. lia.
  - destruct (N.eq_dec count 0) as [Ec|Ec].
    + cbn [read_questions] in H. subst count. rewrite N.eqb_refl in H.
      injection H as Hqs Ho. subst qs o. cbn [length]. lia.
    + apply read_questions_step in H; [|exact Ec].
      destruct H as (name & off1 & ty & cl & qs' & Hn & H4 & Hr & Hqs). subst qs.
      apply read_name_offset in Hn. apply IH in Hr. cbn [length]. lia.
Qed.

Lemma read_questions_names : forall fuel count d off qs o,
  read_questions fuel count d off = Ok (qs, o) ->
  Forall (fun q => (length (q_name q) <= name_bound d)%nat) qs.
Proof.
  induction fuel as [|f IH]; intros count d off qs o H.
  - cbn [read_questions] in H. destruct (count =? 0); [|discriminate].
    injection H as Hqs Ho. subst qs. constructor.
  - destruct (N.eq_dec count 0) as [Ec|Ec].
    + cbn [read_questions] in H. subst count. rewrite N.eqb_refl in H.
      injection H as Hqs Ho. subst qs. constructor.
    + apply read_questions_step in H; [|exact Ec].
      destruct H as (name & off1 & ty & cl & qs' & Hn & H4 & Hr & Hqs). subst qs.
      constructor; [|eapply IH; exact Hr].
      cbn [q_name]. unfold name_bound. eapply read_name_length. exact Hn.
Qed.

(* ---------- DnsIncoming::new ---------- *)

(* item 8 *)
Theorem decode_total : forall d, safe (decode d).
Proof.
  intros d. unfold decode. destruct (len d <? 12) eqn:E; [apply safe_err|].
  apply N.ltb_ge in E.
  destruct (u16_at_ok d 0) as [id Hid]; [lia|]. rewrite Hid. cbn [bind].
  destruct (u16_at_ok d 2) as [flags Hfl]; [lia|]. rewrite Hfl. cbn [bind].
  destruct (u16_at_ok d 4) as [nq Hnq]; [lia|]. rewrite Hnq. cbn [bind].
  destruct (u16_at_ok d 6) as [nan Hnan]; [lia|]. rewrite Hnan. cbn [bind].
  destruct (u16_at_ok d 8) as [nns Hnns]; [lia|]. rewrite Hnns. cbn [bind].
  destruct (u16_at_ok d 10) as [nar Hnar]; [lia|]. rewrite Hnar. cbn [bind].
  cbv zeta.
  apply bind_safe; [apply read_questions_safe_gen; unfold len; lia|].
  intros [qs o1] _. cbv beta iota.
  apply bind_safe; [apply read_rrs_safe_gen; unfold len; lia|].
  intros [an o2] _. cbv beta iota.
  apply bind_safe; [apply read_rrs_safe_gen; unfold len; lia|].
  intros [ns o3] _. cbv beta iota.
  apply bind_safe; [apply read_rrs_safe_gen; unfold len; lia|].
  intros [ar o4] _. cbv beta iota. apply safe_ok.
Qed.

(* what a successful decode did *)
Lemma decode_inv d m :
  decode d = Ok m ->
  exists resp o1 o2 o3 o4,
    12 <= len d /\
    read_questions (S (length d)) (m_nq m) d 12 = Ok (m_questions m, o1) /\
    read_rrs (S (length d)) (m_nan m) d resp o1 = Ok (m_answers m, o2) /\
    read_rrs (S (length d)) (m_nns m) d resp o2 = Ok (m_authorities m, o3) /\
    read_rrs (S (length d)) (m_nar m) d resp o3 = Ok (m_additionals m, o4).
Proof.
  intros H. unfold decode in H. destruct (len d <? 12) eqn:E; [discriminate|].
  apply N.ltb_ge in E.
  destruct (u16_at d 0) as [id| | |]; cbn [bind] in H; try discriminate.
  destruct (u16_at d 2) as [flags| | |]; cbn [bind] in H; try discriminate.
  destruct (u16_at d 4) as [nq| | |]; cbn [bind] in H; try discriminate.
  destruct (u16_at d 6) as [nan| | |]; cbn [bind] in H; try discriminate.
  destruct (u16_at d 8) as [nns| | |]; cbn [bind] in H; try discriminate.
  destruct (u16_at d 10) as [nar| | |]; cbn [bind] in H; try discriminate.
  cbv zeta in H.
  remember (N.land flags 32768 =? 32768) as resp eqn:Hresp.
  destruct (read_questions (S (length d)) nq d 12) as [[qs o1]| | |] eqn:Eq;
    cbn [bind] in H; try discriminate.
  destruct (read_rrs (S (length d)) nan d resp o1) as [[an o2]| | |] eqn:Ean;
    cbn [bind] in H; try discriminate.
  destruct (read_rrs (S (length d)) nns d resp o2) as [[ns o3]| | |] eqn:Ens;
    cbn [bind] in H; try discriminate.
  destruct (read_rrs (S (length d)) nar d resp o3) as [[ar o4]| | |] eqn:Ear;
    cbn [bind] in H; try discriminate.
  injection H as Hm. subst m. cbn [m_nq m_nan m_nns m_nar m_questions m_answers
    m_authorities m_additionals].
  exists resp, o1, o2, o3, o4. repeat (split; [assumption|]). assumption.
Qed.

(* item 9 *)
Theorem decode_bounded : forall d m,
  decode d = Ok m ->
  12 <= len d /\
  5 * N.of_nat (length (m_questions m)) +
  11 * N.of_nat (length (m_answers m) + length (m_authorities m) + length (m_additionals m))
    <= len d - 12.
Proof.
  intros d m H. apply decode_inv in H.
  destruct H as (resp & o1 & o2 & o3 & o4 & H12 & Hq & Han & Hns & Har).
  apply read_questions_bound in Hq. apply read_rrs_bound in Han.
  apply read_rrs_bound in Hns. apply read_rrs_bound in Har.
  split; [exact H12|]. lia.
Qed.

(* item 10 *)
Theorem decode_names_bounded : forall d m,
  decode d = Ok m ->
  Forall (fun q => (length (q_name q) <= name_bound d)%nat) (m_questions m) /\
  Forall (fun r => (length (r_name r) <= name_bound d)%nat) (m_answers m) /\
  Forall (fun r => (length (r_name r) <= name_bound d)%nat) (m_authorities m) /\
  Forall (fun r => (length (r_name r) <= name_bound d)%nat) (m_additionals m).
Proof.
  intros d m H. apply decode_inv in H.
  destruct H as (resp & o1 & o2 & o3 & o4 & H12 & Hq & Han & Hns & Har).
  apply read_questions_names in Hq. apply read_rrs_names in Han.
  apply read_rrs_names in Hns. apply read_rrs_names in Har.
  repeat split; assumption.
Qed.

(* ---------- RDATA payloads are cut out of the datagram ---------- *)

Lemma read_rdata_inside d ty off rdlen x o :
  read_rdata d ty off rdlen = Ok (Some x, o) ->
  (forall t, x = RTxt t -> sublist_of t d) /\ (forall a, x = RAddr a -> sublist_of a d).
Proof.
  intros H. unfold read_rdata in H.
  destruct ((ty =? TY_CNAME) || (ty =? TY_PTR)).
  { destruct (read_name d off) as [[alias o']| | |]; cbn [bind] in H; try discriminate.
    injection H as Hx Ho. subst x. split; intros y Hy; discriminate. }
  destruct (ty =? TY_TXT).
  { destruct (read_vec d off rdlen) as [[t o']| | |] eqn:Ev; cbn [bind] in H; try discriminate.
    injection H as Hx Ho. subst x. apply read_vec_ok in Ev. destruct Ev as (_ & _ & Hs).
    split; intros y Hy; [|discriminate]. injection Hy as Hy. subst y.
    eapply slice_sublist. exact Hs. }
  destruct (ty =? TY_SRV).
  { destruct (read_u16 d off) as [[p o1]| | |]; cbn [bind] in H; try discriminate.
    destruct (read_u16 d o1) as [[w o2]| | |]; cbn [bind] in H; try discriminate.
    destruct (read_u16 d o2) as [[po o3]| | |]; cbn [bind] in H; try discriminate.
    destruct (read_name d o3) as [[h o4]| | |]; cbn [bind] in H; try discriminate.
    injection H as Hx Ho. subst x. split; intros y Hy; discriminate. }
  destruct (ty =? TY_HINFO).
  { destruct (read_char_string d off) as [[cpu o1]| | |]; cbn [bind] in H; try discriminate.
    destruct (read_char_string d o1) as [[os o2]| | |]; cbn [bind] in H; try discriminate.
    injection H as Hx Ho. subst x. split; intros y Hy; discriminate. }
  destruct (ty =? TY_A).
  { destruct (len d <? off + 4); [discriminate|].
    destruct (slice d off 4) as [s| | |] eqn:Es; cbn [bind] in H; try discriminate.
    injection H as Hx Ho. subst x. split; intros y Hy; [discriminate|].
    injection Hy as Hy. subst y. eapply slice_sublist. exact Es. }
  destruct (ty =? TY_AAAA).
  { destruct (len d <? off + 16); [discriminate|].
    destruct (slice d off 16) as [s| | |] eqn:Es; cbn [bind] in H; try discriminate.
    injection H as Hx Ho. subst x. split; intros y Hy; [discriminate|].
    injection Hy as Hy. subst y. eapply slice_sublist. exact Es. }
  destruct (ty =? TY_NSEC).
  { destruct (read_name d off) as [[nx o1]| | |]; cbn [bind] in H; try discriminate.
    destruct (read_type_bitmap d o1) as [[bm o2]| | |]; cbn [bind] in H; try discriminate.
    injection H as Hx Ho. subst x. split; intros y Hy; discriminate. }
  discriminate.
Qed.

(* item 11 *)
Theorem rr_data_inside : forall d resp off r o,
  read_one_rr d resp off = Ok (Some r, o) ->
  (forall t, r_data r = RTxt t -> sublist_of t d) /\
  (forall a, r_data r = RAddr a -> sublist_of a d).
Proof.
  intros d resp off r o H. apply read_one_rr_inv in H.
  destruct H as (name & off1 & rdlen & _ & _ & _ & _ & _ & ty & Hrd).
  eapply read_rdata_inside. exact Hrd.
Qed.

(* convenience corollaries: starting inside the datagram, the lists end inside it *)
Lemma read_rrs_end_inside fuel count d resp off rs o :
  read_rrs fuel count d resp off = Ok (rs, o) -> off <= len d -> o <= len d.
Proof. intros H Hoff. apply read_rrs_bound in H. lia. Qed.

Lemma read_questions_end_inside fuel count d off qs o :
  read_questions fuel count d off = Ok (qs, o) -> off <= len d -> o <= len d.
Proof. intros H Hoff. apply read_questions_bound in H. lia. Qed.

Print Assumptions decode_total.
Print Assumptions decode_bounded.
Print Assumptions decode_names_bounded.
Print Assumptions rr_data_inside.
