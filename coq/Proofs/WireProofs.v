(* Proofs about the wire decoder model (Model/Wire.v). *)
From Coq Require Import List NArith Bool Lia Arith.
From Mdns Require Import Res Bytes Utf8 Rec Wire.
Import ListNotations.
Open Scope N_scope.
