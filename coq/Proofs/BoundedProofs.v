(* C20: properties of the size model (Model/BoundedModel.v).  No axioms. *)
From Coq Require Import List NArith Bool Lia.
From Mdns Require Import Bytes ParamsHostres HostresBase BoundedModel BoundedSpec HostresPinned.
Import ListNotations.
Open Scope N_scope.

Definition all_kinds : list kind := [KPtr; KSrv; KTxt; KAddr; KNsec].
Definition entries_of (k : kind) (c : bcache) : list crec := flat_map snd (get_map k c).

(* ---------------------------------------------------------------- maps *)
Lemma get_set_same k m c : k <> KNone -> get_map k (set_map k m c) = m.
Proof. destruct k; simpl; intros H; try reflexivity. contradiction. Qed.

Lemma get_set_other k k' m c : k <> k' -> get_map k' (set_map k m c) = get_map k' c.
Proof. destruct k, k'; simpl; intros H; try reflexivity; contradiction. Qed.

Lemma sub_set_map k m c : bc_sub (set_map k m c) = bc_sub c.
Proof. destruct k; reflexivity. Qed.

Lemma count_app_empty m key : count (m ++ [(key, [])]) = count m.
Proof. unfold count. rewrite flat_map_app. simpl. rewrite app_nil_r. reflexivity. Qed.

(* ---------------------------------------------------------------- a record that is not needed is not cached (policy PNeed) *)
Lemma aou_kind_not_ok k now fu x c :
  aou_kind k now fu false x c
  = (set_map k (if ahas (match k with KAddr => lower (c_name x) | _ => c_name x end) (get_map k c)
                then get_map k c
                else get_map k c ++ [(match k with KAddr => lower (c_name x) | _ => c_name x end, [])]) c, [], None).
Proof.
  unfold aou_kind. rewrite andb_false_r. cbn [andb negb]. rewrite orb_true_r. reflexivity.
Qed.

Theorem unneeded_never_cached now fu x c :
  let '(c', tm, res) := add_or_update now fu false x c in
  res = None /\ tm = []
  /\ bc_sub c' = bc_sub c
  /\ forall k, count (get_map k c') = count (get_map k c).
Proof.
  unfold add_or_update.
  assert (G : forall k0, k0 <> KNone ->
            let '(c', tm, res) := aou_kind k0 now fu false x c in
            res = None /\ tm = [] /\ bc_sub c' = bc_sub c /\ forall k, count (get_map k c') = count (get_map k c)).
  { intros k0 Hk. rewrite aou_kind_not_ok. repeat split; [apply sub_set_map|].
    intros k. destruct k0, k; try contradiction; cbn [get_map set_map]; try reflexivity;
      destruct (ahas _ _); try reflexivity; apply count_app_empty. }
  destruct (kind_of (c_ty x)); try (apply G; discriminate).
  repeat split; reflexivity.
Qed.

(* under PNeed a record is offered to the cache with ok = needed; when it is needed the two
   policies treat it alike *)
Theorem need_rule_agrees_when_needed now fu ifx q res acc r :
  needed now q res (fst (fst (fst acc))) r = true ->
  absorb PNeed now fu ifx q res acc r = absorb PCode now fu ifx q res acc r.
Proof. destruct acc as [[[c tm] ch] ex]. simpl. intros H. rewrite H. reflexivity. Qed.

(* ---------------------------------------------------------------- expired records: gone after one iteration *)
Definition expired_by (now : N) (x : crec) : Prop := l_expires (c_life x) <= now.
Definition all_expired (now : N) (c : bcache) : Prop :=
  forall k x, In x (entries_of k c) -> expired_by now x.

Lemma aset_entries {A} k (v : list A) m x :
  In x (flat_map snd (aset k v m)) -> In x v \/ In x (flat_map snd m).
Proof.
  induction m as [|[k0 v0] t IH]; simpl.
  - rewrite app_nil_r. auto.
  - destruct (beq k k0); simpl; rewrite !in_app_iff; intros [H|H]; auto. destruct (IH H); auto.
Qed.

Lemma adel_entries {A} k (m : list (name * list A)) x :
  In x (flat_map snd (adel k m)) -> In x (flat_map snd m).
Proof.
  induction m as [|[k0 v0] t IH]; simpl; [auto|].
  destruct (beq k k0); simpl; rewrite !in_app_iff; intros H; [right; apply IH; exact H|].
  destruct H as [H|H]; auto.
Qed.

Lemma aget_entries {A} k (m : list (name * list A)) b x :
  aget k m = Some b -> In x b -> In x (flat_map snd m).
Proof.
  induction m as [|[k0 v0] t IH]; simpl; [discriminate|].
  destruct (beq k k0); rewrite in_app_iff.
  - intros H; inversion H; subst. auto.
  - intros H Hx. right. eapply IH; eassumption.
Qed.

(* eviction leaves nothing of what has expired *)
Lemma live_only_none now m :
  (forall x, In x (flat_map snd m) -> expired_by now x) -> flat_map snd (live_only now m) = [].
Proof.
  unfold live_only. induction m as [|[k b] t IH]; simpl; intros H; [reflexivity|].
  rewrite IH by (intros x Hx; apply H; apply in_or_app; right; exact Hx).
  rewrite app_nil_r.
  assert (Hb : forall x, In x b -> expired_by now x) by (intros x Hx; apply H; apply in_or_app; left; exact Hx).
  clear -Hb. induction b as [|r b IH]; simpl; [reflexivity|].
  assert (E : r_expired now r = true).
  { unfold r_expired, life_expired. rewrite pin_is_expired. apply N.leb_le. apply Hb. left. reflexivity. }
  rewrite E. simpl. apply IH. intros x Hx. apply Hb. right. exact Hx.
Qed.

Lemma drop_empty_entries m : flat_map snd (drop_empty m) = flat_map snd m.
Proof.
  unfold drop_empty. induction m as [|[k b] t IH]; simpl; [reflexivity|].
  destruct b; simpl; rewrite IH; reflexivity.
Qed.

(* resolve_updated_instances does not touch the cache *)
Lemma add_retr_cache t c s : b_cache (add_retr t c s) = b_cache s.
Proof. reflexivity. Qed.

Lemma add_pending_cache now s i : b_cache (add_pending now s i) = b_cache s.
Proof. unfold add_pending. destruct (mem i (b_pending s)); reflexivity. Qed.

Lemma fold_add_pending_cache now l : forall s, b_cache (fold_left (add_pending now) l s) = b_cache s.
Proof. induction l as [|i t IH]; intros s; simpl; [reflexivity|]. rewrite IH. apply add_pending_cache. Qed.

Lemma settle_cache u now s l : b_cache (settle u now s l) = b_cache s.
Proof. unfold settle. rewrite fold_add_pending_cache. reflexivity. Qed.

Lemma resolve_updated_cache now s l : b_cache (resolve_updated now s l) = b_cache s.
Proof. unfold resolve_updated. destruct l; [reflexivity|apply settle_cache]. Qed.

Lemma fold_resolve_cache now (f : bst -> name -> list name) l : forall s,
  b_cache (fold_left (fun s0 h => resolve_updated now s0 (f s0 h)) l s) = b_cache s.
Proof. induction l as [|h t IH]; intros s; simpl; [reflexivity|]. rewrite IH. apply resolve_updated_cache. Qed.

Theorem evict_all_expired now s :
  all_expired now (b_cache s) -> entries_total (b_cache (do_evict now s)) = 0.
Proof.
  intros H. unfold do_evict.
  rewrite (fold_resolve_cache now (fun s0 h => instances_on_host (b_cache s0) h)). simpl.
  unfold entries_total, count. simpl.
  rewrite !drop_empty_entries.
  rewrite (live_only_none now (bc_ptr (b_cache s))) by (intros x Hx; apply (H KPtr); exact Hx).
  rewrite (live_only_none now (bc_srv (b_cache s))) by (intros x Hx; apply (H KSrv); exact Hx).
  rewrite (live_only_none now (bc_txt (b_cache s))) by (intros x Hx; apply (H KTxt); exact Hx).
  rewrite (live_only_none now (bc_addr (b_cache s))) by (intros x Hx; apply (H KAddr); exact Hx).
  rewrite (live_only_none now (bc_nsec (b_cache s))) by (intros x Hx; apply (H KNsec); exact Hx).
  reflexivity.
Qed.

(* ---- the phases before eviction keep "everything has expired" when no response arrives ---- *)
Lemma exec_rerun_cache now s x : b_cache (exec_rerun now s x) = b_cache s.
Proof.
  unfold exec_rerun. destruct (snd x); simpl.
  - reflexivity.
  - destruct (_ && _); reflexivity.
  - destruct (ahas _ _); [|reflexivity].
    unfold host_send. destruct (match aget _ _ with Some (Some d) => _ | _ => true end); reflexivity.
Qed.

Lemma do_reruns_cache now s : b_cache (do_reruns now s) = b_cache s.
Proof.
  unfold do_reruns.
  assert (G : forall l s0, b_cache (fold_left (exec_rerun now) l s0) = b_cache s0).
  { induction l as [|x t IH]; intros s0; simpl; [reflexivity|]. rewrite IH. apply exec_rerun_cache. }
  rewrite G. reflexivity.
Qed.

Lemma fold_adel_entries {A} (l : list name) : forall (m : list (name * list A)) x,
  In x (flat_map snd (fold_left (fun m i => adel i m) l m)) -> In x (flat_map snd m).
Proof.
  induction l as [|i t IH]; intros m x; simpl; [auto|]. intros H. apply IH in H. eapply adel_entries. exact H.
Qed.

Lemma remove_service_type_expired now ty c :
  all_expired now c -> all_expired now (remove_service_type ty c).
Proof.
  intros H. unfold remove_service_type. destruct (aget ty (bc_ptr c)) as [ptrs|]; [|exact H].
  intros k x. destruct k; unfold entries_of; simpl; intros Hx.
  - apply (H KPtr). eapply adel_entries. exact Hx.
  - apply (H KSrv). eapply fold_adel_entries. exact Hx.
  - apply (H KTxt). eapply fold_adel_entries. exact Hx.
  - apply (H KAddr). revert Hx.
    match goal with |- In x (flat_map snd (fold_left ?f ?hs ?am)) -> _ =>
      assert (G : forall l0 m0, In x (flat_map snd (fold_left f l0 m0)) -> In x (flat_map snd m0)) end.
    { induction l0 as [|h t IH]; intros m0; simpl; [auto|]. intros Hx. apply IH in Hx.
      destruct (existsb _ _); [exact Hx|eapply adel_entries; exact Hx]. }
    apply G.
  - apply (H KNsec). exact Hx.
  - contradiction.
Qed.

Lemma exec_call_expired now acc c :
  all_expired now (b_cache (fst acc)) -> all_expired now (b_cache (fst (exec_call now acc c))).
Proof.
  destruct acc as [s out]. cbn [fst]. intros H. destruct c; cbn [exec_call fst].
  - unfold browse_send. rewrite add_retr_cache, settle_cache. exact H.
  - destruct (mem ty (b_queriers s)); cbn [fst b_cache]; [apply remove_service_type_expired|]; exact H.
  - unfold host_send. cbn [b_resolvers]. destruct (match aget _ _ with Some (Some d) => _ | _ => true end); exact H.
  - destruct (ahas (lower host) (b_resolvers s)); exact H.
  - exact H.
  - exact H.
Qed.

Lemma fold_calls_expired now cs : forall acc,
  all_expired now (b_cache (fst acc)) -> all_expired now (b_cache (fst (fold_left (exec_call now) cs acc))).
Proof.
  induction cs as [|c t IH]; intros acc H; simpl; [exact H|]. apply IH. apply exec_call_expired. exact H.
Qed.

(* refresh only moves refresh marks: the expiry times stay *)
Lemma refresh_maybe_expires now l l' : life_refresh_maybe now l = Some l' -> l_expires l' = l_expires l.
Proof.
  unfold life_refresh_maybe. destruct (_ || _); [discriminate|]. intros H. inversion H. reflexivity.
Qed.

Lemma refresh_bucket_expired now b :
  (forall x, In x b -> expired_by now x) -> forall x, In x (fst (refresh_bucket now b)) -> expired_by now x.
Proof.
  intros H x Hx. unfold refresh_bucket in Hx. simpl in Hx. apply in_map_iff in Hx as [r [E Hr]]. subst x.
  specialize (H r Hr). unfold expired_by in *.
  destruct (life_refresh_maybe now (c_life r)) as [l|] eqn:El; [|exact H].
  simpl. rewrite (refresh_maybe_expires _ _ _ El). exact H.
Qed.

Lemma refresh_key_expired now (m : amap) t k :
  (forall x, In x (flat_map snd m) -> expired_by now x) ->
  forall x, In x (flat_map snd (fst (refresh_key now (m, t) k))) -> expired_by now x.
Proof.
  intros H x. unfold refresh_key. cbn [fst snd]. destruct (aget k m) as [b|] eqn:E; [|apply H].
  unfold refresh_bucket. cbn [fst snd]. intros Hx.
  apply aset_entries in Hx as [Hx|Hx]; [|apply H; exact Hx].
  apply (refresh_bucket_expired now b); [|exact Hx]. intros y Hy. apply H. eapply aget_entries; eassumption.
Qed.

Lemma refresh_type_expired now acc ty :
  all_expired now (fst acc) -> all_expired now (fst (refresh_type now acc ty)).
Proof.
  destruct acc as [c tm]. simpl. intros H. unfold refresh_type.
  pose proof (refresh_key_expired now (bc_ptr c) [] ty (fun x Hx => H KPtr x Hx)) as Hp.
  destruct (refresh_key now (bc_ptr c, []) ty) as [ptr1 t1]. simpl in Hp.
  set (insts := map c_target (filter (fun r => negb (r_expired now r)) (bucket ptr1 ty))).
  (* SRV / TXT *)
  assert (G : forall l (sm tmx : amap) t,
            (forall x, In x (flat_map snd sm) -> expired_by now x) ->
            (forall x, In x (flat_map snd tmx) -> expired_by now x) ->
            (forall x, In x (flat_map snd (fst (fst (fold_left (fun a i => let '(sm, tmx, t) := a in
                            let '(sm', tsrv) := refresh_key now (sm, []) i in
                            let '(tm', ttxt) := refresh_key now (tmx, []) i in
                            (sm', tm', t ++ tsrv ++ ttxt)) l (sm, tmx, t))))) -> expired_by now x)
            /\ (forall x, In x (flat_map snd (snd (fst (fold_left (fun a i => let '(sm, tmx, t) := a in
                            let '(sm', tsrv) := refresh_key now (sm, []) i in
                            let '(tm', ttxt) := refresh_key now (tmx, []) i in
                            (sm', tm', t ++ tsrv ++ ttxt)) l (sm, tmx, t))))) -> expired_by now x)).
  { induction l as [|i l IH]; intros sm tmx t Hs Ht; [simpl; auto|]. cbn [fold_left]. cbv beta iota.
    pose proof (refresh_key_expired now sm [] i Hs) as H1.
    pose proof (refresh_key_expired now tmx [] i Ht) as H2.
    destruct (refresh_key now (sm, []) i) as [sm1 ts]. destruct (refresh_key now (tmx, []) i) as [tm1 tt'].
    cbn [fst snd] in H1, H2. exact (IH sm1 tm1 (t ++ ts ++ tt') H1 H2). }
  specialize (G insts (bc_srv (set_map KPtr ptr1 c)) (bc_txt (set_map KPtr ptr1 c)) []
                (fun x Hx => H KSrv x Hx) (fun x Hx => H KTxt x Hx)).
  destruct (fold_left _ insts _) as [[srv2 txt2] t2]. cbn [fst snd] in G. destruct G as [Hs Ht].
  (* addresses *)
  assert (G2 : forall l (am : amap) t, (forall x, In x (flat_map snd am) -> expired_by now x) ->
            forall x, In x (flat_map snd (fst (fold_left (fun a h => refresh_key now a (lower h)) l (am, t)))) -> expired_by now x).
  { induction l as [|h l IH]; intros am t Ha; [exact Ha|]. cbn [fold_left].
    pose proof (refresh_key_expired now am t (lower h) Ha) as H1.
    destruct (refresh_key now (am, t) (lower h)) as [am1 t1']. simpl in H1. apply IH. exact H1. }
  specialize (G2 (dedup_names (flat_map (fun i => map c_target (bucket srv2 i)) insts))
                 (bc_addr (set_map KPtr ptr1 c)) [] (fun x Hx => H KAddr x Hx)).
  destruct (fold_left _ (dedup_names _) _) as [addr3 t3]. simpl in G2.
  intros k x. destruct k; unfold entries_of; simpl; intros Hx; auto.
  - apply (H KNsec). exact Hx.
  - contradiction.
Qed.

Lemma refresh_host_bucket_expired now b :
  (forall x, In x b -> expired_by now x) -> forall x, In x (refresh_host_bucket now b) -> expired_by now x.
Proof.
  intros H x Hx. unfold refresh_host_bucket in Hx. apply in_map_iff in Hx as [r [E Hr]]. subst x.
  specialize (H r Hr). destruct (_ && _); exact H.
Qed.

Lemma do_refresh_expired now s : all_expired now (b_cache s) -> all_expired now (b_cache (do_refresh now s)).
Proof.
  intros H. unfold do_refresh.
  assert (G : forall l (acc : bcache * list N), all_expired now (fst acc) -> all_expired now (fst (fold_left (refresh_type now) l acc))).
  { induction l as [|ty l IH]; intros acc Ha; simpl; [exact Ha|]. apply IH. apply refresh_type_expired. exact Ha. }
  specialize (G (b_queriers s) (b_cache s, []) H).
  destruct (fold_left (refresh_type now) (b_queriers s) (b_cache s, [])) as [c1 tm]. simpl in G. simpl.
  assert (G2 : forall (l : list (name * option N)) (m : amap), (forall x, In x (flat_map snd m) -> expired_by now x) ->
            forall x, In x (flat_map snd (fold_left (fun m (kr : name * option N) => match aget (fst kr) m with
                                      | Some b => aset (fst kr) (refresh_host_bucket now b) m
                                      | None => m end) l m)) -> expired_by now x).
  { induction l as [|kr l IH]; intros m Hm; simpl; [exact Hm|]. apply IH.
    destruct (aget (fst kr) m) as [b|] eqn:E; [|exact Hm].
    intros x Hx. apply aset_entries in Hx as [Hx|Hx]; [|apply Hm; exact Hx].
    eapply refresh_host_bucket_expired; [|exact Hx]. intros y Hy. apply Hm. eapply aget_entries; eassumption. }
  intros k x. destruct k; unfold entries_of; simpl; intros Hx.
  - apply (G KPtr). exact Hx.
  - apply (G KSrv). exact Hx.
  - apply (G KTxt). exact Hx.
  - eapply G2; [|exact Hx]. intros y Hy. apply (G KAddr). exact Hy.
  - apply (G KNsec). exact Hx.
  - contradiction.
Qed.

(* quiescent_empty, the cache part: an iteration at time `now` in which no response arrives,
   from a state in which every cached record has expired by `now`, ends with the five cache
   counters at 0 - whatever calls are made in it, under either acceptance rule *)
Theorem quiescent_counters pol s i :
  bi_msgs i = [] -> all_expired (bi_now i) (b_cache s) ->
  entries_total (b_cache (fst (step pol s i))) = 0.
Proof.
  intros Hm H. unfold step. rewrite Hm. simpl fold_left at 1.
  set (now := bi_now i).
  assert (H2 : all_expired now (b_cache (do_timeouts now (pop_timers now s)))) by exact H.
  pose proof (fold_calls_expired now (bi_calls i) (do_timeouts now (pop_timers now s), []) H2) as H3.
  destruct (fold_left (exec_call now) (bi_calls i) (do_timeouts now (pop_timers now s), [])) as [s3 out].
  simpl in *.
  assert (H4 : all_expired now (b_cache (do_reruns now s3))) by (rewrite do_reruns_cache; exact H3).
  pose proof (do_refresh_expired now _ H4) as H5.
  pose proof (evict_all_expired now _ H5) as H6.
  unfold ip_check.
  destruct (b_ip_interval (do_evict now (do_refresh now (do_reruns now s3))) =? 0); [exact H6|].
  destruct (b_next_ip (do_evict now (do_refresh now (do_reruns now s3))) =? 0); [exact H6|].
  destruct (hp_ip_check_due now _); exact H6.
Qed.

(* ---------------------------------------------------------------- the timers of a quiet iteration *)
Lemma touched_no_queriers now s l : b_queriers s = [] -> touched now s l = [].
Proof.
  intros H. unfold touched. rewrite H. induction (bc_ptr (b_cache s)) as [|kb t IH]; simpl; [reflexivity|exact IH].
Qed.

Lemma resolve_updated_quiet now s l :
  b_queriers s = [] ->
  b_timers (resolve_updated now s l) = b_timers s /\ b_retr (resolve_updated now s l) = b_retr s
  /\ b_queriers (resolve_updated now s l) = [] /\ b_next_ip (resolve_updated now s l) = b_next_ip s
  /\ b_ip_interval (resolve_updated now s l) = b_ip_interval s.
Proof.
  intros H. unfold resolve_updated. destruct l; [auto|].
  rewrite (touched_no_queriers now s _ H). unfold settle. simpl. auto.
Qed.

Lemma do_refresh_noq now s :
  b_queriers s = [] ->
  b_timers (do_refresh now s) = b_timers s /\ b_retr (do_refresh now s) = b_retr s
  /\ b_queriers (do_refresh now s) = [] /\ b_next_ip (do_refresh now s) = b_next_ip s
  /\ b_ip_interval (do_refresh now s) = b_ip_interval s.
Proof.
  intros H. unfold do_refresh. rewrite H. simpl. rewrite app_nil_r. auto.
Qed.

(* quiescent_empty, the timer part: in an iteration without responses and calls, from a state
   with no browsed type and no queued retransmission, the heap afterwards is what was not yet
   due, plus at most the re-armed interface check.  So "timers within {next interface check}"
   holds exactly when no timer of an ended search is left in the heap. *)
Theorem quiescent_timers pol s i :
  bi_msgs i = [] -> bi_calls i = [] -> b_queriers s = [] -> b_retr s = [] ->
  exists ip, b_timers (fst (step pol s i)) = filter (fun v => bi_now i <? v) (b_timers s) ++ ip
             /\ (ip = [] \/ ip = [bi_now i + b_ip_interval s]).
Proof.
  intros Hm Hc Hq Hr. unfold step. rewrite Hm, Hc. simpl fold_left.
  set (now := bi_now i).
  set (s2 := do_timeouts now (pop_timers now s)).
  assert (E2 : b_timers s2 = filter (fun v => now <? v) (b_timers s) /\ b_retr s2 = [] /\ b_queriers s2 = []
               /\ b_next_ip s2 = b_next_ip s /\ b_ip_interval s2 = b_ip_interval s).
  { unfold s2, do_timeouts, pop_timers. simpl. repeat split; try assumption; try reflexivity. }
  destruct E2 as [Et [Er [Eq [En Ei]]]].
  assert (E4 : do_reruns now s2 = mkB (b_cache s2) (b_queriers s2) (b_resolvers s2) [] (b_timers s2) (b_pending s2)
                                     (b_resolved s2) (b_next_ip s2) (b_ip_interval s2) (b_excess s2)).
  { unfold do_reruns. rewrite Er. reflexivity. }
  rewrite E4. set (s4 := mkB _ _ _ [] _ _ _ _ _ _).
  assert (E5 : b_timers (do_refresh now s4) = b_timers s2 /\ b_retr (do_refresh now s4) = []
               /\ b_queriers (do_refresh now s4) = [] /\ b_next_ip (do_refresh now s4) = b_next_ip s2
               /\ b_ip_interval (do_refresh now s4) = b_ip_interval s2).
  { apply (do_refresh_noq now s4). exact Eq. }
  destruct E5 as [E5t [E5r [E5q [E5n E5i]]]].
  set (s5 := do_refresh now s4) in *.
  assert (E6 : b_timers (do_evict now s5) = b_timers s5 /\ b_next_ip (do_evict now s5) = b_next_ip s5
               /\ b_ip_interval (do_evict now s5) = b_ip_interval s5).
  { unfold do_evict.
    match goal with |- context [fold_left ?f ?hs ?st] =>
      assert (G : forall l0 s0, b_queriers s0 = [] ->
                 b_timers (fold_left f l0 s0) = b_timers s0 /\ b_next_ip (fold_left f l0 s0) = b_next_ip s0
                 /\ b_ip_interval (fold_left f l0 s0) = b_ip_interval s0) end.
    { induction l0 as [|h l0 IH]; intros s0 H0; simpl; [auto|].
      destruct (resolve_updated_quiet now s0 (instances_on_host (b_cache s0) h) H0) as [A1 [A2 [A3 [A4 A5]]]].
      destruct (IH _ A3) as [B1 [B2 B3]]. rewrite B1, B2, B3. auto. }
    match goal with |- context [fold_left ?f ?hs ?st] => destruct (G hs st) as [B1 [B2 B3]]; [exact E5q|] end.
    rewrite B1, B2, B3. simpl. auto. }
  destruct E6 as [E6t [E6n E6i]].
  unfold ip_check. rewrite E6t, E6n, E6i, E5t, E5n, E5i, Et, En, Ei.
  destruct (b_ip_interval s =? 0); simpl; [exists []; rewrite app_nil_r; auto|].
  destruct (b_next_ip s =? 0); simpl; [eexists; split; [reflexivity|right; reflexivity]|].
  destruct (hp_ip_check_due now (b_next_ip s)); simpl; [eexists; split; [reflexivity|right; reflexivity]|].
  exists []. rewrite app_nil_r, E6t, E5t, Et. auto.
Qed.

(* ---------------------------------------------------------------- outside the class "an unneeded record was stored"
   the code's rule and the need rule give the same run *)
Lemma absorb_excess_mono pol now fu ifx q res acc r :
  snd acc <= snd (absorb pol now fu ifx q res acc r).
Proof.
  destruct acc as [[[c tm] ch] ex]. unfold absorb. cbn [snd].
  destruct (add_or_update now fu _ (crec_of now ifx r) c) as [[c' ft] [[u isnew]|]]; cbn [snd]; [|lia].
  destruct isnew.
  - destruct ((c_ty u =? ty_PTR) && hp_ptr_ttl_ok (l_ttl (c_life u))); cbn [snd];
      destruct (needed now q res c r); lia.
  - cbn [snd]. destruct (needed now q res c r); lia.
Qed.

Lemma aou_kind_refused_same k now fu x c :
  snd (aou_kind k now fu true x c) = None ->
  aou_kind k now fu false x c = aou_kind k now fu true x c.
Proof.
  rewrite aou_kind_not_ok. unfold aou_kind. destruct fu.
  - (* for us: the code never refuses *)
    cbn [negb]. rewrite orb_false_r.
    match goal with |- context [if ?bb then set_sub ?a c else c] => generalize (if bb then set_sub a c else c); intros c1 end.
    destruct (bucket (get_map k c1) _); cbn [orb];
      destruct (update_rec now x _) as [[[b2 u] rv]|]; cbn [snd]; intros H; discriminate H.
  - rewrite andb_false_r. cbn [andb negb]. rewrite orb_false_r.
    destruct (bucket (get_map k c) _) eqn:Eb; [intros _; reflexivity|].
    destruct (update_rec now x _) as [[[b2 u] rv]|]; cbn [snd]; intros H; discriminate H.
Qed.

Lemma aou_refused_same now fu x c :
  snd (add_or_update now fu true x c) = None ->
  add_or_update now fu false x c = add_or_update now fu true x c.
Proof.
  unfold add_or_update. destruct (kind_of (c_ty x)); try apply aou_kind_refused_same. reflexivity.
Qed.

Lemma absorb_same_when_no_excess now fu ifx q res acc r :
  snd (absorb PCode now fu ifx q res acc r) = snd acc ->
  absorb PNeed now fu ifx q res acc r = absorb PCode now fu ifx q res acc r.
Proof.
  destruct acc as [[[c tm] ch] ex]. unfold absorb. cbn [snd].
  destruct (needed now q res c r) eqn:En; [reflexivity|].
  destruct (add_or_update now fu true (crec_of now ifx r) c) as [[c' ft] result] eqn:Ea.
  destruct result as [[u isnew]|].
  - (* stored although not needed: the counter moved *)
    destruct isnew; [destruct ((c_ty u =? ty_PTR) && hp_ptr_ttl_ok (l_ttl (c_life u)))|]; cbn [snd]; intros H; lia.
  - intros _. rewrite aou_refused_same by (rewrite Ea; reflexivity). rewrite Ea. reflexivity.
Qed.

Lemma fold_absorb_mono pol now fu ifx q res rs : forall acc,
  snd acc <= snd (fold_left (absorb pol now fu ifx q res) rs acc).
Proof.
  induction rs as [|r t IH]; intros acc; simpl; [lia|].
  eapply N.le_trans; [apply (absorb_excess_mono pol now fu ifx q res acc r)|apply IH].
Qed.

Lemma fold_absorb_same now fu ifx q res rs : forall acc,
  snd (fold_left (absorb PCode now fu ifx q res) rs acc) = snd acc ->
  fold_left (absorb PNeed now fu ifx q res) rs acc = fold_left (absorb PCode now fu ifx q res) rs acc.
Proof.
  induction rs as [|r t IH]; intros acc H; simpl; [reflexivity|]. simpl in H.
  pose proof (absorb_excess_mono PCode now fu ifx q res acc r) as M1.
  pose proof (fold_absorb_mono PCode now fu ifx q res t (absorb PCode now fu ifx q res acc r)) as M2.
  assert (E : snd (absorb PCode now fu ifx q res acc r) = snd acc) by lia.
  rewrite (absorb_same_when_no_excess _ _ _ _ _ _ _ E). apply IH. lia.
Qed.

(* the phases that do not depend on the rule keep the counter *)
Lemma add_pending_excess now s i : b_excess (add_pending now s i) = b_excess s.
Proof. unfold add_pending. destruct (mem i (b_pending s)); reflexivity. Qed.
Lemma fold_add_pending_excess now l : forall s, b_excess (fold_left (add_pending now) l s) = b_excess s.
Proof. induction l as [|i t IH]; intros s; simpl; [reflexivity|]. rewrite IH. apply add_pending_excess. Qed.
Lemma settle_excess u now s l : b_excess (settle u now s l) = b_excess s.
Proof. unfold settle. rewrite fold_add_pending_excess. reflexivity. Qed.
Lemma resolve_updated_excess now s l : b_excess (resolve_updated now s l) = b_excess s.
Proof. unfold resolve_updated. destruct l; [reflexivity|apply settle_excess]. Qed.

Lemma handle_response_excess pol now s m :
  b_excess (handle_response pol now s m)
  = snd (fold_left (absorb pol now (is_for_us s m) (bm_if m) (b_queriers s) (b_resolvers s)) (bm_recs m)
                   (b_cache s, [], [], b_excess s)).
Proof.
  unfold handle_response.
  destruct (fold_left _ (bm_recs m) (b_cache s, [], [], b_excess s)) as [[[c tm] ch] ex].
  rewrite resolve_updated_excess. reflexivity.
Qed.

Lemma handle_response_mono pol now s m : b_excess s <= b_excess (handle_response pol now s m).
Proof.
  rewrite handle_response_excess.
  apply (fold_absorb_mono pol now (is_for_us s m) (bm_if m) (b_queriers s) (b_resolvers s) (bm_recs m)
                          (b_cache s, [], [], b_excess s)).
Qed.

Lemma handle_response_same now s m :
  b_excess (handle_response PCode now s m) = b_excess s ->
  handle_response PNeed now s m = handle_response PCode now s m.
Proof.
  rewrite handle_response_excess. intros H. unfold handle_response.
  rewrite (fold_absorb_same now (is_for_us s m) (bm_if m) (b_queriers s) (b_resolvers s) (bm_recs m)
                            (b_cache s, [], [], b_excess s) H). reflexivity.
Qed.

Lemma fold_responses_mono pol now ms : forall s, b_excess s <= b_excess (fold_left (handle_response pol now) ms s).
Proof.
  induction ms as [|m t IH]; intros s; simpl; [lia|].
  eapply N.le_trans; [apply (handle_response_mono pol now s m)|apply IH].
Qed.

Lemma fold_responses_same now ms : forall s,
  b_excess (fold_left (handle_response PCode now) ms s) = b_excess s ->
  fold_left (handle_response PNeed now) ms s = fold_left (handle_response PCode now) ms s.
Proof.
  induction ms as [|m t IH]; intros s H; simpl; [reflexivity|]. simpl in H.
  pose proof (handle_response_mono PCode now s m) as M1.
  pose proof (fold_responses_mono PCode now t (handle_response PCode now s m)) as M2.
  assert (E : b_excess (handle_response PCode now s m) = b_excess s) by lia.
  rewrite (handle_response_same now s m E). apply IH. lia.
Qed.

Lemma exec_call_excess now acc c : b_excess (fst (exec_call now acc c)) = b_excess (fst acc).
Proof.
  destruct acc as [s out]. destruct c; cbn [exec_call fst].
  - unfold browse_send, add_retr. cbn [b_excess]. rewrite settle_excess. reflexivity.
  - destruct (mem ty (b_queriers s)); reflexivity.
  - unfold host_send. cbn [b_resolvers]. destruct (match aget _ _ with Some (Some d) => _ | _ => true end); reflexivity.
  - destruct (ahas (lower host) (b_resolvers s)); reflexivity.
  - reflexivity.
  - reflexivity.
Qed.

Lemma fold_calls_excess now cs : forall acc,
  b_excess (fst (fold_left (exec_call now) cs acc)) = b_excess (fst acc).
Proof. induction cs as [|c t IH]; intros acc; simpl; [reflexivity|]. rewrite IH. apply exec_call_excess. Qed.

Lemma exec_rerun_excess now s x : b_excess (exec_rerun now s x) = b_excess s.
Proof.
  unfold exec_rerun. destruct (snd x); simpl.
  - reflexivity.
  - destruct (_ && _); reflexivity.
  - destruct (ahas _ _); [|reflexivity].
    unfold host_send. destruct (match aget _ _ with Some (Some d) => _ | _ => true end); reflexivity.
Qed.

Lemma do_reruns_excess now s : b_excess (do_reruns now s) = b_excess s.
Proof.
  unfold do_reruns.
  assert (G : forall l s0, b_excess (fold_left (exec_rerun now) l s0) = b_excess s0).
  { induction l as [|x t IH]; intros s0; simpl; [reflexivity|]. rewrite IH. apply exec_rerun_excess. }
  rewrite G. reflexivity.
Qed.

Lemma do_refresh_excess now s : b_excess (do_refresh now s) = b_excess s.
Proof. unfold do_refresh. destruct (fold_left (refresh_type now) (b_queriers s) (b_cache s, [])). reflexivity. Qed.

Lemma do_evict_excess now s : b_excess (do_evict now s) = b_excess s.
Proof.
  unfold do_evict.
  match goal with |- context [fold_left ?f ?hs ?st] =>
    assert (G : forall l0 s0, b_excess (fold_left f l0 s0) = b_excess s0) end.
  { induction l0 as [|h l0 IH]; intros s0; simpl; [reflexivity|]. rewrite IH. apply resolve_updated_excess. }
  rewrite G. reflexivity.
Qed.

Lemma ip_check_excess now s : b_excess (ip_check now s) = b_excess s.
Proof.
  unfold ip_check. destruct (b_ip_interval s =? 0); [reflexivity|].
  destruct (b_next_ip s =? 0); [reflexivity|]. destruct (hp_ip_check_due now (b_next_ip s)); reflexivity.
Qed.

Lemma step_excess pol s i :
  b_excess (fst (step pol s i)) = b_excess (fold_left (handle_response pol (bi_now i)) (bi_msgs i) s).
Proof.
  unfold step.
  pose proof (fold_calls_excess (bi_now i) (bi_calls i)
     (do_timeouts (bi_now i) (pop_timers (bi_now i) (fold_left (handle_response pol (bi_now i)) (bi_msgs i) s)), [])) as Hc.
  destruct (fold_left (exec_call (bi_now i)) (bi_calls i) _) as [s3 out]. cbn [fst] in *.
  rewrite ip_check_excess, do_evict_excess, do_refresh_excess, do_reruns_excess, Hc. reflexivity.
Qed.

Lemma step_mono pol s i : b_excess s <= b_excess (fst (step pol s i)).
Proof. rewrite step_excess. apply fold_responses_mono. Qed.

Lemma step_same s i :
  b_excess (fst (step PCode s i)) = b_excess s -> step PNeed s i = step PCode s i.
Proof.
  rewrite step_excess. intros H. unfold step. rewrite (fold_responses_same _ _ _ H). reflexivity.
Qed.

Lemma state_after_mono pol h : forall s, b_excess s <= b_excess (state_after pol s h).
Proof.
  induction h as [|i t IH]; intros s; simpl; [lia|].
  eapply N.le_trans; [apply (step_mono pol s i)|apply IH].
Qed.

(* if, over the whole history, the code's rule never stored a record that no active search
   needed on arrival, then it behaved exactly like the need rule *)
Theorem no_excess_runs_agree h : forall s,
  b_excess (state_after PCode s h) = b_excess s ->
  run_from PNeed s h = run_from PCode s h /\ state_after PNeed s h = state_after PCode s h.
Proof.
  induction h as [|i t IH]; intros s H; simpl; [auto|]. simpl in H.
  pose proof (step_mono PCode s i) as M1.
  pose proof (state_after_mono PCode t (fst (step PCode s i))) as M2.
  assert (E : b_excess (fst (step PCode s i)) = b_excess s) by lia.
  rewrite (step_same s i E).
  destruct (step PCode s i) as [s' o] eqn:Es. cbn [fst] in *.
  destruct (IH s') as [H1 H2]; [lia|]. rewrite H1, H2. auto.
Qed.

Lemma all2_refl {A} (f : A -> A -> bool) l : (forall x, f x x = true) -> all2 f l l = true.
Proof. intros H. induction l as [|x t IH]; simpl; [reflexivity|]. rewrite H, IH. reflexivity. Qed.

(* ... and then the cache part of the checker accepts the code's samples *)
Theorem cache_within_need_when_no_excess t0 h :
  b_excess (state_after PCode (b_init t0) h) = 0 ->
  chk_cache t0 h (run PCode t0 h) = true.
Proof.
  intros H. unfold chk_cache, chk_with, run.
  destruct (no_excess_runs_agree h (b_init t0) H) as [H1 _]. rewrite H1.
  apply all2_refl. intros l. apply all2_refl. intros x. unfold cache_within.
  rewrite !N.leb_refl. reflexivity.
Qed.
