(* C04, follow-up schedule at history level: after every loop iteration of every history in which
   time does not run backwards, every follow-up (Resolve) retransmission the model holds is try
   number 1, 2 or 3 and is due strictly after, and at most 500 ms after, the time of that
   iteration.  Hence (with exec_resolve's step theorems) a chain asks at most three times, each
   try at most 500 ms after the iteration that scheduled it, and on a timer-exact schedule
   exactly at +500, +1000, +1500.  No known class is excluded. *)
From Coq Require Import List NArith Bool Lia.
From Mdns Require Import Res Bytes Rec Wire Txt ParamsBrowser ParamsBrowserPinned Cache Browser C03Spec
  BrowserProofs SpecTrackProofs.
Import ListNotations.
Open Scope N_scope.

(* upper bound and try number *)
Definition sched_q (now : N) (x : N * rcmd) : Prop :=
  match snd x with
  | RResolve _ n => fst x <= now + 500 /\ 1 <= n /\ n <= 3
  | RVerify _ _ => True
  end.

(* ... and not yet due *)
Definition sched_p (now : N) (x : N * rcmd) : Prop :=
  match snd x with
  | RResolve _ n => now < fst x /\ fst x <= now + 500 /\ 1 <= n /\ n <= 3
  | RVerify _ _ => True
  end.

Lemma sched_p_q now x : sched_p now x -> sched_q now x.
Proof. unfold sched_p, sched_q. destruct (snd x); tauto. Qed.

Lemma sched_q_mono now now' x : now <= now' -> sched_q now x -> sched_q now' x.
Proof. unfold sched_q. destruct (snd x); [|tauto]. intros H (A & B & C). repeat split; lia. Qed.

Lemma pinned_waits : pending_wait = 500 /\ resolve_wait = 500 /\ pending_first_try = 1.
Proof. destruct (followup_pinned 0) as (_ & A & B & C & _). auto. Qed.

(* every function only appends entries that satisfy sched_p now, or filters *)
Definition appends (now : N) (r r' : list (N * rcmd)) : Prop :=
  exists l, r' = r ++ l /\ Forall (sched_p now) l.

Lemma appends_refl now r : appends now r r.
Proof. exists []. split; [now rewrite app_nil_r|constructor]. Qed.

Lemma appends_trans now a b c : appends now a b -> appends now b c -> appends now a c.
Proof.
  intros [l1 [-> H1]] [l2 [-> H2]]. exists (l1 ++ l2). split; [now rewrite app_assoc|].
  apply Forall_app. auto.
Qed.

Lemma add_pending_appends s now i : appends now (s_retrans s) (s_retrans (add_pending s now i)).
Proof.
  unfold add_pending. destruct (mem i (s_pending s)); [apply appends_refl|]. simpl.
  exists [(now + pending_wait, RResolve i pending_first_try)]. split; [reflexivity|].
  constructor; [|constructor]. destruct pinned_waits as (A & _ & C). rewrite A, C. unfold sched_p. simpl. lia.
Qed.

Lemma fold_pending_appends now l : forall s,
  appends now (s_retrans s) (s_retrans (fold_left (fun s i => add_pending s now i) l s)).
Proof.
  induction l as [|i l IH]; intros s; simpl; [apply appends_refl|].
  eapply appends_trans; [apply add_pending_appends|apply IH].
Qed.

Lemma fold_mark_retrans l : forall s, s_retrans (fold_left mark_resolved l s) = s_retrans s.
Proof. induction l as [|i l IH]; intros s; simpl; [reflexivity|]. now rewrite IH. Qed.

Lemma resolve_updated_appends s now u : appends now (s_retrans s) (s_retrans (fst (resolve_updated s now u))).
Proof.
  unfold resolve_updated. destruct u as [|x xs]; [apply appends_refl|].
  destruct (ru_types (s_cache s) now (s_q s) (x :: xs) (c_ptr (s_cache s)) (s_resolved s)) as [[[[o res] unres] rem] rset].
  simpl.
  pose proof (fold_pending_appends now (dedup unres)
                (fold_left mark_resolved (dedup res)
                   (mkSt (s_cache s) (s_q s) (s_pending s)
                         (fold_left (fun l i => set_remove i l) (map snd rem) rset) (s_retrans s)))) as H.
  now rewrite fold_mark_retrans in H.
Qed.

Lemma handle_read_appends ifs s now d : appends now (s_retrans s) (s_retrans (fst (handle_read ifs s now d))).
Proof.
  unfold handle_read. destruct (accepted_msg ifs d) as [m|]; [|apply appends_refl].
  unfold handle_response.
  destruct (hr_records (s_cache s) now (d_if d) (s_q s) (for_us (s_q s) (m_answers m))
              (m_answers m ++ m_authorities m ++ m_additionals m)) as [[c1 o1] ch].
  pose proof (resolve_updated_appends (with_cache s c1) now (updated_of c1 ch)) as H.
  destruct (resolve_updated (with_cache s c1) now (updated_of c1 ch)) as [s2 o2]. exact H.
Qed.

Lemma run_cmds_appends {C} (f : st -> N -> C -> st * list out) now :
  (forall s c, appends now (s_retrans s) (s_retrans (fst (f s now c)))) ->
  forall l s, appends now (s_retrans s) (s_retrans (fst (run_cmds f s now l))).
Proof.
  intros Hf l. induction l as [|c t IH]; intros s; simpl; [apply appends_refl|].
  pose proof (Hf s c) as H1. destruct (f s now c) as [s1 o1]. specialize (IH s1).
  destruct (run_cmds f s1 now t) as [s2 o2]. simpl in *. eapply appends_trans; eauto.
Qed.

Lemma exec_call_appends s now cl : appends now (s_retrans s) (s_retrans (fst (exec_call s now cl))).
Proof.
  destruct cl as [ty ch|ty|inst timeout|ch]; simpl.
  - unfold exec_browse. destruct (bm_get ty (c_ptr (s_cache s))) as [ptrs|]; [|apply appends_refl].
    destruct (qc_ptrs (s_cache s) now ty ch ptrs) as [[o res] unres]. simpl.
    pose proof (fold_pending_appends now (dedup unres)
                  (fold_left mark_resolved (dedup res)
                     (mkSt (s_cache s) (q_set ty ch (s_q s)) (s_pending s) (s_resolved s) (s_retrans s)))) as H.
    now rewrite fold_mark_retrans in H.
  - unfold exec_stop. destruct (q_get ty (s_q s)); apply appends_refl.
  - unfold exec_verify. destruct (service_verify_queries (s_cache s) inst (Some (now + timeout))) as [c1 qs].
    destruct qs; simpl; [apply appends_refl|].
    exists [(verify_resend_time now, RVerify inst timeout)]. split; [reflexivity|]. constructor; [exact I|constructor].
  - apply appends_refl.
Qed.

Lemma exec_rcmd_appends s now t c :
  sched_q now (t, c) -> appends now (s_retrans s) (s_retrans (fst (exec_rcmd s now c))).
Proof.
  intros Hq. destruct c as [inst n|inst timeout]; simpl.
  - unfold exec_resolve. destruct (if has_ptr_to (s_cache s) inst then query_unresolved (s_cache s) inst else (false, [])) as [sent o].
    destruct (followup_pinned n) as (_ & _ & Hw & _ & _ & Hg & Hn & _).
    destruct (sent && retry_guard n max_try) eqn:E; simpl; [|apply appends_refl].
    apply andb_true_iff in E as [_ E]. rewrite Hg in E. apply N.ltb_lt in E.
    exists [(now + resolve_wait, RResolve inst (retry_next n))]. split; [reflexivity|].
    constructor; [|constructor]. rewrite Hw, Hn. unfold sched_p. simpl. lia.
  - unfold exec_verify. destruct (service_verify_queries (s_cache s) inst None) as [c1 qs].
    destruct qs; apply appends_refl.
Qed.

Lemma run_rcmds_appends now : forall l s,
  Forall (sched_q now) l ->
  appends now (s_retrans s) (s_retrans (fst (run_cmds exec_rcmd s now (map snd l)))).
Proof.
  induction l as [|[t c] l IH]; intros s Hl; simpl; [apply appends_refl|].
  inversion Hl as [|? ? Hx Hrest]; subst.
  pose proof (exec_rcmd_appends s now t c Hx) as H1. destruct (exec_rcmd s now c) as [s1 o1].
  specialize (IH s1 Hrest). destruct (run_cmds exec_rcmd s1 now (map snd l)) as [s2 o2]. simpl in *.
  eapply appends_trans; eauto.
Qed.

Lemma resolve_hosts_appends now names : forall s,
  appends now (s_retrans s) (s_retrans (fst (resolve_hosts s now names))).
Proof.
  induction names as [|h t IH]; intros s; simpl; [apply appends_refl|].
  pose proof (resolve_updated_appends s now (dedup (get_instances_on_host (s_cache s) h))) as H1.
  destruct (resolve_updated s now (dedup (get_instances_on_host (s_cache s) h))) as [s1 o1].
  specialize (IH s1). destruct (resolve_hosts s1 now t) as [s2 o2]. simpl in *. eapply appends_trans; eauto.
Qed.

Lemma Forall_appends_q now r r' : Forall (sched_q now) r -> appends now r r' -> Forall (sched_q now) r'.
Proof.
  intros H [l [-> Hl]]. apply Forall_app. split; [assumption|].
  eapply Forall_impl; [|exact Hl]. intros x. apply sched_p_q.
Qed.

Lemma Forall_appends_p now r r' : Forall (sched_p now) r -> appends now r r' -> Forall (sched_p now) r'.
Proof. intros H [l [-> Hl]]. apply Forall_app. auto. Qed.

(* one iteration: bounded before => not-yet-due and bounded after *)
Theorem iterate_schedule ifs s it :
  Forall (sched_q (i_now it)) (s_retrans s) ->
  Forall (sched_p (i_now it)) (s_retrans (fst (iterate ifs s it))).
Proof.
  intros H0. unfold iterate. set (now := i_now it) in *.
  pose proof (run_cmds_appends (handle_read ifs) now (fun s d => handle_read_appends ifs s now d)
                (deliveries_in_order (i_dgrams it)) s) as A1.
  destruct (run_cmds (handle_read ifs) s now (deliveries_in_order (i_dgrams it))) as [s1 o1]. cbn [fst] in A1.
  pose proof (run_cmds_appends exec_call now (fun s c => exec_call_appends s now c) (i_calls it) s1) as A2.
  destruct (run_cmds exec_call s1 now (i_calls it)) as [s2 o2]. cbn [fst] in A2.
  assert (H2 : Forall (sched_q now) (s_retrans s2)).
  { eapply Forall_appends_q; [eapply Forall_appends_q; [exact H0|exact A1]|exact A2]. }
  (* the retransmission pass *)
  unfold run_retrans.
  set (due := filter (fun tc => fst tc <=? now) (s_retrans s2)).
  set (keep := filter (fun tc => negb (fst tc <=? now)) (s_retrans s2)).
  assert (Hdue : Forall (sched_q now) due).
  { apply Forall_forall. intros x Hx. apply filter_In in Hx as [Hx _]. rewrite Forall_forall in H2. auto. }
  assert (Hkeep : Forall (sched_p now) keep).
  { apply Forall_forall. intros x Hx. apply filter_In in Hx as [Hx Hn].
    rewrite Forall_forall in H2. specialize (H2 x Hx). apply negb_true_iff in Hn. apply N.leb_gt in Hn.
    unfold sched_p, sched_q in *. destruct (snd x); [|exact I]. tauto. }
  pose proof (run_rcmds_appends now due (mkSt (s_cache s2) (s_q s2) (s_pending s2) (s_resolved s2) keep) Hdue) as A3.
  destruct (run_cmds exec_rcmd (mkSt (s_cache s2) (s_q s2) (s_pending s2) (s_resolved s2) keep) now (map snd due))
    as [s3 o3]. cbn [fst s_retrans] in A3.
  assert (H3 : Forall (sched_p now) (s_retrans s3)) by (eapply Forall_appends_p; eauto).
  destruct (refresh_all (s_cache s3) now (s_q s3)) as [c4 o4].
  unfold evict. destruct (evict_services (s_cache (with_cache s3 c4)) now) as [c5 ex].
  destruct (evict_addr c5 now) as [c6 names].
  pose proof (resolve_hosts_appends now (dedup names) (with_cache (with_cache s3 c4) c6)) as A5.
  destruct (resolve_hosts (with_cache (with_cache s3 c4) c6) now (dedup names)) as [s7 o7]. cbn [fst snd with_cache s_retrans] in *.
  eapply Forall_appends_p; eauto.
Qed.

(* all histories *)
Definition last_now (h : list iter) : N := match rev h with [] => 0 | it :: _ => i_now it end.

Theorem followup_schedule_invariant_aux ifs : forall h s t0,
  Forall (sched_q t0) (s_retrans s) -> times_mono t0 h = true -> h <> [] ->
  Forall (sched_p (last_now h)) (s_retrans (model_after ifs s h)).
Proof.
  induction h as [|it h IH]; intros s t0 H0 Hm Hne; [congruence|].
  simpl in Hm. apply andb_true_iff in Hm as [Hm1 Hm2]. apply N.leb_le in Hm1.
  pose proof (iterate_schedule ifs s it
                (Forall_impl _ (fun x => sched_q_mono t0 (i_now it) x Hm1) H0)) as H1.
  simpl. destruct h as [|it2 h2].
  - simpl. unfold last_now. simpl. exact H1.
  - assert (Hl : last_now (it :: it2 :: h2) = last_now (it2 :: h2)).
    { unfold last_now. simpl. destruct (rev h2 ++ [it2]) eqn:E; [destruct (rev h2); discriminate|]. reflexivity. }
    rewrite Hl. apply (IH (fst (iterate ifs s it)) (i_now it)); [|exact Hm2|discriminate].
    eapply Forall_impl; [|exact H1]. intros x. apply sched_p_q.
Qed.

Theorem followup_schedule_invariant ifs h :
  wf_history h = true -> h <> [] ->
  Forall (sched_p (last_now h)) (s_retrans (model_after ifs init_st h)).
Proof. intros Hwf Hne. apply (followup_schedule_invariant_aux ifs h init_st 0); [constructor|exact Hwf|exact Hne]. Qed.
