(* Invariants of the daemon model over ALL histories (any interface table, datagrams - queries and
   responses -, calls incl. enable/disable_interface, jitter values, iteration times):
   init satisfies them, every iteration preserves them, induction over the list of iterations. *)
From Coq Require Import List NArith Bool Lia.
From Mdns Require Import Bytes Rec ParamsRegistry Names WireOut Registry RegistryDaemon RegistrySpec
     RegistryParamsPinned RegistryProofs RegistryDaemonProofs RegistryLiftProofs.
Import ListNotations.
Open Scope N_scope.

(* the state after a history *)
Fixpoint run_state (st : dstate) (its : list iter) : dstate :=
  match its with
  | [] => st
  | it :: t => run_state (fst (fst (fst (iterate st it)))) t
  end.

Lemma run_state_app a : forall st b, run_state st (a ++ b) = run_state (run_state st a) b.
Proof. induction a as [|it a IH]; intros st b; [reflexivity|]. cbn [app run_state]. apply IH. Qed.

(* ======================================================================================================
   the retransmission queue
   ====================================================================================================== *)

Definition is_rr_entry (e : N * cmd) : Prop := match snd e with RegisterResend _ _ => True | _ => False end.

(* P holds of every queued entry; P is any property that holds of every RegisterResend entry *)
Section Queue.
  Variable P : N * cmd -> Prop.
  Hypothesis P_rr : forall t full i, P (t, RegisterResend full i).
  Definition qall (st : dstate) : Prop := Forall P (d_retrans st).

  Lemma P_of_rr l : Forall is_rr_entry l -> Forall P l.
  Proof.
    induction 1 as [|[t c] l H _ IH]; constructor; [|exact IH].
    destruct c; [apply P_rr|contradiction].
  Qed.
End Queue.

(* ---- which functions touch the queue, and how ---------------------------------------------------- *)

Lemma handle_query_retrans st g now : d_retrans (fst (handle_query st g now)) = d_retrans st.
Proof.
  unfold handle_query. destruct (nget (g_if g) (d_regs st)); [|reflexivity].
  destruct (find_intf st (g_if g)); [|reflexivity].
  destruct (handle_questions st g i r (g_q g) now) as [[rg' an] ar]. destruct an; reflexivity.
Qed.

Lemma handle_response_retrans st g now js : d_retrans (fst (handle_response st g now js)) = d_retrans st.
Proof.
  unfold handle_response. destruct (find_intf st (g_if g)); [|reflexivity].
  destruct (nget (g_if g) (d_regs st)); [|reflexivity].
  destruct (conflict_answers r (g_an g) now js). reflexivity.
Qed.

Lemma handle_dgram_retrans st g now js : d_retrans (fst (fst (handle_dgram st g now js))) = d_retrans st.
Proof.
  unfold handle_dgram. destruct (find_intf st (g_if g)); [|reflexivity].
  destruct (negb (intf_has_family i (g_v4 g))); [reflexivity|].
  destruct (g_resp g).
  - pose proof (handle_response_retrans st g now js). destruct (handle_response st g now js). exact H.
  - pose proof (handle_query_retrans st g now). destruct (handle_query st g now). exact H.
Qed.

Lemma handle_dgrams_retrans now : forall gs st js, d_retrans (fst (fst (handle_dgrams st gs now js))) = d_retrans st.
Proof.
  induction gs as [|g t IH]; intros st js; [reflexivity|]. cbn [handle_dgrams].
  pose proof (handle_dgram_retrans st g now js) as H1.
  destruct (handle_dgram st g now js) as [[st1 os1] js1]. cbn [fst] in H1.
  pose proof (IH st1 js1) as H2. destruct (handle_dgrams st1 t now js1) as [[st2 os2] js2]. cbn [fst] in *. congruence.
Qed.

Lemma register_service_retrans st s now js :
  exists l, d_retrans (fst (fst (register_service st s now js))) = d_retrans st ++ l /\ Forall is_rr_entry l /\
            Forall (fun e => fst e = now + announce_repeat_register) l.
Proof.
  unfold register_service.
  destruct (register_intfs (d_intfs st) (auto_addrs st s) (d_regs st) now js) as [[[[s' regs] os] anns] js'].
  eexists. split; [reflexivity|]. split; apply Forall_forall; intros e He; apply in_map_iff in He as (i & <- & _); exact I || reflexivity.
Qed.

Lemma add_row_services_rt now : forall svcs itf rg ip js,
  Forall is_rr_entry (snd (fst (add_row_services svcs itf rg ip now js))) /\
  Forall (fun e => fst e = now + announce_repeat_add_interface) (snd (fst (add_row_services svcs itf rg ip now js))).
Proof.
  induction svcs as [|[k s] t IH]; intros itf rg ip js; [split; constructor|]. cbn [add_row_services].
  destruct (s_auto s).
  - destruct (prepare_announce (set_addrs (add_ip ip (s_addrs s)) s) itf rg (is_v4 ip) now js) as [[rg1 m] js1].
    specialize (IH itf rg1 ip js1).
    destruct (add_row_services t itf rg1 ip now js1) as [[[[t' rg2] os2] rt2] js2]. cbn [fst snd] in *.
    destruct IH as [A B]. destruct m; cbn [app]; split; try assumption; constructor; try assumption; exact I || reflexivity.
  - specialize (IH itf rg ip js).
    destruct (add_row_services t itf rg ip now js) as [[[[t' rg2] os2] rt2] js2]. exact IH.
Qed.

Lemma add_interface_retrans st r now js :
  exists l, d_retrans (fst (fst (add_interface st r now js))) = d_retrans st ++ l /\ Forall is_rr_entry l /\
            Forall (fun e => fst e = now + announce_repeat_add_interface) l.
Proof.
  unfold add_interface. destruct (find_intf st (os_index r)) as [itf0|].
  - destruct (has_addr itf0 (os_ip r)); [exists []; rewrite app_nil_r; repeat split; constructor|].
    match goal with |- context [add_row_services ?a ?b ?c ?d ?e ?f] =>
      pose proof (add_row_services_rt e a b c d f) as H; destruct (add_row_services a b c d e f) as [[[[svcs rg] os] rt] js'] end.
    cbn [fst snd] in *. exists rt. split; [reflexivity|exact H].
  - match goal with |- context [add_row_services ?a ?b ?c ?d ?e ?f] =>
      pose proof (add_row_services_rt e a b c d f) as H; destruct (add_row_services a b c d e f) as [[[[svcs rg] os] rt] js'] end.
    cbn [fst snd] in *. exists rt. split; [reflexivity|exact H].
Qed.

Lemma del_interface_addr_retrans st r : d_retrans (fst (del_interface_addr st r)) = d_retrans st.
Proof.
  unfold del_interface_addr. destruct (find_intf st (os_index r)) as [itf0|]; [|reflexivity].
  destruct (negb (has_addr itf0 (os_ip r))); [reflexivity|].
  destruct (filter (fun a => negb (beq (ia_ip a) (os_ip r))) (if_addrs itf0)); reflexivity.
Qed.

Lemma apply_rows_retrans now : forall rows st js,
  exists l, d_retrans (fst (fst (apply_rows st rows now js))) = d_retrans st ++ l /\ Forall is_rr_entry l /\
            Forall (fun e => fst e = now + announce_repeat_add_interface) l.
Proof.
  induction rows as [|r t IH]; intros st js; [exists []; rewrite app_nil_r; repeat split; constructor|].
  cbn [apply_rows]. destruct (row_selected (d_sel st) r).
  - destruct (add_interface_retrans st r now js) as (l1 & E1 & R1 & T1).
    destruct (add_interface st r now js) as [[st1 os1] js1]. cbn [fst] in E1.
    destruct (IH st1 js1) as (l2 & E2 & R2 & T2). destruct (apply_rows st1 t now js1) as [[st2 os2] js2]. cbn [fst] in *.
    exists (l1 ++ l2). rewrite E2, E1, app_assoc. repeat split; try reflexivity; apply Forall_app; split; assumption.
  - pose proof (del_interface_addr_retrans st r) as E1. destruct (del_interface_addr st r) as [st1 os1]. cbn [fst] in E1.
    destruct (IH st1 js) as (l2 & E2 & R2 & T2). destruct (apply_rows st1 t now js) as [[st2 os2] js2]. cbn [fst] in *.
    exists l2. rewrite E2, E1. repeat split; assumption.
Qed.

Lemma select_interfaces_retrans st en kinds now js :
  exists l, d_retrans (fst (fst (select_interfaces st en kinds now js))) = d_retrans st ++ l /\ Forall is_rr_entry l /\
            Forall (fun e => fst e = now + announce_repeat_add_interface) l.
Proof.
  unfold select_interfaces.
  match goal with |- context [apply_rows ?a ?b now js] => destruct (apply_rows_retrans now b a js) as (l & E & R & T) end.
  exists l. split; [exact E|split; assumption].
Qed.

Lemma unregister_retrans st k ch now :
  exists l, d_retrans (fst (unregister st k ch now)) = d_retrans st ++ l /\
            Forall (fun e => exists i v4 m, e = (now + 120, UnregisterResend m i v4) /\ is_goodbye m = true) l.
Proof.
  unfold unregister. destruct (aget k (d_svcs st)) as [s|]; [|exists []; rewrite app_nil_r; split; constructor].
  eexists. split; [reflexivity|]. apply Forall_forall. intros e He. apply in_map_iff in He as ([[i v4] m] & <- & Hin).
  exists i, v4, m. split.
  - unfold resend_of. destruct goodbye_repeat_pinned as [-> ->]. destruct v4; reflexivity.
  - unfold goodbyes_of in Hin. apply in_flat_map in Hin as (itf & _ & Hin).
    destruct (announced_on (if_index itf) s); [|contradiction].
    unfold goodbye_on in Hin.
    apply in_app_or in Hin as [Hin|Hin];
      match type of Hin with In _ (match (match ?a with _ => _ end) with _ => _ end) => destruct a eqn:A end;
      try contradiction; destruct Hin as [Hin|[]]; inversion Hin; subst; apply goodbye_all_ttl0.
Qed.

(* what one call does to the queue: appends entries, each a RegisterResend due one second later or
   the repeat of a goodbye due 120 ms later; shutdown empties it *)
Definition new_entry (now : N) (e : N * cmd) : Prop :=
  (is_rr_entry e /\ fst e = now + 1000) \/
  (exists i v4 m, e = (now + 120, UnregisterResend m i v4) /\ is_goodbye m = true).

Lemma exec_call_retrans st c now js :
  (exists l, d_retrans (fst (fst (fst (exec_call st c now js)))) = d_retrans st ++ l /\ Forall (new_entry now) l)
  \/ d_retrans (fst (fst (fst (exec_call st c now js)))) = [].
Proof.
  destruct c; cbn [exec_call].
  - destruct (register_service_retrans st s now js) as (l & E & R & T).
    destruct (register_service st s now js) as [[st1 os1] js1]. cbn [fst] in *. left. exists l. split; [exact E|].
    apply Forall_forall. intros e He. left. split; [exact (proj1 (Forall_forall _ _) R e He)|].
    rewrite (proj1 (Forall_forall _ _) T e He). destruct (announce_repeat_pinned 0) as [_ ->]. reflexivity.
  - destruct (unregister_retrans st (lower name) ch now) as (l & E & G).
    destruct (unregister st (lower name) ch now) as [st1 os1]. cbn [fst] in *. left. exists l. split; [exact E|].
    apply Forall_forall. intros e He. right. exact (proj1 (Forall_forall _ _) G e He).
  - left. exists []. rewrite app_nil_r. split; [reflexivity|constructor].
  - right. reflexivity.
  - destruct (select_interfaces_retrans st enable kinds now js) as (l & E & R & T).
    destruct (select_interfaces st enable kinds now js) as [[st1 os1] js1]. cbn [fst] in *. left. exists l. split; [exact E|].
    apply Forall_forall. intros e He. left. split; [exact (proj1 (Forall_forall _ _) R e He)|].
    rewrite (proj1 (Forall_forall _ _) T e He). rewrite announce_repeat_add_interface_pinned. reflexivity.
  - left. exists []. rewrite app_nil_r. split; [reflexivity|constructor].
Qed.

Lemma exec_calls_retrans now : forall cs st js,
  (exists l, d_retrans (fst (fst (exec_calls st cs now js))) = d_retrans st ++ l /\ Forall (new_entry now) l)
  \/ (exists l, d_retrans (fst (fst (exec_calls st cs now js))) = l /\ Forall (new_entry now) l).
Proof.
  induction cs as [|c t IH]; intros st js.
  - left. exists []. rewrite app_nil_r. split; [reflexivity|constructor].
  - cbn [exec_calls]. pose proof (exec_call_retrans st c now js) as H1.
    destruct (exec_call st c now js) as [[[st1 os1] js1] stop]. cbn [fst] in H1. destruct stop.
    + cbn [fst]. destruct H1 as [H1|H1]; [left; exact H1|right; exists []; split; [exact H1|constructor]].
    + specialize (IH st1 js1). destruct (exec_calls st1 t now js1) as [[st2 os2] js2]. cbn [fst] in *.
      destruct H1 as [(l1 & E1 & N1)|E1], IH as [(l2 & E2 & N2)|(l2 & E2 & N2)].
      * left. exists (l1 ++ l2). rewrite E2, E1, app_assoc. split; [reflexivity|apply Forall_app; split; assumption].
      * right. exists l2. split; assumption.
      * right. exists l2. rewrite E2, E1. split; [reflexivity|exact N2].
      * right. exists l2. split; assumption.
Qed.

Lemma register_resend_retrans st full i now js :
  d_retrans (fst (fst (register_resend st full i now js))) = d_retrans st.
Proof.
  unfold register_resend. destruct (aget (lower full) (d_svcs st)); [|reflexivity].
  destruct (nget i (d_regs st)); [|reflexivity]. destruct (find_intf st i); [|reflexivity].
  destruct (announce_both s i0 r now js) as [[[rg' os] ann] js']. destruct ann; reflexivity.
Qed.

Lemma run_due_retrans now : forall due st js, d_retrans (fst (fst (run_due st due now js))) = d_retrans st.
Proof.
  induction due as [|[t c] due IH]; intros st js; [reflexivity|]. cbn [run_due]. destruct c.
  - pose proof (register_resend_retrans st full ifidx now js) as H1.
    destruct (register_resend st full ifidx now js) as [[st1 os1] js1]. cbn [fst] in H1.
    specialize (IH st1 js1). destruct (run_due st1 due now js1) as [[st2 os2] js2]. cbn [fst] in *. congruence.
  - specialize (IH st js). destruct (run_due st due now js) as [[st2 os2] js2]. exact IH.
Qed.

Lemma retransmit_retrans st now js :
  d_retrans (fst (fst (retransmit st now js))) = filter (fun e => negb (fst e <=? now)) (d_retrans st).
Proof. unfold retransmit. rewrite run_due_retrans. reflexivity. Qed.

Lemma announce_waiting_rt itf now m : forall waiting rg svcs js,
  Forall (fun e => is_rr_entry e /\ fst e = now + 1000)
         (snd (fst (announce_waiting waiting itf rg svcs now js m))).
Proof.
  induction waiting as [|w t IH]; intros rg svcs js; [constructor|]. cbn [announce_waiting].
  destruct (aget (lower w) svcs) as [s|]; [|apply IH].
  destruct (announced_on (if_index itf) s); [apply IH|].
  destruct (announce_both s itf rg now js) as [[[rg1 os] ann] js1]. destruct ann.
  - specialize (IH rg1 (sput (lower w) (set_status (if_index itf) SAnnounced s) svcs) js1).
    destruct (announce_waiting t itf rg1 _ now js1 m) as [[[[rg2 svcs2] os2] rt2] js2]. cbn [fst snd] in *.
    constructor; [|exact IH]. split; [exact I|]. cbn [fst]. destruct (announce_repeat_pinned now) as [-> _]. reflexivity.
  - specialize (IH rg1 svcs js1).
    destruct (announce_waiting t itf rg1 svcs now js1 m) as [[[[rg2 svcs2] os2] rt2] js2]. exact IH.
Qed.

Lemma probing_intfs_retrans now : forall ifs st js,
  exists l, d_retrans (fst (fst (probing_intfs ifs st now js))) = d_retrans st ++ l /\
            Forall (fun e => is_rr_entry e /\ fst e = now + 1000) l.
Proof.
  induction ifs as [|itf t IH]; intros st js; [exists []; rewrite app_nil_r; split; [reflexivity|constructor]|].
  cbn [probing_intfs]. destruct (nget (if_index itf) (d_regs st)) as [rg|]; [|apply IH].
  destruct (probe_step rg now) as [[[rg1 qs] evs] waiting].
  pose proof (announce_waiting_rt itf now (d_mon st) waiting rg1 (d_svcs st) js) as H1.
  destruct (announce_waiting waiting itf rg1 (d_svcs st) now js (d_mon st)) as [[[[rg2 svcs2] os2] rt2] js2].
  cbn [fst snd] in H1.
  match goal with |- context [probing_intfs t ?s now js2] => destruct (IH s js2) as (l & E & R); destruct (probing_intfs t s now js2) as [[st2 os3] js3] end.
  cbn [fst d_retrans] in *. exists (rt2 ++ l). rewrite E, app_assoc. split; [reflexivity|apply Forall_app; split; assumption].
Qed.

(* ---- the queue after one iteration ------------------------------------------------------------------ *)

(* every entry was there before, or was queued in this iteration for now + 1000 (RegisterResend)
   or now + 120 (the repeat of a goodbye) *)
Lemma iterate_retrans st it :
  Forall (fun e => In e (d_retrans st) \/ new_entry (it_now it) e) (d_retrans (fst (fst (fst (iterate st it))))).
Proof.
  unfold iterate. destruct (d_dead st); [apply Forall_forall; intros e He; left; exact He|].
  set (now := it_now it).
  pose proof (handle_dgrams_retrans now (filter (fun g => g_v4 g) (it_dgrams it) ++ filter (fun g => negb (g_v4 g)) (it_dgrams it)) st (it_jitter it)) as H1.
  destruct (handle_dgrams st _ now (it_jitter it)) as [[st1 os1] js1]. cbn [fst] in H1.
  pose proof (exec_calls_retrans now (it_calls it) st1 js1) as H2.
  destruct (exec_calls st1 (it_calls it) now js1) as [[st2 os2] js2]. cbn [fst] in H2.
  assert (A2 : Forall (fun e => In e (d_retrans st) \/ new_entry now e) (d_retrans st2)).
  { destruct H2 as [(l & E & N)|(l & E & N)]; rewrite E.
    - apply Forall_app. split; [rewrite H1; apply Forall_forall; intros e He; left; exact He|].
      apply Forall_forall. intros e He. right. exact (proj1 (Forall_forall _ _) N e He).
    - apply Forall_forall. intros e He. right. exact (proj1 (Forall_forall _ _) N e He). }
  destruct (d_dead st2).
  - destruct (cut_at_panic (os1 ++ os2)). exact A2.
  - pose proof (retransmit_retrans st2 now js2) as H3.
    destruct (retransmit st2 now js2) as [[st3 os3] js3]. cbn [fst] in H3.
    destruct (probing_intfs_retrans now (d_intfs st3) st3 js3) as (l & E & R).
    unfold probing_handler. destruct (probing_intfs (d_intfs st3) st3 now js3) as [[st4 os4] js4]. cbn [fst] in E.
    assert (A4 : Forall (fun e => In e (d_retrans st) \/ new_entry now e) (d_retrans st4)).
    { rewrite E, H3. apply Forall_app. split.
      - apply Forall_forall. intros e He. apply filter_In in He as [He _]. exact (proj1 (Forall_forall _ _) A2 e He).
      - apply Forall_forall. intros e He. right. left. exact (proj1 (Forall_forall _ _) R e He). }
    destruct (cut_at_panic (os1 ++ os2 ++ os3 ++ os4)) as [os p]. destruct p; exact A4.
Qed.

(* INVARIANT 1 (all histories): every queued UnregisterResend holds a goodbye - a response whose
   records all have TTL 0 *)
Definition gb_entry (e : N * cmd) : Prop :=
  match snd e with UnregisterResend m _ _ => is_goodbye m = true | RegisterResend _ _ => True end.
Definition saved_goodbyes (st : dstate) : Prop := Forall gb_entry (d_retrans st).

Lemma new_entry_gb now e : new_entry now e -> gb_entry e.
Proof.
  intros [[R _]|(i & v4 & m & -> & G)]; [|exact G].
  destruct e as [t c]. destruct c; [exact I|contradiction].
Qed.

Lemma saved_goodbyes_step st it : saved_goodbyes st -> saved_goodbyes (fst (fst (fst (iterate st it)))).
Proof.
  intros H. unfold saved_goodbyes. pose proof (iterate_retrans st it) as A.
  apply Forall_forall. intros e He. destruct (proj1 (Forall_forall _ _) A e He) as [I|N].
  - exact (proj1 (Forall_forall _ _) H e I).
  - exact (new_entry_gb _ _ N).
Qed.

Theorem saved_goodbyes_all_histories ifs os : forall its, saved_goodbyes (run_state (d_init_os ifs os) its).
Proof.
  intros its. assert (G : forall st, saved_goodbyes st -> saved_goodbyes (run_state st its)).
  { induction its as [|it t IH]; intros st H; [exact H|]. cbn [run_state]. apply IH. apply saved_goodbyes_step. exact H. }
  apply G. constructor.
Qed.

(* NO OVERDUE QUEUE ENTRY survives an iteration that leaves the daemon running: everything due at
   or before `now` was run (each entry exactly once: it is taken out of the queue), everything
   queued meanwhile is due later *)
Lemma iterate_queue_future st it st' os js :
  iterate st it = (st', os, Running, js) -> Forall (fun e => it_now it < fst e) (d_retrans st').
Proof.
  unfold iterate. destruct (d_dead st); [discriminate|]. set (now := it_now it).
  destruct (handle_dgrams st _ now (it_jitter it)) as [[st1 os1] js1].
  destruct (exec_calls st1 (it_calls it) now js1) as [[st2 os2] js2].
  destruct (d_dead st2).
  - destruct (cut_at_panic (os1 ++ os2)) as [o p]. destruct p; discriminate.
  - pose proof (retransmit_retrans st2 now js2) as H3.
    destruct (retransmit st2 now js2) as [[st3 os3] js3]. cbn [fst] in H3.
    destruct (probing_intfs_retrans now (d_intfs st3) st3 js3) as (l & E & R).
    unfold probing_handler. destruct (probing_intfs (d_intfs st3) st3 now js3) as [[st4 os4] js4]. cbn [fst] in E.
    destruct (cut_at_panic (os1 ++ os2 ++ os3 ++ os4)) as [o p]. destruct p; [discriminate|].
    intros H. inversion H; subst. rewrite E, H3. apply Forall_app. split.
    + apply Forall_forall. intros e He. apply filter_In in He as [_ He]. apply negb_true_iff, N.leb_gt in He. exact He.
    + apply Forall_forall. intros e He. destruct (proj1 (Forall_forall _ _) R e He) as [_ ->]. lia.
Qed.

(* ======================================================================================================
   C09: the goodbye and its one repeat
   ====================================================================================================== *)

(* on OK, for EVERY interface on which the service is announced and every family in which it has an
   address there: the goodbye goes out now and the same message is queued for now + 120 *)
Lemma goodbye_everywhere_announced st k ch now s itf v4 :
  aget k (d_svcs st) = Some s -> In itf (d_intfs st) -> announced_on (if_index itf) s = true ->
  addrs_on_intf s itf v4 <> [] ->
  let m := goodbye_msg (get_reg st (if_index itf)) s (addrs_on_intf s itf v4) in
  In (OSend (if_index itf) v4 Mcast m) (snd (unregister st k ch now)) /\
  In (now + 120, UnregisterResend m (if_index itf) v4) (d_retrans (fst (unregister st k ch now))).
Proof.
  intros G Hin A Hne m.
  assert (Hg : In (if_index itf, v4, m) (goodbyes_of st s)).
  { unfold goodbyes_of. apply in_flat_map. exists itf. split; [exact Hin|]. rewrite A.
    unfold goodbye_on, m. destruct v4.
    - apply in_or_app. left. destruct (addrs_on_intf s itf true); [contradiction|]. left. reflexivity.
    - apply in_or_app. right. destruct (addrs_on_intf s itf false); [contradiction|]. left. reflexivity. }
  rewrite (unregister_found _ _ _ _ _ G). cbn [fst snd d_retrans]. split.
  - apply in_or_app. left. apply in_map_iff. exists (if_index itf, v4, m). split; [reflexivity|exact Hg].
  - apply in_or_app. right. apply in_map_iff. exists (if_index itf, v4, m). split; [|exact Hg].
    unfold resend_of. destruct goodbye_repeat_pinned as [-> ->]. destruct v4; reflexivity.
Qed.

Lemma unregister_resend_intfs st st' m i v4 :
  d_intfs st' = d_intfs st -> unregister_resend st' m i v4 = unregister_resend st m i v4.
Proof. intros E. unfold unregister_resend, find_intf. rewrite E. reflexivity. Qed.

Lemma run_due_sends_repeat now m i v4 : forall due st js t,
  In (t, UnregisterResend m i v4) due -> incl (unregister_resend st m i v4) (snd (fst (run_due st due now js))).
Proof.
  induction due as [|[t0 c] due IH]; intros st js t Hin; [contradiction|]. cbn [run_due]. destruct Hin as [E|Hin].
  - inversion E; subst. destruct (run_due st due now js) as [[st2 os2] js2]. cbn [fst snd].
    intros o Ho. apply in_or_app. left. exact Ho.
  - destruct c.
    + pose proof (register_resend_intfs st full ifidx now js) as EI.
      destruct (register_resend st full ifidx now js) as [[st1 os1] js1]. cbn [fst] in EI.
      specialize (IH st1 js1 t Hin). destruct (run_due st1 due now js1) as [[st2 os2] js2]. cbn [fst snd] in *.
      intros o Ho. apply in_or_app. right. apply IH. rewrite (unregister_resend_intfs st st1 m i v4 EI). exact Ho.
    + specialize (IH st js t Hin). destruct (run_due st due now js) as [[st2 os2] js2]. cbn [fst snd] in *.
      intros o Ho. apply in_or_app. right. apply IH. exact Ho.
Qed.

(* THE REPEAT, ONCE: when the queued entry is due, the saved message is sent again unchanged on its
   interface and family (if the interface still has that family) and the entry leaves the queue *)
Lemma repeat_run_once st now js t m i v4 :
  In (t, UnregisterResend m i v4) (d_retrans st) -> t <= now ->
  incl (unregister_resend st m i v4) (snd (fst (retransmit st now js))) /\
  ~ In (t, UnregisterResend m i v4) (d_retrans (fst (fst (retransmit st now js)))).
Proof.
  intros Hin Ht. split.
  - unfold retransmit.
    match goal with |- incl _ (snd (fst (run_due ?s0 ?d now js))) =>
      pose proof (run_due_sends_repeat now m i v4 d s0 js t) as H;
      rewrite (unregister_resend_intfs st s0 m i v4 eq_refl) in H end.
    apply H.
    apply filter_In. split; [exact Hin|]. apply N.leb_le. exact Ht.
  - rewrite retransmit_retrans. intros H. apply filter_In in H as [_ H]. cbn [fst] in H.
    apply negb_true_iff, N.leb_gt in H. lia.
Qed.

(* ======================================================================================================
   C07: every first announcement queues its second one
   ====================================================================================================== *)

(* the sends of an output list that are live responses (not goodbyes) on interface i *)
Definition live_resp_on (i : N) (o : out) : Prop :=
  match o with OSend k _ _ m => k = i /\ o_resp m = true /\ is_goodbye m = false | _ => False end.
Definition is_send (o : out) : Prop := match o with OSend _ _ _ _ => True | _ => False end.
Definition send_if (o : out) : option N := match o with OSend k _ _ _ => Some k | _ => None end.

Lemma announce_both_sends s itf rg now js :
  let '(_, os, ann, _) := announce_both s itf rg now js in
  Forall (fun o => send_if o = Some (if_index itf)) os /\ (os <> [] -> ann = true).
Proof.
  unfold announce_both.
  destruct (prepare_announce s itf rg true now js) as [[rg1 m4] js1].
  destruct (prepare_announce s itf rg1 false now js1) as [[rg2 m6] js2].
  split.
  - apply Forall_app. split; [destruct m4|destruct m6]; repeat constructor.
  - destruct m4, m6; intros H; try reflexivity. contradiction.
Qed.

Lemma register_intfs_sends now : forall ifs s regs js,
  let '(_, _, os, anns, _) := register_intfs ifs s regs now js in
  Forall (fun o => exists i, send_if o = Some i /\ In i anns) os.
Proof.
  induction ifs as [|itf t IH]; intros s regs js; [constructor|]. cbn [register_intfs].
  set (rg := match nget (if_index itf) regs with Some r => r | None => reg_new end).
  pose proof (announce_both_sends s itf rg now js) as H1.
  destruct (announce_both s itf rg now js) as [[[rg' os] ann] js1]. destruct H1 as [F A].
  match goal with |- context [register_intfs t ?a ?b now js1] => specialize (IH a b js1); destruct (register_intfs t a b now js1) as [[[[s2 regs2] os2] anns] js2] end.
  apply Forall_app. split.
  - apply Forall_forall. intros o Ho. exists (if_index itf). split; [exact (proj1 (Forall_forall _ _) F o Ho)|].
    apply in_or_app. left. rewrite A; [left; reflexivity|]. intros E. rewrite E in Ho. contradiction.
  - apply Forall_forall. intros o Ho. destruct (proj1 (Forall_forall _ _) IH o Ho) as (i & E & I).
    exists i. split; [exact E|apply in_or_app; right; exact I].
Qed.

(* register_service: every packet it sends goes out on an interface for which the second
   announcement is queued at now + 1000 *)
Lemma register_service_queues_second st s now js :
  let '(st1, os, _) := register_service st s now js in
  forall o, In o os -> is_send o ->
  exists i full, send_if o = Some i /\ In (now + 1000, RegisterResend full i) (d_retrans st1).
Proof.
  unfold register_service.
  pose proof (register_intfs_sends now (d_intfs st) (auto_addrs st s) (d_regs st) js) as H.
  destruct (register_intfs (d_intfs st) (auto_addrs st s) (d_regs st) now js) as [[[[s' regs] os] anns] js'].
  intros o Ho So. apply in_app_or in Ho as [Ho|Ho].
  - destruct (proj1 (Forall_forall _ _) H o Ho) as (i & E & I). exists i, (s_full (auto_addrs st s)). split; [exact E|].
    cbn [d_retrans]. apply in_or_app. right. apply in_map_iff. exists i. split; [|exact I].
    destruct (announce_repeat_pinned 0) as [_ ->]. reflexivity.
  - destruct anns; [contradiction|]. unfold mon in Ho. destruct (d_mon st); [|contradiction].
    destruct Ho as [<-|[]]. contradiction.
Qed.

Lemma add_row_services_queues_second now : forall svcs itf rg ip js,
  let '(_, _, os, rt, _) := add_row_services svcs itf rg ip now js in
  forall o, In o os -> exists full, send_if o = Some (if_index itf) /\ In (now + 1000, RegisterResend full (if_index itf)) rt.
Proof.
  induction svcs as [|[k s] t IH]; intros itf rg ip js; [intros o []|]. cbn [add_row_services]. destruct (s_auto s).
  - destruct (prepare_announce (set_addrs (add_ip ip (s_addrs s)) s) itf rg (is_v4 ip) now js) as [[rg1 m] js1].
    specialize (IH itf rg1 ip js1). destruct (add_row_services t itf rg1 ip now js1) as [[[[t' rg2] os2] rt2] js2].
    intros o Ho. apply in_app_or in Ho as [Ho|Ho].
    + destruct m as [msg|]; [|contradiction]. destruct Ho as [<-|[]]. exists (s_full s). split; [reflexivity|].
      left. rewrite announce_repeat_add_interface_pinned. reflexivity.
    + destruct (IH o Ho) as (full & E & I). exists full. split; [exact E|apply in_or_app; right; exact I].
  - specialize (IH itf rg ip js). destruct (add_row_services t itf rg ip now js) as [[[[t' rg2] os2] rt2] js2]. exact IH.
Qed.

(* add_interface: every announcement it makes is queued again for now + 1000 (fix 4b0055d) *)
Lemma add_interface_queues_second st r now js :
  let '(st1, os, _) := add_interface st r now js in
  forall o, In o os -> is_send o ->
  exists i full, send_if o = Some i /\ In (now + 1000, RegisterResend full i) (d_retrans st1).
Proof.
  unfold add_interface. destruct (find_intf st (os_index r)) as [itf0|].
  - destruct (has_addr itf0 (os_ip r)); [intros o []|].
    match goal with |- context [add_row_services ?a ?b ?c ?d now js] =>
      pose proof (add_row_services_queues_second now a b c d js) as H; destruct (add_row_services a b c d now js) as [[[[svcs rg] os] rt] js'] end.
    intros o Ho So. apply in_app_or in Ho as [Ho|Ho].
    + destruct (H o Ho) as (full & E & I). eexists _, full. split; [exact E|]. cbn [d_retrans]. apply in_or_app. right. exact I.
    + unfold mon in Ho. destruct (d_mon st); [|contradiction]. destruct Ho as [<-|[]]. contradiction.
  - match goal with |- context [add_row_services ?a ?b ?c ?d now js] =>
      pose proof (add_row_services_queues_second now a b c d js) as H; destruct (add_row_services a b c d now js) as [[[[svcs rg] os] rt] js'] end.
    intros o Ho So. apply in_app_or in Ho as [Ho|Ho].
    + destruct (H o Ho) as (full & E & I). eexists _, full. split; [exact E|]. cbn [d_retrans]. apply in_or_app. right. exact I.
    + unfold mon in Ho. destruct (d_mon st); [|contradiction]. destruct Ho as [<-|[]]. contradiction.
Qed.

(* the probing handler: every announcement made when a probe completes is queued again for now + 1000 *)
Lemma announce_waiting_queues_second itf now m : forall waiting rg svcs js,
  let '(_, _, os, rt, _) := announce_waiting waiting itf rg svcs now js m in
  forall o, In o os -> is_send o ->
  exists full, send_if o = Some (if_index itf) /\ In (now + 1000, RegisterResend full (if_index itf)) rt.
Proof.
  induction waiting as [|w t IH]; intros rg svcs js; [intros o []|]. cbn [announce_waiting].
  destruct (aget (lower w) svcs) as [s|]; [|apply IH].
  destruct (announced_on (if_index itf) s); [apply IH|].
  pose proof (announce_both_sends s itf rg now js) as H1.
  destruct (announce_both s itf rg now js) as [[[rg1 os] ann] js1]. destruct H1 as [F A]. destruct ann.
  - specialize (IH rg1 (sput (lower w) (set_status (if_index itf) SAnnounced s) svcs) js1).
    destruct (announce_waiting t itf rg1 _ now js1 m) as [[[[rg2 svcs2] os2] rt2] js2].
    intros o Ho So. apply in_app_or in Ho as [Ho|Ho]; [|apply in_app_or in Ho as [Ho|Ho]].
    + exists (s_full s). split; [exact (proj1 (Forall_forall _ _) F o Ho)|]. left.
      destruct (announce_repeat_pinned now) as [-> _]. reflexivity.
    + unfold mon in Ho. destruct m; [|contradiction]. destruct Ho as [<-|[]]. contradiction.
    + destruct (IH o Ho So) as (full & E & I). exists full. split; [exact E|right; exact I].
  - specialize (IH rg1 svcs js1). destruct (announce_waiting t itf rg1 svcs now js1 m) as [[[[rg2 svcs2] os2] rt2] js2].
    intros o Ho So. apply in_app_or in Ho as [Ho|Ho].
    + exfalso. assert (E : os = []) by (destruct os; [reflexivity|discriminate A; discriminate]). rewrite E in Ho. exact Ho.
    + exact (IH o Ho So).
Qed.

Definition resp_send (o : out) : Prop := match o with OSend _ _ _ m => o_resp m = true | _ => False end.

Lemma probing_intfs_queues_second now : forall ifs st js,
  let '(st', os, _) := probing_intfs ifs st now js in
  forall o, In o os -> resp_send o ->
  exists i full, send_if o = Some i /\ In (now + 1000, RegisterResend full i) (d_retrans st').
Proof.
  induction ifs as [|itf t IH]; intros st js; [intros o []|]. cbn [probing_intfs].
  destruct (nget (if_index itf) (d_regs st)) as [rg|]; [|apply IH].
  destruct (probe_step rg now) as [[[rg1 qs] evs] waiting].
  pose proof (announce_waiting_queues_second itf now (d_mon st) waiting rg1 (d_svcs st) js) as H1.
  destruct (announce_waiting waiting itf rg1 (d_svcs st) now js (d_mon st)) as [[[[rg2 svcs2] os2] rt2] js2].
  match goal with |- context [probing_intfs t ?s now js2] =>
    specialize (IH s js2); destruct (probing_intfs_retrans now t s js2) as (l & E & _);
    destruct (probing_intfs t s now js2) as [[st2 os3] js3] end.
  cbn [fst d_retrans] in E. intros o Ho Ro.
  apply in_app_or in Ho as [Ho|Ho]; [|apply in_app_or in Ho as [Ho|Ho]; [|apply in_app_or in Ho as [Ho|Ho]]].
  - exfalso. destruct qs; [contradiction|].
    apply in_app_or in Ho as [Ho|Ho]; [destruct (intf_has_family itf true)|destruct (intf_has_family itf false)];
      try contradiction; destruct Ho as [<-|[]]; cbn in Ro; discriminate.
  - exfalso. unfold mon in Ho. destruct (d_mon st); [|contradiction].
    apply in_map_iff in Ho as ([[a b] c] & <- & _). contradiction.
  - assert (So : is_send o) by (destruct o; try contradiction; exact I).
    destruct (H1 o Ho So) as (full & Ei & I). exists (if_index itf), full. split; [exact Ei|].
    rewrite E. apply in_or_app. left. apply in_or_app. right. exact I.
  - exact (IH o Ho Ro).
Qed.

(* at the level of one iteration: every response the probing handler sends (the announcements made
   when probes complete) has its second announcement in the queue the iteration leaves behind *)
Theorem probing_announcements_queued st it st' os js :
  iterate st it = (st', os, Running, js) ->
  forall st3 js3, d_dead st = false ->
  (let now := it_now it in
   let '(st1, _, js1) := handle_dgrams st (filter (fun g => g_v4 g) (it_dgrams it) ++ filter (fun g => negb (g_v4 g)) (it_dgrams it)) now (it_jitter it) in
   let '(st2, _, js2) := exec_calls st1 (it_calls it) now js1 in
   let '(s3, _, j3) := retransmit st2 now js2 in st3 = s3 /\ js3 = j3) ->
  forall o, In o (snd (fst (probing_handler st3 (it_now it) js3))) -> resp_send o ->
  exists i full, send_if o = Some i /\ In (it_now it + 1000, RegisterResend full i) (d_retrans st').
Proof.
  unfold iterate. intros H st3 js3 Hd. rewrite Hd in H. set (now := it_now it) in *.
  destruct (handle_dgrams st _ now (it_jitter it)) as [[st1 os1] js1].
  destruct (exec_calls st1 (it_calls it) now js1) as [[st2 os2] js2].
  destruct (d_dead st2); [destruct (cut_at_panic (os1 ++ os2)) as [o p]; destruct p; discriminate|].
  destruct (retransmit st2 now js2) as [[s3 os3] j3]. intros [-> ->].
  unfold probing_handler in *.
  pose proof (probing_intfs_queues_second now (d_intfs s3) s3 j3) as Q.
  destruct (probing_intfs (d_intfs s3) s3 now j3) as [[st4 os4] js4].
  destruct (cut_at_panic (os1 ++ os2 ++ os3 ++ os4)) as [o p]. destruct p; [discriminate|].
  inversion H; subst. exact Q.
Qed.

(* ======================================================================================================
   a property of every registry of the daemon, through every function
   ====================================================================================================== *)

Definition regs_all (RP : registry -> Prop) (st : dstate) : Prop := Forall (fun kr => RP (snd kr)) (d_regs st).

Lemma Forall_nset {V} (Q : V -> Prop) k v : forall l : list (N * V),
  Q v -> Forall (fun kr => Q (snd kr)) l -> Forall (fun kr => Q (snd kr)) (nset k v l).
Proof.
  induction l as [|[k' v'] t IH]; intros Hv H; cbn [nset]; [repeat constructor; exact Hv|].
  inversion H; subst. destruct (k =? k'); constructor; auto.
Qed.
Lemma Forall_nremove {V} (Q : V -> Prop) k : forall l : list (N * V),
  Forall (fun kr => Q (snd kr)) l -> Forall (fun kr => Q (snd kr)) (nremove k l).
Proof.
  induction l as [|[k' v'] t IH]; intros H; cbn [nremove]; [constructor|].
  inversion H; subst. destruct (k =? k'); [assumption|constructor; auto].
Qed.
Lemma nget_Forall {V} (Q : V -> Prop) k v : forall l : list (N * V),
  Forall (fun kr => Q (snd kr)) l -> nget k l = Some v -> Q v.
Proof.
  induction l as [|[k' v'] t IH]; intros H G; [discriminate|]. cbn [nget] in G. inversion H; subst.
  destruct (k =? k'); [inversion G; subst; assumption|auto].
Qed.

Section RegProp.
  Variable RP : registry -> Prop.
  Variable lo : N.
  Hypothesis RP_ipd : forall rg r svc start, lo <= start -> RP rg -> RP (fst (is_probing_done rg r svc start)).

  Lemma probe_records_RP s start : forall recs rg, lo <= start -> RP rg -> RP (fst (probe_records rg s start recs)).
  Proof.
    induction recs as [|r t IH]; intros rg Hs H; [exact H|]. cbn [probe_records]. destruct (s_probe s); [|apply IH; assumption].
    pose proof (RP_ipd rg r (s_full s) start Hs H) as H1. destruct (is_probing_done rg r (s_full s) start) as [rg1 ok].
    specialize (IH rg1 Hs H1). destruct (probe_records rg1 s start t) as [rg2 ok2]. exact IH.
  Qed.

  Lemma prepare_announce_RP s i rg v4 now js : lo <= now -> RP rg -> RP (fst (fst (prepare_announce s i rg v4 now js))).
  Proof.
    intros Hn H. unfold prepare_announce. destruct (addrs_on_intf s i v4); [exact H|]. destruct (draw js) as [j js'].
    assert (Hs : lo <= now + j) by lia.
    pose proof (probe_records_RP s (now + j) (announce_records rg s i v4) rg Hs H) as H1.
    destruct (probe_records rg s (now + j) (announce_records rg s i v4)) as [rg' ok]. destruct ok; exact H1.
  Qed.

  Lemma announce_both_RP s i rg now js : lo <= now -> RP rg -> RP (fst (fst (fst (announce_both s i rg now js)))).
  Proof.
    intros Hn H. unfold announce_both.
    pose proof (prepare_announce_RP s i rg true now js Hn H) as H1.
    destruct (prepare_announce s i rg true now js) as [[rg1 m4] js1].
    pose proof (prepare_announce_RP s i rg1 false now js1 Hn H1) as H2.
    destruct (prepare_announce s i rg1 false now js1) as [[rg2 m6] js2]. exact H2.
  Qed.

  Lemma announce_waiting_RP itf now m : forall waiting rg svcs js, lo <= now -> RP rg ->
    RP (fst (fst (fst (fst (announce_waiting waiting itf rg svcs now js m))))).
  Proof.
    induction waiting as [|w t IH]; intros rg svcs js Hn H; [exact H|]. cbn [announce_waiting].
    destruct (aget (lower w) svcs) as [s|]; [|apply IH; assumption].
    destruct (announced_on (if_index itf) s); [apply IH; assumption|].
    pose proof (announce_both_RP s itf rg now js Hn H) as H1.
    destruct (announce_both s itf rg now js) as [[[rg1 os] ann] js1]. destruct ann.
    - specialize (IH rg1 (sput (lower w) (set_status (if_index itf) SAnnounced s) svcs) js1 Hn H1).
      destruct (announce_waiting t itf rg1 _ now js1 m) as [[[[rg2 svcs2] os2] rt2] js2]. exact IH.
    - specialize (IH rg1 svcs js1 Hn H1).
      destruct (announce_waiting t itf rg1 svcs now js1 m) as [[[[rg2 svcs2] os2] rt2] js2]. exact IH.
  Qed.
End RegProp.

(* ---- INVARIANT 2 (all histories): in every registry the probing names are pairwise different ---------- *)

Definition RPn (rg : registry) : Prop := NoDup (keys (rg_probing rg)).
Definition regs_nodup (st : dstate) : Prop := regs_all RPn st.

Lemma ipd_nodup rg r svc start : 0 <= start -> RPn rg -> RPn (fst (is_probing_done rg r svc start)).
Proof.
  intros _ H. unfold is_probing_done. destruct (in_active rg r); [exact H|]. unfold RPn. cbn [fst rg_probing].
  apply NoDup_aset. exact H.
Qed.

Lemma reg_new_nodup : RPn reg_new. Proof. constructor. Qed.

Lemma regs_get st i : regs_nodup st -> RPn (match nget i (d_regs st) with Some r => r | None => reg_new end).
Proof. intros H. destruct (nget i (d_regs st)) eqn:G; [exact (nget_Forall RPn i r _ H G)|exact reg_new_nodup]. Qed.

Lemma register_intfs_nodup now : forall ifs s regs js,
  Forall (fun kr => RPn (snd kr)) regs ->
  Forall (fun kr => RPn (snd kr)) (snd (fst (fst (fst (register_intfs ifs s regs now js))))).
Proof.
  induction ifs as [|itf t IH]; intros s regs js H; [exact H|]. cbn [register_intfs].
  set (rg := match nget (if_index itf) regs with Some r => r | None => reg_new end).
  assert (Hrg : RPn rg) by (unfold rg; destruct (nget (if_index itf) regs) eqn:G; [exact (nget_Forall RPn _ r _ H G)|exact reg_new_nodup]).
  pose proof (announce_both_RP RPn 0 ipd_nodup s itf rg now js (N.le_0_l _) Hrg) as H1.
  destruct (announce_both s itf rg now js) as [[[rg' os] ann] js1]. cbn [fst] in H1.
  match goal with |- context [register_intfs t ?a ?b now js1] =>
    specialize (IH a b js1 (Forall_nset RPn _ _ regs H1 H)); destruct (register_intfs t a b now js1) as [[[[s2 regs2] os2] anns] js2] end.
  exact IH.
Qed.

Lemma register_service_nodup st s now js : regs_nodup st -> regs_nodup (fst (fst (register_service st s now js))).
Proof.
  intros H. unfold register_service.
  pose proof (register_intfs_nodup now (d_intfs st) (auto_addrs st s) (d_regs st) js H) as H1.
  destruct (register_intfs (d_intfs st) (auto_addrs st s) (d_regs st) now js) as [[[[s' regs] os] anns] js']. exact H1.
Qed.

Lemma register_resend_nodup st full i now js : regs_nodup st -> regs_nodup (fst (fst (register_resend st full i now js))).
Proof.
  intros H. unfold register_resend. destruct (aget (lower full) (d_svcs st)) as [s|]; [|exact H].
  destruct (nget i (d_regs st)) as [rg|] eqn:G; [|exact H]. destruct (find_intf st i) as [itf|]; [|exact H].
  pose proof (announce_both_RP RPn 0 ipd_nodup s itf rg now js (N.le_0_l _) (nget_Forall RPn _ _ _ H G)) as H1.
  destruct (announce_both s itf rg now js) as [[[rg' os] ann] js']. cbn [fst] in H1.
  destruct ann; unfold regs_nodup, regs_all; cbn [fst d_regs]; apply Forall_nset; assumption.
Qed.

Lemma tiebreak_question_nodup rg g qn qt now : RPn rg -> RPn (tiebreak_question rg g qn qt now).
Proof.
  intros H. unfold tiebreak_question. destruct ((qt =? TY_ANY) && negb match g_ns g with [] => true | _ => false end); [|exact H].
  unfold apply_tiebreak. destruct (aget qn (rg_probing rg)); [|exact H]. unfold RPn. cbn [rg_probing]. apply NoDup_aset. exact H.
Qed.

Lemma handle_questions_nodup st g itf now : forall qs rg, RPn rg -> RPn (fst (fst (handle_questions st g itf rg qs now))).
Proof.
  induction qs as [|[qn qt] t IH]; intros rg H; [exact H|]. cbn [handle_questions]. destruct (qt =? TY_PTR).
  - destruct (answer_ptr_question st g itf rg qn). specialize (IH rg H).
    destruct (handle_questions st g itf rg t now) as [[rg' an2] ar2]. exact IH.
  - destruct (answer_instance_question st g itf (tiebreak_question rg g qn qt now) qn qt).
    specialize (IH _ (tiebreak_question_nodup rg g qn qt now H)).
    destruct (handle_questions st g itf (tiebreak_question rg g qn qt now) t now) as [[rg' an2] ar2]. exact IH.
Qed.

Lemma handle_query_nodup st g now : regs_nodup st -> regs_nodup (fst (handle_query st g now)).
Proof.
  intros H. unfold handle_query. destruct (nget (g_if g) (d_regs st)) as [rg|] eqn:G; [|exact H].
  destruct (find_intf st (g_if g)) as [itf|]; [|exact H].
  pose proof (handle_questions_nodup st g itf now (g_q g) rg (nget_Forall RPn _ _ _ H G)) as H1.
  destruct (handle_questions st g itf rg (g_q g) now) as [[rg' an] ar]. cbn [fst] in H1.
  destruct an; unfold regs_nodup, regs_all; cbn [fst d_regs]; apply Forall_nset; assumption.
Qed.

Lemma conflict_answers_nodup now : forall ans rg js, RPn rg -> RPn (fst (conflict_answers rg ans now js)).
Proof.
  induction ans as [|a t IH]; intros rg js H; [exact H|]. cbn [conflict_answers].
  destruct (conflict_applies rg a) eqn:C; [|apply IH; exact H].
  destruct (draw js) as [j js']. apply IH. apply apply_conflict_nodup. exact H.
Qed.

Lemma handle_response_nodup st g now js : regs_nodup st -> regs_nodup (fst (handle_response st g now js)).
Proof.
  intros H. unfold handle_response. destruct (find_intf st (g_if g)); [|exact H].
  destruct (nget (g_if g) (d_regs st)) as [rg|] eqn:G; [|exact H].
  pose proof (conflict_answers_nodup now (g_an g) rg js (nget_Forall RPn _ _ _ H G)) as H1.
  destruct (conflict_answers rg (g_an g) now js) as [rg' js']. unfold regs_nodup, regs_all. cbn [fst d_regs].
  apply Forall_nset; assumption.
Qed.

Lemma handle_dgrams_nodup now : forall gs st js, regs_nodup st -> regs_nodup (fst (fst (handle_dgrams st gs now js))).
Proof.
  induction gs as [|g t IH]; intros st js H; [exact H|]. cbn [handle_dgrams].
  assert (H1 : regs_nodup (fst (fst (handle_dgram st g now js)))).
  { unfold handle_dgram. destruct (find_intf st (g_if g)); [|exact H].
    destruct (negb (intf_has_family i (g_v4 g))); [exact H|]. destruct (g_resp g).
    - pose proof (handle_response_nodup st g now js H). destruct (handle_response st g now js). exact H0.
    - pose proof (handle_query_nodup st g now H). destruct (handle_query st g now). exact H0. }
  destruct (handle_dgram st g now js) as [[st1 os1] js1]. cbn [fst] in H1.
  specialize (IH st1 js1 H1). destruct (handle_dgrams st1 t now js1) as [[st2 os2] js2]. exact IH.
Qed.

Lemma add_row_services_nodup now : forall svcs itf rg ip js, RPn rg ->
  RPn (snd (fst (fst (fst (add_row_services svcs itf rg ip now js))))).
Proof.
  induction svcs as [|[k s] t IH]; intros itf rg ip js H; [exact H|]. cbn [add_row_services]. destruct (s_auto s).
  - pose proof (prepare_announce_RP RPn 0 ipd_nodup (set_addrs (add_ip ip (s_addrs s)) s) itf rg (is_v4 ip) now js (N.le_0_l _) H) as H1.
    destruct (prepare_announce (set_addrs (add_ip ip (s_addrs s)) s) itf rg (is_v4 ip) now js) as [[rg1 m] js1]. cbn [fst] in H1.
    specialize (IH itf rg1 ip js1 H1). destruct (add_row_services t itf rg1 ip now js1) as [[[[t' rg2] os2] rt2] js2]. exact IH.
  - specialize (IH itf rg ip js H). destruct (add_row_services t itf rg ip now js) as [[[[t' rg2] os2] rt2] js2]. exact IH.
Qed.

Lemma get_reg_nodup st i : regs_nodup st -> RPn (get_reg st i).
Proof. intros H. unfold get_reg. apply regs_get. exact H. Qed.

Lemma add_interface_nodup st r now js : regs_nodup st -> regs_nodup (fst (fst (add_interface st r now js))).
Proof.
  intros H. unfold add_interface. destruct (find_intf st (os_index r)) as [itf0|].
  - destruct (has_addr itf0 (os_ip r)); [exact H|].
    match goal with |- context [add_row_services ?a ?b ?c ?d now js] =>
      pose proof (add_row_services_nodup now a b c d js (get_reg_nodup st _ H)) as H1;
      destruct (add_row_services a b c d now js) as [[[[svcs rg] os] rt] js'] end.
    unfold regs_nodup, regs_all. cbn [fst d_regs]. apply Forall_nset; assumption.
  - match goal with |- context [add_row_services ?a ?b ?c ?d now js] =>
      pose proof (add_row_services_nodup now a b c d js (get_reg_nodup st _ H)) as H1;
      destruct (add_row_services a b c d now js) as [[[[svcs rg] os] rt] js'] end.
    unfold regs_nodup, regs_all. cbn [fst d_regs]. apply Forall_nset; assumption.
Qed.

Lemma del_interface_addr_nodup st r : regs_nodup st -> regs_nodup (fst (del_interface_addr st r)).
Proof.
  intros H. unfold del_interface_addr. destruct (find_intf st (os_index r)) as [itf0|]; [|exact H].
  destruct (negb (has_addr itf0 (os_ip r))); [exact H|].
  destruct (filter (fun a => negb (beq (ia_ip a) (os_ip r))) (if_addrs itf0)); [|exact H].
  unfold regs_nodup, regs_all. cbn [fst d_regs]. apply Forall_nremove. exact H.
Qed.

Lemma apply_rows_nodup now : forall rows st js, regs_nodup st -> regs_nodup (fst (fst (apply_rows st rows now js))).
Proof.
  induction rows as [|r t IH]; intros st js H; [exact H|]. cbn [apply_rows]. destruct (row_selected (d_sel st) r).
  - pose proof (add_interface_nodup st r now js H) as H1. destruct (add_interface st r now js) as [[st1 os1] js1].
    specialize (IH st1 js1 H1). destruct (apply_rows st1 t now js1) as [[st2 os2] js2]. exact IH.
  - pose proof (del_interface_addr_nodup st r H) as H1. destruct (del_interface_addr st r) as [st1 os1].
    specialize (IH st1 js H1). destruct (apply_rows st1 t now js) as [[st2 os2] js2]. exact IH.
Qed.

Lemma NoDup_keys_filter {V} (f : bytes * V -> bool) : forall l, NoDup (keys l) -> NoDup (keys (filter f l)).
Proof.
  induction l as [|[k v] t IH]; intros H; [constructor|]. cbn [filter]. inversion H; subst.
  destruct (f (k, v)); [|apply IH; assumption]. cbn [keys map fst]. constructor; [|apply IH; assumption].
  intros Hin. apply H2. unfold keys in *. apply in_map_iff in Hin as (x & E & Hx). apply filter_In in Hx as [Hx _].
  apply in_map_iff. exists x. split; assumption.
Qed.

Lemma forget_service_nodup full rg : RPn rg -> RPn (forget_service full rg).
Proof. intros H. unfold forget_service, forget_name, RPn. cbn [rg_probing]. apply NoDup_keys_filter, NoDup_keys_filter. exact H. Qed.

Lemma forget_regs_nodup full regs : Forall (fun kr => RPn (snd kr)) regs -> Forall (fun kr => RPn (snd kr)) (forget_regs full regs).
Proof.
  intros H. unfold forget_regs. apply Forall_forall. intros kr Hin. apply in_map_iff in Hin as (x & <- & Hx). cbn [snd].
  apply forget_service_nodup. exact (proj1 (Forall_forall _ _) H x Hx).
Qed.

Lemma exec_calls_nodup now : forall cs st js, regs_nodup st -> regs_nodup (fst (fst (exec_calls st cs now js))).
Proof.
  induction cs as [|c t IH]; intros st js H; [exact H|]. cbn [exec_calls].
  assert (H1 : regs_nodup (fst (fst (fst (exec_call st c now js))))).
  { destruct c; cbn [exec_call].
    - pose proof (register_service_nodup st s now js H). destruct (register_service st s now js) as [[? ?] ?]. exact H0.
    - unfold unregister. destruct (aget (lower name) (d_svcs st)); [|exact H]. apply forget_regs_nodup. exact H.
    - exact H.
    - exact H.
    - unfold select_interfaces.
      match goal with |- context [apply_rows ?a ?b now js] => pose proof (apply_rows_nodup now b a js H) as H0; destruct (apply_rows a b now js) as [[? ?] ?] end.
      exact H0.
    - exact H. }
  destruct (exec_call st c now js) as [[[st1 os1] js1] stop]. cbn [fst] in H1. destruct stop; [exact H1|].
  specialize (IH st1 js1 H1). destruct (exec_calls st1 t now js1) as [[st2 os2] js2]. exact IH.
Qed.

Lemma run_due_nodup now : forall due st js, regs_nodup st -> regs_nodup (fst (fst (run_due st due now js))).
Proof.
  induction due as [|[t c] due IH]; intros st js H; [exact H|]. cbn [run_due]. destruct c.
  - pose proof (register_resend_nodup st full ifidx now js H) as H1.
    destruct (register_resend st full ifidx now js) as [[st1 os1] js1].
    specialize (IH st1 js1 H1). destruct (run_due st1 due now js1) as [[st2 os2] js2]. exact IH.
  - specialize (IH st js H). destruct (run_due st due now js) as [[st2 os2] js2]. exact IH.
Qed.

Lemma probe_step_nodup rg now : RPn rg -> RPn (fst (fst (fst (probe_step rg now)))).
Proof.
  intros H. destruct (probe_step rg now) as [[[rg1 qs] evs] w] eqn:E.
  destruct (probe_step_tick _ _ _ _ _ _ E) as (ex & T). pose proof (tick_names_nodup rg now H) as N. rewrite T in N. exact N.
Qed.

Lemma probing_intfs_nodup now : forall ifs st js, regs_nodup st -> regs_nodup (fst (fst (probing_intfs ifs st now js))).
Proof.
  induction ifs as [|itf t IH]; intros st js H; [exact H|]. cbn [probing_intfs].
  destruct (nget (if_index itf) (d_regs st)) as [rg|] eqn:G; [|apply IH; exact H].
  pose proof (probe_step_nodup rg now (nget_Forall RPn _ _ _ H G)) as H1.
  destruct (probe_step rg now) as [[[rg1 qs] evs] waiting]. cbn [fst] in H1.
  pose proof (announce_waiting_RP RPn 0 ipd_nodup itf now (d_mon st) waiting rg1 (d_svcs st) js (N.le_0_l _) H1) as H2.
  destruct (announce_waiting waiting itf rg1 (d_svcs st) now js (d_mon st)) as [[[[rg2 svcs2] os2] rt2] js2]. cbn [fst] in H2.
  match goal with |- context [probing_intfs t ?s now js2] =>
    assert (Hs : regs_nodup s) by (unfold regs_nodup, regs_all; cbn [d_regs]; apply Forall_nset; assumption);
    specialize (IH s js2 Hs); destruct (probing_intfs t s now js2) as [[st2 os3] js3] end.
  exact IH.
Qed.

Lemma iterate_nodup st it : regs_nodup st -> regs_nodup (fst (fst (fst (iterate st it)))).
Proof.
  intros H. unfold iterate. destruct (d_dead st); [exact H|]. set (now := it_now it).
  pose proof (handle_dgrams_nodup now (filter (fun g => g_v4 g) (it_dgrams it) ++ filter (fun g => negb (g_v4 g)) (it_dgrams it)) st (it_jitter it) H) as H1.
  destruct (handle_dgrams st _ now (it_jitter it)) as [[st1 os1] js1]. cbn [fst] in H1.
  pose proof (exec_calls_nodup now (it_calls it) st1 js1 H1) as H2.
  destruct (exec_calls st1 (it_calls it) now js1) as [[st2 os2] js2]. cbn [fst] in H2.
  destruct (d_dead st2); [destruct (cut_at_panic (os1 ++ os2)); exact H2|].
  assert (H3 : regs_nodup (fst (fst (retransmit st2 now js2)))) by (unfold retransmit; apply run_due_nodup; exact H2).
  destruct (retransmit st2 now js2) as [[st3 os3] js3]. cbn [fst] in H3.
  pose proof (probing_intfs_nodup now (d_intfs st3) st3 js3 H3) as H4. unfold probing_handler.
  destruct (probing_intfs (d_intfs st3) st3 now js3) as [[st4 os4] js4]. cbn [fst] in H4.
  destruct (cut_at_panic (os1 ++ os2 ++ os3 ++ os4)) as [o p]. destruct p; exact H4.
Qed.

Theorem regs_nodup_all_histories ifs os : forall its, regs_nodup (run_state (d_init_os ifs os) its).
Proof.
  intros its. assert (G : forall st, regs_nodup st -> regs_nodup (run_state st its)).
  { induction its as [|it t IH]; intros st H; [exact H|]. cbn [run_state]. apply IH. apply iterate_nodup. exact H. }
  apply G. constructor.
Qed.

(* ======================================================================================================
   C12 (registry layer): no overdue probe step survives an iteration
   ====================================================================================================== *)

Definition probes_ge (now : N) (rg : registry) : Prop := Forall (fun np => now <= pb_next (snd np)) (rg_probing rg).

Lemma Forall_aset {V} (Q : V -> Prop) k v : forall l : list (bytes * V),
  Q v -> Forall (fun kv => Q (snd kv)) l -> Forall (fun kv => Q (snd kv)) (aset k v l).
Proof.
  induction l as [|[k' v'] t IH]; intros Hv H; cbn [aset]; [repeat constructor; exact Hv|].
  inversion H; subst. destruct (beq k k'); constructor; auto.
Qed.

Lemma ipd_ge lo rg r svc start : lo <= start -> probes_ge lo rg -> probes_ge lo (fst (is_probing_done rg r svc start)).
Proof.
  intros Hs H. unfold is_probing_done. destruct (in_active rg r); [exact H|]. unfold probes_ge. cbn [fst rg_probing].
  apply (Forall_aset (fun p => lo <= pb_next p)); [|exact H]. cbn [pb_next].
  destruct (aget (p_name r) (rg_probing rg)) as [p|] eqn:G; [|exact Hs].
  apply aget_In in G. exact (proj1 (Forall_forall _ _) H _ G).
Qed.

(* after the probing pass over a registry every remaining probe is due in the future *)
Lemma probe_step_ge rg now : RPn rg -> probes_ge now (fst (fst (fst (probe_step rg now)))).
Proof.
  intros Hnd. unfold probe_step. rewrite check_probes_spec.
  set (ps' := map (fun np => (fst np, tick_probe now (snd np))) (rg_probing rg)).
  set (ex := flat_map (fun np => if expires now (snd np) then [fst np] else []) (rg_probing rg)).
  assert (Hnd' : NoDup (keys ps')).
  { unfold ps', keys. rewrite map_map. cbn [fst]. exact Hnd. }
  pose proof (expire_all_nodup ex (mkReg ps' (rg_active rg) (rg_changes rg)) Hnd') as N1.
  pose proof (fun m => expire_all_aget ex (mkReg ps' (rg_active rg) (rg_changes rg)) m Hnd') as A1.
  destruct (expire_all (mkReg ps' (rg_active rg) (rg_changes rg)) ex) as [[rg' evs] w]. cbn [fst rg_probing] in *.
  unfold probes_ge. apply Forall_forall. intros [n p] Hin. cbn [snd].
  pose proof (In_aget _ _ _ N1 Hin) as G. rewrite A1 in G. destruct (mem n ex) eqn:M; [discriminate|].
  apply aget_In in G. unfold ps' in G. apply in_map_iff in G as (np0 & E & Hin0).
  assert (En : fst np0 = n) by (inversion E; reflexivity).
  assert (Ep : p = tick_probe now (snd np0)) by (inversion E; reflexivity).
  set (p0 := snd np0) in *. rewrite Ep. clear E Ep.
  assert (Hex : expires now p0 = false).
  { destruct (expires now p0) eqn:X; [|reflexivity]. exfalso.
    assert (In n ex) by (unfold ex; apply in_flat_map; exists np0; split; [exact Hin0|fold p0; rewrite X, En; left; reflexivity]).
    apply mem_In in H. rewrite H in M. discriminate. }
  unfold tick_probe. destruct (sends now p0) eqn:S.
  - cbn [pb_next]. rewrite probe_next_send_pinned. lia.
  - unfold sends, expires in *. destruct (probe_due (pb_next p0) now) eqn:D.
    + destruct (probe_expired (pb_start p0) now); discriminate.
    + rewrite probe_due_pinned in D. apply N.leb_gt in D. lia.
Qed.

Lemma probing_intfs_regs_other now : forall ifs st js k, ~ In k (map if_index ifs) ->
  nget k (d_regs (fst (fst (probing_intfs ifs st now js)))) = nget k (d_regs st).
Proof.
  induction ifs as [|itf t IH]; intros st js k Hk; [reflexivity|]. cbn [probing_intfs].
  assert (Hk1 : k <> if_index itf) by (intros ->; apply Hk; left; reflexivity).
  assert (Hk2 : ~ In k (map if_index t)) by (intros H; apply Hk; right; exact H).
  destruct (nget (if_index itf) (d_regs st)) as [rg|]; [|apply IH; exact Hk2].
  destruct (probe_step rg now) as [[[rg1 qs] evs] waiting].
  destruct (announce_waiting waiting itf rg1 (d_svcs st) now js (d_mon st)) as [[[[rg2 svcs2] os2] rt2] js2].
  match goal with |- context [probing_intfs t ?s now js2] => pose proof (IH s js2 k Hk2) as E; destruct (probing_intfs t s now js2) as [[st2 os3] js3] end.
  cbn [fst d_regs] in *. rewrite E. apply nget_nset_other. exact Hk1.
Qed.

Lemma probing_intfs_ge now : forall ifs st js, regs_nodup st ->
  forall itf rg, In itf ifs -> nget (if_index itf) (d_regs (fst (fst (probing_intfs ifs st now js)))) = Some rg ->
  probes_ge now rg.
Proof.
  induction ifs as [|itf0 t IH]; intros st js Hnd itf rg Hin G; [contradiction|]. cbn [probing_intfs] in G.
  destruct (nget (if_index itf0) (d_regs st)) as [rg0|] eqn:G0.
  - pose proof (probe_step_ge rg0 now (nget_Forall RPn _ _ _ Hnd G0)) as H1.
    pose proof (probe_step_nodup rg0 now (nget_Forall RPn _ _ _ Hnd G0)) as N1.
    destruct (probe_step rg0 now) as [[[rg1 qs] evs] waiting]. cbn [fst] in H1, N1.
    pose proof (announce_waiting_RP (probes_ge now) now (fun rg r svc start => ipd_ge now rg r svc start) itf0 now (d_mon st) waiting rg1 (d_svcs st) js (N.le_refl _) H1) as H2.
    pose proof (announce_waiting_RP RPn 0 ipd_nodup itf0 now (d_mon st) waiting rg1 (d_svcs st) js (N.le_0_l _) N1) as N2.
    destruct (announce_waiting waiting itf0 rg1 (d_svcs st) now js (d_mon st)) as [[[[rg2 svcs2] os2] rt2] js2]. cbn [fst] in H2, N2.
    match type of G with context [probing_intfs t ?s now js2] =>
      assert (Hs : regs_nodup s) by (unfold regs_nodup, regs_all; cbn [d_regs]; apply Forall_nset; assumption);
      pose proof (IH s js2 Hs) as IH';
      pose proof (probing_intfs_regs_other now t s js2) as OT end.
    match type of G with context [probing_intfs t ?s now js2] => destruct (probing_intfs t s now js2) as [[st2 os3] js3] eqn:EP end.
    cbn [fst] in *.
    destruct (in_dec N.eq_dec (if_index itf) (map if_index t)) as [I|NI].
    + apply in_map_iff in I as (itf' & Ei & I'). apply (IH' itf' rg I'). rewrite Ei. exact G.
    + destruct Hin as [->|Hin]; [|exfalso; apply NI; apply in_map; exact Hin].
      rewrite (OT (if_index itf) NI) in G. cbn [d_regs] in G. rewrite nget_nset_same in G. inversion G; subst. exact H2.
  - destruct (in_dec N.eq_dec (if_index itf) (map if_index t)) as [I|NI].
    + apply in_map_iff in I as (itf' & Ei & I'). apply (IH st js Hnd itf' rg I'). rewrite Ei. exact G.
    + destruct Hin as [->|Hin]; [|exfalso; apply NI; apply in_map; exact Hin].
      rewrite (probing_intfs_regs_other now t st js (if_index itf) NI) in G. rewrite G0 in G. discriminate.
Qed.

Lemma nget_In {V} k (v : V) : forall l, nget k l = Some v -> In (k, v) l.
Proof.
  induction l as [|[k' v'] t IH]; intros G; [discriminate|]. cbn [nget] in G.
  destruct (k =? k') eqn:E; [apply N.eqb_eq in E; inversion G; subst; left; reflexivity|right; auto].
Qed.

(* NO OVERDUE PROBE STEP, ALL HISTORIES: after every iteration that leaves the daemon running, on
   every interface it has, every probe still in progress has its next step at `now` or later (due
   steps were sent, finished probes were activated); with iterate_queue_future: nothing of the
   registry layer's time-driven work is left overdue by an iteration *)
Theorem no_overdue_probe_all_histories ifs os its it st' outs js :
  iterate (run_state (d_init_os ifs os) its) it = (st', outs, Running, js) ->
  forall itf rg, In itf (d_intfs st') -> nget (if_index itf) (d_regs st') = Some rg -> probes_ge (it_now it) rg.
Proof.
  pose proof (regs_nodup_all_histories ifs os its) as Hnd. set (st := run_state (d_init_os ifs os) its) in *.
  unfold iterate. destruct (d_dead st); [discriminate|]. set (now := it_now it).
  pose proof (handle_dgrams_nodup now (filter (fun g => g_v4 g) (it_dgrams it) ++ filter (fun g => negb (g_v4 g)) (it_dgrams it)) st (it_jitter it) Hnd) as H1.
  destruct (handle_dgrams st _ now (it_jitter it)) as [[st1 os1] js1]. cbn [fst] in H1.
  pose proof (exec_calls_nodup now (it_calls it) st1 js1 H1) as H2.
  destruct (exec_calls st1 (it_calls it) now js1) as [[st2 os2] js2]. cbn [fst] in H2.
  destruct (d_dead st2); [destruct (cut_at_panic (os1 ++ os2)) as [o p]; destruct p; discriminate|].
  assert (H3 : regs_nodup (fst (fst (retransmit st2 now js2)))) by (unfold retransmit; apply run_due_nodup; exact H2).
  destruct (retransmit st2 now js2) as [[st3 os3] js3]. cbn [fst] in H3.
  pose proof (probing_intfs_ge now (d_intfs st3) st3 js3 H3) as H4.
  pose proof (probing_intfs_intfs now (d_intfs st3) st3 js3) as EI. unfold probing_handler.
  destruct (probing_intfs (d_intfs st3) st3 now js3) as [[st4 os4] js4]. cbn [fst] in *.
  destruct (cut_at_panic (os1 ++ os2 ++ os3 ++ os4)) as [o p]. destruct p; [discriminate|].
  intros E. inversion E; subst. intros itf rg Hin G. apply (H4 itf rg); [rewrite <- EI; exact Hin|exact G].
Qed.

(* ---- what is pending is covered by the model's due work (any state) ---------------------------------- *)

Lemma reg_due_le rg n p : In (n, p) (rg_probing rg) -> exists d, reg_due rg = Some d /\ d <= pb_next p.
Proof.
  unfold reg_due. generalize (@None N). induction (rg_probing rg) as [|[n0 p0] t IH]; intros acc Hin; [contradiction|].
  cbn [fold_left snd].
  assert (K : forall (l : list (bytes * probe)) (a : N), exists d, fold_left (fun (acc : option N) (np : bytes * probe) => match acc with None => Some (pb_next (snd np)) | Some m => Some (N.min m (pb_next (snd np))) end) l (Some a) = Some d /\ d <= a).
  { induction l as [|[n1 p1] l IHl]; intros a; cbn [fold_left snd]; [exists a; split; [reflexivity|lia]|].
    destruct (IHl (N.min a (pb_next p1))) as (d & E & L). exists d. split; [exact E|lia]. }
  destruct Hin as [E|Hin].
  - inversion E; subst. destruct acc as [m|].
    + destruct (K t (N.min m (pb_next p))) as (d & E1 & L). exists d. split; [exact E1|lia].
    + destruct (K t (pb_next p)) as (d & E1 & L). exists d. split; [exact E1|exact L].
  - apply IH. exact Hin.
Qed.

Lemma fold_regs_due_le (regs : list (N * registry)) : forall acc t,
  ((exists k rg n p, In (k, rg) regs /\ In (n, p) (rg_probing rg) /\ pb_next p <= t) \/ exists a, acc = Some a /\ a <= t) ->
  exists d, fold_left (fun acc ir => opt_min acc (reg_due (snd ir))) regs acc = Some d /\ d <= t.
Proof.
  induction regs as [|[k0 rg0] regs IH]; intros acc t H; cbn [fold_left snd].
  - destruct H as [(k & rg & n & p & [] & _)|(a & -> & Ha)]. exists a. split; [reflexivity|exact Ha].
  - apply IH. destruct H as [(k & rg & n & p & [E|I] & Ip & L)|(a & -> & Ha)].
    + inversion E; subst. right. destruct (reg_due_le rg n p Ip) as (d & Ed & Ld). rewrite Ed.
      destruct acc as [a|]; cbn [opt_min]; eexists; split; try reflexivity; lia.
    + left. exists k, rg, n, p. auto.
    + right. destruct (reg_due rg0) as [d|]; cbn [opt_min]; eexists; split; try reflexivity; lia.
Qed.

(* a probe step pending at time t: the model's due work is at most t *)
Lemma due_work_covers_probe st k rg n p :
  nget k (d_regs st) = Some rg -> In (n, p) (rg_probing rg) -> exists d, due_work st = Some d /\ d <= pb_next p.
Proof.
  intros G Hin. unfold due_work.
  destruct (fold_regs_due_le (d_regs st) None (pb_next p)) as (d0 & E0 & L0).
  { left. exists k, rg, n, p. split; [apply nget_In; exact G|split; [exact Hin|lia]]. }
  rewrite E0. destruct (d_retrans st) as [|[t0 c0] l] eqn:ER.
  - exists d0. split; [reflexivity|exact L0].
  - apply (fold_due_le _ _ (pb_next p) c0). right. exists d0. split; [reflexivity|exact L0].
Qed.

(* ======================================================================================================
   C09: unregister makes every registry forget the service's own names (fix d685fcf)
   ====================================================================================================== *)

Lemma aget_filter_same {V} n : forall l : list (bytes * V), aget n (filter (fun kv => negb (beq (fst kv) n)) l) = None.
Proof.
  induction l as [|[k v] t IH]; [reflexivity|]. cbn [filter fst]. destruct (beq k n) eqn:B; cbn [negb]; [exact IH|].
  cbn [aget]. destruct (beq n k) eqn:B2; [apply beq_eq in B2; subst; rewrite beq_refl in B; discriminate|exact IH].
Qed.
Lemma aget_filter_other {V} n m : m <> n -> forall l : list (bytes * V), aget m (filter (fun kv => negb (beq (fst kv) n)) l) = aget m l.
Proof.
  intros Hne. induction l as [|[k v] t IH]; [reflexivity|]. cbn [filter fst aget]. destruct (beq k n) eqn:B; cbn [negb].
  - apply beq_eq in B. subst k. destruct (beq m n) eqn:B2; [apply beq_eq in B2; contradiction|exact IH].
  - cbn [aget]. destruct (beq m k); [reflexivity|exact IH].
Qed.
Lemma aget_filter_none {V} n m : forall l : list (bytes * V), aget m l = None -> aget m (filter (fun kv => negb (beq (fst kv) n)) l) = None.
Proof.
  intros l H. destruct (beq m n) eqn:B; [apply beq_eq in B; subst; apply aget_filter_same|].
  rewrite aget_filter_other; [exact H|]. intros ->. rewrite beq_refl in B. discriminate.
Qed.

Lemma nget_forget_regs full i : forall regs, nget i (forget_regs full regs) = option_map (forget_service full) (nget i regs).
Proof.
  induction regs as [|[k rg] t IH]; [reflexivity|]. cbn [forget_regs map nget fst snd]. destruct (i =? k); [reflexivity|exact IH].
Qed.

(* no entry under the registered full name or under the name the service currently has there *)
Lemma forget_service_none full rg n :
  n = full \/ n = resolve_name rg full ->
  aget n (rg_probing (forget_service full rg)) = None /\ aget n (rg_active (forget_service full rg)) = None /\
  aget n (rg_changes (forget_service full rg)) = None.
Proof.
  unfold forget_service, forget_name. cbn [rg_probing rg_active rg_changes]. intros [->| ->].
  - repeat split; apply aget_filter_none, aget_filter_same.
  - repeat split; apply aget_filter_same.
Qed.

(* every entry under another name is exactly what it was: host-name entries (address records), entries
   of other services, name changes of other names *)
Lemma forget_service_other full rg n :
  n <> full -> n <> resolve_name rg full ->
  aget n (rg_probing (forget_service full rg)) = aget n (rg_probing rg) /\
  aget n (rg_active (forget_service full rg)) = aget n (rg_active rg) /\
  aget n (rg_changes (forget_service full rg)) = aget n (rg_changes rg).
Proof.
  intros H1 H2. unfold forget_service, forget_name. cbn [rg_probing rg_active rg_changes].
  repeat split; rewrite !aget_filter_other by assumption; reflexivity.
Qed.

(* AFTER unregister (OK), in EVERY state: each interface registry is the old one with the service's
   own names forgotten *)
Theorem unregister_forgets st k ch now s i rg :
  aget k (d_svcs st) = Some s -> nget i (d_regs st) = Some rg ->
  nget i (d_regs (fst (unregister st k ch now))) = Some (forget_service (s_full s) rg) /\
  forall n, n = s_full s \/ n = resolve_name rg (s_full s) ->
    aget n (rg_probing (forget_service (s_full s) rg)) = None /\ aget n (rg_active (forget_service (s_full s) rg)) = None /\
    aget n (rg_changes (forget_service (s_full s) rg)) = None.
Proof.
  intros G R. rewrite (unregister_found _ _ _ _ _ G). cbn [fst d_regs]. rewrite nget_forget_regs, R. split; [reflexivity|].
  intros n Hn. exact (forget_service_none _ _ _ Hn).
Qed.
