(* Component theorems about the browser model used by C04 and C05: the follow-up chain, the
   resolution step, the sources of ServiceRemoved. *)
From Coq Require Import List NArith Bool Lia.
From Mdns Require Import Res Bytes Rec Wire Txt ParamsBrowser ParamsBrowserPinned Cache Browser CacheProofs.
Import ListNotations.
Open Scope N_scope.

(* ---- the follow-up chain (add_pending_resolve / exec_command_resolve / query_unresolved) ------------- *)

(* an instance that is not yet pending gets its first try 500 ms later *)
Theorem followup_first s now inst :
  mem inst (s_pending s) = false ->
  s_retrans (add_pending s now inst) = s_retrans s ++ [(now + 500, RResolve inst 1)]
  /\ s_pending (add_pending s now inst) = s_pending s ++ [inst].
Proof. intros H. unfold add_pending. rewrite H. split; reflexivity. Qed.

(* while its chain is running an instance gets no second chain *)
Theorem followup_not_restarted s now inst :
  mem inst (s_pending s) = true -> add_pending s now inst = s.
Proof. intros H. unfold add_pending. now rewrite H. Qed.

Definition forget_pending (s : st) (inst : bytes) : st :=
  mkSt (s_cache s) (s_q s) (set_remove inst (s_pending s)) (s_resolved s) (s_retrans s).

Lemma mem_set_remove x l : mem x (set_remove x l) = false.
Proof.
  unfold set_remove. induction l as [|y l IH]; simpl; [reflexivity|].
  destruct (beq x y) eqn:E; simpl; [assumption|]. now rewrite E.
Qed.

(* while no SRV is cached every try asks (instance, ANY); tries 1 and 2 schedule the next one
   500 ms later, try 3 schedules nothing and takes the instance out of pending_resolves *)
Theorem followup_step_any s now inst n :
  has_ptr_to (s_cache s) inst = true ->
  valid_instance_name inst = true -> bm_get inst (c_srv (s_cache s)) = None ->
  exec_resolve s now inst n =
  (if n <? 3
   then mkSt (s_cache s) (s_q s) (s_pending s) (s_resolved s)
             (s_retrans s ++ [(now + 500, RResolve inst (n + 1))])
   else forget_pending s inst,
   [OQuery [(inst, TY_ANY)]]).
Proof.
  intros Hp Hv Hs. unfold exec_resolve, query_unresolved, forget_pending. rewrite Hp, Hv, Hs. simpl.
  destruct (followup_pinned n) as (_ & _ & _ & _ & _ & Hg & _). rewrite Hg.
  destruct (n <? 3); reflexivity.
Qed.

(* once an SRV is cached whose target has no address bucket the try asks (host, A), (host, AAAA) *)
Theorem followup_step_addr s now inst n recs e :
  has_ptr_to (s_cache s) inst = true ->
  valid_instance_name inst = true -> bm_get inst (c_srv (s_cache s)) = Some recs ->
  find (fun e => match get_addr (s_cache s) (srv_host e) with None => true | Some _ => false end) recs = Some e ->
  snd (exec_resolve s now inst n) = [OQuery [(srv_host e, TY_A); (srv_host e, TY_AAAA)]]
  /\ s_retrans (fst (exec_resolve s now inst n)) =
     if n <? 3 then s_retrans s ++ [(now + 500, RResolve inst (n + 1))] else s_retrans s.
Proof.
  intros Hp Hv Hs Hf. unfold exec_resolve, query_unresolved. rewrite Hp, Hv, Hs, Hf. simpl.
  destruct (followup_pinned n) as (_ & _ & _ & _ & _ & Hg & _). rewrite Hg.
  destruct (n <? 3); split; reflexivity.
Qed.

(* when nothing is missing (SRV cached, every target has an address bucket) the try asks
   nothing and the chain ends *)
Theorem followup_ends s now inst n recs :
  bm_get inst (c_srv (s_cache s)) = Some recs ->
  find (fun e => match get_addr (s_cache s) (srv_host e) with None => true | Some _ => false end) recs = None ->
  exec_resolve s now inst n = (forget_pending s inst, []).
Proof.
  intros Hs Hf. unfold exec_resolve, query_unresolved, forget_pending.
  destruct (has_ptr_to (s_cache s) inst); [|reflexivity].
  destruct (negb (valid_instance_name inst)); [reflexivity|]. now rewrite Hs, Hf.
Qed.

(* fix 48ec5c0: when no cached PTR record points to the instance any more (stop_browse, PTR
   goodbye / expiry) the try asks nothing, the chain ends and the instance is no longer pending *)
Theorem followup_stops_without_ptr s now inst n :
  has_ptr_to (s_cache s) inst = false -> exec_resolve s now inst n = (forget_pending s inst, []).
Proof. intros H. unfold exec_resolve, forget_pending. now rewrite H. Qed.

(* when the chain is over (third try done, or nothing missing) the instance is no longer
   pending: a later ServiceFound of it starts a new chain (followup_first applies again) *)
Theorem followup_over_allows_new_round s now inst n :
  (n <? 3) = false \/ has_ptr_to (s_cache s) inst = false \/ fst (query_unresolved (s_cache s) inst) = false ->
  mem inst (s_pending (fst (exec_resolve s now inst n))) = false.
Proof.
  intros H. unfold exec_resolve.
  destruct (has_ptr_to (s_cache s) inst); [|simpl; apply mem_set_remove].
  assert (H' : (n <? 3) = false \/ fst (query_unresolved (s_cache s) inst) = false)
    by (destruct H as [H|[H|H]]; [now left|discriminate|now right]).
  clear H. rename H' into H.
  destruct (query_unresolved (s_cache s) inst) as [sent o]. simpl in H.
  assert (Hc : sent && retry_guard n max_try = false).
  { destruct (followup_pinned n) as (_ & _ & _ & _ & _ & Hg & _). rewrite Hg.
    destruct H as [H|H]; rewrite H; [apply andb_false_r|reflexivity]. }
  rewrite Hc. simpl. apply mem_set_remove.
Qed.

(* the chain of an instance whose SRV never arrives: exactly three questions, at +500, +1000,
   +1500 when every wake-up is on time *)
Theorem followup_three_tries s t inst :
  has_ptr_to (s_cache s) inst = true ->
  valid_instance_name inst = true -> bm_get inst (c_srv (s_cache s)) = None ->
  let s1 := fst (exec_resolve s (t + 500) inst 1) in
  let s2 := fst (exec_resolve s1 (t + 1000) inst 2) in
  let s3 := fst (exec_resolve s2 (t + 1500) inst 3) in
  s_retrans s1 = s_retrans s ++ [(t + 1000, RResolve inst 2)]
  /\ s_retrans s2 = s_retrans s1 ++ [(t + 1500, RResolve inst 3)]
  /\ s_retrans s3 = s_retrans s2
  /\ snd (exec_resolve s (t + 500) inst 1) = [OQuery [(inst, TY_ANY)]]
  /\ snd (exec_resolve s1 (t + 1000) inst 2) = [OQuery [(inst, TY_ANY)]]
  /\ snd (exec_resolve s2 (t + 1500) inst 3) = [OQuery [(inst, TY_ANY)]].
Proof.
  intros Hp Hv Hs. cbv zeta.
  rewrite (followup_step_any s (t + 500) inst 1 Hp Hv Hs). simpl.
  set (s1 := mkSt (s_cache s) (s_q s) (s_pending s) (s_resolved s)
                  (s_retrans s ++ [(t + 500 + 500, RResolve inst 2)])).
  rewrite (followup_step_any s1 (t + 1000) inst 2 Hp Hv Hs). simpl.
  set (s2 := mkSt (s_cache s) (s_q s) (s_pending s) (s_resolved s)
                  ((s_retrans s ++ [(t + 500 + 500, RResolve inst 2)]) ++ [(t + 1000 + 500, RResolve inst 3)])).
  rewrite (followup_step_any s2 (t + 1500) inst 3 Hp Hv Hs). simpl.
  repeat split; f_equal; f_equal; f_equal; lia.
Qed.

(* ---- the resolution step ---------------------------------------------------------------------------------- *)

Lemma dedup_pairs_nonempty x l : dedup_pairs (x :: l) [] <> [].
Proof. simpl. destruct x. discriminate. Qed.

(* a cache that holds an SRV of the instance with more than 1 s left, naming a host, and an
   address of that host (filed under the lower-cased name) with more than 1 s left, resolves *)
Theorem valid_when_complete c now ty inst sb e ab a :
  ty <> [] -> inst <> [] ->
  bm_get inst (c_srv c) = Some sb -> find (fun e => negb (expires_soon e now)) sb = Some e ->
  srv_host e <> [] ->
  bm_get (lower (srv_host e)) (c_addr c) = Some ab -> In a ab -> expires_soon a now = false ->
  is_valid (resolve_from_cache c now ty inst) = true.
Proof.
  intros Hty Hinst Hsb Hfind Hhost Hab Hin Hsoon.
  unfold is_valid, resolve_from_cache. simpl. rewrite Hsb, Hfind. unfold get_addr. rewrite Hab.
  destruct ty; [congruence|]. destruct inst; [congruence|]. destruct (srv_host e) eqn:Eh; [congruence|].
  simpl.
  assert (Hne : filter (fun e0 => negb (expires_soon e0 now)) ab <> []).
  { intros Hf. assert (In a (filter (fun e0 => negb (expires_soon e0 now)) ab)).
    { apply filter_In. split; [assumption|]. now rewrite Hsoon. }
    rewrite Hf in H. destruct H. }
  destruct (filter (fun e0 => negb (expires_soon e0 now)) ab) as [|x xs]; [congruence|].
  simpl. destruct (dedup_pairs ((addr_octets x, e_if x) :: map (fun e0 => (addr_octets e0, e_if e0)) xs) []) eqn:Ed.
  - exfalso. revert Ed. apply dedup_pairs_nonempty.
  - reflexivity.
Qed.

Lemma ru_ptrs_complete c now ty ch updated p : forall ptrs rset,
  In p ptrs -> expires_soon p now = false -> mem (alias_of (e_rr p)) updated = true ->
  is_valid (resolve_from_cache c now ty (alias_of (e_rr p))) = true ->
  In (OEvt ch (EResolved (resolve_from_cache c now ty (alias_of (e_rr p)))))
     (fst (fst (fst (fst (ru_ptrs c now ty ch updated ptrs rset))))).
Proof.
  induction ptrs as [|q rest IH]; intros rset Hin Hsoon Hmem Hv; simpl; [destruct Hin|].
  destruct Hin as [->|Hin].
  - rewrite Hsoon, Hmem, Hv. simpl.
    destruct (ru_ptrs c now ty ch updated rest rset) as [[[[o res] unres] rem] rset']. simpl. now left.
  - destruct (negb (expires_soon q now) && mem (alias_of (e_rr q)) updated); [|now apply IH].
    destruct (is_valid (resolve_from_cache c now ty (alias_of (e_rr q)))).
    + specialize (IH rset Hin Hsoon Hmem Hv).
      destruct (ru_ptrs c now ty ch updated rest rset) as [[[[o res] unres] rem] rset']. simpl in *. now right.
    + specialize (IH rset Hin Hsoon Hmem Hv).
      destruct (ru_ptrs c now ty ch updated rest rset)
        as [[[[o res] unres] rem] rset']. simpl in *. assumption.
Qed.

Lemma ru_types_complete c now q updated ty ch ptrs p : forall ptr rset,
  In (ty, ptrs) ptr -> q_get ty q = Some ch ->
  In p ptrs -> expires_soon p now = false -> mem (alias_of (e_rr p)) updated = true ->
  is_valid (resolve_from_cache c now ty (alias_of (e_rr p))) = true ->
  In (OEvt ch (EResolved (resolve_from_cache c now ty (alias_of (e_rr p)))))
     (fst (fst (fst (fst (ru_types c now q updated ptr rset))))).
Proof.
  induction ptr as [|[ty0 ptrs0] rest IH]; intros rset Hin Hq Hp Hsoon Hmem Hv; simpl; [destruct Hin|].
  destruct Hin as [Hin|Hin].
  - inversion Hin; subst. rewrite Hq.
    pose proof (ru_ptrs_complete c now ty ch updated p ptrs rset Hp Hsoon Hmem Hv) as H.
    destruct (ru_ptrs c now ty ch updated ptrs rset) as [[[[o1 res1] un1] rem1] rset1]. simpl in H.
    destruct (ru_types c now q updated rest rset1) as [[[[o2 res2] un2] rem2] rset2]. simpl.
    apply in_app_iff. now left.
  - destruct (q_get ty0 q) as [ch0|]; [|now apply IH].
    destruct (ru_ptrs c now ty0 ch0 updated ptrs0 rset) as [[[[o1 res1] un1] rem1] rset1].
    specialize (IH rset1 Hin Hq Hp Hsoon Hmem Hv).
    destruct (ru_types c now q updated rest rset1) as [[[[o2 res2] un2] rem2] rset2]. simpl in *.
    apply in_app_iff. now right.
Qed.

(* C04, resolution step: an updated instance of a browsed type whose PTR, SRV and address all
   have more than one second left is reported resolved by resolve_updated_instances *)
Theorem resolve_complete s now updated ty ch ptrs p :
  In (ty, ptrs) (c_ptr (s_cache s)) -> q_get ty (s_q s) = Some ch ->
  In p ptrs -> expires_soon p now = false -> mem (alias_of (e_rr p)) updated = true ->
  is_valid (resolve_from_cache (s_cache s) now ty (alias_of (e_rr p))) = true ->
  In (OEvt ch (EResolved (resolve_from_cache (s_cache s) now ty (alias_of (e_rr p)))))
     (snd (resolve_updated s now updated)).
Proof.
  intros Hin Hq Hp Hsoon Hmem Hv. unfold resolve_updated.
  destruct updated as [|u us]; [discriminate|].
  pose proof (ru_types_complete (s_cache s) now (s_q s) (u :: us) ty ch ptrs p (c_ptr (s_cache s))
                (s_resolved s) Hin Hq Hp Hsoon Hmem Hv) as H.
  destruct (ru_types (s_cache s) now (s_q s) (u :: us) (c_ptr (s_cache s)) (s_resolved s))
    as [[[[o res] unres] rem] rset]. simpl in *. apply in_app_iff. now left.
Qed.

(* a new SRV / TXT record of the instance, or a new PTR to it with TTL > 1, puts the instance
   into the set handed to resolve_updated_instances; a new address record does so for the
   instances whose first SRV names exactly its owner (case-sensitive: finding D21) *)
Theorem updated_of_instance c changes t inst :
  In (t, inst) changes -> (t = TY_PTR \/ t = TY_SRV \/ t = TY_TXT) -> In inst (updated_of c changes).
Proof.
  intros Hin Ht. unfold updated_of. apply in_flat_map. exists (t, inst). split; [assumption|]. simpl.
  destruct Ht as [-> | [-> | ->]]; simpl; now left.
Qed.

Theorem updated_of_address c changes t owner inst :
  In (t, owner) changes -> is_addr_type t = true -> In inst (get_instances_on_host c owner) ->
  In inst (updated_of c changes).
Proof.
  intros Hin Ht Hi. unfold updated_of. apply in_flat_map. exists (t, owner). split; [assumption|]. simpl.
  unfold is_addr_type in Ht. apply orb_true_iff in Ht as [Ht|Ht]; apply N.eqb_eq in Ht; subst; simpl; assumption.
Qed.

(* a new PTR with TTL > 1 for a browsed type is announced with ServiceFound *)
Theorem new_ptr_found c now ifx q r ch :
  r_type r = TY_PTR -> 1 < r_ttl r -> q_get (r_name r) q = Some ch ->
  snd (add_or_update c now ifx r true) = Some (new_entry r now ifx, true) ->
  snd (fst (hr_records c now ifx q true [r])) = [OEvt ch (EFound (r_name r) (alias_of r))].
Proof.
  intros Hty Httl Hq Hres. simpl. destruct (add_or_update c now ifx r true) as [c1 res]. simpl in Hres. subst res.
  unfold e_type, e_ttl, e_name. simpl. rewrite Hty. rewrite found_ttl_guard_pinned.
  apply N.ltb_lt in Httl. rewrite Httl. simpl. now rewrite Hq.
Qed.

(* ---- where ServiceRemoved comes from ---------------------------------------------------------------------- *)

Lemma ru_ptrs_removed c now ty ch updated : forall ptrs rset t i,
  In (t, i) (snd (fst (ru_ptrs c now ty ch updated ptrs rset))) ->
  t = ty /\ is_valid (resolve_from_cache c now ty i) = false.
Proof.
  induction ptrs as [|p rest IH]; intros rset t i; simpl; [tauto|].
  destruct (negb (expires_soon p now) && mem (alias_of (e_rr p)) updated); [|apply IH].
  destruct (is_valid (resolve_from_cache c now ty (alias_of (e_rr p)))) eqn:Ev.
  - specialize (IH rset t i). destruct (ru_ptrs c now ty ch updated rest rset) as [[[[o res] unres] rem] rset'].
    simpl in *. assumption.
  - specialize (IH rset t i).
    destruct (ru_ptrs c now ty ch updated rest rset)
      as [[[[o res] unres] rem] rset']. simpl in *.
    intros H. apply in_app_iff in H as [H|H]; [|auto].
    destruct (mem (alias_of (e_rr p)) rset); [|destruct H]. destruct H as [H|[]]. inversion H; subst. auto.
Qed.

Lemma ru_types_removed c now q updated : forall ptr rset t i,
  In (t, i) (snd (fst (ru_types c now q updated ptr rset))) ->
  is_valid (resolve_from_cache c now t i) = false.
Proof.
  induction ptr as [|[ty ptrs] rest IH]; intros rset t i; simpl; [tauto|].
  destruct (q_get ty q) as [ch|]; [|apply IH].
  pose proof (ru_ptrs_removed c now ty ch updated ptrs rset t i) as H1.
  destruct (ru_ptrs c now ty ch updated ptrs rset) as [[[[o1 res1] un1] rem1] rset1]. simpl in H1.
  specialize (IH rset1 t i).
  destruct (ru_types c now q updated rest rset1) as [[[[o2 res2] un2] rem2] rset2]. simpl in *.
  intros H. apply in_app_iff in H as [H|H]; [|auto]. destruct (H1 H) as [Heq Hv]. subst t. assumption.
Qed.

Lemma notify_removal_In q ex ch t i :
  In (OEvt ch (ERemoved t i)) (notify_removal q ex) -> In (t, i) ex.
Proof.
  unfold notify_removal. intros H. apply in_flat_map in H as [[ty c0] [_ H]]. simpl in H.
  apply in_map_iff in H as [j [Hj1 Hj2]]. inversion Hj1; subst.
  assert (Hd : forall l x, In x (dedup l) -> In x l).
  { induction l as [|y l IH]; simpl; [tauto|]. intros x. destruct (mem y l); [intros Hx; right; auto|].
    intros [Hx|Hx]; [now left|right; auto]. }
  apply Hd in Hj2. apply in_map_iff in Hj2 as [[t0 i0] [A B]]. simpl in A. subst i0.
  apply filter_In in B as [B1 B2]. simpl in B2. apply beq_eq in B2. now subst.
Qed.

Lemma ru_ptrs_no_removed_evt c now ty ch updated : forall ptrs rset ch' t i,
  ~ In (OEvt ch' (ERemoved t i)) (fst (fst (fst (fst (ru_ptrs c now ty ch updated ptrs rset))))).
Proof.
  induction ptrs as [|p rest IH]; intros rset ch' t i; simpl; [tauto|].
  destruct (negb (expires_soon p now) && mem (alias_of (e_rr p)) updated); [|apply IH].
  destruct (is_valid (resolve_from_cache c now ty (alias_of (e_rr p)))).
  - specialize (IH rset ch' t i). destruct (ru_ptrs c now ty ch updated rest rset) as [[[[o res] unres] rem] rset'].
    simpl in *. intros [H|H]; [discriminate|auto].
  - specialize (IH rset ch' t i).
    destruct (ru_ptrs c now ty ch updated rest rset)
      as [[[[o res] unres] rem] rset']. simpl in *. assumption.
Qed.

Lemma ru_types_no_removed_evt c now q updated : forall ptr rset ch' t i,
  ~ In (OEvt ch' (ERemoved t i)) (fst (fst (fst (fst (ru_types c now q updated ptr rset))))).
Proof.
  induction ptr as [|[ty ptrs] rest IH]; intros rset ch' t i; simpl; [tauto|].
  destruct (q_get ty q) as [ch|]; [|apply IH].
  pose proof (ru_ptrs_no_removed_evt c now ty ch updated ptrs rset ch' t i) as H1.
  destruct (ru_ptrs c now ty ch updated ptrs rset) as [[[[o1 res1] un1] rem1] rset1]. simpl in H1.
  specialize (IH rset1 ch' t i).
  destruct (ru_types c now q updated rest rset1) as [[[[o2 res2] un2] rem2] rset2]. simpl in *.
  intros H. apply in_app_iff in H as [H|H]; auto.
Qed.

(* C05, removal by resolve_updated_instances: only for an instance that cannot be resolved from
   the cache with records that have more than one second left (no such SRV naming a host, or no
   such address of that host) *)
Theorem removed_when_invalid s now updated ch t i :
  In (OEvt ch (ERemoved t i)) (snd (resolve_updated s now updated)) ->
  is_valid (resolve_from_cache (s_cache s) now t i) = false.
Proof.
  unfold resolve_updated. destruct updated as [|u us]; [intros []|].
  pose proof (ru_types_removed (s_cache s) now (s_q s) (u :: us) (c_ptr (s_cache s)) (s_resolved s) t i) as H1.
  pose proof (ru_types_no_removed_evt (s_cache s) now (s_q s) (u :: us) (c_ptr (s_cache s)) (s_resolved s) ch t i) as H2.
  destruct (ru_types (s_cache s) now (s_q s) (u :: us) (c_ptr (s_cache s)) (s_resolved s))
    as [[[[o res] unres] rem] rset]. simpl in *.
  intros H. apply in_app_iff in H as [H|H]; [contradiction|]. apply notify_removal_In in H. auto.
Qed.

(* C05, removal by the eviction: only for an instance some PTR of that type points to, and every
   such event comes from evict_expired_services' report *)
Theorem evict_removed_has_ptr s now ch t i :
  In (OEvt ch (ERemoved t i)) (notify_removal (s_q s) (snd (evict_services (s_cache s) now))) ->
  exists ptrs p, In (t, ptrs) (c_ptr (s_cache s)) /\ In p ptrs /\ alias_of (e_rr p) = i.
Proof. intros H. apply notify_removal_In in H. now apply evict_reported_has_ptr in H. Qed.

(* ---- an instance that became invalid is reported under EVERY browsed name (repair f108398) ---------- *)

Lemma ru_ptrs_removed_complete c now ty ch updated p rset : forall ptrs,
  In p ptrs -> expires_soon p now = false -> mem (alias_of (e_rr p)) updated = true ->
  is_valid (resolve_from_cache c now ty (alias_of (e_rr p))) = false ->
  mem (alias_of (e_rr p)) rset = true ->
  In (ty, alias_of (e_rr p)) (snd (fst (ru_ptrs c now ty ch updated ptrs rset))).
Proof.
  induction ptrs as [|q rest IH]; intros Hin Hsoon Hmem Hv Hr; simpl; [destruct Hin|].
  destruct Hin as [->|Hin].
  - rewrite Hsoon, Hmem, Hv. simpl.
    destruct (ru_ptrs c now ty ch updated rest rset) as [[[[o res] unres] rem] rset']. simpl.
    rewrite Hr. now left.
  - specialize (IH Hin Hsoon Hmem Hv Hr).
    destruct (negb (expires_soon q now) && mem (alias_of (e_rr q)) updated); [|assumption].
    destruct (is_valid (resolve_from_cache c now ty (alias_of (e_rr q))));
      destruct (ru_ptrs c now ty ch updated rest rset) as [[[[o res] unres] rem] rset']; simpl in *; [assumption|].
    apply in_app_iff. now right.
Qed.

Lemma ru_ptrs_rset c now ty ch updated rset : forall ptrs,
  snd (ru_ptrs c now ty ch updated ptrs rset) = rset.
Proof.
  induction ptrs as [|q rest IH]; simpl; [reflexivity|].
  destruct (negb (expires_soon q now) && mem (alias_of (e_rr q)) updated); [|assumption].
  destruct (is_valid (resolve_from_cache c now ty (alias_of (e_rr q))));
    destruct (ru_ptrs c now ty ch updated rest rset) as [[[[o res] unres] rem] rset']; simpl in *; assumption.
Qed.

Lemma ru_types_removed_complete c now q updated ty ch ptrs p rset : forall ptr,
  In (ty, ptrs) ptr -> q_get ty q = Some ch ->
  In p ptrs -> expires_soon p now = false -> mem (alias_of (e_rr p)) updated = true ->
  is_valid (resolve_from_cache c now ty (alias_of (e_rr p))) = false ->
  mem (alias_of (e_rr p)) rset = true ->
  In (ty, alias_of (e_rr p)) (snd (fst (ru_types c now q updated ptr rset))).
Proof.
  induction ptr as [|[ty0 ptrs0] rest IH]; intros Hin Hq Hp Hsoon Hmem Hv Hr; simpl; [destruct Hin|].
  destruct Hin as [Hin|Hin].
  - inversion Hin; subst. rewrite Hq.
    pose proof (ru_ptrs_removed_complete c now ty ch updated p rset ptrs Hp Hsoon Hmem Hv Hr) as H.
    destruct (ru_ptrs c now ty ch updated ptrs rset) as [[[[o1 res1] un1] rem1] rset1]. simpl in H.
    destruct (ru_types c now q updated rest rset1) as [[[[o2 res2] un2] rem2] rset2]. simpl.
    apply in_app_iff. now left.
  - destruct (q_get ty0 q) as [ch0|]; [|now apply IH].
    pose proof (ru_ptrs_rset c now ty0 ch0 updated rset ptrs0) as Hs.
    destruct (ru_ptrs c now ty0 ch0 updated ptrs0 rset) as [[[[o1 res1] un1] rem1] rset1]. simpl in Hs. subst rset1.
    specialize (IH Hin Hq Hp Hsoon Hmem Hv Hr).
    destruct (ru_types c now q updated rest rset) as [[[[o2 res2] un2] rem2] rset2]. simpl in *.
    apply in_app_iff. now right.
Qed.

Lemma q_get_In ty q ch : q_get ty q = Some ch -> In (ty, ch) q.
Proof.
  induction q as [|[t c] r IH]; simpl; [discriminate|]. destruct (beq ty t) eqn:E.
  - intros H. inversion H; subst. apply beq_eq in E. subst. now left.
  - intros H. right. auto.
Qed.

Lemma In_dedup (l : list bytes) x : In x l -> In x (dedup l).
Proof.
  induction l as [|y l IH]; simpl; [tauto|]. intros [->|H].
  - destruct (mem x l) eqn:E; [apply IH; now apply mem_In|now left].
  - destruct (mem y l); [auto|right; auto].
Qed.

Lemma notify_removal_complete q ex ty ch i :
  In (ty, ch) q -> In (ty, i) ex -> In (OEvt ch (ERemoved ty i)) (notify_removal q ex).
Proof.
  intros Hq Hex. unfold notify_removal. apply in_flat_map. exists (ty, ch). split; [assumption|]. simpl.
  apply in_map_iff. exists i. split; [reflexivity|]. apply In_dedup. apply in_map_iff. exists (ty, i).
  split; [reflexivity|]. apply filter_In. split; [assumption|]. simpl. apply beq_refl.
Qed.

(* every browsed ty_domain that has a PTR (more than one second left) to an updated instance
   that was reported resolved and cannot be resolved any more gets ServiceRemoved *)
Theorem invalid_reported_under_every_name s now updated ty ch ptrs p :
  In (ty, ptrs) (c_ptr (s_cache s)) -> q_get ty (s_q s) = Some ch ->
  In p ptrs -> expires_soon p now = false -> mem (alias_of (e_rr p)) updated = true ->
  is_valid (resolve_from_cache (s_cache s) now ty (alias_of (e_rr p))) = false ->
  mem (alias_of (e_rr p)) (s_resolved s) = true ->
  In (OEvt ch (ERemoved ty (alias_of (e_rr p)))) (snd (resolve_updated s now updated)).
Proof.
  intros Hin Hq Hp Hsoon Hmem Hv Hr. unfold resolve_updated. destruct updated as [|u us]; [discriminate|].
  pose proof (ru_types_removed_complete (s_cache s) now (s_q s) (u :: us) ty ch ptrs p (s_resolved s)
                (c_ptr (s_cache s)) Hin Hq Hp Hsoon Hmem Hv Hr) as H.
  destruct (ru_types (s_cache s) now (s_q s) (u :: us) (c_ptr (s_cache s)) (s_resolved s))
    as [[[[o res] unres] rem] rset]. simpl in *. apply in_app_iff. right.
  apply notify_removal_complete; [now apply q_get_In|assumption].
Qed.
