(* C06 over histories of the daemon model, with a ghost log of everything emitted so far: a service
   is Announced on an interface only after an announcement of it went out for that interface; hence
   every answer of every reachable history is for a service whose announcement went out before. *)
From Coq Require Import List NArith Bool Lia.
From Mdns Require Import Res Bytes Rec Wire Intf IntfCache Responder IntfDaemon
     IntfDaemonProofs IntfHistoryProofs ResponderHistoryProofs IntfCheckerProofs.
Import ListNotations.
Open Scope N_scope.

(* o is an announcement of the service registered under `key`, built for interface idx *)
Definition ann_pkt (key : bytes) (idx : N) (o : obs) : Prop :=
  exists s intf v4 p os, o = OSent (reroute os intf p) /\ announce_on s intf v4 = Some p /\
                         mi_index intf = idx /\ lower (s_fullname s) = key.
Definition announced_in (L : list obs) (key : bytes) (idx : N) : Prop := exists o, In o L /\ ann_pkt key idx o.

(* the ghost invariant: L = everything emitted so far *)
Definition AInv (L : list obs) (d : dstate) : Prop :=
  forall key ds, In (key, ds) (d_svcs d) ->
    key = lower (s_fullname (ds_svc ds)) /\
    forall idx, status_get idx (ds_status ds) = Announced -> announced_in L key idx.

Lemma announced_in_l L o key idx : announced_in L key idx -> announced_in (L ++ o) key idx.
Proof. intros (x & H1 & H2). exists x. split; [apply in_or_app; auto|exact H2]. Qed.
Lemma announced_in_r L o key idx : announced_in o key idx -> announced_in (L ++ o) key idx.
Proof. intros (x & H1 & H2). exists x. split; [apply in_or_app; auto|exact H2]. Qed.

Lemma AInv_mono L o d : AInv L d -> AInv (L ++ o) d.
Proof. intros H key ds Hin. destruct (H key ds Hin) as [H1 H2]. split; [exact H1|]. intros idx Hs. apply announced_in_l. auto. Qed.

Lemma AInv_svcs L d d' : d_svcs d' = d_svcs d -> AInv L d -> AInv L d'.
Proof. unfold AInv. intros E H. rewrite E. exact H. Qed.

Lemma status_get_set idx idx' v l : status_get idx (status_set idx' v l) = if idx' =? idx then v else status_get idx l.
Proof.
  induction l as [|[i s0] t IH]; simpl; [reflexivity|].
  destruct (i =? idx') eqn:E1; simpl.
  - apply N.eqb_eq in E1. subst i. destruct (idx' =? idx); reflexivity.
  - rewrite IH. destruct (i =? idx) eqn:E2; [|reflexivity]. apply N.eqb_eq in E2. subst i. rewrite N.eqb_sym in E1. rewrite E1. reflexivity.
Qed.

Lemma svc_put_in k v l key ds : In (key, ds) (svc_put k v l) -> (key, ds) = (k, v) \/ In (key, ds) l.
Proof.
  induction l as [|[k' v'] t IH]; simpl; [intros [H|[]]; auto|].
  destruct (beq k' k); simpl; intros [H|H]; auto. destruct (IH H); auto.
Qed.

Lemma fullname_remove a ds : s_fullname (ds_svc (svc_remove_ip a ds)) = s_fullname (ds_svc ds) /\
                             ds_status (svc_remove_ip a ds) = ds_status ds.
Proof. unfold svc_remove_ip. destruct (ds_auto ds); simpl; auto. Qed.
Lemma fullname_insert a ds : s_fullname (ds_svc (svc_insert_ip a ds)) = s_fullname (ds_svc ds) /\
                             ds_status (svc_insert_ip a ds) = ds_status ds.
Proof. unfold svc_insert_ip. destruct (ds_auto ds); simpl; auto. Qed.

Lemma AInv_map_remove L a d : AInv L d -> AInv L (map_svcs (svc_remove_ip a) d).
Proof.
  intros H key ds Hin. unfold map_svcs, upd_svcs in Hin. simpl in Hin. apply in_map_iff in Hin as [[k0 ds0] [E Hin]].
  inversion E; subst. destruct (H _ _ Hin) as [H1 H2]. destruct (fullname_remove a ds0) as [F1 F2].
  rewrite F1, F2. auto.
Qed.

Lemma opt_pk_in s intf os :
  let pk := opt_list (announce_on s intf true) ++ opt_list (announce_on s intf false) in
  is_nil pk = false ->
  announced_in (map (fun p => OSent (reroute os intf p)) pk) (lower (s_fullname s)) (mi_index intf).
Proof.
  cbv zeta. destruct (announce_on s intf true) as [p|] eqn:E4.
  - intros _. exists (OSent (reroute os intf p)). split; [simpl; auto|]. exists s, intf, true, p, os. auto.
  - destruct (announce_on s intf false) as [p|] eqn:E6; [|discriminate].
    intros _. exists (OSent (reroute os intf p)). split; [simpl; auto|]. exists s, intf, false, p, os. auto.
Qed.

Lemma do_register_A L now d s auto : AInv L d -> AInv (L ++ snd (do_register now d s auto)) (fst (do_register now d s auto)).
Proof.
  intros HA. unfold do_register.
  set (s1 := if auto then _ else s).
  match goal with |- context [fold_left ?f (d_intfs d) ([], [], [])] => set (stepf := f) end.
  assert (G : forall l acc, (forall idx, status_get idx (fst (fst acc)) = Announced -> announced_in (snd (fst acc)) (lower (s_fullname s1)) idx) ->
              forall idx, status_get idx (fst (fst (fold_left stepf l acc))) = Announced ->
                          announced_in (snd (fst (fold_left stepf l acc))) (lower (s_fullname s1)) idx).
  { induction l as [|intf l IH]; intros [[st sent] resend] Hacc; simpl in Hacc |- *; [exact Hacc|]. apply IH.
    destruct (is_nil (opt_list (announce_on s1 intf true) ++ opt_list (announce_on s1 intf false))) eqn:En; simpl; intros idx Hs;
      rewrite status_get_set in Hs; destruct (mi_index intf =? idx) eqn:Ei; try discriminate.
    - apply Hacc. exact Hs.
    - apply N.eqb_eq in Ei. subst idx. apply announced_in_r. apply opt_pk_in. exact En.
    - apply announced_in_l. apply Hacc. exact Hs. }
  specialize (G (d_intfs d) ([], [], [])). simpl in G.
  assert (G0 : forall idx, status_get idx [] = Announced -> announced_in [] (lower (s_fullname s1)) idx) by (intros idx H; discriminate).
  specialize (G G0). destruct (fold_left stepf (d_intfs d) ([], [], [])) as [[status sent] resend]. simpl in *.
  intros key ds Hin. apply svc_put_in in Hin as [E|Hin].
  - inversion E; subst. simpl. split; [reflexivity|]. intros idx Hs. apply announced_in_r. apply G. exact Hs.
  - apply (AInv_mono L sent d HA). exact Hin.
Qed.

Lemma do_unregister_A L now d key : AInv L d -> AInv (L ++ snd (do_unregister now d key)) (fst (do_unregister now d key)).
Proof.
  intros HA. unfold do_unregister. destruct (svc_get key (d_svcs d)); [|simpl; rewrite app_nil_r; exact HA].
  destruct (fold_left _ (d_intfs d) ([], [])) as [sent resend]. simpl.
  intros k ds Hin. apply filter_In in Hin as [Hin _]. apply (AInv_mono L sent d HA). exact Hin.
Qed.

Lemma svc_get_in k l v : svc_get k l = Some v -> In (k, v) l.
Proof.
  induction l as [|[k' v'] t IH]; simpl; [discriminate|]. destruct (beq k' k) eqn:E.
  - intros H. inversion H; subst. apply beq_eq in E. subst. auto.
  - auto.
Qed.

Lemma do_retrans_A L d c : AInv L d -> AInv (L ++ snd (do_retrans d c)) (fst (do_retrans d c)).
Proof.
  intros HA. assert (Triv : AInv (L ++ []) d) by (rewrite app_nil_r; exact HA).
  destruct c as [key idx|p idx v4]; simpl.
  - destruct (svc_get key (d_svcs d)) as [ds|] eqn:Es; [|exact Triv].
    destruct (intf_get idx (d_intfs d)) as [intf|] eqn:Eg; [|exact Triv].
    destruct (memN idx (d_regs d)); [|exact Triv].
    destruct (is_nil _) eqn:En; [exact Triv|]. simpl.
    apply svc_get_in in Es. destruct (HA key ds Es) as [Hk Hst].
    intros k ds' Hin. apply svc_put_in in Hin as [E|Hin].
    + inversion E; subst k ds'. simpl. split; [exact Hk|]. intros idx' Hs. rewrite status_get_set in Hs.
      destruct (idx =? idx') eqn:Ei.
      * apply N.eqb_eq in Ei. subst idx'. apply announced_in_r. rewrite Hk, <- (intf_get_index _ _ _ Eg).
        apply opt_pk_in. exact En.
      * apply announced_in_l. apply Hst. exact Hs.
    + apply (AInv_mono L _ d HA). exact Hin.
  - destruct (intf_get idx (d_intfs d)); [|exact Triv]. destruct (family_enabled _ _); [|exact Triv]. apply AInv_mono. exact HA.
Qed.

Lemma add_interface_A L now d i : AInv L d -> AInv (L ++ snd (add_interface now d i)) (fst (add_interface now d i)).
Proof.
  intros HA. assert (Triv : AInv (L ++ []) d) by (rewrite app_nil_r; exact HA). unfold add_interface.
  destruct (match intf_get (i_index i) (d_intfs d) with Some m => _ | None => _ end) as [intfs' new_addr].
  destruct (negb new_addr); [exact Triv|].
  destruct (intf_get (i_index i) intfs') as [my_intf|] eqn:Eg; [|simpl; rewrite app_nil_r; exact HA].
  pose proof (intf_get_index _ _ _ Eg) as Hidx.
  match goal with |- context [fold_left ?f ?l ([], [], [])] => set (stepf := f); set (sv := l) end.
  assert (Hsv : sv = d_svcs d) by reflexivity.
  pose (P := fun (acc : list (bytes * dsvc) * list obs * list (N * rcmd)) =>
               forall key ds, In (key, ds) (fst (fst acc)) -> key = lower (s_fullname (ds_svc ds)) /\
                 forall idx, status_get idx (ds_status ds) = Announced -> announced_in (L ++ snd (fst acc)) key idx).
  assert (G : forall l acc, (forall kv, In kv l -> In kv (d_svcs d)) -> P acc -> P (fold_left stepf l acc)).
  { induction l as [|kv l IH]; intros [[svcs sent] resend] Hl HP; simpl; [exact HP|].
    apply IH; [intros x Hx; apply Hl; right; exact Hx|].
    destruct kv as [k0 ds0]. destruct (HA k0 ds0 (Hl _ (or_introl eq_refl))) as [Hk Hst].
    unfold P in *. simpl in HP |- *.
    destruct (ds_auto ds0) eqn:Eau.
    - destruct (fullname_insert (i_ip i) ds0) as [F1 F2].
      destruct (announce_on (ds_svc (svc_insert_ip (i_ip i) ds0)) my_intf (is_v4 (i_ip i))) as [p|] eqn:Ea; simpl.
      + intros key ds Hin. apply in_app_or in Hin as [Hin|[E|[]]].
        * destruct (HP key ds Hin) as [H1 H2]. split; [exact H1|]. intros idx Hs. rewrite app_assoc. apply announced_in_l. auto.
        * inversion E; subst key ds. simpl. rewrite F1. split; [exact Hk|]. intros idx Hs. rewrite status_get_set in Hs.
          destruct (i_index i =? idx) eqn:Ei.
          -- apply N.eqb_eq in Ei. subst idx. rewrite app_assoc. apply announced_in_r.
             exists (OSent (reroute (d_os d) my_intf p)). split; [simpl; auto|].
             exists (ds_svc (svc_insert_ip (i_ip i) ds0)), my_intf, (is_v4 (i_ip i)), p, (d_os d).
             rewrite F1. auto.
          -- rewrite F2 in Hs. apply announced_in_l. apply Hst. exact Hs.
      + intros key ds Hin. apply in_app_or in Hin as [Hin|[E|[]]]; [apply HP; exact Hin|].
        inversion E; subst key ds. simpl. rewrite F1. split; [exact Hk|]. intros idx Hs. rewrite status_get_set in Hs.
        destruct (i_index i =? idx); [discriminate|]. rewrite F2 in Hs. apply announced_in_l. apply Hst. exact Hs.
    - simpl. intros key ds Hin. apply in_app_or in Hin as [Hin|[E|[]]]; [apply HP; exact Hin|].
      inversion E; subst key ds. split; [exact Hk|]. intros idx Hs. apply announced_in_l. apply Hst. exact Hs. }
  assert (P0 : P ([], [], [])) by (intros key ds []).
  specialize (G sv ([], [], []) (fun kv H => H) P0).
  destruct (fold_left stepf sv ([], [], [])) as [[svcs' sent] resend]. unfold P in G. simpl in G |- *.
  intros key ds Hin. destruct (G key ds Hin) as [H1 H2]. split; [exact H1|]. intros idx Hs.
  rewrite app_assoc. apply announced_in_l. auto.
Qed.

Lemma del_interface_addr_A L d i : AInv L d -> AInv (L ++ snd (del_interface_addr d i)) (fst (del_interface_addr d i)).
Proof.
  intros HA. assert (Triv : AInv (L ++ []) d) by (rewrite app_nil_r; exact HA). unfold del_interface_addr.
  destruct (intf_get (i_index i) (d_intfs d)) as [m|]; [|exact Triv].
  destruct (has_ifaddr _ _); [|exact Triv].
  destruct (is_nil _).
  - destruct (holds_ip _ _); simpl; [rewrite app_nil_r; exact HA|]. apply AInv_mono. apply AInv_map_remove. exact HA.
  - destruct (negb (family_enabled _ _)); destruct (holds_ip _ _); simpl;
      try (rewrite app_nil_r; exact HA); apply AInv_mono; apply AInv_map_remove; exact HA.
Qed.

Lemma apply_A now tbl : forall L d, AInv L d ->
  AInv (L ++ snd (apply_intf_selections now d tbl)) (fst (apply_intf_selections now d tbl)).
Proof.
  intros L d. unfold apply_intf_selections. generalize (selection_marks ParamsResponder.apply_selection_default (d_sels d) tbl).
  intros marks.
  assert (G : forall tbl marks d out, AInv (L ++ out) d ->
    let r := fold_left (fun (acc : dstate * list obs) (im : iface * bool) =>
               let '(st, out) := acc in
               let '(st', o) := if snd im then add_interface now st (fst im) else del_interface_addr st (fst im) in
               (st', out ++ o)) (combine tbl marks) (d, out) in AInv (L ++ snd r) (fst r)).
  { clear. induction tbl as [|e tbl IH]; intros marks d out HA; simpl; [exact HA|].
    destruct marks as [|mk marks]; simpl; [exact HA|]. destruct mk.
    - pose proof (add_interface_A (L ++ out) now d e HA) as H. destruct (add_interface now d e) as [st' o]. simpl in H.
      apply IH. rewrite app_assoc. exact H.
    - pose proof (del_interface_addr_A (L ++ out) d e HA) as H. destruct (del_interface_addr d e) as [st' o]. simpl in H.
      apply IH. rewrite app_assoc. exact H. }
  intros HA. apply (G tbl marks d []). rewrite app_nil_r. exact HA.
Qed.

Lemma resolve_updated_svcs d u : d_svcs (fst (resolve_updated d u)) = d_svcs d.
Proof. unfold resolve_updated. destruct (fold_left _ _ ([], [], [])) as [[a b] o]. reflexivity. Qed.

Lemma rm_fold_svcs l : forall acc, d_svcs (fst (fold_left rm_step l acc)) = d_svcs (fst acc).
Proof.
  induction l as [|m l IH]; intros [st out]; simpl; [reflexivity|]. rewrite IH. unfold rm_step.
  match goal with |- context [resolve_updated ?st2 ?u] =>
    pose proof (resolve_updated_svcs st2 u) as H; destruct (resolve_updated st2 u) as [st3 ev2] end.
  simpl in *. exact H.
Qed.

Lemma check_A L now d : AInv L d -> AInv (L ++ snd (check_ip_changes now d)) (fst (check_ip_changes now d)).
Proof.
  intros HA. rewrite check_phases. cbn [fst snd].
  assert (Hmid : AInv L (fst (check_mid d))).
  { unfold check_mid. eapply AInv_svcs; [apply rm_fold_svcs|]. cbn [fst].
    generalize (set_intfs (kept_of d) (d_regs d) d), (AInv_svcs L d (set_intfs (kept_of d) (d_regs d) d) eq_refl HA).
    induction (dels_of d) as [|a l IH]; intros st Hst; simpl; [exact Hst|]. apply IH. apply AInv_map_remove. exact Hst. }
  rewrite !app_assoc. apply apply_A. apply AInv_mono. apply AInv_mono. exact Hmid.
Qed.

Lemma handle_dgram_svcs d g : d_svcs (fst (handle_dgram d g)) = d_svcs d.
Proof.
  unfold handle_dgram. destruct (intf_get _ _) as [intf|]; [|reflexivity]. destruct (negb _); [reflexivity|].
  destruct (decode _) as [msg0| | |]; try reflexivity. destruct (_ =? 0).
  - destruct (memN _ _); reflexivity.
  - unfold handle_response. destruct (negb (for_us d msg0)); [reflexivity|].
    destruct (fold_left _ _ (d_cache d, [], [])) as [[c found] changes].
    match goal with |- context [resolve_updated ?d0 ?u] =>
      pose proof (resolve_updated_svcs d0 u) as H; destruct (resolve_updated d0 u) as [d' evs] end.
    simpl in *. exact H.
Qed.

Lemma do_browse_svcs d ty : d_svcs (fst (do_browse d ty)) = d_svcs d.
Proof. unfold do_browse. destruct (fold_left _ _ (d_resolved d, [])) as [res out]. reflexivity. Qed.

Lemma do_call_A L now d c : AInv L d -> AInv (L ++ snd (do_call now d c)) (fst (do_call now d c)).
Proof.
  intros HA. destruct c as [ks|ks|s auto|key|secs|ty]; simpl do_call.
  - apply apply_A. exact HA.
  - apply apply_A. exact HA.
  - apply do_register_A. exact HA.
  - apply do_unregister_A. exact HA.
  - simpl. rewrite app_nil_r. exact HA.
  - apply AInv_mono. eapply AInv_svcs; [apply do_browse_svcs|exact HA].
Qed.

Lemma run_list_A {A} (f : dstate -> A -> dstate * list obs) :
  (forall L d x, AInv L d -> AInv (L ++ snd (f d x)) (fst (f d x))) ->
  forall l L d, AInv L d -> AInv (L ++ snd (run_list f l d)) (fst (run_list f l d)).
Proof.
  intros Hf. induction l as [|x l IH]; intros L d HA; [rewrite run_list_nil; simpl; rewrite app_nil_r; exact HA|].
  rewrite run_list_cons. cbn [fst snd]. rewrite app_assoc. apply IH. apply Hf. exact HA.
Qed.

Theorem iterate_A L d s : AInv L d -> AInv (L ++ snd (iterate d s)) (fst (iterate d s)).
Proof.
  intros HA. unfold iterate.
  set (d0 := match st_os s with Some tbl => _ | None => d end).
  assert (H0 : AInv L d0) by (subst d0; destruct (st_os s); exact HA).
  set (dgs := filter _ (st_dgrams s) ++ filter _ (st_dgrams s)).
  pose proof (run_list_A handle_dgram (fun L d g H => AInv_mono L _ _ (AInv_svcs L d _ (handle_dgram_svcs d g) H)) dgs L d0 H0) as H1.
  destruct (run_list handle_dgram dgs d0) as [d1 o1]. cbn [fst snd] in H1.
  pose proof (run_list_A (do_call (st_now s)) (fun L d c => do_call_A L (st_now s) d c) (st_calls s) _ d1 H1) as H2.
  destruct (run_list (do_call (st_now s)) (st_calls s) d1) as [d2 o2]. cbn [fst snd] in H2.
  set (due := filter _ (d_retrans d2)). set (rest := filter _ (d_retrans d2)).
  set (d2' := mkD (d_os d2) (d_intfs d2) (d_regs d2) (d_sels d2) (d_svcs d2) (d_cache d2) (d_browsed d2)
                  (d_resolved d2) (d_interval d2) (d_next_check d2) rest).
  assert (H2' : AInv ((L ++ o1) ++ o2) d2') by exact H2.
  pose proof (run_list_A (fun st (x : N * rcmd) => do_retrans st (snd x)) (fun L d x => do_retrans_A L d (snd x)) due _ d2' H2') as H3.
  destruct (run_list _ due d2') as [d3 o3]. cbn [fst snd] in H3.
  match goal with |- context [if d_interval d3 =? 0 then ?a else ?b] => set (chk := if d_interval d3 =? 0 then a else b) end.
  assert (D : AInv ((((L ++ o1) ++ o2) ++ o3) ++ snd chk) (fst chk)).
  { subst chk. destruct (d_interval d3 =? 0); [simpl; rewrite app_nil_r; exact H3|].
    destruct (d_next_check d3 =? 0); [simpl; rewrite app_nil_r; exact H3|].
    destruct (ParamsResponder.ip_check_due _ _); [|simpl; rewrite app_nil_r; exact H3].
    apply check_A. exact H3. }
  destruct chk as [d4 o4]. cbn [fst snd] in *. rewrite !app_assoc. exact D.
Qed.

(* everything emitted by a history *)
Fixpoint log_of (d : dstate) (steps : list step) : list obs :=
  match steps with [] => [] | s :: t => snd (iterate d s) ++ log_of (fst (iterate d s)) t end.

Theorem history_A steps : forall L d, AInv L d -> AInv (L ++ log_of d steps) (state_after d steps).
Proof.
  induction steps as [|s t IH]; intros L d HA; simpl; [rewrite app_nil_r; exact HA|].
  rewrite app_assoc. apply IH. apply iterate_A. exact HA.
Qed.

(* every record of every response in every reachable state belongs to a registered service that
   is Announced on the receiving interface, and an announcement of that service went out for
   that interface earlier in the history *)
Theorem answers_after_announcement t0 os0 steps g o :
  let d := state_after (initial_state t0 os0) steps in
  In o (snd (handle_dgram d g)) ->
  match o with
  | OSent p => exists intf p0,
      intf_get (dg_if g) (d_intfs d) = Some intf /\ p = reroute (d_os d) intf p0 /\
      Forall (fun r => exists k ds, In (k, ds) (d_svcs d) /\ status_get (dg_if g) (ds_status ds) = Announced /\
                                    ResponderJustProofs.svc_rec [] intf (ds_svc ds) r /\
                                    announced_in (log_of (initial_state t0 os0) steps) k (dg_if g))
             (p_answers p0 ++ p_additionals p0)
  | _ => True
  end.
Proof.
  intros d Hin. pose proof (daemon_answers_justified d g o Hin) as H. destruct o; auto.
  destruct H as (intf & p0 & H1 & H2 & H3). exists intf, p0. split; [exact H1|]. split; [exact H2|].
  eapply Forall_impl; [|exact H3]. intros r (k & ds & Hk & Hs & Hr). exists k, ds.
  split; [exact Hk|]. split; [exact Hs|]. split; [exact Hr|].
  assert (HA : AInv ([] ++ log_of (initial_state t0 os0) steps) d).
  { apply history_A. intros key ds0 []. }
  simpl in HA. destruct (HA k ds Hk) as [_ HA2]. apply HA2. exact Hs.
Qed.
