(* C04, follow-up chains at history level: an instance that is in pending_resolves always has a
   follow-up (Resolve) retransmission queued - after every iteration of every history.  With the
   schedule invariant (C04ScheduleProofs.v): that retransmission is try 1..3 and due within the
   next 500 ms.  This is the bookkeeping the follow-up clause of C04 rests on: add_pending_resolve
   starts a chain only for an instance that is not pending, so "pending without a queued Resolve"
   would mean no follow-up question ever again (the seeded change C04-m6 produces exactly that). *)
From Coq Require Import List NArith Bool Lia.
From Mdns Require Import Res Bytes Rec Wire Txt ParamsBrowser ParamsBrowserPinned Cache Browser C03Spec
  BrowserSpec BrowserProofs BrowserStepProofs SpecTrackProofs C04ScheduleProofs.
Import ListNotations.
Open Scope N_scope.

Definition queued (i : bytes) (r : list (N * rcmd)) : Prop := exists t n, In (t, RResolve i n) r.

(* during the retransmission pass the commands still to run count as queued *)
Definition PQr (s : st) (rest : list rcmd) : Prop :=
  forall i, mem i (s_pending s) = true -> queued i (s_retrans s) \/ exists n, In (RResolve i n) rest.

Definition PQ (s : st) : Prop := forall i, mem i (s_pending s) = true -> queued i (s_retrans s).

Lemma PQ_PQr s : PQ s <-> PQr s [].
Proof.
  split; intros H i Hi; [left; now apply H|]. destruct (H i Hi) as [A|[n []]]. exact A.
Qed.

Lemma queued_app i r l : queued i r -> queued i (r ++ l).
Proof. intros (t & n & H). exists t, n. apply in_app_iff. now left. Qed.

Lemma mem_set_remove_inv i x l : mem i (set_remove x l) = true -> mem i l = true.
Proof.
  unfold set_remove. intros H. apply mem_In in H. apply filter_In in H as [H _]. now apply mem_In.
Qed.

Lemma mem_snoc i x l : mem i (l ++ [x]) = true -> mem i l = true \/ i = x.
Proof. intros H. apply mem_In in H. apply in_app_iff in H as [H|[<-|[]]]; [left; now apply mem_In|now right]. Qed.

Lemma add_pending_PQr s now i rest : PQr s rest -> PQr (add_pending s now i) rest.
Proof.
  intros H j Hj. unfold add_pending in *. destruct (mem i (s_pending s)) eqn:E; [now apply H|].
  cbn [s_pending s_retrans] in *. apply mem_snoc in Hj as [Hj | ->].
  - destruct (H j Hj) as [A|A]; [left; now apply queued_app|now right].
  - left. exists (now + pending_wait), pending_first_try. apply in_app_iff. right. now left.
Qed.

Lemma mark_resolved_PQr s i rest : PQr s rest -> PQr (mark_resolved s i) rest.
Proof. intros H j Hj. unfold mark_resolved in *. cbn [s_pending s_retrans] in *. apply H. eapply mem_set_remove_inv; eauto. Qed.

Lemma fold_pending_PQr now rest l : forall s, PQr s rest -> PQr (fold_left (fun s0 i => add_pending s0 now i) l s) rest.
Proof. induction l as [|i l IH]; intros s H; simpl; [exact H|]. apply IH. now apply add_pending_PQr. Qed.

Lemma fold_mark_PQr rest l : forall s, PQr s rest -> PQr (fold_left mark_resolved l s) rest.
Proof. induction l as [|i l IH]; intros s H; simpl; [exact H|]. apply IH. now apply mark_resolved_PQr. Qed.

Lemma resolve_updated_PQr s now u rest : PQr s rest -> PQr (fst (resolve_updated s now u)) rest.
Proof.
  intros H. unfold resolve_updated. destruct u as [|x xs]; [exact H|].
  destruct (ru_types (s_cache s) now (s_q s) (x :: xs) (c_ptr (s_cache s)) (s_resolved s)) as [[[[o res] unres] rem] rset].
  cbn [fst]. apply fold_pending_PQr. apply fold_mark_PQr. exact H.
Qed.

Lemma handle_read_PQ ifs s now d : PQ s -> PQ (fst (handle_read ifs s now d)).
Proof.
  intros H. unfold handle_read. destruct (accepted_msg ifs d) as [m|]; [|exact H].
  unfold handle_response.
  destruct (hr_records (s_cache s) now (d_if d) (s_q s) (for_us (s_q s) (m_answers m))
              (m_answers m ++ m_authorities m ++ m_additionals m)) as [[c1 o1] ch].
  pose proof (resolve_updated_PQr (with_cache s c1) now (updated_of c1 ch) [] (proj1 (PQ_PQr _) H)) as H1.
  destruct (resolve_updated (with_cache s c1) now (updated_of c1 ch)) as [s2 o2]. cbn [fst] in *. now apply PQ_PQr.
Qed.

Lemma run_cmds_PQ {C} (f : st -> N -> C -> st * list out) now :
  (forall s c, PQ s -> PQ (fst (f s now c))) -> forall l s, PQ s -> PQ (fst (run_cmds f s now l)).
Proof.
  intros Hf l. induction l as [|c t IH]; intros s H; simpl; [exact H|].
  pose proof (Hf s c H) as H1. destruct (f s now c) as [s1 o1]. specialize (IH s1 H1).
  destruct (run_cmds f s1 now t) as [s2 o2]. exact IH.
Qed.

Lemma exec_call_PQ s now cl : PQ s -> PQ (fst (exec_call s now cl)).
Proof.
  intros H. destruct cl as [ty ch|ty|inst timeout|ch]; simpl.
  - unfold exec_browse. destruct (bm_get ty (c_ptr (s_cache s))) as [ptrs|]; [|exact H].
    destruct (qc_ptrs (s_cache s) now ty ch ptrs) as [[o res] unres]. cbn [fst].
    apply PQ_PQr. apply fold_pending_PQr. apply fold_mark_PQr. apply PQ_PQr. exact H.
  - unfold exec_stop. destruct (q_get ty (s_q s)); exact H.
  - unfold exec_verify. destruct (service_verify_queries (s_cache s) inst (Some (now + timeout))) as [c1 qs].
    destruct qs; cbn [fst]; [exact H|]. intros i Hi. cbn [s_pending s_retrans with_cache] in *.
    apply queued_app. now apply H.
  - exact H.
Qed.

Lemma exec_rcmd_PQr s now c rest : PQr s (c :: rest) -> PQr (fst (exec_rcmd s now c)) rest.
Proof.
  intros H. destruct c as [inst n|inst timeout]; simpl.
  - unfold exec_resolve.
    destruct (if has_ptr_to (s_cache s) inst then query_unresolved (s_cache s) inst else (false, [])) as [sent o].
    destruct (sent && retry_guard n max_try); cbn [fst]; intros j Hj; cbn [s_pending s_retrans] in *.
    + destruct (H j Hj) as [A|[m [E|A]]]; [left; now apply queued_app| |right; eauto].
      injection E as E1 E2. subst j. left. exists (now + resolve_wait), (retry_next n). apply in_app_iff. right. now left.
    + destruct (beq j inst) eqn:Ej.
      * apply beq_eq in Ej. subst j. rewrite mem_set_remove in Hj. discriminate.
      * apply mem_set_remove_inv in Hj. destruct (H j Hj) as [A|[m [E|A]]]; [now left| |right; eauto].
        injection E as E1 E2. subst j. rewrite beq_refl in Ej. discriminate.
  - unfold exec_verify. destruct (service_verify_queries (s_cache s) inst None) as [c1 qs].
    destruct qs; cbn [fst]; intros j Hj; cbn [s_pending s_retrans with_cache] in *;
      (destruct (H j Hj) as [A|[m [E|A]]]; [now left|discriminate|right; eauto]).
Qed.

Lemma run_rcmds_PQ now : forall l s, PQr s l -> PQ (fst (run_cmds exec_rcmd s now l)).
Proof.
  induction l as [|c t IH]; intros s H; simpl; [now apply PQ_PQr|].
  pose proof (exec_rcmd_PQr s now c t H) as H1. destruct (exec_rcmd s now c) as [s1 o1]. cbn [fst] in H1.
  specialize (IH s1 H1). destruct (run_cmds exec_rcmd s1 now t) as [s2 o2]. exact IH.
Qed.

Lemma run_retrans_PQ s now : PQ s -> PQ (fst (run_retrans s now)).
Proof.
  intros H. unfold run_retrans. apply run_rcmds_PQ. intros i Hi. cbn [s_pending s_retrans] in *.
  destruct (H i Hi) as (t & n & Hin). destruct (t <=? now) eqn:E.
  - right. exists n. apply in_map_iff. exists (t, RResolve i n). split; [reflexivity|]. apply filter_In. auto.
  - left. exists t, n. apply filter_In. split; [exact Hin|]. simpl. now rewrite E.
Qed.

Lemma resolve_hosts_PQ now names : forall s, PQ s -> PQ (fst (resolve_hosts s now names)).
Proof.
  induction names as [|h t IH]; intros s H; simpl; [exact H|].
  pose proof (resolve_updated_PQr s now (dedup (get_instances_on_host (s_cache s) h)) [] (proj1 (PQ_PQr _) H)) as H1.
  destruct (resolve_updated s now (dedup (get_instances_on_host (s_cache s) h))) as [s1 o1]. cbn [fst] in H1.
  specialize (IH s1 (proj2 (PQ_PQr _) H1)). destruct (resolve_hosts s1 now t) as [s2 o2]. exact IH.
Qed.

Theorem iterate_PQ ifs s it : PQ s -> PQ (fst (iterate ifs s it)).
Proof.
  intros H0. unfold iterate. set (now := i_now it).
  pose proof (run_cmds_PQ (handle_read ifs) now (fun s d => handle_read_PQ ifs s now d)
                (deliveries_in_order (i_dgrams it)) s H0) as A1.
  destruct (run_cmds (handle_read ifs) s now (deliveries_in_order (i_dgrams it))) as [s1 o1]. cbn [fst] in A1.
  pose proof (run_cmds_PQ exec_call now (fun s c => exec_call_PQ s now c) (i_calls it) s1 A1) as A2.
  destruct (run_cmds exec_call s1 now (i_calls it)) as [s2 o2]. cbn [fst] in A2.
  pose proof (run_retrans_PQ s2 now A2) as A3.
  destruct (run_retrans s2 now) as [s3 o3]. cbn [fst] in A3.
  destruct (refresh_all (s_cache s3) now (s_q s3)) as [c4 o4].
  unfold evict. destruct (evict_services (s_cache (with_cache s3 c4)) now) as [c5 ex].
  destruct (evict_addr c5 now) as [c6 names].
  assert (A4 : PQ (with_cache (with_cache s3 c4) c6)) by exact A3.
  pose proof (resolve_hosts_PQ now (dedup names) _ A4) as A5.
  destruct (resolve_hosts (with_cache (with_cache s3 c4) c6) now (dedup names)) as [s7 o7]. exact A5.
Qed.

(* all histories *)
Theorem pending_has_followup_queued ifs h : PQ (model_after ifs init_st h).
Proof.
  assert (G : forall h s, PQ s -> PQ (model_after ifs s h)).
  { induction h0 as [|it t IH]; intros s H; simpl; [exact H|]. apply IH. now apply iterate_PQ. }
  apply G. intros i Hi. discriminate.
Qed.

(* with the schedule invariant: a pending instance has a try 1..3 due within the next 500 ms *)
Theorem pending_followup_within_500 ifs h i :
  wf_history h = true -> h <> [] -> mem i (s_pending (model_after ifs init_st h)) = true ->
  exists t n, In (t, RResolve i n) (s_retrans (model_after ifs init_st h))
              /\ last_now h < t /\ t <= last_now h + 500 /\ 1 <= n /\ n <= 3.
Proof.
  intros Hwf Hne Hi. destruct (pending_has_followup_queued ifs h i Hi) as (t & n & Hin).
  pose proof (followup_schedule_invariant ifs h Hwf Hne) as Hs. rewrite Forall_forall in Hs.
  specialize (Hs _ Hin). unfold sched_p in Hs. simpl in Hs. exists t, n. tauto.
Qed.

(* ---- the bridge to the checker's follow-up clause ------------------------------------------------------------- *)
(* a try asks exactly the question the checker expects (BrowserSpec.expected_followup, judged on
   the same cache): (instance, ANY) while no SRV is cached, else (host, A) + (host, AAAA) for the
   first SRV target without address bucket, nothing when nothing is missing, when the name is not a
   valid instance name, or - fix 48ec5c0 - when no PTR record points to the instance *)
Theorem try_asks_expected s now inst n :
  snd (exec_resolve s now inst n)
  = match BrowserSpec.expected_followup (s_cache s) inst with
    | Some (nm, ty) => if ty =? TY_ANY then [OQuery [(nm, TY_ANY)]] else [OQuery [(nm, TY_A); (nm, TY_AAAA)]]
    | None => []
    end.
Proof.
  unfold exec_resolve, BrowserSpec.expected_followup, query_unresolved.
  destruct (negb (valid_instance_name inst)) eqn:Ev.
  - destruct (has_ptr_to (s_cache s) inst); reflexivity.
  - destruct (has_ptr_to (s_cache s) inst); simpl; [|reflexivity].
    destruct (bm_get inst (c_srv (s_cache s))) as [recs|].
    + destruct (find _ recs) as [e|]; simpl; [|reflexivity].
      destruct (retry_guard n max_try); reflexivity.
    + simpl. destruct (retry_guard n max_try); reflexivity.
Qed.
