(* C07, liveness pieces: a queued second announcement is SENT when it is due and the service is still
   announceable; a queue entry stays queued until it is due. *)
From Coq Require Import List NArith Bool Lia.
From Mdns Require Import Bytes Rec ParamsRegistry Names WireOut Registry RegistryDaemon RegistrySpec RegistryTrace
     RegistryParamsPinned RegistryProofs RegistryDaemonProofs RegistryLiftProofs RegistryHistoryProofs RegistrySilenceProofs.
Import ListNotations.
Open Scope N_scope.

(* the announcement attempt for family v4 succeeds: the service has an address on the interface in
   that family and needs no probing or all its records there are active *)
Definition announceable (s : svc) (itf : intf) (rg : registry) (v4 : bool) : Prop :=
  addrs_on_intf s itf v4 <> [] /\
  (s_probe s = false \/ Forall (fun r => in_active rg r = true) (announce_records rg s itf v4)).

Definition announcement_of (s : svc) (itf : intf) (rg : registry) (v4 : bool) : omsg :=
  mkOut true [] (ptr_rrs s dns_other_ttl (resolve_name rg (s_full s)) ++ map wire_rr (announce_records rg s itf v4)) [] [].

Definition reg_stable (rg rg' : registry) : Prop := rg_active rg' = rg_active rg /\ rg_changes rg' = rg_changes rg.

Lemma reg_stable_refl rg : reg_stable rg rg. Proof. split; reflexivity. Qed.
Lemma reg_stable_trans a b c : reg_stable a b -> reg_stable b c -> reg_stable a c.
Proof. intros [A1 A2] [B1 B2]. split; congruence. Qed.

Lemma announce_records_stable rg rg' s itf v4 : rg_changes rg' = rg_changes rg -> announce_records rg' s itf v4 = announce_records rg s itf v4.
Proof.
  intros E. unfold announce_records, srv_rec, txt_rec, addr_rec, with_change, resolve_name. rewrite E. reflexivity.
Qed.

Lemma in_active_stable rg rg' r : rg_active rg' = rg_active rg -> in_active rg' r = in_active rg r.
Proof. intros E. unfold in_active. rewrite E. reflexivity. Qed.

Lemma announceable_stable s itf rg rg' v4 : reg_stable rg rg' -> announceable s itf rg v4 -> announceable s itf rg' v4.
Proof.
  intros [A C] [Ha [Hp|Hf]]; split; try exact Ha; [left; exact Hp|right].
  rewrite (announce_records_stable rg rg' s itf v4 C). apply Forall_forall. intros r Hr.
  rewrite (in_active_stable rg rg' r A). exact (proj1 (Forall_forall _ _) Hf r Hr).
Qed.

Lemma announcement_of_stable s itf rg rg' v4 : reg_stable rg rg' -> announcement_of s itf rg' v4 = announcement_of s itf rg v4.
Proof. intros [A C]. unfold announcement_of, resolve_name. rewrite (announce_records_stable rg rg' s itf v4 C), C. reflexivity. Qed.

Lemma ipd_stable rg r svc start : reg_stable rg (fst (is_probing_done rg r svc start)).
Proof. unfold is_probing_done. destruct (in_active rg r); split; reflexivity. Qed.

Lemma probe_records_stable s start : forall recs rg, reg_stable rg (fst (probe_records rg s start recs)).
Proof.
  induction recs as [|r t IH]; intros rg; [apply reg_stable_refl|]. cbn [probe_records]. destruct (s_probe s); [|apply IH].
  pose proof (ipd_stable rg r (s_full s) start) as H1. destruct (is_probing_done rg r (s_full s) start) as [rg1 ok]. cbn [fst] in H1.
  specialize (IH rg1). destruct (probe_records rg1 s start t) as [rg2 ok2]. cbn [fst] in *. eapply reg_stable_trans; eassumption.
Qed.

Lemma probe_records_active s start : forall recs rg,
  (s_probe s = false \/ Forall (fun r => in_active rg r = true) recs) -> snd (probe_records rg s start recs) = true.
Proof.
  induction recs as [|r t IH]; intros rg H; [reflexivity|]. cbn [probe_records]. destruct (s_probe s) eqn:P.
  - destruct H as [H|H]; [discriminate|]. inversion H; subst. unfold is_probing_done. rewrite H2.
    specialize (IH rg (or_intror H3)). destruct (probe_records rg s start t) as [rg2 ok2]. cbn [snd] in *. rewrite IH. reflexivity.
  - apply IH. left. reflexivity.
Qed.

Lemma prepare_announce_stable s i rg v4 now js : reg_stable rg (fst (fst (prepare_announce s i rg v4 now js))).
Proof.
  unfold prepare_announce. destruct (addrs_on_intf s i v4); [apply reg_stable_refl|]. destruct (draw js) as [j js'].
  pose proof (probe_records_stable s (now + j) (announce_records rg s i v4) rg) as H.
  destruct (probe_records rg s (now + j) (announce_records rg s i v4)) as [rg' ok]. destruct ok; exact H.
Qed.

Lemma prepare_announce_sends s i rg v4 now js :
  announceable s i rg v4 -> snd (fst (prepare_announce s i rg v4 now js)) = Some (announcement_of s i rg v4).
Proof.
  intros [Ha Hp]. unfold prepare_announce. destruct (addrs_on_intf s i v4) eqn:EA; [contradiction|].
  destruct (draw js) as [j js'].
  pose proof (probe_records_active s (now + j) (announce_records rg s i v4) rg Hp) as H.
  destruct (probe_records rg s (now + j) (announce_records rg s i v4)) as [rg' ok]. cbn [snd] in H. subst ok. reflexivity.
Qed.

Lemma announce_both_stable s i rg now js : reg_stable rg (fst (fst (fst (announce_both s i rg now js)))).
Proof.
  unfold announce_both.
  pose proof (prepare_announce_stable s i rg true now js) as H1. destruct (prepare_announce s i rg true now js) as [[rg1 m4] js1].
  pose proof (prepare_announce_stable s i rg1 false now js1) as H2. destruct (prepare_announce s i rg1 false now js1) as [[rg2 m6] js2].
  cbn [fst] in *. eapply reg_stable_trans; eassumption.
Qed.

Lemma announce_both_sends s i rg now js v4 :
  announceable s i rg v4 ->
  In (OSend (if_index i) v4 Mcast (announcement_of s i rg v4)) (snd (fst (fst (announce_both s i rg now js)))) /\
  snd (fst (announce_both s i rg now js)) = true.
Proof.
  intros H. unfold announce_both.
  pose proof (prepare_announce_stable s i rg true now js) as S1.
  pose proof (prepare_announce_sends s i rg true now js) as P1.
  destruct (prepare_announce s i rg true now js) as [[rg1 m4] js1]. cbn [fst snd] in *.
  pose proof (prepare_announce_sends s i rg1 false now js1) as P2.
  destruct (prepare_announce s i rg1 false now js1) as [[rg2 m6] js2]. cbn [fst snd] in *. destruct v4.
  - rewrite (P1 H). split; [apply in_or_app; left; left; reflexivity|destruct m6; reflexivity].
  - rewrite (P2 (announceable_stable _ _ _ _ _ S1 H)), (announcement_of_stable _ _ _ _ _ S1).
    split; [apply in_or_app; right; left; reflexivity|destruct m4; reflexivity].
Qed.

(* ---- the due RegisterResend --------------------------------------------------------------------------------- *)

Definition svc_eqv (s s' : svc) : Prop := same_data s s' /\ s_probe s = s_probe s'.
Lemma svc_eqv_refl s : svc_eqv s s. Proof. split; [apply same_data_refl|reflexivity]. Qed.
Lemma svc_eqv_trans a b c : svc_eqv a b -> svc_eqv b c -> svc_eqv a c.
Proof. intros [A1 A2] [B1 B2]. split; [eapply same_data_trans; eassumption|congruence]. Qed.
Lemma svc_eqv_status i x s : svc_eqv s (set_status i x s). Proof. split; [apply same_data_status|reflexivity]. Qed.

Lemma announce_records_eqv rg s s' itf v4 : svc_eqv s s' -> announce_records rg s' itf v4 = announce_records rg s itf v4.
Proof.
  intros [(A & B & C & D & E & F & G) P]. unfold announce_records, srv_rec, txt_rec, addr_rec, addrs_on_intf.
  rewrite <- C, <- D, <- E, <- F, <- G. reflexivity.
Qed.

Lemma announceable_eqv s s' itf rg v4 : svc_eqv s s' -> announceable s itf rg v4 -> announceable s' itf rg v4.
Proof.
  intros Hq [Ha Hp]. pose proof (announce_records_eqv rg s s' itf v4 Hq) as ER. destruct Hq as [(A & B & C & D & E & F & G) P].
  split.
  - unfold addrs_on_intf in *. rewrite <- G. exact Ha.
  - rewrite <- P, ER. exact Hp.
Qed.

Lemma announcement_of_eqv s s' itf rg v4 : svc_eqv s s' -> announcement_of s' itf rg v4 = announcement_of s itf rg v4.
Proof.
  intros Hq. unfold announcement_of. rewrite (announce_records_eqv rg s s' itf v4 Hq).
  destruct Hq as [(A & B & C & D & E & F & G) P]. unfold ptr_rrs. rewrite <- A, <- B, <- C. reflexivity.
Qed.

Definition resend_ready (st : dstate) (full : bytes) (i : N) (s : svc) (itf : intf) (rg : registry) : Prop :=
  aget (lower full) (d_svcs st) = Some s /\ find_intf st i = Some itf /\ nget i (d_regs st) = Some rg.

Lemma find_intf_index st i itf : find_intf st i = Some itf -> if_index itf = i.
Proof. unfold find_intf. intros F. apply find_some in F as [_ F]. apply N.eqb_eq in F. exact F. Qed.

(* the command itself: the announcement goes out on its interface for every announceable family *)
Lemma register_resend_sends st full i now js s itf rg v4 :
  resend_ready st full i s itf rg -> announceable s itf rg v4 ->
  In (OSend i v4 Mcast (announcement_of s itf rg v4)) (snd (fst (register_resend st full i now js))).
Proof.
  intros (G & F & R) A. unfold register_resend. rewrite G, R, F.
  destruct (announce_both_sends s itf rg now js v4 A) as [Hin Hann].
  destruct (announce_both s itf rg now js) as [[[rg' os] ann] js']. cbn [fst snd] in *. subst ann. cbn [fst snd].
  apply in_or_app. left. rewrite <- (find_intf_index st i itf F). exact Hin.
Qed.

Lemma register_resend_keeps st full' i' now js full i s itf rg :
  resend_ready st full i s itf rg ->
  exists s1 rg1, resend_ready (fst (fst (register_resend st full' i' now js))) full i s1 itf rg1 /\ svc_eqv s s1 /\ reg_stable rg rg1.
Proof.
  intros (G & F & R). unfold register_resend.
  destruct (aget (lower full') (d_svcs st)) as [s0|] eqn:G0; [|exists s, rg; repeat split; try assumption; try apply same_data_refl].
  destruct (nget i' (d_regs st)) as [rg0|] eqn:R0; [|exists s, rg; repeat split; try assumption; try apply same_data_refl].
  destruct (find_intf st i') as [itf0|] eqn:F0; [|exists s, rg; repeat split; try assumption; try apply same_data_refl].
  pose proof (announce_both_stable s0 itf0 rg0 now js) as ST.
  destruct (announce_both s0 itf0 rg0 now js) as [[[rg' os] ann] js']. cbn [fst] in ST.
  assert (RR : exists rg1, nget i (nset i' rg' (d_regs st)) = Some rg1 /\ reg_stable rg rg1).
  { destruct (N.eq_dec i i') as [->|Hne].
    - rewrite nget_nset_same. exists rg'. split; [reflexivity|]. rewrite R in R0. inversion R0; subst. exact ST.
    - rewrite nget_nset_other by exact Hne. exists rg. split; [exact R|apply reg_stable_refl]. }
  destruct RR as (rg1 & R1 & S1).
  destruct ann; cbn [fst].
  - assert (SS : exists s1, aget (lower full) (sput (lower full') (set_status i' SAnnounced s0) (d_svcs st)) = Some s1 /\ svc_eqv s s1).
    { unfold sput. destruct (beq (lower full) (lower full')) eqn:B.
      - apply beq_eq in B. rewrite B. rewrite aget_aset_same. eexists. split; [reflexivity|].
        rewrite B in G. rewrite G in G0. inversion G0; subst. apply svc_eqv_status.
      - rewrite aget_aset_other; [exists s; split; [exact G|apply svc_eqv_refl]|]. intros E. rewrite E, beq_refl in B. discriminate. }
    destruct SS as (s1 & G1 & Q1). exists s1, rg1. split; [split; [exact G1|split; [exact F|exact R1]]|split; [exact Q1|exact S1]].
  - exists s, rg1. split; [split; [exact G|split; [exact F|exact R1]]|split; [apply svc_eqv_refl|exact S1]].
Qed.

Lemma run_due_sends_second now full i v4 : forall due st js t s itf rg,
  In (t, RegisterResend full i) due -> resend_ready st full i s itf rg -> announceable s itf rg v4 ->
  In (OSend i v4 Mcast (announcement_of s itf rg v4)) (snd (fst (run_due st due now js))).
Proof.
  induction due as [|[t0 c] due IH]; intros st js t s itf rg Hin RD A; [contradiction|]. cbn [run_due]. destruct Hin as [E|Hin].
  - inversion E; subst. pose proof (register_resend_sends st full i now js s itf rg v4 RD A) as H.
    destruct (register_resend st full i now js) as [[st1 os1] js1]. cbn [fst snd] in H.
    destruct (run_due st1 due now js1) as [[st2 os2] js2]. cbn [fst snd]. apply in_or_app. left. exact H.
  - destruct c.
    + destruct (register_resend_keeps st full0 ifidx now js full i s itf rg RD) as (s1 & rg1 & RD1 & Q & S).
      destruct (register_resend st full0 ifidx now js) as [[st1 os1] js1]. cbn [fst] in RD1.
      assert (A1 : announceable s1 itf rg1 v4) by (apply (announceable_eqv s s1); [exact Q|apply (announceable_stable _ _ rg); assumption]).
      specialize (IH st1 js1 t s1 itf rg1 Hin RD1 A1). destruct (run_due st1 due now js1) as [[st2 os2] js2]. cbn [fst snd] in *.
      apply in_or_app. right. rewrite (announcement_of_eqv s s1 itf rg1 v4 Q), (announcement_of_stable s itf rg rg1 v4 S) in IH. exact IH.
    + specialize (IH st js t s itf rg Hin RD A). destruct (run_due st due now js) as [[st2 os2] js2]. cbn [fst snd] in *.
      apply in_or_app. right. exact IH.
Qed.

(* THE SECOND ANNOUNCEMENT IS SENT: a RegisterResend(full, i) that is due, for a service that is still
   registered on an interface that still exists with its registry, goes out for every family in which
   the service is (still) announceable there - as the message announcement_of *)
Theorem due_second_announcement_sent st now js t full i s itf rg v4 :
  In (t, RegisterResend full i) (d_retrans st) -> t <= now ->
  resend_ready st full i s itf rg -> announceable s itf rg v4 ->
  In (OSend i v4 Mcast (announcement_of s itf rg v4)) (snd (fst (retransmit st now js))).
Proof.
  intros Hin Ht RD A. unfold retransmit.
  apply (run_due_sends_second now full i v4 _ _ js t s itf rg); [apply filter_In; split; [exact Hin|apply N.leb_le; exact Ht]| |exact A].
  destruct RD as (G & F & R). repeat split; assumption.
Qed.

Lemma announcement_of_is_announcement s itf rg v4 : is_announcement (announcement_of s itf rg v4) = true.
Proof.
  assert (G : is_goodbye (announcement_of s itf rg v4) = false).
  { unfold is_goodbye, announcement_of. cbn [o_resp o_an o_ar]. unfold ptr_rrs. destruct ttl_pinned as (_ & E & _). rewrite E.
    cbn [app forallb r_ttl]. change (4500 =? 0) with false. rewrite andb_false_r. reflexivity. }
  unfold is_announcement. rewrite G. unfold announcement_of. cbn [o_resp o_an negb andb].
  apply andb_true_iff. split.
  - unfold ptr_rrs. cbn [app existsb r_type]. rewrite N.eqb_refl. reflexivity.
  - apply existsb_exists. exists (wire_rr (srv_rec rg s)). split.
    + apply in_or_app. right. unfold announce_records. left. reflexivity.
    + unfold wire_rr, srv_rec. cbn [r_type]. rewrite with_change_rr. cbn [p_rr r_type]. apply N.eqb_refl.
Qed.

(* ---- a queue entry stays queued until it is due ----------------------------------------------------------- *)

Lemma exec_call_keeps st c now js e :
  In e (d_retrans st) -> In e (d_retrans (fst (fst (fst (exec_call st c now js))))) \/ d_dead (fst (fst (fst (exec_call st c now js)))) = true.
Proof.
  intros H. destruct c; cbn [exec_call].
  - destruct (register_service_retrans st s now js) as (l & E & _). destruct (register_service st s now js) as [[st1 os1] js1].
    cbn [fst] in *. left. rewrite E. apply in_or_app. left. exact H.
  - destruct (unregister_retrans st (lower name) ch now) as (l & E & _). destruct (unregister st (lower name) ch now) as [st1 os1].
    cbn [fst] in *. left. rewrite E. apply in_or_app. left. exact H.
  - left. exact H.
  - right. reflexivity.
  - destruct (select_interfaces_retrans st enable kinds now js) as (l & E & _). destruct (select_interfaces st enable kinds now js) as [[st1 os1] js1].
    cbn [fst] in *. left. rewrite E. apply in_or_app. left. exact H.
  - left. exact H.
Qed.

Lemma register_service_dead st s now js : d_dead (fst (fst (register_service st s now js))) = d_dead st.
Proof.
  unfold register_service. destruct (register_intfs (d_intfs st) (auto_addrs st s) (d_regs st) now js) as [[[[s' regs] os] anns] js']. reflexivity.
Qed.
Lemma add_interface_dead st r now js : d_dead (fst (fst (add_interface st r now js))) = d_dead st.
Proof.
  unfold add_interface. destruct (find_intf st (os_index r)) as [itf0|].
  - destruct (has_addr itf0 (os_ip r)); [reflexivity|].
    match goal with |- context [add_row_services ?a ?b ?c ?d now js] => destruct (add_row_services a b c d now js) as [[[[svcs rg] os] rt] js'] end. reflexivity.
  - match goal with |- context [add_row_services ?a ?b ?c ?d now js] => destruct (add_row_services a b c d now js) as [[[[svcs rg] os] rt] js'] end. reflexivity.
Qed.
Lemma del_interface_addr_dead st r : d_dead (fst (del_interface_addr st r)) = d_dead st.
Proof.
  unfold del_interface_addr. destruct (find_intf st (os_index r)); [|reflexivity]. destruct (negb (has_addr i (os_ip r))); reflexivity.
Qed.
Lemma apply_rows_dead now : forall rows st js, d_dead (fst (fst (apply_rows st rows now js))) = d_dead st.
Proof.
  induction rows as [|r t IH]; intros st js; [reflexivity|]. cbn [apply_rows]. destruct (row_selected (d_sel st) r).
  - pose proof (add_interface_dead st r now js) as E. destruct (add_interface st r now js) as [[st1 os1] js1]. cbn [fst] in E.
    specialize (IH st1 js1). destruct (apply_rows st1 t now js1) as [[st2 os2] js2]. cbn [fst] in *. congruence.
  - pose proof (del_interface_addr_dead st r) as E. destruct (del_interface_addr st r) as [st1 os1]. cbn [fst] in E.
    specialize (IH st1 js). destruct (apply_rows st1 t now js) as [[st2 os2] js2]. cbn [fst] in *. congruence.
Qed.
Lemma exec_call_dead st c now js : d_dead st = true -> d_dead (fst (fst (fst (exec_call st c now js)))) = true.
Proof.
  intros H. destruct c; cbn [exec_call].
  - pose proof (register_service_dead st s now js) as E. destruct (register_service st s now js) as [[st1 os1] js1]. cbn [fst] in *. congruence.
  - unfold unregister. destruct (aget (lower name) (d_svcs st)); exact H.
  - exact H.
  - reflexivity.
  - unfold select_interfaces. match goal with |- context [apply_rows ?a ?b now js] => pose proof (apply_rows_dead now b a js) as E; destruct (apply_rows a b now js) as [[st1 os1] js1] end.
    cbn [fst] in *. rewrite E. exact H.
  - exact H.
Qed.
Lemma exec_calls_dead now : forall cs st js, d_dead st = true -> d_dead (fst (fst (exec_calls st cs now js))) = true.
Proof.
  induction cs as [|c t IH]; intros st js H; [exact H|]. cbn [exec_calls].
  pose proof (exec_call_dead st c now js H) as H1. destruct (exec_call st c now js) as [[[st1 os1] js1] stop]. cbn [fst] in H1.
  destruct stop; [exact H1|]. specialize (IH st1 js1 H1). destruct (exec_calls st1 t now js1) as [[st2 os2] js2]. exact IH.
Qed.

Lemma exec_calls_keeps now : forall cs st js e,
  In e (d_retrans st) -> In e (d_retrans (fst (fst (exec_calls st cs now js)))) \/ d_dead (fst (fst (exec_calls st cs now js))) = true.
Proof.
  induction cs as [|c t IH]; intros st js e H; [left; exact H|]. cbn [exec_calls].
  pose proof (exec_call_keeps st c now js e H) as H1. destruct (exec_call st c now js) as [[[st1 os1] js1] stop]. cbn [fst] in H1.
  destruct stop; [exact H1|]. destruct H1 as [H1|D1].
  - specialize (IH st1 js1 e H1). destruct (exec_calls st1 t now js1) as [[st2 os2] js2]. exact IH.
  - right. pose proof (exec_calls_dead now t st1 js1 D1) as D2. destruct (exec_calls st1 t now js1) as [[st2 os2] js2]. exact D2.
Qed.

(* an entry that is not yet due is still in the queue after an iteration that leaves the daemon running *)
Theorem queue_entry_persists st it st' os js e :
  iterate st it = (st', os, Running, js) -> In e (d_retrans st) -> it_now it < fst e -> In e (d_retrans st').
Proof.
  unfold iterate. destruct (d_dead st); [discriminate|]. set (now := it_now it). intros H Hin Hlt.
  pose proof (handle_dgrams_retrans now (filter (fun g => g_v4 g) (it_dgrams it) ++ filter (fun g => negb (g_v4 g)) (it_dgrams it)) st (it_jitter it)) as Q1.
  destruct (handle_dgrams st _ now (it_jitter it)) as [[st1 os1] js1]. cbn [fst] in Q1.
  assert (Hin1 : In e (d_retrans st1)) by (rewrite Q1; exact Hin).
  pose proof (exec_calls_keeps now (it_calls it) st1 js1 e Hin1) as Q2.
  destruct (exec_calls st1 (it_calls it) now js1) as [[st2 os2] js2]. cbn [fst] in Q2.
  destruct (d_dead st2) eqn:D2; [destruct (cut_at_panic (os1 ++ os2)) as [o p]; destruct p; discriminate|].
  destruct Q2 as [Q2|Q2]; [|discriminate].
  pose proof (retransmit_retrans st2 now js2) as Q3. destruct (retransmit st2 now js2) as [[st3 os3] js3]. cbn [fst] in Q3.
  destruct (probing_intfs_retrans now (d_intfs st3) st3 js3) as (l & E & _). unfold probing_handler in H.
  destruct (probing_intfs (d_intfs st3) st3 now js3) as [[st4 os4] js4]. cbn [fst] in E.
  destruct (cut_at_panic (os1 ++ os2 ++ os3 ++ os4)) as [o p]. destruct p; [discriminate|]. inversion H; subst.
  rewrite E. apply in_or_app. left. rewrite Q3. apply filter_In. split; [exact Q2|]. apply negb_true_iff, N.leb_gt. exact Hlt.
Qed.

(* ---- the completion step: a waiting service whose records are active is announced ------------------------ *)

Lemma aget_sput_other k k0 v (l : list (bytes * svc)) : k <> k0 -> aget k (sput k0 v l) = aget k l.
Proof. intros H. unfold sput. apply aget_aset_other. exact H. Qed.

(* once announced on the interface, a service stays announced through the rest of the pass *)
Lemma announce_waiting_keeps_announced itf now m : forall waiting rg svcs js k,
  (exists s1, aget k svcs = Some s1 /\ announced_on (if_index itf) s1 = true) ->
  exists s2, aget k (snd (fst (fst (fst (announce_waiting waiting itf rg svcs now js m))))) = Some s2 /\ announced_on (if_index itf) s2 = true.
Proof.
  induction waiting as [|w0 t IH]; intros rg svcs js k H; [exact H|]. cbn [announce_waiting].
  destruct (aget (lower w0) svcs) as [s0|] eqn:G0; [|apply IH; exact H].
  destruct (announced_on (if_index itf) s0) eqn:A0; [apply IH; exact H|].
  destruct (announce_both s0 itf rg now js) as [[[rg1 os] ann] js1]. destruct ann.
  - assert (H1 : exists s1, aget k (sput (lower w0) (set_status (if_index itf) SAnnounced s0) svcs) = Some s1 /\ announced_on (if_index itf) s1 = true).
    { destruct (beq k (lower w0)) eqn:B.
      - apply beq_eq in B. subst k. unfold sput. rewrite aget_aset_same. eexists. split; [reflexivity|].
        unfold announced_on, set_status. cbn [s_status]. rewrite nget_nset_same. reflexivity.
      - rewrite aget_sput_other; [exact H|]. intros E. rewrite E, beq_refl in B. discriminate. }
    specialize (IH rg1 _ js1 k H1).
    destruct (announce_waiting t itf rg1 (sput (lower w0) (set_status (if_index itf) SAnnounced s0) svcs) now js1 m) as [[[[rg2 svcs2] os2] rt2] js2]. exact IH.
  - specialize (IH rg1 svcs js1 k H). destruct (announce_waiting t itf rg1 svcs now js1 m) as [[[[rg2 svcs2] os2] rt2] js2]. exact IH.
Qed.

(* announce_waiting: a waiting name w whose service is registered, not yet announced on the interface
   and announceable in family v4 under the registry the pass has reached: the announcement goes out,
   the status becomes Announced and the second announcement is queued for now + 1000.
   (Services announced earlier in the same pass only add probes to the registry: reg_stable.) *)
Lemma announce_waiting_completes itf now m v4 : forall waiting rg svcs js w s,
  In w waiting -> aget (lower w) svcs = Some s -> announced_on (if_index itf) s = false ->
  announceable s itf rg v4 ->
  let '(_, svcs2, os, rt, _) := announce_waiting waiting itf rg svcs now js m in
  In (OSend (if_index itf) v4 Mcast (announcement_of s itf rg v4)) os /\
  (exists s2, aget (lower w) svcs2 = Some s2 /\ announced_on (if_index itf) s2 = true) /\
  In (now + 1000, RegisterResend (s_full s) (if_index itf)) rt.
Proof.
  induction waiting as [|w0 t IH]; intros rg svcs js w s Hin G NA A; [contradiction|]. cbn [announce_waiting].
  destruct (beq (lower w0) (lower w)) eqn:B.
  - (* this entry is (a spelling of) our name: it is announced here *)
    apply beq_eq in B. rewrite B, G, NA.
    destruct (announce_both_sends s itf rg now js v4 A) as [Hs Hann].
    destruct (announce_both s itf rg now js) as [[[rg1 os] ann] js1]. cbn [fst snd] in Hs, Hann. subst ann.
    pose proof (announce_waiting_keeps_announced itf now m t rg1 (sput (lower w) (set_status (if_index itf) SAnnounced s) svcs) js1 (lower w)) as K.
    destruct (announce_waiting t itf rg1 (sput (lower w) (set_status (if_index itf) SAnnounced s) svcs) now js1 m) as [[[[rg2 svcs2] os2] rt2] js2].
    split; [apply in_or_app; left; exact Hs|]. split.
    + apply K. unfold sput. rewrite aget_aset_same. eexists. split; [reflexivity|]. unfold announced_on, set_status. cbn [s_status]. rewrite nget_nset_same. reflexivity.
    + left. destruct (announce_repeat_pinned now) as [-> _]. reflexivity.
  - (* another entry first *)
    assert (Hne : lower w <> lower w0) by (intros E; rewrite E, beq_refl in B; discriminate).
    assert (Hin' : In w t) by (destruct Hin as [->|H]; [rewrite beq_refl in B; discriminate|exact H]).
    destruct (aget (lower w0) svcs) as [s0|] eqn:G0; [|apply (IH rg svcs js w s Hin' G NA A)].
    destruct (announced_on (if_index itf) s0); [apply (IH rg svcs js w s Hin' G NA A)|].
    pose proof (announce_both_stable s0 itf rg now js) as ST.
    destruct (announce_both s0 itf rg now js) as [[[rg1 os] ann] js1]. cbn [fst] in ST.
    assert (A1 : announceable s itf rg1 v4) by (apply (announceable_stable _ _ rg); assumption).
    destruct ann.
    + assert (G1 : aget (lower w) (sput (lower w0) (set_status (if_index itf) SAnnounced s0) svcs) = Some s) by (rewrite aget_sput_other; assumption).
      specialize (IH rg1 _ js1 w s Hin' G1 NA A1).
      destruct (announce_waiting t itf rg1 (sput (lower w0) (set_status (if_index itf) SAnnounced s0) svcs) now js1 m) as [[[[rg2 svcs2] os2] rt2] js2].
      destruct IH as (I1 & I2 & I3). rewrite (announcement_of_stable s itf rg rg1 v4 ST) in I1.
      split; [apply in_or_app; right; apply in_or_app; right; exact I1|]. split; [exact I2|right; exact I3].
    + specialize (IH rg1 svcs js1 w s Hin' G NA A1).
      destruct (announce_waiting t itf rg1 svcs now js1 m) as [[[[rg2 svcs2] os2] rt2] js2].
      destruct IH as (I1 & I2 & I3). rewrite (announcement_of_stable s itf rg rg1 v4 ST) in I1.
      split; [apply in_or_app; right; exact I1|]. split; [exact I2|exact I3].
Qed.

(* THE COMPLETION STEP of the probing handler on one interface: the pass over the interface's registry
   (probe_step) finishes probes whose waiting list names w; if the service registered under w is not
   yet announced there and is announceable in family v4 under the registry after that pass, the
   announcement is sent in this very iteration's probing pass, and in the state after the interface's
   micro-step (Model/RegistryTrace.v, st_probing) the service is Announced on the interface and its
   second announcement is queued for now + 1000 *)
Theorem probing_pass_completes itf t st now js rg rg1 qs evs waiting w s v4 :
  nget (if_index itf) (d_regs st) = Some rg -> probe_step rg now = (rg1, qs, evs, waiting) ->
  In w waiting -> aget (lower w) (d_svcs st) = Some s -> announced_on (if_index itf) s = false ->
  announceable s itf rg1 v4 ->
  In (OSend (if_index itf) v4 Mcast (announcement_of s itf rg1 v4)) (snd (fst (probing_intfs (itf :: t) st now js))) /\
  match st_probing (itf :: t) st now js with
  | mid :: _ => (exists s2, aget (lower w) (d_svcs mid) = Some s2 /\ announced_on (if_index itf) s2 = true) /\
                In (now + 1000, RegisterResend (s_full s) (if_index itf)) (d_retrans mid)
  | [] => False
  end.
Proof.
  intros R PS Hin G NA A. cbn [probing_intfs st_probing]. rewrite R, PS.
  pose proof (announce_waiting_completes itf now (d_mon st) v4 waiting rg1 (d_svcs st) js w s Hin G NA A) as H.
  destruct (announce_waiting waiting itf rg1 (d_svcs st) now js (d_mon st)) as [[[[rg2 svcs2] os2] rt2] js2].
  destruct H as (H1 & H2 & H3).
  match goal with |- context [probing_intfs t ?s0 now js2] => destruct (probing_intfs t s0 now js2) as [[st2 os3] js3] end.
  cbn [fst snd d_svcs d_retrans]. split.
  - apply in_or_app. right. apply in_or_app. right. apply in_or_app. left. exact H1.
  - split; [exact H2|apply in_or_app; right; exact H3].
Qed.
