(* C04 at the level of one response message, for every state whose cache satisfies the C03
   invariant (hence for every reachable state, C03_cache_invariant): a message that leaves an
   instance of a browsed type complete (PTR, SRV and an address of the SRV's host with more than
   one second left) and cached a new (or revived) record of it yields ServiceResolved for it in
   that handle_response - exactly one per browsed type outside the class "PTR variants". *)
From Coq Require Import List NArith Bool Lia PeanoNat.
From Mdns Require Import Res Bytes Rec Wire Txt ParamsBrowser Cache Browser C03Spec BrowserSpec BrowserKnown
  CacheProofs CacheInvProofs BrowserProofs BrowserStepProofs SpecTrackProofs C05SafetyProofs.
Import ListNotations.
Open Scope N_scope.

Definition only_found (x : out) : Prop := match x with OEvt _ (EFound _ _) => True | _ => False end.

Lemma hr_records_found_only now ifx q fu rs : forall c, Forall only_found (snd (fst (hr_records c now ifx q fu rs))).
Proof.
  induction rs as [|r rest IH]; intros c; simpl; [constructor|].
  destruct (add_or_update c now ifx r fu) as [c1 res].
  specialize (IH c1). destruct (hr_records c1 now ifx q fu rest) as [[c2 o2] ch2]. simpl in *.
  destruct res as [[e [|]]|]; simpl; try assumption.
  destruct ((e_type e =? TY_PTR) && found_ttl_guard (e_ttl e)); simpl; [|assumption].
  destruct (q_get (e_name e) q); simpl; [constructor; [exact I|assumption]|assumption].
Qed.

Section Message.
  Variable Lf : list dlv.
  Hypothesis Hvar : known_ptr_variant Lf = false.
  Hypothesis Htgt : known_srv_targets Lf = false.
  Hypothesis Hnames : ptr_names_ok Lf = true.

  (* strongly alive instances resolve (the converse of invalid_not_alive) *)
  Lemma alive_is_valid L c now ty ptrs p :
    Inv L c -> incl L Lf -> In (ty, ptrs) (c_ptr c) -> In p ptrs ->
    alive_strong c now ty (alias_of (e_rr p)) = true ->
    is_valid (resolve_from_cache c now ty (alias_of (e_rr p))) = true.
  Proof.
    intros HI Hsub Hb Hp Ha.
    destruct (is_valid (resolve_from_cache c now ty (alias_of (e_rr p)))) eqn:E; [reflexivity|].
    rewrite (invalid_not_alive Lf Htgt Hnames L c HI Hsub now ty ptrs p Hb Hp E) in Ha. discriminate.
  Qed.

  Definition is_resolved_for (ch : N) (ty inst : bytes) (x : out) : bool :=
    match x with
    | OEvt c (EResolved r) => (c =? ch) && beq (rs_ty r) ty && beq (rs_name r) inst
    | _ => false
    end.

  Definition count_resolved ch ty inst (o : list out) : nat := length (filter (is_resolved_for ch ty inst) o).

  Lemma count_app ch ty inst a b :
    count_resolved ch ty inst (a ++ b) = (count_resolved ch ty inst a + count_resolved ch ty inst b)%nat.
  Proof. unfold count_resolved. now rewrite filter_app, app_length. Qed.

  Lemma rs_fields c now ty inst :
    rs_ty (resolve_from_cache c now ty inst) = ty /\ rs_name (resolve_from_cache c now ty inst) = inst.
  Proof. split; reflexivity. Qed.

  (* the loop over one type emits at most one ServiceResolved per PTR record of the instance *)
  Lemma ru_ptrs_count c now ty ch updated ch0 ty0 inst : forall ptrs rset,
    (count_resolved ch0 ty0 inst (fst (fst (fst (fst (ru_ptrs c now ty ch updated ptrs rset)))))
     <= length (filter (fun p => beq (alias_of (e_rr p)) inst) ptrs))%nat.
  Proof.
    induction ptrs as [|p rest IH]; intros rset; simpl; [apply le_n|].
    destruct (negb (expires_soon p now) && mem (alias_of (e_rr p)) updated).
    - destruct (is_valid (resolve_from_cache c now ty (alias_of (e_rr p)))).
      + specialize (IH rset). destruct (ru_ptrs c now ty ch updated rest rset) as [[[[o res] unres] rem] rset'].
        simpl in *. unfold count_resolved in *. simpl.
        destruct (ch =? ch0), (beq ty ty0), (beq (alias_of (e_rr p)) inst); simpl; lia.
      + specialize (IH rset). destruct (ru_ptrs c now ty ch updated rest rset) as [[[[o res] unres] rem] rset'].
        simpl in *. destruct (beq (alias_of (e_rr p)) inst); simpl; lia.
    - specialize (IH rset). destruct (beq (alias_of (e_rr p)) inst); simpl; lia.
  Qed.

  Lemma ru_ptrs_count_other c now ty ch updated ch0 ty0 inst : forall ptrs rset,
    beq ty ty0 = false ->
    count_resolved ch0 ty0 inst (fst (fst (fst (fst (ru_ptrs c now ty ch updated ptrs rset))))) = 0%nat.
  Proof.
    induction ptrs as [|p rest IH]; intros rset Hne; simpl; [reflexivity|].
    destruct (negb (expires_soon p now) && mem (alias_of (e_rr p)) updated); [|now apply IH].
    destruct (is_valid (resolve_from_cache c now ty (alias_of (e_rr p)))).
    - specialize (IH rset Hne). destruct (ru_ptrs c now ty ch updated rest rset) as [[[[o res] unres] rem] rset'].
      simpl in *. unfold count_resolved in *. simpl. rewrite Hne, andb_false_r. simpl. exact IH.
    - specialize (IH rset Hne). destruct (ru_ptrs c now ty ch updated rest rset) as [[[[o res] unres] rem] rset'].
      simpl in *. exact IH.
  Qed.

  Lemma ru_types_count c now q updated ch0 ty0 inst : forall ptr rset,
    NoDup (map fst ptr) ->
    (count_resolved ch0 ty0 inst (fst (fst (fst (fst (ru_types c now q updated ptr rset)))))
     <= match bm_get ty0 ptr with
        | Some b => length (filter (fun p => beq (alias_of (e_rr p)) inst) b)
        | None => 0
        end)%nat.
  Proof.
    induction ptr as [|[ty ptrs] rest IH]; intros rset ND; simpl; [apply le_n|].
    inversion ND as [|? ? Hnotin ND']; subst.
    destruct (q_get ty q) as [ch|].
    - pose proof (ru_ptrs_count c now ty ch updated ch0 ty0 inst ptrs rset) as H1.
      pose proof (ru_ptrs_count_other c now ty ch updated ch0 ty0 inst ptrs rset) as H1'.
      destruct (ru_ptrs c now ty ch updated ptrs rset) as [[[[o1 res1] un1] rem1] rset1]. simpl in H1, H1'.
      specialize (IH rset1 ND').
      destruct (ru_types c now q updated rest rset1) as [[[[o2 res2] un2] rem2] rset2]. simpl in *.
      rewrite count_app. destruct (beq ty0 ty) eqn:E.
      + apply beq_eq in E. subst ty0.
        assert (bm_get ty rest = None).
        { destruct (bm_get ty rest) eqn:Eg; [|reflexivity]. exfalso. apply Hnotin.
          apply bm_get_In in Eg. apply in_map_iff. now exists (ty, b). }
        rewrite H in IH. lia.
      + rewrite H1' by (rewrite beq_sym; exact E). simpl. exact IH.
    - destruct (beq ty0 ty) eqn:E; [|now apply IH].
      apply beq_eq in E. subst ty0.
      assert (bm_get ty rest = None).
      { destruct (bm_get ty rest) eqn:Eg; [|reflexivity]. exfalso. apply Hnotin.
        apply bm_get_In in Eg. apply in_map_iff. now exists (ty, b). }
      specialize (IH rset ND'). rewrite H in IH. lia.
  Qed.

  Lemma filter_none {A} (f : A -> bool) l : (forall x, In x l -> f x = false) -> filter f l = [].
  Proof.
    induction l as [|x l IH]; intros H; simpl; [reflexivity|].
    rewrite (H x (or_introl eq_refl)). apply IH. intros y Hy. apply H. now right.
  Qed.

  Lemma notify_removal_count q ex ch ty inst : count_resolved ch ty inst (notify_removal q ex) = 0%nat.
  Proof.
    unfold count_resolved. rewrite filter_none; [reflexivity|].
    intros x Hx. unfold notify_removal in Hx. apply in_flat_map in Hx as [tc [_ Hx]].
    apply in_map_iff in Hx as [i [<- _]]. reflexivity.
  Qed.

  (* uniqueness: one handle_response emits at most one ServiceResolved per (channel, type, instance) *)
  Lemma resolve_updated_at_most_one L s now updated ch ty inst :
    Inv L (s_cache s) -> incl L Lf ->
    (count_resolved ch ty inst (snd (resolve_updated s now updated)) <= 1)%nat.
  Proof.
    intros HI Hsub. unfold resolve_updated. destruct updated as [|u us]; [apply le_0_n|].
    pose proof (ru_types_count (s_cache s) now (s_q s) (u :: us) ch ty inst (c_ptr (s_cache s)) (s_resolved s)
                  (Inv_nodup _ _ KPtr HI)) as H.
    destruct (ru_types (s_cache s) now (s_q s) (u :: us) (c_ptr (s_cache s)) (s_resolved s))
      as [[[[o res] unres] rem] rset]. simpl in *.
    rewrite count_app, notify_removal_count, Nat.add_0_r.
    eapply Nat.le_trans; [exact H|].
    destruct (bm_get ty (c_ptr (s_cache s))) as [b|] eqn:Eb; [|apply le_0_n].
    (* two PTR records ty -> inst would be variants *)
    destruct (filter (fun p => beq (alias_of (e_rr p)) inst) b) as [|p1 [|p2 l]] eqn:Ef; simpl; try lia.
    exfalso.
    assert (H1 : In p1 (filter (fun p => beq (alias_of (e_rr p)) inst) b)) by (rewrite Ef; now left).
    assert (H2 : In p2 (filter (fun p => beq (alias_of (e_rr p)) inst) b)) by (rewrite Ef; right; now left).
    apply filter_In in H1 as [H1 A1]. apply filter_In in H2 as [H2 A2]. apply beq_eq in A1, A2.
    assert (p1 = p2).
    { apply (one_ptr_per_instance Lf Hvar L (s_cache s) HI Hsub ty b p1 p2 (bm_get_In _ _ _ Eb) H1 H2). congruence. }
    subst p2.
    (* the same record twice in a bucket contradicts nodup_bucket *)
    destruct (HI KPtr) as [_ Hk]. destruct (Hk ty b (bm_get_In _ _ _ Eb)) as [Hnd _].
    assert (Hdup : exists l1 l2 l3, b = l1 ++ p1 :: l2 ++ p1 :: l3).
    { clear - Ef. revert Ef. induction b as [|x b IH]; simpl; [discriminate|].
      destruct (beq (alias_of (e_rr x)) inst).
      - intros H. inversion H; subst.
        assert (In p1 (filter (fun p => beq (alias_of (e_rr p)) inst) b)) by (rewrite H2; now left).
        apply filter_In in H0 as [H0 _]. apply in_split in H0 as [l2 [l3 ->]]. exists [], l2, l3. reflexivity.
      - intros H. destruct (IH H) as (l1 & l2 & l3 & ->). exists (x :: l1), l2, l3. reflexivity. }
    destruct Hdup as (l1 & l2 & l3 & ->).
    clear - Hnd. induction l1 as [|y l1 IH]; simpl in Hnd.
    - inversion Hnd as [|? ? Hall _]; subst. rewrite Forall_forall in Hall.
      assert (In p1 (l2 ++ p1 :: l3)) by (apply in_app_iff; right; now left).
      specialize (Hall p1 H). unfold entry_matches in Hall. now rewrite rr_matches_refl in Hall.
    - inversion Hnd; subst. auto.
  Qed.

  (* C04, one message: completeness and uniqueness *)
  Theorem completing_response_resolves L s now ifx m ty ch :
    Inv L (s_cache s) -> incl (L ++ map (mkDlv now ifx) (msg_records m)) Lf ->
    q_get ty (s_q s) = Some ch ->
    let '(c1, _, changes) := hr_records (s_cache s) now ifx (s_q s) (for_us (s_q s) (m_answers m)) (msg_records m) in
    forall ptrs p,
      In (ty, ptrs) (c_ptr c1) -> In p ptrs -> expires_soon p now = false ->
      In (alias_of (e_rr p)) (updated_of c1 changes) ->
      alive_strong c1 now ty (alias_of (e_rr p)) = true ->
      count_resolved ch ty (alias_of (e_rr p)) (snd (handle_response s now ifx m)) = 1%nat
      /\ In (OEvt ch (EResolved (resolve_from_cache c1 now ty (alias_of (e_rr p))))) (snd (handle_response s now ifx m)).
  Proof.
    intros HI Hsub Hq. unfold handle_response. fold (msg_records m).
    destruct (hr_records_spec now ifx (s_q s) (for_us (s_q s) (m_answers m)) (msg_records m) _ _ HI) as [HI1 _].
    pose proof (hr_records_found_only now ifx (s_q s) (for_us (s_q s) (m_answers m)) (msg_records m) (s_cache s)) as Ho1.
    destruct (hr_records (s_cache s) now ifx (s_q s) (for_us (s_q s) (m_answers m)) (msg_records m))
      as [[c1 o1] changes]. cbn [fst snd] in *.
    intros ptrs p Hb Hp Hsoon Hupd Halive.
    pose proof (alive_is_valid _ c1 now ty ptrs p HI1 Hsub Hb Hp Halive) as Hv.
    assert (Hmem : mem (alias_of (e_rr p)) (updated_of c1 changes) = true) by now apply mem_In.
    pose proof (resolve_complete (with_cache s c1) now (updated_of c1 changes) ty ch ptrs p Hb Hq Hp Hsoon Hmem Hv) as Hin.
    pose proof (resolve_updated_at_most_one _ (with_cache s c1) now (updated_of c1 changes) ch ty
                  (alias_of (e_rr p)) HI1 Hsub) as Hle.
    destruct (resolve_updated (with_cache s c1) now (updated_of c1 changes)) as [s2 o2]. cbn [fst snd with_cache s_cache] in *.
    split; [|apply in_app_iff; now right].
    rewrite count_app.
    assert (H0 : count_resolved ch ty (alias_of (e_rr p)) o1 = 0%nat).
    { unfold count_resolved. rewrite filter_none; [reflexivity|]. intros x Hx.
      rewrite Forall_forall in Ho1. specialize (Ho1 x Hx).
      destruct x as [c0 [ | r | ]| |]; simpl in *; auto; contradiction. }
    assert (Hge : (1 <= count_resolved ch ty (alias_of (e_rr p)) o2)%nat).
    { unfold count_resolved. apply in_split in Hin as [l1 [l2 ->]]. rewrite filter_app, app_length. simpl.
      rewrite N.eqb_refl, !beq_refl. simpl. lia. }
    lia.
  Qed.
End Message.
