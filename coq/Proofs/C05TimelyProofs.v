(* C05, timeliness: at the end of every iteration every instance the checker holds "up" on the
   current channel of its type has PTR, SRV and an address of the SRV's host unexpired - so a
   removal is emitted in the first iteration whose `now` is at or after the instant a goodbye's
   second, a TTL or a verify deadline runs out (F05_dead never fires on the model's trace),
   outside the known classes.

   The invariant (UI) ties the checker's up list to the model state: for every up entry
   (channel, type, instance) whose type is still browsed on that channel, the instance is in the
   model's `resolved` set and PTR, SRV and an address record of the SRV's host are PRESENT in the
   cache (expired or not).  Records only leave the cache in the evictions at the end of the
   iteration and in stop_browse; the evictions report what they take (or the class
   "removal skipped because the PTR is in its last second" is hit); after the evictions every
   record is unexpired, so present = weakly alive. *)
From Coq Require Import List NArith Bool Lia.
From Mdns Require Import Res Bytes Rec Wire Txt ParamsBrowser ParamsBrowserPinned Cache Browser C03Spec BrowserSpec
  BrowserKnown CacheProofs CacheInvProofs BrowserProofs BrowserStepProofs SpecTrackProofs C05SafetyProofs
  C04StepProofs AouCasesProofs C04OrderProofs C05AgainProofs.
Import ListNotations.
Open Scope N_scope.

(* ---- presence of an instance's records -------------------------------------------------------------------- *)

Definition present (c : cache) (ty inst : bytes) : Prop :=
  exists pb p sb e ab a,
    bm_get ty (c_ptr c) = Some pb /\ In p pb /\ alias_of (e_rr p) = inst
    /\ bm_get inst (c_srv c) = Some sb /\ In e sb
    /\ bm_get (lower (srv_host e)) (c_addr c) = Some ab /\ In a ab.

(* c' has every record of c (same key, same rdata), possibly with other times *)
Definition keeps (c c' : cache) : Prop :=
  forall k key b e, bm_get key (get_map c k) = Some b -> In e b ->
    exists b' e', bm_get key (get_map c' k) = Some b' /\ In e' b' /\ r_data (e_rr e') = r_data (e_rr e).

Lemma keeps_refl c : keeps c c.
Proof. intros k key b e H1 H2. exists b, e. auto. Qed.

Lemma keeps_trans a b c : keeps a b -> keeps b c -> keeps a c.
Proof.
  intros H1 H2 k key b0 e Hb He. destruct (H1 k key b0 e Hb He) as (b1 & e1 & A & B & C).
  destruct (H2 k key b1 e1 A B) as (b2 & e2 & D & E & F). exists b2, e2. split; [exact D|]. split; [exact E|]. congruence.
Qed.

Lemma present_keeps c c' ty inst : keeps c c' -> present c ty inst -> present c' ty inst.
Proof.
  intros Hk (pb & p & sb & e & ab & a & Epb & Hp & Hal & Esb & He & Eab & Ha).
  destruct (Hk KPtr ty pb p Epb Hp) as (pb' & p' & A1 & A2 & A3).
  destruct (Hk KSrv inst sb e Esb He) as (sb' & e' & B1 & B2 & B3).
  destruct (Hk KAddr _ ab a Eab Ha) as (ab' & a' & C1 & C2 & C3).
  exists pb', p', sb', e', ab', a'. simpl in *. split; [exact A1|]. split; [exact A2|].
  split; [unfold alias_of in *; now rewrite A3|]. split; [exact B1|]. split; [exact B2|].
  assert (Eh : srv_host e' = srv_host e) by (unfold srv_host, rr_host; now rewrite B3).
  rewrite Eh. auto.
Qed.

Lemma beqr_In b b' e : beqr b b' -> In e b -> exists e', In e' b' /\ eqr e e'.
Proof.
  intros H. induction H as [|x y l l' Hxy Hl IH]; simpl; [tauto|].
  intros [<-|Hin]; [exists y; auto|]. destruct (IH Hin) as (e' & A & B). exists e'. auto.
Qed.

Lemma keeps_ceqr c c' : ceqr c c' -> keeps c c'.
Proof.
  intros (A1 & A2 & A3 & A4 & A5 & _) k key b e Hb He.
  assert (Hm : meqr (get_map c k) (get_map c' k)) by (destruct k; assumption).
  pose proof (meqr_get key _ _ Hm) as Hg. rewrite Hb in Hg.
  destruct (bm_get key (get_map c' k)) as [b'|]; [|contradiction].
  destruct (beqr_In b b' e Hg He) as (e' & B1 & (B2 & _)). exists b', e'. split; [reflexivity|]. split; [exact B1|].
  now rewrite B2.
Qed.

(* ---- add_or_update keeps every record ------------------------------------------------------------------------ *)

Lemma update_first_keeps r ifx now : forall b b2 z,
  update_first b r ifx now = Some (b2, z) ->
  forall x, In x b -> exists x', In x' b2 /\ r_data (e_rr x') = r_data (e_rr x).
Proof.
  induction b as [|e t IH]; intros b2 z; simpl; [discriminate|].
  destruct (entry_matches e r ifx).
  - intros H. inversion H; subst. intros x [<-|Hx]; [|exists x; simpl; auto].
    exists (reset_ttl e r now). split; [now left|reflexivity].
  - destruct (update_first t r ifx now) as [[t' y]|] eqn:E; [|discriminate].
    intros H. inversion H; subst. intros x [<-|Hx]; [exists e; simpl; auto|].
    destruct (IH t' z eq_refl x Hx) as (x' & A & B). exists x'. simpl. auto.
Qed.

Lemma aou_keeps c now ifx r fu : keeps c (fst (add_or_update c now ifx r fu)).
Proof.
  unfold add_or_update.
  assert (Hmaps : forall k0, get_map (note_subtype c r fu) k0 = get_map c k0) by (intros; apply note_subtype_maps).
  set (c1 := note_subtype c r fu) in *. clearbody c1.
  destruct (kind_of_type (r_type r)) as [k0|] eqn:Ek.
  2:{ simpl. intros k key b e Hb He. rewrite <- Hmaps in Hb. exists b, e. auto. }
  set (key0 := key_of k0 (r_name r)). set (m := get_map c1 k0).
  (* the map of kind k0 becomes bm_set key0 B m, where B has an image of every entry of the old bucket *)
  assert (Hset : forall B (res : option (entry * bool)),
            (forall b0 x, bm_get key0 m = Some b0 -> In x b0 ->
                          exists x', In x' B /\ r_data (e_rr x') = r_data (e_rr x)) ->
            keeps c (fst (set_map c1 k0 (bm_set key0 B m), res))).
  { intros B res HB k key b e Hb He. simpl. rewrite <- Hmaps in Hb. destruct (kind_dec k0 k) as [<-|Hne].
    - rewrite get_set_map_same. fold m in Hb. destruct (beq key key0) eqn:Ekey.
      + apply beq_eq in Ekey. subst key. rewrite bm_set_get_same.
        destruct (HB b e Hb He) as (x' & A & B0). exists B, x'. auto.
      + rewrite (bm_set_get_other key0 key B m Ekey). exists b, e. auto.
    - rewrite get_set_map_other by assumption. exists b, e. auto. }
  destruct (bm_get key0 m) as [b0|] eqn:Eg.
  - destruct b0 as [|e0 t0].
    + destruct fu; apply Hset; intros b1 x Hb1; inversion Hb1; subst; intros [].
    + rewrite (fl_map r ifx now (e0 :: t0)).
      assert (Hfl : forall x, In x (e0 :: t0) -> exists y, In y (map (fl r ifx now) (e0 :: t0))
                                                            /\ r_data (e_rr y) = r_data (e_rr x)).
      { intros x Hx. exists (fl r ifx now x). split; [now apply in_map|].
        destruct (fl_eshr r ifx now x) as (S1 & _). now rewrite S1. }
      destruct (update_first (map (fl r ifx now) (e0 :: t0)) r ifx now) as [[b2 [x rv]]|] eqn:EU.
      * apply Hset. intros b1 y Hb1 Hy. inversion Hb1; subst b1.
        destruct (Hfl y Hy) as (y1 & A & B).
        destruct (update_first_keeps r ifx now _ _ _ EU y1 A) as (y2 & C & D). exists y2. split; [exact C|congruence].
      * apply Hset. intros b1 y Hb1 Hy. inversion Hb1; subst b1.
        destruct (Hfl y Hy) as (y1 & A & B). exists y1. split; [now right|exact B].
  - destruct fu; apply Hset; intros b1 x Hb1; discriminate.
Qed.

(* ---- verify keeps every record ------------------------------------------------------------------------------- *)

Lemma sooner_all_keeps at_ b e : In e b -> exists e', In e' (sooner_all at_ b) /\ r_data (e_rr e') = r_data (e_rr e).
Proof.
  intros H. unfold sooner_all. destruct at_ as [x|]; [|exists e; auto].
  exists (expire_sooner e x). split; [exact (in_map (fun e0 => expire_sooner e0 x) b e H)|]. destruct (expire_sooner_fields e x) as (A & _). now rewrite A.
Qed.

Lemma verify_addrs_keeps at_ : forall srvs addr key b e,
  bm_get key addr = Some b -> In e b ->
  exists b' e', bm_get key (verify_addrs at_ srvs addr) = Some b' /\ In e' b' /\ r_data (e_rr e') = r_data (e_rr e).
Proof.
  induction srvs as [|s rest IH]; intros addr key b e Hb He; simpl; [exists b, e; auto|].
  destruct (bm_get (lower (srv_host s)) addr) as [ab|] eqn:Ea; [|now apply (IH addr key b e)].
  destruct (beq key (lower (srv_host s))) eqn:Ek.
  - apply beq_eq in Ek. subst key. rewrite Hb in Ea. inversion Ea; subst ab.
    destruct (sooner_all_keeps at_ b e He) as (e1 & A & B).
    destruct (IH (bm_set (lower (srv_host s)) (sooner_all at_ b) addr) (lower (srv_host s)) (sooner_all at_ b) e1
                 (bm_set_get_same _ _ _) A) as (b' & e' & C & D & E).
    exists b', e'. split; [exact C|]. split; [exact D|congruence].
  - apply (IH _ key b e); [|exact He]. now rewrite (bm_set_get_other _ key _ addr Ek).
Qed.

Lemma verify_keeps c inst at_ : keeps c (fst (service_verify_queries c inst at_)).
Proof.
  unfold service_verify_queries. destruct (bm_get inst (c_srv c)) as [sb|] eqn:Es; [|apply keeps_refl].
  intros k key b e Hb He. destruct k; simpl in *; try (exists b, e; auto; fail).
  - destruct (beq key inst) eqn:Ek.
    + apply beq_eq in Ek. subst key. rewrite Hb in Es. inversion Es; subst sb.
      destruct (sooner_all_keeps at_ b e He) as (e1 & A & B). exists (sooner_all at_ b), e1.
      split; [apply bm_set_get_same|]. auto.
    + rewrite (bm_set_get_other inst key _ _ Ek). exists b, e. auto.
  - now apply (verify_addrs_keeps at_ sb (c_addr c) key b e).
Qed.

(* ---- stop_browse of another name that does not point to the instance ----------------------------------------- *)

Lemma bm_remove_get_other k k' m : beq k' k = false -> bm_get k' (bm_remove k m) = bm_get k' m.
Proof.
  intros Hne. induction m as [|[k0 b0] t IH]; simpl; [reflexivity|].
  destruct (beq k k0) eqn:E1.
  - apply beq_eq in E1. subst k0. rewrite Hne. exact IH.
  - simpl. destruct (beq k' k0); [reflexivity|exact IH].
Qed.

Lemma fold_remove_get i : forall insts m,
  ~ In i insts -> bm_get i (fold_left (fun m0 i0 => bm_remove i0 m0) insts m) = bm_get i m.
Proof.
  induction insts as [|j rest IH]; intros m Hn; simpl; [reflexivity|].
  rewrite IH by (intros H; apply Hn; now right).
  apply bm_remove_get_other. destruct (beq i j) eqn:E; [|reflexivity].
  apply beq_eq in E. subst j. exfalso. apply Hn. now left.
Qed.

Lemma fold_addr_get key still : forall hosts m,
  mem key still = true ->
  bm_get key (fold_left (fun m0 h => if mem h still then m0 else bm_remove h m0) hosts m) = bm_get key m.
Proof.
  induction hosts as [|h rest IH]; intros m Hk; simpl; [reflexivity|].
  rewrite IH by exact Hk. destruct (mem h still) eqn:Eh; [reflexivity|].
  apply bm_remove_get_other. destruct (beq key h) eqn:E; [|reflexivity].
  apply beq_eq in E. subst h. congruence.
Qed.

Lemma rst_present c ty2 ty inst :
  ty <> ty2 ->
  (forall pb2 p2, bm_get ty2 (c_ptr c) = Some pb2 -> In p2 pb2 -> alias_of (e_rr p2) <> inst) ->
  present c ty inst -> present (remove_service_type c ty2) ty inst.
Proof.
  intros Hne Hno (pb & p & sb & e & ab & a & Epb & Hp & Hal & Esb & He & Eab & Ha).
  unfold remove_service_type. destruct (bm_get ty2 (c_ptr c)) as [ptrs|] eqn:E2.
  2:{ exists pb, p, sb, e, ab, a. repeat (split; [assumption|]). assumption. }
  set (insts := map (fun p0 => alias_of (e_rr p0)) ptrs).
  assert (Hni : ~ In inst insts).
  { intros Hin. apply in_map_iff in Hin as [p2 [A B]]. exact (Hno ptrs p2 eq_refl B A). }
  set (srv1 := fold_left (fun m i => bm_remove i m) insts (c_srv c)).
  assert (Es1 : bm_get inst srv1 = Some sb) by (unfold srv1; now rewrite fold_remove_get).
  exists pb, p, sb, e, ab, a. cbn [c_ptr c_srv c_addr]. split.
  - rewrite bm_remove_get_other; [exact Epb|]. destruct (beq ty ty2) eqn:E; [|reflexivity].
    apply beq_eq in E. contradiction.
  - split; [exact Hp|]. split; [exact Hal|]. split; [exact Es1|]. split; [exact He|]. split; [|exact Ha].
    rewrite fold_addr_get; [exact Eab|]. apply mem_In. unfold all_srv_hosts_lower. apply in_flat_map.
    exists (inst, sb). split; [now apply bm_get_In|]. simpl. apply in_map_iff. exists e. auto.
Qed.

(* ---- after the evictions: present = weakly alive ----------------------------------------------------------------- *)

Definition all_live (c : cache) (now : N) : Prop :=
  forall k key b e, (k = KPtr \/ k = KSrv \/ k = KAddr) -> bm_get key (get_map c k) = Some b -> In e b ->
                    is_expired e now = false.

Lemma present_alive_weak c now ty inst : all_live c now -> present c ty inst -> alive_weak c now ty inst = true.
Proof.
  intros Hl (pb & p & sb & e & ab & a & Epb & Hp & Hal & Esb & He & Eab & Ha).
  unfold alive_weak. apply andb_true_iff. split.
  - apply existsb_exists. exists p. split.
    + unfold ptr_entries. rewrite Epb. apply filter_In. split; [exact Hp|]. rewrite Hal. apply beq_refl.
    + now rewrite (Hl KPtr ty pb p (or_introl eq_refl) Epb Hp).
  - apply existsb_exists. exists e. split; [unfold srv_entries; now rewrite Esb|].
    rewrite (Hl KSrv inst sb e (or_intror (or_introl eq_refl)) Esb He). simpl.
    apply existsb_exists. exists a. split; [unfold addr_entries, get_addr; now rewrite Eab|].
    now rewrite (Hl KAddr _ ab a (or_intror (or_intror eq_refl)) Eab Ha).
Qed.

Lemma bm_get_map_live_only now k m :
  bm_get k (map (fun kb => (fst kb, live_only now (snd kb))) m)
  = match bm_get k m with Some b => Some (live_only now b) | None => None end.
Proof. induction m as [|[k0 b0] t IH]; simpl; [reflexivity|]. destruct (beq k k0); [reflexivity|exact IH]. Qed.

Lemma evict_all_live c now : all_live (fst (evict_addr (fst (evict_services c now)) now)) now.
Proof.
  rewrite evict_services_cache. unfold evict_addr. cbn [fst c_ptr c_srv c_addr c_txt c_nsec c_sub].
  intros k key b e Hk Hb He. destruct Hk as [-> | [-> | ->]]; cbn [get_map c_ptr c_srv c_addr] in Hb.
  - rewrite bm_get_map_live_only in Hb. destruct (bm_get key (c_ptr c)); [|discriminate]. inversion Hb; subst b.
    now apply live_only_In in He.
  - apply bm_get_In in Hb. apply sweep_In in Hb as (b0 & _ & -> & _). now apply live_only_In in He.
  - apply bm_get_In in Hb. apply sweep_In in Hb as (b0 & _ & -> & _). now apply live_only_In in He.
Qed.

Lemma alive_weak_ceqr c c' now ty i : ceqr c c' -> alive_weak c now ty i = alive_weak c' now ty i.
Proof.
  assert (Hx : forall e e', eqr e e' -> is_expired e now = is_expired e' now)
    by (intros e e' (_ & _ & H & _); unfold is_expired; now rewrite H).
  intros H. unfold alive_weak. f_equal.
  - apply existsb_beqr; [now apply ptr_entries_ceqr|]. intros e e' He. now rewrite (Hx _ _ He).
  - apply existsb_beqr; [now apply srv_entries_ceqr|]. intros e e' He.
    rewrite (Hx _ _ He). destruct He as (H1 & _). unfold srv_host. rewrite H1. f_equal.
    apply existsb_beqr; [now apply addr_entries_ceqr|]. intros a a' Ha. now rewrite (Hx _ _ Ha).
Qed.

(* ---- the checker's up list, abstractly --------------------------------------------------------------------------- *)

Definition up_step (ups : list up_entry) (x : out) : list up_entry :=
  match x with
  | OEvt ch (EResolved r) => ups_add ch (rs_ty r) (rs_name r) ups
  | OEvt ch (ERemoved _ i) => ups_del ch i ups
  | _ => ups
  end.

Definition upsf (ups : list up_entry) (o : list out) : list up_entry := fold_left up_step o ups.

Lemma upsf_app ups a b : upsf ups (a ++ b) = upsf (upsf ups a) b.
Proof. unfold upsf. apply fold_left_app. Qed.

(* an entry of the list after the events was there before and no ServiceRemoved hit it, or a
   ServiceResolved of these events put it there *)
Lemma upsf_In : forall o ups u,
  In u (upsf ups o) ->
  (In u ups /\ forall t, ~ In (OEvt (fst u) (ERemoved t (snd (snd u)))) o)
  \/ (exists r, In (OEvt (fst u) (EResolved r)) o /\ snd u = (rs_ty r, rs_name r)).
Proof.
  induction o as [|x t IH]; intros ups u Hu; simpl in *; [left; split; [exact Hu|tauto]|].
  destruct (IH (up_step ups x) u Hu) as [[Hin Hno]|(r & Hr & Hs)]; [|right; exists r; auto].
  destruct x as [ch [ty i|r|ty i]|qs|ch l]; simpl in Hin.
  - left. split; [exact Hin|]. intros t0 [H|H]; [discriminate|exact (Hno t0 H)].
  - unfold ups_add in Hin. destruct (existsb (up_is ch (rs_name r)) ups).
    + left. split; [exact Hin|]. intros t0 [H|H]; [discriminate|exact (Hno t0 H)].
    + apply in_app_iff in Hin as [Hin|[<-|[]]].
      * left. split; [exact Hin|]. intros t0 [H|H]; [discriminate|exact (Hno t0 H)].
      * right. exists r. simpl. auto.
  - unfold ups_del in Hin. apply filter_In in Hin as [Hin Hn]. apply negb_true_iff in Hn.
    left. split; [exact Hin|]. intros t0 [H|H]; [|exact (Hno t0 H)].
    inversion H; subst. unfold up_is in Hn. now rewrite N.eqb_refl, beq_refl in Hn.
  - left. split; [exact Hin|]. intros t0 [H|H]; [discriminate|exact (Hno t0 H)].
  - left. split; [exact Hin|]. intros t0 [H|H]; [discriminate|exact (Hno t0 H)].
Qed.

Lemma silent_upsf : forall o ups, Forall silent5 o -> upsf ups o = ups.
Proof.
  induction o as [|x t IH]; intros ups H; [reflexivity|]. inversion H as [|x0 t0 Hx Ht]; subst.
  unfold upsf in *. simpl. replace (up_step ups x) with ups; [now apply IH|].
  destruct x as [ch [ty i|r|ty i]|qs|ch l]; simpl in *; tauto.
Qed.

(* ---- the `resolved` set across resolve_updated_instances ------------------------------------------------------------ *)

Lemma ru_ptrs_rset c now ty ch updated : forall ptrs rset,
  snd (ru_ptrs c now ty ch updated ptrs rset) = rset.
Proof.
  induction ptrs as [|p rest IH]; intros rset; simpl; [reflexivity|].
  destruct (negb (expires_soon p now) && mem (alias_of (e_rr p)) updated); [|apply IH].
  specialize (IH rset). destruct (is_valid _);
    destruct (ru_ptrs c now ty ch updated rest rset) as [[[[o res] unres] rem] rset']; simpl in *; exact IH.
Qed.

Lemma ru_types_rset c now q updated : forall ptr rset,
  snd (ru_types c now q updated ptr rset) = rset.
Proof.
  induction ptr as [|[ty ptrs] rest IH]; intros rset; simpl; [reflexivity|].
  destruct (q_get ty q) as [ch|]; [|apply IH].
  pose proof (ru_ptrs_rset c now ty ch updated ptrs rset) as H1.
  destruct (ru_ptrs c now ty ch updated ptrs rset) as [[[[o1 res1] un1] rem1] rset1]. simpl in H1. subst rset1.
  specialize (IH rset). destruct (ru_types c now q updated rest rset) as [[[[o2 res2] un2] rem2] rset2]. simpl in *. exact IH.
Qed.

Lemma ru_ptrs_rem_upd c now ty ch updated : forall ptrs rset t i,
  In (t, i) (snd (fst (ru_ptrs c now ty ch updated ptrs rset))) -> mem i updated = true.
Proof.
  induction ptrs as [|p rest IH]; intros rset t i; simpl; [tauto|].
  destruct (negb (expires_soon p now) && mem (alias_of (e_rr p)) updated) eqn:Ec; [|apply IH].
  apply andb_true_iff in Ec as [_ Ec].
  specialize (IH rset t i). destruct (is_valid _);
    destruct (ru_ptrs c now ty ch updated rest rset) as [[[[o res] unres] rem] rset']; simpl in *; [exact IH|].
  intros H. apply in_app_iff in H as [H|H]; [|exact (IH H)].
  destruct (mem (alias_of (e_rr p)) rset); [|destruct H]. destruct H as [H|[]]. inversion H; subst. exact Ec.
Qed.

Lemma ru_types_rem_upd c now q updated : forall ptr rset t i,
  In (t, i) (snd (fst (ru_types c now q updated ptr rset))) -> mem i updated = true.
Proof.
  induction ptr as [|[ty ptrs] rest IH]; intros rset t i; simpl; [tauto|].
  destruct (q_get ty q) as [ch|]; [|apply IH].
  pose proof (ru_ptrs_rem_upd c now ty ch updated ptrs rset t i) as H1.
  destruct (ru_ptrs c now ty ch updated ptrs rset) as [[[[o1 res1] un1] rem1] rset1]. simpl in H1.
  specialize (IH rset1 t i). destruct (ru_types c now q updated rest rset1) as [[[[o2 res2] un2] rem2] rset2]. simpl in *.
  intros H. apply in_app_iff in H as [H|H]; auto.
Qed.

Lemma ru_ptrs_res c now ty ch updated : forall ptrs rset ch' r,
  In (OEvt ch' (EResolved r)) (fst (fst (fst (fst (ru_ptrs c now ty ch updated ptrs rset))))) ->
  In (rs_name r) (snd (fst (fst (fst (ru_ptrs c now ty ch updated ptrs rset))))).
Proof.
  induction ptrs as [|p rest IH]; intros rset ch' r; simpl; [tauto|].
  destruct (negb (expires_soon p now) && mem (alias_of (e_rr p)) updated); [|apply IH].
  specialize (IH rset ch' r). destruct (is_valid _);
    destruct (ru_ptrs c now ty ch updated rest rset) as [[[[o res] unres] rem] rset']; simpl in *; [|exact IH].
  intros [H|H]; [inversion H; subst; now left|right; exact (IH H)].
Qed.

Lemma ru_types_res c now q updated : forall ptr rset ch' r,
  In (OEvt ch' (EResolved r)) (fst (fst (fst (fst (ru_types c now q updated ptr rset))))) ->
  In (rs_name r) (snd (fst (fst (fst (ru_types c now q updated ptr rset))))).
Proof.
  induction ptr as [|[ty ptrs] rest IH]; intros rset ch' r; simpl; [tauto|].
  destruct (q_get ty q) as [ch|]; [|apply IH].
  pose proof (ru_ptrs_res c now ty ch updated ptrs rset ch' r) as H1.
  destruct (ru_ptrs c now ty ch updated ptrs rset) as [[[[o1 res1] un1] rem1] rset1]. simpl in H1.
  specialize (IH rset1 ch' r). destruct (ru_types c now q updated rest rset1) as [[[[o2 res2] un2] rem2] rset2]. simpl in *.
  intros H. apply in_app_iff. apply in_app_iff in H as [H|H]; auto.
Qed.

Lemma mem_set_remove_other x i l : beq i x = false -> mem i (set_remove x l) = mem i l.
Proof.
  intros Hne. unfold set_remove. induction l as [|y l IH]; simpl; [reflexivity|].
  destruct (beq x y) eqn:E; simpl.
  - apply beq_eq in E. subst y. now rewrite Hne.
  - now rewrite IH.
Qed.

Lemma mem_fold_remove i : forall l rs,
  mem i rs = true -> ~ In i l -> mem i (fold_left (fun l0 x => set_remove x l0) l rs) = true.
Proof.
  induction l as [|x t IH]; intros rs Hm Hn; simpl; [exact Hm|]. apply IH; [|intros H; apply Hn; now right].
  rewrite mem_set_remove_other; [exact Hm|]. destruct (beq i x) eqn:E; [|reflexivity].
  apply beq_eq in E. subst x. exfalso. apply Hn. now left.
Qed.

Lemma mem_set_add i x l : mem i l = true -> mem i (set_add x l) = true.
Proof.
  intros H. unfold set_add. destruct (mem x l); [exact H|]. apply mem_In. apply in_app_iff. left. now apply mem_In.
Qed.

Lemma mem_set_add_same x l : mem x (set_add x l) = true.
Proof.
  unfold set_add. destruct (mem x l) eqn:E; [exact E|]. apply mem_In. apply in_app_iff. right. now left.
Qed.

Lemma fold_mark_mem i : forall l s,
  (mem i (s_resolved s) = true \/ In i l) -> mem i (s_resolved (fold_left mark_resolved l s)) = true.
Proof.
  induction l as [|x t IH]; intros s H; simpl; [destruct H as [H|[]]; exact H|]. apply IH.
  destruct H as [H|[<-|H]]; [left; now apply mem_set_add|left; apply mem_set_add_same|now right].
Qed.

Lemma fold_pending_resolved now l : forall s,
  s_resolved (fold_left (fun s0 i => add_pending s0 now i) l s) = s_resolved s.
Proof.
  induction l as [|i l IH]; intros s; simpl; [reflexivity|]. rewrite IH. unfold add_pending.
  destruct (mem i (s_pending s)); reflexivity.
Qed.

(* an instance leaves `resolved` only when it was updated, found invalid under some browsed name *)
Lemma resolve_updated_leaves s now updated i :
  mem i (s_resolved s) = true -> mem i (s_resolved (fst (resolve_updated s now updated))) = false ->
  mem i updated = true
  /\ exists t ptrs p, In (t, ptrs) (c_ptr (s_cache s)) /\ In p ptrs /\ alias_of (e_rr p) = i
                      /\ is_valid (resolve_from_cache (s_cache s) now t i) = false.
Proof.
  unfold resolve_updated. destruct updated as [|u us]; [simpl; congruence|].
  pose proof (ru_types_rset (s_cache s) now (s_q s) (u :: us) (c_ptr (s_cache s)) (s_resolved s)) as Hrs.
  pose proof (ru_types_rem_upd (s_cache s) now (s_q s) (u :: us) (c_ptr (s_cache s)) (s_resolved s)) as Hup.
  pose proof (ru_types_removed_ptr (s_cache s) now (s_q s) (u :: us) (c_ptr (s_cache s)) (s_resolved s)) as Hrm.
  destruct (ru_types (s_cache s) now (s_q s) (u :: us) (c_ptr (s_cache s)) (s_resolved s))
    as [[[[o res] unres] rem] rset]. cbn [fst snd] in *. subst rset.
  intros Hm Hout. rewrite fold_pending_resolved in Hout.
  destruct (in_dec (list_eq_dec N.eq_dec) i (map snd rem)) as [Hin|Hn].
  - apply in_map_iff in Hin as [[t i0] [E Hin]]. simpl in E. subst i0.
    split; [exact (Hup t i Hin)|]. destruct (Hrm t i Hin) as (ptrs & p & A & B & C & D). exists t, ptrs, p. auto.
  - exfalso. rewrite fold_mark_mem in Hout; [discriminate|]. left. cbn [s_resolved]. now apply mem_fold_remove.
Qed.

Lemma resolve_updated_stays s now updated ch r :
  In (OEvt ch (EResolved r)) (snd (resolve_updated s now updated)) ->
  mem (rs_name r) (s_resolved (fst (resolve_updated s now updated))) = true.
Proof.
  unfold resolve_updated. destruct updated as [|u us]; [intros []|].
  pose proof (ru_types_res (s_cache s) now (s_q s) (u :: us) (c_ptr (s_cache s)) (s_resolved s) ch r) as Hres.
  destruct (ru_types (s_cache s) now (s_q s) (u :: us) (c_ptr (s_cache s)) (s_resolved s))
    as [[[[o res] unres] rem] rset]. cbn [fst snd] in *.
  intros H. apply in_app_iff in H as [H|H].
  - rewrite fold_pending_resolved. apply fold_mark_mem. right. apply In_dedup. exact (Hres H).
  - apply notify_removal_shape in H as (c0 & t & i & E & _). discriminate.
Qed.

(* ---- the invariant ---------------------------------------------------------------------------------------------------- *)

Lemma alive_present c now ty inst : alive_strong c now ty inst = true -> present c ty inst.
Proof.
  intros H. apply alive_elim in H as (pb & p & sb & e & ab & a & A1 & A2 & A3 & _ & A5 & A6 & _ & _ & A9 & A10 & _).
  exists pb, p, sb, e, ab, a. repeat (split; [assumption|]). assumption.
Qed.

Lemma valid_ty_indep c now ty ty' inst :
  ty <> [] -> ty' <> [] ->
  is_valid (resolve_from_cache c now ty inst) = is_valid (resolve_from_cache c now ty' inst).
Proof.
  intros H1 H2. unfold is_valid, resolve_from_cache. cbn [rs_ty rs_name rs_host rs_addrs].
  destruct ty; [congruence|]. destruct ty'; [congruence|]. reflexivity.
Qed.

Lemma resolve_updated_resolved_full s now updated ch r :
  In (OEvt ch (EResolved r)) (snd (resolve_updated s now updated)) ->
  exists ty ptrs p, In (ty, ptrs) (c_ptr (s_cache s)) /\ q_get ty (s_q s) = Some ch /\ In p ptrs
                    /\ expires_soon p now = false
                    /\ r = resolve_from_cache (s_cache s) now ty (alias_of (e_rr p)) /\ is_valid r = true.
Proof.
  unfold resolve_updated. destruct updated as [|u us]; [intros []|].
  pose proof (ru_types_resolved_full (s_cache s) now (s_q s) (u :: us) (c_ptr (s_cache s)) (s_resolved s) ch r) as Hsrc.
  destruct (ru_types (s_cache s) now (s_q s) (u :: us) (c_ptr (s_cache s)) (s_resolved s))
    as [[[[o res] unres] rem] rset]. cbn [fst snd] in *.
  intros H. apply in_app_iff in H as [H|H]; [exact (Hsrc H)|].
  apply notify_removal_shape in H as (c0 & t & i & E & _). discriminate.
Qed.

Section Timely.
  Variable Lf : list dlv.
  Hypothesis Hvar : known_ptr_variant Lf = false.
  Hypothesis Htgt : known_srv_targets Lf = false.
  Hypothesis Hnames : ptr_names_ok Lf = true.
  Variable now : N.

  Definition UI (s : st) (ups : list up_entry) : Prop :=
    forall ch ty inst, In (ch, (ty, inst)) ups -> q_get ty (s_q s) = Some ch ->
      present (s_cache s) ty inst /\ mem inst (s_resolved s) = true.

  Definition sideU (q : list (bytes * N)) (ups : list up_entry) (m : N) : Prop :=
    (forall tc, In tc q -> snd tc <= m) /\ (forall u, In u ups -> fst u <= m).

  Definition goodT (L : list dlv) (s : st) (ups : list up_entry) (m : N) : Prop :=
    Inv L (s_cache s) /\ incl L Lf /\ UI s ups /\ sideU (s_q s) ups m.

  (* resolve_updated_instances: who stays up stays in `resolved`; who comes up is present *)
  Lemma resolve_updated_stepT L s ups m updated :
    goodT L s ups m -> hidden_in_resolve s now updated = false ->
    goodT L (fst (resolve_updated s now updated)) (upsf ups (snd (resolve_updated s now updated))) m.
  Proof.
    intros (HI & Hsub & HU & (S1 & S2)) Hhid.
    destruct (resolve_updated_state s now updated) as [Ec Eq].
    pose proof (resolve_updated_leaves s now updated) as Hleave.
    pose proof (resolve_updated_stays s now updated) as Hstay.
    pose proof (resolve_updated_resolved_full s now updated) as Hsrc.
    pose proof (invalid_reported_under_every_name s now updated) as Hrep.
    destruct (resolve_updated s now updated) as [s' o]. cbn [fst snd] in *.
    unfold goodT. rewrite Ec, Eq. split; [exact HI|]. split; [exact Hsub|]. split.
    - intros ch ty inst Hu Hq. rewrite Eq in Hq. apply upsf_In in Hu as [[Hin Hno]|(r & Hr & Hs)]; cbn [fst snd] in *.
      + destruct (HU ch ty inst Hin Hq) as [Hp Hm]. split; [now rewrite Ec|].
        destruct (mem inst (s_resolved s')) eqn:Em; [reflexivity|]. exfalso.
        destruct (Hleave inst Hm Em) as (Hupd & t & ptrs & p0 & A & B & C & D).
        destruct Hp as (pb & p & sb & e & ab & a & Epb & Hpin & Hal & _).
        pose proof (bm_get_In _ _ _ Epb) as Hb.
        destruct (ptr_names Lf Hnames L (s_cache s) HI Hsub ty pb p Hb Hpin) as [Hty _].
        destruct (ptr_names Lf Hnames L (s_cache s) HI Hsub t ptrs p0 A B) as [Ht _].
        assert (Hinv : is_valid (resolve_from_cache (s_cache s) now ty inst) = false)
          by (rewrite (valid_ty_indep _ now ty t inst Hty Ht); exact D).
        destruct (expires_soon p now) eqn:Es.
        * (* the class: the removal is skipped *)
          assert (hidden_in_resolve s now updated = true); [|congruence].
          unfold hidden_in_resolve. apply existsb_exists. exists (ty, ch). split; [now apply q_get_In|].
          cbn [fst]. rewrite Epb. apply existsb_exists. exists p. split; [exact Hpin|].
          cbv zeta. rewrite Hal, Es, Hupd, Hm, Hinv. reflexivity.
        * apply (Hno ty). rewrite <- Hal. apply (Hrep ty ch pb p Hb Hq Hpin Es); rewrite Hal; assumption.
      + inversion Hs; subst ty inst.
        destruct (Hsrc ch r Hr) as (ty0 & ptrs & p & A & B & C & E & F & G). subst r.
        cbn [rs_ty rs_name resolve_from_cache].
        assert (Epb : bm_get ty0 (c_ptr (s_cache s)) = Some ptrs)
          by (apply In_bm_get; [apply (Inv_nodup L _ KPtr HI)|exact A]).
        destruct (valid_alive (s_cache s) now ty0 (alias_of (e_rr p)) ptrs p Epb C eq_refl E G) as [V1 _].
        split; [rewrite Ec; now apply (alive_present _ now)|].
        exact (Hstay ch _ Hr).
    - split; [exact S1|]. intros u Hu. apply upsf_In in Hu as [[Hin _]|(r & Hr & _)]; [now apply S2|].
      destruct (Hsrc (fst u) r Hr) as (ty0 & ptrs & p & _ & B & _). apply q_get_In in B. exact (S1 _ B).
  Qed.

  (* the argument of the first case above, for any PTR entry of a browsed name *)
  Lemma stays_resolved L s updated ty ch pb p inst :
    Inv L (s_cache s) -> incl L Lf ->
    bm_get ty (c_ptr (s_cache s)) = Some pb -> In p pb -> alias_of (e_rr p) = inst ->
    q_get ty (s_q s) = Some ch -> mem inst (s_resolved s) = true ->
    hidden_in_resolve s now updated = false ->
    (forall t, ~ In (OEvt ch (ERemoved t inst)) (snd (resolve_updated s now updated))) ->
    mem inst (s_resolved (fst (resolve_updated s now updated))) = true.
  Proof.
    intros HI Hsub Epb Hpin Hal Hq Hm Hhid Hno.
    destruct (mem inst (s_resolved (fst (resolve_updated s now updated)))) eqn:Em; [reflexivity|]. exfalso.
    destruct (resolve_updated_leaves s now updated inst Hm Em) as (Hupd & t & ptrs & p0 & A & B & C & D).
    pose proof (bm_get_In _ _ _ Epb) as Hb.
    destruct (ptr_names Lf Hnames L (s_cache s) HI Hsub ty pb p Hb Hpin) as [Hty _].
    destruct (ptr_names Lf Hnames L (s_cache s) HI Hsub t ptrs p0 A B) as [Ht _].
    assert (Hinv : is_valid (resolve_from_cache (s_cache s) now ty inst) = false)
      by (rewrite (valid_ty_indep _ now ty t inst Hty Ht); exact D).
    destruct (expires_soon p now) eqn:Es.
    - assert (hidden_in_resolve s now updated = true); [|congruence].
      unfold hidden_in_resolve. apply existsb_exists. exists (ty, ch). split; [now apply q_get_In|].
      cbn [fst]. rewrite Epb. apply existsb_exists. exists p. split; [exact Hpin|].
      cbv zeta. rewrite Hal, Es, Hupd, Hm, Hinv. reflexivity.
    - apply (Hno ty). rewrite <- Hal.
      apply (invalid_reported_under_every_name s now updated ty ch pb p Hb Hq Hpin Es); rewrite Hal; assumption.
  Qed.

  (* ---- responses ------------------------------------------------------------------------------------------------------ *)
  Lemma hr_records_keeps ifx q fu : forall rs c, keeps c (fst (fst (hr_records c now ifx q fu rs))).
  Proof.
    induction rs as [|r rest IH]; intros c; simpl; [apply keeps_refl|].
    pose proof (aou_keeps c now ifx r fu) as H1.
    destruct (add_or_update c now ifx r fu) as [c1 res]. cbn [fst] in H1.
    specialize (IH c1). destruct (hr_records c1 now ifx q fu rest) as [[c2 o2] ch2]. cbn [fst snd] in *.
    assert (H2 : keeps c c2) by (eapply keeps_trans; eauto).
    destruct res as [[e [|]]|]; simpl; try exact H2.
    destruct ((e_type e =? TY_PTR) && found_ttl_guard (e_ttl e)); simpl; [|exact H2].
    destruct (q_get (e_name e) q); simpl; exact H2.
  Qed.

  Lemma keeps_stepT L s ups m s' o :
    goodT L s ups m -> Inv L (s_cache s') -> keeps (s_cache s) (s_cache s') -> s_q s' = s_q s ->
    s_resolved s' = s_resolved s -> Forall silent5 o -> goodT L s' (upsf ups o) m.
  Proof.
    intros (HI & Hsub & HU & HS) HI' Hk Eq Er Ho. rewrite (silent_upsf o ups Ho).
    unfold goodT. rewrite Eq. split; [exact HI'|]. split; [exact Hsub|]. split; [|exact HS].
    intros ch ty inst Hu Hq. rewrite Eq in Hq. destruct (HU ch ty inst Hu Hq) as [A B]. rewrite Er.
    split; [eapply present_keeps; eauto|exact B].
  Qed.

  Lemma handle_read_stepT ifs L s d ups m :
    goodT L s ups m -> incl (L ++ dgram_dlvs ifs now d) Lf -> read_hidden ifs s now d = false ->
    goodT (L ++ dgram_dlvs ifs now d) (fst (handle_read ifs s now d)) (upsf ups (snd (handle_read ifs s now d))) m.
  Proof.
    intros Hg Hsub1 Hhid. pose proof Hg as (HI & Hsub & HU & HS).
    unfold handle_read, read_hidden, dgram_dlvs in *. destruct (accepted_msg ifs d) as [msg|].
    2:{ simpl. rewrite app_nil_r. exact Hg. }
    unfold handle_response, response_hidden in *. fold (msg_records msg) in *.
    destruct (hr_records_spec now (d_if d) (s_q s) (for_us (s_q s) (m_answers msg)) (msg_records msg) _ _ HI) as [HI1 _].
    pose proof (hr_records_found_only now (d_if d) (s_q s) (for_us (s_q s) (m_answers msg)) (msg_records msg) (s_cache s)) as Ho1.
    pose proof (hr_records_keeps (d_if d) (s_q s) (for_us (s_q s) (m_answers msg)) (msg_records msg) (s_cache s)) as Hk.
    destruct (hr_records (s_cache s) now (d_if d) (s_q s) (for_us (s_q s) (m_answers msg)) (msg_records msg))
      as [[c1 o1] changes]. cbn [fst snd] in *.
    assert (Hg1 : goodT (L ++ map (mkDlv now (d_if d)) (msg_records msg)) (with_cache s c1) (upsf ups o1) m).
    { pose proof (only_found_silent o1 Ho1) as Hsil. rewrite (silent_upsf o1 ups Hsil).
      split; [exact HI1|]. split; [exact Hsub1|]. split; [|exact HS].
      intros ch ty inst Hu Hq. destruct (HU ch ty inst Hu Hq) as [A B]. split; [eapply present_keeps; eauto|exact B]. }
    pose proof (resolve_updated_stepT _ (with_cache s c1) _ m (updated_of c1 changes) Hg1 Hhid) as H2.
    destruct (resolve_updated (with_cache s c1) now (updated_of c1 changes)) as [s2 o2]. cbn [fst snd] in *.
    rewrite upsf_app. exact H2.
  Qed.

  Lemma reads_stepT ifs : forall ds L s ups m,
    goodT L s ups m -> incl (L ++ flat_map (dgram_dlvs ifs now) ds) Lf -> reads_hidden ifs s now ds = false ->
    goodT (L ++ flat_map (dgram_dlvs ifs now) ds) (fst (run_cmds (handle_read ifs) s now ds))
          (upsf ups (snd (run_cmds (handle_read ifs) s now ds))) m.
  Proof.
    induction ds as [|d rest IH]; intros L s ups m Hg Hsub Hhid; simpl in *.
    - rewrite app_nil_r. exact Hg.
    - apply orb_false_iff in Hhid as [Hh1 Hh2]. rewrite app_assoc in Hsub.
      assert (Hsub1 : incl (L ++ dgram_dlvs ifs now d) Lf)
        by (intros x Hx; apply Hsub, in_app_iff; now left).
      pose proof (handle_read_stepT ifs L s d ups m Hg Hsub1 Hh1) as H1.
      destruct (handle_read ifs s now d) as [s1 o1]. cbn [fst snd] in *.
      pose proof (IH _ s1 _ m H1 Hsub Hh2) as H2.
      destruct (run_cmds (handle_read ifs) s1 now rest) as [s2 o2]. cbn [fst snd] in *.
      rewrite upsf_app, app_assoc. exact H2.
  Qed.

  (* ---- commands ---------------------------------------------------------------------------------------------------------- *)

  (* stop_browse of ty2 is harmless when no instance has PTR records under ty2 and another name *)
  Definition stop_ok (ty2 : bytes) : Prop :=
    forall d d', In d Lf -> In d' Lf ->
      r_type (dl_rr d) = TY_PTR -> r_name (dl_rr d) = ty2 ->
      r_type (dl_rr d') = TY_PTR -> r_name (dl_rr d') <> ty2 -> alias_of (dl_rr d') <> alias_of (dl_rr d).

  Definition call_ok (cl : call) : Prop := match cl with CStop ty2 => stop_ok ty2 | _ => True end.

  Lemma q_get_q_remove_ne ty2 q ty ch : q_get ty (q_remove ty2 q) = Some ch -> ty <> ty2.
  Proof.
    intros H E. subst ty2. unfold q_remove in H. induction q as [|[t c] r IH]; simpl in H; [discriminate|].
    destruct (beq ty t) eqn:Et; simpl in H; [exact (IH H)|]. rewrite Et in H. exact (IH H).
  Qed.

  Lemma qc_ptrs_res c ty ch : forall ptrs ch' r,
    In (OEvt ch' (EResolved r)) (fst (fst (qc_ptrs c now ty ch ptrs))) ->
    In (rs_name r) (snd (fst (qc_ptrs c now ty ch ptrs))).
  Proof.
    induction ptrs as [|p rest IH]; intros ch' r; simpl; [tauto|].
    specialize (IH ch' r). destruct (qc_ptrs c now ty ch rest) as [[o res] unres]. simpl in *.
    destruct (expires_soon p now); [exact IH|].
    destruct (is_valid (resolve_from_cache c now ty (alias_of (e_rr p)))); simpl.
    - intros [H|[H|H]]; [discriminate|inversion H; subst; now left|right; exact (IH H)].
    - intros [H|H]; [discriminate|exact (IH H)].
  Qed.

  Lemma exec_call_stepT L s ups m cl m' :
    goodT L s ups m -> call_fresh m cl = Some m' -> call_ok cl ->
    goodT L (fst (exec_call s now cl)) (upsf ups (snd (exec_call s now cl))) m'.
  Proof.
    intros Hg Hfr Hok. pose proof Hg as (HI & Hsub & HU & (S1 & S2)).
    destruct cl as [ty ch|ty2|inst timeout|ch]; simpl in *.
    - (* browse: a fresh channel *)
      destruct (m <? ch) eqn:Em; [|discriminate]. inversion Hfr; subst m'. apply N.ltb_lt in Em.
      unfold exec_browse. set (q' := q_set ty ch (s_q s)).
      assert (Hold : forall s', s_cache s' = s_cache s -> s_q s' = q' ->
                (forall i, mem i (s_resolved s) = true -> mem i (s_resolved s') = true) ->
                forall ch0 ty0 inst, In (ch0, (ty0, inst)) ups -> q_get ty0 (s_q s') = Some ch0 ->
                  present (s_cache s') ty0 inst /\ mem inst (s_resolved s') = true).
      { intros s' Ec Eq Er ch0 ty0 inst Hu Hq. rewrite Eq in Hq. unfold q' in Hq. rewrite q_get_q_set in Hq.
        destruct (beq ty0 ty).
        - inversion Hq; subst ch0. specialize (S2 _ Hu). simpl in S2. lia.
        - destruct (HU ch0 ty0 inst Hu Hq) as [A B]. rewrite Ec. auto. }
      assert (Hq'side : forall tc, In tc q' -> snd tc <= ch).
      { intros tc Hin. apply q_set_In in Hin as [Hin|Hin]; [specialize (S1 _ Hin); lia|lia]. }
      destruct (bm_get ty (c_ptr (s_cache s))) as [ptrs|] eqn:Eb.
      + pose proof (qc_ptrs_shape (s_cache s) now ty ch ptrs) as Hsh.
        pose proof (qc_ptrs_res (s_cache s) ty ch ptrs) as Hres.
        destruct (qc_ptrs (s_cache s) now ty ch ptrs) as [[o res] unres]. cbn [fst snd] in *.
        set (s1 := mkSt (s_cache s) q' (s_pending s) (s_resolved s) (s_retrans s)).
        set (s3 := fold_left (fun s0 i => add_pending s0 now i) (dedup unres) (fold_left mark_resolved (dedup res) s1)).
        assert (Ec : s_cache s3 = s_cache s) by (unfold s3; now rewrite fold_pending_cache, fold_mark_cache).
        assert (Eq : s_q s3 = q') by (unfold s3; now rewrite fold_pending_q, fold_mark_q).
        assert (Er : forall i, (mem i (s_resolved s) = true \/ In i res) -> mem i (s_resolved s3) = true).
        { intros i Hi. unfold s3. rewrite fold_pending_resolved. apply fold_mark_mem.
          destruct Hi as [Hi|Hi]; [left; exact Hi|right; now apply In_dedup]. }
        unfold goodT. rewrite Ec, Eq. split; [exact HI|]. split; [exact Hsub|]. split.
        * intros ch0 ty0 inst Hu Hq. apply upsf_In in Hu as [[Hin _]|(r & Hr & Hs)]; cbn [fst snd] in *.
          -- apply (Hold s3 Ec Eq (fun i Hi => Er i (or_introl Hi)) ch0 ty0 inst Hin Hq).
          -- inversion Hs; subst ty0 inst. destruct (Hsh _ Hr) as [[i E]|(p & A & B & E & V)]; [discriminate|].
             inversion E; subst r. cbn [rs_ty rs_name resolve_from_cache].
             destruct (valid_alive (s_cache s) now ty (alias_of (e_rr p)) ptrs p Eb A eq_refl B V) as [V1 _].
             split; [rewrite Ec; now apply (alive_present _ now)|]. apply Er. right.
             apply (Hres ch0 _ Hr).
        * split; [exact Hq'side|]. intros u Hu. apply upsf_In in Hu as [[Hin _]|(r & Hr & _)].
          -- specialize (S2 _ Hin). lia.
          -- destruct (Hsh _ Hr) as [[i E]|(p & _ & _ & E & _)]; [discriminate|]. inversion E. lia.
      + simpl. split; [exact HI|]. split; [exact Hsub|]. split.
        * intros ch0 ty0 inst Hu Hq.
          apply (Hold (mkSt (s_cache s) q' (s_pending s) (s_resolved s) (s_retrans s)) eq_refl eq_refl (fun i Hi => Hi)
                      ch0 ty0 inst Hu Hq).
        * split; [exact Hq'side|]. intros u Hu. specialize (S2 _ Hu). lia.
    - (* stop *)
      inversion Hfr; subst m'. unfold exec_stop. destruct (q_get ty2 (s_q s)) eqn:Eq; [|exact Hg].
      simpl. pose proof (cshr_remove_service_type L (s_cache s) ty2 HI) as Hs.
      split; [eapply Inv_shr; eauto|]. split; [exact Hsub|]. split.
      + intros ch0 ty0 inst Hu Hq. cbn [s_q s_cache s_resolved] in *.
        pose proof (q_get_q_remove_ne _ _ _ _ Hq) as Hne. apply q_get_q_remove in Hq.
        destruct (HU ch0 ty0 inst Hu Hq) as [Hp Hm]. split; [|exact Hm].
        apply rst_present; [exact Hne| |exact Hp].
        intros pb2 p2 Epb2 Hp2 Hal2.
        destruct Hp as (pb & p & _ & _ & _ & _ & Epb & Hpin & Hal & _).
        destruct (entry_delivery Lf L (s_cache s) HI Hsub KPtr ty2 pb2 p2 (bm_get_In _ _ _ Epb2) Hp2) as (d & Hd & Hrr & Hk & Hkey).
        destruct (entry_delivery Lf L (s_cache s) HI Hsub KPtr ty0 pb p (bm_get_In _ _ _ Epb) Hpin) as (d' & Hd' & Hrr' & Hk' & Hkey').
        apply kind_of_type_ptr in Hk, Hk'. unfold e_type, e_name in *. simpl in Hkey, Hkey'.
        apply (Hok d d' Hd Hd'); rewrite ?Hrr, ?Hrr'; auto; congruence.
      + split; [|exact S2]. intros tc Hin. cbn [s_q] in Hin. apply filter_In in Hin as [Hin _]. now apply S1.
    - (* verify *)
      inversion Hfr; subst m'.
      unfold exec_verify. pose proof (cshr_verify L (s_cache s) inst (Some (now + timeout)) HI) as Hs.
      pose proof (verify_keeps (s_cache s) inst (Some (now + timeout))) as Hk.
      destruct (service_verify_queries (s_cache s) inst (Some (now + timeout))) as [c1 qs]. cbn [fst] in *.
      assert (H1 : Inv L c1) by (eapply Inv_shr; eauto).
      destruct qs as [|q0 qs]; cbn [fst snd].
      + apply (keeps_stepT L s ups m (with_cache s c1) []); auto.
      + apply (keeps_stepT L s ups m); auto; repeat constructor.
    - inversion Hfr; subst m'. exact Hg.
  Qed.

  Lemma calls_stepT L : forall cls s ups m m',
    goodT L s ups m -> calls_fresh m cls = Some m' -> (forall cl, In cl cls -> call_ok cl) ->
    goodT L (fst (run_cmds exec_call s now cls)) (upsf ups (snd (run_cmds exec_call s now cls))) m'.
  Proof.
    induction cls as [|cl rest IH]; intros s ups m m' Hg Hfr Hok; simpl in *.
    - inversion Hfr; subst. exact Hg.
    - destruct (call_fresh m cl) as [m1|] eqn:E1; [|discriminate].
      pose proof (exec_call_stepT L s ups m cl m1 Hg E1 (Hok cl (or_introl eq_refl))) as H1.
      destruct (exec_call s now cl) as [s1 o1]. cbn [fst snd] in *.
      pose proof (IH s1 _ m1 m' H1 Hfr (fun c Hc => Hok c (or_intror Hc))) as H2.
      destruct (run_cmds exec_call s1 now rest) as [s2 o2]. cbn [fst snd] in *.
      rewrite upsf_app. exact H2.
  Qed.

  Lemma rcmd_stepT L s ups m c : goodT L s ups m -> goodT L (fst (exec_rcmd s now c)) (upsf ups (snd (exec_rcmd s now c))) m.
  Proof.
    intros Hg. pose proof Hg as (HI & Hsub & HU & HS). destruct c as [inst n|inst timeout]; simpl.
    - unfold exec_resolve.
      assert (Hq : Forall silent5 (snd (query_unresolved (s_cache s) inst))).
      { unfold query_unresolved. destruct (negb (valid_instance_name inst)); [constructor|].
        destruct (bm_get inst (c_srv (s_cache s))); [|constructor; [exact I|constructor]].
        match goal with |- context [find ?f ?l] => destruct (find f l) end;
          [constructor; [exact I|constructor]|constructor]. }
      assert (Hq2 : Forall silent5 (snd (if has_ptr_to (s_cache s) inst then query_unresolved (s_cache s) inst else (false, []))))
        by (destruct (has_ptr_to (s_cache s) inst); [exact Hq|constructor]).
      clear Hq. rename Hq2 into Hq.
      destruct (if has_ptr_to (s_cache s) inst then query_unresolved (s_cache s) inst else (false, [])) as [sent o]. cbn [snd] in Hq.
      destruct (sent && retry_guard n max_try); cbn [fst snd];
        apply (keeps_stepT L s ups m); auto using keeps_refl.
    - unfold exec_verify. pose proof (cshr_verify L (s_cache s) inst None HI) as Hsh.
      pose proof (verify_keeps (s_cache s) inst None) as Hk.
      destruct (service_verify_queries (s_cache s) inst None) as [c1 qs]. cbn [fst] in *.
      assert (H1 : Inv L c1) by (eapply Inv_shr; eauto).
      destruct qs as [|q0 qs]; cbn [fst snd].
      + apply (keeps_stepT L s ups m (with_cache s c1) []); auto.
      + apply (keeps_stepT L s ups m (with_cache s c1)); auto; repeat constructor.
  Qed.

  Lemma rcmds_stepT L : forall l s ups m,
    goodT L s ups m -> goodT L (fst (run_cmds exec_rcmd s now l)) (upsf ups (snd (run_cmds exec_rcmd s now l))) m.
  Proof.
    induction l as [|c rest IH]; intros s ups m Hg; simpl; [exact Hg|].
    pose proof (rcmd_stepT L s ups m c Hg) as H1. destruct (exec_rcmd s now c) as [s1 o1]. cbn [fst snd] in *.
    pose proof (IH s1 _ m H1) as H2. destruct (run_cmds exec_rcmd s1 now rest) as [s2 o2]. cbn [fst snd] in *.
    rewrite upsf_app. exact H2.
  Qed.

  (* ---- the evictions -------------------------------------------------------------------------------------------------------- *)

  Lemma resolve_hosts_state : forall names s,
    s_cache (fst (resolve_hosts s now names)) = s_cache s /\ s_q (fst (resolve_hosts s now names)) = s_q s.
  Proof.
    induction names as [|h t IH]; intros s; simpl; [auto|].
    destruct (resolve_updated_state s now (dedup (get_instances_on_host (s_cache s) h))) as [A B].
    destruct (resolve_updated s now (dedup (get_instances_on_host (s_cache s) h))) as [s1 o1]. cbn [fst] in *.
    destruct (IH s1) as [C D]. destruct (resolve_hosts s1 now t) as [s2 o2]. cbn [fst] in *. split; congruence.
  Qed.

  Lemma no_addr_invalid c ty inst sb key :
    bm_get inst (c_srv c) = Some sb -> (forall e1, In e1 sb -> lower (srv_host e1) = key) ->
    bm_get key (c_addr c) = None -> is_valid (resolve_from_cache c now ty inst) = false.
  Proof.
    intros Esb Hk Hnone. unfold is_valid, resolve_from_cache. cbn [rs_ty rs_name rs_host rs_addrs]. rewrite Esb.
    destruct (find (fun e => negb (expires_soon e now)) sb) as [e1|] eqn:Ef.
    - apply find_some in Ef as [He1 _]. unfold get_addr. rewrite (Hk e1 He1), Hnone. simpl. now rewrite !orb_true_r.
    - simpl. now rewrite orb_true_r.
  Qed.

  (* present, or waiting for the host's turn in resolve_hosts *)
  Definition presentW (c2 : cache) (names : list bytes) (ty inst : bytes) : Prop :=
    exists pb p sb e,
      bm_get ty (c_ptr c2) = Some pb /\ In p pb /\ alias_of (e_rr p) = inst
      /\ bm_get inst (c_srv c2) = Some sb /\ In e sb
      /\ ((exists ab a, bm_get (lower (srv_host e)) (c_addr c2) = Some ab /\ In a ab)
          \/ (bm_get (lower (srv_host e)) (c_addr c2) = None
              /\ exists h, In h names /\ lower h = lower (srv_host e))).

  Definition WI (s : st) (ups : list up_entry) (names : list bytes) : Prop :=
    forall ch ty inst, In (ch, (ty, inst)) ups -> q_get ty (s_q s) = Some ch ->
      presentW (s_cache s) names ty inst /\ mem inst (s_resolved s) = true.

  Lemma resolve_hosts_stepW L : forall names s ups m,
    Inv L (s_cache s) -> incl L Lf -> WI s ups names -> sideU (s_q s) ups m -> hosts_hidden s now names = false ->
    goodT L (fst (resolve_hosts s now names)) (upsf ups (snd (resolve_hosts s now names))) m.
  Proof.
    induction names as [|h t IH]; intros s ups m HI Hsub HW (S1 & S2) Hhid; simpl in *.
    - split; [exact HI|]. split; [exact Hsub|]. split; [|split; assumption].
      intros ch ty inst Hu Hq. destruct (HW ch ty inst Hu Hq) as [(pb & p & sb & e & A1 & A2 & A3 & A4 & A5 & Hd) Hm].
      split; [|exact Hm]. destruct Hd as [(ab & a & B1 & B2)|(_ & h & [] & _)].
      exists pb, p, sb, e, ab, a. repeat (split; [assumption|]). assumption.
    - apply orb_false_iff in Hhid as [Hh1 Hh2].
      set (upd := dedup (get_instances_on_host (s_cache s) h)) in *.
      destruct (resolve_updated_state s now upd) as [Ec Eq].
      pose proof (fun ty ch pb p inst => stays_resolved L s upd ty ch pb p inst HI Hsub) as Hsr.
      pose proof (resolve_updated_stays s now upd) as Hstay.
      pose proof (resolve_updated_resolved_full s now upd) as Hsrc.
      pose proof (invalid_reported_under_every_name s now upd) as Hrep.
      destruct (resolve_updated s now upd) as [s1 o1]. cbn [fst snd] in *.
      assert (HW1 : WI s1 (upsf ups o1) t).
      { intros ch ty inst Hu Hq. rewrite Eq in Hq. rewrite Ec.
        apply upsf_In in Hu as [[Hin Hno]|(r & Hr & Hs)]; cbn [fst snd] in *.
        - destruct (HW ch ty inst Hin Hq) as [(pb & p & sb & e & Epb & Hpin & Hal & Esb & He & Hd) Hm].
          split; [|exact (Hsr ty ch pb p inst Epb Hpin Hal Hq Hm Hh1 Hno)].
          exists pb, p, sb, e. repeat (split; [assumption|]).
          destruct Hd as [Hd|(Hnone & h' & Hin' & Hlow)]; [now left|right].
          split; [exact Hnone|]. destruct (beq (lower h) (lower (srv_host e))) eqn:Eh.
          + exfalso. apply beq_eq in Eh.
            assert (Hkeys : forall e1, In e1 sb -> lower (srv_host e1) = lower (srv_host e)).
            { intros e1 He1. apply (one_srv_target Lf Htgt L (s_cache s) HI Hsub inst sb e1 e (bm_get_In _ _ _ Esb) He1 He). }
            assert (Hupd : mem inst upd = true).
            { apply mem_In. unfold upd. apply In_dedup. unfold get_instances_on_host. apply in_flat_map.
              exists (inst, sb). split; [now apply bm_get_In|]. simpl. destruct sb as [|e0 rest]; [destruct He|].
              rewrite (Hkeys e0 (or_introl eq_refl)), <- Eh, beq_refl. now left. }
            pose proof (no_addr_invalid (s_cache s) ty inst sb _ Esb Hkeys Hnone) as Hinv.
            destruct (expires_soon p now) eqn:Es.
            * assert (hidden_in_resolve s now upd = true); [|congruence].
              unfold hidden_in_resolve. apply existsb_exists. exists (ty, ch). split; [now apply q_get_In|].
              cbn [fst]. rewrite Epb. apply existsb_exists. exists p. split; [exact Hpin|].
              cbv zeta. rewrite Hal, Es, Hupd, Hm, Hinv. reflexivity.
            * apply (Hno ty). rewrite <- Hal.
              apply (Hrep ty ch pb p (bm_get_In _ _ _ Epb) Hq Hpin Es); rewrite Hal; assumption.
          + exists h'. split; [|exact Hlow]. destruct Hin' as [<-|Hin']; [|exact Hin'].
            rewrite Hlow, beq_refl in Eh. discriminate.
        - inversion Hs; subst ty inst.
          destruct (Hsrc ch r Hr) as (ty0 & ptrs & p & A & B & C & E & F & G). subst r.
          cbn [rs_ty rs_name resolve_from_cache].
          assert (Epb : bm_get ty0 (c_ptr (s_cache s)) = Some ptrs)
            by (apply In_bm_get; [apply (Inv_nodup L _ KPtr HI)|exact A]).
          destruct (valid_alive (s_cache s) now ty0 (alias_of (e_rr p)) ptrs p Epb C eq_refl E G) as [V1 _].
          split; [|exact (Hstay ch _ Hr)].
          apply alive_elim in V1 as (pb & p1 & sb & e & ab & a & A1 & A2 & A3 & _ & A5 & A6 & _ & _ & A9 & A10 & _).
          exists pb, p1, sb, e. repeat (split; [assumption|]). left. exists ab, a. auto. }
      assert (HS1 : sideU (s_q s1) (upsf ups o1) m).
      { rewrite Eq. split; [exact S1|]. intros u Hu. apply upsf_In in Hu as [[Hin _]|(r & Hr & _)]; [now apply S2|].
        destruct (Hsrc (fst u) r Hr) as (ty0 & ptrs & p & _ & B & _). apply q_get_In in B. exact (S1 _ B). }
      assert (HI1 : Inv L (s_cache s1)) by (rewrite Ec; exact HI).
      pose proof (IH s1 _ m HI1 Hsub HW1 HS1 Hh2) as H2.
      destruct (resolve_hosts s1 now t) as [s2 o2]. cbn [fst snd] in *. rewrite upsf_app. exact H2.
  Qed.

  Lemma evict_stepT L s ups m :
    goodT L s ups m -> evict_hidden s now = false ->
    goodT L (fst (evict s now)) (upsf ups (snd (evict s now))) m /\ all_live (s_cache (fst (evict s now))) now.
  Proof.
    intros (HI & Hsub & HU & (S1 & S2)) Hhid. unfold evict, evict_hidden in *.
    pose proof (cshr_evict_services L (s_cache s) now HI) as Hs1.
    pose proof (evict_services_cache (s_cache s) now) as Hc1.
    pose proof (evict_services_reports_expired_ptr (s_cache s) now) as Hrp.
    pose proof (evict_services_reports_srv_expiry (s_cache s) now) as Hrs.
    pose proof (evict_all_live (s_cache s) now) as Hlive.
    destruct (evict_services (s_cache s) now) as [c1 expired]. cbn [fst snd] in *.
    assert (H1 : Inv L c1) by (eapply Inv_shr; eauto).
    pose proof (cshr_evict_addr L c1 now H1) as Hs2.
    unfold evict_addr in *. cbn [fst snd] in *.
    set (names := flat_map (fun kb => map e_name (filter (fun e => is_expired e now) (snd kb))) (c_addr c1)) in *.
    set (c2 := mkCache (c_ptr c1) (c_srv c1) (c_txt c1) (sweep now (c_addr c1)) (c_nsec c1) (c_sub c1)) in *.
    assert (H2 : Inv L c2) by (eapply Inv_shr; eauto).
    set (o1 := notify_removal (s_q s) expired).
    assert (HW : WI (with_cache s c2) (upsf ups o1) (dedup names)).
    { intros ch ty inst Hu Hq. cbn [s_q s_cache s_resolved with_cache] in *.
      apply upsf_In in Hu as [[Hin Hno]|(r & Hr & _)]; cbn [fst snd] in *.
      2:{ apply notify_removal_shape in Hr as (c0 & t & i & E & _). discriminate. }
      destruct (HU ch ty inst Hin Hq) as [(pb & p & sb & e & ab & a & Epb & Hpin & Hal & Esb & He & Eab & Ha) Hm].
      split; [|exact Hm].
      pose proof (bm_get_In _ _ _ Epb) as Hb. pose proof (bm_get_In _ _ _ Esb) as Hsb.
      pose proof (q_get_In _ _ _ Hq) as Hqin.
      (* the PTR is unexpired, or it was reported *)
      destruct (is_expired p now) eqn:Ex.
      { exfalso. apply (Hno ty). apply notify_removal_complete; [exact Hqin|]. rewrite <- Hal. exact (Hrp ty pb p Hb Hpin Ex). }
      (* an SRV is unexpired, or the instance was reported *)
      destruct (live_only now sb) as [|e1 rest1] eqn:El.
      { exfalso. apply (Hno ty). apply notify_removal_complete; [exact Hqin|]. rewrite <- Hal.
        apply (Hrs ty pb p sb Hb Hpin); [rewrite Hal; exact Hsb|exact El]. }
      assert (He1 : In e1 (live_only now sb)) by (rewrite El; now left).
      pose proof (proj1 (proj1 (live_only_In now sb e1) He1)) as He1sb.
      assert (Hk1 : lower (srv_host e1) = lower (srv_host e))
        by (apply (one_srv_target Lf Htgt L (s_cache s) HI Hsub inst sb e1 e Hsb He1sb He)).
      exists (live_only now pb), p, (live_only now sb), e1.
      split. { unfold c2. cbn [c_ptr]. rewrite Hc1. cbn [c_ptr]. now rewrite bm_get_map_live_only, Epb. }
      split. { apply live_only_In. auto. }
      split; [exact Hal|].
      split. { unfold c2. cbn [c_srv]. apply In_bm_get; [apply (Inv_nodup L c2 KSrv H2)|].
               rewrite Hc1. cbn [c_srv]. apply sweep_In. exists sb. rewrite El. split; [exact Hsb|]. split; [reflexivity|discriminate]. }
      split; [exact He1|]. rewrite Hk1.
      assert (Haddr1 : c_addr c1 = c_addr (s_cache s)) by (rewrite Hc1; reflexivity).
      pose proof (bm_get_In _ _ _ Eab) as Hab.
      destruct (live_only now ab) as [|a1 rest2] eqn:Ela.
      - right. split.
        + unfold c2. cbn [c_addr]. rewrite Haddr1.
          apply (sweep_get_dead now _ ab _ (Inv_nodup L _ KAddr HI) Hab Ela).
        + exists (e_name a). split.
          * apply In_dedup. unfold names. rewrite Haddr1. apply in_flat_map. exists (lower (srv_host e), ab).
            split; [exact Hab|]. simpl. apply in_map. apply filter_In. split; [exact Ha|].
            destruct (is_expired a now) eqn:Exa; [reflexivity|]. exfalso.
            assert (In a (live_only now ab)) by (apply live_only_In; auto). rewrite Ela in H. destruct H.
          * destruct (entry_delivery Lf L (s_cache s) HI Hsub KAddr _ ab a Hab Ha) as (d & _ & _ & _ & Hkey).
            simpl in Hkey. symmetry. exact Hkey.
      - left. exists (live_only now ab), a1. split; [|rewrite Ela; now left].
        unfold c2. cbn [c_addr]. apply In_bm_get; [apply (Inv_nodup L c2 KAddr H2)|].
        rewrite Haddr1. apply sweep_In. exists ab. rewrite Ela. split; [exact Hab|]. split; [reflexivity|discriminate]. }
    assert (HS : sideU (s_q (with_cache s c2)) (upsf ups o1) m).
    { split; [exact S1|]. intros u Hu. apply upsf_In in Hu as [[Hin _]|(r & Hr & _)]; [now apply S2|].
      apply notify_removal_shape in Hr as (c0 & t & i & E & _). discriminate. }
    pose proof (resolve_hosts_stepW L (dedup names) (with_cache s c2) _ m H2 Hsub HW HS Hhid) as Hfin.
    destruct (resolve_hosts_state (dedup names) (with_cache s c2)) as [Ecf _].
    destruct (resolve_hosts (with_cache s c2) now (dedup names)) as [s2 o2]. cbn [fst snd] in *.
    split; [rewrite upsf_app; exact Hfin|]. rewrite Ecf. cbn [s_cache with_cache]. exact Hlive.
  Qed.

  (* ---- one iteration ---------------------------------------------------------------------------------------------------------- *)
  Theorem iterate_timely ifs prev s it ups m m' :
    i_now it = now -> goodT prev s ups m -> incl (prev ++ iter_dlvs ifs it) Lf ->
    calls_fresh m (i_calls it) = Some m' -> (forall cl, In cl (i_calls it) -> call_ok cl) ->
    iter_hidden ifs s it = false ->
    goodT (prev ++ iter_dlvs ifs it) (fst (iterate ifs s it)) (upsf ups (snd (iterate ifs s it))) m'
    /\ all_live (s_cache (fst (iterate ifs s it))) now.
  Proof.
    intros Enow Hg Hsub Hfr Hok Hhid. unfold iterate, iter_hidden, iter_dlvs in *. cbv zeta in *. rewrite Enow in *.
    set (dgs := deliveries_in_order (i_dgrams it)) in *.
    apply orb_false_iff in Hhid as [Hh1 Hh2].
    pose proof (reads_stepT ifs dgs prev s ups m Hg Hsub Hh1) as St1.
    destruct (run_cmds (handle_read ifs) s now dgs) as [s1 o1]. cbn [fst snd] in *.
    pose proof (calls_stepT _ (i_calls it) s1 _ m m' St1 Hfr Hok) as St2.
    destruct (run_cmds exec_call s1 now (i_calls it)) as [s2 o2]. cbn [fst snd] in *.
    unfold run_retrans in *.
    set (keep := filter (fun tc => negb (fst tc <=? now)) (s_retrans s2)) in *.
    assert (Hg2 : goodT (prev ++ flat_map (dgram_dlvs ifs now) dgs)
                        (mkSt (s_cache s2) (s_q s2) (s_pending s2) (s_resolved s2) keep) (upsf (upsf ups o1) o2) m')
      by exact St2.
    pose proof (rcmds_stepT _ (map snd (filter (fun tc => fst tc <=? now) (s_retrans s2))) _ _ m' Hg2) as St3.
    destruct (run_cmds exec_rcmd (mkSt (s_cache s2) (s_q s2) (s_pending s2) (s_resolved s2) keep) now
                (map snd (filter (fun tc => fst tc <=? now) (s_retrans s2)))) as [s3 o3]. cbn [fst snd] in *.
    pose proof St3 as (HI3 & Hsub3 & HU3 & HS3).
    pose proof (refresh_all_silent now (s_q s3) (s_cache s3)) as Q4.
    pose proof (ceqr_refresh_all now (s_q s3) (s_cache s3)) as C4.
    destruct (refresh_all_spec prev (flat_map (dgram_dlvs ifs now) dgs) now (s_q s3) (s_cache s3) HI3) as [HI4 _].
    destruct (refresh_all (s_cache s3) now (s_q s3)) as [c4 o4]. cbn [fst snd] in *.
    pose proof (keeps_stepT _ s3 _ m' (with_cache s3 c4) o4 St3 HI4 (keeps_ceqr _ _ C4) eq_refl eq_refl Q4) as St4.
    destruct (evict_stepT _ (with_cache s3 c4) _ m' St4 Hh2) as [St5 Hl].
    destruct (evict (with_cache s3 c4) now) as [s5 o5]. cbn [fst snd] in *.
    split; [|exact Hl]. rewrite !upsf_app. exact St5.
  Qed.
End Timely.

(* ---- the checker on the model's trace: no F05_dead ---------------------------------------------------------------- *)

Definition no_dead (fs : list fail) : Prop := forall f, In f fs -> is_dead_fail f = false.

Lemma no_dead_app a b : no_dead a -> no_dead b -> no_dead (a ++ b).
Proof. intros Ha Hb f Hf. apply in_app_iff in Hf as [Hf|Hf]; auto. Qed.

Lemma no_dead_nil : no_dead [].
Proof. intros f []. Qed.

Lemma fold_ev05_ups k now snaps log : forall o ups D fs,
  no_dead fs ->
  let r := fold_left (ev05 k now snaps log) (evs o) (ups, D, fs) in
  no_dead (snd r) /\ fst (fst r) = upsf ups o.
Proof.
  induction o as [|x t IH]; intros ups D fs Hfs; simpl; [auto|].
  rewrite evs_cons. rewrite fold_left_app.
  destruct x as [c [ty i|r|ty i]|qs|c l]; simpl in *.
  - apply (IH ups D fs Hfs).
  - apply IH. match goal with |- context [if ?b then _ else _] => destruct b end; [|exact Hfs].
    apply no_dead_app; [exact Hfs|]. intros f [<-|[]]. reflexivity.
  - apply IH. match goal with |- context [if ?b then _ else _] => destruct b end; [exact Hfs|].
    apply no_dead_app; [exact Hfs|]. intros f [<-|[]]. reflexivity.
  - apply (IH ups D fs Hfs).
  - apply (IH ups D fs Hfs).
Qed.

Lemma step05_dead ifs k t it w o s1 :
  tracks s1 (snd (iter_snaps ifs (t5_sp t) it)) -> UI s1 (upsf (t5_ups t) o) -> all_live (s_cache s1) (i_now it) ->
  no_dead (snd (step05 ifs k t it w (obs_of o)))
  /\ t5_sp (fst (step05 ifs k t it w (obs_of o))) = snd (iter_snaps ifs (t5_sp t) it)
  /\ t5_ups (fst (step05 ifs k t it w (obs_of o)))
     = ups_current (sp_q (snd (iter_snaps ifs (t5_sp t) it))) (upsf (t5_ups t) o).
Proof.
  intros Htr HU Hl. unfold step05. cbv zeta.
  destruct (iter_snaps ifs (t5_sp t) it) as [[ds sp2] sp3]. cbn [snd] in *.
  pose proof (fold_ev05_ups k (i_now it) (ds ++ [sp2; sp3]) (t5_log t ++ map (fun d => (k, d)) (iter_dlvs ifs it))
                o (t5_ups t) (t5_dead t) [] no_dead_nil) as Hf.
  cbv zeta in Hf. fold (evs o). revert Hf.
  destruct (fold_left (ev05 k (i_now it) (ds ++ [sp2; sp3]) (t5_log t ++ map (fun d => (k, d)) (iter_dlvs ifs it)))
                      (evs o) (t5_ups t, t5_dead t, [])) as [[ups1 dead1] fs1].
  intros Hf. cbn [fst snd] in Hf. destruct Hf as [Hf1 Hu]. cbn [fst snd t5_sp t5_ups]. subst ups1.
  split; [|split; reflexivity].
  destruct Htr as [Hc Hq].
  apply no_dead_app; [exact Hf1|]. apply no_dead_app.
  - intros f Hf. apply in_flat_map in Hf as [[ch [ty inst]] [Hin Hf]]. cbn [fst snd] in Hf.
    unfold ups_current in Hin. apply filter_In in Hin as [Hin Hcur]. cbn [fst snd] in Hcur.
    destruct (q_get ty (sp_q sp3)) as [ch'|] eqn:Eq; [|discriminate]. apply N.eqb_eq in Hcur. subst ch'.
    rewrite <- Hq in Eq. destruct (HU ch ty inst Hin Eq) as [Hp _].
    rewrite <- (alive_weak_ceqr _ _ (i_now it) ty inst Hc) in Hf.
    rewrite (present_alive_weak _ _ ty inst Hl Hp) in Hf. destruct Hf.
  - intros f Hf. apply in_flat_map in Hf as [u [_ Hf]].
    match type of Hf with In f (if ?b then _ else _) => destruct b end; [destruct Hf|]. destruct Hf as [<-|[]]. reflexivity.
Qed.

Section HistoryT.
  Variable Lf : list dlv.
  Hypothesis Hvar : known_ptr_variant Lf = false.
  Hypothesis Htgt : known_srv_targets Lf = false.
  Hypothesis Hnames : ptr_names_ok Lf = true.

  Lemma viol05_no_dead ifs : forall h k t s prev wakes m,
    Inv prev (s_cache s) -> tracks s (t5_sp t) ->
    incl (prev ++ flat_map (iter_dlvs ifs) h) Lf ->
    UI s (t5_ups t) -> sideU (s_q s) (t5_ups t) m ->
    fresh_channels_from m h = true ->
    (forall it cl, In it h -> In cl (i_calls it) -> call_ok Lf cl) ->
    known_hidden_from ifs s h = false ->
    no_dead (viol05_from ifs k t h wakes (map obs_of (run_from ifs s h))).
  Proof.
    induction h as [|it h IH]; intros k t s prev wakes m HI Htr Hsub HU HS Hfr Hok Hhid.
    - simpl. destruct wakes; simpl; intros f Hf; [destruct Hf|destruct Hf as [<-|[]]; reflexivity].
    - simpl in Hfr, Hhid. destruct (calls_fresh m (i_calls it)) as [m'|] eqn:Ecf; [|discriminate].
      apply orb_false_iff in Hhid as [Hh1 Hh2].
      assert (Hsub1 : incl (prev ++ iter_dlvs ifs it) Lf).
      { intros x Hx. apply Hsub. simpl. rewrite !in_app_iff in *. tauto. }
      assert (Hg : goodT Lf prev s (t5_ups t) m).
      { split; [exact HI|]. split; [intros x Hx; apply Hsub, in_app_iff; now left|]. split; assumption. }
      destruct (iterate_timely Lf Htgt Hnames (i_now it) ifs prev s it (t5_ups t) m m' eq_refl Hg Hsub1 Ecf
                  (fun cl Hcl => Hok it cl (or_introl eq_refl) Hcl) Hh1) as [(HI1 & _ & HU1 & HS1) Hl].
      pose proof (tracks_iterate ifs s (t5_sp t) it Htr) as Htr1.
      simpl. destruct (iterate ifs s it) as [s1 o] eqn:Eit. cbn [fst snd] in *.
      destruct wakes as [|w wakes']; [intros f [<-|[]]; reflexivity|].
      simpl. destruct (step05_dead ifs k t it w o s1 Htr1 HU1 Hl) as (Hs1 & Hs2 & Hs3).
      destruct (step05 ifs k t it w (obs_of o)) as [t1 fs] eqn:Est. cbn [fst snd] in *.
      apply no_dead_app; [assumption|].
      assert (Hinc : incl (t5_ups t1) (upsf (t5_ups t) o))
        by (rewrite Hs3; intros y Hy; apply filter_In in Hy; tauto).
      apply (IH (k + 1) t1 s1 (prev ++ iter_dlvs ifs it) wakes' m' HI1).
      + rewrite Hs2. exact Htr1.
      + intros x Hx. apply Hsub. simpl. rewrite !in_app_iff in *. tauto.
      + intros ch ty inst Hu Hq. apply (HU1 ch ty inst (Hinc _ Hu) Hq).
      + destruct HS1 as [A B]. split; [exact A|]. intros u Hu. apply B, Hinc, Hu.
      + exact Hfr.
      + intros it0 cl Hit Hcl. apply (Hok it0 cl (or_intror Hit) Hcl).
      + exact Hh2.
  Qed.
End HistoryT.

(* C05, timeliness: outside the known classes the checker never reports "still reported resolved
   at the end of an iteration although PTR, SRV or every address of the SRV's host has run out"
   on the model's trace - whatever the wake-ups: in the first iteration at or after the instant
   a goodbye's second, a TTL or a verify deadline runs out, the ServiceRemoved is emitted. *)
Theorem removed_on_time ifs h wakes :
  wf_history h = true -> timely_class ifs h = true ->
  forall f, In f (viol_C05 ifs h wakes (map obs_of (run_history ifs h))) -> is_dead_fail f = false.
Proof.
  intros _ Hcls. unfold timely_class in Hcls.
  apply andb_true_iff in Hcls as [Hcls Hhid]. apply andb_true_iff in Hcls as [Hcls Hstop].
  apply andb_true_iff in Hcls as [Hsafe Hfr]. apply negb_true_iff in Hhid, Hstop.
  unfold safe_class in Hsafe.
  apply andb_true_iff in Hsafe as [Hsafe Hn]. apply andb_true_iff in Hsafe as [Hv Ht].
  apply negb_true_iff in Hv, Ht.
  unfold viol_C05, run_history.
  apply (viol05_no_dead (log_of_history ifs h) Ht Hn ifs h 0 _ init_st [] wakes 0).
  - apply Inv_empty.
  - split; [apply ceqr_refl|reflexivity].
  - simpl. apply incl_refl.
  - intros ch ty inst [].
  - split; [intros tc []|intros u []].
  - exact Hfr.
  - intros it cl Hit Hcl. destruct cl as [ty ch|ty2|inst timeout|ch]; simpl; try exact I.
    intros d d' Hd Hd' T1 N1 T2 N2 Ha. unfold known_stop_second_name in Hstop.
    pose proof (existsb_false_forall _ _ (existsb_false_forall _ _ Hstop it Hit) (CStop ty2) Hcl) as H1. cbv beta in H1.
    pose proof (existsb_false_forall _ _ H1 d Hd) as H2. cbv beta in H2.
    rewrite T1, N1, N.eqb_refl, beq_refl in H2. simpl in H2.
    pose proof (existsb_false_forall _ _ H2 d' Hd') as H3. cbv beta in H3.
    rewrite T2, N.eqb_refl, Ha, beq_refl in H3. simpl in H3. rewrite andb_true_r in H3.
    apply negb_false_iff in H3. apply beq_eq in H3. contradiction.
  - exact Hhid.
Qed.
