(* The cache invariant behind C03: every cached record is the LATEST delivery of its identity,
   created at that delivery's time, expiring no later than its TTL allows, and no later than one
   second after any later cache-flush delivery that displaces it (`Inv L c`, L = the log of
   deliveries processed so far).  add_or_update extends the log by one delivery and preserves
   the invariant; every other cache operation only removes records, lowers expiry times or
   moves refresh marks (`cshr`) and preserves it for the same log. *)
From Coq Require Import List NArith Bool Lia.
From Mdns Require Import Bytes Rec ParamsBrowser ParamsBrowserPinned Cache Browser C03Spec CacheProofs.
Import ListNotations.
Open Scope N_scope.

(* ---- the invariant ------------------------------------------------------------------------------ *)

Definition entry_ok (L : list dlv) (k : kind) (key : bytes) (e : entry) : Prop :=
  kind_of_type (e_type e) = Some k /\ key = key_of k (e_name e) /\
  exists L1 d L2, L = L1 ++ d :: L2 /\ dl_rr d = e_rr e /\ dl_t d = e_created e
    /\ (is_addr_type (e_type e) = true -> dl_if d = e_if e)
    /\ (forall d', In d' L2 -> same_key d d' = false)
    /\ e_expires e <= e_created e + 1000 * e_ttl e
    /\ (forall f, In f L2 -> displaces f d = true -> e_expires e <= dl_t f + 1000).

Definition nodup_bucket (b : bucket) : Prop :=
  ForallOrdPairs (fun x y => entry_matches x (e_rr y) (e_if y) = false) b.

Definition map_ok (L : list dlv) (k : kind) (m : bmap) : Prop :=
  NoDup (map fst m) /\
  forall key b, In (key, b) m -> nodup_bucket b /\ forall e, In e b -> entry_ok L k key e.

Definition Inv (L : list dlv) (c : cache) : Prop := forall k, map_ok L k (get_map c k).

Lemma Inv_empty : Inv [] empty_cache.
Proof. intros k. destruct k; (split; [constructor|intros ? ? []]). Qed.

Lemma Inv_ext L c c' : (forall k, get_map c' k = get_map c k) -> Inv L c -> Inv L c'.
Proof. intros H HI k. rewrite H. apply HI. Qed.

Lemma nodup_keys_functional (m : bmap) k b1 b2 :
  NoDup (map fst m) -> In (k, b1) m -> In (k, b2) m -> b1 = b2.
Proof.
  intros ND H1 H2. apply (In_bm_get _ _ _ ND) in H1. apply (In_bm_get _ _ _ ND) in H2. congruence.
Qed.

(* ---- identity of an entry does not depend on ttl / times ------------------------------------------ *)

Definition id_eq (e e' : entry) : Prop := set_ttl (e_rr e) 0 = set_ttl (e_rr e') 0 /\ e_if e = e_if e'.

Lemma id_eq_refl e : id_eq e e.
Proof. split; reflexivity. Qed.

Lemma rr_matches_ttl0_l a ai b bi : rr_matches a ai b bi = rr_matches (set_ttl a 0) ai b bi.
Proof. reflexivity. Qed.
Lemma rr_matches_ttl0_r a ai b bi : rr_matches a ai b bi = rr_matches a ai (set_ttl b 0) bi.
Proof. reflexivity. Qed.

Lemma id_eq_matches_l e e' r i : id_eq e e' -> entry_matches e r i = entry_matches e' r i.
Proof.
  intros [H1 H2]. unfold entry_matches. rewrite (rr_matches_ttl0_l (e_rr e)), (rr_matches_ttl0_l (e_rr e')).
  now rewrite H1, H2.
Qed.

Lemma id_eq_matches_r x e e' : id_eq e e' ->
  entry_matches x (e_rr e) (e_if e) = entry_matches x (e_rr e') (e_if e').
Proof.
  intros [H1 H2]. unfold entry_matches.
  rewrite (rr_matches_ttl0_r _ _ (e_rr e)), (rr_matches_ttl0_r _ _ (e_rr e')). now rewrite H1, H2.
Qed.

Lemma nodup_bucket_id b b' : Forall2 id_eq b b' -> nodup_bucket b -> nodup_bucket b'.
Proof.
  intros HF. induction HF as [|x x' l l' Hx HF IH]; intros ND; [constructor|].
  inversion ND as [|? ? Hall Hrest]; subst. constructor; [|apply IH; exact Hrest].
  clear IH Hrest ND. induction HF as [|y y' t t' Hy HF IH]; [constructor|].
  inversion Hall as [|? ? Hy1 Hy2]; subst. constructor; [|apply IH; exact Hy2].
  rewrite <- (id_eq_matches_l x x' _ _ Hx). now rewrite <- (id_eq_matches_r x y y' Hy).
Qed.

(* ---- shrinking --------------------------------------------------------------------------------------- *)

Definition eshr (e e' : entry) : Prop :=
  e_rr e' = e_rr e /\ e_created e' = e_created e /\ e_if e' = e_if e /\ e_expires e' <= e_expires e.

Lemma eshr_refl e : eshr e e.
Proof. repeat split; auto. lia. Qed.

Lemma eshr_trans a b c : eshr a b -> eshr b c -> eshr a c.
Proof. intros (A1 & A2 & A3 & A4) (B1 & B2 & B3 & B4). repeat split; try congruence. lia. Qed.

Lemma eshr_id e e' : eshr e e' -> id_eq e e'.
Proof. intros (H1 & _ & H3 & _). split; congruence. Qed.

Inductive bshr : bucket -> bucket -> Prop :=
| bshr_nil : bshr [] []
| bshr_drop e b b' : bshr b b' -> bshr (e :: b) b'
| bshr_keep e e' b b' : eshr e e' -> bshr b b' -> bshr (e :: b) (e' :: b').

Lemma bshr_refl b : bshr b b.
Proof. induction b; [constructor|apply bshr_keep; auto using eshr_refl]. Qed.

Lemma bshr_in b b' e' : bshr b b' -> In e' b' -> exists e, In e b /\ eshr e e'.
Proof.
  intros H. induction H as [|e b b' H IH|e e1 b b' He H IH]; simpl; [tauto| |].
  - intros Hi. destruct (IH Hi) as [x [Hx1 Hx2]]. exists x. auto.
  - intros [Hi|Hi]; [subst; exists e; auto|]. destruct (IH Hi) as [x [Hx1 Hx2]]. exists x. auto.
Qed.

Lemma bshr_nil_inv b' : bshr [] b' -> b' = [].
Proof. intros H. inversion H. reflexivity. Qed.

Lemma bshr_trans a b c : bshr a b -> bshr b c -> bshr a c.
Proof.
  intros H. revert c. induction H as [|e b b' H IH|e e1 b b' He H IH]; intros c Hc.
  - assumption.
  - apply bshr_drop. auto.
  - inversion Hc; subst.
    + apply bshr_drop. auto.
    + apply bshr_keep; [eapply eshr_trans; eauto|auto].
Qed.

Lemma bshr_filter p b : bshr b (filter p b).
Proof.
  induction b as [|e b IH]; simpl; [constructor|].
  destruct (p e); [apply bshr_keep; auto using eshr_refl|apply bshr_drop; auto].
Qed.

Lemma bshr_map f b : (forall e, eshr e (f e)) -> bshr b (map f b).
Proof. intros Hf. induction b; simpl; [constructor|apply bshr_keep; auto]. Qed.

Lemma bshr_nodup b b' : nodup_bucket b -> bshr b b' -> nodup_bucket b'.
Proof.
  intros ND H. induction H as [|e b b' H IH|e e1 b b' He H IH].
  - constructor.
  - inversion ND; subst. apply IH. assumption.
  - inversion ND as [|? ? Hall Hrest]; subst. constructor; [|apply IH; exact Hrest].
    apply Forall_forall. intros x' Hx'. destruct (bshr_in _ _ _ H Hx') as [x [Hx Hs]].
    rewrite Forall_forall in Hall. specialize (Hall x Hx).
    rewrite <- (id_eq_matches_l e e1 _ _ (eshr_id _ _ He)).
    now rewrite <- (id_eq_matches_r e x x' (eshr_id _ _ Hs)).
Qed.

Lemma entry_ok_shr L k key e e' : entry_ok L k key e -> eshr e e' -> entry_ok L k key e'.
Proof.
  intros (Hk & Hkey & L1 & d & L2 & HL & Hrr & Ht & Hif & Hsame & Hexp & Hdis) (S1 & S2 & S3 & S4).
  unfold entry_ok, e_type, e_name, e_ttl in *. rewrite S1. split; [assumption|]. split; [assumption|].
  exists L1, d, L2. rewrite S2, S3. repeat split; auto; try congruence.
  - lia.
  - intros f Hf Hd. specialize (Hdis f Hf Hd). lia.
Qed.

(* m' is obtained from m by shrinking / emptying / dropping buckets, or adding empty ones *)
Definition mshr (m m' : bmap) : Prop :=
  NoDup (map fst m') /\
  forall key b', In (key, b') m' -> b' = [] \/ exists b, In (key, b) m /\ bshr b b'.

Lemma map_ok_shr L k m m' : map_ok L k m -> mshr m m' -> map_ok L k m'.
Proof.
  intros [ND H] [ND' H']. split; [assumption|]. intros key b' Hin.
  destruct (H' key b' Hin) as [->|[b [Hb Hs]]].
  - split; [constructor|intros ? []].
  - destruct (H key b Hb) as [Hn He]. split; [eapply bshr_nodup; eauto|].
    intros e' He'. destruct (bshr_in _ _ _ Hs He') as [e [Hie Hse]]. eapply entry_ok_shr; eauto.
Qed.

Lemma mshr_refl m : NoDup (map fst m) -> mshr m m.
Proof. intros ND. split; [assumption|]. intros key b Hin. right. exists b. auto using bshr_refl. Qed.

Lemma mshr_trans a b c : mshr a b -> mshr b c -> mshr a c.
Proof.
  intros [_ H1] [ND H2]. split; [assumption|]. intros key b'' Hin.
  destruct (H2 key b'' Hin) as [->|[b' [Hb' Hs']]]; [now left|].
  destruct (H1 key b' Hb') as [->|[b0 [Hb0 Hs0]]].
  - left. now apply bshr_nil_inv.
  - right. exists b0. split; [assumption|]. eapply bshr_trans; eauto.
Qed.

Lemma mshr_bm_set m key b b' :
  NoDup (map fst m) -> (b' = [] \/ (In (key, b) m /\ bshr b b')) -> mshr m (bm_set key b' m).
Proof.
  intros ND Hb. split; [now apply bm_set_nodup|]. intros k1 b1 Hin.
  apply bm_set_In in Hin as [[-> ->]|Hin].
  - destruct Hb as [->|[Hb1 Hb2]]; [now left|right; eauto].
  - right. exists b1. auto using bshr_refl.
Qed.

Lemma mshr_bm_remove m key : NoDup (map fst m) -> mshr m (bm_remove key m).
Proof.
  intros ND. split; [now apply bm_remove_nodup|]. intros k1 b1 Hin. apply bm_remove_In in Hin.
  right. exists b1. auto using bshr_refl.
Qed.

Lemma mshr_nodup_l m m' : mshr m m' -> NoDup (map fst m').
Proof. now intros [H _]. Qed.

Definition cshr (c c' : cache) : Prop := forall k, mshr (get_map c k) (get_map c' k).

Lemma Inv_shr L c c' : Inv L c -> cshr c c' -> Inv L c'.
Proof. intros HI HS k. eapply map_ok_shr; [apply HI|apply HS]. Qed.

Lemma Inv_nodup L c k : Inv L c -> NoDup (map fst (get_map c k)).
Proof. intros H. apply (H k). Qed.

Lemma cshr_refl L c : Inv L c -> cshr c c.
Proof. intros H k. apply mshr_refl. eapply Inv_nodup; eauto. Qed.

Lemma cshr_trans a b c : cshr a b -> cshr b c -> cshr a c.
Proof. intros H1 H2 k. eapply mshr_trans; eauto. Qed.

(* ---- the cache operations other than add_or_update only shrink ------------------------------------ *)

Lemma NoDup_map_filter {A B} (f : A -> B) (p : A -> bool) l :
  NoDup (map f l) -> NoDup (map f (filter p l)).
Proof.
  induction l as [|x l IH]; simpl; [auto|]. intros ND. inversion ND; subst.
  destruct (p x); simpl; [|auto]. constructor; [|auto].
  intros H. apply H1. apply in_map_iff in H as [y [Hy1 Hy2]]. apply filter_In in Hy2 as [Hy2 _].
  apply in_map_iff. eauto.
Qed.

Lemma sweep_keys_map now (m : bmap) :
  map fst (map (fun kb : bytes * bucket => (fst kb, live_only now (snd kb))) m) = map fst m.
Proof. rewrite map_map. reflexivity. Qed.

Lemma mshr_sweep now m : NoDup (map fst m) -> mshr m (sweep now m).
Proof.
  intros ND. unfold sweep. split.
  - apply NoDup_map_filter. now rewrite sweep_keys_map.
  - intros key b' Hin. apply filter_In in Hin as [Hin _]. apply in_map_iff in Hin as [[k0 b0] [H1 H2]].
    simpl in H1. inversion H1; subst. right. exists b0. split; [assumption|]. apply bshr_filter.
Qed.

Lemma mshr_evict_instances now ty ptrs se : forall txt txt' ex,
  NoDup (map fst txt) -> evict_instances now ty ptrs se txt = (txt', ex) -> mshr txt txt'.
Proof.
  induction ptrs as [|p rest IH]; intros txt txt' ex NDt; simpl.
  - intros H. inversion H; subst. now apply mshr_refl.
  - set (inst := alias_of (e_rr p)).
    set (txt1 := match bm_get inst txt with
                 | Some tb => bm_set inst (live_only now tb) txt
                 | None => txt
                 end).
    assert (Ht1 : mshr txt txt1).
    { unfold txt1. destruct (bm_get inst txt) as [tb|] eqn:Eg; [|now apply mshr_refl].
      apply (mshr_bm_set txt inst tb); [assumption|]. right. split; [now apply bm_get_In|apply bshr_filter]. }
    destruct (evict_instances now ty rest se txt1) as [txt2 ex2] eqn:E2.
    intros H. inversion H; subst.
    eapply mshr_trans; [exact Ht1|]. eapply IH; [apply (mshr_nodup_l _ _ Ht1)|exact E2].
Qed.

Lemma mshr_evict_types now se : forall ptr txt ptr' txt' ex,
  NoDup (map fst ptr) -> NoDup (map fst txt) ->
  evict_types now ptr se txt = (ptr', txt', ex) ->
  map fst ptr' = map fst ptr /\ mshr ptr ptr' /\ mshr txt txt'.
Proof.
  induction ptr as [|[ty ptrs] rest IH]; intros txt ptr' txt' ex NDp NDt; simpl.
  - intros H. inversion H; subst. split; [reflexivity|]. split; [apply mshr_refl; constructor|].
    now apply mshr_refl.
  - destruct (evict_instances now ty ptrs se txt) as [txt1 ex1] eqn:E1.
    destruct (evict_types now rest se txt1) as [[ptr2 txt2] ex2] eqn:E2.
    intros H. inversion H; subst. inversion NDp; subst.
    pose proof (mshr_evict_instances _ _ _ _ _ _ _ NDt E1) as B.
    destruct (IH txt1 ptr2 txt' ex2 H3 (mshr_nodup_l _ _ B) E2) as (K & P & T).
    split; [simpl; now rewrite K|]. split; [|eapply mshr_trans; eauto].
    split; [simpl; rewrite K; assumption|].
    intros key b' [Hin|Hin].
    + inversion Hin; subst. right. exists ptrs. split; [now left|apply bshr_filter].
    + destruct P as [_ P]. destruct (P key b' Hin) as [->|[b [Hb Hs]]]; [now left|].
      right. exists b. split; [now right|assumption].
Qed.

Lemma cshr_evict_services L c now : Inv L c -> cshr c (fst (evict_services c now)).
Proof.
  intros HI. unfold evict_services.
  destruct (evict_types now (c_ptr c) (srv_expired_of now (c_srv c)) (c_txt c)) as [[ptr1 txt1] ex] eqn:E.
  destruct (mshr_evict_types _ _ _ _ _ _ _ (Inv_nodup _ _ KPtr HI) (Inv_nodup _ _ KTxt HI) E) as (K & P & T).
  intros k; destruct k; simpl.
  - assumption.
  - apply mshr_sweep. apply (Inv_nodup _ _ KSrv HI).
  - eapply mshr_trans; [exact T|]. apply mshr_sweep. now apply (mshr_nodup_l _ _ T).
  - apply mshr_refl. apply (Inv_nodup _ _ KAddr HI).
  - apply mshr_sweep. apply (Inv_nodup _ _ KNsec HI).
Qed.

Lemma cshr_evict_addr L c now : Inv L c -> cshr c (fst (evict_addr c now)).
Proof.
  intros HI. unfold evict_addr. intros k; destruct k; simpl;
    try (apply mshr_refl; first [apply (Inv_nodup _ _ KPtr HI) | apply (Inv_nodup _ _ KSrv HI)
                                | apply (Inv_nodup _ _ KTxt HI) | apply (Inv_nodup _ _ KNsec HI)]).
  apply mshr_sweep. apply (Inv_nodup _ _ KAddr HI).
Qed.

Lemma mshr_fold_remove (l : list bytes) : forall m,
  NoDup (map fst m) -> mshr m (fold_left (fun m i => bm_remove i m) l m).
Proof.
  induction l as [|i l IH]; intros m ND; simpl; [now apply mshr_refl|].
  eapply mshr_trans; [apply mshr_bm_remove; assumption|]. apply IH. now apply bm_remove_nodup.
Qed.

Lemma mshr_fold_remove_if (still : list bytes) (l : list bytes) : forall m,
  NoDup (map fst m) ->
  mshr m (fold_left (fun m h => if mem h still then m else bm_remove h m) l m).
Proof.
  induction l as [|i l IH]; intros m ND; simpl; [now apply mshr_refl|].
  destruct (mem i still); [now apply IH|].
  eapply mshr_trans; [apply mshr_bm_remove; assumption|]. apply IH. now apply bm_remove_nodup.
Qed.

Lemma cshr_remove_service_type L c ty : Inv L c -> cshr c (remove_service_type c ty).
Proof.
  intros HI. unfold remove_service_type. destruct (bm_get ty (c_ptr c)) as [ptrs|]; [|eapply cshr_refl; eauto].
  intros k; destruct k; simpl.
  - apply mshr_bm_remove. apply (Inv_nodup _ _ KPtr HI).
  - apply mshr_fold_remove. apply (Inv_nodup _ _ KSrv HI).
  - apply mshr_fold_remove. apply (Inv_nodup _ _ KTxt HI).
  - apply mshr_fold_remove_if. apply (Inv_nodup _ _ KAddr HI).
  - apply mshr_refl. apply (Inv_nodup _ _ KNsec HI).
Qed.

Lemma eshr_expire_sooner e x : eshr e (expire_sooner e x).
Proof.
  destruct (expire_sooner_fields e x) as (A & B & C). repeat split; auto. apply expire_sooner_le.
Qed.

Lemma bshr_sooner_all at_ b : bshr b (sooner_all at_ b).
Proof.
  destruct at_ as [x|]; simpl; [|apply bshr_refl]. apply bshr_map. intros e. apply eshr_expire_sooner.
Qed.

Lemma mshr_verify_addrs at_ srvs : forall addr, NoDup (map fst addr) -> mshr addr (verify_addrs at_ srvs addr).
Proof.
  induction srvs as [|s rest IH]; intros addr ND; simpl; [now apply mshr_refl|].
  destruct (bm_get (lower (srv_host s)) addr) as [ab|] eqn:E; [|now apply IH].
  eapply mshr_trans.
  - apply (mshr_bm_set addr (lower (srv_host s)) ab (sooner_all at_ ab) ND). right.
    split; [now apply bm_get_In|apply bshr_sooner_all].
  - apply IH. now apply bm_set_nodup.
Qed.

Lemma cshr_verify L c inst at_ : Inv L c -> cshr c (fst (service_verify_queries c inst at_)).
Proof.
  intros HI. unfold service_verify_queries. destruct (bm_get inst (c_srv c)) as [sb|] eqn:E; simpl.
  2:{ eapply cshr_refl; eauto. }
  intros k; destruct k; simpl.
  - apply mshr_refl. apply (Inv_nodup _ _ KPtr HI).
  - apply (mshr_bm_set (c_srv c) inst sb); [apply (Inv_nodup _ _ KSrv HI)|]. right.
    split; [now apply bm_get_In|apply bshr_sooner_all].
  - apply mshr_refl. apply (Inv_nodup _ _ KTxt HI).
  - apply mshr_verify_addrs. apply (Inv_nodup _ _ KAddr HI).
  - apply mshr_refl. apply (Inv_nodup _ _ KNsec HI).
Qed.

Lemma bshr_refresh_bucket now b : bshr b (fst (refresh_bucket now b)).
Proof.
  induction b as [|e t IH]; simpl; [constructor|].
  destruct (refresh_maybe e now) as [e' due] eqn:E1. destruct (refresh_bucket now t) as [t' due'] eqn:E2.
  simpl in *. apply bshr_keep; [|assumption].
  destruct (refresh_maybe_fields e now) as (A & B & C & D). rewrite E1 in *. simpl in *.
  repeat split; auto. lia.
Qed.

Lemma mshr_refresh_key now k m : NoDup (map fst m) -> mshr m (fst (refresh_key now k m)).
Proof.
  intros ND. unfold refresh_key. destruct (bm_get k m) as [b|] eqn:E; [|now apply mshr_refl].
  destruct (refresh_bucket now b) as [b' due] eqn:E2. simpl.
  apply (mshr_bm_set m k b); [assumption|]. right. split; [now apply bm_get_In|].
  replace b' with (fst (refresh_bucket now b)) by now rewrite E2. apply bshr_refresh_bucket.
Qed.

Lemma mshr_refresh_srv_txt now insts : forall srv txt srv' txt' qs,
  NoDup (map fst srv) -> NoDup (map fst txt) ->
  refresh_srv_txt now insts srv txt = (srv', txt', qs) -> mshr srv srv' /\ mshr txt txt'.
Proof.
  induction insts as [|i rest IH]; intros srv txt srv' txt' qs NDs NDt; simpl.
  - intros H; inversion H; subst. split; now apply mshr_refl.
  - destruct (refresh_key now i srv) as [srv1 d1] eqn:E1. destruct (refresh_key now i txt) as [txt1 d2] eqn:E2.
    destruct (refresh_srv_txt now rest srv1 txt1) as [[srv2 txt2] q] eqn:E3.
    intros H; inversion H; subst.
    assert (A : mshr srv srv1) by (replace srv1 with (fst (refresh_key now i srv)) by (now rewrite E1);
                                   now apply mshr_refresh_key).
    assert (B : mshr txt txt1) by (replace txt1 with (fst (refresh_key now i txt)) by (now rewrite E2);
                                   now apply mshr_refresh_key).
    destruct (IH _ _ _ _ _ (mshr_nodup_l _ _ A) (mshr_nodup_l _ _ B) E3) as [C D].
    split; eapply mshr_trans; eauto.
Qed.

Lemma mshr_refresh_hosts now hosts : forall addr addr' qs,
  NoDup (map fst addr) -> refresh_hosts now hosts addr = (addr', qs) -> mshr addr addr'.
Proof.
  induction hosts as [|h rest IH]; intros addr addr' qs ND; simpl.
  - intros H; inversion H; subst. now apply mshr_refl.
  - destruct (refresh_key now (lower h) addr) as [addr1 d] eqn:E1.
    destruct (refresh_hosts now rest addr1) as [addr2 q] eqn:E2.
    intros H; inversion H; subst.
    assert (A : mshr addr addr1) by (replace addr1 with (fst (refresh_key now (lower h) addr)) by (now rewrite E1);
                                     now apply mshr_refresh_key).
    eapply mshr_trans; [exact A|]. eapply IH; [apply (mshr_nodup_l _ _ A)|exact E2].
Qed.

Lemma cshr_refresh_type L c ty now : Inv L c -> cshr c (fst (refresh_type c ty now)).
Proof.
  intros HI. unfold refresh_type.
  destruct (refresh_key now ty (c_ptr c)) as [ptr1 d0] eqn:E0. simpl.
  match goal with |- context [refresh_srv_txt now ?i ?s ?t] =>
    destruct (refresh_srv_txt now i s t) as [[srv1 txt1] q1] eqn:E1 end.
  match goal with |- context [refresh_hosts now ?h ?a] =>
    destruct (refresh_hosts now h a) as [addr1 q2] eqn:E2 end.
  destruct (mshr_refresh_srv_txt _ _ _ _ _ _ _ (Inv_nodup _ _ KSrv HI) (Inv_nodup _ _ KTxt HI) E1) as [A B].
  intros k; destruct k; simpl.
  - replace ptr1 with (fst (refresh_key now ty (c_ptr c))) by now rewrite E0.
    apply mshr_refresh_key. apply (Inv_nodup _ _ KPtr HI).
  - exact A.
  - exact B.
  - eapply mshr_refresh_hosts; [apply (Inv_nodup _ _ KAddr HI)|exact E2].
  - apply mshr_refl. apply (Inv_nodup _ _ KNsec HI).
Qed.

(* ---- add_or_update extends the log by one delivery ------------------------------------------------- *)

Lemma same_key_entry d e r ifx now :
  dl_rr d = e_rr e -> (is_addr_type (e_type e) = true -> dl_if d = e_if e) ->
  same_key d (mkDlv now ifx r) = entry_matches e r ifx.
Proof.
  intros H1 H2. unfold same_key, entry_matches, rr_matches. simpl. rewrite H1.
  unfold e_type in H2. destruct (is_addr_type (r_type (e_rr e))); [|reflexivity]. now rewrite H2.
Qed.

Lemma same_bucket_inv a b ka :
  same_bucket a b = true -> kind_of_type (r_type b) = Some ka ->
  kind_of_type (r_type a) = Some ka /\ key_of ka (r_name a) = key_of ka (r_name b).
Proof.
  unfold same_bucket. intros H Hb. rewrite Hb in H.
  destruct (kind_of_type (r_type a)) as [k|]; [|discriminate].
  apply andb_true_iff in H as [H1 H2]. apply beq_eq in H2.
  destruct k, ka; simpl in H1; try discriminate; auto.
Qed.

Lemma entry_ok_snoc_other L k key e d' :
  entry_ok L k key e ->
  (kind_of_type (r_type (dl_rr d')) = Some k -> key_of k (r_name (dl_rr d')) <> key) ->
  entry_ok (L ++ [d']) k key e.
Proof.
  intros (Hk & Hkey & L1 & d & L2 & HL & Hrr & Ht & Hif & Hsame & Hexp & Hdis) Hother.
  split; [assumption|]. split; [assumption|].
  exists L1, d, (L2 ++ [d']). split; [rewrite HL, <- app_assoc; reflexivity|].
  repeat split; auto.
  - intros x Hx. apply in_app_iff in Hx as [Hx|[<-|[]]]; [auto|].
    destruct (same_key d d') eqn:E; [|reflexivity]. exfalso.
    apply rr_matches_spec in E as (E1 & E2 & _). rewrite Hrr in E1, E2.
    unfold e_type, e_name in *. apply Hother; [now rewrite <- E2|]. now rewrite <- E1.
  - intros f Hf Hd. apply in_app_iff in Hf as [Hf|[<-|[]]]; [auto|]. exfalso.
    unfold displaces in Hd.
    apply andb_true_iff in Hd as [Hd _]. apply andb_true_iff in Hd as [Hd _].
    apply andb_true_iff in Hd as [Hd _]. apply andb_true_iff in Hd as [Hd _].
    apply andb_true_iff in Hd as [_ Hsb].
    rewrite Hrr in Hsb. destruct (same_bucket_inv _ _ k Hsb Hk) as [A B].
    apply Hother; [assumption|]. now rewrite B.
Qed.

Lemma entry_ok_new L k key r now ifx :
  kind_of_type (r_type r) = Some k -> key = key_of k (r_name r) ->
  entry_ok (L ++ [mkDlv now ifx r]) k key (new_entry r now ifx).
Proof.
  intros Hk Hkey. split; [exact Hk|]. split; [exact Hkey|].
  exists L, (mkDlv now ifx r), []. simpl. repeat split; auto; try (intros ? []).
  rewrite full_life. unfold e_ttl. simpl. lia.
Qed.

Lemma entry_ok_reset L k key e r now ifx :
  entry_ok L k key e -> entry_matches e r ifx = true ->
  entry_ok (L ++ [mkDlv now ifx r]) k key (reset_ttl e r now).
Proof.
  intros (Hk & Hkey & _) Hm. unfold entry_matches in Hm.
  pose proof (set_ttl_of_match _ _ _ _ Hm) as Hset.
  apply rr_matches_spec in Hm as (M1 & M2 & M3 & M4 & M5 & M6).
  split; [exact Hk|]. split; [exact Hkey|].
  exists L, (mkDlv now ifx r), []. simpl. repeat split; auto; try (intros ? []).
  - intros Ha. symmetry. apply M6. exact Ha.
  - rewrite full_life. unfold e_ttl. simpl. lia.
Qed.

Section Update.
  Variables (r : rr) (ifx now : N).
  Let F (e : entry) : entry := if r_flush r then flush_one r ifx now e else e.
  Let dn := mkDlv now ifx r.

  Lemma F_eshr e : eshr e (F e).
  Proof.
    unfold F. destruct (r_flush r); [|apply eshr_refl].
    destruct (flush_one_fields r ifx now e) as (A & B & C). repeat split; auto. apply flush_one_le.
  Qed.

  Lemma F_matches e : entry_matches (F e) r ifx = entry_matches e r ifx.
  Proof. symmetry. apply id_eq_matches_l. apply eshr_id. apply F_eshr. Qed.

  Lemma flushed_is_map (b : bucket) : (if r_flush r then map (flush_one r ifx now) b else b) = map F b.
  Proof.
    unfold F. destruct (r_flush r); [reflexivity|]. symmetry. apply map_id.
  Qed.

  Lemma entry_ok_keep L k key e :
    entry_ok L k key e -> entry_matches e r ifx = false ->
    entry_ok (L ++ [dn]) k key (F e).
  Proof.
    intros (Hk & Hkey & L1 & d & L2 & HL & Hrr & Ht & Hif & Hsame & Hexp & Hdis) Hm.
    destruct (F_eshr e) as (S1 & S2 & S3 & S4).
    unfold entry_ok, e_type, e_name, e_ttl in *. rewrite S1, S2, S3.
    split; [assumption|]. split; [assumption|].
    exists L1, d, (L2 ++ [dn]). split; [rewrite HL, <- app_assoc; reflexivity|].
    repeat split; auto.
    - intros x Hx. apply in_app_iff in Hx as [Hx|[<-|[]]]; [auto|].
      unfold dn. rewrite (same_key_entry d e r ifx now Hrr Hif). exact Hm.
    - lia.
    - intros f Hf Hd. apply in_app_iff in Hf as [Hf|[<-|[]]]; [specialize (Hdis f Hf Hd); lia|].
      (* the delivery being processed displaces the record *)
      unfold displaces, dn in Hd. simpl in Hd.
      apply andb_true_iff in Hd as [Hd Htime]. apply andb_true_iff in Hd as [Hd Hsi].
      apply andb_true_iff in Hd as [Hd Hcls]. apply andb_true_iff in Hd as [Hd Hty].
      apply andb_true_iff in Hd as [Hfl _].
      rewrite Hrr in Hcls, Hty. rewrite Ht in Htime.
      unfold F. rewrite Hfl. rewrite flush_one_spec. cbv zeta. unfold e_type.
      rewrite Hcls, Hty, Htime. simpl.
      assert (Hic : (if is_addr_type (r_type r) then e_if e =? ifx else true) = true).
      { destruct (is_addr_type (r_type r)) eqn:Ea; [|reflexivity].
        apply N.eqb_eq in Hsi. apply N.eqb_eq in Hty. rewrite Hty in Ea. rewrite <- (Hif Ea).
        apply N.eqb_eq. congruence. }
      rewrite Hic. rewrite andb_true_r.
      destruct (now + 1000 <? e_expires e) eqn:El; simpl; [lia|]. apply N.ltb_ge in El. exact El.
  Qed.

  Lemma update_first_none (b : bucket) :
    update_first (map F b) r ifx now = None -> forall e, In e b -> entry_matches e r ifx = false.
  Proof.
    induction b as [|e t IH]; simpl; [intros _ ? []|].
    rewrite F_matches. destruct (entry_matches e r ifx) eqn:E; [discriminate|].
    destruct (update_first (map F t) r ifx now) as [[t' x']|]; [discriminate|].
    intros _ x [<-|Hx]; auto.
  Qed.

  Lemma update_first_some (b : bucket) b2 e' rv :
    update_first (map F b) r ifx now = Some (b2, (e', rv)) ->
    exists l1 e0 l2, b = l1 ++ e0 :: l2 /\ (forall x, In x l1 -> entry_matches x r ifx = false)
      /\ entry_matches e0 r ifx = true /\ e' = reset_ttl (F e0) r now
      /\ b2 = map F l1 ++ e' :: map F l2.
  Proof.
    revert b2. induction b as [|e t IH]; simpl; [discriminate|]. intros b2.
    rewrite F_matches. destruct (entry_matches e r ifx) eqn:E.
    - intros H. inversion H; subst. exists [], e, t. simpl. repeat split; auto. intros ? [].
    - destruct (update_first (map F t) r ifx now) as [[t' [e1 rv1]]|] eqn:E2; [|discriminate].
      intros H. inversion H; subst. destruct (IH t' eq_refl) as (l1 & e0 & l2 & A & B & C & D & G).
      exists (e :: l1), e0, l2. subst. simpl. repeat split; auto.
      intros x [<-|Hx]; auto.
  Qed.

  Lemma reset_id e : id_eq e (reset_ttl (F e) r now).
  Proof.
    destruct (F_eshr e) as (S1 & _ & S3 & _). split; simpl; [|now rewrite S3].
    rewrite S1. reflexivity.
  Qed.

  Lemma bucket_update L k key (b : bucket) :
    nodup_bucket b -> (forall e, In e b -> entry_ok L k key e) ->
    kind_of_type (r_type r) = Some k -> key_of k (r_name r) = key ->
    forall B,
      match update_first (map F b) r ifx now with
      | Some (b2, _) => B = b2
      | None => B = new_entry r now ifx :: map F b
      end ->
      nodup_bucket B /\ forall e, In e B -> entry_ok (L ++ [dn]) k key e.
  Proof.
    intros ND Hok Hk Hkey B HB.
    destruct (update_first (map F b) r ifx now) as [[b2 [e' rv]]|] eqn:E.
    - subst B. destruct (update_first_some _ _ _ _ E) as (l1 & e0 & l2 & A & Hl1 & Hm & He' & Hb2).
      (* the records after the matching one do not match either *)
      assert (Hl2 : forall x, In x l2 -> entry_matches x r ifx = false).
      { intros x Hx. destruct (entry_matches x r ifx) eqn:Ex; [|reflexivity]. exfalso.
        subst b. clear - ND Hm Ex Hx.
        induction l1 as [|y l1 IH]; simpl in ND.
        - inversion ND as [|? ? Hall _]; subst. rewrite Forall_forall in Hall. specialize (Hall x Hx).
          unfold entry_matches in *.
          rewrite (rr_matches_sym (e_rr x)) in Ex.
          now rewrite (rr_matches_trans _ _ _ _ _ _ Hm Ex) in Hall.
        - inversion ND; subst. auto. }
      split.
      + apply (nodup_bucket_id b); [|assumption]. subst b b2.
        apply Forall2_app; [|constructor].
        * clear. induction l1; simpl; constructor; auto. apply eshr_id. apply F_eshr.
        * subst e'. apply reset_id.
        * clear. induction l2; simpl; constructor; auto. apply eshr_id. apply F_eshr.
      + subst b b2. intros e He. apply in_app_iff in He as [He|[<-|He]].
        * apply in_map_iff in He as [x [<- Hx]]. apply entry_ok_keep; [|auto].
          apply Hok. apply in_app_iff. now left.
        * subst e'. apply entry_ok_reset; [|now rewrite F_matches].
          eapply entry_ok_shr; [|apply F_eshr]. apply Hok. apply in_app_iff. right. now left.
        * apply in_map_iff in He as [x [<- Hx]]. apply entry_ok_keep; [|auto].
          apply Hok. apply in_app_iff. right. now right.
    - subst B. pose proof (update_first_none _ E) as Hnone. split.
      + constructor.
        * apply Forall_forall. intros y Hy. apply in_map_iff in Hy as [x [<- Hx]].
          unfold entry_matches. simpl. rewrite rr_matches_sym.
          change (entry_matches (F x) r ifx = false). rewrite F_matches. auto.
        * apply (nodup_bucket_id b); [|assumption]. clear.
          induction b; simpl; constructor; auto. apply eshr_id. apply F_eshr.
      + intros e [<-|He].
        * apply entry_ok_new; auto.
        * apply in_map_iff in He as [x [<- Hx]]. apply entry_ok_keep; auto.
  Qed.
End Update.

Theorem add_or_update_inv L c now ifx r fu :
  Inv L c -> Inv (L ++ [mkDlv now ifx r]) (fst (add_or_update c now ifx r fu)).
Proof.
  intros HI. unfold add_or_update.
  assert (HI1 : Inv L (note_subtype c r fu)) by (eapply Inv_ext; [apply note_subtype_maps|exact HI]).
  set (c1 := note_subtype c r fu) in *. clearbody c1. clear HI c. rename HI1 into HI.
  set (dn := mkDlv now ifx r).
  (* every record filed elsewhere is untouched and unaffected by the new delivery *)
  assert (Hother : forall k m, map_ok L k m ->
             (kind_of_type (r_type r) = Some k -> False) -> map_ok (L ++ [dn]) k m).
  { intros k m [ND H] Hk. split; [assumption|]. intros key b Hin. destruct (H key b Hin) as [A B].
    split; [assumption|]. intros e He. apply entry_ok_snoc_other; [auto|]. intros Hk'. now destruct Hk. }
  destruct (kind_of_type (r_type r)) as [k0|] eqn:Ek.
  2:{ simpl. intros k. apply Hother; [apply HI|discriminate]. }
  set (key := key_of k0 (r_name r)). set (m := get_map c1 k0).
  (* the new map of kind k0 is bm_set key B m for a bucket B that satisfies the invariant *)
  assert (Hset : forall B, (nodup_bucket B /\ forall e, In e B -> entry_ok (L ++ [dn]) k0 key e) ->
             Inv (L ++ [dn]) (set_map c1 k0 (bm_set key B m))).
  { intros B [HB1 HB2] k. destruct (kind_dec k0 k) as [<-|Hne].
    - rewrite get_set_map_same. destruct (HI k0) as [ND H]. fold m in ND, H.
      split; [now apply bm_set_nodup|]. intros key' b' Hin.
      destruct (beq key' key) eqn:Ekey.
      + apply beq_eq in Ekey. subst key'.
        assert (b' = B).
        { apply (In_bm_get _ _ _ (bm_set_nodup key B m ND)) in Hin. rewrite bm_set_get_same in Hin. congruence. }
        subst b'. split; assumption.
      + apply bm_set_In in Hin as [[-> _]|Hin]; [rewrite beq_refl in Ekey; discriminate|].
        destruct (H key' b' Hin) as [A Bk]. split; [assumption|].
        intros e He. apply entry_ok_snoc_other; [auto|]. simpl. intros _ Heq.
        fold key in Heq. rewrite Heq, beq_refl in Ekey. discriminate.
    - rewrite get_set_map_other by assumption. apply Hother; [apply HI|]. intros Hk. congruence. }
  destruct (HI k0) as [ND Hm]. fold m in ND, Hm.
  destruct (bm_get key m) as [b0|] eqn:Eg.
  - pose proof (bm_get_In _ _ _ Eg) as Hin0. destruct (Hm key b0 Hin0) as [Hnd0 Hok0].
    destruct b0 as [|e0 t0].
    + destruct fu; simpl; apply Hset.
      * split; [repeat constructor|]. intros e [<-|[]]. apply entry_ok_new; auto.
      * split; [constructor|intros ? []].
    + rewrite (flushed_is_map r ifx now (e0 :: t0)).
      pose proof (bucket_update r ifx now L k0 key (e0 :: t0) Hnd0 Hok0 Ek eq_refl) as HU.
      destruct (update_first (map (fun e => if r_flush r then flush_one r ifx now e else e) (e0 :: t0)) r ifx now)
        as [[b2 [e' rv]]|] eqn:EU; simpl; apply Hset; apply HU; reflexivity.
  - destruct fu; simpl; apply Hset.
    + split; [repeat constructor|]. intros e [<-|[]]. apply entry_ok_new; auto.
    + split; [constructor|intros ? []].
Qed.
