(* Concrete histories: non-vacuity examples for C03-C05 and the refutation witnesses of the
   history-level statements chk_C04 / chk_C05 for the faithful model (known findings).
   Datagrams are real mDNS response packets (built by tools/dnsgen.py, see the comment of each). *)
From Coq Require Import List NArith Bool.
From Mdns Require Import Res Bytes Rec Wire WireOut Rfc1035 C02Spec Txt Cache Browser C03Spec BrowserSpec BrowserKnown.
Import ListNotations.
Open Scope N_scope.

(* full announcement *)
Definition w_full : bytes := [0;0;132;0;0;0;0;1;0;0;0;3;5;95;104;116;116;112;4;95;116;99;112;5;108;111;99;97;108;0;0;12;0;1;0;0;17;148;0;6;3;119;101;98;192;12;192;40;0;33;128;1;0;0;0;120;0;14;0;0;0;0;31;144;5;104;111;115;116;49;192;23;192;40;0;16;128;1;0;0;17;148;0;4;3;97;61;49;192;64;0;1;128;1;0;0;0;120;0;4;192;168;1;50] .
(* goodbye *)
Definition w_bye : bytes := [0;0;132;0;0;0;0;1;0;0;0;3;5;95;104;116;116;112;4;95;116;99;112;5;108;111;99;97;108;0;0;12;0;1;0;0;0;0;0;6;3;119;101;98;192;12;192;40;0;33;128;1;0;0;0;0;0;14;0;0;0;0;31;144;5;104;111;115;116;49;192;23;192;40;0;16;128;1;0;0;0;0;0;4;3;97;61;49;192;64;0;1;128;1;0;0;0;0;0;4;192;168;1;50] .
Definition w_newport : bytes := [0;0;132;0;0;0;0;0;0;0;0;1;3;119;101;98;5;95;104;116;116;112;4;95;116;99;112;5;108;111;99;97;108;0;0;33;128;1;0;0;0;120;0;14;0;0;0;0;35;130;5;104;111;115;116;49;192;27] .
Definition w_twonames : bytes := [0;0;132;0;0;0;0;2;0;0;0;3;5;95;104;116;116;112;4;95;116;99;112;5;108;111;99;97;108;0;0;12;0;1;0;0;17;148;0;6;3;119;101;98;192;12;8;95;112;114;105;110;116;101;114;4;95;115;117;98;192;12;0;12;0;1;0;0;17;148;0;2;192;40;192;40;0;33;128;1;0;0;0;3;0;14;0;0;0;0;31;144;5;104;111;115;116;49;192;23;192;40;0;16;128;1;0;0;17;148;0;4;3;97;61;49;192;92;0;1;128;1;0;0;0;120;0;4;192;168;1;50] .
Definition n_ty : bytes := [95;104;116;116;112;46;95;116;99;112;46;108;111;99;97;108;46] .
Definition n_sub : bytes := [95;112;114;105;110;116;101;114;46;95;115;117;98;46;95;104;116;116;112;46;95;116;99;112;46;108;111;99;97;108;46] .
Definition n_inst : bytes := [119;101;98;46;95;104;116;116;112;46;95;116;99;112;46;108;111;99;97;108;46] .
Definition n_host : bytes := [104;111;115;116;49;46;108;111;99;97;108;46] .
Definition w_ptr : bytes := [0;0;132;0;0;0;0;1;0;0;0;0;5;95;104;116;116;112;4;95;116;99;112;5;108;111;99;97;108;0;0;12;0;1;0;0;17;148;0;6;3;119;101;98;192;12] .
Definition w_ptr_dotted : bytes := [0;0;132;0;0;0;0;1;0;0;0;0;5;95;104;116;116;112;4;95;116;99;112;5;108;111;99;97;108;0;0;12;0;1;0;0;17;148;0;6;3;97;46;98;192;12] .
Definition w_ptr_flush2 : bytes := [0;0;132;0;0;0;0;1;0;0;0;0;5;95;104;116;116;112;4;95;116;99;112;5;108;111;99;97;108;0;0;12;128;1;0;0;0;2;0;6;3;119;101;98;192;12] .
Definition w_mixed_nohost : bytes := [0;0;132;0;0;0;0;1;0;0;0;2;5;95;104;116;116;112;4;95;116;99;112;5;108;111;99;97;108;0;0;12;0;1;0;0;17;148;0;6;3;119;101;98;192;12;192;40;0;33;128;1;0;0;0;120;0;14;0;0;0;0;31;144;5;72;111;115;116;49;192;23;192;40;0;16;128;1;0;0;17;148;0;4;3;97;61;49] .
Definition w_addr_lower3 : bytes := [0;0;132;0;0;0;0;0;0;0;0;1;5;104;111;115;116;49;5;108;111;99;97;108;0;0;1;128;1;0;0;0;3;0;4;192;168;1;50] .

Definition w_twonames_addr3 : bytes := [0;0;132;0;0;0;0;2;0;0;0;3;5;95;104;116;116;112;4;95;116;99;112;5;108;111;99;97;108;0;0;12;0;1;0;0;17;148;0;6;3;119;101;98;192;12;8;95;112;114;105;110;116;101;114;4;95;115;117;98;192;12;0;12;0;1;0;0;17;148;0;2;192;40;192;40;0;33;128;1;0;0;0;120;0;14;0;0;0;0;31;144;5;104;111;115;116;49;192;23;192;40;0;16;128;1;0;0;17;148;0;4;3;97;61;49;192;92;0;1;128;1;0;0;0;3;0;4;192;168;1;50] .

Definition w_full_noflush : bytes := [0;0;132;0;0;0;0;1;0;0;0;3;5;95;104;116;116;112;4;95;116;99;112;5;108;111;99;97;108;0;0;12;0;1;0;0;17;148;0;6;3;119;101;98;192;12;192;40;0;33;0;1;0;0;0;120;0;14;0;0;0;0;31;144;5;104;111;115;116;49;192;23;192;40;0;16;128;1;0;0;17;148;0;4;3;97;61;49;192;64;0;1;128;1;0;0;0;120;0;4;192;168;1;50] .
Definition w_srv_host2 : bytes := [0;0;132;0;0;0;0;0;0;0;0;1;3;119;101;98;5;95;104;116;116;112;4;95;116;99;112;5;108;111;99;97;108;0;0;33;0;1;0;0;0;120;0;14;0;0;0;0;35;130;5;104;111;115;116;50;192;27] .
Definition w_short : bytes := [0;0;132;0;0;0;0;1;0;0;0;3;5;95;104;116;116;112;4;95;116;99;112;5;108;111;99;97;108;0;0;12;0;1;0;0;0;120;0;6;3;119;101;98;192;12;192;40;0;33;128;1;0;0;0;3;0;14;0;0;0;0;31;144;5;104;111;115;116;49;192;23;192;40;0;16;128;1;0;0;17;148;0;4;3;97;61;49;192;64;0;1;128;1;0;0;0;5;0;4;192;168;1;50] .
Definition w_ptr_srv3 : bytes := [0;0;132;0;0;0;0;1;0;0;0;1;5;95;104;116;116;112;4;95;116;99;112;5;108;111;99;97;108;0;0;12;0;1;0;0;0;120;0;6;3;119;101;98;192;12;192;40;0;33;128;1;0;0;0;3;0;14;0;0;0;0;31;144;5;104;111;115;116;49;192;23] .
Definition w_addr5 : bytes := [0;0;132;0;0;0;0;0;0;0;0;1;5;104;111;115;116;49;5;108;111;99;97;108;0;0;1;128;1;0;0;0;5;0;4;192;168;1;50] .
Definition w_addr3 : bytes := [0;0;132;0;0;0;0;1;0;0;0;3;5;95;104;116;116;112;4;95;116;99;112;5;108;111;99;97;108;0;0;12;0;1;0;0;17;148;0;6;3;119;101;98;192;12;192;40;0;33;128;1;0;0;0;120;0;14;0;0;0;0;31;144;5;104;111;115;116;49;192;23;192;40;0;16;128;1;0;0;17;148;0;4;3;97;61;49;192;64;0;1;128;1;0;0;0;3;0;4;192;168;1;50] .
Definition w_ptr_bye : bytes := [0;0;132;0;0;0;0;1;0;0;0;0;5;95;104;116;116;112;4;95;116;99;112;5;108;111;99;97;108;0;0;12;0;1;0;0;0;0;0;6;3;119;101;98;192;12] .

(* round 5: TXT answer + PTR (TTL 3 s) in the additional section; PTR alone TTL 120; SRV + address *)
Definition w_txt_addl_ptr3 : bytes := [0;0;132;0;0;0;0;1;0;0;0;1;3;119;101;98;5;95;104;116;116;112;4;95;116;99;112;5;108;111;99;97;108;0;0;16;128;1;0;0;17;148;0;4;3;97;61;49;192;16;0;12;0;1;0;0;0;3;0;2;192;12] .
Definition w_ptr120 : bytes := [0;0;132;0;0;0;0;1;0;0;0;0;5;95;104;116;116;112;4;95;116;99;112;5;108;111;99;97;108;0;0;12;0;1;0;0;0;120;0;6;3;119;101;98;192;12] .
Definition w_srv_addr : bytes := [0;0;132;0;0;0;0;0;0;0;0;2;3;119;101;98;5;95;104;116;116;112;4;95;116;99;112;5;108;111;99;97;108;0;0;33;128;1;0;0;0;120;0;14;0;0;0;0;31;144;5;104;111;115;116;49;192;27;192;50;0;1;128;1;0;0;0;120;0;4;192;168;1;50] .

(* round 6: SRV -> host2 (TTL 8, no cache-flush) + A host2 (TTL 3); a second A of host2 *)
Definition w_srv_h2_addr3 : bytes := [0;0;132;0;0;0;0;0;0;0;0;2;3;119;101;98;5;95;104;116;116;112;4;95;116;99;112;5;108;111;99;97;108;0;0;33;0;1;0;0;0;8;0;14;0;0;0;0;35;130;5;104;111;115;116;50;192;27;192;50;0;1;128;1;0;0;0;3;0;4;192;168;1;60] .
Definition w_addr_h2 : bytes := [0;0;132;0;0;0;0;0;0;0;0;1;5;104;111;115;116;50;5;108;111;99;97;108;0;0;1;128;1;0;0;0;120;0;4;192;168;1;61] .

(* round 6: a second address of host1 *)
Definition w_addr_h1_new : bytes := [0;0;132;0;0;0;0;0;0;0;0;1;5;104;111;115;116;49;5;108;111;99;97;108;0;0;1;128;1;0;0;0;120;0;4;192;168;1;51] .

(* round 9: PTR (TTL 120) and its goodbye in one packet *)
Definition w_ptr_and_bye : bytes := [0;0;132;0;0;0;0;2;0;0;0;0;5;95;104;116;116;112;4;95;116;99;112;5;108;111;99;97;108;0;0;12;0;1;0;0;0;120;0;6;3;119;101;98;192;12;192;12;0;12;0;1;0;0;0;0;0;2;192;40] .

(* seed sweep after round 9: A + PTR; TXT + SRV (TTL 10); a second A (TTL 10, cache-flush); a second TXT *)
Definition w_ov_a_ptr : bytes := [0;0;132;0;0;0;0;0;0;0;0;2;5;104;111;115;116;49;5;108;111;99;97;108;0;0;1;128;1;0;0;0;120;0;4;192;168;1;85;5;95;104;116;116;112;4;95;116;99;112;192;18;0;12;0;1;0;0;17;148;0;6;3;119;101;98;192;39].
Definition w_ov_txt_srv10 : bytes := [0;0;132;0;0;0;0;0;0;1;0;1;3;119;101;98;5;95;104;116;116;112;4;95;116;99;112;5;108;111;99;97;108;0;0;16;128;1;0;0;17;148;0;4;3;97;61;49;192;12;0;33;128;1;0;0;0;10;0;14;0;0;0;0;19;136;5;104;111;115;116;49;192;27].
Definition w_ov_a2 : bytes := [0;0;132;0;0;0;0;0;0;0;0;1;5;104;111;115;116;49;5;108;111;99;97;108;0;0;1;128;1;0;0;0;10;0;4;192;168;1;25].
Definition w_ov_txt2 : bytes := [0;0;132;0;0;0;0;0;0;0;0;1;3;119;101;98;5;95;104;116;116;112;4;95;116;99;112;5;108;111;99;97;108;0;0;16;0;1;0;0;17;148;0;6;5;107;61;100;117;112].

Definition ex_ifs : iftab := [(2, (true, true)); (3, (true, false))].
Definition T0 : N := 1000000.

(* --- example 1: browse, full announcement, update of the port, goodbye, removal one second later *)
Definition ex_hist : list iter :=
  [ mkIter T0 [] [CBrowse n_ty 1];
    mkIter (T0 + 100) [mkDgram 2 true w_full] [];
    mkIter (T0 + 2000) [mkDgram 2 true w_newport] [];
    mkIter (T0 + 5000) [mkDgram 2 true w_bye] [];
    mkIter (T0 + 6000) [] [];
    mkIter (T0 + 7000) [] [] ].

Definition is_resolved_evt (x : out) : bool := match x with OEvt _ (EResolved _) => true | _ => false end.
Definition is_found_evt (x : out) : bool := match x with OEvt _ (EFound _ _) => true | _ => false end.
Definition is_removed_evt (x : out) : bool := match x with OEvt _ (ERemoved _ _) => true | _ => false end.

Lemma ex_hist_facts :
  wf_history ex_hist = true
  /\ map (fun o => (existsb is_found_evt o, existsb is_resolved_evt o, existsb is_removed_evt o))
         (run_history ex_ifs ex_hist)
     = [(false, false, false); (true, true, false); (false, true, false); (false, false, false);
        (false, false, true); (false, false, false)]
  /\ chk_C03 ex_ifs ex_hist (run_history ex_ifs ex_hist) = true.
Proof. repeat split; vm_compute; reflexivity. Qed.

Definition ex_wakes (h : list iter) : list (option N) :=
  match h with [] => [] | _ :: t => map (fun it => Some (i_now it)) t ++ [Some (T0 + 100000)] end.

Lemma ex_hist_chk45 :
  chk_C04 ex_ifs ex_hist (ex_wakes ex_hist) (map obs_of (run_history ex_ifs ex_hist)) = true
  /\ chk_C05 ex_ifs ex_hist (ex_wakes ex_hist) (map obs_of (run_history ex_ifs ex_hist)) = true.
Proof. split; vm_compute; reflexivity. Qed.

(* --- example 2: only the PTR arrives; follow-up questions at +500, +1000, +1500 and no more *)
Definition ex_follow : list iter :=
  [ mkIter T0 [] [CBrowse n_ty 1];
    mkIter (T0 + 100) [mkDgram 2 true w_ptr] [];
    mkIter (T0 + 600) [] []; mkIter (T0 + 1100) [] []; mkIter (T0 + 1600) [] []; mkIter (T0 + 2100) [] [];
    mkIter (T0 + 5000) [] [] ].

Lemma ex_follow_facts :
  map questions_of (run_history ex_ifs ex_follow)
  = [[]; []; [(n_inst, TY_ANY)]; [(n_inst, TY_ANY)]; [(n_inst, TY_ANY)]; []; []]
  /\ chk_C04 ex_ifs ex_follow (ex_wakes ex_follow) (map obs_of (run_history ex_ifs ex_follow)) = true.
Proof. split; vm_compute; reflexivity. Qed.

(* --- repaired findings: their former refutation witnesses now pass the checkers ---------------- *)

(* a service restarts - goodbye, then a full announcement 700 ms later - while a browser is
   running that does not have it resolved: ServiceFound and ServiceResolved in that iteration *)
Definition restart_hist : list iter :=
  [ mkIter T0 [] [CBrowse n_ty 1];
    mkIter (T0 + 1000) [mkDgram 2 true w_bye] [];
    mkIter (T0 + 1700) [mkDgram 2 true w_full] [];
    mkIter (T0 + 2000) [] [] ].

Lemma restart_facts :
  wf_history restart_hist = true
  /\ map (fun o => (existsb is_found_evt o, existsb is_resolved_evt o)) (run_history ex_ifs restart_hist)
     = [(false, false); (false, false); (true, true); (false, false)]
  /\ chk_C04 ex_ifs restart_hist (ex_wakes restart_hist) (map obs_of (run_history ex_ifs restart_hist)) = true.
Proof. repeat split; vm_compute; reflexivity. Qed.

(* the instance is advertised under its type and a subtype, both are browsed, the SRV (TTL 3 s)
   runs out: BOTH channels get ServiceRemoved in the iteration at +3 s *)
Definition twonames_hist : list iter :=
  [ mkIter T0 [] [CBrowse n_ty 1; CBrowse n_sub 2];
    mkIter (T0 + 100) [mkDgram 2 true w_twonames] [];
    mkIter (T0 + 3100) [] [];
    mkIter (T0 + 4000) [] [] ].

Lemma twonames_facts :
  wf_history twonames_hist = true
  /\ map (fun o => length (filter is_removed_evt o)) (run_history ex_ifs twonames_hist) = [0; 0; 2; 0]%nat
  /\ chk_C05 ex_ifs twonames_hist (ex_wakes twonames_hist) (map obs_of (run_history ex_ifs twonames_hist)) = true.
Proof. repeat split; vm_compute; reflexivity. Qed.

(* same instance, the ADDRESS (TTL 3 s) runs out while PTRs and SRV stay: both channels get
   ServiceRemoved (repair f108398 of resolve_updated_instances) *)
Definition twonames_addr_hist : list iter :=
  [ mkIter T0 [] [CBrowse n_ty 1; CBrowse n_sub 2];
    mkIter (T0 + 100) [mkDgram 2 true w_twonames_addr3] [];
    mkIter (T0 + 3100) [] [];
    mkIter (T0 + 3600) [] [] ].

Lemma twonames_addr_facts :
  map (fun o => length (filter is_removed_evt o)) (run_history ex_ifs twonames_addr_hist) = [0; 0; 2; 0]%nat
  /\ chk_C05 ex_ifs twonames_addr_hist (ex_wakes twonames_addr_hist)
             (map obs_of (run_history ex_ifs twonames_addr_hist)) = true.
Proof. split; vm_compute; reflexivity. Qed.

(* SRV target "Host1.local.", the address arrives later, alone, for "host1.local." (TTL 3 s):
   ServiceResolved when it arrives, ServiceRemoved when it runs out *)
Definition mixedcase_hist : list iter :=
  [ mkIter T0 [] [CBrowse n_ty 1];
    mkIter (T0 + 100) [mkDgram 2 true w_mixed_nohost] [];
    mkIter (T0 + 300) [mkDgram 2 true w_addr_lower3] [];
    mkIter (T0 + 600) [] [];
    mkIter (T0 + 3300) [] [];
    mkIter (T0 + 4000) [] [] ].

Lemma mixedcase_facts :
  map (fun o => (existsb is_resolved_evt o, existsb is_removed_evt o)) (run_history ex_ifs mixedcase_hist)
  = [(false, false); (false, false); (true, false); (false, false); (false, true); (false, false)]
  /\ chk_C04 ex_ifs mixedcase_hist (ex_wakes mixedcase_hist) (map obs_of (run_history ex_ifs mixedcase_hist)) = true
  /\ chk_C05 ex_ifs mixedcase_hist (ex_wakes mixedcase_hist) (map obs_of (run_history ex_ifs mixedcase_hist)) = true.
Proof. repeat split; vm_compute; reflexivity. Qed.

(* --- refutation of chk_C04 (finding C04-D20-dotted-label-followup): the PTR points to an
   instance whose first label is "a.b"; the follow-up questions ask for the labels a, b, ... *)
Definition ref4_hist : list iter :=
  [ mkIter T0 [] [CBrowse n_ty 1];
    mkIter (T0 + 100) [mkDgram 2 true w_ptr_dotted] [];
    mkIter (T0 + 600) [] [];
    mkIter (T0 + 1100) [] [] ].

Lemma ref4_facts :
  wf_history ref4_hist = true
  /\ chk_C04 ex_ifs ref4_hist (ex_wakes ref4_hist) (map obs_of (run_history ex_ifs ref4_hist)) = false.
Proof. split; vm_compute; reflexivity. Qed.

(* --- refutation of chk_C05 (finding C05-ptr-variant-expiry): the PTR is delivered again with
   the cache-flush bit and TTL 2 s: ServiceRemoved at +2 s although the first PTR (TTL 4500),
   the SRV and the address are live *)
Definition ref5_hist : list iter :=
  [ mkIter T0 [] [CBrowse n_ty 1];
    mkIter (T0 + 100) [mkDgram 2 true w_full] [];
    mkIter (T0 + 600) [mkDgram 2 true w_ptr_flush2] [];
    mkIter (T0 + 2600) [] [];
    mkIter (T0 + 4000) [] [] ].

Lemma ref5_facts :
  wf_history ref5_hist = true
  /\ map (fun o => existsb is_removed_evt o) (run_history ex_ifs ref5_hist) = [false; false; false; true; false]
  /\ chk_C05 ex_ifs ref5_hist (ex_wakes ref5_hist) (map obs_of (run_history ex_ifs ref5_hist)) = false.
Proof. repeat split; vm_compute; reflexivity. Qed.

(* the history-level statements, universally quantified, are false of the faithful model *)
Lemma chk_C04_refuted :
  exists ifs h wakes, wf_history h = true /\ chk_C04 ifs h wakes (map obs_of (run_history ifs h)) = false.
Proof. exists ex_ifs, ref4_hist, (ex_wakes ref4_hist). destruct ref4_facts as (A & B). auto. Qed.

Lemma chk_C05_refuted :
  exists ifs h wakes, wf_history h = true /\ chk_C05 ifs h wakes (map obs_of (run_history ifs h)) = false.
Proof. exists ex_ifs, ref5_hist, (ex_wakes ref5_hist). destruct ref5_facts as (A & _ & B). auto. Qed.

(* ---- round 4: one witness per known class, and the class predicates on them ---------------------- *)

(* C05-ptr-variant-expiry: ref5_hist is in the class known_ptr_variant *)
Lemma ptr_variant_witness :
  known_ptr_variant (log_of_history ex_ifs ref5_hist) = true
  /\ existsb is_alive_fail (viol_C05 ex_ifs ref5_hist (ex_wakes ref5_hist) (map obs_of (run_history ex_ifs ref5_hist))) = true.
Proof. split; vm_compute; reflexivity. Qed.

(* C05-second-srv-target (found in round 4): a second SRV record (no cache-flush bit) names a host
   without addresses: ServiceRemoved although the first SRV and its address are live, and the
   instance is never reported again *)
Definition srvtgt_hist : list iter :=
  [ mkIter T0 [] [CBrowse n_ty 1];
    mkIter (T0 + 100) [mkDgram 2 true w_full_noflush] [];
    mkIter (T0 + 2000) [mkDgram 2 true w_srv_host2] [];
    mkIter (T0 + 2500) [] [] ].

Lemma srv_targets_witness :
  wf_history srvtgt_hist = true
  /\ known_srv_targets (log_of_history ex_ifs srvtgt_hist) = true
  /\ known_ptr_variant (log_of_history ex_ifs srvtgt_hist) = false
  /\ existsb is_alive_fail (viol_C05 ex_ifs srvtgt_hist (ex_wakes srvtgt_hist) (map obs_of (run_history ex_ifs srvtgt_hist))) = true
  /\ chk_C04 ex_ifs srvtgt_hist (ex_wakes srvtgt_hist) (map obs_of (run_history ex_ifs srvtgt_hist)) = false.
Proof. repeat split; vm_compute; reflexivity. Qed.

(* C05-expiry-hidden-by-expiring-ptr: PTR goodbye at +2600, the only address (TTL 3 s) runs out
   at +3100, ServiceRemoved comes at +3600 only *)
Definition ptrlast_hist : list iter :=
  [ mkIter T0 [] [CBrowse n_ty 1];
    mkIter (T0 + 100) [mkDgram 2 true w_addr3] [];
    mkIter (T0 + 2600) [mkDgram 2 true w_ptr_bye] [];
    mkIter (T0 + 3100) [] [];
    mkIter (T0 + 3600) [] [] ].

Definition is_dead_last_second (f : fail) : bool := match f with F05_dead _ _ _ _ true _ => true | _ => false end.

Lemma ptr_last_second_witness :
  wf_history ptrlast_hist = true
  /\ safe_class ex_ifs ptrlast_hist = true
  /\ map (fun o => existsb is_removed_evt o) (run_history ex_ifs ptrlast_hist) = [false; false; false; false; true]
  /\ existsb is_dead_last_second (viol_C05 ex_ifs ptrlast_hist (ex_wakes ptrlast_hist) (map obs_of (run_history ex_ifs ptrlast_hist))) = true.
Proof. repeat split; vm_compute; reflexivity. Qed.

(* C04-last-second-refresh-not-new: SRV (TTL 3) expires: removed; at +4200 packet 1 = PTR + SRV
   (new, but the address has < 1 s left), packet 2 = the address again (only refreshed): complete,
   not reported *)
Definition lastsec_hist : list iter :=
  [ mkIter T0 [] [CBrowse n_ty 1];
    mkIter (T0 + 100) [mkDgram 2 true w_short] [];
    mkIter (T0 + 3100) [] [];
    mkIter (T0 + 4200) [mkDgram 2 true w_ptr_srv3; mkDgram 2 true w_addr5] [];
    mkIter (T0 + 4700) [] [] ].

Definition is_refresh_only (f : fail) : bool := match f with F04_complete _ _ _ _ false => true | _ => false end.

Lemma last_second_refresh_witness :
  wf_history lastsec_hist = true
  /\ safe_class ex_ifs lastsec_hist = true
  /\ existsb is_refresh_only (viol_C04 ex_ifs lastsec_hist (ex_wakes lastsec_hist) (map obs_of (run_history ex_ifs lastsec_hist))) = true.
Proof. repeat split; vm_compute; reflexivity. Qed.

(* C04-D20: the PTR target of ref4_hist has a label that does not survive the dotted presentation *)
Definition known_dotted (h : list iter) : bool :=
  existsb (fun t => negb (labels_beq (name_labels (C02Spec.dotted t)) t))
          (flat_map (fun it => flat_map (fun d => ptr_targets_of (d_data d)) (i_dgrams it)) h).

Lemma dotted_witness :
  known_dotted ref4_hist = true /\ known_dotted ex_hist = false
  /\ chk_C04 ex_ifs ref4_hist (ex_wakes ref4_hist) (map obs_of (run_history ex_ifs ref4_hist)) = false.
Proof. repeat split; vm_compute; reflexivity. Qed.

(* non-vacuity of the safety theorem: ex_hist is in the safe class, is well-formed, and its
   trace contains a ServiceRemoved (goodbye) *)
Lemma safe_example :
  wf_history ex_hist = true /\ safe_class ex_ifs ex_hist = true
  /\ existsb (existsb is_removed_evt) (run_history ex_ifs ex_hist) = true.
Proof. repeat split; vm_compute; reflexivity. Qed.

(* C04-browse-over-expiring-ptr: the PTR record (TTL 3 s) is cached while the type is not browsed
   (additional section of a packet whose answer concerns a cached-for-us TXT); browse at +2500 (the
   PTR has 500 ms left: not reported); the PTR is refreshed at +2700 (not new: no ServiceFound);
   SRV and address at +2900: ServiceResolved without any ServiceFound on that channel *)
Definition brexp_hist : list iter :=
  [ mkIter T0 [mkDgram 2 true w_txt_addl_ptr3] [];
    mkIter (T0 + 2500) [] [CBrowse n_ty 1];
    mkIter (T0 + 2700) [mkDgram 2 true w_ptr120] [];
    mkIter (T0 + 2900) [mkDgram 2 true w_srv_addr] [];
    mkIter (T0 + 3400) [] [] ].

Lemma browse_expiring_witness :
  wf_history brexp_hist = true
  /\ known_browse_expiring ex_ifs brexp_hist = true
  /\ safe_class ex_ifs brexp_hist = true
  /\ existsb (existsb is_found_evt) (run_history ex_ifs brexp_hist) = false
  /\ map (fun o => existsb is_resolved_evt o) (run_history ex_ifs brexp_hist) = [false; false; false; true; false]
  /\ existsb is_order_fail (viol_C04 ex_ifs brexp_hist (ex_wakes brexp_hist) (map obs_of (run_history ex_ifs brexp_hist))) = true.
Proof. repeat split; vm_compute; reflexivity. Qed.

(* non-vacuity of clause F over histories: ex_hist is outside the class and its trace has a
   ServiceResolved; so have the histories of the other known classes *)
Lemma order_example :
  wf_history ex_hist = true /\ known_browse_expiring ex_ifs ex_hist = false
  /\ existsb (existsb is_resolved_evt) (run_history ex_ifs ex_hist) = true
  /\ known_browse_expiring ex_ifs lastsec_hist = false
  /\ known_browse_expiring ex_ifs srvtgt_hist = false
  /\ known_browse_expiring ex_ifs restart_hist = false.
Proof. repeat split; vm_compute; reflexivity. Qed.

(* non-vacuity of "no ServiceResolved after ServiceRemoved without new records": full
   announcement at +100, goodbye at +1000 (ServiceRemoved at +2000, when the goodbye records have
   run out), full announcement again at +2500: ServiceResolved again on the same channel; then
   stop and browse again on a new channel *)
Definition again_hist : list iter :=
  [ mkIter T0 [] [CBrowse n_ty 1];
    mkIter (T0 + 100) [mkDgram 2 true w_full] [];
    mkIter (T0 + 1000) [mkDgram 2 true w_bye] [];
    mkIter (T0 + 2000) [] [];
    mkIter (T0 + 2500) [mkDgram 2 true w_full] [];
    mkIter (T0 + 3000) [] [CStop n_ty; CBrowse n_ty 2];
    mkIter (T0 + 3500) [] [] ].

Lemma again_example :
  wf_history again_hist = true /\ safe_class ex_ifs again_hist = true /\ fresh_channels again_hist = true
  /\ map (fun o => (existsb is_resolved_evt o, existsb is_removed_evt o)) (run_history ex_ifs again_hist)
     = [(false, false); (true, false); (false, false); (false, true); (true, false); (false, false); (false, false)]
  /\ chk_C05 ex_ifs again_hist (ex_wakes again_hist) (map obs_of (run_history ex_ifs again_hist)) = true
  /\ fresh_channels ex_hist = true /\ fresh_channels brexp_hist = true /\ fresh_channels ptrlast_hist = true.
Proof. repeat split; vm_compute; reflexivity. Qed.

(* C05-stop-browse-drops-shared-records: the instance is browsed under its type (channel 1) and a
   subtype (channel 2); stop_browse of the subtype at +1000 drops its SRV / TXT / address records;
   channel 1 never gets a ServiceRemoved although nothing of the instance but the PTR is left *)
Definition stopname_hist : list iter :=
  [ mkIter T0 [] [CBrowse n_ty 1; CBrowse n_sub 2];
    mkIter (T0 + 100) [mkDgram 2 true w_twonames_addr3] [];
    mkIter (T0 + 1000) [] [CStop n_sub];
    mkIter (T0 + 2000) [] [];
    mkIter (T0 + 4000) [] [] ].

Definition is_dead_no_srv (f : fail) : bool := match f with F05_dead _ _ _ _ _ false => true | _ => false end.

Lemma stop_second_name_witness :
  wf_history stopname_hist = true /\ safe_class ex_ifs stopname_hist = true /\ fresh_channels stopname_hist = true
  /\ known_stop_second_name ex_ifs stopname_hist = true
  /\ existsb (existsb is_removed_evt) (run_history ex_ifs stopname_hist) = false
  /\ existsb is_dead_no_srv (viol_C05 ex_ifs stopname_hist (ex_wakes stopname_hist)
                                      (map obs_of (run_history ex_ifs stopname_hist))) = true
  /\ known_stop_second_name ex_ifs twonames_hist = false /\ known_stop_second_name ex_ifs again_hist = false.
Proof. repeat split; vm_compute; reflexivity. Qed.

(* round 6: the class of C05-expiry-hidden-by-expiring-ptr as a predicate on histories
   (known_removal_hidden: a removal is skipped because the PTR is in its last second), its
   witness, and non-vacuity of the timeliness theorem: histories in timely_class whose traces have
   ServiceRemoved events for a goodbye, an SRV expiry under two names, an address expiry under two
   names, an address expiry with a mixed-case host *)
Lemma removal_hidden_witness :
  wf_history ptrlast_hist = true /\ safe_class ex_ifs ptrlast_hist = true /\ fresh_channels ptrlast_hist = true
  /\ known_stop_second_name ex_ifs ptrlast_hist = false
  /\ known_removal_hidden ex_ifs ptrlast_hist = true
  /\ existsb is_dead_fail (viol_C05 ex_ifs ptrlast_hist (ex_wakes ptrlast_hist) (map obs_of (run_history ex_ifs ptrlast_hist))) = true.
Proof. repeat split; vm_compute; reflexivity. Qed.

Lemma timely_example :
  map (timely_class ex_ifs) [ex_hist; twonames_hist; twonames_addr_hist; mixedcase_hist; again_hist; lastsec_hist]
  = [true; true; true; true; true; true]
  /\ map (fun h => existsb (existsb is_removed_evt) (run_history ex_ifs h))
         [ex_hist; twonames_hist; twonames_addr_hist; mixedcase_hist; again_hist; lastsec_hist]
     = [true; true; true; true; true; true]
  /\ map (timely_class ex_ifs) [ptrlast_hist; stopname_hist; ref5_hist; srvtgt_hist] = [false; false; false; false].
Proof. repeat split; vm_compute; reflexivity. Qed.

(* F05_again is FALSE inside the class known_srv_targets (round 6, the daemon agrees): the instance
   is resolved through SRV -> host1; a second SRV -> host2 (TTL 8) with an address (TTL 3) takes
   over; the address runs out at +3200: ServiceRemoved (finding C05-second-srv-target); at +7500,
   when the SRV -> host2 is in its last second, a new address record of host2 arrives:
   ServiceResolved through SRV -> host1 again - no record of the instance or of host1 since the
   removal *)
Definition again_tgt_hist : list iter :=
  [ mkIter T0 [] [CBrowse n_ty 1];
    mkIter (T0 + 100) [mkDgram 2 true w_full] [];
    mkIter (T0 + 200) [mkDgram 2 true w_srv_h2_addr3] [];
    mkIter (T0 + 3200) [] [];
    mkIter (T0 + 7500) [mkDgram 2 true w_addr_h2] [];
    mkIter (T0 + 8000) [] [] ].

Lemma again_srv_targets_witness :
  wf_history again_tgt_hist = true /\ fresh_channels again_tgt_hist = true
  /\ known_srv_targets (log_of_history ex_ifs again_tgt_hist) = true
  /\ map (fun o => (existsb is_resolved_evt o, existsb is_removed_evt o)) (run_history ex_ifs again_tgt_hist)
     = [(false, false); (true, false); (true, false); (false, true); (true, false); (false, false)]
  /\ existsb is_again_fail (viol_C05 ex_ifs again_tgt_hist (ex_wakes again_tgt_hist)
                                     (map obs_of (run_history ex_ifs again_tgt_hist))) = true.
Proof. repeat split; vm_compute; reflexivity. Qed.

(* C03, clause "last advertised" (round 6).  Passing: the announce / update / goodbye history (the
   update arrives 1.9 s after the announcement and flushes its predecessor), and an update 200 ms
   after the announcement (two live SRV records coexist; the newer one is in front).
   Failing (finding C03-reannounced-record-keeps-position, the daemon agrees): the older SRV is
   announced again after the update; the next ServiceResolved still carries the port of the update *)
Definition quick_hist : list iter :=
  [ mkIter T0 [] [CBrowse n_ty 1];
    mkIter (T0 + 100) [mkDgram 2 true w_full] [];
    mkIter (T0 + 300) [mkDgram 2 true w_newport] [];
    mkIter (T0 + 800) [mkDgram 2 true w_addr_h1_new] [];
    mkIter (T0 + 2000) [] [] ].

Definition reann_hist : list iter :=
  [ mkIter T0 [] [CBrowse n_ty 1];
    mkIter (T0 + 100) [mkDgram 2 true w_full] [];
    mkIter (T0 + 300) [mkDgram 2 true w_newport; mkDgram 2 true w_full] [];
    mkIter (T0 + 800) [mkDgram 2 true w_addr_h1_new] [];
    mkIter (T0 + 2000) [] [] ].

Lemma last_advertised_examples :
  chk_C03_last ex_ifs ex_hist (run_history ex_ifs ex_hist) = true
  /\ chk_C03_last ex_ifs quick_hist (run_history ex_ifs quick_hist) = true
  /\ map (fun o => existsb is_resolved_evt o) (run_history ex_ifs quick_hist) = [false; true; true; true; false]
  /\ known_reannounced (log_of_history ex_ifs quick_hist) = false.
Proof. repeat split; vm_compute; reflexivity. Qed.

Lemma reannounced_witness :
  wf_history reann_hist = true
  /\ known_reannounced (log_of_history ex_ifs reann_hist) = true
  /\ chk_C03 ex_ifs reann_hist (run_history ex_ifs reann_hist) = true
  /\ chk_C03_last ex_ifs reann_hist (run_history ex_ifs reann_hist) = false.
Proof. repeat split; vm_compute; reflexivity. Qed.

(* round 8: the class of C04-last-second-refresh-not-new as a predicate on histories
   (known_refresh_completes: a delivery that is not reported as new turns a browsed instance
   strongly alive), its witness, and non-vacuity of the completeness theorem *)
Lemma refresh_completes_witness :
  wf_history lastsec_hist = true /\ safe_class ex_ifs lastsec_hist = true /\ fresh_channels lastsec_hist = true
  /\ known_refresh_completes ex_ifs lastsec_hist = true
  /\ existsb is_complete_fail (viol_C04 ex_ifs lastsec_hist (ex_wakes lastsec_hist) (map obs_of (run_history ex_ifs lastsec_hist))) = true.
Proof. repeat split; vm_compute; reflexivity. Qed.

Lemma complete_example :
  map (complete_class ex_ifs) [ex_hist; restart_hist; mixedcase_hist; quick_hist; brexp_hist; again_hist]
  = [true; true; true; true; true; true]
  /\ map (fun h => existsb (existsb is_resolved_evt) (run_history ex_ifs h))
         [ex_hist; restart_hist; mixedcase_hist; quick_hist; brexp_hist; again_hist]
     = [true; true; true; true; true; true]
  /\ map (complete_class ex_ifs) [lastsec_hist; srvtgt_hist] = [false; false].
Proof. repeat split; vm_compute; reflexivity. Qed.

(* C04-found-withdrawn-in-same-message (round 9, the daemon agrees): the PTR record and its goodbye
   arrive in one packet: ServiceFound, no follow-up question at +500 although the (expiring) PTR is
   still cached; ServiceRemoved at +1000 *)
Definition withdrawn_hist : list iter :=
  [ mkIter T0 [] [CBrowse n_ty 1];
    mkIter (T0 + 100) [mkDgram 2 true w_ptr_and_bye] [];
    mkIter (T0 + 600) [] [];
    mkIter (T0 + 1100) [] [];
    mkIter (T0 + 2000) [] [] ].

Lemma found_withdrawn_witness :
  wf_history withdrawn_hist = true /\ known_found_withdrawn ex_ifs withdrawn_hist = true
  /\ map (fun o => (existsb is_found_evt o, questions_of o)) (run_history ex_ifs withdrawn_hist)
     = [(false, []); (true, []); (false, []); (false, []); (false, [])]
  /\ existsb is_followup_fail (viol_C04 ex_ifs withdrawn_hist (ex_wakes withdrawn_hist) (map obs_of (run_history ex_ifs withdrawn_hist))) = true
  /\ known_found_withdrawn ex_ifs ex_follow = false /\ known_found_withdrawn ex_ifs ex_hist = false
  /\ known_found_withdrawn ex_ifs lastsec_hist = false.
Proof. repeat split; vm_compute; reflexivity. Qed.

(* C04-stale-resolve-overlaps-series (the daemon agrees; generator case life522 of seed 7): the PTR
   arrives one datagram before SRV / TXT in the iteration at +12201: a follow-up is queued for +12701
   and the instance is resolved; NO iteration until +22201 (late schedule), when the SRV (TTL 10) runs
   out and a new address record arrives: ServiceRemoved, a new series is queued for +22701 - and the
   leftover try of +12701 runs, finds nothing to ask and takes the instance out of pending_resolves;
   the new TXT record at +23202 therefore starts another series: questions at +23202, +23702,
   +24202, +24702 *)
Definition overlap_hist : list iter :=
  [ mkIter T0 [] [CBrowse n_ty 1];
    mkIter (T0 + 12201) [mkDgram 2 true w_ov_a_ptr; mkDgram 2 true w_ov_txt_srv10] [];
    mkIter (T0 + 22201) [mkDgram 2 true w_ov_a2] [];
    mkIter (T0 + 23202) [mkDgram 2 true w_ov_txt2] [];
    mkIter (T0 + 23702) [] [];
    mkIter (T0 + 24202) [] [];
    mkIter (T0 + 24702) [] [];
    mkIter (T0 + 25202) [] [] ].

Lemma overlapping_series_witness :
  wf_history overlap_hist = true /\ known_overlapping_series ex_ifs overlap_hist = true
  /\ map (fun o => length (questions_of o)) (run_history ex_ifs overlap_hist) = [0; 0; 0; 1; 2; 2; 1; 0]%nat
  /\ existsb is_many_fail (viol_C04 ex_ifs overlap_hist (ex_wakes overlap_hist) (map obs_of (run_history ex_ifs overlap_hist))) = true
  /\ known_overlapping_series ex_ifs ex_follow = false /\ known_overlapping_series ex_ifs ex_hist = false
  /\ known_overlapping_series ex_ifs restart_hist = false.
Proof. repeat split; vm_compute; reflexivity. Qed.
