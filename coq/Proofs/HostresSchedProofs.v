(* C17: the query schedule and the deadline, as invariants of the reference machine
   (Model/HostresSpec.v) over arbitrary histories.  Together with Proofs/HostresRefine.v they
   hold of the model of the code on every well-formed history.  No axioms. *)
From Coq Require Import List NArith Bool Lia Arith.
From Mdns Require Import Bytes ParamsHostres HostresBase HostresModel HostresSpec HostresPinned.
Import ListNotations.
Open Scope N_scope.

(* ---------------------------------------------------------------- the gaps 1, 2, 4, ... 3600 s *)
Fixpoint delay_seq (n : nat) : N :=
  match n with
  | O => hp_host_first_delay
  | S m => N.min (hp_host_next_delay (delay_seq m) hp_host_max_delay) hp_host_max_delay
  end.

Lemma delay_seq_closed n : delay_seq n = N.min (2 ^ N.of_nat n) 3600.
Proof.
  induction n as [|m IH].
  - reflexivity.
  - cbn [delay_seq]. rewrite IH, pin_host_next, pin_host_max.
    rewrite Nat2N.inj_succ, N.pow_succ_r'.
    set (x := 2 ^ N.of_nat m).
    destruct (N.min_spec x 3600) as [[H1 H2]|[H1 H2]]; rewrite H2.
    + destruct (N.min_spec (x * 2) 3600) as [[H3 H4]|[H3 H4]]; rewrite H4;
      destruct (N.min_spec (2 * x) 3600) as [[H5 H6]|[H5 H6]]; rewrite H6; lia.
    + destruct (N.min_spec (2 * x) 3600) as [[H5 H6]|[H5 H6]]; rewrite H6; [lia|].
      reflexivity.
Qed.

Lemma delay_seq_pos n : 1 <= delay_seq n.
Proof.
  rewrite delay_seq_closed.
  assert (1 <= 2 ^ N.of_nat n).
  { replace 1 with (2 ^ 0) by reflexivity. apply N.pow_le_mono_r; lia. }
  destruct (N.min_spec (2 ^ N.of_nat n) 3600) as [[_ H2]|[_ H2]]; rewrite H2; lia.
Qed.

(* the first gaps, literally *)
Lemma delay_seq_first :
  map delay_seq (seq 0 14) = [1; 2; 4; 8; 16; 32; 64; 128; 256; 512; 1024; 2048; 3600; 3600].
Proof. reflexivity. Qed.

(* ---------------------------------------------------------------- what holds of every search *)
Definition sk_ok (k : search) : Prop :=
  sk_key k = lower (sk_host k)
  /\ sk_deadline k = option_map (sat_add (sk_start k)) (sk_timeout k)
  /\ (1 <= sk_sent k)%nat
  /\ sk_start k <= sk_last k
  /\ (forall t d, sk_next k = Some (t, d) ->
        t = sk_last k + delay_seq (sk_sent k - 1) * 1000
        /\ d = delay_seq (sk_sent k)
        /\ forall dl, sk_deadline k = Some dl -> t < dl)
  /\ (sk_next k = None ->
        exists dl, sk_deadline k = Some dl /\ dl <= sk_last k + delay_seq (sk_sent k - 1) * 1000)
  /\ ((2 <= sk_sent k)%nat -> forall dl, sk_deadline k = Some dl -> sk_last k < dl).

(* the deadline of k is still ahead *)
Definition sk_live (now : N) (k : search) : Prop := forall dl, sk_deadline k = Some dl -> now < dl.
(* k was started in an iteration at time now and has only sent its first query *)
Definition sk_fresh (now : N) (k : search) : Prop := sk_sent k = 1%nat /\ sk_last k = now /\ sk_start k = now.

Definition searches_ok (now : N) (l : list search) : Prop :=
  Forall (fun k => sk_ok k /\ sk_last k <= now /\ (sk_live now k \/ sk_fresh now k)) l.

Lemma next_after_spec now d dl :
  match next_after now d dl with
  | Some (t, d') => t = now + d * 1000 /\ d' = N.min (d * 2) 3600 /\ forall x, dl = Some x -> t < x
  | None => exists x, dl = Some x /\ x <= now + d * 1000
  end.
Proof.
  unfold next_after. rewrite pin_host_unit, pin_host_next, pin_host_max.
  destruct dl as [x|].
  - rewrite pin_host_rearm. destruct (now + d * 1000 <? x) eqn:E.
    + apply N.ltb_lt in E. repeat split. intros y Hy. inversion Hy; subst. exact E.
    + apply N.ltb_ge in E. exists x. split; [reflexivity|exact E].
  - repeat split. intros x Hx. discriminate.
Qed.

Lemma sk_ok_new now host timeout chan :
  sk_ok (mkSearch (lower host) host chan (option_map (sat_add now) timeout)
                  (next_after now hp_host_first_delay (option_map (sat_add now) timeout)) now timeout 1 now).
Proof.
  unfold sk_ok. simpl. repeat split; try reflexivity; try lia.
  - pose proof (next_after_spec now hp_host_first_delay (option_map (sat_add now) timeout)) as Hs.
    rewrite H in Hs. destruct Hs as [Ht _]. rewrite Ht. reflexivity.
  - pose proof (next_after_spec now hp_host_first_delay (option_map (sat_add now) timeout)) as Hs.
    rewrite H in Hs. destruct Hs as [_ [Hd _]]. rewrite Hd. reflexivity.
  - pose proof (next_after_spec now hp_host_first_delay (option_map (sat_add now) timeout)) as Hs.
    rewrite H in Hs. destruct Hs as [_ [_ Hl]]. intros dl Hdl. apply Hl. exact Hdl.
  - intros H. pose proof (next_after_spec now hp_host_first_delay (option_map (sat_add now) timeout)) as Hs.
    rewrite H in Hs. destruct Hs as [x [Hx Hle]]. exists x. split; [exact Hx|]. exact Hle.
Qed.

Lemma sk_ok_fire now k :
  sk_ok k -> sk_last k <= now -> sk_live now k \/ sk_fresh now k ->
  sk_ok (sk_fire now k) /\ sk_last (sk_fire now k) <= now
  /\ (sk_live now (sk_fire now k) \/ sk_fresh now (sk_fire now k)).
Proof.
  intros Hok Hlast Hlf. unfold sk_fire.
  destruct (sk_next k) as [[t d]|] eqn:En; [|auto].
  rewrite pin_rerun_due. destruct (t <=? now) eqn:Edue; [|auto].
  apply N.leb_le in Edue.
  destruct Hok as [Hkey [Hdl [Hsent [Hstart [Hnext [Hnone Hre]]]]]].
  destruct (Hnext t d En) as [Ht [Hd Hbefore]].
  (* a due search is not fresh: its query time would be now + 1000 *)
  assert (Hlive : sk_live now k).
  { destruct Hlf as [H|[Hs [Hl _]]]; [exact H|].
    rewrite Hs, Hl in Ht. change (delay_seq (1 - 1)) with 1 in Ht. exfalso. lia. }
  split; [|split].
  - unfold sk_ok. simpl. repeat split; try assumption; try lia.
    + pose proof (next_after_spec now d (sk_deadline k)) as Hs. rewrite H in Hs.
      destruct Hs as [Ht' _]. rewrite Ht', Hd. replace (sk_sent k - 0)%nat with (sk_sent k) by lia. reflexivity.
    + pose proof (next_after_spec now d (sk_deadline k)) as Hs. rewrite H in Hs.
      destruct Hs as [_ [Hd' _]]. rewrite Hd', Hd, pin_host_next, pin_host_max. reflexivity.
    + pose proof (next_after_spec now d (sk_deadline k)) as Hs. rewrite H in Hs.
      destruct Hs as [_ [_ Hl]]. exact Hl.
    + intros H. pose proof (next_after_spec now d (sk_deadline k)) as Hs. rewrite H in Hs.
      destruct Hs as [x [Hx Hle]]. exists x. split; [exact Hx|].
      replace (sk_sent k - 0)%nat with (sk_sent k) by lia. rewrite <- Hd. exact Hle.
    + intros _ dl Hdl'. apply Hlive. exact Hdl'.
  - simpl. lia.
  - left. exact Hlive.
Qed.

(* ---------------------------------------------------------------- the phases preserve it *)
Lemma searches_ok_filter now g l : searches_ok now l -> searches_ok now (filter g l).
Proof.
  unfold searches_ok. rewrite !Forall_forall. intros H k Hk. apply filter_In in Hk as [Hk _]. apply H. exact Hk.
Qed.

Lemma searches_ok_set now x l :
  sk_ok x /\ sk_last x <= now /\ (sk_live now x \/ sk_fresh now x) ->
  searches_ok now l -> searches_ok now (set_search x l).
Proof.
  intros Hx. unfold searches_ok. induction l as [|y t IH]; simpl; intros H.
  - constructor; [exact Hx|constructor].
  - inversion H; subst. destruct (beq (sk_key x) (sk_key y)); constructor; auto.
Qed.

Lemma sp_call_ok now p c :
  searches_ok now (ss_searches p) ->
  searches_ok now (ss_searches (fst (fst (sp_call now p c)))).
Proof.
  intros H. destruct c as [host timeout chan|host]; simpl.
  - apply searches_ok_set; [|exact H]. split; [apply sk_ok_new|]. simpl. split; [lia|].
    right. unfold sk_fresh. simpl. auto.
  - destruct (find_search (lower host) (ss_searches p)); simpl; [|exact H].
    apply searches_ok_filter. exact H.
Qed.

Lemma sp_calls_ok now cs : forall p e q,
  searches_ok now (ss_searches p) ->
  searches_ok now (ss_searches (fst (fst (
    fold_left (fun acc c => let '(s0, e0, q0) := acc in
                            let '(s', e, q) := sp_call now s0 c in (s', e0 ++ e, q0 ++ q)) cs (p, e, q))))).
Proof.
  induction cs as [|c t IH]; intros p e q H; simpl; [exact H|].
  pose proof (sp_call_ok now p c H) as H1.
  destruct (sp_call now p c) as [[p1 e1] q1]. simpl in H1. apply IH. exact H1.
Qed.

(* the state between iterations: every open search is in order, and after an iteration at
   time `now` every search still open has its deadline ahead (or was started at `now`) *)
Definition state_ok (now : N) (p : sst) : Prop := searches_ok now (ss_searches p).

Lemma searches_ok_later prev now l :
  prev <= now -> searches_ok prev l ->
  Forall (fun k => sk_ok k /\ sk_last k <= now) l.
Proof.
  intros Hle H. unfold searches_ok in H. rewrite Forall_forall in *. intros k Hk.
  destruct (H k Hk) as [H1 [H2 _]]. split; [exact H1|lia].
Qed.

Theorem sp_step_ok p i prev :
  state_ok prev p -> prev <= it_now i -> state_ok (it_now i) (fst (sp_step p i)).
Proof.
  intros Hok Hle. unfold state_ok, sp_step.
  set (now := it_now i).
  unfold sp_responses.
  destruct (respond_all now (res_view p) (ss_cache p) (it_msgs i)) as [c1 e1].
  unfold sp_timeouts. simpl.
  (* after the deadlines phase every remaining search is live *)
  assert (H2 : searches_ok now (filter (fun k => negb (sk_timed_out now k)) (ss_searches p))).
  { pose proof (searches_ok_later prev now _ Hle Hok) as H.
    unfold searches_ok. rewrite Forall_forall in *. intros k Hk. apply filter_In in Hk as [Hk Hnt].
    destruct (H k Hk) as [H1 H1']. split; [exact H1|]. split; [exact H1'|].
    left. intros dl Hdl. unfold sk_timed_out in Hnt. rewrite Hdl, pin_deadline_reached in Hnt.
    apply negb_true_iff in Hnt. apply N.leb_gt in Hnt. exact Hnt. }
  unfold sp_calls.
  pose proof (sp_calls_ok now (it_calls i)
                (mkSst c1 (filter (fun k => negb (sk_timed_out now k)) (ss_searches p)) (ss_open p)) [] [] H2) as H3.
  destruct (fold_left _ (it_calls i) _) as [[p3 e3] q3]. simpl in H3.
  unfold sp_sends, sp_refresh, sp_evict, sp_closed, evict_all. simpl.
  destruct (refresh_all now _ (ss_cache p3)) as [c5 q5]. simpl.
  unfold searches_ok in *. rewrite Forall_forall in *. intros k Hk.
  apply in_map_iff in Hk as [k0 [E Hk0]]. subst k.
  destruct (H3 k0 Hk0) as [Ha [Hb Hc]]. apply sk_ok_fire; assumption.
Qed.

Lemma state_ok_init : state_ok 0 sst0.
Proof. constructor. Qed.

(* reachable states of the reference machine *)
Fixpoint sp_state_after (p : sst) (h : list iter) : sst :=
  match h with
  | [] => p
  | i :: t => sp_state_after (fst (sp_step p i)) t
  end.

Fixpoint last_time (prev : N) (h : list iter) : N :=
  match h with
  | [] => prev
  | i :: t => last_time (it_now i) t
  end.

Lemma sp_run_ok h : forall p prev,
  state_ok prev p -> times_ok prev h = true -> state_ok (last_time prev h) (sp_state_after p h).
Proof.
  induction h as [|i t IH]; intros p prev Hok Ht; simpl; [exact Hok|].
  simpl in Ht. apply andb_true_iff in Ht as [H1 H2]. apply N.leb_le in H1.
  apply IH; [|exact H2]. apply sp_step_ok with (prev := prev); assumption.
Qed.

(* ---------------------------------------------------------------- the statements *)
(* query_schedule: in every state reachable by a history with non-decreasing times, the next
   A+AAAA query of an open search is due exactly (time of its last query) + min(2^(n-1),3600) s,
   n = number of queries sent so far, and never at or after the deadline; it is absent only
   when that time would not be before the deadline; and every query after the first was sent
   before the deadline. *)
Theorem query_schedule : forall h k,
  times_ok 0 h = true -> In k (ss_searches (sp_state_after sst0 h)) ->
  (1 <= sk_sent k)%nat
  /\ (forall t d, sk_next k = Some (t, d) ->
        t = sk_last k + N.min (2 ^ N.of_nat (sk_sent k - 1)) 3600 * 1000
        /\ d = N.min (2 ^ N.of_nat (sk_sent k)) 3600
        /\ forall dl, sk_deadline k = Some dl -> t < dl)
  /\ (sk_next k = None ->
        exists dl, sk_deadline k = Some dl
                   /\ dl <= sk_last k + N.min (2 ^ N.of_nat (sk_sent k - 1)) 3600 * 1000)
  /\ ((2 <= sk_sent k)%nat -> forall dl, sk_deadline k = Some dl -> sk_last k < dl).
Proof.
  intros h k Ht Hin.
  pose proof (sp_run_ok h sst0 0 state_ok_init Ht) as H.
  unfold state_ok, searches_ok in H. rewrite Forall_forall in H.
  destruct (H k Hin) as [[_ [_ [Hs [_ [Hn [Hnone Hre]]]]]] _].
  rewrite <- !delay_seq_closed. repeat split; try assumption.
  - apply Hn in H0. destruct H0 as [H0 _]. exact H0.
  - apply Hn in H0. destruct H0 as [_ [H0 _]]. exact H0.
  - apply Hn in H0. destruct H0 as [_ [_ H0]]. exact H0.
Qed.

(* the questions of a scheduled query: A and AAAA for the name as the caller spelled it, sent
   by exactly the searches whose query time has come *)
Theorem schedule_queries : forall now p,
  snd (sp_sends now p)
  = map (fun k => [(sk_host k, 1); (sk_host k, 28)])
        (filter (fun k => match sk_next k with Some (t, _) => t <=? now | None => false end) (ss_searches p)).
Proof.
  intros now p. reflexivity.
Qed.

Lemma sat_add_eq a b : sat_add a b = N.min (a + b) 18446744073709551615.
Proof. reflexivity. Qed.

(* timeout_at_deadline, part 1: the deadline is start + timeout (saturating), and after an
   iteration at time `now` every search still open has its deadline after `now` (or was
   started at `now`): a search is never open beyond the first iteration at or after its
   deadline. *)
Theorem deadline_is_start_plus_timeout : forall h k,
  times_ok 0 h = true -> In k (ss_searches (sp_state_after sst0 h)) ->
  sk_deadline k = option_map (sat_add (sk_start k)) (sk_timeout k)
  /\ (forall dl, sk_deadline k = Some dl -> last_time 0 h < dl \/ sk_start k = last_time 0 h).
Proof.
  intros h k Ht Hin.
  pose proof (sp_run_ok h sst0 0 state_ok_init Ht) as H.
  unfold state_ok, searches_ok in H. rewrite Forall_forall in H.
  destruct (H k Hin) as [[_ [Hd _]] [_ Hlf]]. split; [exact Hd|].
  intros dl Hdl. destruct Hlf as [Hl|[_ [_ Hs]]]; [left; apply Hl; exact Hdl|right; exact Hs].
Qed.

(* part 2: in the iteration in which the deadline of an open search has come, SearchTimeout
   and then SearchStopped (with the lower-cased name) are delivered on its channel, adjacent *)
Theorem timeout_events : forall p i k,
  In k (ss_searches p) ->
  (exists dl, sk_deadline k = Some dl /\ dl <= it_now i) ->
  exists l1 l2,
    o_events (snd (sp_step p i))
    = l1 ++ [(sk_chan k, ETimeout (sk_key k)); (sk_chan k, EStopped (sk_key k))] ++ l2.
Proof.
  intros p i k Hin [dl [Hdl Hle]]. unfold sp_step.
  unfold sp_responses.
  destruct (respond_all (it_now i) (res_view p) (ss_cache p) (it_msgs i)) as [c1 e1].
  unfold sp_timeouts, sp_calls. simpl.
  destruct (fold_left _ (it_calls i) _) as [[p3 e3] q3].
  unfold sp_sends, sp_refresh, sp_evict, sp_closed, evict_all. simpl.
  destruct (refresh_all (it_now i) _ (ss_cache p3)) as [c5 q5]. simpl.
  assert (Hf : In k (filter (sk_timed_out (it_now i)) (ss_searches p))).
  { apply filter_In. split; [exact Hin|]. unfold sk_timed_out. rewrite Hdl, pin_deadline_reached.
    apply N.leb_le. exact Hle. }
  apply in_split in Hf as [a [b Hab]]. rewrite Hab.
  rewrite flat_map_app. simpl.
  exists (e1 ++ flat_map (fun k0 => [(sk_chan k0, ETimeout (sk_key k0)); (sk_chan k0, EStopped (sk_key k0))]) a).
  eexists. rewrite <- !app_assoc. simpl. reflexivity.
Qed.

(* part 3: no SearchTimeout before the deadline *)
Theorem no_early_timeout : forall p i c nm,
  In (c, ETimeout nm) (flat_map (fun k => [(sk_chan k, ETimeout (sk_key k)); (sk_chan k, EStopped (sk_key k))])
                                (filter (sk_timed_out (it_now i)) (ss_searches p))) ->
  exists k dl, In k (ss_searches p) /\ sk_chan k = c /\ sk_key k = nm
               /\ sk_deadline k = Some dl /\ dl <= it_now i.
Proof.
  intros p i c nm H. apply in_flat_map in H as [k [Hk H]].
  apply filter_In in Hk as [Hk Ht]. exists k.
  unfold sk_timed_out in Ht. destruct (sk_deadline k) as [dl|] eqn:E; [|discriminate].
  rewrite pin_deadline_reached in Ht. apply N.leb_le in Ht.
  exists dl. simpl in H. destruct H as [H|[H|[]]]; inversion H; subst. auto.
Qed.
