(* C03, the clause "as the network LAST advertised it" (chk_C03_last, Model/C03Spec.v): the two
   facts about the code it rests on - resolve_service_from_cache uses the FIRST record of the Vec
   that does not expire within a second; a record that is new for the cache is put in FRONT of
   the (cache-flushed) Vec, a record that is announced again is rewritten where it is. *)
From Coq Require Import List NArith Bool Lia.
From Mdns Require Import Res Bytes Rec Wire Txt ParamsBrowser ParamsBrowserPinned Cache Browser C03Spec
  CacheProofs CacheInvProofs AouCasesProofs.
Import ListNotations.
Open Scope N_scope.

Theorem resolve_uses_first_live c now ty inst sb :
  bm_get inst (c_srv c) = Some sb ->
  let r := resolve_from_cache c now ty inst in
  match find (fun e => negb (expires_soon e now)) sb with
  | Some e => rs_host r = srv_host e /\ rs_port r = srv_port e
  | None => rs_host r = [] /\ rs_port r = 0
  end.
Proof.
  intros H. unfold resolve_from_cache. cbn [rs_host rs_port]. rewrite H.
  destruct (find (fun e => negb (expires_soon e now)) sb); auto.
Qed.

Theorem resolve_txt_first_live c now ty inst tb :
  bm_get inst (c_txt c) = Some tb ->
  rs_txt (resolve_from_cache c now ty inst)
  = match find (fun e => negb (expires_soon e now)) tb with Some e => txt_props (txt_text e) | None => [] end.
Proof. intros H. unfold resolve_from_cache. cbn [rs_txt]. now rewrite H. Qed.

(* a record with no matching entry in a non-empty bucket goes in front of it *)
Theorem new_record_in_front c now ifx r fu k e0 t0 :
  kind_of_type (r_type r) = Some k ->
  bm_get (key_of k (r_name r)) (get_map c k) = Some (e0 :: t0) ->
  update_first (map (fl r ifx now) (e0 :: t0)) r ifx now = None ->
  bm_get (key_of k (r_name r)) (get_map (fst (add_or_update c now ifx r fu)) k)
  = Some (new_entry r now ifx :: map (fl r ifx now) (e0 :: t0))
  /\ snd (add_or_update c now ifx r fu) = Some (new_entry r now ifx, true).
Proof.
  intros Hk Hb Hu. unfold add_or_update. rewrite Hk.
  assert (Hmaps : get_map (note_subtype c r fu) k = get_map c k) by apply note_subtype_maps.
  rewrite Hmaps, Hb. rewrite (fl_map r ifx now (e0 :: t0)), Hu. cbn [fst snd].
  rewrite get_set_map_same, bm_set_get_same. auto.
Qed.

(* a record that matches an entry is rewritten in place: the bucket keeps its length and order *)
Theorem reannounced_keeps_position r ifx now : forall b b2 z,
  update_first b r ifx now = Some (b2, z) ->
  length b2 = length b
  /\ forall n e, nth_error b n = Some e ->
       nth_error b2 n = Some e \/ (entry_matches e r ifx = true /\ nth_error b2 n = Some (reset_ttl e r now)).
Proof.
  induction b as [|e t IH]; intros b2 z; simpl; [discriminate|].
  destruct (entry_matches e r ifx) eqn:Em.
  - intros H. inversion H; subst. split; [reflexivity|]. intros [|n] x Hx; simpl in *.
    + inversion Hx; subst. right. auto.
    + left. exact Hx.
  - destruct (update_first t r ifx now) as [[t' y]|] eqn:E; [|discriminate].
    intros H. inversion H; subst. destruct (IH t' z eq_refl) as [A B]. split; [simpl; now rewrite A|].
    intros [|n] x Hx; simpl in *; [left; exact Hx|apply B; exact Hx].
Qed.
