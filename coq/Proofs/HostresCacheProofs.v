(* C17: the address cache (functions of Model/HostresModel.v shared by the model of the code
   and the reference machine): what AddressesFound / AddressesRemoved carry, what is refreshed
   and when, where cached addresses come from.  No axioms. *)
From Coq Require Import List NArith Bool Lia.
From Mdns Require Import Bytes ParamsHostres HostresBase HostresModel HostresSpec HostresPinned.
Import ListNotations.
Open Scope N_scope.

(* ---------------------------------------------------------------- identity of a cached record *)
Definition ident (x : arec) : name * N * N * bool * bytes * N :=
  (a_name x, a_ty x, a_class x, a_flush x, a_addr x, a_if x).

Lemma matches_ident r x : arec_matches r x = true <-> ident r = ident x.
Proof.
  unfold arec_matches, ident. split.
  - intros H. repeat (apply andb_true_iff in H as [H ?]).
    apply beq_eq in H. apply beq_eq in H4. apply N.eqb_eq in H3, H2, H0. apply Bool.eqb_prop in H1. congruence.
  - intros H. inversion H. rewrite !beq_refl, !N.eqb_refl, Bool.eqb_reflx. reflexivity.
Qed.

Lemma ident_set_life l x : ident (a_set_life l x) = ident x.
Proof. reflexivity. Qed.

Definition entries (c : cache) : list arec := flat_map snd c.

(* ---------------------------------------------------------------- lifetime arithmetic, literally *)
Lemma exp_time_eq c t p : exp_time c t p = c + t * p * 10.
Proof. reflexivity. Qed.

Lemma life_new_eq now ttl : life_new now ttl = mkLife ttl now (now + ttl * 1000) (now + ttl * 800).
Proof. unfold life_new. rewrite !exp_time_eq. f_equal; unfold hp_new_expire_percent, hp_new_refresh_percent; lia. Qed.

Lemma life_reset_eq now ttl :
  life_reset now ttl = mkLife ttl now (now + ttl * 1000) (if 1 <? ttl then now + ttl * 800 else now + ttl * 1000).
Proof.
  unfold life_reset. rewrite !exp_time_eq, pin_reset_full.
  unfold hp_reset_expire_percent, hp_reset_refresh_percent.
  destruct (1 <? ttl); f_equal; lia.
Qed.

(* a cache flush only shortens: expires never exceeds created + ttl *)
Definition life_wf (l : life) : Prop := l_expires l <= l_created l + l_ttl l * 1000.

Lemma life_new_wf now ttl : life_wf (life_new now ttl).
Proof. rewrite life_new_eq. unfold life_wf. simpl. lia. Qed.
Lemma life_reset_wf now ttl : life_wf (life_reset now ttl).
Proof. rewrite life_reset_eq. unfold life_wf. simpl. lia. Qed.
Lemma life_no_more_wf l : life_wf l -> life_wf (life_no_more l).
Proof. unfold life_wf, life_no_more. simpl. auto. Qed.

Lemma flush_one_wf now x r : life_wf (a_life r) -> life_wf (a_life (flush_one now x r)).
Proof.
  intros H. unfold flush_one.
  destruct ((a_class x =? a_class r) && (a_ty x =? a_ty r) && hp_flush_old_enough now (l_created (a_life r))
            && hp_flush_far_enough now (l_expires (a_life r)) && (a_if r =? a_if x)) eqn:E; [|exact H].
  apply andb_true_iff in E as [E _]. apply andb_true_iff in E as [_ E].
  rewrite pin_flush_far in E. apply N.ltb_lt in E.
  unfold life_wf in *. simpl. rewrite pin_flush_expire. lia.
Qed.

(* ---------------------------------------------------------------- refresh: once, at 80 % *)
(* after the refresh mark was set, the record is never due again (until a new announcement
   resets its lifetime) *)
Lemma wanted_after_no_more now' r :
  life_wf (a_life r) -> refresh_wanted now' (a_set_life (life_no_more (a_life r)) r) = false.
Proof.
  intros H. unfold refresh_wanted, life_expired, life_refresh_due, life_no_more. simpl.
  rewrite pin_is_expired, pin_refresh_due, exp_time_eq. unfold hp_no_more_percent.
  destruct (l_expires (a_life r) <=? now') eqn:E1; [reflexivity|]. simpl.
  apply N.leb_gt in E1. apply N.leb_gt. unfold life_wf in H. lia.
Qed.

(* a record as it was cached (new at t0 with TTL ttl, not flushed) is due from 80 % of its
   lifetime until it expires *)
Lemma wanted_new_iff now t0 ttl x :
  a_life x = life_new t0 ttl ->
  (refresh_wanted now x = true <-> t0 + ttl * 800 <= now /\ now < t0 + ttl * 1000).
Proof.
  intros H. unfold refresh_wanted, life_expired, life_refresh_due. rewrite H, life_new_eq. simpl.
  rewrite pin_is_expired, pin_refresh_due. rewrite andb_true_iff, negb_true_iff, N.leb_gt, N.leb_le. tauto.
Qed.

(* a record whose lifetime was renewed by a repeated announcement: same, unless the TTL is
   <= 1 (a goodbye): then it is never refreshed *)
Lemma wanted_reset_iff now t0 ttl x :
  a_life x = life_reset t0 ttl ->
  (refresh_wanted now x = true <-> 1 < ttl /\ t0 + ttl * 800 <= now /\ now < t0 + ttl * 1000).
Proof.
  intros H. unfold refresh_wanted, life_expired, life_refresh_due. rewrite H, life_reset_eq. simpl.
  rewrite pin_is_expired, pin_refresh_due. rewrite andb_true_iff, negb_true_iff, N.leb_gt, N.leb_le.
  destruct (1 <? ttl) eqn:E; [apply N.ltb_lt in E|apply N.ltb_ge in E]; split; intros; lia.
Qed.

Lemma saddr_eqb_eq a b : saddr_eqb a b = true <-> a = b.
Proof.
  destruct a as [a1 a2], b as [b1 b2]. unfold saddr_eqb. simpl.
  rewrite andb_true_iff, beq_eq, N.eqb_eq. split; [intros [-> ->]; reflexivity|intros H; inversion H; auto].
Qed.
Lemma saddr_mem_In a l : saddr_mem a l = true <-> In a l.
Proof.
  induction l as [|x t IH]; simpl; [split; [discriminate|tauto]|].
  rewrite orb_true_iff, saddr_eqb_eq, IH. split; intros [H|H]; auto.
Qed.
Lemma saddr_add_In a x l : In a (saddr_add x l) <-> a = x \/ In a l.
Proof.
  unfold saddr_add. destruct (saddr_mem x l) eqn:E.
  - apply saddr_mem_In in E. split; [auto|intros [->|H]; assumption].
  - rewrite in_app_iff. simpl. split; intros [H|H]; auto. destruct H as [H|[]]; auto.
Qed.
Lemma saddr_add_NoDup x l : NoDup l -> NoDup (saddr_add x l).
Proof.
  intros H. unfold saddr_add. destruct (saddr_mem x l) eqn:E; [exact H|].
  assert (~ In x l) by (intros Hin; apply saddr_mem_In in Hin; congruence).
  clear E. induction l as [|y t IH]; simpl; [constructor; [tauto|constructor]|].
  inversion H; subst. constructor.
  - rewrite in_app_iff. simpl. intros [Hin|[Hin|[]]]; [contradiction|]. subst. apply H0. left. reflexivity.
  - apply IH; [assumption|]. intros Hin. apply H0. right. exact Hin.
Qed.

Lemma fold_saddr_In {A} (w : A -> bool) (f : A -> saddr) b : forall acc a,
  In a (fold_left (fun acc r => if w r then saddr_add (f r) acc else acc) b acc)
  <-> In a acc \/ exists r, In r b /\ w r = true /\ f r = a.
Proof.
  induction b as [|r t IH]; intros acc a; simpl.
  - split; [auto|intros [H|[r [[] _]]]; exact H].
  - rewrite IH. destruct (w r) eqn:E.
    + rewrite saddr_add_In. split.
      * intros [[H|H]|[r' [H1 H2]]]; [right; exists r; auto|left; exact H|right; exists r'; tauto].
      * intros [H|[r' [[H1|H1] H2]]]; [left; right; exact H|subst; left; left; symmetry; tauto|right; exists r'; tauto].
    + split.
      * intros [H|[r' [H1 H2]]]; [left; exact H|right; exists r'; tauto].
      * intros [H|[r' [[H1|H1] [H2 H3]]]]; [left; exact H|subst; congruence|right; exists r'; tauto].
Qed.

(* the refresh pass over one bucket: one question per distinct (address, interface) among the
   records that are due; every due record gets the mark; nothing else changes *)
Theorem refresh_bucket_spec now b :
  (forall a, In a (snd (refresh_bucket now b))
             <-> exists r, In r b /\ refresh_wanted now r = true /\ (a_addr r, a_if r) = a)
  /\ fst (refresh_bucket now b)
     = map (fun r => if refresh_wanted now r then a_set_life (life_no_more (a_life r)) r else r) b.
Proof.
  unfold refresh_bucket. simpl. split; [|reflexivity].
  intros a. rewrite (fold_saddr_In (refresh_wanted now) (fun r => (a_addr r, a_if r))). simpl. tauto.
Qed.

(* after the pass no record of the bucket is due at that time - and a marked record stays
   not-due for ever (wanted_after_no_more) *)
Theorem refresh_bucket_done now b :
  Forall (fun r => life_wf (a_life r)) b ->
  Forall (fun r => refresh_wanted now r = false) (fst (refresh_bucket now b)).
Proof.
  intros H. unfold refresh_bucket. simpl. rewrite Forall_forall in *. intros r' Hr'.
  apply in_map_iff in Hr' as [r [E Hr]]. subst r'.
  destruct (refresh_wanted now r) eqn:Ew; [apply wanted_after_no_more; apply H; exact Hr|exact Ew].
Qed.

(* ---------------------------------------------------------------- AddressesFound content *)
Lemma group_add_spec sp a m : forall sp' A,
  NoDup (map fst m) ->
  (In (sp', A) (group_add sp a m) ->
     (exists A0, In (sp', A0) m /\ (forall x, In x A <-> In x A0 \/ (sp' = sp /\ x = a)))
     \/ (sp' = sp /\ ~ In sp (map fst m) /\ A = [a])).
Proof.
  induction m as [|[s0 A0] t IH]; intros sp' A Hnd; simpl.
  - intros [H|[]]. inversion H; subst. right. auto.
  - inversion Hnd; subst. destruct (beq sp s0) eqn:E.
    + apply beq_eq in E. subst s0. simpl. intros [H|H].
      * inversion H; subst. left. exists A0. split; [left; reflexivity|].
        intros x. rewrite saddr_add_In. split; [intros [->|Hx]; auto|intros [Hx|[_ ->]]; auto].
      * left. exists A. split; [right; exact H|]. intros x. split; [auto|].
        intros [Hx|[-> _]]; [exact Hx|]. exfalso. apply H1. apply (in_map fst) in H. exact H.
    + simpl. intros [H|H].
      * inversion H; subst. left. exists A. split; [left; reflexivity|].
        intros x. split; [auto|]. intros [Hx|[-> _]]; [exact Hx|]. rewrite beq_refl in E. discriminate.
      * destruct (IH sp' A H2 H) as [[A1 [Hin Hx]]|[-> [Hn ->]]].
        -- left. exists A1. split; [right; exact Hin|exact Hx].
        -- right. split; [reflexivity|]. split; [|reflexivity].
           simpl. intros [Hs|Hs]; [subst; rewrite beq_refl in E; discriminate|contradiction].
Qed.

Lemma group_add_keys sp a m : forall s, In s (map fst (group_add sp a m)) <-> s = sp \/ In s (map fst m).
Proof.
  induction m as [|[s0 A0] t IH]; intros s; simpl.
  - split; [intros [H|[]]; auto|intros [H|[]]; auto].
  - destruct (beq sp s0) eqn:E; simpl.
    + apply beq_eq in E. subst. split; [intros [H|H]; auto|intros [H|[H|H]]; auto].
    + rewrite IH. split; [intros [H|[H|H]]; auto|intros [H|[H|H]]; auto].
Qed.

Lemma group_add_NoDup sp a m : NoDup (map fst m) -> NoDup (map fst (group_add sp a m)).
Proof.
  induction m as [|[s0 A0] t IH]; simpl; intros H.
  - constructor; [tauto|constructor].
  - inversion H; subst. destruct (beq sp s0) eqn:E; simpl.
    + constructor; assumption.
    + constructor; [|apply IH; assumption].
      rewrite group_add_keys. intros [Hs|Hs]; [subst; rewrite beq_refl in E; discriminate|contradiction].
Qed.

(* get_addresses_for_host over a bucket: every spelling present in the bucket appears exactly
   once, with exactly the (address, interface) pairs of the records spelled that way *)
Theorem group_addrs_spec b :
  NoDup (map fst (group_addrs b))
  /\ (forall sp A, In (sp, A) (group_addrs b) ->
        forall a, In a A <-> exists x, In x b /\ a_name x = sp /\ (a_addr x, a_if x) = a)
  /\ (forall x, In x b -> exists A, In (a_name x, A) (group_addrs b)).
Proof.
  unfold group_addrs.
  assert (G : forall b m,
    NoDup (map fst m) ->
    NoDup (map fst (fold_left (fun m r => group_add (a_name r) (a_addr r, a_if r) m) b m))
    /\ (forall sp A, In (sp, A) (fold_left (fun m r => group_add (a_name r) (a_addr r, a_if r) m) b m) ->
          exists A0, (In (sp, A0) m \/ (A0 = [] /\ ~ In sp (map fst m)))
                     /\ forall a, In a A <-> In a A0 \/ exists x, In x b /\ a_name x = sp /\ (a_addr x, a_if x) = a)
    /\ (forall s, (In s (map fst m) \/ exists x, In x b /\ a_name x = s) ->
          In s (map fst (fold_left (fun m r => group_add (a_name r) (a_addr r, a_if r) m) b m)))).
  { clear b. induction b as [|r t IH]; intros m Hnd; simpl.
    - split; [exact Hnd|]. split.
      + intros sp A H. exists A. split; [left; exact H|]. intros a. split; [auto|]. intros [H1|[x [[] _]]]. exact H1.
      + intros s [H|[x [[] _]]]. exact H.
    - destruct (IH (group_add (a_name r) (a_addr r, a_if r) m) (group_add_NoDup _ _ _ Hnd)) as [I1 [I2 I3]].
      split; [exact I1|]. split.
      + intros sp A H. destruct (I2 sp A H) as [A1 [HA1 Hx]].
        destruct HA1 as [HA1|[-> Hn]].
        * destruct (group_add_spec _ _ _ sp A1 Hnd HA1) as [[A0 [Hin Hy]]|[-> [Hn ->]]].
          -- exists A0. split; [left; exact Hin|]. intros a. rewrite Hx, Hy. split.
             ++ intros [[H1|[-> ->]]|[x [H1 H2]]]; [left; exact H1|right; exists r; auto|right; exists x; tauto].
             ++ intros [H1|[x [[H1|H1] [H2 H3]]]]; [left; left; exact H1|subst; left; right; auto|right; exists x; auto].
          -- exists []. split; [right; auto|]. intros a. rewrite Hx. simpl. split.
             ++ intros [[H1|[]]|[x [H1 H2]]]; [subst; right; exists r; auto|right; exists x; tauto].
             ++ intros [[]|[x [[H1|H1] [H2 H3]]]]; [subst; left; left; reflexivity|right; exists x; auto].
        * exists []. split.
          -- right. split; [reflexivity|]. intros Hin. apply Hn. apply group_add_keys. right. exact Hin.
          -- intros a. rewrite Hx. simpl. split.
             ++ intros [[]|[x [H1 H2]]]. right. exists x. tauto.
             ++ intros [[]|[x [[H1|H1] [H2 H3]]]]; [|right; exists x; auto].
                subst. exfalso. apply Hn. apply group_add_keys. left. reflexivity.
      + intros s Hs. apply I3. destruct Hs as [Hs|[x [[Hx|Hx] Hn]]].
        * left. apply group_add_keys. right. exact Hs.
        * subst. left. apply group_add_keys. left. reflexivity.
        * right. exists x. auto. }
  destruct (G b [] (NoDup_nil _)) as [G1 [G2 G3]]. split; [exact G1|]. split.
  - intros sp A H a. destruct (G2 sp A H) as [A0 [[[]|[-> _]] Hx]]. rewrite Hx. simpl. tauto.
  - intros x Hx. assert (Hs : In (a_name x) (map fst (fold_left (fun m r => group_add (a_name r) (a_addr r, a_if r) m) b []))).
    { apply G3. right. exists x. auto. }
    apply in_map_iff in Hs as [[s A] [E Hin]]. simpl in E. subst. exists A. exact Hin.
Qed.

(* every AddressesFound produced for a host goes to the channel of the search for that name
   (compared in lower case) and carries a spelling with exactly the cached addresses spelled so *)
Theorem found_events_spec res c host ch e :
  In (ch, e) (found_events res c host) ->
  exists r sp A, find_res (lower host) res = Some r /\ ch = r_chan r /\ e = EFound sp A
    /\ forall a, In a A <-> exists x, In x (bucket_of c (lower host)) /\ a_name x = sp /\ (a_addr x, a_if x) = a.
Proof.
  unfold found_events. destruct (find_res (lower host) res) as [r|]; [|intros []].
  intros H. apply in_map_iff in H as [[sp A] [E Hin]]. inversion E; subst.
  exists r, sp, A. repeat split; try reflexivity.
  - apply (proj1 (proj2 (group_addrs_spec _)) sp A Hin).
  - apply (proj1 (proj2 (group_addrs_spec _)) sp A Hin).
Qed.

(* ---------------------------------------------------------------- eviction *)
Lemma flat_map_drop_empty {K A} (l : list (K * list A)) :
  flat_map snd (filter (fun kb => match snd kb with [] => false | _ => true end) l) = flat_map snd l.
Proof.
  induction l as [|[k b] t IH]; simpl; [reflexivity|].
  destruct b; simpl; rewrite IH; reflexivity.
Qed.

Lemma entries_evict now c x :
  In x (entries (evict_cache now c)) <-> In x (entries c) /\ a_expired now x = false.
Proof.
  unfold entries, evict_cache. rewrite flat_map_drop_empty.
  induction c as [|[k b] t IH]; simpl; [tauto|].
  rewrite !in_app_iff, IH, filter_In, negb_true_iff. tauto.
Qed.

Lemma in_evicted now c x : In x (evicted now c) <-> In x (entries c) /\ a_expired now x = true.
Proof.
  unfold evicted, entries. rewrite !in_flat_map. split.
  - intros [kb [H1 H2]]. apply filter_In in H2 as [H2 H3]. split; [exists kb; auto|exact H3].
  - intros [[kb [H1 H2]] H3]. exists kb. split; [exact H1|]. apply filter_In. auto.
Qed.

(* addresses_removed_on_expiry: eviction at time `now` removes exactly the expired records;
   every AddressesRemoved goes to the search for that name (lower case) and carries exactly
   the (address, interface) pairs of the expired records with that spelling; every expired
   record of a name with an open search is reported *)
Theorem evict_all_spec now res c :
  (forall x, In x (entries (fst (evict_all now res c))) <-> In x (entries c) /\ l_expires (a_life x) > now)
  /\ (forall ch e, In (ch, e) (snd (evict_all now res c)) ->
        exists r sp A, find_res (lower sp) res = Some r /\ ch = r_chan r /\ e = ERemoved sp A
          /\ forall a, In a A <-> exists x, In x (entries c) /\ l_expires (a_life x) <= now
                                            /\ a_name x = sp /\ (a_addr x, a_if x) = a)
  /\ (forall x r, In x (entries c) -> l_expires (a_life x) <= now ->
        find_res (lower (a_name x)) res = Some r ->
        exists A, In (r_chan r, ERemoved (a_name x) A) (snd (evict_all now res c)) /\ In (a_addr x, a_if x) A).
Proof.
  unfold evict_all. simpl.
  assert (Hexp : forall x, a_expired now x = true <-> l_expires (a_life x) <= now).
  { intros x. unfold a_expired, life_expired. rewrite pin_is_expired. apply N.leb_le. }
  destruct (group_addrs_spec (evicted now c)) as [G1 [G2 G3]].
  split; [|split].
  - intros x. rewrite entries_evict. split; intros [H1 H2]; split; try exact H1.
    + destruct (a_expired now x) eqn:E; [discriminate|]. apply N.lt_gt. apply N.lt_nge. intros Hle.
      apply Hexp in Hle. congruence.
    + destruct (a_expired now x) eqn:E; [|reflexivity]. apply Hexp in E. lia.
  - intros ch e H. apply in_flat_map in H as [[sp A] [Hin H]]. unfold removed_events in H. simpl in H.
    destruct (find_res (lower sp) res) as [r|] eqn:Er; [|destruct H].
    destruct H as [H|[]]. inversion H; subst. exists r, sp, A. repeat split; try assumption.
    + intros Ha. apply (G2 sp A Hin) in Ha as [x [Hx [Hn Ha]]]. apply in_evicted in Hx as [Hx He].
      exists x. rewrite <- Hexp. auto.
    + intros [x [Hx [He [Hn Ha]]]]. apply (G2 sp A Hin). exists x. split; [|auto].
      apply in_evicted. rewrite Hexp. auto.
  - intros x r Hx He Hr. assert (Hev : In x (evicted now c)) by (apply in_evicted; rewrite Hexp; auto).
    destruct (G3 x Hev) as [A HA]. exists A. split.
    + apply in_flat_map. exists (a_name x, A). split; [exact HA|]. unfold removed_events. simpl. rewrite Hr. left. reflexivity.
    + apply (G2 _ A HA). exists x. auto.
Qed.
