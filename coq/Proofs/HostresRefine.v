(* C17: the model of the code (two tables: hostname_resolvers + retransmissions) refines the
   reference machine of the property text (one table of searches) on every well-formed
   history; so chk_C17 accepts the model's trace.  No axioms. *)
From Coq Require Import List NArith Bool Lia Permutation.
From Mdns Require Import Bytes ParamsHostres HostresBase HostresModel HostresSpec HostresPinned.
Import ListNotations.
Open Scope N_scope.

(* ---------------------------------------------------------------- small facts *)
Lemma beq_sym a b : beq a b = beq b a.
Proof.
  destruct (beq a b) eqn:E.
  - apply beq_eq in E. subst. symmetry. apply beq_refl.
  - destruct (beq b a) eqn:E'; [|reflexivity]. apply beq_eq in E'. subst. rewrite beq_refl in E. discriminate.
Qed.

Lemma filter_map_comm {A B} (f : B -> bool) (g : A -> B) l :
  filter f (map g l) = map g (filter (fun x => f (g x)) l).
Proof. induction l as [|x t IH]; simpl; [reflexivity|]. destruct (f (g x)); simpl; rewrite IH; reflexivity. Qed.

Lemma flat_map_map {A B C} (f : B -> list C) (g : A -> B) l :
  flat_map f (map g l) = flat_map (fun x => f (g x)) l.
Proof. induction l as [|x t IH]; simpl; [reflexivity|]. rewrite IH. reflexivity. Qed.

Lemma filter_flat_map {A B} (f : B -> bool) (g : A -> list B) l :
  filter f (flat_map g l) = flat_map (fun x => filter f (g x)) l.
Proof. induction l as [|x t IH]; simpl; [reflexivity|]. rewrite filter_app, IH. reflexivity. Qed.

Lemma flat_map_flat_map {A B C} (f : B -> list C) (g : A -> list B) l :
  flat_map f (flat_map g l) = flat_map (fun x => flat_map f (g x)) l.
Proof. induction l as [|x t IH]; simpl; [reflexivity|]. rewrite flat_map_app, IH. reflexivity. Qed.

Lemma map_flat_map {A B C} (f : B -> C) (g : A -> list B) l :
  map f (flat_map g l) = flat_map (fun x => map f (g x)) l.
Proof. induction l as [|x t IH]; simpl; [reflexivity|]. rewrite map_app, IH. reflexivity. Qed.

Lemma flat_map_ext_in {A B} (f g : A -> list B) l :
  (forall x, In x l -> f x = g x) -> flat_map f l = flat_map g l.
Proof.
  induction l as [|x t IH]; simpl; intros H; [reflexivity|].
  rewrite (H x (or_introl eq_refl)), IH; [reflexivity|]. intros y Hy. apply H. right. exact Hy.
Qed.

Lemma Permutation_filter' {A} (f : A -> bool) l1 l2 :
  Permutation l1 l2 -> Permutation (filter f l1) (filter f l2).
Proof.
  induction 1; simpl.
  - constructor.
  - destruct (f x); [constructor|]; assumption.
  - destruct (f x), (f y); try apply Permutation_refl. apply perm_swap.
  - eapply Permutation_trans; eassumption.
Qed.

Lemma Permutation_flat_map_split {A B} (f g : A -> list B) l :
  Permutation (flat_map (fun x => f x ++ g x) l) (flat_map f l ++ flat_map g l).
Proof.
  induction l as [|x t IH]; simpl; [constructor|].
  rewrite <- !app_assoc. apply Permutation_app_head.
  eapply Permutation_trans; [apply Permutation_app_head; exact IH|].
  rewrite !app_assoc. apply Permutation_app_tail. apply Permutation_app_comm.
Qed.

Lemma filter_all {A} (f : A -> bool) l : (forall x, In x l -> f x = true) -> filter f l = l.
Proof.
  induction l as [|x t IH]; simpl; intros H; [reflexivity|].
  rewrite (H x (or_introl eq_refl)), IH; [reflexivity|]. intros y Hy. apply H. right. exact Hy.
Qed.

Lemma NoDup_map_filter_app {A B} (f : A -> B) (g : A -> bool) l r :
  NoDup (map f l ++ r) -> NoDup (map f (filter g l) ++ r).
Proof.
  induction l as [|x t IH]; simpl; intros H; [exact H|].
  inversion H as [|? ? Hn Hd]; subst.
  destruct (g x); simpl; [|apply IH; exact Hd].
  constructor; [|apply IH; exact Hd].
  intros Hin. apply Hn. apply in_app_or in Hin as [Hin|Hin]; apply in_or_app; [left|right; exact Hin].
  apply in_map_iff in Hin as [y [Hy Hin]]. apply filter_In in Hin as [Hin _]. apply in_map_iff. eauto.
Qed.

Lemma NoDup_app_l {A} (l r : list A) : NoDup (l ++ r) -> NoDup l.
Proof.
  induction l as [|x t IH]; simpl; intros H; [constructor|].
  inversion H; subst. constructor; [|apply IH; assumption].
  intros Hin. apply H2. apply in_or_app. left. exact Hin.
Qed.

(* at most one element per key: filtering two permuted lists by a key gives the same list *)
Lemma filter_key_perm {A} (l1 l2 : list (N * A)) :
  Permutation l1 l2 -> NoDup (map fst l1) ->
  forall c, filter (fun x => fst x =? c) l1 = filter (fun x => fst x =? c) l2.
Proof.
  induction 1; intros Hnd c; simpl.
  - reflexivity.
  - inversion Hnd; subst. rewrite IHPermutation by assumption. reflexivity.
  - destruct (fst y =? c) eqn:Ey, (fst x =? c) eqn:Ex; try reflexivity.
    apply N.eqb_eq in Ey, Ex. inversion Hnd as [|? ? Hn _]; subst. exfalso. apply Hn. simpl. left. congruence.
  - rewrite IHPermutation1 by assumption. apply IHPermutation2.
    eapply Permutation_NoDup; [apply Permutation_map; eassumption|assumption].
Qed.

(* ---------------------------------------------------------------- the comparison functions *)
Lemma saddr_eqb_refl a : saddr_eqb a a = true.
Proof. unfold saddr_eqb. rewrite beq_refl, N.eqb_refl. reflexivity. Qed.
Lemma saddr_list_eqb_refl l : saddr_list_eqb l l = true.
Proof. induction l; simpl; [reflexivity|]. rewrite saddr_eqb_refl, IHl. reflexivity. Qed.
Lemma ev_eqb_refl e : ev_eqb e e = true.
Proof. destruct e; simpl; rewrite ?beq_refl, ?saddr_list_eqb_refl; reflexivity. Qed.
Lemma evs_eqb_refl l : evs_eqb l l = true.
Proof. induction l; simpl; [reflexivity|]. rewrite ev_eqb_refl, IHl. reflexivity. Qed.

Lemma events_match_chanwise exp obs :
  (forall c, filter (fun x => fst x =? c) exp = filter (fun x => fst x =? c) obs) ->
  events_match exp obs = true.
Proof.
  intros H. unfold events_match. apply forallb_forall. intros c _.
  unfold chan_events. rewrite H. apply evs_eqb_refl.
Qed.

Lemma q_eqb_eq a b : q_eqb a b = true <-> a = b.
Proof.
  revert b; induction a as [|[n t] a IH]; destruct b as [|[m u] b]; simpl; split; intros H;
    try reflexivity; try discriminate.
  - apply andb_true_iff in H as [H H3]. apply andb_true_iff in H as [H1 H2].
    apply beq_eq in H1. apply N.eqb_eq in H2. apply IH in H3. congruence.
  - inversion H; subst. rewrite beq_refl, N.eqb_refl. simpl. apply IH. reflexivity.
Qed.

Lemma remove_q_in q l : In q l -> exists l', remove_q q l = Some l' /\ Permutation l (q :: l').
Proof.
  induction l as [|x t IH]; simpl; intros H; [contradiction|].
  destruct (q_eqb q x) eqn:E.
  - apply q_eqb_eq in E. subst. eexists. split; [reflexivity|apply Permutation_refl].
  - destruct H as [H|H]; [subst; rewrite (proj2 (q_eqb_eq q q) eq_refl) in E; discriminate|].
    destruct (IH H) as [l' [H1 H2]]. rewrite H1. eexists. split; [reflexivity|].
    eapply Permutation_trans; [apply perm_skip; exact H2|]. apply perm_swap.
Qed.

Lemma queries_match_perm exp obs : Permutation exp obs -> queries_match exp obs = true.
Proof.
  revert obs. induction exp as [|q t IH]; intros obs H; simpl.
  - apply Permutation_nil in H. subst. reflexivity.
  - assert (Hin : In q obs) by (eapply Permutation_in; [exact H|left; reflexivity]).
    destruct (remove_q_in q obs Hin) as [l' [H1 H2]]. rewrite H1. apply IH.
    eapply Permutation_cons_inv. eapply Permutation_trans; [exact H|exact H2].
Qed.

(* ---------------------------------------------------------------- the relation *)
Definition armed1 (k : search) : list rerun :=
  match sk_next k with
  | Some (t, d) => [mkRR t (sk_host k) d (sk_chan k)]
  | None => []
  end.
Definition armed (l : list search) : list rerun := flat_map armed1 l.

(* a queued retransmission whose search has ended (deadline): it is due and finds no resolver,
   so it will be dropped without effect in the retransmission phase of the same iteration *)
Definition orph_ok (now : N) (res : list resolver) (rr : rerun) : Prop :=
  hp_rerun_due now (rr_time rr) = true /\ find_res (lower (rr_host rr)) res = None.

(* inside an iteration at time now; between iterations orph = [] *)
Record Rel2 (now : N) (s : st) (p : sst) (orph : list rerun) : Prop := mkRel2 {
  rel2_cache : s_cache s = ss_cache p;
  rel2_res : s_res s = res_view p;
  rel2_retr : Permutation (s_retr s) (armed (ss_searches p) ++ orph);
  rel2_open : s_open s = ss_open p;
  rel2_orph : Forall (orph_ok now (s_res s)) orph }.

Record Rel (s : st) (p : sst) : Prop := mkRel {
  rel_cache : s_cache s = ss_cache p;
  rel_res : s_res s = res_view p;
  rel_retr : Permutation (s_retr s) (armed (ss_searches p));
  rel_open : s_open s = ss_open p }.

(* the next query of a search is before its deadline *)
Definition before_deadline (k : search) : Prop :=
  forall t d dl, sk_next k = Some (t, d) -> sk_deadline k = Some dl -> t < dl.

Definition keys_ok (l : list search) : Prop :=
  NoDup (map sk_key l) /\ Forall (fun k => sk_key k = lower (sk_host k)) l /\ Forall before_deadline l.

(* fut: the channels of the resolve calls still to come *)
Definition Inv (p : sst) (fut : list N) : Prop :=
  keys_ok (ss_searches p) /\ NoDup (map sk_chan (ss_searches p) ++ fut).

Lemma next_after_before now d dl t d' x :
  next_after now d dl = Some (t, d') -> dl = Some x -> t < x.
Proof.
  unfold next_after. intros H ->. rewrite pin_host_rearm in H.
  destruct (now + d * hp_host_delay_unit_ms <? x) eqn:E; [|discriminate].
  inversion H; subst. apply N.ltb_lt. exact E.
Qed.

Lemma find_res_view k l : find_res k (map res_of l) = option_map res_of (find_search k l).
Proof. induction l as [|x t IH]; simpl; [reflexivity|]. destruct (beq k (sk_key x)); [reflexivity|exact IH]. Qed.

Lemma find_search_in l k : NoDup (map sk_key l) -> In k l -> find_search (sk_key k) l = Some k.
Proof.
  induction l as [|x t IH]; simpl; intros Hnd Hin; [contradiction|].
  inversion Hnd; subst. destruct Hin as [Hin|Hin].
  - subst. rewrite beq_refl. reflexivity.
  - destruct (beq (sk_key k) (sk_key x)) eqn:E; [|apply IH; assumption].
    apply beq_eq in E. exfalso. apply H1. rewrite <- E. apply in_map. exact Hin.
Qed.

Lemma find_search_absent a l : ~ In a (map sk_key l) -> find_search a l = None.
Proof.
  induction l as [|x t IH]; simpl; intros H; [reflexivity|].
  destruct (beq a (sk_key x)) eqn:E; [apply beq_eq in E; exfalso; apply H; left; congruence|].
  apply IH. intros Hin. apply H. right. exact Hin.
Qed.

Lemma find_search_filter_none f l k :
  NoDup (map sk_key l) -> In k l -> f k = false -> find_search (sk_key k) (filter f l) = None.
Proof.
  intros Hnd Hin Hf. apply find_search_absent. intros H.
  apply in_map_iff in H as [y [Ey Hy]]. apply filter_In in Hy as [Hy Hfy].
  assert (y = k).
  { clear -Hnd Hin Hy Ey. induction l as [|x t IH]; simpl in *; [contradiction|].
    inversion Hnd; subst. destruct Hin as [->|Hin], Hy as [->|Hy]; auto.
    - exfalso. apply H1. rewrite <- Ey. apply in_map. exact Hy.
    - exfalso. apply H1. rewrite Ey. apply in_map. exact Hin. }
  subst. congruence.
Qed.

Lemma del_res_view k l : del_res k (map res_of l) = map res_of (del_search k l).
Proof. unfold del_res, del_search. rewrite filter_map_comm. reflexivity. Qed.

Lemma set_res_view x l : set_res (res_of x) (map res_of l) = map res_of (set_search x l).
Proof.
  induction l as [|y t IH]; simpl; [reflexivity|].
  destruct (beq (sk_key x) (sk_key y)); simpl; [reflexivity|]. rewrite IH. reflexivity.
Qed.

Lemma find_set_res x l : find_res (r_key x) (set_res x l) = Some x.
Proof.
  induction l as [|y t IH]; simpl.
  - rewrite beq_refl. reflexivity.
  - destruct (beq (r_key x) (r_key y)) eqn:E; simpl.
    + rewrite beq_refl. reflexivity.
    + rewrite E. exact IH.
Qed.

Lemma find_set_res_other a x l : beq a (r_key x) = false -> find_res a (set_res x l) = find_res a l.
Proof.
  intros H. induction l as [|y t IH]; simpl.
  - rewrite H. reflexivity.
  - destruct (beq (r_key x) (r_key y)) eqn:E; simpl.
    + rewrite H. apply beq_eq in E. rewrite <- E, H. reflexivity.
    + destruct (beq a (r_key y)); [reflexivity|exact IH].
Qed.

Lemma find_del_res_none a k l : find_res a l = None -> find_res a (del_res k l) = None.
Proof.
  unfold del_res. induction l as [|y t IH]; simpl; [auto|].
  destruct (beq a (r_key y)) eqn:E; [discriminate|]. intros H.
  destruct (negb (beq k (r_key y))); simpl; [rewrite E|]; apply IH; exact H.
Qed.

Lemma in_keys_set_search a x l :
  In a (map sk_key (set_search x l)) -> a = sk_key x \/ In a (map sk_key l).
Proof.
  induction l as [|y t IH]; simpl.
  - intros [H|[]]. left. congruence.
  - destruct (beq (sk_key x) (sk_key y)); simpl; intros [H|H]; auto.
    destruct (IH H); auto.
Qed.

Lemma in_chans_set_search a x l :
  In a (map sk_chan (set_search x l)) -> a = sk_chan x \/ In a (map sk_chan l).
Proof.
  induction l as [|y t IH]; simpl.
  - intros [H|[]]. left. congruence.
  - destruct (beq (sk_key x) (sk_key y)); simpl; intros [H|H]; auto.
    destruct (IH H); auto.
Qed.

Lemma Forall_set_search (P : search -> Prop) x l : P x -> Forall P l -> Forall P (set_search x l).
Proof.
  intros Hx. induction l as [|y t IH]; simpl; intros H; [repeat constructor; exact Hx|].
  inversion H; subst. destruct (beq (sk_key x) (sk_key y)); constructor; auto.
Qed.

Lemma keys_ok_set_search x l :
  sk_key x = lower (sk_host x) -> before_deadline x -> keys_ok l -> keys_ok (set_search x l).
Proof.
  intros Hx Hbd [Hnd [Hf Hb]]. split; [|split].
  - clear Hf Hb. induction l as [|y t IH]; simpl; [repeat constructor; intros []|].
    inversion Hnd; subst.
    destruct (beq (sk_key x) (sk_key y)) eqn:E; simpl.
    + apply beq_eq in E. rewrite E. constructor; assumption.
    + constructor; [|apply IH; assumption].
      intros Hin. apply in_keys_set_search in Hin as [Hin|Hin]; [|contradiction].
      rewrite Hin, beq_refl in E. discriminate.
  - apply Forall_set_search; assumption.
  - apply Forall_set_search; assumption.
Qed.

Lemma Forall_filter' {A} (P : A -> Prop) g (l : list A) : Forall P l -> Forall P (filter g l).
Proof. rewrite !Forall_forall. intros H x Hx. apply filter_In in Hx as [Hx _]. apply H. exact Hx. Qed.

Lemma keys_ok_filter g l : keys_ok l -> keys_ok (filter g l).
Proof.
  intros [Hnd [Hf Hb]]. split; [|split].
  - rewrite <- (app_nil_r (map sk_key (filter g l))). apply NoDup_map_filter_app. rewrite app_nil_r. exact Hnd.
  - apply Forall_filter'. exact Hf.
  - apply Forall_filter'. exact Hb.
Qed.

Lemma chans_set_search x l fut :
  NoDup (map sk_chan l ++ sk_chan x :: fut) -> NoDup (map sk_chan (set_search x l) ++ fut).
Proof.
  induction l as [|y t IH]; simpl; intros H.
  - exact H.
  - inversion H as [|? ? Hn Hd]; subst.
    destruct (beq (sk_key x) (sk_key y)); simpl.
    + apply NoDup_remove in Hd as [H1 H2]. constructor; assumption.
    + constructor; [|apply IH; exact Hd].
      intros Hin. apply Hn. apply in_app_or in Hin as [Hin|Hin]; apply in_or_app.
      * apply in_chans_set_search in Hin as [Hin|Hin]; [right; left; congruence|left; exact Hin].
      * right. right. exact Hin.
Qed.

(* ---- armed entries under the table operations ---- *)
Lemma armed_filter_key k l :
  Forall (fun x => sk_key x = lower (sk_host x)) l ->
  filter (fun rr => negb (beq (lower (rr_host rr)) k)) (armed l) = armed (del_search k l).
Proof.
  induction l as [|x t IH]; simpl; intros Hf; [reflexivity|].
  inversion Hf; subst. unfold armed in *. simpl. rewrite filter_app, IH by assumption.
  unfold armed1 at 1. rewrite (beq_sym k (sk_key x)).
  destruct (sk_next x) as [[tm d]|] eqn:En; simpl.
  - rewrite <- H1. destruct (beq (sk_key x) k); simpl; [reflexivity|]. unfold armed1. rewrite En. reflexivity.
  - destruct (beq (sk_key x) k); simpl; [reflexivity|]. unfold armed1. rewrite En. reflexivity.
Qed.

Lemma del_search_absent k l : ~ In k (map sk_key l) -> del_search k l = l.
Proof.
  intros H. unfold del_search. apply filter_all. intros x Hx.
  destruct (beq k (sk_key x)) eqn:E; [|reflexivity].
  apply beq_eq in E. exfalso. apply H. rewrite E. apply in_map. exact Hx.
Qed.

Lemma armed_set_search x l :
  NoDup (map sk_key l) ->
  Permutation (armed (set_search x l)) (armed (del_search (sk_key x) l) ++ armed1 x).
Proof.
  induction l as [|y t IH]; simpl; intros Hnd.
  - unfold armed. simpl. rewrite app_nil_r. apply Permutation_refl.
  - inversion Hnd; subst. destruct (beq (sk_key x) (sk_key y)) eqn:E; simpl.
    + apply beq_eq in E. rewrite del_search_absent by (rewrite E; assumption).
      unfold armed. simpl. apply Permutation_app_comm.
    + unfold armed in *. simpl. rewrite <- app_assoc. apply Permutation_app_head. apply IH. assumption.
Qed.

Lemma armed_in rr l :
  In rr (armed l) -> exists k t d, In k l /\ sk_next k = Some (t, d) /\ rr = mkRR t (sk_host k) d (sk_chan k).
Proof.
  unfold armed. intros H. apply in_flat_map in H as [k [Hk H]].
  unfold armed1 in H. destruct (sk_next k) as [[t d]|] eqn:E; [|contradiction].
  destruct H as [H|[]]. exists k, t, d. auto.
Qed.

Lemma armed_chans_in rr l : In rr (armed l) -> exists k, In k l /\ rr_chan rr = sk_chan k /\ rr_host rr = sk_host k.
Proof.
  intros H. apply armed_in in H as [k [t [d [Hk [_ ->]]]]]. exists k. simpl. auto.
Qed.

Lemma armed_partition f l :
  Permutation (armed l) (armed (filter (fun k => negb (f k)) l) ++ armed (filter f l)).
Proof.
  unfold armed. induction l as [|x t IH]; simpl; [constructor|].
  destruct (f x); simpl.
  - eapply Permutation_trans; [apply Permutation_app_head; exact IH|]. apply Permutation_app_swap_app.
  - rewrite <- app_assoc. apply Permutation_app_head. exact IH.
Qed.

(* ---------------------------------------------------------------- phase 2: deadlines *)
Lemma timeouts_rel now s p fut :
  Rel s p -> Inv p fut ->
  exists s' p' e, do_timeouts now s = (s', e) /\ sp_timeouts now p = (p', e)
                  /\ Rel2 now s' p' (armed (filter (sk_timed_out now) (ss_searches p))) /\ Inv p' fut.
Proof.
  intros [R1 R2 R3 R4] [Hk Hc].
  unfold do_timeouts, sp_timeouts. do 3 eexists. split; [reflexivity|]. split.
  - f_equal. rewrite R2. unfold res_view. rewrite filter_map_comm, flat_map_map. reflexivity.
  - split.
    + constructor; simpl; try assumption.
      * rewrite R2. unfold res_view. rewrite filter_map_comm. reflexivity.
      * eapply Permutation_trans; [exact R3|]. apply armed_partition.
      * apply Forall_forall. intros rr Hin.
        apply armed_in in Hin as [k [t [d [Hk0 [Hn ->]]]]]. apply filter_In in Hk0 as [Hk0 Hto].
        destruct Hk as [Hnd [Hf Hb]]. rewrite Forall_forall in Hf, Hb.
        unfold orph_ok. simpl. split.
        -- unfold sk_timed_out in Hto. destruct (sk_deadline k) as [dl|] eqn:Ed; [|discriminate].
           rewrite pin_deadline_reached in Hto. apply N.leb_le in Hto.
           pose proof (Hb k Hk0 t d dl Hn Ed). rewrite pin_rerun_due. apply N.leb_le. lia.
        -- rewrite R2. unfold res_view. rewrite filter_map_comm, find_res_view, <- (Hf k Hk0).
           rewrite (find_search_filter_none (fun k0 => negb (timed_out now (res_of k0))) _ k Hnd Hk0); [reflexivity|].
           change (timed_out now (res_of k)) with (sk_timed_out now k). rewrite Hto. reflexivity.
    + split; [apply keys_ok_filter; exact Hk|]. simpl. apply NoDup_map_filter_app. exact Hc.
Qed.

(* ---------------------------------------------------------------- phase 3: calls *)
Lemma rearm_ok_set res k host chan dl t :
  k = lower host ->
  rearm_ok (set_res (mkRes k chan dl) res) host t
  = match dl with Some d => hp_host_rearm t d | None => true end.
Proof.
  intros ->. unfold rearm_ok.
  change (lower host) with (r_key (mkRes (lower host) chan dl)) at 1.
  rewrite find_set_res. reflexivity.
Qed.

Lemma orph_filter now res res' k orph :
  Forall (orph_ok now res) orph ->
  (forall rr, In rr orph -> negb (beq (lower (rr_host rr)) k) = true ->
              find_res (lower (rr_host rr)) res' = None) ->
  Forall (orph_ok now res') (filter (fun rr => negb (beq (lower (rr_host rr)) k)) orph).
Proof.
  intros H Hres. rewrite Forall_forall in *. intros rr Hin. apply filter_In in Hin as [Hin Hp].
  destruct (H rr Hin) as [Hd _]. split; [exact Hd|apply Hres; assumption].
Qed.

Lemma call_rel now s p c fut orph :
  Rel2 now s p orph -> Inv p (chans_of_calls [c] ++ fut) ->
  exists s' p' e q orph',
    exec_call now s c = (s', e, q) /\ sp_call now p c = (p', e, q) /\ Rel2 now s' p' orph' /\ Inv p' fut.
Proof.
  intros [R1 R2 R3 R4 R5] [[Hnd [Hf Hb]] Hc]. destruct c as [host timeout chan|host]; simpl in *.
  - (* resolve *)
    set (k := lower host). set (dl := option_map (sat_add now) timeout).
    unfold send_and_rearm. simpl.
    rewrite (rearm_ok_set (s_res s) k host chan dl _ eq_refl).
    set (x := mkSearch k host chan dl (next_after now hp_host_first_delay dl) now timeout 1 now).
    set (P := fun rr => negb (beq (lower (rr_host rr)) k)).
    do 4 eexists. exists (filter P orph). split; [reflexivity|]. split.
    + rewrite R1. reflexivity.
    + split.
      * constructor; simpl.
        -- exact R1.
        -- rewrite R2. unfold res_view. change (mkRes k chan dl) with (res_of x). apply set_res_view.
        -- assert (E : Permutation (filter P (s_retr s)) (armed (del_search k (ss_searches p)) ++ filter P orph)).
           { rewrite <- (armed_filter_key k _ Hf). rewrite <- filter_app. apply Permutation_filter'. exact R3. }
           assert (E2 : Permutation (armed (set_search x (ss_searches p)) ++ filter P orph)
                                    ((armed (del_search k (ss_searches p)) ++ filter P orph) ++ armed1 x)).
           { eapply Permutation_trans; [apply Permutation_app_tail; apply (armed_set_search x); exact Hnd|].
             simpl. rewrite <- !app_assoc. apply Permutation_app_head. apply Permutation_app_comm. }
           eapply Permutation_trans; [|apply Permutation_sym; exact E2].
           unfold armed1, x. simpl. unfold next_after.
           destruct dl as [d|]; [destruct (hp_host_rearm _ d)|]; simpl;
             rewrite ?app_nil_r; try exact E; apply Permutation_app_tail; exact E.
        -- rewrite R4. reflexivity.
        -- apply (orph_filter now (s_res s)); [exact R5|].
           intros rr Hin Hp. rewrite find_set_res_other by (simpl; apply negb_true_iff; exact Hp).
           rewrite Forall_forall in R5. apply (R5 rr Hin).
      * split.
        -- apply keys_ok_set_search; [reflexivity| |split; [|split]; assumption].
           intros t d dl0 Hn Hd. simpl in Hn, Hd. eapply next_after_before; eassumption.
        -- simpl. apply (chans_set_search x). exact Hc.
  - (* stop *)
    rewrite R2. unfold res_view. rewrite find_res_view.
    destruct (find_search (lower host) (ss_searches p)) as [x|] eqn:Ef; simpl.
    + do 4 eexists. exists (filter (fun rr => negb (beq (lower (rr_host rr)) (lower host))) orph).
      split; [reflexivity|]. split; [reflexivity|]. split.
      * constructor; simpl; try assumption.
        -- unfold res_view. apply del_res_view.
        -- rewrite <- (armed_filter_key _ _ Hf). rewrite <- filter_app. apply Permutation_filter'. exact R3.
        -- apply (orph_filter now (s_res s)); [exact R5|].
           intros rr Hin _. apply find_del_res_none.
           pose proof R2 as R2'. unfold res_view in R2'. rewrite <- R2'. rewrite Forall_forall in R5. apply (R5 rr Hin).
      * split; [apply keys_ok_filter; split; [|split]; assumption|]. simpl. apply NoDup_map_filter_app. exact Hc.
    + do 4 eexists. exists orph. split; [reflexivity|]. split; [reflexivity|]. split.
      * constructor; try assumption.
      * split; [split; [|split]|]; assumption.
Qed.

Lemma calls_rel now cs : forall s p fut e0 q0 orph,
  Rel2 now s p orph -> Inv p (chans_of_calls cs ++ fut) ->
  exists s' p' e q orph',
    fold_left (fun acc c => let '(s0, e0, q0) := acc in
                            let '(s', e, q) := exec_call now s0 c in (s', e0 ++ e, q0 ++ q)) cs (s, e0, q0) = (s', e, q)
    /\ fold_left (fun acc c => let '(s0, e0, q0) := acc in
                               let '(s', e, q) := sp_call now s0 c in (s', e0 ++ e, q0 ++ q)) cs (p, e0, q0) = (p', e, q)
    /\ Rel2 now s' p' orph' /\ Inv p' fut.
Proof.
  induction cs as [|c t IH]; intros s p fut e0 q0 orph HR HI; simpl.
  - do 4 eexists. exists orph. repeat split; try reflexivity; try apply HR; apply HI.
  - assert (HI' : Inv p (chans_of_calls [c] ++ (chans_of_calls t ++ fut))).
    { unfold chans_of_calls in *. simpl in *. rewrite app_nil_r. rewrite <- app_assoc in HI. exact HI. }
    destruct (call_rel now s p c _ orph HR HI') as [s1 [p1 [e1 [q1 [orph1 [H1 [H2 [HR1 HI1]]]]]]]].
    rewrite H1, H2. apply (IH s1 p1 fut _ _ orph1); assumption.
Qed.

(* ---------------------------------------------------------------- phase 4: scheduled queries *)
Definition rr_live (res : list resolver) (rr : rerun) : bool :=
  match find_res (lower (rr_host rr)) res with Some _ => true | None => false end.
Definition rr_entry (now : N) (res : list resolver) (rr : rerun) : list rerun :=
  let t := now + rr_delay rr * hp_host_delay_unit_ms in
  if rearm_ok res (rr_host rr) t
  then [mkRR t (rr_host rr) (N.min (hp_host_next_delay (rr_delay rr) hp_host_max_delay) hp_host_max_delay) (rr_chan rr)]
  else [].
Definition rr_ev (rr : rerun) : N * ev := (rr_chan rr, EStarted (rr_host rr)).
Definition rr_q (rr : rerun) : query := host_query (rr_host rr).
Definition when_live {A} (res : list resolver) (f : rerun -> list A) (rr : rerun) : list A :=
  if rr_live res rr then f rr else [].

Lemma exec_rerun_eq now s0 evs qs rr :
  exec_rerun now (s0, evs, qs) rr
  = (mkSt (s_cache s0) (s_res s0) (s_retr s0 ++ when_live (s_res s0) (rr_entry now (s_res s0)) rr) (s_open s0),
     evs ++ when_live (s_res s0) (fun r => [rr_ev r]) rr, qs ++ when_live (s_res s0) (fun r => [rr_q r]) rr).
Proof.
  unfold exec_rerun, when_live, rr_live.
  destruct (find_res (lower (rr_host rr)) (s_res s0)).
  - unfold send_and_rearm, rr_entry, rr_ev, rr_q. simpl.
    destruct (rearm_ok (s_res s0) (rr_host rr) (now + rr_delay rr * hp_host_delay_unit_ms)); simpl;
      rewrite ?app_nil_r; destruct s0; reflexivity.
  - rewrite !app_nil_r. destruct s0; reflexivity.
Qed.

Lemma reruns_fold now res : forall due s0 evs qs,
  s_res s0 = res ->
  fold_left (exec_rerun now) due (s0, evs, qs)
  = (mkSt (s_cache s0) res (s_retr s0 ++ flat_map (when_live res (rr_entry now res)) due) (s_open s0),
     evs ++ flat_map (when_live res (fun r => [rr_ev r])) due, qs ++ flat_map (when_live res (fun r => [rr_q r])) due).
Proof.
  induction due as [|rr t IH]; intros s0 evs qs Hres.
  - simpl. rewrite !app_nil_r. destruct s0; simpl in *; subst; reflexivity.
  - cbn [fold_left]. rewrite exec_rerun_eq. rewrite IH by (simpl; exact Hres). simpl. rewrite Hres.
    rewrite <- !app_assoc. reflexivity.
Qed.

Lemma do_reruns_closed now s :
  do_reruns now s
  = (mkSt (s_cache s) (s_res s)
          (filter (fun rr => negb (rr_due now rr)) (s_retr s)
           ++ flat_map (when_live (s_res s) (rr_entry now (s_res s))) (filter (rr_due now) (s_retr s))) (s_open s),
     flat_map (when_live (s_res s) (fun r => [rr_ev r])) (filter (rr_due now) (s_retr s)),
     flat_map (when_live (s_res s) (fun r => [rr_q r])) (filter (rr_due now) (s_retr s))).
Proof. unfold do_reruns. rewrite (reruns_fold now (s_res s)) by reflexivity. reflexivity. Qed.

Lemma armed_live l rr : keys_ok l -> In rr (armed l) -> rr_live (map res_of l) rr = true.
Proof.
  intros [Hnd [Hf _]] Hin. apply armed_in in Hin as [k [t [d [Hk [_ ->]]]]].
  unfold rr_live. simpl. rewrite Forall_forall in Hf. rewrite <- (Hf k Hk), find_res_view, (find_search_in l k Hnd Hk).
  reflexivity.
Qed.

Lemma when_live_armed {A} l (f : rerun -> list A) rs :
  keys_ok l -> (forall rr, In rr rs -> In rr (armed l)) ->
  flat_map (when_live (map res_of l) f) rs = flat_map f rs.
Proof.
  intros Hk H. apply flat_map_ext_in. intros rr Hin. unfold when_live. rewrite (armed_live l rr Hk (H rr Hin)). reflexivity.
Qed.

Lemma when_live_orph {A} now res (f : rerun -> list A) orph :
  Forall (orph_ok now res) orph -> flat_map (when_live res f) orph = [].
Proof.
  induction 1 as [|rr t [_ Hn] _ IH]; simpl; [reflexivity|]. unfold when_live at 1, rr_live. rewrite Hn. exact IH.
Qed.

Lemma fire_armed now l k :
  keys_ok l -> In k l ->
  filter (fun rr => negb (rr_due now rr)) (armed1 k)
  ++ flat_map (rr_entry now (map res_of l)) (filter (rr_due now) (armed1 k))
  = armed1 (sk_fire now k).
Proof.
  intros [Hnd [Hf _]] Hin. unfold armed1 at 1 2, sk_fire.
  destruct (sk_next k) as [[t d]|] eqn:En; simpl; [|unfold armed1; rewrite En; reflexivity].
  unfold rr_due. simpl. destruct (hp_rerun_due now t); simpl.
  - rewrite app_nil_r. unfold rr_entry, rearm_ok. simpl.
    rewrite Forall_forall in Hf. rewrite <- (Hf k Hin). rewrite find_res_view, (find_search_in l k Hnd Hin). simpl.
    unfold armed1, next_after. simpl.
    destruct (sk_deadline k) as [dl|]; [destruct (hp_host_rearm _ dl)|]; reflexivity.
  - unfold armed1. rewrite En. reflexivity.
Qed.

Lemma sends_events now l :
  map rr_ev (filter (rr_due now) (armed l))
  = map (fun k => (sk_chan k, EStarted (sk_host k))) (filter (sk_due now) l).
Proof.
  induction l as [|k t IH]; simpl; [reflexivity|]. unfold armed in *. simpl.
  rewrite filter_app, map_app, IH. unfold armed1, sk_due, rr_due.
  destruct (sk_next k) as [[tm d]|]; simpl; [|reflexivity].
  destruct (hp_rerun_due now tm); reflexivity.
Qed.

Lemma sends_queries now l :
  map rr_q (filter (rr_due now) (armed l))
  = map (fun k => host_query (sk_host k)) (filter (sk_due now) l).
Proof.
  induction l as [|k t IH]; simpl; [reflexivity|]. unfold armed in *. simpl.
  rewrite filter_app, map_app, IH. unfold armed1, sk_due, rr_due.
  destruct (sk_next k) as [[tm d]|]; simpl; [|reflexivity].
  destruct (hp_rerun_due now tm); reflexivity.
Qed.

Lemma armed_chans_nodup l : NoDup (map sk_chan l) -> NoDup (map rr_chan (armed l)).
Proof.
  induction l as [|k t IH]; simpl; intros H; [constructor|].
  inversion H; subst. unfold armed in *. simpl. rewrite map_app.
  unfold armed1 at 1. destruct (sk_next k) as [[tm d]|]; simpl; [|apply IH; assumption].
  constructor; [|apply IH; assumption].
  intros Hin. apply in_map_iff in Hin as [rr [E Hin]]. apply armed_chans_in in Hin as [k' [Hk' [Hc _]]].
  apply H2. rewrite <- E, Hc. apply in_map. exact Hk'.
Qed.

Lemma flat_map_singleton {A B} (f : A -> B) l : flat_map (fun x => [f x]) l = map f l.
Proof. induction l; simpl; [reflexivity|]. rewrite IHl. reflexivity. Qed.

Lemma filter_none {A} (f : A -> bool) l : (forall x, In x l -> f x = false) -> filter f l = [].
Proof.
  induction l as [|x t IH]; simpl; intros H; [reflexivity|].
  rewrite (H x (or_introl eq_refl)). apply IH. intros y Hy. apply H. right. exact Hy.
Qed.

Lemma sk_fire_keys_ok now l : keys_ok l -> keys_ok (map (sk_fire now) l).
Proof.
  intros [Hnd [Hf Hb]]. split; [|split].
  - rewrite map_map.
    replace (map (fun x => sk_key (sk_fire now x)) l) with (map sk_key l); [exact Hnd|].
    apply map_ext. intros k. unfold sk_fire. destruct (sk_next k) as [[t d]|]; [destruct (hp_rerun_due now t)|]; reflexivity.
  - apply Forall_forall. intros k Hin. apply in_map_iff in Hin as [k0 [E Hin]]. subst.
    rewrite Forall_forall in Hf. specialize (Hf k0 Hin).
    unfold sk_fire. destruct (sk_next k0) as [[t d]|]; [destruct (hp_rerun_due now t)|]; simpl; exact Hf.
  - apply Forall_forall. intros k Hin. apply in_map_iff in Hin as [k0 [E Hin]]. subst.
    rewrite Forall_forall in Hb. specialize (Hb k0 Hin).
    unfold sk_fire. destruct (sk_next k0) as [[t d]|] eqn:En; [destruct (hp_rerun_due now t)|]; try exact Hb.
    intros t' d' dl Hn Hd. simpl in Hn, Hd. eapply next_after_before; eassumption.
Qed.

Lemma sends_rel now s p fut orph :
  Rel2 now s p orph -> Inv p fut ->
  exists s' p' em es qm qs,
    do_reruns now s = (s', em, qm) /\ sp_sends now p = (p', es, qs) /\ Rel s' p' /\ Inv p' fut
    /\ (forall c, filter (fun x => fst x =? c) em = filter (fun x => fst x =? c) es)
    /\ Permutation qs qm.
Proof.
  intros [R1 R2 R3 R4 R5] [Hk Hc].
  rewrite do_reruns_closed. unfold sp_sends. do 6 eexists.
  split; [reflexivity|]. split; [reflexivity|].
  set (l := ss_searches p) in *.
  assert (Horph_due : forall rr, In rr orph -> rr_due now rr = true).
  { intros rr Hin. rewrite Forall_forall in R5. apply (R5 rr Hin). }
  assert (Hdue : Permutation (filter (rr_due now) (s_retr s)) (filter (rr_due now) (armed l) ++ orph)).
  { eapply Permutation_trans; [apply Permutation_filter'; exact R3|]. rewrite filter_app.
    rewrite (filter_all (rr_due now) orph Horph_due). apply Permutation_refl. }
  assert (Hkeep : Permutation (filter (fun rr => negb (rr_due now rr)) (s_retr s))
                              (filter (fun rr => negb (rr_due now rr)) (armed l))).
  { eapply Permutation_trans; [apply Permutation_filter'; exact R3|]. rewrite filter_app.
    rewrite (filter_none (fun rr => negb (rr_due now rr)) orph), app_nil_r; [apply Permutation_refl|].
    intros rr Hin. rewrite (Horph_due rr Hin). reflexivity. }
  assert (Hres : s_res s = map res_of l) by exact R2.
  (* what the live-filtered maps give on the due list *)
  assert (Hfm : forall (A : Type) (f : rerun -> list A),
            Permutation (flat_map (when_live (s_res s) f) (filter (rr_due now) (s_retr s)))
                        (flat_map f (filter (rr_due now) (armed l)))).
  { intros A f. eapply Permutation_trans; [apply Permutation_flat_map; exact Hdue|].
    rewrite flat_map_app, (when_live_orph now (s_res s) f orph R5), app_nil_r, Hres.
    rewrite (when_live_armed l f); [apply Permutation_refl|exact Hk|].
    intros rr Hin. apply filter_In in Hin as [Hin _]. exact Hin. }
  split; [|split; [|split]].
  - constructor; simpl; [exact R1| | |exact R4].
    { rewrite R2. unfold res_view. simpl. rewrite map_map. apply map_ext. intros k.
      unfold sk_fire, res_of. destruct (sk_next k) as [[t d]|]; [destruct (hp_rerun_due now t)|]; reflexivity. }
    eapply Permutation_trans; [apply Permutation_app; [exact Hkeep|apply Hfm]|].
    unfold armed. rewrite !filter_flat_map, flat_map_flat_map, flat_map_map.
    eapply Permutation_trans; [apply Permutation_sym; apply Permutation_flat_map_split|].
    rewrite Hres. erewrite flat_map_ext_in; [apply Permutation_refl|].
    intros k Hin. apply fire_armed; assumption.
  - split; [apply sk_fire_keys_ok; exact Hk|]. simpl. rewrite map_map.
    replace (map (fun x => sk_chan (sk_fire now x)) l) with (map sk_chan l); [exact Hc|].
    apply map_ext. intros k. unfold sk_fire. destruct (sk_next k) as [[t d]|]; [destruct (hp_rerun_due now t)|]; reflexivity.
  - intros c. rewrite <- sends_events.
    pose proof (Hfm _ (fun r => [rr_ev r])) as He. rewrite flat_map_singleton in He.
    assert (Hn : NoDup (map fst (map rr_ev (filter (rr_due now) (armed l))))).
    { rewrite map_map. simpl.
      assert (Hn : NoDup (map rr_chan (armed l))) by (apply armed_chans_nodup; eapply NoDup_app_l; exact Hc).
      clear -Hn. induction (armed l) as [|x t IH]; simpl; [constructor|].
      inversion Hn; subst. destruct (rr_due now x); simpl; [|apply IH; assumption].
      constructor; [|apply IH; assumption].
      intros Hin. apply H1. apply in_map_iff in Hin as [y [E Hy]]. apply filter_In in Hy as [Hy _].
      rewrite <- E. apply in_map. exact Hy. }
    apply filter_key_perm; [exact He|].
    eapply Permutation_NoDup; [apply Permutation_sym; apply Permutation_map; exact He|exact Hn].
  - rewrite <- sends_queries.
    pose proof (Hfm _ (fun r => [rr_q r])) as Hq. rewrite flat_map_singleton in Hq.
    apply Permutation_sym. exact Hq.
Qed.

(* ---------------------------------------------------------------- phase 7: closed channels *)
Lemma held_same s p : Rel s p -> forall c, chan_held s c = sk_holds p c.
Proof.
  intros [R1 R2 R3 R4] c. unfold chan_held, sk_holds. rewrite R2. unfold res_view.
  assert (E : existsb (fun r => r_chan r =? c) (map res_of (ss_searches p)) = existsb (fun k => sk_chan k =? c) (ss_searches p)).
  { clear. induction (ss_searches p) as [|k t IH]; simpl; [reflexivity|]. rewrite IH. reflexivity. }
  rewrite E. destruct (existsb (fun k => sk_chan k =? c) (ss_searches p)) eqn:E1; [reflexivity|]. simpl.
  destruct (existsb (fun rr => rr_chan rr =? c) (s_retr s)) eqn:E2; [|reflexivity].
  apply existsb_exists in E2 as [rr [Hin Hc]].
  eapply Permutation_in in Hin; [|exact R3]. apply armed_chans_in in Hin as [k [Hk [Hch _]]].
  assert (existsb (fun k => sk_chan k =? c) (ss_searches p) = true).
  { apply existsb_exists. exists k. split; [exact Hk|]. rewrite <- Hch. exact Hc. }
  congruence.
Qed.

(* ---------------------------------------------------------------- one iteration *)
Lemma step_rel s p i fut :
  Rel s p -> Inv p (chans_of_calls (it_calls i) ++ fut) ->
  Rel (fst (step s i)) (fst (sp_step p i)) /\ Inv (fst (sp_step p i)) fut
  /\ out_match (snd (sp_step p i)) (snd (step s i)) = true.
Proof.
  intros HR HI. unfold step, sp_step.
  (* 1 responses *)
  unfold fold_msgs, sp_responses.
  destruct HR as [R1 R2 R3 R4]. rewrite R1, R2.
  destruct (respond_all (it_now i) (res_view p) (ss_cache p) (it_msgs i)) as [c1 e1] eqn:E1.
  set (s1 := mkSt c1 (res_view p) (s_retr s) (s_open s)).
  set (p1 := mkSst c1 (ss_searches p) (ss_open p)).
  assert (HR1 : Rel s1 p1) by (constructor; simpl; try reflexivity; assumption).
  assert (HI1 : Inv p1 (chans_of_calls (it_calls i) ++ fut)) by exact HI.
  (* 2 deadlines *)
  destruct (timeouts_rel (it_now i) s1 p1 _ HR1 HI1) as [s2 [p2 [e2 [H2a [H2b [HR2 HI2]]]]]].
  rewrite H2a, H2b.
  (* 3 calls *)
  unfold fold_calls, sp_calls.
  destruct (calls_rel (it_now i) (it_calls i) s2 p2 fut [] [] _ HR2 HI2) as [s3 [p3 [e3 [q3 [orph3 [H3a [H3b [HR3 HI3]]]]]]]].
  rewrite H3a, H3b.
  (* 4 sends *)
  destruct (sends_rel (it_now i) s3 p3 fut orph3 HR3 HI3) as [s4 [p4 [e4m [e4s [q4m [q4s [H4a [H4b [HR4 [HI4 [He4 Hq4]]]]]]]]]]].
  rewrite H4a, H4b.
  (* 5 refresh, 6 evict *)
  unfold do_refresh, sp_refresh. destruct HR4 as [R41 R42 R43 R44]. rewrite R41, R42.
  destruct (refresh_all (it_now i) (res_view p4) (ss_cache p4)) as [c5 q5] eqn:E5.
  unfold do_evict, sp_evict, evict_all, do_closed, sp_closed. simpl.
  set (c6 := evict_cache (it_now i) c5).
  set (s6 := mkSt c6 (res_view p4) (s_retr s4) (s_open s4)).
  set (p6 := mkSst c6 (ss_searches p4) (ss_open p4)).
  assert (HR6 : Rel s6 p6) by (constructor; simpl; try reflexivity; assumption).
  assert (Hheld : forall c, chan_held s6 c = sk_holds p6 c) by (apply held_same; exact HR6).
  rewrite R44.
  rewrite (filter_ext _ _ Hheld).
  rewrite (filter_ext (fun c => negb (chan_held s6 c)) (fun c => negb (sk_holds p6 c)))
    by (intros c; rewrite Hheld; reflexivity).
  split; [|split].
  - constructor; simpl; try reflexivity; try assumption.
  - exact HI4.
  - unfold out_match. simpl. rewrite N.eqb_refl. simpl. apply andb_true_iff. split.
    + apply events_match_chanwise. intros c.
      rewrite !filter_app. rewrite (He4 c). reflexivity.
    + apply queries_match_perm. apply Permutation_app_head. apply Permutation_app_tail. exact Hq4.
Qed.

(* ---------------------------------------------------------------- histories *)
Lemma run_rel h : forall s p,
  Rel s p -> Inv p (flat_map (fun i => chans_of_calls (it_calls i)) h) ->
  outs_match (sp_run_from p h) (run_from s h) = true.
Proof.
  induction h as [|i t IH]; intros s p HR HI; simpl; [reflexivity|].
  simpl in HI.
  destruct (step_rel s p i _ HR HI) as [HR' [HI' Ho]].
  destruct (step s i) as [s' o] eqn:Es. destruct (sp_step p i) as [p' o'] eqn:Ep. simpl in *.
  rewrite Ho. simpl. apply IH; assumption.
Qed.

Lemma nodupb_NoDup l : nodupb l = true -> NoDup l.
Proof.
  induction l as [|x t IH]; simpl; intros H; [constructor|].
  apply andb_true_iff in H as [H1 H2]. constructor; [|apply IH; exact H2].
  intros Hin. apply negb_true_iff in H1.
  assert (existsb (N.eqb x) t = true) by (apply existsb_exists; exists x; split; [exact Hin|apply N.eqb_refl]).
  congruence.
Qed.

(* the model of the code satisfies the property's checker on every well-formed history *)
Theorem model_refines_spec : forall h, wf_hist h = true -> chk_C17 h (run h) = true.
Proof.
  intros h Hwf. unfold chk_C17, sp_run, run. apply run_rel.
  - constructor; simpl; try reflexivity; constructor.
  - split; [split; [|split]; constructor|]. simpl.
    unfold wf_hist in Hwf. apply andb_true_iff in Hwf as [_ Hwf]. apply nodupb_NoDup. exact Hwf.
Qed.

(* ---------------------------------------------------------------- the late wake-up *)
(* resolve_hostname("a.local.", timeout 1001 ms) at t; the daemon next runs at t + 1001, one
   millisecond after the retransmission became due and exactly at the deadline *)
Definition name_a_local : name := [97; 46; 108; 111; 99; 97; 108; 46].
Definition late_witness : list iter :=
  [ mkIter 1000000 [CResolve name_a_local (Some 1001) 1] [];
    mkIter 1001001 [] [] ].

(* since the repair (a retransmission whose search has ended does not run) the trace is what
   the property prescribes: SearchTimeout, SearchStopped, the channel closes, nothing else *)
Lemma late_now_ok :
  wf_hist late_witness = true /\ late late_witness = true /\ chk_C17 late_witness (run late_witness) = true.
Proof. vm_compute. auto. Qed.

Lemma late_behaviour :
  map (fun o => (o_events o, o_queries o)) (run late_witness)
  = [ ([(1, EStarted name_a_local)], [host_query name_a_local]);
      ([(1, ETimeout name_a_local); (1, EStopped name_a_local); (1, EClosed)], []) ]
  /\ s_res (state_after st0 late_witness) = []
  /\ s_retr (state_after st0 late_witness) = [].
Proof. vm_compute. auto. Qed.

(* ---------------------------------------------------------------- a non-trivial history *)
(* resolve "A.local." (timeout 20 s); an A record for "a.LOCAL." (TTL 10) arrives on interface 2;
   the daemon runs at every time it asked for.  The history is well formed and never late; the
   trace shows AddressesFound, the refresh question at 80 %, AddressesRemoved at expiry,
   SearchTimeout / SearchStopped at the deadline. *)
Definition ex_host : name := [65; 46; 108; 111; 99; 97; 108; 46].          (* A.local. *)
Definition ex_owner : name := [97; 46; 76; 79; 67; 65; 76; 46].            (* a.LOCAL. *)
Definition ex_rec : inrec := mkIn true 1 ex_owner 1 true 10 [192; 168; 1; 20].
Definition ex_hist : list iter :=
  [ mkIter 1000000 [CResolve ex_host (Some 20000) 1] [];
    mkIter 1000100 [] [mkMsg 2 [ex_rec]];
    mkIter 1001000 [] []; mkIter 1003000 [] []; mkIter 1007000 [] [];
    mkIter 1008100 [] []; mkIter 1010100 [] []; mkIter 1015000 [] []; mkIter 1020000 [] [] ].

Lemma ex_hist_ok :
  wf_hist ex_hist = true /\ late ex_hist = false /\ chk_C17 ex_hist (run ex_hist) = true
  /\ map (fun o => (o_now o, o_events o, o_queries o)) (run ex_hist)
     = [ (1000000, [(1, EStarted ex_host)], [host_query ex_host]);
         (1000100, [(1, EFound ex_owner [([192; 168; 1; 20], 2)])], []);
         (1001000, [(1, EStarted ex_host)], [host_query ex_host]);
         (1003000, [(1, EStarted ex_host)], [host_query ex_host]);
         (1007000, [(1, EStarted ex_host)], [host_query ex_host]);
         (1008100, [], [[(name_a_local, 1)]]);
         (1010100, [(1, ERemoved ex_owner [([192; 168; 1; 20], 2)])], []);
         (1015000, [(1, EStarted ex_host)], [host_query ex_host]);
         (1020000, [(1, ETimeout name_a_local); (1, EStopped name_a_local); (1, EClosed)], []) ].
Proof. vm_compute. auto. Qed.
