(* C13 for the cache layer: what stop_browse (DnsCache::remove_service_type) removes and leaves,
   that nothing comes back from nowhere, and that without a browse no service query is sent.
   Model: Model/LifeTimers.v (t_iter with ts_stop). *)
From Coq Require Import List NArith Bool Lia.
From Mdns Require Import Res Bytes Rec ParamsLife Life LifeSpec LifeCache LifeCacheSpec LifeTimers
  LifeProofs LifeCacheProofs LifeSimProofs LifeSimInst LifeMapProofs LifeKaHistProofs LifeTimerProofs.
Import ListNotations.
Open Scope N_scope.

Notation getl := (get_bucket lrec).
Notation setl := (set_bucket lrec).

(* ------------------------------------------------------------------ remove_service_type *)

Lemma fold_srvtxt_look : forall insts (c : lcache) k,
  wf lrec c ->
  wf lrec (fold_left (fun c i => setl (setl c (1, i) []) (2, i) []) insts c) /\
  getl (fold_left (fun c i => setl (setl c (1, i) []) (2, i) []) insts c) k =
  if existsb (fun i => key_eqb k (1, i) || key_eqb k (2, i)) insts then [] else getl c k.
Proof.
  induction insts as [|i insts IH]; intros c k Hw; simpl; [auto|].
  assert (W1 : wf lrec (setl (setl c (1, i) []) (2, i) [])) by auto using set_wf.
  destruct (IH _ k W1) as [W' G']. split; [exact W'|]. rewrite G'.
  rewrite get_set by auto using set_wf. rewrite get_set by assumption.
  destruct (key_eqb k (1, i)), (key_eqb k (2, i)); simpl; destruct (existsb _ insts); reflexivity.
Qed.

Lemma stop_core_look ty (c : lcache) k :
  wf lrec c ->
  wf lrec (stop_core ty c) /\
  getl (stop_core ty c) k =
  if key_eqb k (0, ty) || existsb (fun i => key_eqb k (1, i) || key_eqb k (2, i)) (stop_instances ty c)
  then [] else getl c k.
Proof.
  intros Hw. unfold stop_core. destruct (fold_srvtxt_look (stop_instances ty c) c k Hw) as [W1 G1].
  split; [apply set_wf; exact W1|]. rewrite get_set by exact W1. rewrite G1.
  destruct (key_eqb k (0, ty)); reflexivity.
Qed.

Lemma names_host_set3 h h' (c : lcache) : names_host lrec h (setl c (3, h') []) = names_host lrec h c.
Proof.
  unfold names_host. induction c as [|[k1 b1] c IH]; [reflexivity|]. simpl.
  destruct (key_eqb (3, h') k1) eqn:E.
  - apply key_eqb_eq in E. subst k1. simpl. reflexivity.
  - simpl. rewrite IH. reflexivity.
Qed.

Lemma fold_hosts_look : forall hosts (c : lcache) k,
  wf lrec c ->
  wf lrec (fold_left (fun c h => if names_host lrec h c then c else setl c (3, h) []) hosts c) /\
  getl (fold_left (fun c h => if names_host lrec h c then c else setl c (3, h) []) hosts c) k =
  if existsb (fun h => key_eqb k (3, h) && negb (names_host lrec h c)) hosts then [] else getl c k.
Proof.
  induction hosts as [|h hosts IH]; intros c k Hw; simpl; [auto|].
  destruct (names_host lrec h c) eqn:En.
  - destruct (IH c k Hw) as [W' G']. split; [exact W'|]. rewrite G'. rewrite andb_false_r. reflexivity.
  - assert (W1 : wf lrec (setl c (3, h) [])) by auto using set_wf.
    destruct (IH _ k W1) as [W' G']. split; [exact W'|]. rewrite G'. rewrite get_set by assumption.
    assert (Hx : existsb (fun h0 => key_eqb k (3, h0) && negb (names_host lrec h0 (setl c (3, h) []))) hosts
                 = existsb (fun h0 => key_eqb k (3, h0) && negb (names_host lrec h0 c)) hosts).
    { clear. induction hosts as [|x hosts IHh]; [reflexivity|]. simpl. rewrite names_host_set3, IHh. reflexivity. }
    rewrite Hx. simpl negb. rewrite andb_true_r.
    set (X := existsb (fun h0 => key_eqb k (3, h0) && negb (names_host lrec h0 c)) hosts).
    destruct X, (key_eqb k (3, h)); reflexivity.
Qed.

(* exactly what is removed, and that everything else is left as it was *)
Theorem remove_service_type_look ty (c : lcache) k :
  wf lrec c ->
  wf lrec (remove_service_type lrec ty c) /\
  getl (remove_service_type lrec ty c) k = if removed_key ty c k then [] else getl c k.
Proof.
  intros Hw. destruct (stop_core_look ty c k Hw) as [W1 G1].
  change (remove_service_type lrec ty c)
    with (fold_left (fun c h => if names_host lrec h c then c else setl c (3, h) []) (stop_hosts ty c) (stop_core ty c)).
  destruct (fold_hosts_look (stop_hosts ty c) (stop_core ty c) k W1) as [W2 G2].
  split; [exact W2|]. rewrite G2, G1. unfold removed_key.
  destruct (key_eqb k (0, ty) || existsb _ (stop_instances ty c)); simpl; [|reflexivity].
  destruct (existsb _ (stop_hosts ty c)); reflexivity.
Qed.

(* in words: the PTR Vec of the type, the SRV and TXT Vecs of the instances it names *)
Lemma removed_ptr ty c : removed_key ty c (0, ty) = true.
Proof. unfold removed_key. rewrite key_eqb_refl. reflexivity. Qed.

Lemma removed_srv_txt ty c i :
  In i (stop_instances ty c) -> removed_key ty c (1, i) = true /\ removed_key ty c (2, i) = true.
Proof.
  intros Hi. unfold removed_key.
  assert (H1 : existsb (fun j => key_eqb (1, i) (1, j) || key_eqb (1, i) (2, j)) (stop_instances ty c) = true).
  { apply existsb_exists. exists i. split; [exact Hi|]. rewrite key_eqb_refl. reflexivity. }
  assert (H2 : existsb (fun j => key_eqb (2, i) (1, j) || key_eqb (2, i) (2, j)) (stop_instances ty c) = true).
  { apply existsb_exists. exists i. split; [exact Hi|]. rewrite key_eqb_refl, orb_true_r. reflexivity. }
  rewrite H1, H2, !orb_true_r. split; reflexivity.
Qed.

(* an address Vec goes iff its host was named by one of those SRV records and by no SRV record
   that is left *)
Lemma removed_addr ty c h :
  In h (stop_hosts ty c) -> names_host lrec h (stop_core ty c) = false -> removed_key ty c (3, h) = true.
Proof.
  intros Hh Hn. unfold removed_key.
  assert (H3 : existsb (fun x => key_eqb (3, h) (3, x) && negb (names_host lrec x (stop_core ty c))) (stop_hosts ty c) = true).
  { apply existsb_exists. exists h. split; [exact Hh|]. rewrite key_eqb_refl, Hn. reflexivity. }
  rewrite H3, orb_true_r. reflexivity.
Qed.

Lemma kept_addr ty c h :
  names_host lrec h (stop_core ty c) = true -> removed_key ty c (3, h) = false.
Proof.
  intros Hn. unfold removed_key.
  assert (H0 : key_eqb (3, h) (0, ty) = false) by reflexivity.
  assert (H1 : forall l, existsb (fun i => key_eqb (3, h) (1, i) || key_eqb (3, h) (2, i)) l = false).
  { induction l as [|i l IH]; [reflexivity|]. simpl in *. exact IH. }
  assert (H2 : forall l, existsb (fun x => key_eqb (3, h) (3, x) && negb (names_host lrec x (stop_core ty c))) l = false).
  { induction l as [|x l IH]; [reflexivity|]. cbn [existsb]. rewrite IH.
    destruct (key_eqb (3, h) (3, x)) eqn:E; [|reflexivity]. apply key_eqb_eq in E. inversion E; subst. rewrite Hn. reflexivity. }
  rewrite H0, H1, H2. reflexivity.
Qed.

(* ------------------------------------------------------------------ nothing comes from nowhere *)

Lemma Forall2_S2_in_r (b b' : bucket lrec) e' :
  Forall2 S2 b b' -> In e' b' -> exists e, In e b /\ c_id e = c_id e'.
Proof.
  intros H. induction H as [|x y b b' [Hid _] Hb IH]; intros Hin; [contradiction|].
  destruct Hin as [<-|Hin]; [exists x; split; [left; reflexivity | symmetry; exact Hid]|].
  destruct (IH Hin) as (e & He & Hi). exists e. split; [right; exact He | exact Hi].
Qed.

(* the refresh / evict part of an iteration only refreshes and evicts *)
Lemma sim_iter_shape cfg (c c' : lcache) n a b o :
  wf lrec c -> AP n c -> sim_iter lrec log_ops cfg c n a b [] = Ok (c', o) ->
  exists cm, E2 c cm /\ Sub cm c'.
Proof.
  intros Hw HP H. unfold sim_iter in H. simpl in H.
  apply bind_ok_inv in H as (qb & _ & H). apply bind_ok_inv in H as (qh & _ & H).
  apply bind_ok_inv in H as ([c1 qr] & H1 & H). apply bind_ok_inv in H as ([c2 qa] & H2 & H).
  assert (B : wf lrec c1 /\ AP n c1 /\ E2 c c1).
  { destruct (sc_browse cfg) as [ty|].
    - destruct (refresh_browse_PQ n _ _ _ _ Hw HP H1) as (W1 & P1 & E1 & _). auto.
    - inversion H1; subst. auto using E2_refl. }
  destruct B as (W1 & P1 & E1).
  assert (A : wf lrec c2 /\ E2 c c2).
  { destruct (sc_host cfg) as [h|].
    - destruct (refresh_host_PQ n _ _ _ _ W1 P1 H2) as (W2 & _ & E12 & _). split; [exact W2 | eapply E2_trans; eauto].
    - inversion H2; subst. auto. }
  destruct A as (W2 & E02).
  destruct (evict_services_look n c2 (sc_browse cfg) W2) as (W3 & Sub3 & _).
  destruct (evict_services lrec log_ops c2 n (sc_browse cfg)) as [c3 rs]. simpl in W3, Sub3.
  unfold evict_addrs in H. simpl in H. inversion H; subst c'. clear H.
  exists c2. split; [exact E02|]. eapply Sub_trans; [exact Sub3|].
  intros k e He. rewrite (get_sweep lrec log_ops (fun k => k =? 3) c3 n k W3) in He.
  destruct (fst k =? 3); [apply evict_kept_in in He as [He _]|]; exact He.
Qed.

Lemma sim_iter_from (cfg : simcfg) (c c' : lcache) n a b o k e' :
  wf lrec c -> AP n c -> sim_iter lrec log_ops cfg c n a b [] = Ok (c', o) ->
  In e' (getl c' k) -> exists e, In e (getl c k) /\ c_id e = c_id e'.
Proof.
  intros Hw HP H Hin. destruct (sim_iter_shape cfg c c' n a b o Hw HP H) as (cm & HE & HS).
  apply HS in Hin. apply (Forall2_S2_in_r _ _ e' (HE k) Hin).
Qed.

(* taking records in: a record of the Vec was there or is the incoming one *)
Lemma flush_pass_ids inc n : forall (b b' : bucket lrec) ts,
  flush_pass lrec log_ops inc n b = Ok (b', ts) -> map c_id b' = map c_id b.
Proof.
  induction b as [|e b IH]; intros b' ts H; simpl in H; [inversion H; reflexivity|].
  apply bind_ok_inv in H as (f & _ & H). apply bind_ok_inv in H as ([r ts'] & Hr & H).
  destruct f; inversion H; subst; simpl; rewrite (IH _ _ Hr); reflexivity.
Qed.

Lemma reset_first_ids inc ttl n : forall (b b' : bucket lrec) rv,
  reset_first lrec log_ops inc ttl n b = Ok (Some (b', rv)) -> map c_id b' = map c_id b.
Proof.
  induction b as [|e b IH]; intros b' rv H; simpl in H; [discriminate|].
  destruct (matches (c_id e) inc).
  - apply bind_ok_inv in H as (t' & _ & H). inversion H; subst. reflexivity.
  - apply bind_ok_inv in H as (r & Hr & H). destruct r as [[rest' rv']|]; inversion H; subst.
    simpl. rewrite (IH _ _ Hr). reflexivity.
Qed.

Lemma add_or_update_ids (b : bucket lrec) inc ttl n ifu b' ts isnew e' :
  add_or_update lrec log_ops b inc ttl n ifu = Ok (Some (b', ts, isnew)) -> In e' b' ->
  (exists e, In e b /\ c_id e = c_id e') \/ c_id e' = inc.
Proof.
  intros H Hin. unfold add_or_update in H. apply bind_ok_inv in H as (tnew & _ & H).
  destruct (is_nil b && negb ifu); [discriminate|].
  apply bind_ok_inv in H as ([b1 ts1] & Hf & H).
  assert (Hb1 : map c_id b1 = map c_id b).
  { destruct (i_flush inc); [eapply flush_pass_ids; eauto | inversion Hf; reflexivity]. }
  assert (Hfrom : forall x, In x b1 -> exists e, In e b /\ c_id e = c_id x).
  { intros x Hx. apply (in_map c_id) in Hx. rewrite Hb1 in Hx. apply in_map_iff in Hx as (e & He & Hi). eauto. }
  apply bind_ok_inv in H as (r & Hr & H). destruct r as [[b2 rv]|]; inversion H; subst.
  - left. apply (in_map c_id) in Hin. rewrite (reset_first_ids _ _ _ _ _ _ Hr), Hb1 in Hin.
    apply in_map_iff in Hin as (e & He & Hi). eauto.
  - destruct Hin as [<-|Hin]; [right; reflexivity | left; apply Hfrom; exact Hin].
Qed.

Lemma ingest_from n : forall recs (c c' : lcache) k e',
  wf lrec c -> ingest lrec log_ops c n recs = Ok c' -> In e' (getl c' k) ->
  (exists e, In e (getl c k) /\ c_id e = c_id e') \/
  (exists r, In r recs /\ key_of (fst r) = Some k /\ fst r = c_id e').
Proof.
  induction recs as [|[id t] recs IH]; intros c c' k e' Hw H Hin; simpl in H.
  - inversion H; subst. left. eauto.
  - apply bind_ok_inv in H as (c1 & H1 & H).
    assert (W1 : wf lrec c1) by (eapply (ingest_wf lrec log_ops n [(id, t)] c c1 Hw); simpl; rewrite H1; reflexivity).
    destruct (IH _ _ k e' W1 H Hin) as [(e1 & He1 & Hi1) | (r & Hr & Hk & Hi)].
    2:{ right. exists r. split; [right; exact Hr | auto]. }
    destruct (key_of id) as [k0|] eqn:Ek; simpl in H1; [|inversion H1; subst; left; eauto].
    apply bind_ok_inv in H1 as (r & Ha & H1). destruct r as [[[b' ts] isnew]|]; inversion H1; subst; [|left; eauto].
    rewrite get_set in He1 by assumption. destruct (key_eqb k k0) eqn:Ekk; [|left; eauto].
    apply key_eqb_eq in Ekk. subst k0.
    destruct (add_or_update_ids _ _ _ _ _ _ _ _ e1 Ha He1) as [(e & He & Hi) | Hi].
    + left. exists e. split; [exact He | congruence].
    + right. exists (id, t). split; [left; reflexivity|]. simpl. split; [exact Ek | congruence].
Qed.

Lemma pop_from n (c : lcache) k e' :
  In e' (getl (pop_cache n c) k) -> exists e, In e (getl c k) /\ c_id e = c_id e'.
Proof.
  rewrite get_pop. intros H. apply in_map_iff in H as (e & <- & He). exists e. split; [exact He | reflexivity].
Qed.

(* one iteration: every record in the cache afterwards was there before or arrived in it; with a
   stop, nothing is left under the removed keys *)
Theorem t_iter_from s c n0 c' o :
  wf lrec c -> AP n0 c -> tstep_ok n0 s -> t_iter s c = Ok (c', o) ->
  exists c0, after_ingest s c = Ok c0 /\
  (forall k e', In e' (getl c' k) ->
     (exists e, In e (getl c k) /\ c_id e = c_id e') \/
     (exists r, In r (ts_recs s) /\ key_of (fst r) = Some k /\ fst r = c_id e')) /\
  (forall ty k, ts_stop s = Some ty -> removed_key ty c0 k = true -> getl c' k = []).
Proof.
  intros Hw HP (Hle & Hn & Hr) H. unfold t_iter in H.
  apply bind_ok_inv in H as (c0 & Hi & H). exists c0. split; [exact Hi|].
  destruct (ingest_P (ts_now s) _ _ _ Hn Hr (pop_wf _ c Hw) (AP_pop n0 _ c Hle HP) Hi) as [P0 W0].
  set (c0' := match ts_stop s with Some ty => remove_service_type lrec ty c0 | None => c0 end) in *.
  assert (L : wf lrec c0' /\ AP (ts_now s) c0' /\ forall k, getl c0' k = [] \/ getl c0' k = getl c0 k).
  { unfold c0'. destruct (ts_stop s) as [ty|]; [|auto].
    pose proof (remove_shrinks ty c0 W0) as Hs. split; [apply Hs|]. split; [eapply AP_shrinks; eauto | apply Hs]. }
  destruct L as (W0' & P0' & Hsh).
  split.
  - intros k e' Hin. destruct (sim_iter_from _ _ _ _ _ _ _ k e' W0' P0' H Hin) as (e1 & He1 & Hi1).
    destruct (Hsh k) as [Hk|Hk]; rewrite Hk in He1; [contradiction|].
    destruct (ingest_from _ _ _ _ k e1 (pop_wf _ c Hw) Hi He1) as [(e & He & Hid) | (r & Hr' & Hk' & Hid)].
    + apply pop_from in He as (e0 & He0 & Hid0). left. exists e0. split; [exact He0 | congruence].
    + right. exists r. split; [exact Hr'|]. split; [exact Hk' | congruence].
  - intros ty k Hst Hrk. unfold c0' in *. rewrite Hst in *.
    destruct (remove_service_type_look ty c0 k W0) as [_ G]. rewrite Hrk in G.
    destruct (getl c' k) as [|e' l] eqn:Eg; [reflexivity|].
    assert (Hin : In e' (getl c' k)) by (rewrite Eg; left; reflexivity).
    destruct (sim_iter_from _ _ _ _ _ _ _ k e' W0' P0' H Hin) as (e1 & He1 & _). rewrite G in He1. contradiction.
Qed.

(* several iterations: a record under key k at the end was there at the start or arrived in one
   of them under that key *)
Theorem truns_from : forall c n steps c' n',
  truns c n steps c' n' -> wf lrec c -> AP n c ->
  forall k e', In e' (getl c' k) ->
    (exists e, In e (getl c k) /\ c_id e = c_id e') \/
    (exists s r, In s steps /\ In r (ts_recs s) /\ key_of (fst r) = Some k /\ fst r = c_id e').
Proof.
  induction 1 as [c n | c n s c1 o steps c' n' Hs Hi Hrun IH]; intros Hw HP k e' Hin.
  - left. eauto.
  - destruct (t_iter_J s c n c1 o Hw HP Hs Hi) as (W1 & P1 & _).
    destruct (IH W1 P1 k e' Hin) as [(e1 & He1 & Hid1) | (s' & r & Hs' & Hr & Hk & Hid)].
    2:{ right. exists s', r. split; [right; exact Hs' | auto]. }
    destruct (t_iter_from s c n c1 o Hw HP Hs Hi) as (c0 & _ & Hfrom & _).
    destruct (Hfrom k e1 He1) as [(e & He & Hid) | (r & Hr & Hk & Hid)].
    + left. exists e. split; [exact He | congruence].
    + right. exists s, r. split; [left; reflexivity|]. split; [exact Hr|]. split; [exact Hk | congruence].
Qed.

(* ------------------------------------------------------------------ no browse, no service query *)

Lemma mk_query_questions (c : lcache) qs n q : mk_query lrec log_ops c qs n = Ok q -> qd_questions q = qs.
Proof. unfold mk_query. intros H. apply bind_ok_inv in H as (a & _ & H). inversion H. reflexivity. Qed.

Lemma mk_queries_questions (c : lcache) n : forall qss qs,
  mk_queries lrec log_ops c qss n = Ok qs -> map qd_questions qs = qss.
Proof.
  induction qss as [|x qss IH]; intros qs H; simpl in H; [inversion H; reflexivity|].
  apply bind_ok_inv in H as (q & Hq & H). apply bind_ok_inv in H as (r & Hr & H). inversion H; subst.
  simpl. rewrite (mk_query_questions _ _ _ _ Hq), (IH _ Hr). reflexivity.
Qed.

Definition addr_question (qu : bytes * N) : Prop := snd qu = TY_A \/ snd qu = TY_AAAA.

Lemma addr_qtype_cases id : addr_qtype id = TY_A \/ addr_qtype id = TY_AAAA.
Proof. unfold addr_qtype. destruct (i_data id); auto. destruct (_ =? 4); auto. Qed.

(* while no browse is open, an iteration sends address queries for the resolved host only:
   no PTR, SRV or TXT query, whatever is cached *)
Theorem no_browse_no_service_query s c c' o :
  sc_browse (ts_cfg s) = None -> t_iter s c = Ok (c', o) ->
  Forall (fun q => Forall addr_question (qd_questions q)) (io_queries o) /\
  (sc_host (ts_cfg s) = None -> io_queries o = []).
Proof.
  intros Hb H. unfold t_iter in H. apply bind_ok_inv in H as (c0 & _ & H).
  unfold sim_iter in H. rewrite Hb in H. simpl in H.
  apply bind_ok_inv in H as (qh & Hqh & H). apply bind_ok_inv in H as ([c2 qa] & H2 & H).
  destruct (evict_services lrec log_ops c2 (ts_now s) None) as [c3 rs].
  unfold evict_addrs in H. simpl in H. inversion H; subst. simpl.
  destruct (sc_host (ts_cfg s)) as [h|].
  - split; [|discriminate]. apply Forall_app. split.
    + apply bind_ok_inv in Hqh as (q & Hq & Hqh). inversion Hqh; subst.
      apply mk_query_questions in Hq.
      assert (Hq' : Forall addr_question (qd_questions q)).
      { rewrite Hq. constructor; [left; reflexivity|]. constructor; [right; reflexivity | constructor]. }
      clear -Hq'. induction (ts_nsh s); simpl; constructor; auto.
    + unfold refresh_host in H2. apply bind_ok_inv in H2 as ([b due] & _ & H2).
      apply bind_ok_inv in H2 as (q & Hq & H2). inversion H2; subst.
      apply mk_queries_questions in Hq. rewrite Forall_forall. intros x Hx.
      apply (in_map qd_questions) in Hx. rewrite Hq in Hx. apply in_map_iff in Hx as (id & <- & _).
      constructor; [apply addr_qtype_cases | constructor].
  - inversion Hqh; subst. inversion H2; subst. split; [constructor | reflexivity].
Qed.

(* ... and the refresh step has nothing of the stopped browse to work on *)
Lemma subject_no_browse cfg (c : lcache) n :
  sc_browse cfg = None ->
  subject cfg c n = match sc_host cfg with Some h => getl c (3, lower h) | None => [] end.
Proof. intros H. unfold subject. rewrite H. reflexivity. Qed.

(* ------------------------------------------------------------------ over reachable states *)

Theorem stop_removes c n cfg s c' o ty :
  treach c n cfg -> tstep_ok n s -> ts_stop s = Some ty -> t_iter s c = Ok (c', o) ->
  exists c0, after_ingest s c = Ok c0 /\
    getl c' (0, ty) = [] /\
    (forall i, In i (stop_instances ty c0) -> getl c' (1, i) = [] /\ getl c' (2, i) = []) /\
    (forall h, In h (stop_hosts ty c0) -> names_host lrec h (stop_core ty c0) = false -> getl c' (3, h) = []).
Proof.
  intros Hr Hs Hst Hi. destruct (treach_J c n cfg Hr) as (Hw & HP & _).
  destruct (t_iter_from s c n c' o Hw HP Hs Hi) as (c0 & Ha & _ & Hrm). exists c0. split; [exact Ha|].
  split; [apply (Hrm ty _ Hst), removed_ptr|]. split.
  - intros i Hin. destruct (removed_srv_txt ty c0 i Hin) as [H1 H2]. split; apply (Hrm ty _ Hst); assumption.
  - intros h Hin Hn. apply (Hrm ty _ Hst). apply removed_addr; assumption.
Qed.

Theorem fresh_browse_from_received c n cfg steps c' n' k e' :
  treach c n cfg -> truns c n steps c' n' -> getl c k = [] -> In e' (getl c' k) ->
  exists s r, In s steps /\ In r (ts_recs s) /\ key_of (fst r) = Some k /\ fst r = c_id e'.
Proof.
  intros Hr Hrun Hk Hin. destruct (treach_J c n cfg Hr) as (Hw & HP & _).
  destruct (truns_from c n steps c' n' Hrun Hw HP k e' Hin) as [(e & He & _) | H]; [|exact H].
  rewrite Hk in He. contradiction.
Qed.
