(* The definitions regenerated from the Rust sources (Gen/Params.v) are pinned here to the
   literal numbers and comparison directions the property texts use.  A changed constant or
   a flipped comparison in /repo makes one of these `reflexivity` proofs fail. *)
From Coq Require Import NArith Bool.
From Mdns Require Import Params.
Open Scope N_scope.

Lemma txt_prop_refused_len_pinned n : txt_prop_refused_len n = (255 <? n).
Proof. reflexivity. Qed.
