(* C12 for the cache layer: every piece of time-driven work of the daemon-level model (evicting a
   record with its removal event, sending a refresh query at a mark) has a timer, in every
   reachable state.  Model: Model/LifeTimers.v. *)
From Coq Require Import List NArith Bool Lia.
From Mdns Require Import Res Bytes Rec ParamsLife Life LifeSpec LifeCache LifeCacheSpec LifeTimers
  LifeProofs LifeCacheProofs LifeSimProofs LifeSimInst LifeMapProofs LifeKaHistProofs.
Import ListNotations.
Open Scope N_scope.

Local Arguments N.mul : simpl never.
Local Arguments N.add : simpl never.
Local Arguments N.sub : simpl never.
Local Arguments N.div : simpl never.
Local Arguments N.ltb : simpl never.
Local Arguments N.leb : simpl never.
Local Arguments N.eqb : simpl never.

Notation getl := (get_bucket lrec).
Notation setl := (set_bucket lrec).

(* ------------------------------------------------------------------ per-record invariants *)

Definition inv (r : trec) : Prop := exists s, R r s.

(* P n: the record's future wake-ups are in its log (n = time of the last iteration) *)
Definition P (n : N) (x : lrec) : Prop :=
  inv (fst x) /\
  (n < t_expires (fst x) -> In (t_expires (fst x)) (snd x)) /\
  (t_refresh (fst x) < t_expires (fst x) -> n < t_refresh (fst x) -> In (t_refresh (fst x)) (snd x)).

(* Q n: additionally a pending refresh mark that is already past is in the log (the record was
   looked at by the refresh step of the iteration at n) *)
Definition Q (n : N) (x : lrec) : Prop :=
  inv (fst x) /\
  (n < t_expires (fst x) ->
   In (t_expires (fst x)) (snd x) /\
   (t_refresh (fst x) < t_expires (fst x) -> In (t_refresh (fst x)) (snd x))).

Lemma Q_P n x : Q n x -> P n x.
Proof.
  intros (Hi & H). split; [exact Hi|]. split.
  - intros Hn. destruct (H Hn) as [Ha _]. exact Ha.
  - intros Hr Hn. assert (Hn' : n < t_expires (fst x)) by lia. destruct (H Hn') as [_ Hb]. apply Hb. exact Hr.
Qed.

Lemma P_mono n0 n x : n0 <= n -> P n0 x -> P n x.
Proof. intros Hle (Hi & H1 & H2). split; [exact Hi|]. split; intros; [apply H1 | apply H2]; auto; lia. Qed.

Lemma P_pop n0 n (e : lentry) : n0 <= n -> P n0 (c_t e) -> P n (c_t (pop_entry n e)).
Proof.
  intros Hle (Hi & H1 & H2). unfold P, pop_entry. simpl. split; [exact Hi|]. split.
  - intros Hn. apply filter_In. split; [apply H1; lia | apply N.ltb_lt; exact Hn].
  - intros Hr Hn. apply filter_In. split; [apply H2; auto; lia | apply N.ltb_lt; exact Hn].
Qed.

(* ---- record operations ---- *)

Lemma refresh_maybe_false r n r' :
  refresh_maybe r n = Ok (r', false) -> r' = r /\ (t_expires r <= n \/ n < t_refresh r).
Proof.
  unfold refresh_maybe, is_expired, refresh_due, is_expired_g, refresh_due_g, refresh_maybe_guard_returns.
  destruct (t_expires r <=? n) eqn:E1; simpl.
  { intros H. inversion H; subst. apply N.leb_le in E1. split; [reflexivity | left; exact E1]. }
  destruct (t_refresh r <=? n) eqn:E2; simpl.
  2:{ intros H. inversion H; subst. apply N.leb_gt in E2. split; [reflexivity | right; exact E2]. }
  destruct (exp_time _ _ ladder_from1); simpl; try discriminate.
  destruct (_ =? _). { destruct (exp_time _ _ _); simpl; intros H; inversion H. }
  destruct (exp_time _ _ ladder_from2); simpl; try discriminate.
  destruct (_ =? _). { destruct (exp_time _ _ _); simpl; intros H; inversion H. }
  destruct (exp_time _ _ ladder_from3); simpl; try discriminate.
  destruct (_ =? _). { destruct (exp_time _ _ _); simpl; intros H; inversion H. }
  destruct (refresh_no_more r); simpl; intros H; inversion H.
Qed.

Lemma refresh_once_cases r n r' b :
  refresh_once r n = Ok (r', b) ->
  (b = false /\ r' = r /\ (t_expires r <= n \/ n < t_refresh r)) \/
  (b = true /\ t_expires r' = t_expires r /\ t_refresh r' = t_created r + t_ttl r * 100 * 10).
Proof.
  unfold refresh_once, is_expired, refresh_due, is_expired_g, refresh_due_g, refresh_no_more, no_more_percent.
  destruct (t_expires r <=? n) eqn:E1; simpl.
  { intros H. inversion H; subst. apply N.leb_le in E1. left. repeat split; auto. }
  destruct (t_refresh r <=? n) eqn:E2; simpl.
  2:{ intros H. inversion H; subst. apply N.leb_gt in E2. left. repeat split; auto. }
  destruct (exp_time (t_created r) (t_ttl r) 100) eqn:Ee; simpl; try discriminate.
  intros H. inversion H; subst. right. apply exp_time_inv in Ee as [-> _]. auto.
Qed.

Lemma R_bound r s : R r s -> t_expires r <= t_created r + t_ttl r * 100 * 10.
Proof. unfold R. intros (H1 & H2 & H3 & _ & _ & H6 & _). rewrite H1, H2, H3. lia. Qed.

Lemma op_refresh_PQ n x x' b :
  P n x -> op_refresh log_ops x n = Ok (x', b) ->
  Q n x' /\ t_expires (fst x') = t_expires (fst x) /\ t_ttl (fst x') = t_ttl (fst x)
  /\ t_created (fst x') = t_created (fst x).
Proof.
  intros (Hi & H1 & H2) H. simpl in H. destruct Hi as [s HR].
  apply bind_ok_inv in H as ([r' b'] & Hm & H).
  pose proof (refresh_maybe_expires _ _ _ _ Hm) as He.
  pose proof (refresh_maybe_keeps _ _ _ _ Hm) as Hk.
  assert (Hi' : inv r').
  { destruct (refresh_maybe_spec (fst x) s n HR) as (r1 & E & HR1). rewrite Hm in E. inversion E; subst r1.
    eexists; exact HR1. }
  destruct b'; inversion H; subst; simpl; (split; [|split; [exact He | exact Hk]]); unfold Q; simpl;
    (split; [exact Hi'|]); rewrite He; intros Hn.
  - split; [apply in_or_app; left; auto | intros _; apply in_or_app; right; left; reflexivity].
  - apply refresh_maybe_false in Hm as [-> Hc]. split; [auto|]. intros Hr. apply H2; [exact Hr | lia].
Qed.

Lemma op_refresh_once_PQ n x x' b :
  P n x -> op_refresh_once log_ops x n = Ok (x', b) ->
  Q n x' /\ t_expires (fst x') = t_expires (fst x).
Proof.
  intros (Hi & H1 & H2) H. simpl in H. destruct Hi as [s HR].
  apply bind_ok_inv in H as ([r' b'] & Hm & H). inversion H; subst. simpl.
  destruct (refresh_once_spec (fst x) s n HR) as (r1 & E & HR1). rewrite Hm in E. inversion E; subst r1.
  destruct (refresh_once_cases _ _ _ _ Hm) as [(Hb & -> & Hc) | (Hb & He & Hf)].
  - split; [|reflexivity]. unfold Q. simpl. split; [eexists; exact HR1|]. intros Hn. split; [auto|]. intros Hr. apply H2; [exact Hr | lia].
  - split; [|exact He]. unfold Q. simpl. split; [eexists; exact HR1|]. rewrite He. intros Hn. split; [auto|].
    intros Hr. exfalso. pose proof (R_bound _ _ HR). lia.
Qed.

Lemma op_new_Q n ttl x :
  n < B63 -> 1 <= ttl -> ttl < U32 -> op_new log_ops n ttl = Ok x -> Q n x.
Proof.
  intros Hn H1 H2 H. simpl in H. apply bind_ok_inv in H as (r & Hr & H). inversion H; subst. simpl.
  destruct (rel_new _ _ _ _ _ trec_astate_rel n ttl Hn H1 H2) as (t1 & t2 & E1 & _ & HR).
  simpl in E1. rewrite Hr in E1. inversion E1; subst.
  unfold Q. simpl. split; [eexists; exact HR|]. intros _. split; [left; reflexivity | intros _; right; left; reflexivity].
Qed.

Lemma op_reset_Q n x ttl x' :
  inv (fst x) -> n < B63 -> 1 <= ttl -> ttl < U32 -> op_reset log_ops x ttl n = Ok x' -> Q n x'.
Proof.
  intros [s HR] Hn H1 H2 H. simpl in H. apply bind_ok_inv in H as (r & Hr & H). inversion H; subst. simpl.
  destruct (rel_reset _ _ _ _ _ trec_astate_rel _ _ ttl n HR Hn H1 H2) as (t1 & t2 & E1 & _ & HR').
  simpl in E1. rewrite Hr in E1. inversion E1; subst.
  unfold Q. simpl. split; [eexists; exact HR'|]. intros _.
  split; [apply in_or_app; right; left; reflexivity | intros _; apply in_or_app; right; right; left; reflexivity].
Qed.

Lemma op_shorten_P n inc id x :
  P n x -> n < B63 -> should_flush_trec inc id (fst x) n = Ok true -> P n (fst (op_shorten log_ops x n)).
Proof.
  intros (Hi & H1 & H2) Hn Hf. destruct Hi as [s HR]. simpl.
  destruct (rel_should_flush _ _ _ _ _ trec_astate_rel inc id _ _ n HR Hn) as (b & F1 & F2).
  simpl in F1. rewrite Hf in F1. inversion F1; subst b.
  destruct (rel_shorten _ _ _ _ _ trec_astate_rel inc id _ _ n HR Hn F2) as [HR' _]. simpl in HR'.
  assert (Hlt : n + 1000 < t_expires (fst x)).
  { unfold should_flush_spec in F2. inversion F2 as [F]. rewrite !andb_true_iff in F.
    destruct F as ((((_ & _) & _) & Hl) & _). apply N.ltb_lt in Hl.
    destruct (R_fields _ _ HR) as (_ & _ & He & _). rewrite He. exact Hl. }
  unfold P, flush_new_expire. simpl. split; [eexists; exact HR'|]. split.
  - intros _. apply in_or_app. right. left. reflexivity.
  - intros Hr Hnr. apply in_or_app. left. apply H2; [lia | exact Hnr].
Qed.

(* ---- a Vec of one key ---- *)

Definition PB (n : N) (b : bucket lrec) : Prop := Forall (fun e => P n (c_t e)) b.
Definition QB (n : N) (b : bucket lrec) : Prop := Forall (fun e => Q n (c_t e)) b.

Lemma QB_PB n b : QB n b -> PB n b.
Proof. intros H. eapply Forall_impl; [|exact H]. intros e. apply Q_P. Qed.

Lemma flush_pass_P inc n : forall b b' ts,
  n < B63 -> PB n b -> flush_pass lrec log_ops inc n b = Ok (b', ts) -> PB n b'.
Proof.
  induction b as [|e b IH]; intros b' ts Hn Hb H; simpl in H.
  - inversion H; constructor.
  - inversion Hb as [|? ? He Hb']; subst.
    apply bind_ok_inv in H as (f & Hf & H). apply bind_ok_inv in H as ([r ts'] & Hr & H).
    specialize (IH _ _ Hn Hb' Hr). destruct f.
    + inversion H; subst. constructor; [|exact IH]. simpl. eapply op_shorten_P; eauto.
    + inversion H; subst. constructor; assumption.
Qed.

Lemma reset_first_P inc ttl n : forall b b' rv,
  n < B63 -> 1 <= ttl -> ttl < U32 -> PB n b ->
  reset_first lrec log_ops inc ttl n b = Ok (Some (b', rv)) -> PB n b'.
Proof.
  induction b as [|e b IH]; intros b' rv Hn H1 H2 Hb H; simpl in H; [discriminate|].
  inversion Hb as [|? ? He Hb']; subst. destruct (matches (c_id e) inc).
  - apply bind_ok_inv in H as (t' & Ht & H). inversion H; subst. constructor; [|exact Hb'].
    simpl. apply Q_P. apply (op_reset_Q n (c_t e) ttl t'); [destruct He as [Hi _]; exact Hi | assumption | assumption | assumption | exact Ht].
  - apply bind_ok_inv in H as (r & Hr & H). destruct r as [[rest' rv']|]; inversion H; subst.
    constructor; [exact He|]. eapply IH; eauto.
Qed.

Lemma reset_first_none_P inc ttl n : forall b,
  reset_first lrec log_ops inc ttl n b = Ok None -> True.
Proof. auto. Qed.

Lemma add_or_update_P b inc ttl n ifu b' ts isnew :
  n < B63 -> 1 <= ttl -> ttl < U32 -> PB n b ->
  add_or_update lrec log_ops b inc ttl n ifu = Ok (Some (b', ts, isnew)) -> PB n b'.
Proof.
  intros Hn H1 H2 Hb H. unfold add_or_update in H.
  apply bind_ok_inv in H as (tnew & Hnew & H).
  destruct (is_nil b && negb ifu); [discriminate|].
  apply bind_ok_inv in H as ([b1 ts1] & Hf & H).
  assert (Hb1 : PB n b1).
  { destruct (i_flush inc); [eapply flush_pass_P; eauto | inversion Hf; subst; assumption]. }
  apply bind_ok_inv in H as (r & Hr & H). destruct r as [[b2 rv]|]; inversion H; subst.
  - eapply reset_first_P; eauto.
  - constructor; [|exact Hb1]. simpl. apply Q_P. apply (op_new_Q n ttl tnew Hn H1 H2 Hnew).
Qed.

Lemma refresh_bucket_PQ n : forall b b' any,
  PB n b -> refresh_bucket lrec log_ops b n = Ok (b', any) ->
  QB n b' /\ Forall2 (fun e e' => c_id e' = c_id e /\ l_expires e' = l_expires e) b b'.
Proof.
  induction b as [|e b IH]; intros b' any Hb H; simpl in H.
  - inversion H; split; constructor.
  - inversion Hb as [|? ? He Hb']; subst.
    apply bind_ok_inv in H as ([t' d] & Ht & H). apply bind_ok_inv in H as ([r a] & Hr & H).
    inversion H; subst. destruct (IH _ _ Hb' Hr) as [IH1 IH2].
    destruct (op_refresh_PQ n _ _ _ He Ht) as (HQ & Hexp & _).
    split; constructor; auto.
Qed.

Lemma refresh_once_bucket_PQ n : forall b b' due,
  PB n b -> refresh_once_bucket lrec log_ops b n = Ok (b', due) ->
  QB n b' /\ Forall2 (fun e e' => c_id e' = c_id e /\ l_expires e' = l_expires e) b b'.
Proof.
  induction b as [|e b IH]; intros b' due Hb H; simpl in H.
  - inversion H; split; constructor.
  - inversion Hb as [|? ? He Hb']; subst.
    apply bind_ok_inv in H as ([t' d] & Ht & H). apply bind_ok_inv in H as ([r a] & Hr & H).
    inversion H; subst. destruct (IH _ _ Hb' Hr) as [IH1 IH2].
    destruct (op_refresh_once_PQ n _ _ _ He Ht) as (HQ & Hexp).
    split; constructor; auto.
Qed.

(* ------------------------------------------------------------------ the cache *)

Definition AP (n : N) (c : lcache) : Prop := forall k, PB n (getl c k).
Definition AQ (n : N) (k : ckey) (c : lcache) : Prop := QB n (getl c k).

Lemma pop_keys n (c : lcache) : map fst (pop_cache n c) = map fst c.
Proof. unfold pop_cache. rewrite map_map. reflexivity. Qed.

Lemma pop_wf n (c : lcache) : wf lrec c -> wf lrec (pop_cache n c).
Proof. unfold wf. rewrite pop_keys. auto. Qed.

Lemma get_pop n (c : lcache) k : getl (pop_cache n c) k = map (pop_entry n) (getl c k).
Proof.
  induction c as [|[k1 b1] c IH]; [reflexivity|]. simpl. destruct (key_eqb k k1); [reflexivity | exact IH].
Qed.

Lemma AP_pop n0 n c : n0 <= n -> AP n0 c -> AP n (pop_cache n c).
Proof.
  intros Hle H k. rewrite get_pop. unfold PB. rewrite Forall_map.
  eapply Forall_impl; [|exact (H k)]. intros e He. apply (P_pop n0 n e Hle He).
Qed.

Lemma AP_set n c k b : wf lrec c -> AP n c -> PB n b -> AP n (setl c k b).
Proof.
  intros Hw H Hb k2. rewrite get_set by assumption. destruct (key_eqb k2 k); [exact Hb | apply H].
Qed.

Lemma ingest_P n : forall recs c c',
  n < B63 -> Forall rec_ok recs -> wf lrec c -> AP n c -> ingest lrec log_ops c n recs = Ok c' ->
  AP n c' /\ wf lrec c'.
Proof.
  induction recs as [|[id t] recs IH]; intros c c' Hn Hr Hw H Hi; simpl in Hi.
  - inversion Hi; subst. auto.
  - inversion Hr as [|? ? Hr1 Hr2]; subst. unfold rec_ok in Hr1. simpl in Hr1.
    destruct (stored_ttl_bounds t Hr1) as [Hs1 Hs2].
    apply bind_ok_inv in Hi as (c1 & H1 & Hi).
    assert (AP n c1 /\ wf lrec c1) as [HP1 Hw1].
    { destruct (key_of id) as [k|]; simpl in H1; [|inversion H1; subst; auto].
      apply bind_ok_inv in H1 as (r & Ha & H1). destruct r as [[[b' ts] isnew]|]; inversion H1; subst; [|auto].
      split; [|apply set_wf; assumption]. apply AP_set; [assumption | assumption|].
      eapply add_or_update_P; [exact Hn | exact Hs1 | exact Hs2 | apply H | exact Ha]. }
    eapply IH; eauto.
Qed.

(* removing whole Vecs keeps everything *)
Definition shrinks (c c' : lcache) : Prop :=
  wf lrec c' /\ forall k, getl c' k = [] \/ getl c' k = getl c k.

Lemma shrinks_refl c : wf lrec c -> shrinks c c.
Proof. intros Hw. split; [assumption | intros k; right; reflexivity]. Qed.

Lemma shrinks_drop c c' k : shrinks c c' -> shrinks c (setl c' k []).
Proof.
  intros [Hw H]. split; [apply set_wf; assumption|]. intros k2. rewrite get_set by assumption.
  destruct (key_eqb k2 k); [left; reflexivity | apply H].
Qed.

Lemma remove_shrinks ty c : wf lrec c -> shrinks c (remove_service_type lrec ty c).
Proof.
  intros Hw. unfold remove_service_type.
  set (insts := flat_map _ (getl c (0, ty))). set (hosts := map lower _).
  assert (H1 : forall l c1, shrinks c c1 ->
            shrinks c (fold_left (fun c i => setl (setl c (1, i) []) (2, i) []) l c1)).
  { induction l as [|i l IH]; intros c1 Hs; simpl; [assumption|]. apply IH. apply shrinks_drop, shrinks_drop, Hs. }
  assert (H2 : forall l c1, shrinks c c1 ->
            shrinks c (fold_left (fun c h => if names_host lrec h c then c else setl c (3, h) []) l c1)).
  { induction l as [|h l IH]; intros c1 Hs; simpl; [assumption|]. apply IH.
    destruct (names_host lrec h c1); [assumption | apply shrinks_drop, Hs]. }
  apply H2. apply shrinks_drop. apply H1. apply shrinks_refl. assumption.
Qed.

Lemma AP_shrinks n c c' : shrinks c c' -> AP n c -> AP n c'.
Proof. intros [_ H] HP k. destruct (H k) as [-> | ->]; [constructor | apply HP]. Qed.

(* ---- the refresh step ---- *)

Definition S2 (e e' : lentry) : Prop := c_id e' = c_id e /\ l_expires e' = l_expires e.
Definition E2 (c c' : lcache) : Prop := forall k, Forall2 S2 (getl c k) (getl c' k).

Lemma F2_S2_refl (b : bucket lrec) : Forall2 S2 b b.
Proof. induction b; constructor; auto. split; reflexivity. Qed.
Lemma E2_refl c : E2 c c. Proof. intros k. apply F2_S2_refl. Qed.
Lemma F2_S2_trans (a b c : bucket lrec) : Forall2 S2 a b -> Forall2 S2 b c -> Forall2 S2 a c.
Proof.
  intros H. revert c. induction H as [|x y a b [H1 H2] Hab IH]; intros c Hc; inversion Hc as [|? z ? ? [H3 H4]]; subst; constructor.
  - split; congruence.
  - apply IH. assumption.
Qed.
Lemma E2_trans a b c : E2 a b -> E2 b c -> E2 a c.
Proof. intros H1 H2 k. eapply F2_S2_trans; eauto. Qed.
Lemma E2_set c k b' : wf lrec c -> Forall2 S2 (getl c k) b' -> E2 c (setl c k b').
Proof.
  intros Hw H k2. rewrite get_set by assumption. destruct (key_eqb k2 k) eqn:Ek.
  - apply key_eqb_eq in Ek. subst. assumption.
  - apply F2_S2_refl.
Qed.

Lemma AQ_set n c k b k2 : wf lrec c -> QB n b -> AQ n k2 c -> AQ n k2 (setl c k b).
Proof. intros Hw Hb H. unfold AQ. rewrite get_set by assumption. destruct (key_eqb k2 k); assumption. Qed.

Lemma AQ_set_same n c k b : wf lrec c -> QB n b -> AQ n k (setl c k b).
Proof. intros Hw Hb. unfold AQ. rewrite get_set by assumption. rewrite key_eqb_refl. assumption. Qed.

Lemma refresh_srv_txt_PQ n : forall insts c c' acc acc',
  wf lrec c -> AP n c -> refresh_srv_txt lrec log_ops c n insts acc = Ok (c', acc') ->
  wf lrec c' /\ AP n c' /\ E2 c c' /\
  (forall i, In i insts -> AQ n (1, i) c' /\ AQ n (2, i) c') /\
  (forall k, AQ n k c -> AQ n k c').
Proof.
  induction insts as [|i insts IH]; intros c c' acc acc' Hw HP H; simpl in H.
  - inversion H; subst. split; [assumption|]. split; [assumption|]. split; [apply E2_refl|]. split; [intros j []| auto].
  - apply bind_ok_inv in H as ([bs ds] & H1 & H). apply bind_ok_inv in H as ([bt dt] & H2 & H).
    destruct (refresh_bucket_PQ n _ _ _ (HP (1, i)) H1) as [Qs Ss].
    pose proof (set_wf lrec c (1, i) bs Hw) as W1.
    pose proof (AP_set n c (1, i) bs Hw HP (QB_PB _ _ Qs)) as P1.
    destruct (refresh_bucket_PQ n _ _ _ (P1 (2, i)) H2) as [Qt St].
    pose proof (set_wf lrec _ (2, i) bt W1) as W2.
    pose proof (AP_set n _ (2, i) bt W1 P1 (QB_PB _ _ Qt)) as P2.
    destruct (IH _ _ _ _ W2 P2 H) as (W' & P' & E' & Hin & Hk).
    split; [exact W'|]. split; [exact P'|]. split.
    { eapply E2_trans; [apply (E2_set c (1, i) bs Hw Ss)|].
      eapply E2_trans; [apply (E2_set _ (2, i) bt W1 St)| exact E']. }
    split.
    + intros j [<- | Hj]; [|apply Hin; exact Hj]. split; apply Hk.
      * apply AQ_set; [assumption | assumption | apply AQ_set_same; assumption].
      * apply AQ_set_same; assumption.
    + intros k Hq. apply Hk. apply AQ_set; [assumption | assumption | apply AQ_set; assumption].
Qed.

Lemma refresh_hosts_PQ n : forall hosts c c' qs,
  wf lrec c -> AP n c -> refresh_hosts lrec log_ops c n hosts = Ok (c', qs) ->
  wf lrec c' /\ AP n c' /\ E2 c c' /\
  (forall h, In h hosts -> AQ n (3, lower h) c') /\
  (forall k, AQ n k c -> AQ n k c').
Proof.
  induction hosts as [|h hosts IH]; intros c c' qs Hw HP H; simpl in H.
  - inversion H; subst. split; [assumption|]. split; [assumption|]. split; [apply E2_refl|]. split; [intros j []| auto].
  - apply bind_ok_inv in H as ([b d] & H1 & H). apply bind_ok_inv in H as ([c2 q2] & H2 & H). inversion H; subst.
    destruct (refresh_bucket_PQ n _ _ _ (HP (3, lower h)) H1) as [Qb Sb].
    pose proof (set_wf lrec c (3, lower h) b Hw) as W1.
    pose proof (AP_set n c (3, lower h) b Hw HP (QB_PB _ _ Qb)) as P1.
    destruct (IH _ _ _ W1 P1 H2) as (W' & P' & E' & Hin & Hk).
    split; [exact W'|]. split; [exact P'|]. split.
    { eapply E2_trans; [apply (E2_set c (3, lower h) b Hw Sb) | exact E']. }
    split.
    + intros j [<- | Hj]; [|apply Hin; exact Hj]. apply Hk. apply AQ_set_same; assumption.
    + intros k Hq. apply Hk. apply AQ_set; assumption.
Qed.

(* live instances / hosts depend on identities and expiry only *)
Lemma live_instances_S2 n (b b' : bucket lrec) :
  Forall2 S2 b b' -> live_instances lrec log_ops b' n = live_instances lrec log_ops b n.
Proof.
  intros H. unfold live_instances. induction H as [|e e' b b' [Hid He] Hb IH]; [reflexivity|].
  simpl in *. rewrite IH, Hid. unfold is_expired. unfold l_expires in He. rewrite He. reflexivity.
Qed.

Lemma hosts_of_bucket_S2 (b b' : bucket lrec) :
  Forall2 S2 b b' -> hosts_of_bucket lrec b' = hosts_of_bucket lrec b.
Proof.
  intros H. unfold hosts_of_bucket. induction H as [|e e' b b' [Hid He] Hb IH]; [reflexivity|].
  simpl in *. rewrite IH, Hid. reflexivity.
Qed.

Lemma In_dedup_bytes x : forall l, In x l -> In x (dedup_bytes l).
Proof.
  induction l as [|y l IH]; intros H; [contradiction|]. simpl.
  destruct (beq y x) eqn:E.
  - apply beq_eq in E. subst. left. reflexivity.
  - destruct H as [->|H]; [rewrite beq_refl in E; discriminate|].
    right. apply filter_In. split; [apply IH; exact H | rewrite E; reflexivity].
Qed.

(* everything the refresh step works on has been looked at *)
Definition SQ (n : N) (cfg : simcfg) (c : lcache) : Prop :=
  (forall ty, sc_browse cfg = Some ty ->
     AQ n (0, ty) c /\
     forall i, In i (live_instances lrec log_ops (getl c (0, ty)) n) ->
       AQ n (1, i) c /\ AQ n (2, i) c /\
       forall h, In h (hosts_of_bucket lrec (getl c (1, i))) -> AQ n (3, lower h) c) /\
  (forall h, sc_host cfg = Some h -> AQ n (3, lower h) c).

Lemma refresh_browse_PQ n c ty c' qs :
  wf lrec c -> AP n c -> refresh_browse lrec log_ops c n ty = Ok (c', qs) ->
  wf lrec c' /\ AP n c' /\ E2 c c' /\
  AQ n (0, ty) c' /\
  (forall i, In i (live_instances lrec log_ops (getl c' (0, ty)) n) ->
     AQ n (1, i) c' /\ AQ n (2, i) c' /\
     forall h, In h (hosts_of_bucket lrec (getl c' (1, i))) -> AQ n (3, lower h) c').
Proof.
  intros Hw HP H. unfold refresh_browse in H.
  apply bind_ok_inv in H as ([bp dp] & Hp & H). apply bind_ok_inv in H as (qp & _ & H).
  apply bind_ok_inv in H as ([c2 due] & H2 & H). apply bind_ok_inv in H as (qi & _ & H).
  apply bind_ok_inv in H as ([c3 hq] & H3 & H). apply bind_ok_inv in H as (qh & _ & H).
  inversion H; subst. clear H.
  destruct (refresh_bucket_PQ n _ _ _ (HP (0, ty)) Hp) as [Qp Sp].
  pose proof (set_wf lrec c (0, ty) bp Hw) as W1.
  pose proof (AP_set n c (0, ty) bp Hw HP (QB_PB _ _ Qp)) as P1.
  pose proof (E2_set c (0, ty) bp Hw Sp) as E1.
  destruct (refresh_srv_txt_PQ n _ _ _ _ _ W1 P1 H2) as (W2 & P2 & E2' & Hin2 & Hk2).
  destruct (refresh_hosts_PQ n _ _ _ _ W2 P2 H3) as (W3 & P3 & E3 & Hin3 & Hk3).
  split; [exact W3|]. split; [exact P3|]. split; [eapply E2_trans; [exact E1 | eapply E2_trans; eauto]|].
  assert (Hbp : getl (setl c (0, ty) bp) (0, ty) = bp) by (rewrite get_set by assumption; rewrite key_eqb_refl; reflexivity).
  split; [apply Hk3, Hk2, AQ_set_same; assumption|].
  intros i Hi.
  (* the live instances are those of bp *)
  assert (Hi' : In i (live_instances lrec log_ops bp n)).
  { rewrite <- Hbp. rewrite <- (live_instances_S2 n _ _ (E2_trans _ _ _ E2' E3 (0, ty))). exact Hi. }
  destruct (Hin2 i Hi') as [Q1 Q2].
  split; [apply Hk3; exact Q1|]. split; [apply Hk3; exact Q2|].
  intros h Hh. apply Hin3. apply In_dedup_bytes. apply in_flat_map. exists i. split; [exact Hi'|].
  rewrite <- (hosts_of_bucket_S2 _ _ (E3 (1, i))). exact Hh.
Qed.

Lemma refresh_host_PQ n c h c' qs :
  wf lrec c -> AP n c -> refresh_host lrec log_ops c n h = Ok (c', qs) ->
  wf lrec c' /\ AP n c' /\ E2 c c' /\ AQ n (3, lower h) c' /\ (forall k, AQ n k c -> AQ n k c').
Proof.
  intros Hw HP H. unfold refresh_host in H.
  apply bind_ok_inv in H as ([b due] & Hb & H). apply bind_ok_inv in H as (q & _ & H). inversion H; subst.
  destruct (refresh_once_bucket_PQ n _ _ _ (HP (3, lower h)) Hb) as [Qb Sb].
  split; [apply set_wf; assumption|]. split; [apply AP_set; auto using QB_PB|].
  split; [apply E2_set; assumption|]. split; [apply AQ_set_same; assumption|].
  intros k Hq. apply AQ_set; assumption.
Qed.

Lemma SQ_E2 n cfg c c' :
  E2 c c' -> (forall k, AQ n k c -> AQ n k c') -> SQ n cfg c -> SQ n cfg c'.
Proof.
  intros HE Hk [Hb Hh]. split.
  - intros ty Hty. destruct (Hb ty Hty) as [Hq Hi]. split; [apply Hk; exact Hq|].
    intros i Hin. rewrite (live_instances_S2 n _ _ (HE (0, ty))) in Hin.
    destruct (Hi i Hin) as (Q1 & Q2 & Q3). split; [apply Hk; exact Q1|]. split; [apply Hk; exact Q2|].
    intros h Hin'. rewrite (hosts_of_bucket_S2 _ _ (HE (1, i))) in Hin'. apply Hk. apply Q3. exact Hin'.
  - intros h Hc. apply Hk. apply Hh. exact Hc.
Qed.

(* ---- eviction ---- *)

Definition Sub (c c' : lcache) : Prop := forall k e, In e (getl c' k) -> In e (getl c k).
Definition NE (n : N) (cfg : simcfg) (c : lcache) : Prop :=
  forall k e, acted cfg k = true -> In e (getl c k) -> n < l_expires e.

Lemma Sub_refl c : Sub c c. Proof. intros k e H. exact H. Qed.
Lemma Sub_trans a b c : Sub a b -> Sub b c -> Sub a c.
Proof. intros H1 H2 k e H. apply H1, H2, H. Qed.

Lemma evict_kept_in n (b : bucket lrec) e :
  In e (fst (evict lrec log_ops b n)) -> In e b /\ n < l_expires e.
Proof.
  unfold evict. simpl. rewrite filter_In. intros [Hin Hf]. split; [exact Hin|].
  unfold is_expired, is_expired_g in Hf. apply negb_true_iff in Hf. apply N.leb_gt in Hf. exact Hf.
Qed.

Lemma fold_evict_instance_look n gone : forall (b : bucket lrec) (c : lcache) rm,
  wf lrec c ->
  wf lrec (fst (fold_left (evict_instance lrec log_ops n gone) b (c, rm))) /\
  Sub c (fst (fold_left (evict_instance lrec log_ops n gone) b (c, rm))) /\
  (forall k, fst k <> 2 -> getl (fst (fold_left (evict_instance lrec log_ops n gone) b (c, rm))) k = getl c k).
Proof.
  induction b as [|e b IH]; intros c rm Hw; simpl.
  - split; [assumption|]. split; [apply Sub_refl | reflexivity].
  - unfold evict_instance at 2 4 6. destruct (alias_of (c_id e)) as [inst|]; [|apply IH; assumption].
    set (c1 := setl c (2, inst) (fst (evict lrec log_ops (getl c (2, inst)) n))).
    assert (W1 : wf lrec c1) by (apply set_wf; assumption).
    destruct (IH c1 (if mem inst gone then rm ++ [inst] else rm) W1) as (W' & S' & K').
    split; [exact W'|]. split.
    + eapply Sub_trans; [|exact S']. intros k x Hx. unfold c1 in Hx. rewrite get_set in Hx by assumption.
      destruct (key_eqb k (2, inst)) eqn:Ek; [|exact Hx].
      apply key_eqb_eq in Ek. subst. apply evict_kept_in in Hx as [Hx _]. exact Hx.
    + intros k Hk. rewrite K' by assumption. unfold c1. rewrite get_set by assumption.
      destruct (key_eqb k (2, inst)) eqn:Ek; [|reflexivity].
      apply key_eqb_eq in Ek. subst. simpl in Hk. contradiction.
Qed.

Lemma evict_services_look n (c : lcache) browse :
  wf lrec c ->
  wf lrec (fst (evict_services lrec log_ops c n browse)) /\
  Sub c (fst (evict_services lrec log_ops c n browse)) /\
  (forall k e, In e (getl (fst (evict_services lrec log_ops c n browse)) k) ->
     (fst k = 1 \/ fst k = 2 \/ (exists ty, browse = Some ty /\ k = (0, ty))) -> n < l_expires e).
Proof.
  intros Hw. pose proof (evict_services_wf lrec log_ops c n browse Hw) as W'.
  split; [exact W'|]. unfold evict_services in *.
  pose proof (sweep_srv_wf lrec log_ops c n Hw) as W0.
  pose proof (get_sweep_srv lrec log_ops c n) as G0.
  destruct (sweep_srv lrec log_ops c n) as [c0 gone]. simpl in W0, G0.
  destruct browse as [ty|].
  - destruct (fold_evict_instance_look n gone (getl c0 (0, ty)) c0 [] W0) as (W1 & S1 & K1).
    destruct (fold_left (evict_instance lrec log_ops n gone) (getl c0 (0, ty)) (c0, [])) as [c1 rm1]. simpl in W1, S1, K1.
    destruct (evict lrec log_ops (getl c0 (0, ty)) n) as [kp xp] eqn:Ev. simpl.
    assert (Hkp : kp = fst (evict lrec log_ops (getl c0 (0, ty)) n)) by (rewrite Ev; reflexivity).
    pose proof (set_wf lrec c1 (0, ty) kp W1) as W2.
    assert (L : forall k e, In e (getl (sweep lrec log_ops (fun k => k =? 2) (setl c1 (0, ty) kp) n) k) ->
              In e (getl c k) /\ ((fst k = 1 \/ fst k = 2 \/ k = (0, ty)) -> n < l_expires e)).
    { intros k e He. rewrite get_sweep in He by assumption. rewrite get_set in He by assumption.
      destruct (key_eqb k (0, ty)) eqn:Ek.
      - apply key_eqb_eq in Ek. subst k. simpl in He. rewrite Hkp in He.
        apply evict_kept_in in He as [He Hn]. rewrite G0 in He by assumption. simpl in He. split; [exact He | intros _; exact Hn].
      - destruct (fst k =? 2) eqn:E2.
        + apply evict_kept_in in He as [He Hn]. apply S1 in He. rewrite G0 in He by assumption.
          apply N.eqb_eq in E2. rewrite E2 in He. simpl in He. split; [exact He | intros _; exact Hn].
        + apply N.eqb_neq in E2. rewrite K1 in He by assumption. rewrite G0 in He by assumption.
          destruct (fst k =? 1) eqn:E1.
          * apply evict_kept_in in He as [He Hn]. split; [exact He | intros _; exact Hn].
          * split; [exact He|]. apply N.eqb_neq in E1. intros [H|[H|H]]; try contradiction.
            subst. rewrite key_eqb_refl in Ek. discriminate. }
    split.
    + intros k e He. apply (L k e He).
    + intros k e He Hk. apply (L k e He). destruct Hk as [H|[H|(ty' & Hty & ->)]]; auto.
      inversion Hty; subst. auto.
  - simpl.
    assert (L : forall k e, In e (getl (sweep lrec log_ops (fun k => k =? 2) c0 n) k) ->
              In e (getl c k) /\ ((fst k = 1 \/ fst k = 2) -> n < l_expires e)).
    { intros k e He. rewrite get_sweep in He by assumption. rewrite G0 in He by assumption.
      destruct (fst k =? 2) eqn:E2.
      - apply evict_kept_in in He as [He Hn]. apply N.eqb_eq in E2. rewrite E2 in He. simpl in He.
        split; [exact He | intros _; exact Hn].
      - destruct (fst k =? 1) eqn:E1.
        + apply evict_kept_in in He as [He Hn]. split; [exact He | intros _; exact Hn].
        + split; [exact He|]. apply N.eqb_neq in E1, E2. intros [H|H]; contradiction. }
    split.
    + intros k e He. apply (L k e He).
    + intros k e He Hk. apply (L k e He). destruct Hk as [H|[H|(ty' & Hty & _)]]; auto. discriminate.
Qed.

Lemma evict_addrs_look n (c : lcache) host k :
  wf lrec c ->
  getl (fst (evict_addrs lrec log_ops c n host)) k =
  if fst k =? 3 then fst (evict lrec log_ops (getl c k) n) else getl c k.
Proof. intros Hw. unfold evict_addrs. simpl. apply (get_sweep lrec log_ops (fun k => k =? 3) c n k Hw). Qed.

(* ---- what is looked at, after eviction ---- *)

Lemma In_live_instances n (b : bucket lrec) i :
  In i (live_instances lrec log_ops b n) <->
  exists e, In e b /\ is_expired (fst (c_t e)) n = false /\ alias_of (c_id e) = Some i.
Proof.
  unfold live_instances. rewrite in_flat_map. split.
  - intros (e & He & H). exists e. simpl in H. destruct (is_expired (fst (c_t e)) n); [contradiction|].
    destruct (alias_of (c_id e)) as [a|]; [|contradiction]. destruct H as [->|[]]. auto.
  - intros (e & He & Hx & Ha). exists e. split; [exact He|]. simpl. rewrite Hx, Ha. left. reflexivity.
Qed.

Lemma In_hosts_of_bucket (b : bucket lrec) h :
  In h (hosts_of_bucket lrec b) <-> exists e, In e b /\ host_of (c_id e) = Some h.
Proof.
  unfold hosts_of_bucket. rewrite in_flat_map. split.
  - intros (e & He & H). exists e. destruct (host_of (c_id e)) as [x|]; [|contradiction]. destruct H as [->|[]]. auto.
  - intros (e & He & Ha). exists e. split; [exact He|]. rewrite Ha. left. reflexivity.
Qed.

Lemma AQ_sub n k c c' : Sub c c' -> AQ n k c -> AQ n k c'.
Proof.
  intros HS H. unfold AQ, QB in *. rewrite Forall_forall in *. intros e He. apply H. apply HS. exact He.
Qed.

Lemma SQ_sub n cfg c c' : Sub c c' -> SQ n cfg c -> SQ n cfg c'.
Proof.
  intros HS [Hb Hh]. split.
  - intros ty Hty. destruct (Hb ty Hty) as [Hq Hi]. split; [eapply AQ_sub; eauto|].
    intros i Hin. apply In_live_instances in Hin as (e & He & Hx & Ha).
    assert (Hin : In i (live_instances lrec log_ops (getl c (0, ty)) n)).
    { apply In_live_instances. exists e. split; [apply HS; exact He | auto]. }
    destruct (Hi i Hin) as (Q1 & Q2 & Q3).
    split; [eapply AQ_sub; eauto|]. split; [eapply AQ_sub; eauto|].
    intros h Hh'. apply In_hosts_of_bucket in Hh' as (x & Hx' & Hho).
    eapply AQ_sub; [exact HS|]. apply Q3. apply In_hosts_of_bucket. exists x. split; [apply HS; exact Hx' | exact Hho].
  - intros h Hc. eapply AQ_sub; [exact HS|]. apply Hh. exact Hc.
Qed.

Lemma AP_sub n c c' : Sub c c' -> AP n c -> AP n c'.
Proof.
  intros HS H k. unfold PB. rewrite Forall_forall. intros e He.
  specialize (H k). unfold PB in H. rewrite Forall_forall in H. apply H. apply HS. exact He.
Qed.

(* ------------------------------------------------------------------ one iteration, all histories *)

Definition J (c : lcache) (n : N) (cfg : simcfg) : Prop :=
  wf lrec c /\ AP n c /\ SQ n cfg c /\ NE n cfg c.

Lemma t_iter_J s c n0 c' o :
  wf lrec c -> AP n0 c -> tstep_ok n0 s -> t_iter s c = Ok (c', o) -> J c' (ts_now s) (ts_cfg s).
Proof.
  intros Hw HP (Hle & Hn & Hr) H. unfold t_iter in H. set (n := ts_now s) in *.
  apply bind_ok_inv in H as (c0 & Hi & H).
  destruct (ingest_P n _ _ _ Hn Hr (pop_wf n c Hw) (AP_pop n0 n c Hle HP) Hi) as [P0 W0].
  set (c0' := match ts_stop s with Some ty => remove_service_type lrec ty c0 | None => c0 end) in *.
  assert (W0' : wf lrec c0' /\ AP n c0').
  { unfold c0'. destruct (ts_stop s) as [ty|]; [|auto].
    pose proof (remove_shrinks ty c0 W0) as Hs. split; [apply Hs | eapply AP_shrinks; eauto]. }
  destruct W0' as [W0' P0'].
  unfold sim_iter in H. simpl in H.
  apply bind_ok_inv in H as (qb & _ & H). apply bind_ok_inv in H as (qh & _ & H).
  apply bind_ok_inv in H as ([c1 qr] & H1 & H). apply bind_ok_inv in H as ([c2 qa] & H2 & H).
  set (cfg := ts_cfg s) in *.
  (* the browse refresh *)
  assert (B : wf lrec c1 /\ AP n c1 /\
              (forall ty, sc_browse cfg = Some ty ->
                 AQ n (0, ty) c1 /\
                 forall i, In i (live_instances lrec log_ops (getl c1 (0, ty)) n) ->
                   AQ n (1, i) c1 /\ AQ n (2, i) c1 /\
                   forall h, In h (hosts_of_bucket lrec (getl c1 (1, i))) -> AQ n (3, lower h) c1)).
  { destruct (sc_browse cfg) as [ty|] eqn:Eb.
    - destruct (refresh_browse_PQ n _ _ _ _ W0' P0' H1) as (W1 & P1 & _ & Q0 & Qi).
      split; [exact W1|]. split; [exact P1|]. intros ty' Hty. assert (ty' = ty) by congruence. subst. split; assumption.
    - inversion H1; subst. split; [exact W0'|]. split; [exact P0'|]. intros ty' Hty. congruence. }
  destruct B as (W1 & P1 & B1).
  (* the resolver refresh *)
  assert (A : wf lrec c2 /\ AP n c2 /\ SQ n cfg c2).
  { destruct (sc_host cfg) as [h|] eqn:Eh.
    - destruct (refresh_host_PQ n _ _ _ _ W1 P1 H2) as (W2 & P2 & E12 & Qh & Hk).
      split; [exact W2|]. split; [exact P2|]. split.
      + intros ty Hty. destruct (B1 ty Hty) as [Q0 Qi]. split; [apply Hk; exact Q0|].
        intros i Hin. rewrite (live_instances_S2 n _ _ (E12 (0, ty))) in Hin.
        destruct (Qi i Hin) as (Q1 & Q2 & Q3). split; [apply Hk; exact Q1|]. split; [apply Hk; exact Q2|].
        intros h' Hh'. rewrite (hosts_of_bucket_S2 _ _ (E12 (1, i))) in Hh'. apply Hk. apply Q3. exact Hh'.
      + intros h' Hh'. assert (h' = h) by congruence. subst. exact Qh.
    - inversion H2; subst. split; [exact W1|]. split; [exact P1|]. split; [exact B1|]. intros h' Hh'. congruence. }
  destruct A as (W2 & P2 & S2').
  (* eviction *)
  destruct (evict_services_look n c2 (sc_browse cfg) W2) as (W3 & Sub3 & N3).
  destruct (evict_services lrec log_ops c2 n (sc_browse cfg)) as [c3 rs]. simpl in W3, Sub3, N3.
  unfold evict_addrs in H. simpl in H. inversion H; subst c'. clear H.
  set (c4 := sweep lrec log_ops (fun k => k =? 3) c3 n).
  assert (G4 : forall k, wf lrec c3 -> getl c4 k = if fst k =? 3 then fst (evict lrec log_ops (getl c3 k) n) else getl c3 k).
  { intros k Hw3. apply (get_sweep lrec log_ops (fun k => k =? 3) c3 n k Hw3). }
  assert (W4 : wf lrec c4) by (apply sweep_wf; assumption).
  assert (Sub4 : Sub c3 c4).
  { intros k e He. rewrite G4 in He by assumption. destruct (fst k =? 3); [apply evict_kept_in in He as [He _]|]; exact He. }
  pose proof (Sub_trans _ _ _ Sub3 Sub4) as Sub24.
  split; [exact W4|]. split; [eapply AP_sub; eauto|]. split; [eapply SQ_sub; eauto|].
  intros k e Hk He. rewrite G4 in He by assumption. unfold acted in Hk.
  destruct (fst k =? 3) eqn:E3.
  - apply evict_kept_in in He as [_ Hlt]. exact Hlt.
  - apply (N3 k e He). rewrite !orb_true_iff in Hk. destruct Hk as [[[Hk|Hk]|Hk]|Hk].
    + left. apply N.eqb_eq. exact Hk.
    + right. left. apply N.eqb_eq. exact Hk.
    + congruence.
    + right. right. fold cfg in Hk. destruct (sc_browse cfg) as [ty|]; [|discriminate].
      exists ty. split; [reflexivity|]. apply key_eqb_eq. exact Hk.
Qed.

Lemma J_init cfg : J [] 0 cfg.
Proof.
  split; [constructor|]. split; [intros k; constructor|]. split.
  - split; [intros ty _; split; [constructor | intros i []] | intros h _; constructor].
  - intros k e _ [].
Qed.

Theorem treach_J c n cfg : treach c n cfg -> J c n cfg.
Proof.
  induction 1 as [cfg | c n cfg s c' o Hr IH Hs Hi]; [apply J_init|].
  destruct IH as (Hw & HP & _). eapply t_iter_J; eauto.
Qed.

(* ---- coverage ---- *)

Lemma get_in_alist (c : lcache) k e : In e (getl c k) -> exists kb, In kb c /\ In e (snd kb).
Proof.
  induction c as [|[k1 b1] c IH]; [intros []|]. simpl. destruct (key_eqb k k1).
  - intros H. exists (k1, b1). split; [left; reflexivity | exact H].
  - intros H. destruct (IH H) as (kb & H1 & H2). exists kb. split; [right; exact H1 | exact H2].
Qed.

Lemma log_in_timers (c : lcache) k e t : In e (getl c k) -> In t (snd (c_t e)) -> In t (timers c).
Proof.
  intros He Ht. destruct (get_in_alist c k e He) as (kb & H1 & H2).
  unfold timers. apply in_flat_map. exists kb. split; [exact H1|]. apply in_flat_map. exists e. auto.
Qed.

Lemma subject_in cfg c n e :
  In e (subject cfg c n) -> SQ n cfg c ->
  exists k, In e (getl c k) /\ acted cfg k = true /\ AQ n k c.
Proof.
  intros He [Sb Sh]. unfold subject in He.
  destruct (sc_browse cfg) as [ty|] eqn:Eb.
  - destruct (Sb ty eq_refl) as [Q0 Qi].
    apply in_app_or in He as [He|He].
    { exists (0, ty). split; [exact He|]. split; [|exact Q0]. unfold acted. rewrite Eb, key_eqb_refl, !orb_true_r. reflexivity. }
    apply in_app_or in He as [He|He].
    { apply in_flat_map in He as (i & Hi & He). destruct (Qi i Hi) as (Q1 & Q2 & _).
      apply in_app_or in He as [He|He]; [exists (1, i) | exists (2, i)]; (split; [exact He|]); split; auto. }
    apply in_app_or in He as [He|He].
    { apply in_flat_map in He as (h & Hh & He). apply in_flat_map in Hh as (i & Hi & Hh).
      destruct (Qi i Hi) as (_ & _ & Q3). exists (3, lower h). split; [exact He|]. split; [reflexivity | apply Q3; exact Hh]. }
    destruct (sc_host cfg) as [h|]; [|contradiction].
    exists (3, lower h). split; [exact He|]. split; [reflexivity | apply Sh; reflexivity].
  - simpl in He. destruct (sc_host cfg) as [h|]; [|contradiction].
    exists (3, lower h). split; [exact He|]. split; [reflexivity | apply Sh; reflexivity].
Qed.

(* every piece of time-driven work that is due has a timer at exactly its due time *)
Theorem due_work_has_timer c n cfg t :
  treach c n cfg -> In t (due_work cfg c n) -> In t (timers c).
Proof.
  intros Hr Ht. destruct (treach_J c n cfg Hr) as (Hw & HP & HS & HN).
  unfold due_work in Ht. apply in_app_or in Ht as [Ht|Ht].
  - apply in_flat_map in Ht as ([k b] & Hkb & Ht). simpl in Ht.
    destruct (acted cfg k) eqn:Ea; [|contradiction]. apply in_map_iff in Ht as (e & <- & He).
    assert (Hg : In e (getl c k)) by (rewrite (get_in lrec c k b Hw Hkb); exact He).
    pose proof (HN k e Ea Hg) as Hlt.
    specialize (HP k). unfold PB in HP. rewrite Forall_forall in HP. destruct (HP e Hg) as (_ & H1 & _).
    apply (log_in_timers c k e _ Hg). apply H1. exact Hlt.
  - apply in_flat_map in Ht as (e & He & Ht).
    destruct (l_refresh e <? l_expires e) eqn:El; [|contradiction]. destruct Ht as [<-|[]].
    apply N.ltb_lt in El.
    destruct (subject_in cfg c n e He HS) as (k & Hg & Ha & Hq).
    pose proof (HN k e Ha Hg) as Hlt.
    unfold AQ, QB in Hq. rewrite Forall_forall in Hq. destruct (Hq e Hg) as (_ & H1).
    destruct (H1 Hlt) as [_ H2]. apply (log_in_timers c k e _ Hg). apply H2. exact El.
Qed.

Corollary timers_cover_due_work c n cfg t :
  treach c n cfg -> In t (due_work cfg c n) -> exists tau, In tau (timers c) /\ tau <= t.
Proof. intros Hr Ht. exists t. split; [eapply due_work_has_timer; eauto | lia]. Qed.

(* granted the wake-up it asks for (or an earlier one), the next iteration is never later than
   any due time: every refresh query and every removal happens AT its due time *)
Corollary next_iteration_not_late c n cfg s c' o t :
  treach c n cfg -> t_iter s c = Ok (c', o) ->
  (forall tau, In tau (timers c) -> ts_now s <= tau) ->
  In t (due_work cfg c n) -> ts_now s <= t.
Proof. intros Hr _ Hw Ht. apply Hw. eapply due_work_has_timer; eauto. Qed.

(* nothing that eviction works on is overdue after an iteration *)
Corollary no_expired_left c n cfg k b e :
  treach c n cfg -> In (k, b) c -> acted cfg k = true -> In e b -> n < l_expires e.
Proof.
  intros Hr Hkb Ha He. destruct (treach_J c n cfg Hr) as (Hw & _ & _ & HN).
  apply (HN k e Ha). rewrite (get_in lrec c k b Hw Hkb). exact He.
Qed.

(* ------------------------------------------------------------------ erasing the logs *)

(* The timed model is the C11 model with ghost logs: on every history of the C11 model (fixed
   searches, no stop) it runs without panic exactly when the C11 model does and makes the same
   observations. *)
Definition Er (x : lrec) (r : trec) : Prop := fst x = r /\ inv r.

Lemma log_trec_rel : ops_rel lrec trec log_ops trec_ops Er.
Proof.
  constructor; simpl.
  - intros now ttl Hn H1 H2.
    destruct (rel_new _ _ _ _ _ trec_astate_rel now ttl Hn H1 H2) as (t1 & t2 & E1 & _ & HR). simpl in E1.
    rewrite E1. simpl. do 2 eexists. split; [reflexivity|]. split; [reflexivity|]. split; [reflexivity | eexists; exact HR].
  - intros x r now [<- _]. reflexivity.
  - intros x r now [<- [s HR]].
    destruct (rel_refresh _ _ _ _ _ trec_astate_rel _ _ now HR) as (t1 & t2 & b & E1 & _ & HR'). simpl in E1.
    rewrite E1. simpl. do 3 eexists. split; [reflexivity|]. split; [reflexivity|]. split; [reflexivity | eexists; exact HR'].
  - intros x r now [<- [s HR]].
    destruct (rel_refresh_once _ _ _ _ _ trec_astate_rel _ _ now HR) as (t1 & t2 & b & E1 & _ & HR'). simpl in E1.
    rewrite E1. simpl. do 3 eexists. split; [reflexivity|]. split; [reflexivity|]. split; [reflexivity | eexists; exact HR'].
  - intros x r ttl now [<- [s HR]] Hn H1 H2.
    destruct (rel_reset _ _ _ _ _ trec_astate_rel _ _ ttl now HR Hn H1 H2) as (t1 & t2 & E1 & _ & HR'). simpl in E1.
    rewrite E1. simpl. do 2 eexists. split; [reflexivity|]. split; [reflexivity|]. split; [reflexivity | eexists; exact HR'].
  - intros inc id x r now [<- [s HR]] Hn.
    destruct (rel_should_flush _ _ _ _ _ trec_astate_rel inc id _ _ now HR Hn) as (b & E1 & _). simpl in E1.
    exists b. split; exact E1.
  - intros inc id x r now [<- [s HR]] Hn Hf. split; [|reflexivity]. split; [reflexivity|].
    destruct (rel_should_flush _ _ _ _ _ trec_astate_rel inc id _ _ now HR Hn) as (b & E1 & E2). simpl in E1.
    rewrite Hf in E1. inversion E1; subst b.
    destruct (rel_shorten _ _ _ _ _ trec_astate_rel inc id _ _ now HR Hn E2) as [HR' _]. eexists. exact HR'.
  - intros x r now [<- [s HR]].
    destruct (rel_ka _ _ _ _ _ trec_astate_rel _ _ now HR) as [[k Hk] _]. simpl in Hk.
    split; exists k; exact Hk.
  - intros x r [<- _]. reflexivity.
Qed.

Lemma sim_iter_split (T : Type) (O : ops T) cfg (c : cache T) now a b recs :
  sim_iter T O cfg c now a b recs = (let? c0 := ingest T O c now recs in sim_iter T O cfg c0 now a b []).
Proof. unfold sim_iter. simpl. destruct (ingest T O c now recs); reflexivity. Qed.

Lemma pop_Rc n (c : lcache) (ce : cache trec) :
  Rc lrec trec Er c ce -> Rc lrec trec Er (pop_cache n c) ce.
Proof.
  intros H. induction H as [|[k1 b1] [k2 b2] c ce [Hk Hb] Hc IH]; [constructor|].
  simpl. constructor; [|exact IH]. simpl in *. split; [exact Hk|].
  clear -Hb. induction Hb as [|e1 e2 b1 b2 [Hid Ht] Hb IH]; constructor; [|exact IH].
  split; [exact Hid | exact Ht].
Qed.

Lemma t_run_erases cfg : forall steps (c : lcache) (ce : cache trec),
  Rc lrec trec Er c ce -> Forall step_ok steps ->
  exists os oe, t_run c (map (tstep_of cfg) steps) = Ok os /\
                sim_run trec trec_ops cfg ce steps = Ok oe /\ Forall2 io_eq os oe.
Proof.
  induction steps as [|s steps IH]; intros c ce Hc Hs.
  - do 2 eexists. repeat split. constructor.
  - inversion Hs as [|? ? [Hn Hr] Hs']; subst.
    destruct (sim_iter_rel lrec trec log_ops trec_ops Er log_trec_rel cfg _ _ (ss_now s) (ss_nsb s) (ss_nsh s) (ss_recs s)
                (pop_Rc (ss_now s) c ce Hc) Hn Hr) as (c1' & c2' & o1 & o2 & E1 & E2 & Hc' & Ho).
    destruct (IH _ _ Hc' Hs') as (os & oe & F1 & F2 & Hos).
    simpl. unfold t_iter. simpl. rewrite sim_iter_split in E1. rewrite E1. simpl. rewrite F1. simpl.
    rewrite E2. simpl. rewrite F2. simpl. do 2 eexists. repeat split. constructor; assumption.
Qed.

Theorem timed_model_is_model cfg steps :
  Forall step_ok steps ->
  exists os oe, t_run [] (map (tstep_of cfg) steps) = Ok os /\ model_run cfg steps = Ok oe /\ Forall2 io_eq os oe.
Proof. intros H. apply (t_run_erases cfg steps [] []); [constructor | exact H]. Qed.
