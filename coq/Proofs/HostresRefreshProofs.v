(* C17, the clauses "asks for A and AAAA at once", "refreshes addresses before they expire while
   the search is open" and "withdrawn (goodbye) addresses are removed", over all histories of the
   reference machine (hence, by Proofs/HostresRefine.v, of the model of the code).  No axioms. *)
From Coq Require Import List NArith Bool Lia.
From Mdns Require Import Bytes ParamsHostres HostresBase HostresModel HostresSpec HostresPinned
                         HostresRefine HostresCacheProofs HostresSchedProofs HostresFoundProofs.
Import ListNotations.
Open Scope N_scope.

(* ---------------------------------------------------------------- at once *)
(* a resolve_hostname call: SearchStarted first, and the A + AAAA question for the name as spelled
   by the caller is sent in the same iteration *)
Theorem first_query now p host timeout ch :
  exists evs, snd (fst (sp_call now p (CResolve host timeout ch))) = (ch, EStarted host) :: evs
  /\ snd (sp_call now p (CResolve host timeout ch)) = [[(host, 1); (host, 28)]].
Proof. simpl. eexists. split; reflexivity. Qed.

(* ---------------------------------------------------------------- goodbye *)
(* a record received with TTL 0 is kept for exactly one second - as a new record or as the new
   lifetime of the record it matches - and is never refreshed *)
Theorem goodbye_one_second now ifx r :
  i_ttl r = 0 ->
  l_expires (a_life (arec_of now ifx r)) = now + 1000
  /\ life_reset now (l_ttl (a_life (arec_of now ifx r))) = mkLife 1 now (now + 1000) (now + 1000).
Proof.
  intros H. unfold arec_of. cbn [a_life]. rewrite H.
  change (wire_ttl 0) with 1. rewrite life_new_eq, life_reset_eq. simpl. split; reflexivity.
Qed.

(* ---------------------------------------------------------------- the refresh pass over all open searches *)
Lemma bucket_of_aset_other c k k' b : beq k k' = false -> bucket_of (aset k' b c) k = bucket_of c k.
Proof.
  intros H. unfold bucket_of. induction c as [|[k0 b0] t IH]; simpl.
  - rewrite H. reflexivity.
  - destruct (beq k' k0) eqn:E; simpl.
    + apply beq_eq in E. subst k0. rewrite H. reflexivity.
    + destruct (beq k k0); [reflexivity|exact IH].
Qed.

Lemma aget_aset_same {A} k (v : A) m : aget k (aset k v m) = Some v.
Proof.
  induction m as [|[k0 v0] t IH]; simpl; [rewrite beq_refl; reflexivity|].
  destruct (beq k k0) eqn:E; simpl; [rewrite beq_refl; reflexivity|]. rewrite E. exact IH.
Qed.

Lemma refresh_one_queries now c qs r :
  snd (refresh_one now (c, qs) r)
  = qs ++ map (fun a => [(r_key r, addr_qtype (fst a))]) (snd (refresh_bucket now (bucket_of c (r_key r)))).
Proof.
  unfold refresh_one, bucket_of. destruct (aget (r_key r) c) as [b|]; [reflexivity|].
  simpl. rewrite app_nil_r. reflexivity.
Qed.

Lemma refresh_one_bucket_other now c qs r k :
  beq k (r_key r) = false -> bucket_of (fst (refresh_one now (c, qs) r)) k = bucket_of c k.
Proof.
  intros H. unfold refresh_one. destruct (aget (r_key r) c) as [b|]; [|reflexivity].
  cbn [fst]. apply bucket_of_aset_other. exact H.
Qed.

Lemma refresh_all_mono now res : forall c qs q, In q qs -> In q (snd (fold_left (refresh_one now) res (c, qs))).
Proof.
  induction res as [|r t IH]; intros c qs q H; [exact H|]. cbn [fold_left].
  destruct (refresh_one now (c, qs) r) as [c' qs'] eqn:E.
  apply IH. pose proof (refresh_one_queries now c qs r) as Hq. rewrite E in Hq. cbn [snd] in Hq.
  rewrite Hq. apply in_or_app. left. exact H.
Qed.

(* complete: every record of an open search's name that is due at `now` gets its question
   (lower-cased name, A or AAAA by the address family) *)
Theorem refresh_all_complete now res : forall c qs r x,
  In r res -> In x (bucket_of c (r_key r)) -> refresh_wanted now x = true ->
  In [(r_key r, addr_qtype (a_addr x))] (snd (fold_left (refresh_one now) res (c, qs))).
Proof.
  induction res as [|r0 t IH]; intros c qs r x Hr Hx Hw; [contradiction|]. cbn [fold_left].
  destruct (refresh_one now (c, qs) r0) as [c' qs'] eqn:E.
  pose proof (refresh_one_queries now c qs r0) as Hq. rewrite E in Hq. cbn [snd] in Hq.
  destruct (beq (r_key r) (r_key r0)) eqn:Ek.
  - (* this resolver's turn (or one with the same name): the question is sent now *)
    apply beq_eq in Ek. apply refresh_all_mono. rewrite Hq. apply in_or_app. right.
    apply in_map_iff. exists (a_addr x, a_if x). split; [rewrite Ek; reflexivity|].
    apply (proj1 (refresh_bucket_spec now _)). exists x. rewrite <- Ek. auto.
  - destruct Hr as [->|Hr]; [rewrite beq_refl in Ek; discriminate|].
    apply IH; [exact Hr| |exact Hw].
    pose proof (refresh_one_bucket_other now c qs r0 (r_key r) Ek) as Hb. rewrite E in Hb. cbn [fst] in Hb.
    rewrite Hb. exact Hx.
Qed.

(* sound: every refresh question is for a record of an open search's name that was due *)
Theorem refresh_all_sound now res : forall c qs q,
  In q (snd (fold_left (refresh_one now) res (c, qs))) ->
  In q qs \/ exists r x, In r res /\ (exists y, In y (bucket_of c (r_key r)) /\ ident y = ident x)
                         /\ refresh_wanted now x = true /\ q = [(r_key r, addr_qtype (a_addr x))].
Proof.
  induction res as [|r0 t IH]; intros c qs q H; [left; exact H|]. cbn [fold_left] in H.
  destruct (refresh_one now (c, qs) r0) as [c' qs'] eqn:E.
  pose proof (refresh_one_queries now c qs r0) as Hq. rewrite E in Hq. cbn [snd] in Hq.
  apply IH in H as [H|[r [x [Hr [[y [Hy Hid]] [Hw Hqq]]]]]].
  - rewrite Hq in H. apply in_app_or in H as [H|H]; [left; exact H|]. right.
    apply in_map_iff in H as [a [Ea Ha]]. apply (proj1 (refresh_bucket_spec now _)) in Ha as [x [Hx [Hw Hxa]]].
    exists r0, x. split; [left; reflexivity|]. split; [exists x; auto|]. split; [exact Hw|].
    rewrite <- Ea, <- Hxa. reflexivity.
  - right. exists r, x. split; [right; exact Hr|]. split; [|auto].
    (* the bucket of r in c' comes from the bucket in c, identities kept *)
    destruct (beq (r_key r) (r_key r0)) eqn:Ek.
    + apply beq_eq in Ek. unfold refresh_one in E. unfold bucket_of in Hy |- *. rewrite Ek in *.
      destruct (aget (r_key r0) c) as [b|] eqn:Eg.
      * destruct (refresh_bucket now b) as [b' due] eqn:Erb. inversion E; subst c'. clear E.
        rewrite aget_aset_same in Hy.
        assert (Eb' : b' = fst (refresh_bucket now b)) by (rewrite Erb; reflexivity).
        rewrite Eb' in Hy. unfold refresh_bucket in Hy. cbn [fst] in Hy.
        apply in_map_iff in Hy as [y0 [Ey Hy0]]. exists y0. split; [exact Hy0|].
        rewrite <- Hid, <- Ey. destruct (refresh_wanted now y0); reflexivity.
      * inversion E; subst c'. rewrite Eg in Hy. contradiction.
    + pose proof (refresh_one_bucket_other now c qs r0 (r_key r) Ek) as Hb. rewrite E in Hb. cbn [fst] in Hb.
      rewrite Hb in Hy. exists y. auto.
Qed.

(* after the pass no record of any open search's name is due at `now` *)
Lemma refresh_one_done now c qs r0 :
  (forall x, In x (entries c) -> life_wf (a_life x)) ->
  (forall x, In x (entries (fst (refresh_one now (c, qs) r0))) -> life_wf (a_life x))
  /\ (forall k x, In x (bucket_of (fst (refresh_one now (c, qs) r0)) k) ->
        (beq k (r_key r0) = true -> refresh_wanted now x = false)
        /\ (forall P : arec -> Prop, (forall y, In y (bucket_of c k) -> refresh_wanted now y = false) -> refresh_wanted now x = false)).
Proof.
  intros Hwf.
  unfold refresh_one. destruct (aget (r_key r0) c) as [b|] eqn:Eg; cbn [fst].
  - assert (Hb : forall y, In y b -> In y (entries c)).
    { intros y Hy. unfold entries. apply aget_In in Eg as [k' [_ Hin]]. apply in_flat_map. exists (k', b). auto. }
    assert (Hget : forall k, bucket_of (aset (r_key r0) (fst (refresh_bucket now b)) c) k
                             = if beq k (r_key r0) then fst (refresh_bucket now b) else bucket_of c k).
    { intros k. destruct (beq k (r_key r0)) eqn:Ek; [|apply bucket_of_aset_other; exact Ek].
      apply beq_eq in Ek. subst k. unfold bucket_of. rewrite aget_aset_same. reflexivity. }
    assert (Hdone : Forall (fun x => refresh_wanted now x = false) (fst (refresh_bucket now b))).
    { apply refresh_bucket_done. apply Forall_forall. intros y Hy. apply Hwf. apply Hb. exact Hy. }
    rewrite Forall_forall in Hdone.
    split.
    + intros x Hx. apply entries_aset in Hx as [Hx|Hx]; [|apply Hwf; exact Hx].
      unfold refresh_bucket in Hx. cbn [fst] in Hx. apply in_map_iff in Hx as [y [Ey Hy]]. subst x.
      destruct (refresh_wanted now y); [simpl; apply life_no_more_wf|]; apply Hwf; apply Hb; exact Hy.
    + intros k x Hx. rewrite Hget in Hx. destruct (beq k (r_key r0)) eqn:Ek.
      * split; [intros _; apply Hdone; exact Hx|intros _ _; apply Hdone; exact Hx].
      * split; [discriminate|intros _ H; apply H; exact Hx].
  - split; [exact Hwf|]. intros k x Hx. split.
    + intros Ek. apply beq_eq in Ek. subst k. unfold bucket_of in Hx. rewrite Eg in Hx. contradiction.
    + intros _ H. apply H. exact Hx.
Qed.

Theorem refresh_all_done now res : forall c qs,
  (forall x, In x (entries c) -> life_wf (a_life x)) ->
  forall r x, In r res -> In x (bucket_of (fst (fold_left (refresh_one now) res (c, qs))) (r_key r)) ->
              refresh_wanted now x = false.
Proof.
  (* generalised: buckets that are already done stay done *)
  assert (G : forall rs c qs (done : name -> Prop),
            (forall x, In x (entries c) -> life_wf (a_life x)) ->
            (forall k x, done k -> In x (bucket_of c k) -> refresh_wanted now x = false) ->
            forall k x, (done k \/ exists r, In r rs /\ r_key r = k) ->
                        In x (bucket_of (fst (fold_left (refresh_one now) rs (c, qs))) k) -> refresh_wanted now x = false).
  { induction rs as [|r0 t IH]; intros c qs done Hwf Hd k x Hk Hx.
    - destruct Hk as [Hk|[r [[] _]]]. eapply Hd; eassumption.
    - cbn [fold_left] in Hx. destruct (refresh_one_done now c qs r0 Hwf) as [Hwf' Hb].
      destruct (refresh_one now (c, qs) r0) as [c' qs'] eqn:E. cbn [fst] in *.
      apply (IH c' qs' (fun k0 => done k0 \/ k0 = r_key r0) Hwf') with (k := k); [| |exact Hx].
      + intros k0 x0 [Hk0|Hk0] Hx0.
        * destruct (Hb k0 x0 Hx0) as [_ H2]. apply (H2 (fun _ => True)). intros y Hy. eapply Hd; eassumption.
        * subst k0. destruct (Hb (r_key r0) x0 Hx0) as [H1 _]. apply H1. apply beq_refl.
      + destruct Hk as [Hk|[r [[->|Hr] Hrk]]]; [left; left; exact Hk|left; right; symmetry; exact Hrk|right; exists r; auto]. }
  intros c qs Hwf r x Hr Hx.
  apply (G res c qs (fun _ => False) Hwf) with (k := r_key r); [intros k0 x0 []| |exact Hx].
  right. exists r. auto.
Qed.

(* ---------------------------------------------------------------- the cache keeps one bucket per name *)
Definition keys_nodup (c : cache) : Prop := NoDup (map fst c).

Lemma In_aset' {A} k (v : A) m k' v' : In (k', v') (aset k v m) -> (k' = k /\ v' = v) \/ In (k', v') m.
Proof.
  induction m as [|[k0 v0] t IH]; simpl.
  - intros [H|[]]. inversion H. auto.
  - destruct (beq k k0); simpl; intros [H|H]; auto.
    + inversion H. auto.
    + destruct (IH H); auto.
Qed.

Lemma aset_keys_nodup {A} k (v : A) m : NoDup (map fst m) -> NoDup (map fst (aset k v m)).
Proof.
  induction m as [|[k0 v0] t IH]; simpl; intros H; [constructor; [tauto|constructor]|].
  inversion H; subst. destruct (beq k k0) eqn:E; simpl.
  - apply beq_eq in E. subst. constructor; assumption.
  - constructor; [|apply IH; assumption].
    intros Hin. apply in_map_iff in Hin as [[k1 v1] [E1 Hin]]. simpl in E1. subst k1.
    apply In_aset' in Hin as [[-> _]|Hin]; [rewrite beq_refl in E; discriminate|].
    apply H2. apply (in_map fst) in Hin. exact Hin.
Qed.

Lemma aou_keys now fu x c : keys_nodup c -> keys_nodup (fst (add_or_update now fu x c)).
Proof.
  intros H. unfold add_or_update.
  destruct (bucket_of c (lower (a_name x))) as [|y t]; [destruct fu|];
    try (destruct (update_match now x _); cbn [fst]; apply aset_keys_nodup; exact H).
  exact H.
Qed.

Lemma respond_keys now res c m : keys_nodup c -> keys_nodup (fst (respond now res c m)).
Proof.
  intros H. unfold respond.
  assert (G : forall rs acc, keys_nodup (fst acc) -> keys_nodup (fst (fold_left (absorb now (is_for_us res m) (m_if m)) rs acc))).
  { induction rs as [|r t IH]; intros acc Ha; [exact Ha|]. cbn [fold_left]. apply IH.
    unfold absorb. destruct (is_addr_ty (i_ty r)); [|exact Ha].
    pose proof (aou_keys now (is_for_us res m) (arec_of now (m_if m) r) (fst acc) Ha) as Hk.
    destruct (add_or_update now (is_for_us res m) (arec_of now (m_if m) r) (fst acc)) as [c' isnew]. exact Hk. }
  specialize (G (m_recs m) (c, []) H).
  destruct (fold_left _ (m_recs m) (c, [])) as [c' ch]. exact G.
Qed.

Lemma respond_all_keys now res ms : forall c e, keys_nodup c ->
  keys_nodup (fst (fold_left (fun acc m => let '(c', e) := respond now res (fst acc) m in (c', snd acc ++ e)) ms (c, e))).
Proof.
  induction ms as [|m t IH]; intros c e H; [exact H|]. cbn [fold_left fst snd].
  pose proof (respond_keys now res c m H) as Hk. destruct (respond now res c m) as [c' e']. apply IH. exact Hk.
Qed.

Lemma refresh_all_keys now res : forall c qs, keys_nodup c -> keys_nodup (fst (fold_left (refresh_one now) res (c, qs))).
Proof.
  induction res as [|r t IH]; intros c qs H; [exact H|]. cbn [fold_left].
  assert (Hk : keys_nodup (fst (refresh_one now (c, qs) r))).
  { unfold refresh_one. destruct (aget (r_key r) c); [|exact H]. cbn [fst]. apply aset_keys_nodup. exact H. }
  destruct (refresh_one now (c, qs) r) as [c' qs']. apply IH. exact Hk.
Qed.

Lemma evict_keys now c : keys_nodup c -> keys_nodup (evict_cache now c).
Proof.
  unfold keys_nodup, evict_cache. induction c as [|[k b] t IH]; simpl; intros H; [constructor|].
  inversion H; subst. destruct (filter _ b); simpl; [apply IH; assumption|].
  constructor; [|apply IH; assumption].
  intros Hin. apply H2. apply in_map_iff in Hin as [[k1 b1] [E Hin]]. simpl in E. subst k1.
  apply filter_In in Hin as [Hin _]. apply in_map_iff in Hin as [[k2 b2] [E2 Hin]]. inversion E2; subst.
  apply (in_map fst) in Hin. exact Hin.
Qed.

Lemma bucket_of_evict now c k :
  keys_nodup c -> bucket_of (evict_cache now c) k = filter (fun r => negb (a_expired now r)) (bucket_of c k).
Proof.
  unfold keys_nodup, bucket_of, evict_cache. induction c as [|[k0 b0] t IH]; simpl; intros H; [reflexivity|].
  inversion H; subst. specialize (IH H3).
  destruct (beq k k0) eqn:E.
  - apply beq_eq in E. subst k0.
    destruct (filter (fun r => negb (a_expired now r)) b0) as [|y b'] eqn:Ef; simpl; [|rewrite beq_refl; reflexivity].
    (* the bucket became empty and was dropped; no other bucket has this name *)
    destruct (aget k (filter _ (map _ t))) as [b1|] eqn:Eg; [|reflexivity]. exfalso.
    apply aget_In in Eg as [k' [Ek Hin]]. subst k'. apply filter_In in Hin as [Hin _].
    apply in_map_iff in Hin as [[k2 b2] [E2 Hin]]. inversion E2; subst. apply H2. apply (in_map fst) in Hin. exact Hin.
  - destruct (filter (fun r => negb (a_expired now r)) b0); simpl; [exact IH|]. rewrite E. exact IH.
Qed.

(* ---------------------------------------------------------------- over the iterations of the machine *)
(* In one iteration at time `now` from a state whose cache is in order: for every search that is
   open at the end of the iteration and every record of its name that is in the cache after this
   iteration's responses and is due (80 % of its lifetime reached, not expired, not yet
   refreshed), the question (lower-cased name, A / AAAA) is among the queries sent in this
   iteration; and at the end no record of an open search's name is due any more. *)
Theorem refresh_while_open D prev p i :
  prev <= it_now i -> cache_good D prev (ss_cache p) -> keys_nodup (ss_cache p) ->
  let now := it_now i in
  let c1 := fst (respond_all now (res_view p) (ss_cache p) (it_msgs i)) in
  let p' := fst (sp_step p i) in
  keys_nodup (ss_cache p')
  /\ (forall k x, In k (ss_searches p') -> In x (bucket_of c1 (sk_key k)) -> refresh_wanted now x = true ->
               In [(sk_key k, addr_qtype (a_addr x))] (o_queries (snd (sp_step p i))))
  /\ (forall k x, In k (ss_searches p') -> In x (bucket_of (ss_cache p') (sk_key k)) -> refresh_wanted now x = false).
Proof.
  intros Hle Hc Hkn now c1 p'. subst c1 p'.
  set (D' := D ++ iter_delivs i).
  assert (Hc0 : cache_good D' prev (ss_cache p)) by (eapply cache_good_incl; [|exact Hc]; intros d Hd; apply in_or_app; auto).
  unfold sp_step. fold now. unfold sp_responses, respond_all.
  destruct (respond_all_good D' prev now (res_view p) (it_msgs i) (ss_cache p) [] Hle) as [H1 _];
    [intros d Hd; apply in_or_app; right; exact Hd|exact Hc0|intros ce []|].
  pose proof (respond_all_keys now (res_view p) (it_msgs i) (ss_cache p) [] Hkn) as Hk1.
  destruct (fold_left _ (it_msgs i) (ss_cache p, [])) as [c1 e1]. cbn [fst snd] in *.
  unfold sp_timeouts, sp_calls. cbn [fst snd ss_cache ss_searches ss_open].
  pose proof (sp_calls_cache now (it_calls i)
    (mkSst c1 (filter (fun k => negb (sk_timed_out now k)) (ss_searches p)) (ss_open p)) [] []) as H3c.
  destruct (fold_left _ (it_calls i) _) as [[p3 e3] q3]. cbn [fst snd ss_cache] in H3c.
  unfold sp_sends, sp_refresh, sp_evict, sp_closed, evict_all, refresh_all. cbn [fst snd ss_cache ss_searches ss_open].
  set (res4 := res_view (mkSst (ss_cache p3) (map (sk_fire now) (ss_searches p3)) (ss_open p3))).
  pose proof (refresh_all_complete now res4 (ss_cache p3) []) as Hcomp.
  pose proof (refresh_all_done now res4 (ss_cache p3) []) as Hdone.
  pose proof (refresh_all_keys now res4 (ss_cache p3) []) as Hk5.
  destruct (fold_left (refresh_one now) res4 (ss_cache p3, [])) as [c5 q5]. cbn [fst snd] in *.
  assert (Hwf : forall x, In x (entries c1) -> life_wf (a_life x)).
  { intros x Hx. destruct (proj1 H1 x Hx) as [_ [Hw _]]. exact Hw. }
  rewrite H3c in *. specialize (Hk5 Hk1).
  split; [apply evict_keys; exact Hk5|]. split.
  - intros k x Hk Hx Hw. apply in_or_app. right. apply in_or_app. right.
    apply (Hcomp (res_of k) x); [|exact Hx|exact Hw].
    unfold res4, res_view. cbn [ss_searches]. apply in_map. exact Hk.
  - intros k x Hk Hx. rewrite (bucket_of_evict now c5 _ Hk5) in Hx. apply filter_In in Hx as [Hx _].
    apply (Hdone Hwf (res_of k) x); [|exact Hx].
    unfold res4, res_view. cbn [ss_searches]. apply in_map. exact Hk.
Qed.

(* over histories: in every state the reference machine reaches, the cache has one bucket per
   name, and after each iteration no record of an open search's name is due for refresh *)
Lemma sp_keys_nodup h : forall p prev D,
  times_ok prev h = true -> cache_good D prev (ss_cache p) -> keys_nodup (ss_cache p) ->
  keys_nodup (ss_cache (sp_state_after p h)).
Proof.
  induction h as [|i t IH]; intros p prev D Ht Hc Hk; [exact Hk|]. simpl.
  simpl in Ht. apply andb_true_iff in Ht as [H1 H2]. apply N.leb_le in H1.
  destruct (refresh_while_open D prev p i H1 Hc Hk) as [Hk' _].
  destruct (sp_step_found D prev p i H1 Hc) as [Hg _].
  eapply IH; [exact H2|exact Hg|exact Hk'].
Qed.

Theorem refresh_over_histories h1 i h2 :
  times_ok 0 (h1 ++ i :: h2) = true ->
  let p := sp_state_after sst0 h1 in
  let now := it_now i in
  let c1 := fst (respond_all now (res_view p) (ss_cache p) (it_msgs i)) in
  let p' := fst (sp_step p i) in
  (forall k x, In k (ss_searches p') -> In x (bucket_of c1 (sk_key k)) -> refresh_wanted now x = true ->
               In [(sk_key k, addr_qtype (a_addr x))] (o_queries (snd (sp_step p i))))
  /\ (forall k x, In k (ss_searches p') -> In x (bucket_of (ss_cache p') (sk_key k)) -> refresh_wanted now x = false).
Proof.
  intros Ht p now c1 p'. subst p now c1 p'.
  apply times_ok_app in Ht as [Ht1 Ht2]. simpl in Ht2. apply andb_true_iff in Ht2 as [Hle _]. apply N.leb_le in Hle.
  assert (Hg : cache_good ([] ++ deliveries h1) (last_time 0 h1) (ss_cache (sp_state_after sst0 h1))).
  { apply sp_cache_good; [exact Ht1|]. split; [intros x []|intros k b []]. }
  assert (Hk : keys_nodup (ss_cache (sp_state_after sst0 h1))).
  { eapply (sp_keys_nodup h1 sst0 0 []); [exact Ht1| |constructor]. split; [intros x []|intros k b []]. }
  destruct (refresh_while_open _ _ _ i Hle Hg Hk) as [_ H]. exact H.
Qed.

(* non-vacuity: in the example history of Proofs/HostresRefine.v the sixth iteration (t = 1008100,
   80 % of the 10 s TTL) has an open search with a due record, and its question is sent *)
Lemma ex_refresh_ok :
  let p := sp_state_after sst0 (firstn 5 ex_hist) in
  let i := nth 5 ex_hist (mkIter 0 [] []) in
  existsb (fun k => existsb (refresh_wanted (it_now i))
                            (bucket_of (fst (respond_all (it_now i) (res_view p) (ss_cache p) (it_msgs i))) (sk_key k)))
          (ss_searches (fst (sp_step p i))) = true
  /\ o_queries (snd (sp_step p i)) = [[(name_a_local, 1)]].
Proof. vm_compute. split; reflexivity. Qed.
