(* The definitions regenerated from the Rust sources (Gen/ParamsLife.v, tools/params/life.py)
   are pinned here to the literal numbers and comparison directions the texts of C11 and C10
   use.  A changed constant or a flipped comparison in /repo makes one of these `reflexivity`
   proofs fail. *)
From Coq Require Import NArith Bool.
From Mdns Require Import ParamsLife.
Open Scope N_scope.

(* get_expiration_time: created is in ms, ttl in s, percent in %: ttl * percent * 10 ms *)
Lemma expiration_time_pinned c t p : expiration_time c t p = c + t * p * 10.
Proof. reflexivity. Qed.

(* DnsRecord::new: first refresh at 80 %, expiry at 100 % *)
Lemma new_percents_pinned : new_refresh_percent = 80 /\ new_expires_percent = 100.
Proof. split; reflexivity. Qed.

Lemma is_expired_pinned now e : is_expired_g now e = (e <=? now).          (* now >= expires *)
Proof. reflexivity. Qed.
Lemma expires_soon_pinned now e : expires_soon_g now e = (e <=? now + 1000) /\ expires_soon_lhs now = now + 1000.
Proof. split; reflexivity. Qed.
Lemma refresh_due_pinned now f : refresh_due_g now f = (f <=? now).        (* now >= refresh *)
Proof. reflexivity. Qed.
Lemma halflife_pinned now h : halflife_percent = 50 /\ halflife_passed_g now h = (h <? now).   (* now > halflife *)
Proof. split; reflexivity. Qed.
Lemma no_more_pinned : no_more_percent = 100.
Proof. reflexivity. Qed.

(* refresh_maybe: 80 -> 85 -> 90 -> 95 -> (refresh_no_more = 100); guard returns false *)
Lemma ladder_pinned :
  refresh_maybe_guard_returns = false /\
  ladder_from1 = 80 /\ ladder_to1 = 85 /\ ladder_from2 = 85 /\ ladder_to2 = 90 /\
  ladder_from3 = 90 /\ ladder_to3 = 95.
Proof. repeat split; reflexivity. Qed.

(* reset_ttl: expiry at 100 %; refresh at 80 % if ttl > 1, else at expiry *)
Lemma reset_pinned t :
  reset_expires_percent = 100 /\ reset_refresh_percent = 80 /\ reset_refresh_guard t = (1 <? t).
Proof. repeat split; reflexivity. Qed.

(* update_ttl: if now > created { ttl -= ((now - created) / 1000) as u32 } *)
Lemma update_ttl_pinned now c e :
  update_ttl_guard now c = (c <? now) /\ update_ttl_elapsed now c = now - c /\ update_ttl_dec e = e / 1000.
Proof. repeat split; reflexivity. Qed.

Lemma remaining_pinned m : remaining_percent = 100 /\ remaining_secs m = m / 1000.
Proof. split; reflexivity. Qed.

Lemma expire_sooner_pinned x e : expire_sooner_guard x e = (x <? e).
Proof. reflexivity. Qed.

(* suppressed_by_answer: other.ttl > self.ttl / 2 (integer division) *)
Lemma suppress_pinned mine theirs : suppress_ttl_cond mine theirs = (mine / 2 <? theirs).
Proof. reflexivity. Qed.
Lemma suppress_flush_pinned f : suppress_flush_override f = f.
Proof. reflexivity. Qed.
(* add_or_update: a record with TTL <= 1 renewed with TTL > 1 counts as new *)
Lemma revived_pinned o n : revived_cond o n = ((o <=? 1) && (1 <? n)).
Proof. reflexivity. Qed.

(* TTL 0 in a response is stored as 1 *)
Lemma ttl_zero_pinned t : ttl_zero_guard t = (t =? 0) /\ ttl_zero_becomes = 1.
Proof. split; reflexivity. Qed.

(* cache flush: same class, same type, created more than 1 s ago, expiring more than 1 s ahead;
   addresses additionally on the same interface; new expiry now + 1 s *)
Lemma flush_pinned cls rc ty rt now cr ex :
  flush_cond cls rc ty rt now cr ex = ((cls =? rc) && (ty =? rt) && (cr + 1000 <? now) && (now + 1000 <? ex)) /\
  flush_created_lhs cr = cr + 1000 /\ flush_now_rhs now = now + 1000 /\ flush_new_expire now = now + 1000.
Proof. repeat split; reflexivity. Qed.
Lemma flush_addr_pinned ty a b :
  flush_is_addr_type ty = ((ty =? 1) || (ty =? 28)) /\ flush_same_intf a b = (a =? b).
Proof. split; reflexivity. Qed.

(* known-answer list: shared records only *)
Lemma ka_shared_pinned u : ka_shared_filter u = negb u.
Proof. reflexivity. Qed.
