(* What add_or_update does to the buckets, entry by entry: every record of the new cache is
   (A) a record of the old cache, possibly with a lowered expiry (cache-flush), or
   (B) the incoming record, inserted as new, or
   (C) the incoming record written over a matching old one (reset_ttl), reported as new exactly
       when it was revived (old TTL <= 1, new TTL > 1). *)
From Coq Require Import List NArith Bool Lia.
From Mdns Require Import Bytes Rec ParamsBrowser ParamsBrowserPinned Cache Browser C03Spec CacheProofs CacheInvProofs.
Import ListNotations.
Open Scope N_scope.

Definition fl (r : rr) (ifx now : N) (e : entry) : entry := if r_flush r then flush_one r ifx now e else e.

Lemma fl_eshr r ifx now e : eshr e (fl r ifx now e).
Proof.
  unfold fl. destruct (r_flush r); [|apply eshr_refl].
  destruct (flush_one_fields r ifx now e) as (A & B & C). repeat split; auto. apply flush_one_le.
Qed.

Lemma fl_map r ifx now (b : bucket) :
  (if r_flush r then map (flush_one r ifx now) b else b) = map (fl r ifx now) b.
Proof. unfold fl. destruct (r_flush r); [reflexivity|]. symmetry. apply map_id. Qed.

Lemma fl_matches r ifx now e r' i : entry_matches (fl r ifx now e) r' i = entry_matches e r' i.
Proof. symmetry. apply id_eq_matches_l. apply eshr_id. apply fl_eshr. Qed.

Lemma update_first_cases r ifx now : forall (b : bucket) b2 e' rv,
  update_first (map (fl r ifx now) b) r ifx now = Some (b2, (e', rv)) ->
  (forall x, In x b2 -> (exists e, In e b /\ x = fl r ifx now e) \/ x = e')
  /\ exists e, In e b /\ entry_matches e r ifx = true /\ e' = reset_ttl (fl r ifx now e) r now
               /\ rv = revived_guard (e_ttl e) (r_ttl r).
Proof.
  induction b as [|e t IH]; intros b2 e' rv; simpl; [discriminate|].
  rewrite fl_matches. destruct (entry_matches e r ifx) eqn:E.
  - intros H. inversion H; subst. split.
    + intros x [<-|Hx]; [now right|]. left. apply in_map_iff in Hx as [y [<- Hy]]. exists y. auto.
    + exists e. repeat split; auto. destruct (fl_eshr r ifx now e) as (S1 & _). unfold e_ttl. now rewrite S1.
  - destruct (update_first (map (fl r ifx now) t) r ifx now) as [[t' [e1 rv1]]|] eqn:E2; [|discriminate].
    intros H. inversion H; subst. destruct (IH t' e' rv eq_refl) as [A (e0 & B & C & D & G)]. split.
    + intros x [<-|Hx]; [left; exists e; auto|]. destruct (A x Hx) as [[y [Hy Hxy]]|Hxe]; [left; exists y; auto|now right].
    + exists e0. auto.
Qed.

Theorem aou_cases c now ifx r fu k key b' e' :
  In (key, b') (get_map (fst (add_or_update c now ifx r fu)) k) -> In e' b' ->
  (exists b e, In (key, b) (get_map c k) /\ In e b /\ eshr e e')
  \/ (kind_of_type (r_type r) = Some k /\ key = key_of k (r_name r) /\
      ((e' = new_entry r now ifx /\ snd (add_or_update c now ifx r fu) = Some (e', true))
       \/ (exists b e, In (key, b) (get_map c k) /\ In e b /\ entry_matches e r ifx = true
             /\ e' = reset_ttl (fl r ifx now e) r now
             /\ snd (add_or_update c now ifx r fu) = Some (e', revived_guard (e_ttl e) (r_ttl r))))).
Proof.
  unfold add_or_update.
  assert (Hmaps : forall k0, get_map (note_subtype c r fu) k0 = get_map c k0) by (intros; apply note_subtype_maps).
  set (c1 := note_subtype c r fu) in *. clearbody c1.
  assert (Hold : forall key0 b0 e0, In (key0, b0) (get_map c1 k) -> In e0 b0 ->
            exists b e, In (key0, b) (get_map c k) /\ In e b /\ eshr e e0).
  { intros key0 b0 e0 H1 H2. rewrite Hmaps in H1. exists b0, e0. auto using eshr_refl. }
  destruct (kind_of_type (r_type r)) as [k0|] eqn:Ek; [|simpl; intros H1 H2; left; eauto].
  set (key0 := key_of k0 (r_name r)). set (m := get_map c1 k0).
  (* the map of kind k0 becomes bm_set key0 B m *)
  assert (Hset : forall B res,
            (forall x, In x B ->
               (exists b e, In (key0, b) (get_map c k0) /\ In e b /\ eshr e x)
               \/ ((x = new_entry r now ifx /\ res = Some (x, true))
                   \/ (exists b e, In (key0, b) (get_map c k0) /\ In e b /\ entry_matches e r ifx = true
                         /\ x = reset_ttl (fl r ifx now e) r now
                         /\ res = Some (x, revived_guard (e_ttl e) (r_ttl r))))) ->
            In (key, b') (get_map (fst (set_map c1 k0 (bm_set key0 B m), res)) k) -> In e' b' ->
            (exists b e, In (key, b) (get_map c k) /\ In e b /\ eshr e e')
            \/ (Some k0 = Some k /\ key = key_of k (r_name r) /\
                ((e' = new_entry r now ifx /\ snd (set_map c1 k0 (bm_set key0 B m), res) = Some (e', true))
                 \/ (exists b e, In (key, b) (get_map c k) /\ In e b /\ entry_matches e r ifx = true
                       /\ e' = reset_ttl (fl r ifx now e) r now
                       /\ snd (set_map c1 k0 (bm_set key0 B m), res) = Some (e', revived_guard (e_ttl e) (r_ttl r)))))).
  { intros B res HB Hin He. simpl in *. destruct (kind_dec k0 k) as [<-|Hne].
    - rewrite get_set_map_same in Hin. apply bm_set_In in Hin as [[-> ->]|Hin].
      + destruct (HB e' He) as [A|A]; [left; exact A|right]. split; [reflexivity|]. split; [reflexivity|exact A].
      + left. apply (Hold key b' e' Hin He).
    - rewrite get_set_map_other in Hin by assumption. left. apply (Hold key b' e' Hin He). }
  destruct (bm_get key0 m) as [b0|] eqn:Eg.
  - pose proof (bm_get_In _ _ _ Eg) as Hin0. unfold m in Hin0. rewrite Hmaps in Hin0.
    destruct b0 as [|e0 t0].
    + destruct fu; apply Hset.
      * intros x [<-|[]]. right. left. auto.
      * intros x [].
    + rewrite (fl_map r ifx now (e0 :: t0)).
      destruct (update_first (map (fl r ifx now) (e0 :: t0)) r ifx now) as [[b2 [x rv]]|] eqn:EU.
      * apply Hset. destruct (update_first_cases r ifx now _ _ _ _ EU) as [A (e & B & C & D & G)].
        intros y Hy. destruct (A y Hy) as [[e1 [He1 Hy1]]|Hyx].
        -- subst y. left. exists (e0 :: t0), e1. auto using fl_eshr.
        -- subst y. right. right. exists (e0 :: t0), e. subst. auto.
      * apply Hset. intros y [<-|Hy]; [right; left; auto|].
        apply in_map_iff in Hy as [e1 [<- He1]]. left. exists (e0 :: t0), e1. auto using fl_eshr.
  - destruct fu; apply Hset.
    + intros x [<-|[]]. right. left. auto.
    + intros x [].
Qed.

(* the pure-shrink relation between caches, as a statement about entries *)
Definition shrinks_to (c c' : cache) : Prop :=
  forall k key b' e', In (key, b') (get_map c' k) -> In e' b' ->
    exists b e, In (key, b) (get_map c k) /\ In e b /\ eshr e e'.

Lemma cshr_shrinks c c' : cshr c c' -> shrinks_to c c'.
Proof.
  intros H k key b' e' Hb He. destruct (H k) as [_ Hm]. destruct (Hm key b' Hb) as [->|[b [Hb0 Hs]]]; [destruct He|].
  destruct (bshr_in _ _ _ Hs He) as [e [A B]]. exists b, e. auto.
Qed.

Lemma shrinks_refl c : shrinks_to c c.
Proof. intros k key b e H1 H2. exists b, e. auto using eshr_refl. Qed.

Lemma shrinks_trans a b c : shrinks_to a b -> shrinks_to b c -> shrinks_to a c.
Proof.
  intros H1 H2 k key b' e' Hb He. destruct (H2 k key b' e' Hb He) as (b1 & e1 & A & B & C).
  destruct (H1 k key b1 e1 A B) as (b0 & e0 & D & E & G). exists b0, e0. split; [exact D|]. split; [exact E|]. eapply eshr_trans; eauto.
Qed.
