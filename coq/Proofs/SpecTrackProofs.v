(* The "spec cache" that chk_C04 / chk_C05 (Model/BrowserSpec.v) replay from the history IS the
   model's cache: after every iteration of every history the two agree on every record - name,
   type, class, cache-flush bit, TTL, rdata, created, expires, interface - in the same buckets
   and order, and on the browsed types; they may differ in the refresh marks only (the checkers
   do not replay refresh_active_services).  So the liveness judgements of the checkers
   (alive_strong / alive_weak / death_time, which read only those fields) are judgements
   about the state of the model. *)
From Coq Require Import List NArith Bool Lia.
From Mdns Require Import Res Bytes Rec Wire Txt ParamsBrowser Cache Browser C03Spec BrowserSpec CacheProofs.
Import ListNotations.
Open Scope N_scope.

Definition eqr (e e' : entry) : Prop :=
  e_rr e = e_rr e' /\ e_created e = e_created e' /\ e_expires e = e_expires e' /\ e_if e = e_if e'.

Definition beqr (b b' : bucket) : Prop := Forall2 eqr b b'.
Definition meqr (m m' : bmap) : Prop :=
  Forall2 (fun kb kb' => fst kb = fst kb' /\ beqr (snd kb) (snd kb')) m m'.
Definition ceqr (c c' : cache) : Prop :=
  meqr (c_ptr c) (c_ptr c') /\ meqr (c_srv c) (c_srv c') /\ meqr (c_txt c) (c_txt c')
  /\ meqr (c_addr c) (c_addr c') /\ meqr (c_nsec c) (c_nsec c') /\ c_sub c = c_sub c'.

Lemma eqr_refl e : eqr e e.
Proof. repeat split. Qed.
Lemma beqr_refl b : beqr b b.
Proof. induction b; constructor; auto using eqr_refl. Qed.
Lemma meqr_refl m : meqr m m.
Proof. induction m; constructor; auto using beqr_refl. Qed.
Lemma ceqr_refl c : ceqr c c.
Proof. repeat split; apply meqr_refl. Qed.

Lemma eqr_trans a b c : eqr a b -> eqr b c -> eqr a c.
Proof. intros (A1 & A2 & A3 & A4) (B1 & B2 & B3 & B4). repeat split; congruence. Qed.
Lemma beqr_trans a : forall b c, beqr a b -> beqr b c -> beqr a c.
Proof.
  induction a as [|x a IH]; intros b c H1 H2.
  - inversion H1; subst. inversion H2; subst. constructor.
  - inversion H1 as [|? y ? b' Hxy Hab]; subst. inversion H2 as [|? z ? c' Hyz Hbc]; subst.
    constructor; [eapply eqr_trans; eauto|eapply IH; eauto].
Qed.
Lemma meqr_trans a : forall b c, meqr a b -> meqr b c -> meqr a c.
Proof.
  induction a as [|x a IH]; intros b c H1 H2.
  - inversion H1; subst. inversion H2; subst. constructor.
  - inversion H1 as [|? y ? b' [Hk1 Hb1] Hab]; subst. inversion H2 as [|? z ? c' [Hk2 Hb2] Hbc]; subst.
    constructor; [split; [congruence|eapply beqr_trans; eauto]|eapply IH; eauto].
Qed.
Lemma ceqr_trans a b c : ceqr a b -> ceqr b c -> ceqr a c.
Proof.
  intros (A1 & A2 & A3 & A4 & A5 & A6) (B1 & B2 & B3 & B4 & B5 & B6).
  repeat split; try (eapply meqr_trans; eauto). congruence.
Qed.

(* ---- functions that read rr / created / expires / if only --------------------------------------- *)

Lemma eqr_is_expired e e' now : eqr e e' -> is_expired e now = is_expired e' now.
Proof. intros (_ & _ & H & _). unfold is_expired. now rewrite H. Qed.

Lemma eqr_matches e e' r i : eqr e e' -> entry_matches e r i = entry_matches e' r i.
Proof. intros (H1 & _ & _ & H4). unfold entry_matches. now rewrite H1, H4. Qed.

Lemma beqr_live_only now b b' : beqr b b' -> beqr (live_only now b) (live_only now b').
Proof.
  intros H. induction H; simpl; [constructor|]. rewrite (eqr_is_expired _ _ now H).
  destruct (negb (is_expired y now)); [constructor|]; auto.
Qed.

Lemma beqr_nil_l b' : beqr [] b' -> b' = [].
Proof. intros H. inversion H. reflexivity. Qed.
Lemma beqr_is_nil b b' : beqr b b' -> match b with [] => true | _ => false end = match b' with [] => true | _ => false end.
Proof. intros H. inversion H; reflexivity. Qed.

Lemma meqr_get k m m' : meqr m m' ->
  match bm_get k m, bm_get k m' with
  | Some b, Some b' => beqr b b'
  | None, None => True
  | _, _ => False
  end.
Proof.
  intros H. induction H as [|[k1 b1] [k2 b2] t t' [Hk Hb] H IH]; simpl; [exact I|].
  simpl in Hk, Hb. subst k2. destruct (beq k k1); [exact Hb|exact IH].
Qed.

Lemma meqr_set k b b' m m' : beqr b b' -> meqr m m' -> meqr (bm_set k b m) (bm_set k b' m').
Proof.
  intros Hb H. induction H as [|[k1 b1] [k2 b2] t t' [Hk Hb1] H IH]; simpl.
  - constructor; [split; auto|constructor].
  - simpl in Hk, Hb1. subst k2. destruct (beq k k1); constructor; auto.
Qed.

Lemma meqr_remove k m m' : meqr m m' -> meqr (bm_remove k m) (bm_remove k m').
Proof.
  intros H. induction H as [|[k1 b1] [k2 b2] t t' [Hk Hb1] H IH]; simpl; [constructor|].
  simpl in Hk, Hb1. subst k2. destruct (beq k k1); [assumption|constructor; auto].
Qed.

Lemma meqr_sweep now m m' : meqr m m' -> meqr (sweep now m) (sweep now m').
Proof.
  intros H. unfold sweep. induction H as [|[k1 b1] [k2 b2] t t' [Hk Hb1] H IH]; simpl; [constructor|].
  simpl in Hk, Hb1. subst k2. pose proof (beqr_live_only now _ _ Hb1) as Hl.
  inversion Hl as [Ha Hb|x y l l' Hxy Hll Ha Hb]; simpl; [assumption|].
  constructor; [split; [reflexivity|]|assumption]. simpl. constructor; assumption.
Qed.

Lemma get_set_map_eqr c c' k m m' :
  ceqr c c' -> meqr m m' -> ceqr (set_map c k m) (set_map c' k m').
Proof. intros (A1 & A2 & A3 & A4 & A5 & A6) H. destruct k; repeat split; assumption. Qed.

Lemma ceqr_get_map c c' k : ceqr c c' -> meqr (get_map c k) (get_map c' k).
Proof. intros (A1 & A2 & A3 & A4 & A5 & A6). destruct k; assumption. Qed.

(* ---- add_or_update ------------------------------------------------------------------------------------ *)

Lemma eqr_flush_one r ifx now e e' : eqr e e' -> eqr (flush_one r ifx now e) (flush_one r ifx now e').
Proof.
  intros (H1 & H2 & H3 & H4). unfold flush_one, e_type. rewrite H1, H2, H3, H4.
  match goal with |- context [if ?c then _ else _] => destruct c end; repeat split; simpl; auto.
Qed.

Lemma eqr_reset e e' r now : eqr e e' -> reset_ttl e r now = reset_ttl e' r now.
Proof. intros (H1 & _ & _ & H4). unfold reset_ttl. now rewrite H1, H4. Qed.

Lemma beqr_update_first r ifx now b b' : beqr b b' ->
  match update_first b r ifx now, update_first b' r ifx now with
  | Some (b2, x), Some (b2', x') => beqr b2 b2' /\ x = x'
  | None, None => True
  | _, _ => False
  end.
Proof.
  intros H. induction H as [|e e' t t' He H IH]; simpl; [exact I|].
  rewrite (eqr_matches _ _ r ifx He). destruct (entry_matches e' r ifx).
  - rewrite (eqr_reset _ _ r now He). destruct He as (H1 & _). unfold e_ttl. rewrite H1.
    split; [constructor; [apply eqr_refl|assumption]|reflexivity].
  - destruct (update_first t r ifx now) as [[b2 x]|], (update_first t' r ifx now) as [[b2' x']|]; try contradiction; auto.
    destruct IH as [A B]. split; [constructor; assumption|assumption].
Qed.

Lemma ceqr_note_subtype c c' r fu : ceqr c c' -> ceqr (note_subtype c r fu) (note_subtype c' r fu).
Proof.
  intros H. pose proof H as (A1 & A2 & A3 & A4 & A5 & A6). unfold note_subtype.
  destruct ((r_type r =? TY_PTR) && fu && has_sub_mark (r_name r)); [|assumption].
  destruct (r_data r); try assumption. rewrite A6. destruct (sub_get alias (c_sub c')); [assumption|].
  repeat split; simpl; auto.
Qed.

Lemma ceqr_add_or_update c c' now ifx r fu : ceqr c c' ->
  ceqr (fst (add_or_update c now ifx r fu)) (fst (add_or_update c' now ifx r fu))
  /\ match snd (add_or_update c now ifx r fu), snd (add_or_update c' now ifx r fu) with
     | Some (e, f), Some (e', f') => e = e' /\ f = f'
     | None, None => True
     | _, _ => False
     end.
Proof.
  intros H0. pose proof (ceqr_note_subtype c c' r fu H0) as H. unfold add_or_update.
  set (c1 := note_subtype c r fu) in *. set (c1' := note_subtype c' r fu) in *.
  destruct (kind_of_type (r_type r)) as [k|]; [|simpl; auto].
  pose proof (ceqr_get_map _ _ k H) as Hm.
  pose proof (meqr_get (key_of k (r_name r)) _ _ Hm) as Hg.
  destruct (bm_get (key_of k (r_name r)) (get_map c1 k)) as [b|],
           (bm_get (key_of k (r_name r)) (get_map c1' k)) as [b'|]; try contradiction.
  - inversion Hg as [|e e' t t' He Ht]; subst.
    + destruct fu; simpl; (split; [apply get_set_map_eqr; [assumption|apply meqr_set; [|assumption]]|auto]).
      * constructor; [apply eqr_refl|constructor].
      * constructor.
    + set (bb := if r_flush r then map (flush_one r ifx now) (e :: t) else e :: t).
      set (bb' := if r_flush r then map (flush_one r ifx now) (e' :: t') else e' :: t').
      assert (Hbb : beqr bb bb').
      { unfold bb, bb'. destruct (r_flush r); [|assumption].
        clear - Hg. induction Hg; simpl; constructor; auto using eqr_flush_one. }
      pose proof (beqr_update_first r ifx now _ _ Hbb) as Hu.
      destruct (update_first bb r ifx now) as [[b2 [x rv]]|], (update_first bb' r ifx now) as [[b2' [x' rv']]|];
        try contradiction; simpl.
      * destruct Hu as [A B]. inversion B; subst.
        split; [apply get_set_map_eqr; [assumption|apply meqr_set; assumption]|auto].
      * split; [apply get_set_map_eqr; [assumption|apply meqr_set; [|assumption]]|auto].
        constructor; [apply eqr_refl|assumption].
  - destruct fu; simpl; (split; [apply get_set_map_eqr; [assumption|apply meqr_set; [|assumption]]|auto]).
    + constructor; [apply eqr_refl|constructor].
    + constructor.
Qed.

Lemma ceqr_hr_records now ifx q fu rs : forall c c', ceqr c c' ->
  ceqr (fst (fst (hr_records c now ifx q fu rs))) (fst (fst (hr_records c' now ifx q fu rs)))
  /\ snd (hr_records c now ifx q fu rs) = snd (hr_records c' now ifx q fu rs).
Proof.
  induction rs as [|r rest IH]; intros c c' H; simpl; [auto|].
  destruct (ceqr_add_or_update c c' now ifx r fu H) as [H1 H2].
  destruct (add_or_update c now ifx r fu) as [c1 res], (add_or_update c' now ifx r fu) as [c1' res'].
  simpl in H1, H2. destruct (IH _ _ H1) as [H3 H4].
  assert (Hres : res = res').
  { destruct res as [[e f]|], res' as [[e' f']|]; try contradiction; auto. destruct H2; subst; reflexivity. }
  subst res'.
  destruct (hr_records c1 now ifx q fu rest) as [[c2 o2] ch2], (hr_records c1' now ifx q fu rest) as [[c2' o2'] ch2'].
  simpl in *. subst ch2'.
  destruct (match res with
            | Some (e, true) =>
              if (e_type e =? TY_PTR) && found_ttl_guard (e_ttl e)
              then (match q_get (e_name e) q with
                    | Some ch => [OEvt ch (EFound (e_name e) (alias_of (e_rr e)))]
                    | None => []
                    end, [(TY_PTR, alias_of (e_rr e))])
              else ([], [(e_type e, e_name e)])
            | _ => ([], [])
            end) as [o1 ch1]. simpl. auto.
Qed.

(* ---- the shrinking operations ------------------------------------------------------------------------- *)

Lemma meqr_keys m m' : meqr m m' -> map fst m = map fst m'.
Proof. intros H. induction H as [|? ? ? ? [Hk _] H IH]; simpl; [reflexivity|]. now rewrite Hk, IH. Qed.

Lemma srv_expired_eqr now m m' : meqr m m' -> srv_expired_of now m = srv_expired_of now m'.
Proof.
  intros H. unfold srv_expired_of. induction H as [|[k b] [k' b'] t t' [Hk Hb] H IH]; simpl; [reflexivity|].
  simpl in Hk, Hb. subst k'. pose proof (beqr_live_only now _ _ Hb) as Hl.
  rewrite (beqr_is_nil _ _ Hl). destruct (live_only now b'); simpl; now rewrite IH.
Qed.

Lemma meqr_evict_instances now ty se : forall ptrs ptrs' txt txt',
  beqr ptrs ptrs' -> meqr txt txt' ->
  meqr (fst (evict_instances now ty ptrs se txt)) (fst (evict_instances now ty ptrs' se txt'))
  /\ snd (evict_instances now ty ptrs se txt) = snd (evict_instances now ty ptrs' se txt').
Proof.
  induction ptrs as [|p rest IH]; intros ptrs' txt txt' Hp Ht; inversion Hp as [|? p' ? rest' Hpe Hr]; subst; simpl; [auto|].
  destruct Hpe as (H1 & _). rewrite H1.
  set (inst := alias_of (e_rr p')).
  pose proof (meqr_get inst _ _ Ht) as Hg.
  assert (Ht1 : meqr (match bm_get inst txt with Some tb => bm_set inst (live_only now tb) txt | None => txt end)
                     (match bm_get inst txt' with Some tb => bm_set inst (live_only now tb) txt' | None => txt' end)).
  { destruct (bm_get inst txt), (bm_get inst txt'); try contradiction; [|assumption].
    apply meqr_set; [now apply beqr_live_only|assumption]. }
  destruct (IH rest' _ _ Hr Ht1) as [A B].
  match goal with |- context [evict_instances now ty rest se ?a] => destruct (evict_instances now ty rest se a) as [t2 e2] end.
  match goal with |- context [evict_instances now ty rest' se ?a] => destruct (evict_instances now ty rest' se a) as [t2' e2'] end.
  simpl in *. subst. auto.
Qed.

Lemma meqr_evict_types now se : forall ptr ptr' txt txt',
  meqr ptr ptr' -> meqr txt txt' ->
  meqr (fst (fst (evict_types now ptr se txt))) (fst (fst (evict_types now ptr' se txt')))
  /\ meqr (snd (fst (evict_types now ptr se txt))) (snd (fst (evict_types now ptr' se txt')))
  /\ snd (evict_types now ptr se txt) = snd (evict_types now ptr' se txt').
Proof.
  induction ptr as [|[ty ptrs] rest IH]; intros ptr' txt txt' Hp Ht;
    inversion Hp as [|? [ty' ptrs'] ? rest' [Hk Hb] Hr]; subst; simpl; [repeat split; auto; constructor|].
  simpl in Hk, Hb. subst ty'.
  destruct (meqr_evict_instances now ty se ptrs ptrs' txt txt' Hb Ht) as [A B].
  destruct (evict_instances now ty ptrs se txt) as [t1 e1], (evict_instances now ty ptrs' se txt') as [t1' e1'].
  simpl in A, B. subst e1'.
  destruct (IH rest' t1 t1' Hr A) as (C & D & E).
  destruct (evict_types now rest se t1) as [[p2 t2] e2], (evict_types now rest' se t1') as [[p2' t2'] e2'].
  simpl in *. subst e2'. split; [|split; [assumption|]].
  - constructor; [split; [reflexivity|now apply beqr_live_only]|assumption].
  - f_equal. f_equal. clear - Hb. induction Hb as [|x y l l' Hxy Hl IH]; simpl; [reflexivity|].
    rewrite (eqr_is_expired _ _ now Hxy). destruct Hxy as (H1 & _).
    destruct (is_expired y now); simpl; rewrite ?H1, IH; reflexivity.
Qed.

Lemma ceqr_evict_services c c' now : ceqr c c' ->
  ceqr (fst (evict_services c now)) (fst (evict_services c' now))
  /\ snd (evict_services c now) = snd (evict_services c' now).
Proof.
  intros (A1 & A2 & A3 & A4 & A5 & A6). unfold evict_services. rewrite (srv_expired_eqr now _ _ A2).
  destruct (meqr_evict_types now (srv_expired_of now (c_srv c')) _ _ _ _ A1 A3) as (B & C & D).
  destruct (evict_types now (c_ptr c) (srv_expired_of now (c_srv c')) (c_txt c)) as [[p1 t1] e1],
           (evict_types now (c_ptr c') (srv_expired_of now (c_srv c')) (c_txt c')) as [[p1' t1'] e1'].
  simpl in *. split; [|assumption]. repeat split; simpl; auto using meqr_sweep.
Qed.

Lemma ceqr_evict_addr c c' now : ceqr c c' ->
  ceqr (fst (evict_addr c now)) (fst (evict_addr c' now)) /\ snd (evict_addr c now) = snd (evict_addr c' now).
Proof.
  intros (A1 & A2 & A3 & A4 & A5 & A6). unfold evict_addr. simpl. split.
  - repeat split; simpl; auto using meqr_sweep.
  - clear - A4. induction A4 as [|[k b] [k' b'] t t' [Hk Hb] H IH]; simpl; [reflexivity|].
    simpl in Hb. rewrite IH. f_equal. clear - Hb. induction Hb as [|x y l l' Hxy Hl IHb]; simpl; [reflexivity|].
    rewrite (eqr_is_expired _ _ now Hxy). destruct Hxy as (H1 & _).
    destruct (is_expired y now); simpl; [unfold e_name at 1 3; rewrite H1; f_equal; exact IHb|exact IHb].
Qed.

Lemma meqr_fold_remove l : forall m m', meqr m m' ->
  meqr (fold_left (fun m i => bm_remove i m) l m) (fold_left (fun m i => bm_remove i m) l m').
Proof. induction l; intros m m' H; simpl; [assumption|]. apply IHl. now apply meqr_remove. Qed.

Lemma beqr_map_rr {A} (f : rr -> A) b b' : beqr b b' -> map (fun e => f (e_rr e)) b = map (fun e => f (e_rr e)) b'.
Proof. intros H. induction H as [|x y l l' (H1 & _) Hl IH]; simpl; [reflexivity|]. now rewrite H1, IH. Qed.

Lemma all_hosts_eqr m m' : meqr m m' -> all_srv_hosts_lower m = all_srv_hosts_lower m'.
Proof.
  intros H. unfold all_srv_hosts_lower. induction H as [|[k b] [k' b'] t t' [Hk Hb] H IH]; simpl; [reflexivity|].
  simpl in Hb. rewrite IH. f_equal. apply (beqr_map_rr (fun r => lower (rr_host r)) _ _ Hb).
Qed.

Lemma ceqr_remove_service_type c c' ty : ceqr c c' -> ceqr (remove_service_type c ty) (remove_service_type c' ty).
Proof.
  intros H. pose proof H as (A1 & A2 & A3 & A4 & A5 & A6). unfold remove_service_type.
  pose proof (meqr_get ty _ _ A1) as Hg.
  destruct (bm_get ty (c_ptr c)) as [ptrs|], (bm_get ty (c_ptr c')) as [ptrs'|]; try contradiction; [|assumption].
  assert (Hi : map (fun p => alias_of (e_rr p)) ptrs = map (fun p => alias_of (e_rr p)) ptrs')
    by apply (beqr_map_rr alias_of _ _ Hg).
  rewrite Hi. set (insts := map (fun p => alias_of (e_rr p)) ptrs').
  assert (Hh : flat_map (fun i => match bm_get i (c_srv c) with Some sb => map (fun e => lower (srv_host e)) sb | None => [] end) insts
             = flat_map (fun i => match bm_get i (c_srv c') with Some sb => map (fun e => lower (srv_host e)) sb | None => [] end) insts).
  { induction insts as [|i l IH]; simpl; [reflexivity|]. rewrite IH. f_equal.
    pose proof (meqr_get i _ _ A2) as Hgi.
    destruct (bm_get i (c_srv c)), (bm_get i (c_srv c')); try contradiction; [|reflexivity].
    apply (beqr_map_rr (fun r => lower (rr_host r)) _ _ Hgi). }
  rewrite Hh. pose proof (meqr_fold_remove insts _ _ A2) as Hs.
  rewrite (all_hosts_eqr _ _ Hs).
  repeat split; simpl; auto using meqr_remove, meqr_fold_remove.
  match goal with |- meqr (fold_left _ ?l _) (fold_left _ ?l _) => generalize l end.
  intros l. revert A4. generalize (c_addr c) (c_addr c'). induction l as [|h l IH]; intros m m' Hm; simpl; [assumption|].
  apply IH. destruct (mem h _); [assumption|now apply meqr_remove].
Qed.

Lemma eqr_expire_sooner e e' x : eqr e e' -> eqr (expire_sooner e x) (expire_sooner e' x).
Proof.
  intros (H1 & H2 & H3 & H4). unfold expire_sooner. rewrite H3.
  destruct (expire_sooner_guard x (e_expires e')); repeat split; simpl; auto.
Qed.

Lemma beqr_sooner_all at_ b b' : beqr b b' -> beqr (sooner_all at_ b) (sooner_all at_ b').
Proof.
  intros H. destruct at_; simpl; [|assumption]. induction H; simpl; constructor; auto using eqr_expire_sooner.
Qed.

Lemma meqr_verify_addrs at_ : forall srvs srvs' addr addr',
  beqr srvs srvs' -> meqr addr addr' -> meqr (verify_addrs at_ srvs addr) (verify_addrs at_ srvs' addr').
Proof.
  induction srvs as [|s rest IH]; intros srvs' addr addr' Hs Ha; inversion Hs as [|? s' ? rest' Hse Hr]; subst; simpl; [assumption|].
  destruct Hse as (H1 & _). unfold srv_host. rewrite H1.
  pose proof (meqr_get (lower (rr_host (e_rr s'))) _ _ Ha) as Hg.
  apply IH; [assumption|].
  destruct (bm_get (lower (rr_host (e_rr s'))) addr), (bm_get (lower (rr_host (e_rr s'))) addr'); try contradiction; [|assumption].
  apply meqr_set; [now apply beqr_sooner_all|assumption].
Qed.

Lemma ceqr_verify c c' inst at_ : ceqr c c' ->
  ceqr (fst (service_verify_queries c inst at_)) (fst (service_verify_queries c' inst at_))
  /\ snd (service_verify_queries c inst at_) = snd (service_verify_queries c' inst at_).
Proof.
  intros H. pose proof H as (A1 & A2 & A3 & A4 & A5 & A6). unfold service_verify_queries.
  pose proof (meqr_get inst _ _ A2) as Hg.
  destruct (bm_get inst (c_srv c)) as [sb|], (bm_get inst (c_srv c')) as [sb'|]; try contradiction; [|auto].
  simpl. split.
  - repeat split; simpl; auto.
    + apply meqr_set; [now apply beqr_sooner_all|assumption].
    + now apply meqr_verify_addrs.
  - f_equal. clear - Hg. induction Hg as [|x y l l' (H1 & _) Hl IH]; [reflexivity|].
    simpl. unfold srv_host in *. rewrite H1. f_equal. f_equal. exact IH.
Qed.

(* refresh_active_services changes refresh marks only *)
Lemma eqr_refresh_maybe e now : eqr e (fst (refresh_maybe e now)).
Proof. destruct (refresh_maybe_fields e now) as (A & B & C & D). repeat split; auto. Qed.

Lemma beqr_refresh_bucket now b : beqr b (fst (refresh_bucket now b)).
Proof.
  induction b as [|e t IH]; simpl; [constructor|].
  pose proof (eqr_refresh_maybe e now) as He.
  destruct (refresh_maybe e now) as [e' d], (refresh_bucket now t) as [t' d']. simpl in *. constructor; assumption.
Qed.

Lemma meqr_set_same k b b' m : bm_get k m = Some b -> beqr b b' -> meqr m (bm_set k b' m).
Proof.
  induction m as [|[k1 b1] t IH]; simpl; [discriminate|].
  destruct (beq k k1).
  - intros H Hb. inversion H; subst. constructor; [split; [reflexivity|exact Hb]|apply meqr_refl].
  - intros H Hb. constructor; [split; [reflexivity|apply beqr_refl]|apply IH; assumption].
Qed.

Lemma meqr_refresh_key now k m : meqr m (fst (refresh_key now k m)).
Proof.
  unfold refresh_key. destruct (bm_get k m) as [b|] eqn:E; [|apply meqr_refl].
  pose proof (beqr_refresh_bucket now b) as Hb. destruct (refresh_bucket now b) as [b' d]. simpl in *.
  eapply meqr_set_same; eauto.
Qed.

Lemma meqr_refresh_srv_txt now : forall insts srv txt,
  meqr srv (fst (fst (refresh_srv_txt now insts srv txt))) /\ meqr txt (snd (fst (refresh_srv_txt now insts srv txt))).
Proof.
  induction insts as [|i rest IH]; intros srv txt; simpl; [split; apply meqr_refl|].
  pose proof (meqr_refresh_key now i srv) as A. pose proof (meqr_refresh_key now i txt) as B.
  destruct (refresh_key now i srv) as [s1 d1], (refresh_key now i txt) as [t1 d2]. simpl in A, B.
  destruct (IH s1 t1) as [C D]. destruct (refresh_srv_txt now rest s1 t1) as [[s2 t2] q]. simpl in *.
  split; eapply meqr_trans; eauto.
Qed.

Lemma meqr_refresh_hosts now : forall hosts addr, meqr addr (fst (refresh_hosts now hosts addr)).
Proof.
  induction hosts as [|h rest IH]; intros addr; simpl; [apply meqr_refl|].
  pose proof (meqr_refresh_key now (lower h) addr) as A.
  destruct (refresh_key now (lower h) addr) as [a1 d]. simpl in A.
  specialize (IH a1). destruct (refresh_hosts now rest a1) as [a2 q]. simpl in *. eapply meqr_trans; eauto.
Qed.

Lemma ceqr_refresh_type c ty now : ceqr c (fst (refresh_type c ty now)).
Proof.
  unfold refresh_type.
  pose proof (meqr_refresh_key now ty (c_ptr c)) as A. destruct (refresh_key now ty (c_ptr c)) as [p1 d0]. simpl in A.
  match goal with |- context [refresh_srv_txt now ?i ?s ?t] =>
    pose proof (meqr_refresh_srv_txt now i s t) as [B C]; destruct (refresh_srv_txt now i s t) as [[s1 t1] q1] end.
  match goal with |- context [refresh_hosts now ?h ?a] =>
    pose proof (meqr_refresh_hosts now h a) as D; destruct (refresh_hosts now h a) as [a1 q2] end.
  simpl in *. repeat split; simpl; auto using meqr_refl.
Qed.

Lemma ceqr_refresh_all now : forall q c, ceqr c (fst (refresh_all c now q)).
Proof.
  induction q as [|[ty ch] rest IH]; intros c; simpl; [apply ceqr_refl|].
  pose proof (ceqr_refresh_type c ty now) as A. destruct (refresh_type c ty now) as [c1 qs]. simpl in A.
  specialize (IH c1). destruct (refresh_all c1 now rest) as [c2 o]. simpl in *. eapply ceqr_trans; eauto.
Qed.

(* ---- the browser bookkeeping never touches cache / queriers other than as the spec replays ------------- *)

Definition tracks (s : st) (sp : spec) : Prop := ceqr (s_cache s) (sp_c sp) /\ s_q s = sp_q sp.

Lemma resolve_updated_state s now u :
  s_cache (fst (resolve_updated s now u)) = s_cache s /\ s_q (fst (resolve_updated s now u)) = s_q s.
Proof.
  unfold resolve_updated. destruct u as [|x xs]; [auto|].
  destruct (ru_types (s_cache s) now (s_q s) (x :: xs) (c_ptr (s_cache s)) (s_resolved s)) as [[[[o res] unres] rem] rset].
  simpl.
  assert (G1 : forall l s0, s_cache (fold_left mark_resolved l s0) = s_cache s0 /\ s_q (fold_left mark_resolved l s0) = s_q s0).
  { induction l as [|i l IH]; intros s0; simpl; [auto|]. destruct (IH (mark_resolved s0 i)) as [A B]. rewrite A, B. auto. }
  assert (G2 : forall l s0, s_cache (fold_left (fun s i => add_pending s now i) l s0) = s_cache s0
                            /\ s_q (fold_left (fun s i => add_pending s now i) l s0) = s_q s0).
  { induction l as [|i l IH]; intros s0; simpl; [auto|]. destruct (IH (add_pending s0 now i)) as [A B]. rewrite A, B.
    unfold add_pending. destruct (mem i (s_pending s0)); auto. }
  destruct (G2 (dedup unres) (fold_left mark_resolved (dedup res)
             (mkSt (s_cache s) (s_q s) (s_pending s) (fold_left (fun l i => set_remove i l) (map snd rem) rset) (s_retrans s)))) as [A B].
  destruct (G1 (dedup res) (mkSt (s_cache s) (s_q s) (s_pending s) (fold_left (fun l i => set_remove i l) (map snd rem) rset) (s_retrans s))) as [C D].
  rewrite A, B, C, D. auto.
Qed.

Lemma tracks_read ifs now s sp d : tracks s sp -> tracks (fst (handle_read ifs s now d)) (spec_dgram ifs now sp d).
Proof.
  intros [Hc Hq]. unfold handle_read, spec_dgram. destruct (accepted_msg ifs d) as [m|]; [|split; assumption].
  unfold handle_response, spec_msg. rewrite <- Hq.
  destruct (ceqr_hr_records now (d_if d) (s_q s) (for_us (s_q s) (m_answers m)) (msg_records m) _ _ Hc) as [A B].
  unfold msg_records in *.
  destruct (hr_records (s_cache s) now (d_if d) (s_q s) (for_us (s_q s) (m_answers m))
              (m_answers m ++ m_authorities m ++ m_additionals m)) as [[c1 o1] ch1].
  destruct (hr_records (sp_c sp) now (d_if d) (s_q s) (for_us (s_q s) (m_answers m))
              (m_answers m ++ m_authorities m ++ m_additionals m)) as [[c1' o1'] ch1']. simpl in *.
  destruct (resolve_updated_state (with_cache s c1) now (updated_of c1 ch1)) as [E F].
  destruct (resolve_updated (with_cache s c1) now (updated_of c1 ch1)) as [s2 o2]. simpl in *.
  split; [now rewrite E|now rewrite F].
Qed.

Lemma last_cons_default {A} (l : list A) : forall a d, last (a :: l) d = last l a.
Proof.
  induction l as [|x l IH]; intros a d; [reflexivity|].
  change (last (a :: x :: l) d) with (last (x :: l) d). rewrite IH. symmetry. apply IH.
Qed.

Lemma tracks_reads ifs now ds : forall s sp, tracks s sp ->
  tracks (fst (run_cmds (handle_read ifs) s now ds)) (last (scan (spec_dgram ifs now) sp ds) sp).
Proof.
  induction ds as [|d rest IH]; intros s sp H; [simpl; assumption|].
  pose proof (tracks_read ifs now s sp d H) as H1.
  simpl run_cmds. destruct (handle_read ifs s now d) as [s1 o1]. simpl in H1.
  specialize (IH s1 _ H1). destruct (run_cmds (handle_read ifs) s1 now rest) as [s2 o2].
  simpl fst in *. simpl scan. rewrite last_cons_default. exact IH.
Qed.

Lemma tracks_call now s sp cl : tracks s sp -> tracks (fst (exec_call s now cl)) (spec_call now sp cl).
Proof.
  intros [Hc Hq]. destruct cl as [ty ch|ty|inst timeout|ch]; simpl.
  - unfold exec_browse. destruct (bm_get ty (c_ptr (s_cache s))) as [ptrs|]; [|split; simpl; [assumption|now rewrite Hq]].
    destruct (qc_ptrs (s_cache s) now ty ch ptrs) as [[o res] unres]. simpl.
    assert (G : forall l1 l2 s0, let s' := fold_left (fun s i => add_pending s now i) l2 (fold_left mark_resolved l1 s0) in
                s_cache s' = s_cache s0 /\ s_q s' = s_q s0).
    { intros l1 l2. revert l1. induction l2 as [|i l2 IH2]; intros l1 s0; simpl.
      - revert s0. induction l1 as [|j l1 IH1]; intros s0; simpl; [auto|]. apply (IH1 (mark_resolved s0 j)).
      - assert (G0 : forall l s1, s_cache (fold_left mark_resolved l s1) = s_cache s1 /\ s_q (fold_left mark_resolved l s1) = s_q s1).
        { induction l as [|j l IHl]; intros s1; simpl; [auto|]. destruct (IHl (mark_resolved s1 j)) as [A B]. now rewrite A, B. }
        assert (G3 : forall l s1, s_cache (fold_left (fun s i => add_pending s now i) l s1) = s_cache s1
                                  /\ s_q (fold_left (fun s i => add_pending s now i) l s1) = s_q s1).
        { induction l as [|j l IHl]; intros s1; simpl; [auto|]. destruct (IHl (add_pending s1 now j)) as [A B]. rewrite A, B.
          unfold add_pending. destruct (mem j (s_pending s1)); auto. }
        destruct (G3 l2 (add_pending (fold_left mark_resolved l1 s0) now i)) as [A B].
        destruct (G0 l1 s0) as [C D]. rewrite A, B. unfold add_pending.
        destruct (mem i (s_pending (fold_left mark_resolved l1 s0))); simpl; auto. }
    destruct (G (dedup res) (dedup unres) (mkSt (s_cache s) (q_set ty ch (s_q s)) (s_pending s) (s_resolved s) (s_retrans s))) as [A B].
    split; simpl; [now rewrite A|now rewrite B, Hq].
  - unfold exec_stop. rewrite <- Hq. destruct (q_get ty (s_q s)); [|split; assumption].
    split; simpl; [now apply ceqr_remove_service_type|reflexivity].
  - unfold exec_verify.
    destruct (ceqr_verify _ _ inst (Some (now + timeout)) Hc) as [A B].
    destruct (service_verify_queries (s_cache s) inst (Some (now + timeout))) as [c1 qs]. simpl in *.
    destruct qs; simpl; split; assumption.
  - split; assumption.
Qed.

Lemma tracks_calls now cls : forall s sp, tracks s sp ->
  tracks (fst (run_cmds exec_call s now cls)) (fold_left (spec_call now) cls sp).
Proof.
  induction cls as [|c rest IH]; intros s sp H; simpl; [assumption|].
  pose proof (tracks_call now s sp c H) as H1. destruct (exec_call s now c) as [s1 o1]. simpl in H1.
  specialize (IH s1 _ H1). destruct (run_cmds exec_call s1 now rest) as [s2 o2]. simpl in *. assumption.
Qed.

Lemma tracks_rcmd now s sp c : tracks s sp -> tracks (fst (exec_rcmd s now c)) sp.
Proof.
  intros [Hc Hq]. destruct c as [inst n|inst timeout]; simpl.
  - unfold exec_resolve. destruct (if has_ptr_to (s_cache s) inst then query_unresolved (s_cache s) inst else (false, [])) as [sent o].
    destruct (sent && retry_guard n max_try); split; assumption.
  - unfold exec_verify.
    destruct (ceqr_verify (s_cache s) (s_cache s) inst None (ceqr_refl _)) as [_ _].
    assert (Hn : ceqr (fst (service_verify_queries (s_cache s) inst None)) (s_cache s)).
    { unfold service_verify_queries. destruct (bm_get inst (c_srv (s_cache s))) as [sb|] eqn:E; [|apply ceqr_refl].
      simpl. repeat split; simpl; try apply meqr_refl; try reflexivity.
      - apply meqr_trans with (c_srv (s_cache s)); [|apply meqr_refl].
        assert (G : forall m, bm_get inst m = Some sb -> bm_set inst sb m = m).
        { induction m as [|[k1 b1] t IH]; simpl; [discriminate|]. destruct (beq inst k1) eqn:Ek.
          - intros H. inversion H; subst. reflexivity.
          - intros H. now rewrite (IH H). }
        rewrite (G _ E). apply meqr_refl.
      - clear E. generalize (c_addr (s_cache s)). induction sb as [|x l IH]; intros m; simpl; [apply meqr_refl|].
        destruct (bm_get (lower (srv_host x)) m) as [ab|] eqn:Ea; [|apply IH].
        assert (G : forall m0, bm_get (lower (srv_host x)) m0 = Some ab -> bm_set (lower (srv_host x)) ab m0 = m0).
        { induction m0 as [|[k1 b1] t IH0]; simpl; [discriminate|]. destruct (beq (lower (srv_host x)) k1) eqn:Ek.
          - intros H. inversion H; subst. reflexivity.
          - intros H. now rewrite (IH0 H). }
        rewrite (G _ Ea). apply IH. }
    destruct (service_verify_queries (s_cache s) inst None) as [c1 qs]. simpl in *.
    destruct qs; simpl; (split; [eapply ceqr_trans; eauto|assumption]).
Qed.

Lemma tracks_retrans now s sp : tracks s sp -> tracks (fst (run_retrans s now)) sp.
Proof.
  intros H. unfold run_retrans.
  assert (G : forall l s0, tracks s0 sp -> tracks (fst (run_cmds exec_rcmd s0 now l)) sp).
  { induction l as [|c rest IH]; intros s0 H0; simpl; [assumption|].
    pose proof (tracks_rcmd now s0 sp c H0) as H1. destruct (exec_rcmd s0 now c) as [s1 o1]. simpl in H1.
    specialize (IH s1 H1). destruct (run_cmds exec_rcmd s1 now rest) as [s2 o2]. simpl in *. assumption. }
  apply G. destruct H as [Hc Hq]. split; assumption.
Qed.

Lemma resolve_hosts_state now names : forall s,
  s_cache (fst (resolve_hosts s now names)) = s_cache s /\ s_q (fst (resolve_hosts s now names)) = s_q s.
Proof.
  induction names as [|h t IH]; intros s; simpl; [auto|].
  destruct (resolve_updated_state s now (dedup (get_instances_on_host (s_cache s) h))) as [A B].
  destruct (resolve_updated s now (dedup (get_instances_on_host (s_cache s) h))) as [s1 o1]. simpl in *.
  destruct (IH s1) as [C D]. destruct (resolve_hosts s1 now t) as [s2 o2]. simpl in *. rewrite C, D. auto.
Qed.

Lemma ceqr_sym a b : ceqr a b -> ceqr b a.
Proof.
  assert (E : forall x y, eqr x y -> eqr y x) by (intros x y (A & B & C & D); repeat split; auto).
  assert (Bq : forall x y, beqr x y -> beqr y x) by (intros x y Hx; induction Hx; constructor; auto).
  assert (Mq : forall x y, meqr x y -> meqr y x).
  { intros x y Hx; induction Hx as [|? ? ? ? [Hk Hb] Hx IH]; constructor; auto. }
  intros (A1 & A2 & A3 & A4 & A5 & A6). repeat split; auto.
Qed.

Lemma tracks_evict now s sp : tracks s sp -> tracks (fst (evict s now)) (spec_evict now sp).
Proof.
  intros [Hc Hq]. unfold evict, spec_evict.
  destruct (ceqr_evict_services _ _ now Hc) as [E1 E2].
  destruct (evict_services (s_cache s) now) as [c5 ex], (evict_services (sp_c sp) now) as [c5' ex'].
  cbn [fst snd] in E1, E2.
  destruct (ceqr_evict_addr _ _ now E1) as [F1 F2].
  destruct (evict_addr c5 now) as [c6 names], (evict_addr c5' now) as [c6' names']. cbn [fst snd] in F1, F2.
  destruct (resolve_hosts_state now (dedup names) (with_cache s c6)) as [G1 G2].
  destruct (resolve_hosts (with_cache s c6) now (dedup names)) as [s7 o7]. cbn [fst snd] in *.
  split; cbn [sp_c sp_q]; [rewrite G1; exact F1|rewrite G2; exact Hq].
Qed.

(* one iteration: the end-of-iteration snapshot of the checkers tracks the model state *)
Theorem tracks_iterate ifs s sp it :
  tracks s sp -> tracks (fst (iterate ifs s it)) (snd (iter_snaps ifs sp it)).
Proof.
  intros H. unfold iterate, iter_snaps. set (now := i_now it).
  pose proof (tracks_reads ifs now (deliveries_in_order (i_dgrams it)) s sp H) as H1.
  destruct (run_cmds (handle_read ifs) s now (deliveries_in_order (i_dgrams it))) as [s1 o1]. cbn [fst] in H1.
  pose proof (tracks_calls now (i_calls it) s1 _ H1) as H2.
  destruct (run_cmds exec_call s1 now (i_calls it)) as [s2 o2]. cbn [fst] in H2.
  pose proof (tracks_retrans now s2 _ H2) as H3.
  destruct (run_retrans s2 now) as [s3 o3]. cbn [fst] in H3.
  pose proof (ceqr_refresh_all now (s_q s3) (s_cache s3)) as H4.
  destruct (refresh_all (s_cache s3) now (s_q s3)) as [c4 o4]. cbn [fst] in H4.
  assert (H5 : tracks (with_cache s3 c4) (fold_left (spec_call now) (i_calls it)
                 (last (scan (spec_dgram ifs now) sp (deliveries_in_order (i_dgrams it))) sp))).
  { destruct H3 as [Hc Hq]. split; [|exact Hq]. cbn [with_cache s_cache].
    eapply ceqr_trans; [apply ceqr_sym; exact H4|exact Hc]. }
  pose proof (tracks_evict now _ _ H5) as H6.
  destruct (evict (with_cache s3 c4) now) as [s5 o5]. cbn [fst snd] in *. exact H6.
Qed.

(* all histories *)
Fixpoint spec_after (ifs : iftab) (sp : spec) (h : list iter) : spec :=
  match h with [] => sp | it :: t => spec_after ifs (snd (iter_snaps ifs sp it)) t end.

Fixpoint model_after (ifs : iftab) (s : st) (h : list iter) : st :=
  match h with [] => s | it :: t => model_after ifs (fst (iterate ifs s it)) t end.

Theorem spec_tracks_model ifs h :
  tracks (model_after ifs init_st h) (spec_after ifs init_spec h).
Proof.
  assert (G : forall h s sp, tracks s sp -> tracks (model_after ifs s h) (spec_after ifs sp h)).
  { induction h0 as [|it t IH]; intros s sp H; simpl; [assumption|]. apply IH. now apply tracks_iterate. }
  apply G. split; [apply ceqr_refl|reflexivity].
Qed.
